package chanobs

import (
	"crypto/sha256"
	"fmt"
	"math"
	"strings"

	"github.com/brocaar/lorawan/band"
	"verifharness/internal/cq"
)

// Op is one state-changing call.
type Op struct {
	Kind int    // 0 AddChannel(F, A, B); 1 DisableUplinkChannelIndex(A); 2 EnableUplinkChannelIndex(A)
	F    uint32 // frequency
	A, B int
}

func Add(f uint32, mn, mx int) Op { return Op{Kind: 0, F: f, A: mn, B: mx} }
func Disable(i int) Op            { return Op{Kind: 1, A: i} }
func Enable(i int) Op             { return Op{Kind: 2, A: i} }

func (o Op) Coq() string {
	switch o.Kind {
	case 0:
		return fmt.Sprintf("AddChannel %s %s %s", cq.Z(int64(o.F)), cq.Z(int64(o.A)), cq.Z(int64(o.B)))
	case 1:
		return "Disable " + cq.Z(int64(o.A))
	}
	return "Enable " + cq.Z(int64(o.A))
}

func (o Op) String() string {
	switch o.Kind {
	case 0:
		return fmt.Sprintf("AddChannel(%d,%d,%d)", o.F, o.A, o.B)
	case 1:
		return fmt.Sprintf("DisableUplinkChannelIndex(%d)", o.A)
	}
	return fmt.Sprintf("EnableUplinkChannelIndex(%d)", o.A)
}

// Apply runs the call under recover.
func (o Op) Apply(b band.Band) int {
	return Call(func() error {
		switch o.Kind {
		case 0:
			return b.AddChannel(o.F, o.A, o.B)
		case 1:
			return b.DisableUplinkChannelIndex(o.A)
		}
		return b.EnableUplinkChannelIndex(o.A)
	})
}

func OpsCoq(ops []Op) string {
	s := make([]string, len(ops))
	for i, o := range ops {
		s[i] = o.Coq()
	}
	return "[" + strings.Join(s, "; ") + "]"
}

func OpsStrings(ops []Op) []string {
	s := make([]string, len(ops))
	for i, o := range ops {
		s[i] = o.String()
	}
	return s
}

// Hash gives a short stable identifier of a printed value for case keys.
func Hash(parts ...interface{}) string {
	h := sha256.Sum256([]byte(fmt.Sprint(parts...)))
	return fmt.Sprintf("%x", h[:5])
}

// WeirdInts are the invalid / boundary integers every index stream includes.
var WeirdInts = []int{-1, -2, -16, -17, -32, math.MinInt64, math.MinInt64 + 1, math.MaxInt64, math.MaxInt64 - 15, 1 << 32, 1 << 40, 255, 256, 257, 4096, 65536}

// RandIndex: mostly valid for n channels, sometimes boundary or weird.
func RandIndex(r *cq.RNG, n int) int {
	switch r.Intn(10) {
	case 0:
		return WeirdInts[r.Intn(len(WeirdInts))]
	case 1:
		return n + r.Intn(3) - 1 // n-1, n, n+1
	case 2:
		return -r.Intn(3)
	}
	if n <= 0 {
		return 0
	}
	return r.Intn(n)
}

// RandFreq: multiples of 100 Hz near the band, duplicates of existing
// channels, non-multiples of 100 Hz, zero, and the 2.4 GHz / 32-bit extremes.
func RandFreq(r *cq.RNG, existing []Chan) uint32 {
	switch r.Intn(12) {
	case 0:
		return 0
	case 1, 2:
		if len(existing) > 0 {
			return existing[r.Intn(len(existing))].Freq
		}
	case 3:
		return uint32(400000000+r.Intn(600000000)) + uint32(1+r.Intn(99)) // not a multiple of 100
	case 4:
		return []uint32{1677721500, 1677721600, 1199999900, 4294967295, 4294967200, 2400000000, 2483400000, 100, 1677721599, 2400000100, 2450000300}[r.Intn(11)]
	case 5:
		return uint32(2400000000 + 100*r.Intn(800000))
	}
	base := uint32(863000000)
	if len(existing) > 0 {
		base = existing[0].Freq - existing[0].Freq%100000
		if base >= 2400000000 {
			return base + uint32(200*r.Intn(50000))
		}
	}
	return base + uint32(100*r.Intn(80000))
}

func RandDR(r *cq.RNG) int {
	switch r.Intn(12) {
	case 0:
		return -1 - r.Intn(3)
	case 1:
		return 16 + r.Intn(300)
	case 2:
		return 6 + r.Intn(10)
	}
	return r.Intn(6)
}

// RandHistory builds a history of up to maxOps calls for a fresh instance of
// cfg, tracking the channel count on a scratch instance.
func RandHistory(r *cq.RNG, cfg Config, maxOps int) []Op {
	b := cfg.New()
	extra := SupportsExtra(cfg)
	n := len(b.GetUplinkChannelIndices())
	k := r.Intn(maxOps + 1)
	var ops []Op
	// CFList-range channels are the common case for added channels
	for i := 0; i < k; i++ {
		var o Op
		c := r.Intn(10)
		switch {
		case c < 4:
			mn, mx := RandDR(r), RandDR(r)
			if r.Intn(2) == 0 {
				mn, mx = 0, 5
				if cfg.Name == band.ISM2400 && r.Intn(2) == 0 {
					mx = 7
				}
			}
			o = Add(RandFreq(r, Uplinks(b)), mn, mx)
			if !extra && r.Intn(4) != 0 {
				o = Disable(RandIndex(r, n))
			}
		case c < 8:
			o = Disable(RandIndex(r, n))
		default:
			o = Enable(RandIndex(r, n))
		}
		ops = append(ops, o)
		o.Apply(b)
		n = len(b.GetUplinkChannelIndices())
	}
	return ops
}

// Replay builds a fresh instance and applies the history; the outcome kinds
// of the calls are returned.
func Replay(cfg Config, ops []Op) (band.Band, []int) {
	b := cfg.New()
	ks := make([]int, len(ops))
	for i, o := range ops {
		ks[i] = o.Apply(b)
	}
	return b, ks
}

// RandIndexList: a device channel list, mostly valid, any order, duplicates,
// sometimes with invalid entries.
func RandIndexList(r *cq.RNG, n int) []int {
	var out []int
	for i := 0; i < n; i++ {
		if r.Intn(3) == 0 {
			out = append(out, i)
		}
	}
	for k := r.Intn(3); k > 0; k-- {
		out = append(out, RandIndex(r, n))
	}
	for i := len(out) - 1; i > 0; i-- {
		j := r.Intn(i + 1)
		out[i], out[j] = out[j], out[i]
	}
	return out
}

// RandOp draws one call the way RandHistory does; shadow is a scratch instance
// in the same state as the instance under test (only the scratch instance is
// read to make the choice), n its channel count.
func RandOp(r *cq.RNG, cfg Config, shadow band.Band, n int, extra bool) Op {
	c := r.Intn(10)
	switch {
	case c < 4:
		mn, mx := RandDR(r), RandDR(r)
		if r.Intn(2) == 0 {
			mn, mx = 0, 5
			if cfg.Name == band.ISM2400 && r.Intn(2) == 0 {
				mx = 7
			}
		}
		if !extra && r.Intn(4) != 0 {
			return Disable(RandIndex(r, n))
		}
		return Add(RandFreq(r, Uplinks(shadow)), mn, mx)
	case c < 8:
		return Disable(RandIndex(r, n))
	}
	return Enable(RandIndex(r, n))
}
