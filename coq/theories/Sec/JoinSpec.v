(* Join-procedure MICs and join-accept encryption transcribed from the
   specification: LoRaWAN 1.1 section 6.2.2 (join-request), 6.2.3 (join-accept),
   6.2.4 (rejoin-request), and LoRaWAN 1.0.x section 6.2.4 / 6.2.5.

   Join-request:    cmac = aes128_cmac(NwkKey, MHDR | JoinEUI | DevEUI | DevNonce),  MIC = cmac[0..3]
   Rejoin type 0/2: cmac = aes128_cmac(SNwkSIntKey, MHDR | RejoinType | NetID | DevEUI | RJcount0)
   Rejoin type 1:   cmac = aes128_cmac(JSIntKey, MHDR | RejoinType | JoinEUI | DevEUI | RJcount1)
   Join-accept, OptNeg unset (1.0):
     cmac = aes128_cmac(NwkKey, MHDR | JoinNonce | NetID | DevAddr | DLSettings | RxDelay | CFList)
   Join-accept, OptNeg set (1.1):
     cmac = aes128_cmac(JSIntKey, JoinReqType | JoinEUI | DevNonce | MHDR | JoinNonce | NetID | DevAddr
                                  | DLSettings | RxDelay | CFList)
     JoinReqType = 0xFF join-request, 0x00 / 0x01 / 0x02 rejoin-request type 0 / 1 / 2
   Join-accept encryption (the network uses an AES *decrypt* operation in ECB mode so that
   the end-device only needs AES encrypt):
     aes128_decrypt(NwkKey or JSEncKey, JoinNonce | NetID | DevAddr | DLSettings | RxDelay | CFList | MIC)
   The message is 16 or 32 bytes long.

   All multi-octet fields are little endian; EUIs and NetID are given here most
   significant byte first (as the 64/24-bit values are written) and transmitted
   least significant byte first. *)
From Coq Require Import List NArith Bool.
From LW Require Import Base.Bytes Crypto.AES Crypto.CMAC.
Import ListNotations.
Open Scope N_scope.

Definition mic_of (key msg : list N) : list N := firstn 4 (cmac key msg).

Definition spec_join_request_mic (nwkkey : list N) (mhdr : N) (joineui deveui : list N) (devnonce : N) : list N :=
  mic_of nwkkey ([mhdr] ++ rev joineui ++ rev deveui ++ le_bytes 2 devnonce).

Definition spec_rejoin02_mic (snwksintkey : list N) (mhdr : N) (rejointype : N) (netid deveui : list N)
           (rjcount0 : N) : list N :=
  mic_of snwksintkey ([mhdr] ++ [rejointype] ++ rev netid ++ rev deveui ++ le_bytes 2 rjcount0).

Definition spec_rejoin1_mic (jsintkey : list N) (mhdr : N) (joineui deveui : list N) (rjcount1 : N) : list N :=
  mic_of jsintkey ([mhdr] ++ [1] ++ rev joineui ++ rev deveui ++ le_bytes 2 rjcount1).

(* [body] = JoinNonce | NetID | DevAddr | DLSettings | RxDelay | CFList as transmitted *)
Definition spec_join_accept_mic_10 (nwkkey : list N) (mhdr : N) (body : list N) : list N :=
  mic_of nwkkey ([mhdr] ++ body).

Definition spec_join_accept_mic_11 (jsintkey : list N) (joinreqtype : N) (joineui : list N) (devnonce : N)
           (mhdr : N) (body : list N) : list N :=
  mic_of jsintkey ([joinreqtype] ++ rev joineui ++ le_bytes 2 devnonce ++ [mhdr] ++ body).

(* ECB over the 16-byte blocks of a message whose length is a multiple of 16 *)
Fixpoint blocks16 (n : nat) (m : list N) : list (list N) :=
  match n with
  | O => []
  | S n' => firstn 16 m :: blocks16 n' (skipn 16 m)
  end.

Definition spec_join_accept_ciphertext (key : list N) (body mic : list N) : list N :=
  let m := body ++ mic in
  concat (map (aes_decrypt key) (blocks16 (Nat.div (length m) 16) m)).

(* what the end-device does with the received ciphertext *)
Definition device_decrypt (key : list N) (ct : list N) : list N :=
  concat (map (aes_encrypt key) (blocks16 (Nat.div (length ct) 16) ct)).
