(* The frame decoders once more, with every Go slice expression and index
   written through go_slice / go_index (which return Panic exactly when Go
   panics).  Frame/TotalProofs.v shows this checked decoder equals the value
   model Frame/Model.v on every input, hence never panics (C09). *)
From Coq Require Import List NArith ZArith Bool.
From LW Require Import Base.Outcome Base.Bytes Mac.Commands Mac.Stream Frame.Model.
Import ListNotations.
Open Scope N_scope.

Definition zlen {A} (l : list A) : Z := Z.of_nat (length l).

(* FHDR.UnmarshalBinary: data[0:4], data[4:5], data[5:7], data[7:] *)
Definition fhdr_unmarshal_chk (data : list N) : outcome fhdr :=
  if (zlen data <? 7)%Z then Err else
  do da <- go_slice data 0 4;
  do cb <- go_slice data 4 5;
  do c0 <- go_index cb 0;
  do fc <- go_slice data 5 7;
  do opts <- (if (7 <? zlen data)%Z then do o <- go_slice data 7 (zlen data); Ok [IData o] else Ok []);
  Ok (mkFHDR (rev da) (fctrl_unmarshal c0) (le_val fc) opts).

(* MACPayload.UnmarshalBinary: data[4:5], data[0:7+fOptsLen], data[7+fOptsLen], data[7+fOptsLen+1:] *)
Definition mac_unmarshal_chk (data : list N) : outcome macpayload :=
  let n := zlen data in
  if (n <? 7)%Z then Err else
  do cb <- go_slice data 4 5;
  do c0 <- go_index cb 0;
  let ol := Z.of_N (N.land c0 15) in
  if (n <? 7 + ol)%Z then Err else
  do hb <- go_slice data 0 (7 + ol);
  do h <- fhdr_unmarshal_chk hb;
  do port <- (if (7 + ol <? n)%Z then do p <- go_index data (7 + ol); Ok (Some p) else Ok None);
  match port with
  | Some 0 => if (0 <? ol)%Z then Err else
              if (7 + ol + 1 <? n)%Z then do f <- go_slice data (7 + ol + 1) n; Ok (mkMAC h port [IData f])
              else Ok (mkMAC h port [])
  | _ => if (7 + ol + 1 <? n)%Z then do f <- go_slice data (7 + ol + 1) n; Ok (mkMAC h port [IData f])
         else Ok (mkMAC h port [])
  end.

(* PHYPayload.UnmarshalBinary: data[0:1], data[1], data[1:len-4], data[len-4+i] *)
Definition phy_unmarshal_chk (data : list N) : outcome phy :=
  let n := zlen data in
  if (n <? 5)%Z then Err else
  do hb <- go_slice data 0 1;
  do b0 <- go_index hb 0;
  let mt := N.shiftr b0 5 in
  let mj := N.land b0 3 in
  do body <- go_slice data 1 (n - 4);
  do m0 <- go_index data (n - 4); do m1 <- go_index data (n - 3);
  do m2 <- go_index data (n - 2); do m3 <- go_index data (n - 1);
  do p <-
    (if mt =? JoinRequest then
       if negb (zlen body =? 18)%Z then Err else
       do je <- go_slice body 0 8; do de <- go_slice body 8 16; do dn <- go_slice body 16 18;
       Ok (PLJoinRequest (rev je) (rev de) (le_val dn))
     else if (mt =? JoinAccept) || (mt =? Proprietary) then Ok (PLData body)
     else if mt =? RejoinRequest then
       do ty <- go_index data 1;
       if (ty =? 0) || (ty =? 2) then
         if negb (zlen body =? 14)%Z then Err else
         do t <- go_index body 0; do nid <- go_slice body 1 4; do de <- go_slice body 4 12; do rc <- go_slice body 12 14;
         Ok (PLRejoin02 t (rev nid) (rev de) (le_val rc))
       else if ty =? 1 then
         if negb (zlen body =? 19)%Z then Err else
         do t <- go_index body 0; do je <- go_slice body 1 9; do de <- go_slice body 9 17; do rc <- go_slice body 17 19;
         Ok (PLRejoin1 t (rev je) (rev de) (le_val rc))
       else Err
     else do m <- mac_unmarshal_chk body; Ok (PLMac m));
  Ok (mkPHY mt mj p [m0; m1; m2; m3]).
