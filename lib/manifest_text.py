"""Texts for MANIFEST.json."""
BASELINE_OFF = "cd /repo && go test -vet=off -count=1 ./..."
HOOK_COMMITS = ["170ceabda4c0e4edd653ee0af5b8059dda7c750b", "1edb0ce1dcb27fd26ab6f5b17b534b9fd40c28c7"]
NOTES = ("All checks share ./check (python driver). Each run rebuilds the Go harness against /repo's working tree, "
         "re-dumps tables into coq/gen, rebuilds the Coq proofs that depend on them (full .vo), evaluates the model and the "
         "executable property on implementation-observed cases inside Coq, and writes evidence/<id>.json. "
         "known/Cxx.json (known findings: status known | fixed) are read-only at run time.")

# properties not (yet) claimed by a check; kept current as checks are added
NOT_APPLICABLE = {
 "C%02d" % i: "check not built yet in this round (work in progress; the technique applies, see DESIGN.md §5)" for i in range(1, 21)
}

import json, glob, os
TEXT = {}
for f in sorted(glob.glob(os.path.join(os.path.dirname(os.path.abspath(__file__)), "cfg", "C*.json"))):
    TEXT[os.path.basename(f)[:-5]] = json.load(open(f)).get("manifest", {"text": "", "note": "", "technique": ""})
