(* C05: end-to-end exchange.  Part 1: the receiver's validation is exactly
   "carried MIC = specification MIC" for whatever bytes, keys, role, counters
   and parameters it is run with. *)
From Coq Require Import List NArith ZArith Bool Lia Arith.
From Coq Require Import ZifyN ZifyNat ZifyBool.
From LW Require Import Base.Outcome Base.Bytes Crypto.AES Crypto.CMAC Mac.Commands Mac.Spec Mac.Stream
     Frame.Model Frame.Spec Frame.CanonProofs Sec.MIC Sec.MICSpec Sec.MICProofs Sec.Encrypt Sec.EncryptSpec
     Sec.EncryptProofs Sec.EndToEnd.
Import ListNotations.
Open Scope N_scope.
Ltac Zify.zify_post_hook ::= Z.div_mod_to_equations.

(* the specification MIC for a receiver in role [up] *)
Definition spec_data_mic (ver : macver) (up : bool) (k : keys) (prm : micparams)
           (a : bool) (da : list N) (fc : N) (msg : list N) : list N :=
  if up then spec_up_mic (spec_version ver) (fnwksint k) (snwksint k) (conf prm) (txdr prm) (txch prm) a da fc msg
  else spec_down_mic (spec_version ver) (snwksint k) (conf prm) a da fc msg.

Lemma phy_unmarshal_mic bs p : phy_unmarshal bs = Ok p -> mic p = skipn (length bs - 4) bs.
Proof.
  unfold phy_unmarshal. destruct (length bs <? 5)%nat; [discriminate|].
  match goal with |- bind ?x _ = _ -> _ => destruct x end; cbn [bind]; try discriminate.
  now intros [= <-].
Qed.

Lemma validate_data_iff ver up k prm p b :
  validate_data_mic ver up k prm p = Ok b ->
  exists m msg, pl p = PLMac m /\ mic_bytes p m = Ok msg /\
    (length (devaddr (hdr m)) = 4%nat -> (length msg < 256)%nat ->
     b = bytes_eqb (mic p) (spec_data_mic ver up k prm (ack (fc (hdr m))) (devaddr (hdr m)) (fcnt (hdr m)) msg)).
Proof.
  unfold validate_data_mic, spec_data_mic. destruct up; intros H.
  - destruct (validate_up_iff _ _ _ _ _ _ _ _ H) as (m & msg & Hp & Hm & Hiff).
    exists m, msg. split; [exact Hp|]. split; [exact Hm|]. intros Hd Hl. specialize (Hiff Hd Hl).
    destruct b.
    + symmetry. apply bytes_eqb_eq. now apply Hiff.
    + destruct (bytes_eqb _ _) eqn:E; [|reflexivity]. apply bytes_eqb_eq in E. apply Hiff in E. discriminate.
  - destruct (validate_down_iff _ _ _ _ _ H) as (m & msg & Hp & Hm & Hiff).
    exists m, msg. split; [exact Hp|]. split; [exact Hm|]. intros Hd Hl. specialize (Hiff Hd Hl).
    destruct b.
    + symmetry. apply bytes_eqb_eq. now apply Hiff.
    + destruct (bytes_eqb _ _) eqn:E; [|reflexivity]. apply bytes_eqb_eq in E. apply Hiff in E. discriminate.
Qed.

(* C05 tamper: whatever (bytes, version, role, keys, parameters, full counter) the receiver runs its
   validation with, a result is exactly the comparison of the four carried bytes with the
   specification MIC of the frame it decoded (with its counter) under those parameters. *)
Theorem tamper ver up k prm full bs b :
  rx_validate ver up k prm full bs = Ok b ->
  exists p m msg,
    phy_unmarshal bs = Ok p /\ pl (set_fcnt full p) = PLMac m /\ mic_bytes (set_fcnt full p) m = Ok msg /\
    fcnt (hdr m) = full /\
    (length (devaddr (hdr m)) = 4%nat -> (length msg < 256)%nat ->
     b = bytes_eqb (skipn (length bs - 4) bs)
                   (spec_data_mic ver up k prm (ack (fc (hdr m))) (devaddr (hdr m)) full msg)).
Proof.
  unfold rx_validate. destruct (phy_unmarshal bs) as [p| | |] eqn:Hu; cbn [bind]; try discriminate.
  intros H. destruct (validate_data_iff _ _ _ _ _ _ H) as (m & msg & Hp & Hm & Hb).
  exists p, m, msg. split; [reflexivity|]. split; [exact Hp|]. split; [exact Hm|].
  assert (Hf : fcnt (hdr m) = full).
  { unfold set_fcnt in Hp. destruct (pl p) eqn:E; cbn [pl] in Hp; try (rewrite E in Hp; discriminate).
    injection Hp as <-. reflexivity. }
  split; [exact Hf|]. intros Hd Hl. rewrite (Hb Hd Hl), Hf. f_equal.
  rewrite <- (phy_unmarshal_mic _ _ Hu). unfold set_fcnt. destruct (pl p); reflexivity.
Qed.

(* ---- the same in terms of the received bytes ---- *)
Lemma mac_marshal_fcnt_congr h port f fc1 fc2 :
  fc1 mod 65536 = fc2 mod 65536 ->
  mac_marshal (mkMAC (mkFHDR (devaddr h) (fc h) fc1 (fopts h)) port f)
  = mac_marshal (mkMAC (mkFHDR (devaddr h) (fc h) fc2 (fopts h)) port f).
Proof.
  intros H. unfold mac_marshal, fhdr_marshal. cbn [hdr devaddr fc fcnt fopts fport frm].
  cbn [le_bytes]. replace (fc1 mod 256) with (fc2 mod 256) by lia.
  replace ((fc1 / 256) mod 256) with ((fc2 / 256) mod 256) by lia. reflexivity.
Qed.

Section TamperBytes.
  (* C08 (Frame/*Proofs.v, the lead): a decoded frame re-encodes to the bytes it was decoded from,
     for byte strings that are [canonical] (RFU bits of the MHDR zero, ...). *)
  Variable canonical : list N -> Prop.
  Hypothesis reencode : forall bs p, canonical bs -> phy_unmarshal bs = Ok p -> phy_marshal p = Ok bs.

  Lemma phy_unmarshal_mic_length bs p : phy_unmarshal bs = Ok p -> length (mic p) = 4%nat.
  Proof.
    intros H. rewrite (phy_unmarshal_mic _ _ H). rewrite skipn_length.
    unfold phy_unmarshal in H. destruct (length bs <? 5)%nat eqn:E; [discriminate|]. apply Nat.ltb_ge in E. lia.
  Qed.

  (* for canonical bytes and a receiver counter that extends the 16 bits on the wire, the
     authenticated message is exactly the received bytes without the MIC *)
  Theorem tamper_bytes ver up k prm full bs b :
    canonical bs -> rx_validate ver up k prm full bs = Ok b ->
    exists p m,
      phy_unmarshal bs = Ok p /\ pl p = PLMac m /\
      (full mod 65536 = fcnt (hdr m) mod 65536 ->
       length (devaddr (hdr m)) = 4%nat -> (length bs - 4 < 256)%nat ->
       b = bytes_eqb (skipn (length bs - 4) bs)
                     (spec_data_mic ver up k prm (ack (fc (hdr m))) (devaddr (hdr m)) full
                                    (firstn (length bs - 4) bs))).
  Proof.
    intros Hcan H. destruct (tamper _ _ _ _ _ _ _ H) as (p & m' & msg & Hu & Hp' & Hm' & Hf & Hb).
    pose proof (reencode bs p Hcan Hu) as Hre.
    unfold set_fcnt in Hp'. destruct (pl p) as [| | | |m| |] eqn:Hp; cbn [pl] in Hp'; try (rewrite Hp in Hp'; discriminate).
    injection Hp' as <-. exists p, m. split; [exact Hu|]. split; [exact Hp|].
    intros Hfull Hd Hl.
    assert (Emt : mtype (set_fcnt full p) = mtype p /\ major (set_fcnt full p) = major p)
      by (unfold set_fcnt; rewrite Hp; split; reflexivity).
    destruct Emt as [E1 E2].
    unfold mic_bytes in Hm'. rewrite E1, E2 in Hm'.
    rewrite (mac_marshal_fcnt_congr (hdr m) (fport m) (frm m) full (fcnt (hdr m)) Hfull) in Hm'.
    assert (Em : mkMAC (mkFHDR (devaddr (hdr m)) (fc (hdr m)) (fcnt (hdr m)) (fopts (hdr m))) (fport m) (frm m) = m)
      by (destruct m as [[? ? ? ?] ? ?]; reflexivity).
    rewrite Em in Hm'.
    unfold phy_marshal in Hre. rewrite Hp in Hre. cbn [payload_marshal] in Hre.
    destruct (mac_marshal m) as [bm| | |]; cbn [bind] in *; try discriminate.
    injection Hm' as <-. injection Hre as Hbs.
    pose proof (phy_unmarshal_mic_length _ _ Hu) as Hm4.
    assert (Hmsg : firstn (length bs - 4) bs = mhdr_marshal (mtype p) (major p) :: bm).
    { rewrite <- Hbs. cbn [app]. rewrite app_comm_cons.
      replace (length ((mhdr_marshal (mtype p) (major p) :: bm) ++ mic p) - 4)%nat
        with (length (mhdr_marshal (mtype p) (major p) :: bm)) by (rewrite app_length; lia).
      apply take_app_length. }
    rewrite Hmsg. cbn [hdr devaddr fc ack] in Hb. apply Hb; [exact Hd|].
    rewrite <- Hmsg, firstn_length. lia.
  Qed.
End TamperBytes.

(* without the canonicity premise the statement fails: a flipped RFU bit of the MHDR (known finding
   C05-2).  The 1.0 uplink 40 04030201 00 0500 01 dcd167 | 7773c10e sent under key 01..10 is accepted
   when it arrives as 44...; the specification MIC of the received bytes is a different one. *)
Definition c05_2_keys : keys :=
  mkKeys (map N.of_nat (seq 1 16)) (map N.of_nat (seq 17 16)) (map N.of_nat (seq 33 16)) (map N.of_nat (seq 49 16)).
Definition c05_2_bytes : list N := [0x44; 4; 3; 2; 1; 0; 5; 0; 1; 0xdc; 0xd1; 0x67; 0x77; 0x73; 0xc1; 0x0e].

Theorem tamper_noncanonical_refuted :
  rx_validate LoRaWAN1_0 true c05_2_keys (mkParams 0 0 0) 5 c05_2_bytes = Ok true /\
  bytes_eqb (skipn 12 c05_2_bytes)
            (spec_data_mic LoRaWAN1_0 true c05_2_keys (mkParams 0 0 0) false [1; 2; 3; 4] 5 (firstn 12 c05_2_bytes))
  = false.
Proof. split; vm_compute; reflexivity. Qed.

(* the premise discharged with LW.Frame.CanonProofs.phy_canonical (C08): received byte strings whose
   MHDR RFU bits (bits 2..4 of the first byte) are zero *)
Theorem tamper_received_bytes ver up k prm full bs b :
  Forall (fun x => x < 256) bs -> rfu_zero bs = true -> rx_validate ver up k prm full bs = Ok b ->
  exists p m,
    phy_unmarshal bs = Ok p /\ pl p = PLMac m /\
    (full mod 65536 = fcnt (hdr m) mod 65536 ->
     length (devaddr (hdr m)) = 4%nat -> (length bs - 4 < 256)%nat ->
     b = bytes_eqb (skipn (length bs - 4) bs)
                   (spec_data_mic ver up k prm (ack (fc (hdr m))) (devaddr (hdr m)) full
                                  (firstn (length bs - 4) bs))).
Proof.
  intros Hb Hr.
  apply (tamper_bytes (fun l => bytes l /\ rfu_zero l = true)).
  - intros l p [H1 H2]. now apply phy_canonical.
  - split; assumption.
Qed.

(* the refuted witness is exactly a byte string with an RFU bit set *)
Example c05_2_bytes_rfu : rfu_zero c05_2_bytes = false.
Proof. reflexivity. Qed.
