(* C16: the model handler never panics, whatever the request, when the configuration callbacks return. *)
From Coq Require Import List NArith ZArith Bool Lia.
From Coq Require Import ZifyN ZifyNat ZifyBool.
From LW Require Import Base.Outcome Base.Bytes Base.Hex Crypto.AES Crypto.CMAC Crypto.KeyWrap Crypto.CMACProofs
  Mac.Commands Mac.Stream Frame.Model Sec.MIC Sec.JoinAccept Sec.JoinAcceptProofs
  Backend.KeyEnvelope Backend.JoinServer Backend.JoinServerProofs.
Import ListNotations.
Open Scope N_scope.
Local Opaque aes_encrypt aes_decrypt cmac expand_key aes_encrypt_rk aes_decrypt_rk wrap unwrap.

(* ---------- the model handler never panics (callbacks that return) ---------- *)
Definition okerr {A} (x : outcome A) : Prop := x <> Panic /\ x <> OutOfFuel.

Lemma okerr_ok {A} (v : A) : okerr (Ok v). Proof. split; discriminate. Qed.
Lemma okerr_err {A} : okerr (@Err A). Proof. split; discriminate. Qed.
Lemma okerr_bind {A B} (x : outcome A) (f : A -> outcome B) :
  okerr x -> (forall a, okerr (f a)) -> okerr (bind x f).
Proof. intros [H1 H2] Hf. destruct x; cbn; auto using okerr_err; contradiction. Qed.
Global Hint Resolve okerr_ok okerr_err : okerr.

Lemma hex_dec_okerr s : okerr (hex_dec s).
Proof.
  remember (length s) as n eqn:E. revert s E. induction n as [n IH] using lt_wf_ind. intros s E.
  destruct s as [|a [|b r]]; cbn [hex_dec]; auto with okerr.
  destruct (hex_val a), (hex_val b); auto with okerr.
  apply okerr_bind; [|auto with okerr]. apply (IH (length r)); [subst; cbn; lia|reflexivity].
Qed.

Lemma unmarshal_text_okerr k s : okerr (unmarshal_text k s).
Proof. unfold unmarshal_text. apply okerr_bind; [apply hex_dec_okerr|]. intros b. destruct (Nat.eqb _ _); auto with okerr. Qed.

Lemma field_okerr {A} (z : A) dec v : (forall s, okerr (dec s)) -> okerr (field z dec v).
Proof. intros H. destruct v; cbn; auto with okerr. Qed.

Lemma typed_decode_okerr r : okerr (typed_decode r).
Proof.
  unfold typed_decode.
  apply okerr_bind; [apply field_okerr; intros; apply hex_dec_okerr|intros].
  apply okerr_bind; [apply field_okerr; intros; apply unmarshal_text_okerr|intros].
  apply okerr_bind; [apply field_okerr; intros; apply unmarshal_text_okerr|intros].
  apply okerr_bind.
  { apply field_okerr. intros s. unfold dlsettings_text. apply okerr_bind; [apply hex_dec_okerr|].
    intros [|d [|]]; auto with okerr. }
  intros. apply okerr_bind; [apply field_okerr; intros; apply hex_dec_okerr|intros]. auto with okerr.
Qed.

Lemma base_decode_okerr r : okerr (base_decode r).
Proof. unfold base_decode. apply okerr_bind; [apply field_okerr; intros; apply hex_dec_okerr|auto with okerr]. Qed.

Lemma fhdr_okerr d : okerr (fhdr_unmarshal d).
Proof. unfold fhdr_unmarshal. destruct (_ <? _)%nat; auto with okerr. Qed.

Lemma mac_okerr d : okerr (mac_unmarshal d).
Proof.
  unfold mac_unmarshal. destruct (_ <? 7)%nat; auto with okerr. destruct (_ <? _)%nat; auto with okerr.
  apply okerr_bind; [apply fhdr_okerr|]. intros h.
  repeat match goal with |- okerr (if ?c then _ else _) => destruct c
                       | |- okerr (match ?x with _ => _ end) => destruct x end; auto with okerr.
Qed.

Lemma phy_unmarshal_okerr d : okerr (phy_unmarshal d).
Proof.
  unfold phy_unmarshal. destruct (_ <? 5)%nat; auto with okerr.
  apply okerr_bind; [|auto with okerr].
  repeat match goal with |- okerr (if ?c then _ else _) => destruct c end; auto with okerr.
  apply okerr_bind; [apply mac_okerr|auto with okerr].
Qed.

Lemma cflist_unmarshal_nonnil c l : cflist_unmarshal c = Ok l -> cf_payload l <> CFPNil.
Proof.
  unfold cflist_unmarshal. destruct (negb _); [discriminate|]. destruct (_ =? 1); intros [= <-]; discriminate.
Qed.

Lemma chans_fold_okerr chs : forall acc, okerr acc ->
  okerr (fold_left (fun acc f => do out <- acc;
                      if negb (f mod 100 =? 0) then Err else
                      if 16777215 <? f / 100 then Err else
                      Ok (out ++ firstn 3 (le_bytes 4 (f / 100)))) chs acc).
Proof.
  induction chs as [|f chs IH]; intros acc H; [exact H|]. cbn [fold_left]. apply IH.
  apply okerr_bind; [exact H|]. intros out. destruct (negb _); auto with okerr. destruct (_ <? _); auto with okerr.
Qed.

Lemma cflist_marshal_okerr l : cf_payload l <> CFPNil -> okerr (cflist_marshal l).
Proof.
  intros H. unfold cflist_marshal. apply okerr_bind; [|auto with okerr].
  destruct (cf_payload l) as [chs|ms|]; [| |contradiction]; cbn [cfpayload_marshal].
  - apply chans_fold_okerr. auto with okerr.
  - destruct (_ <? _)%nat; auto with okerr.
Qed.

Lemma opt_cflist_inv cf cfl : opt_cflist cf = Ok cfl -> match cfl with Some l => cf_payload l <> CFPNil | None => True end.
Proof.
  unfold opt_cflist. destruct cf; [intros [= <-]; exact I|].
  destruct (cflist_unmarshal _) eqn:E; cbn [bind]; try discriminate. intros [= <-]. eapply cflist_unmarshal_nonnil; eauto.
Qed.

Lemma opt_cflist_okerr cf : okerr (opt_cflist cf).
Proof.
  unfold opt_cflist. destruct cf; auto with okerr. apply okerr_bind; [|auto with okerr].
  unfold cflist_unmarshal. destruct (negb _); auto with okerr. destruct (_ =? 1); auto with okerr.
Qed.

Lemma ja_marshal_okerr jn nid da o rx2 rx1 rxd cfl :
  match cfl with Some l => cf_payload l <> CFPNil | None => True end ->
  okerr (payload_marshal (PLJoinAccept jn nid da o rx2 rx1 rxd cfl)).
Proof.
  intros H. cbn [payload_marshal]. destruct (_ <? _); auto with okerr. destruct (_ <=? _); auto with okerr.
  apply okerr_bind.
  { unfold enc_dlsettings. destruct (_ <? _); auto with okerr. destruct (_ <? _); auto with okerr. }
  intros dl. apply okerr_bind; [|auto with okerr]. destruct cfl; auto with okerr. now apply cflist_marshal_okerr.
Qed.

Lemma build_okerr jn netid t ty je dn mk ek : okerr (build_join_accept jn netid t ty je dn mk ek).
Proof.
  unfold build_join_accept. destruct (_ || _); [auto with okerr|]. destruct (opt_cflist (t_cflist t)) as [cfl| | |] eqn:E; cbn [bind]; auto with okerr;
    try (pose proof (opt_cflist_okerr (t_cflist t)) as [H1 H2]; congruence).
  apply opt_cflist_inv in E. destruct (t_dl t) as [[o rx2] rx1].
  unfold set_down_join_mic, calc_down_join_mic. cbn [pl mtype major].
  pose proof (ja_marshal_okerr jn netid (t_devaddr t) o rx2 rx1 (Z.to_N (t_rxdelay t)) cfl E) as M.
  destruct (payload_marshal _) as [b| | |] eqn:Eb; cbn [bind]; auto with okerr; try (destruct M; congruence).
  unfold encrypt_join_accept, set_mic. cbn [pl mtype major Frame.Model.mic]. rewrite Eb. cbn [bind].
  destruct (negb _); cbn [bind]; auto with okerr.
  match goal with |- context [(length ?pt <? 4)%nat] => replace (length pt <? 4)%nat with false end.
  2:{ symmetry. apply Nat.ltb_ge. rewrite app_length, firstn_length, cmac_length. lia. }
  cbn [bind]. unfold phy_marshal. cbn [pl payload_marshal bind]. auto with okerr.
Qed.

Lemma envelope_of_okerr l k key : okerr (envelope_of l k key).
Proof.
  unfold envelope_of, new_key_envelope, new_key_envelope_with.
  destruct (_ || _); cbn [bind]; auto with okerr. destruct (kek_len_ok k); cbn [bind]; auto with okerr.
Qed.

Lemma session_keys_okerr o dk n j jn dn : okerr (session_keys o dk n j jn dn).
Proof.
  unfold session_keys, get_skey. destruct (_ <=? _); cbn [bind]; auto with okerr.
Qed.

Lemma lift_no_panic {A} (x : outcome A) : okerr x -> lift x <> PPanic.
Proof. intros [H1 H2]. destruct x; cbn; congruence. Qed.

Ltac step_lift H :=
  match goal with
  | |- pbind (lift ?x) _ <> PPanic =>
    let E := fresh "E" in
    pose proof (lift_no_panic x H) as E; destruct (lift x); cbn [pbind]; try congruence; clear E
  end.

Lemma join_pipeline_no_panic s rcv t dk al ak nl nk : join_pipeline s rcv t dk al ak nl nk <> PPanic.
Proof.
  unfold join_pipeline.
  step_lift (phy_unmarshal_okerr (t_phy t)). step_lift (unmarshal_text_okerr 3 s). step_lift (unmarshal_text_okerr 8 rcv).
  destruct (pl a) eqn:Epl; cbn [pbind]; try congruence.
  destruct (bytes_eqb _ _); cbn [pbind]; try congruence.
  assert (V : okerr (validate_up_join_mic (dk_nwkkey dk) a)).
  { unfold validate_up_join_mic, calc_up_join_mic. rewrite Epl. cbn [payload_marshal bind]. auto with okerr. }
  step_lift V. destruct (negb _); [congruence|].
  assert (J : okerr (set_join_nonce dk)) by (unfold set_join_nonce; destruct (_ || _); auto with okerr).
  step_lift J. destruct (t_dl t) as [[o rx2] rx1] eqn:Edl.
  match goal with |- pbind (lift (session_keys ?a ?b ?c ?d ?e ?f)) _ <> _ => step_lift (session_keys_okerr a b c d e f) end.
  match goal with |- pbind (lift (build_join_accept ?a ?b ?c ?d ?e ?f ?g ?h)) _ <> _ => step_lift (build_okerr a b c d e f g h) end.
  match goal with |- pbind (lift (envelope_of ?a ?b ?c)) _ <> _ => step_lift (envelope_of_okerr a b c) end.
  destruct o.
  - repeat match goal with |- pbind (lift (envelope_of ?a ?b ?c)) _ <> _ => step_lift (envelope_of_okerr a b c) end; try congruence.
  - repeat match goal with |- pbind (lift (envelope_of ?a ?b ?c)) _ <> _ => step_lift (envelope_of_okerr a b c) end; try congruence.
Qed.

Lemma rejoin_pipeline_no_panic s rcv t dk al ak nl nk : rejoin_pipeline s rcv t dk al ak nl nk <> PPanic.
Proof.
  unfold rejoin_pipeline.
  step_lift (phy_unmarshal_okerr (t_phy t)). step_lift (unmarshal_text_okerr 3 s). step_lift (unmarshal_text_okerr 8 rcv).
  assert (J : okerr (set_join_nonce dk)) by (unfold set_join_nonce; destruct (_ || _); auto with okerr).
  destruct (pl a); cbn [pbind]; try congruence.
  all: destruct (bytes_eqb _ _); cbn [pbind]; try congruence.
  all: step_lift J.
  all: match goal with |- pbind (lift (session_keys ?a ?b ?c ?d ?e ?f)) _ <> _ => step_lift (session_keys_okerr a b c d e f) end.
  all: match goal with |- pbind (lift (build_join_accept ?a ?b ?c ?d ?e ?f ?g ?h)) _ <> _ => step_lift (build_okerr a b c d e f g h) end.
  all: repeat match goal with |- pbind (lift (envelope_of ?a ?b ?c)) _ <> _ => step_lift (envelope_of_okerr a b c) end; try congruence.
Qed.

(* the configuration callbacks return (a value or an error) *)
Definition callbacks_return (cfg : config) : Prop :=
  (forall l, okerr (get_kek cfg l)) /\ (forall de, okerr (get_aslabel cfg de)).

Lemma activation_no_panic mt pipe cfg r : callbacks_return cfg ->
  (forall s rcv t dk al ak nl nk, pipe s rcv t dk al ak nl nk <> PPanic) ->
  handle_activation mt pipe cfg r <> APanic.
Proof.
  intros [K L] P. unfold handle_activation.
  pose proof (typed_decode_okerr r) as [T1 T2]. destruct (typed_decode r) as [t| | |]; try congruence.
  destruct (get_keys cfg (t_deveui t)); try discriminate.
  pose proof (K (r_sender r)) as [K1 K2]. destruct (get_kek cfg (r_sender r)); try congruence; try discriminate.
  pose proof (L (t_deveui t)) as [L1 L2]. destruct (get_aslabel cfg (t_deveui t)) as [al| | |]; try congruence; try discriminate.
  pose proof (K al) as [K3 K4]. destruct (get_kek cfg al); try congruence; try discriminate.
  match goal with |- context [pipe ?a ?b ?c ?d ?e ?f ?g ?h] => pose proof (P a b c d e f g h); destruct (pipe a b c d e f g h) as [[? ?]| | |] end;
    try congruence; discriminate.
Qed.

Theorem handle_no_panic cfg b : callbacks_return cfg -> handle cfg b <> APanic.
Proof.
  assert (EA : forall r, error_answer r <> APanic).
  { intros r. unfold error_answer. repeat (destruct (bytes_eqb _ _)); discriminate. }
  intros C. destruct b as [|r|r]; cbn [handle]; [discriminate|apply EA|].
  pose proof (base_decode_okerr r) as [B1 B2]. destruct (base_decode r); try congruence; try apply EA.
  destruct (bytes_eqb _ _); [apply activation_no_panic; [exact C|apply join_pipeline_no_panic]|].
  destruct (bytes_eqb _ _); [apply activation_no_panic; [exact C|apply rejoin_pipeline_no_panic]|].
  destruct (bytes_eqb _ _); [|discriminate].
  unfold handle_homens.
  pose proof (field_okerr (zero_bytes 8) (unmarshal_text 8) (r_deveui r) (unmarshal_text_okerr 8)) as [F1 F2].
  destruct (field _ _ _); try congruence; try discriminate.
  destruct (get_homenetid cfg a0); discriminate.
Qed.

(* ---------- the DevEUI member must be the DevEUI of the frame (second audit, finding 1) ---------- *)
Lemma bytes_neq_eqb a b : a <> b -> bytes_eqb a b = false.
Proof. intros H. destruct (bytes_eqb a b) eqn:E; [|reflexivity]. apply bytes_eqb_true in E. contradiction. Qed.

(* whatever device the member names (known, with whatever keys): a request whose frame is of another
   device is refused with the mirrored answer - Success implies that the two DevEUIs agree *)
Theorem deveui_mismatch_refused cfg r t p dk nskek aslabel askek :
  (r_mtype r = s_JoinReq \/ r_mtype r = s_RejoinReq) -> base_decode r = Ok tt -> typed_decode r = Ok t ->
  phy_unmarshal (t_phy t) = Ok p ->
  match pl p with
  | PLJoinRequest _ de _ | PLRejoin02 _ _ de _ | PLRejoin1 _ _ de _ => de <> t_deveui t
  | _ => True
  end ->
  get_keys cfg (t_deveui t) = Found dk ->
  get_kek cfg (r_sender r) = Ok nskek -> get_aslabel cfg (t_deveui t) = Ok aslabel -> get_kek cfg aslabel = Ok askek ->
  handle cfg (Body r) = AMsg 200 (if bytes_eqb (r_mtype r) s_JoinReq then MJoinAns else MRejoinAns)
                             (r_receiver r) (r_sender r) (r_txid r) ROther [] None no_keys None.
Proof.
  intros Hmt Hbase Htyped Hp Hde Hkeys Hns Has Hask.
  cbn [handle]. rewrite Hbase.
  destruct Hmt as [E | E]; rewrite E.
  - replace (bytes_eqb s_JoinReq s_JoinReq) with true by reflexivity.
    unfold handle_activation. rewrite Htyped, Hkeys, Hns, Has, Hask.
    unfold join_pipeline. rewrite Hp. cbn [lift pbind].
    pose proof (unmarshal_text_okerr 3 (r_sender r)) as [N1 N1'].
    destruct (unmarshal_text 3 (r_sender r)); cbn [lift pbind]; try reflexivity; try congruence.
    pose proof (unmarshal_text_okerr 8 (r_receiver r)) as [N2 N2'].
    destruct (unmarshal_text 8 (r_receiver r)); cbn [lift pbind]; try reflexivity; try congruence.
    destruct (pl p); cbn [pbind]; try reflexivity.
    rewrite (bytes_neq_eqb _ _ Hde). reflexivity.
  - replace (bytes_eqb s_RejoinReq s_JoinReq) with false by reflexivity.
    replace (bytes_eqb s_RejoinReq s_RejoinReq) with true by reflexivity.
    unfold handle_activation. rewrite Htyped, Hkeys, Hns, Has, Hask.
    unfold rejoin_pipeline. rewrite Hp. cbn [lift pbind].
    pose proof (unmarshal_text_okerr 3 (r_sender r)) as [N1 N1'].
    destruct (unmarshal_text 3 (r_sender r)); cbn [lift pbind]; try reflexivity; try congruence.
    pose proof (unmarshal_text_okerr 8 (r_receiver r)) as [N2 N2'].
    destruct (unmarshal_text 8 (r_receiver r)); cbn [lift pbind]; try reflexivity; try congruence.
    destruct (pl p); cbn [pbind]; try reflexivity; rewrite (bytes_neq_eqb _ _ Hde); reflexivity.
Qed.
