(* The struct layer of encoding/json for the backend payload types (/repo/backend/backend.go:189-650),
   as ONE generic pair of functions driven by a description of each Go type.  Model file:
   definitions, tables and examples only; theorems in PayloadProofs.v.

   A Go type is described by an [ftype]; a struct is the list of its JSON fields in the order
   encoding/json emits them (declaration order, the fields of embedded structs in place), each with
   its key, its omitempty flag and the description of its type - read off the struct tags.
   A Go value is a [gval].  [to_json] is json.Marshal as a document tree (Json.v prints it),
   [of_json] is json.Unmarshal into a zero value of the type.

   Marshal, per kind of Go type (encode.go; omitempty = isEmptyValue):
     string (also MessageType, ResultCode, RatePolicy, RoamingType)  string; empty: length 0
     bool                                                         true / false; empty: false
     int, uint8, uint32                                           decimal integer; empty: 0
     HEXBytes (MarshalText)                                       lower-case hex string, nil as the empty string; empty: length 0
     lorawan.EUI64 / DevAddr / NetID (arrays, MarshalText)        hex string; never empty
     lorawan.DLSettings (MarshalText)                             hex of the one byte RX2DataRate | RX1DROffset << 4 | OptNeg << 7
     ISO8601Time (MarshalText)                                    RFC 3339 text (Iso8601.v); a struct: never empty
     Frequency, Percentage (MarshalJSON)                          the float64 Hz / 1e6, percent / 100 (F64.v) as a number
     float64 behind a pointer                                     number
     json.RawMessage                                              the document itself (nil: null); empty: nil
     pointer                                                      null when nil, else the value; empty: nil
     slice                                                        null when nil, else an array; empty: length 0
     struct                                                       object of its non-omitted fields; never empty
   Unmarshal (decode.go), as far as modelled: an object is matched against the field keys EXACTLY
   (Go also accepts keys that differ in case only: left out), unknown keys are ignored, a missing key leaves
   the zero value, of a duplicated key the last occurrence is used (Go decodes each occurrence in turn:
   the same for scalars, left out for nested structs); null sets pointers and slices to nil and
   is ignored for strings, numbers, booleans, arrays and structs - except for Frequency / Percentage,
   whose UnmarshalJSON refuses it; a value of the wrong JSON kind, an integer text that is no integer
   of the field's range, bad hex, a wrong identifier length or a bad timestamp is an error ([None]).

   The decimal text of a float64 (strconv shortest formatting, ParseFloat) is not modelled: both
   functions take it from an [fcodec]; the theorems assume that parsing the printed text of a finite float
   gives the float back, the case checker uses the texts observed in the run. *)
From Coq Require Import List NArith ZArith Bool Floats String Ascii.
From LW Require Import Base.Outcome Base.Bytes Base.Hex Backend.F64 Backend.Iso8601 Backend.Json.
Import ListNotations.
Open Scope N_scope.

Record fcodec := { ftext : float -> list N; fparse : list N -> option float }.

Definition ffinite (f : float) : bool :=
  match Prim2SF f with
  | S754_zero _ | S754_finite _ _ _ => true
  | _ => false
  end.

Inductive ftype :=
| TStr
| TBool
| TInt (lo hi : Z)                              (* an integer kind with its range *)
| THex
| TFix (n : nat)                                (* byte array of n bytes with the hex text form *)
| TDLSettings
| TTime
| TFreq
| TPct
| TFloat
| TRaw
| TPtr (t : ftype)
| TSlice (t : ftype)
| TStruct (fs : list (list N * bool * ftype)).  (* key, omitempty, type *)

Inductive gval :=
| GStr (s : list N)
| GBool (b : bool)
| GInt (z : Z)
| GHex (bs : list N)                            (* nil and empty are not told apart *)
| GFix (bs : list N)
| GDLS (optneg : bool) (rx2dr rx1off : N)
| GTime (s off : Z)                             (* unix seconds, zone offset in seconds *)
| GFreq (hz : Z)
| GPct (p : Z)
| GFloat (f : float)
| GRaw (j : option jvalue)                      (* None = nil *)
| GPtr (o : option gval)
| GSlice (o : option (list gval))               (* None = nil *)
| GStruct (vs : list gval).

Definition t_int : ftype := TInt (-9223372036854775808) 9223372036854775807.
Definition t_uint8 : ftype := TInt 0 255.
Definition t_uint32 : ftype := TInt 0 4294967295.

(* ---- Marshal ---- *)
Definition is_empty (v : gval) : bool :=
  match v with
  | GStr [] | GBool false | GInt 0%Z | GHex [] | GFreq 0%Z | GPct 0%Z | GRaw None | GPtr None
  | GSlice None | GSlice (Some []) => true
  | GFloat f => PrimFloat.eqb f 0%float
  | _ => false
  end.

Definition dls_byte (optneg : bool) (rx2dr rx1off : N) : N :=
  rx2dr + rx1off * 16 + (if optneg then 128 else 0).

Fixpoint to_json (c : fcodec) (t : ftype) (v : gval) {struct v} : jvalue :=
  match t, v with
  | TStr, GStr s => JStr s
  | TBool, GBool b => JBool b
  | TInt _ _, GInt z => JNum (print_int z)
  | THex, GHex bs => JStr (hex_enc bs)
  | TFix _, GFix bs => JStr (hex_enc bs)
  | TDLSettings, GDLS o a b => JStr (hex_enc [dls_byte o a b])
  | TTime, GTime s off => JStr (format_rfc3339 s off)
  | TFreq, GFreq z => JNum (ftext c (freq_marshal z))
  | TPct, GPct z => JNum (ftext c (pct_marshal z))
  | TFloat, GFloat f => JNum (ftext c f)
  | TRaw, GRaw (Some j) => j
  | TPtr t', GPtr (Some v') => to_json c t' v'
  | TSlice t', GSlice (Some l) => JArr (map (to_json c t') l)
  | TStruct fs, GStruct vs =>
    JObj ((fix members (fs : list (list N * bool * ftype)) (vs : list gval) {struct vs} : list (list N * jvalue) :=
             match vs, fs with
             | x :: vs', (k, om, ft) :: fs' =>
               if om && is_empty x then members fs' vs' else (k, to_json c ft x) :: members fs' vs'
             | _, _ => []
             end) fs vs)
  | _, _ => JNull                                (* nil pointers / slices / raw messages (and ill-typed pairs) *)
  end.

(* the loop over the fields, named (JsonProofs-style: PayloadProofs.to_json_struct) *)
Fixpoint members_of (c : fcodec) (fs : list (list N * bool * ftype)) (vs : list gval) {struct vs} : list (list N * jvalue) :=
  match vs, fs with
  | x :: vs', (k, om, ft) :: fs' =>
    if om && is_empty x then members_of c fs' vs' else (k, to_json c ft x) :: members_of c fs' vs'
  | _, _ => []
  end.

(* ---- Unmarshal ---- *)
Definition zero_time : Z := (-62135596800)%Z.      (* time.Time{}: 0001-01-01T00:00:00Z *)

Fixpoint zero (t : ftype) : gval :=
  match t with
  | TStr => GStr []
  | TBool => GBool false
  | TInt _ _ => GInt 0
  | THex => GHex []
  | TFix n => GFix (repeat 0 n)
  | TDLSettings => GDLS false 0 0
  | TTime => GTime zero_time 0
  | TFreq => GFreq 0
  | TPct => GPct 0
  | TFloat => GFloat 0%float
  | TRaw => GRaw None
  | TPtr _ => GPtr None
  | TSlice _ => GSlice None
  | TStruct fs => GStruct (map (fun f => match f with (_, _, ft) => zero ft end) fs)
  end.

(* the last member with this key *)
Fixpoint lookup (k : list N) (ms : list (list N * jvalue)) : option jvalue :=
  match ms with
  | [] => None
  | (k', j) :: ms' =>
    match lookup k ms' with
    | Some x => Some x
    | None => if bytes_eqb k k' then Some j else None
    end
  end.

(* strconv.ParseInt / ParseUint on a JSON number text: digits only, a sign only for signed kinds *)
Fixpoint digits_val (acc : Z) (s : list N) : option Z :=
  match s with
  | [] => Some acc
  | c :: r => if Json.is_digit c then digits_val (acc * 10 + (Z.of_N c - 48)) r else None
  end.

Definition int_of_text (lo hi : Z) (t : list N) : option Z :=
  let '(neg, ds) := match t with 45 :: r => (true, r) | _ => (false, t) end in
  if neg && (0 <=? lo)%Z then None
  else match ds with
       | [] => None
       | _ :: _ =>
         match digits_val 0 ds with
         | Some m => let z := if neg then (- m)%Z else m in
                     if (lo <=? z)%Z && (z <=? hi)%Z then Some z else None
         | None => None
         end
       end.

Definition dls_of_byte (b : N) : gval := GDLS (128 <=? b) (b mod 16) (b / 16 mod 8).

Definition omap {A B} (f : A -> option B) (l : list A) : option (list B) :=
  fold_right (fun x acc => match f x, acc with Some y, Some ys => Some (y :: ys) | _, _ => None end) (Some []) l.

Fixpoint of_json (c : fcodec) (t : ftype) (j : jvalue) {struct t} : option gval :=
  match t with
  | TStr => match j with JStr s => Some (GStr s) | JNull => Some (zero t) | _ => None end
  | TBool => match j with JBool b => Some (GBool b) | JNull => Some (zero t) | _ => None end
  | TInt lo hi =>
    match j with
    | JNum tx => match int_of_text lo hi tx with Some z => Some (GInt z) | None => None end
    | JNull => Some (zero t)
    | _ => None
    end
  | THex =>
    match j with
    | JStr tx => match hex_dec (trim0x tx) with Ok bs => Some (GHex bs) | _ => None end
    | JNull => Some (GHex [])
    | _ => None
    end
  | TFix n =>
    match j with
    | JStr tx => match unmarshal_text n tx with Ok bs => Some (GFix bs) | _ => None end
    | JNull => Some (zero t)
    | _ => None
    end
  | TDLSettings =>
    match j with
    | JStr tx => match hex_dec tx with Ok [b] => Some (dls_of_byte b) | _ => None end
    | JNull => Some (zero t)
    | _ => None
    end
  | TTime =>
    match j with
    | JStr tx => match parse_rfc3339 tx with Some (s, off) => Some (GTime s off) | None => None end
    | JNull => Some (zero t)
    | _ => None
    end
  | TFreq =>
    match j with
    | JNum tx => match fparse c tx with
                 | Some f => match freq_unmarshal_code f with Some z => Some (GFreq z) | None => None end
                 | None => None
                 end
    | _ => None
    end
  | TPct =>
    match j with
    | JNum tx => match fparse c tx with
                 | Some f => match pct_unmarshal_code f with Some z => Some (GPct z) | None => None end
                 | None => None
                 end
    | _ => None
    end
  | TFloat =>
    match j with
    | JNum tx => match fparse c tx with Some f => Some (GFloat f) | None => None end
    | JNull => Some (zero t)
    | _ => None
    end
  | TRaw => Some (GRaw (Some j))
  | TPtr t' =>
    match j with
    | JNull => Some (GPtr None)
    | _ => match of_json c t' j with Some v => Some (GPtr (Some v)) | None => None end
    end
  | TSlice t' =>
    match j with
    | JNull => Some (GSlice None)
    | JArr l => match omap (of_json c t') l with Some vs => Some (GSlice (Some vs)) | None => None end
    | _ => None
    end
  | TStruct fs =>
    match j with
    | JObj ms =>
      match (fix fields (fs : list (list N * bool * ftype)) : option (list gval) :=
               match fs with
               | [] => Some []
               | (k, _, ft) :: fs' =>
                 match (match lookup k ms with Some x => of_json c ft x | None => Some (zero ft) end), fields fs' with
                 | Some v, Some vs => Some (v :: vs)
                 | _, _ => None
                 end
               end) fs with
      | Some vs => Some (GStruct vs)
      | None => None
      end
    | JNull => Some (zero t)
    | _ => None
    end
  end.

(* ---- the values that are claimed to survive, and what they come back as ---- *)
Definition time_ok (s off : Z) : bool :=
  ((off mod 60 =? 0) && (-86400 <? off) && (off <? 86400)
   && (-62167219200 <=? s + off) && (s + off <=? 253402300799))%Z.

Definition raw_depth : nat := N.to_nat 9000.

Fixpoint has_type (t : ftype) (om : bool) (v : gval) {struct v} : bool :=
  match t, v with
  | TStr, GStr s => utf8_valid s                       (* invalid UTF-8 is replaced by U+FFFD on the way out *)
  | TBool, GBool _ => true
  | TInt lo hi, GInt z => ((lo <=? z) && (z <=? hi))%Z
  | THex, GHex bs => bytes_ok bs
  | TFix n, GFix bs => Nat.eqb (List.length bs) n && bytes_ok bs
  | TDLSettings, GDLS _ a b => (a <=? 15) && (b <=? 7)
  | TTime, GTime s off => time_ok s off
  | TFreq, GFreq z | TPct, GPct z => ((0 <=? z) && (z <? 4294967296))%Z
  | TFloat, GFloat f => ffinite f && negb om           (* float64 fields only occur behind pointers: no omitempty claim *)
  | TRaw, GRaw (Some j) => jwf j && Nat.leb (jdepth j) raw_depth
  | TRaw, GRaw None => om                              (* a nil RawMessage that is printed (null) comes back as the text null *)
  | TPtr _, GPtr None => true
  | TPtr t', GPtr (Some v') => has_type t' false v'
  | TSlice _, GSlice None => true
  | TSlice t', GSlice (Some l) => forallb (has_type t' false) l
  | TStruct fs, GStruct vs =>
    (fix all (fs : list (list N * bool * ftype)) (vs : list gval) {struct vs} : bool :=
       match vs, fs with
       | [], [] => true
       | x :: vs', (_, o, ft) :: fs' => has_type ft o x && all fs' vs'
       | _, _ => false
       end) fs vs
  | _, _ => false
  end.

(* the documented equivalence: an empty slice under omitempty comes back nil *)
Fixpoint norm (t : ftype) (om : bool) (v : gval) {struct v} : gval :=
  match t, v with
  | TPtr t', GPtr (Some v') => GPtr (Some (norm t' false v'))
  | TSlice t', GSlice (Some l) =>
    match l with
    | [] => if om then GSlice None else v
    | _ :: _ => GSlice (Some (map (norm t' false) l))
    end
  | TStruct fs, GStruct vs =>
    GStruct ((fix all (fs : list (list N * bool * ftype)) (vs : list gval) {struct vs} : list gval :=
                match vs, fs with
                | x :: vs', (_, o, ft) :: fs' => norm ft o x :: all fs' vs'
                | _, _ => []
                end) fs vs)
  | _, _ => v
  end.

(* a description is usable when the keys of every struct are distinct, valid UTF-8 strings, integer ranges fit
   64 bits and pointers point to types that never print as null *)
Fixpoint keys_distinct (ks : list (list N)) : bool :=
  match ks with
  | [] => true
  | k :: ks' => negb (existsb (bytes_eqb k) ks') && keys_distinct ks'
  end.

(* types whose Marshal output is never null (a pointer to anything else would come back nil) *)
Definition never_null (t : ftype) : bool :=
  match t with
  | TPtr _ | TSlice _ | TRaw => false
  | _ => true
  end.

Fixpoint twf (t : ftype) : bool :=
  match t with
  | TInt lo hi => ((-9223372036854775808 <=? lo) && (hi <=? 9223372036854775807))%Z
  | TPtr t' => never_null t' && twf t'
  | TSlice t' => twf t'
  | TStruct fs =>
    keys_distinct (map (fun f => match f with (k, _, _) => k end) fs)
    && forallb (fun f => match f with (k, _, ft) => utf8_valid k && twf ft end) fs
  | _ => true
  end.

(* types without float64, Frequency or Percentage fields: nothing depends on the float text *)
Fixpoint float_free (t : ftype) : bool :=
  match t with
  | TFreq | TPct | TFloat => false
  | TPtr t' | TSlice t' => float_free t'
  | TStruct fs => forallb (fun f => match f with (_, _, ft) => float_free ft end) fs
  | _ => true
  end.

(* bytes: Marshal and Unmarshal *)
Definition encode (c : fcodec) (t : ftype) (v : gval) : list N := json_print (to_json c t v).
Definition decode (c : fcodec) (t : ftype) (text : list N) : option gval :=
  match json_parse text with
  | POk j => of_json c t j
  | _ => None
  end.

(* ==== the types of backend.go, read off the struct tags ==== *)
Definition key (s : string) : list N := map (fun a => N_of_ascii a) (list_ascii_of_string s).
Definition fld (s : string) (t : ftype) : list N * bool * ftype := (key s, false, t).
Definition opt (s : string) (t : ftype) : list N * bool * ftype := (key s, true, t).      (* ,omitempty *)

Definition t_eui64 : ftype := TFix 8.
Definition t_devaddr : ftype := TFix 4.
Definition t_netid : ftype := TFix 3.

(* backend.go:302-306 *)
Definition t_vsextension : ftype := TStruct [opt "VendorID" THex; opt "Object" TRaw].
(* backend.go:212-216 *)
Definition t_result : ftype := TStruct [fld "ResultCode" TStr; fld "Description" TStr].
(* backend.go:218-222 *)
Definition t_keyenvelope : ftype := TStruct [fld "KEKLabel" TStr; fld "AESKey" THex].

(* backend.go:189-199 *)
Definition base_fields : list (list N * bool * ftype) :=
  [fld "ProtocolVersion" TStr; fld "SenderID" TStr; fld "ReceiverID" TStr; fld "TransactionID" t_uint32;
   fld "MessageType" TStr; opt "SenderToken" THex; opt "ReceiverToken" THex; opt "VSExtension" t_vsextension].
Definition t_basepayload : ftype := TStruct base_fields.
(* backend.go:201-205: the embedded BasePayload, then Result *)
Definition base_result_fields : list (list N * bool * ftype) := base_fields ++ [fld "Result" t_result].
Definition t_basepayloadresult : ftype := TStruct base_result_fields.

(* backend.go:361-370 *)
Definition t_joinreq : ftype :=
  TStruct (base_fields ++
    [fld "MACVersion" TStr; fld "PHYPayload" THex; fld "DevEUI" t_eui64; fld "DevAddr" t_devaddr;
     fld "DLSettings" TDLSettings; fld "RxDelay" t_int; opt "CFList" THex]).
(* backend.go:377-387 *)
Definition t_joinans : ftype :=
  TStruct (base_result_fields ++
    [opt "PHYPayload" THex; opt "Lifetime" (TPtr t_int); opt "SNwkSIntKey" (TPtr t_keyenvelope);
     opt "FNwkSIntKey" (TPtr t_keyenvelope); opt "NwkSEncKey" (TPtr t_keyenvelope); opt "NwkSKey" (TPtr t_keyenvelope);
     opt "AppSKey" (TPtr t_keyenvelope); opt "SessionKeyID" THex]).

(* ==== utilities for the case checker ==== *)
Definition feqb (a b : float) : bool :=
  match Prim2SF a, Prim2SF b with
  | S754_zero s, S754_zero s' => Bool.eqb s s'
  | S754_infinity s, S754_infinity s' => Bool.eqb s s'
  | S754_nan, S754_nan => true
  | S754_finite s m e, S754_finite s' m' e' => Bool.eqb s s' && Pos.eqb m m' && Z.eqb e e'
  | _, _ => false
  end.

Definition ojv_eqb' (a b : option jvalue) : bool :=
  match a, b with
  | Some x, Some y => jvalue_eqb x y
  | None, None => true
  | _, _ => false
  end.

Fixpoint gval_eqb (a b : gval) {struct a} : bool :=
  match a, b with
  | GStr x, GStr y | GHex x, GHex y | GFix x, GFix y => bytes_eqb x y
  | GBool x, GBool y => Bool.eqb x y
  | GInt x, GInt y | GFreq x, GFreq y | GPct x, GPct y => Z.eqb x y
  | GDLS o a1 b1, GDLS o' a2 b2 => Bool.eqb o o' && (a1 =? a2) && (b1 =? b2)
  | GTime s off, GTime s' off' => Z.eqb s s' && Z.eqb off off'
  | GFloat f, GFloat g => feqb f g
  | GRaw x, GRaw y => ojv_eqb' x y
  | GPtr None, GPtr None => true
  | GPtr (Some x), GPtr (Some y) => gval_eqb x y
  | GSlice None, GSlice None => true
  | GSlice (Some x), GSlice (Some y) | GStruct x, GStruct y =>
    (fix go (x y : list gval) {struct x} : bool :=
       match x, y with
       | [], [] => true
       | u :: x', w :: y' => gval_eqb u w && go x' y'
       | _, _ => false
       end) x y
  | _, _ => false
  end.

Definition ogval_eqb (a b : option gval) : bool :=
  match a, b with
  | Some x, Some y => gval_eqb x y
  | None, None => true
  | _, _ => false
  end.

(* float texts observed in a run: (float, the text json.Marshal printed for it) *)
Definition table_codec (tb : list (float * list N)) : fcodec :=
  {| ftext := fun f => match find (fun e => feqb f (fst e)) tb with Some e => snd e | None => [] end;
     fparse := fun t => match find (fun e => bytes_eqb t (snd e)) tb with Some e => Some (fst e) | None => None end |}.

(* the types described so far (stage 2) *)
Definition modelled_types_2 : list ftype :=
  [t_vsextension; t_result; t_keyenvelope; t_basepayload; t_basepayloadresult; t_joinreq; t_joinans].

(* {"ProtocolVersion":"1.0","SenderID":"","ReceiverID":"","TransactionID":7,"MessageType":"JoinReq","VSExtension":{},
    "MACVersion":"1.0.2","PHYPayload":"00ff","DevEUI":"0102030405060708","DevAddr":"01020304","DLSettings":"93","RxDelay":1} *)
Definition ex_joinreq : gval :=
  GStruct [GStr (key "1.0"); GStr []; GStr []; GInt 7; GStr (key "JoinReq"); GHex []; GHex []; GStruct [GHex []; GRaw None];
           GStr (key "1.0.2"); GHex [0; 255]; GFix [1; 2; 3; 4; 5; 6; 7; 8]; GFix [1; 2; 3; 4]; GDLS true 3 1; GInt 1; GHex []].
Example ex_joinreq_bytes : forall c, encode c t_joinreq ex_joinreq = key
  "{""ProtocolVersion"":""1.0"",""SenderID"":"""",""ReceiverID"":"""",""TransactionID"":7,""MessageType"":""JoinReq"",""VSExtension"":{},""MACVersion"":""1.0.2"",""PHYPayload"":""00ff"",""DevEUI"":""0102030405060708"",""DevAddr"":""01020304"",""DLSettings"":""93"",""RxDelay"":1}".
Proof. intros c. vm_compute. reflexivity. Qed.
Example ex_joinreq_back : forall c,
  (has_type t_joinreq false ex_joinreq, decode c t_joinreq (encode c t_joinreq ex_joinreq)) = (true, Some ex_joinreq).
Proof. intros c. vm_compute. reflexivity. Qed.
