// Correspondence harness for C08: every accepted byte string re-encodes to itself.
package main

import (
	"bytes"
	"encoding/base64"
	"encoding/json"
	"fmt"
	"io"
	"log"
	"os"
	"sync"
	"time"

	"github.com/brocaar/lorawan"
	"verifharness/internal/cases"
	"verifharness/internal/cq"
	"verifharness/internal/framefmt"
	"verifharness/internal/noise"
	"verifharness/internal/reuse"
)

func decode(b []byte) (q lorawan.PHYPayload, s string, ok bool) {
	cases.Begin(fmt.Sprintf("PHYPayload.UnmarshalBinary:%x", b), map[string]interface{}{"bytes": fmt.Sprintf("%x", b)})
	defer cases.End()
	defer func() {
		if r := recover(); r != nil {
			s, ok = cq.Panic, false
		}
	}()
	in := append([]byte{}, b...)
	if err := q.UnmarshalBinary(in); err != nil {
		return q, cq.Err, false
	}
	reuse.CheckIsolation(theSet, b, in, &q)
	return q, cq.Ok(framefmt.Phy(q, framefmt.DecodedFOptsLen(b))), true
}

func encode(p lorawan.PHYPayload) (b []byte, s string) {
	defer func() {
		if r := recover(); r != nil {
			b, s = nil, cq.Panic
		}
	}()
	b, err := p.MarshalBinary()
	if err != nil {
		return nil, cq.Err
	}
	return b, cq.Ok(cq.Bytes(b))
}

// reused is decoded into again and again: a frame accepted into a used value must be the frame
// a fresh decode gives (and re-encode to the received bytes just the same)
var reused reuse.Receiver
var nr *cq.RNG
var theSet *cases.Set

// accepted keeps some accepted frames for the concurrent pass
var accepted [][]byte

// concurrentDecode: many goroutines decode and re-encode distinct accepted frames in tight loops (a
// gateway bridge handles several devices at once); every frame must come back byte for byte. The
// sequential result of each frame is an ordinary, model-compared case.
func concurrentDecode(s *cases.Set, rounds int) {
	if len(accepted) < 16 {
		return
	}
	var mu sync.Mutex
	bad := map[string]string{}
	var wg sync.WaitGroup
	for g := 0; g < 8; g++ {
		wg.Add(1)
		go func(g int) {
			defer wg.Done()
			defer func() { _ = recover() }()
			for k := 0; k < rounds; k++ {
				b := accepted[(g+8*k)%len(accepted)]
				var q lorawan.PHYPayload
				if err := q.UnmarshalBinary(b); err != nil {
					continue
				}
				re, err := q.MarshalBinary()
				if err != nil || !bytes.Equal(re, b) {
					mu.Lock()
					if len(bad) < 10 {
						bad[fmt.Sprintf("%x", b)] = fmt.Sprintf("%x", re)
					}
					mu.Unlock()
				}
			}
		}(g)
	}
	wg.Wait()
	for in, out := range bad {
		s.Fail(cases.GoFail{Key: "concurrent-decode:" + in, What: "with 8 goroutines decoding distinct frames, this accepted frame re-encodes to " + out,
			Replay: map[string]interface{}{"bytes": in, "goroutines": 8, "rounds": rounds}})
	}
	s.Extra["concurrent_decodes"] = 8 * rounds
}

// A network server verifies, forwards or logs a received frame; a processing step that returns an error (MAC commands
// that do not decode, with or without a decryption before; a join-accept that does not decode after decryption) must
// leave the accepted frame re-encodable to the bytes that were received.
func failedStepKeepsFrame(s *cases.Set, b []byte) {
	var k lorawan.AES128Key
	copy(k[:], nr.Bytes(16))
	steps := []struct {
		name string
		f    func(p *lorawan.PHYPayload) error
	}{
		{"DecodeFOptsToMACCommands", func(p *lorawan.PHYPayload) error { return p.DecodeFOptsToMACCommands() }},
		{"DecodeFRMPayloadToMACCommands", func(p *lorawan.PHYPayload) error { return p.DecodeFRMPayloadToMACCommands() }},
		{"DecryptFOpts", func(p *lorawan.PHYPayload) error { return p.DecryptFOpts(k) }},
		{"DecryptFRMPayload", func(p *lorawan.PHYPayload) error { return p.DecryptFRMPayload(k) }},
		{"DecryptJoinAcceptPayload", func(p *lorawan.PHYPayload) error { return p.DecryptJoinAcceptPayload(k) }},
	}
	for _, st := range steps {
		st := st
		func() {
			defer func() { _ = recover() }() // panics are C09's subject
			var p lorawan.PHYPayload
			if p.UnmarshalBinary(append([]byte{}, b...)) != nil {
				return
			}
			cases.Begin("failed-step:"+st.name, map[string]interface{}{"bytes": fmt.Sprintf("%x", b)})
			err := st.f(&p)
			cases.End()
			if err == nil {
				// mac-commands live in a port-0 FRMPayload only: on any other frame the step is refused, or at least
				// leaves a frame that still encodes to what was received (C03-… / audit 3)
				if st.name == "DecodeFRMPayloadToMACCommands" {
					if m, ok := p.MACPayload.(*lorawan.MACPayload); ok && (m.FPort == nil || *m.FPort != 0) {
						if re, e2 := p.MarshalBinary(); e2 != nil || !bytes.Equal(re, b) {
							s.Fail(cases.GoFail{Key: fmt.Sprintf("step-on-application-port-changes-frame:%s:%x", st.name, b),
								What:   fmt.Sprintf("%s returned nil on a frame whose FPort is not 0 and left the frame re-encoding to %x (err %v) instead of the received bytes", st.name, re, e2),
								Replay: map[string]interface{}{"bytes": fmt.Sprintf("%x", b), "step": st.name}})
						}
					}
				}
				return
			}
			if re, e2 := p.MarshalBinary(); e2 != nil || !bytes.Equal(re, b) {
				s.Fail(cases.GoFail{Key: fmt.Sprintf("failed-step-changes-frame:%s:%x", st.name, b),
					What:   fmt.Sprintf("%s returned an error (%v) and left the frame re-encoding to %x (err %v) instead of the received bytes", st.name, err, re, e2),
					Replay: map[string]interface{}{"bytes": fmt.Sprintf("%x", b), "step": st.name, "key": fmt.Sprintf("%x", k[:])}})
			}
		}()
	}
}

func add(s *cases.Set, b []byte, kind string) {
	q, o, ok := decode(b)
	if ok && len(b) > 0 && b[0]&0x1c == 0 && len(accepted) < 512 { // reserved MHDR bits zero: the canonical ones
		accepted = append(accepted, append([]byte{}, b...))
	}
	noise.Step(nr)
	reused.Decode(s, nr, b, o)
	// the same frame received as text (base64): UnmarshalText must give what UnmarshalBinary gives
	func() {
		defer func() {
			if rec := recover(); rec != nil {
				s.Fail(cases.GoFail{Key: fmt.Sprintf("text-path-panic:%x", b), What: fmt.Sprintf("UnmarshalText panics: %v", rec), Replay: map[string]interface{}{"bytes": fmt.Sprintf("%x", b)}})
			}
		}()
		txt := []byte(base64.StdEncoding.EncodeToString(b))
		var qt lorawan.PHYPayload
		ot := cq.Err
		if err := qt.UnmarshalText(txt); err == nil {
			ot = cq.Ok(framefmt.Phy(qt, framefmt.DecodedFOptsLen(b)))
		}
		if ot != o {
			s.Fail(cases.GoFail{Key: fmt.Sprintf("text-path-differs:%x", b), What: "UnmarshalText of the base64 text gives " + ot + ", UnmarshalBinary of the bytes " + o,
				Replay: map[string]interface{}{"bytes": fmt.Sprintf("%x", b), "text": string(txt)}})
		}
	}()
	ore, oagain := cq.Err, cq.Err
	if ok {
		// a received frame is logged before it is forwarded: rendering must not change it
		func() {
			defer func() { _ = recover() }()
			n := framefmt.DecodedFOptsLen(b)
			before := framefmt.Phy(q, n)
			_, _ = json.Marshal(q)
			_, _ = json.Marshal(&q)
			_, _ = q.MarshalText()
			_ = fmt.Sprintf("%+v", q)
			if after := framefmt.Phy(q, n); after != before {
				s.Fail(cases.GoFail{Key: fmt.Sprintf("observer-changes-frame:%x", b), What: "json.Marshal / MarshalText / fmt of a decoded frame changed it to " + after,
					Replay: map[string]interface{}{"bytes": fmt.Sprintf("%x", b), "before": before, "after": after}})
			}
		}()
		var b2 []byte
		b2, ore = encode(q)
		if b2 != nil {
			_, oagain, _ = decode(b2)
		}
		if len(b) > 0 && b[0]&0x1c == 0 { // the statement's frames: reserved MHDR bits zero (they are not kept by the decoder)
			failedStepKeepsFrame(s, b)
		}
	}
	key := fmt.Sprintf("dec:%x", b)
	s.Remember(key, o+" "+ore+" "+oagain, map[string]interface{}{"api": "PHYPayload.UnmarshalBinary then MarshalBinary", "bytes": fmt.Sprintf("%x", b)}, func() string {
		q, o, ok := decode(b)
		ore, oagain := cq.Err, cq.Err
		if ok {
			var b2 []byte
			b2, ore = encode(q)
			if b2 != nil {
				_, oagain, _ = decode(b2)
			}
		}
		return o + " " + ore + " " + oagain
	})
	s.Add(cases.Case{Term: fmt.Sprintf("CDecode %s %s %s %s", cq.Bytes(b), o, ore, oagain), Key: key, Kind: kind, Nontrivial: ok,
		Replay: map[string]interface{}{"api": "PHYPayload.UnmarshalBinary then MarshalBinary", "bytes": fmt.Sprintf("%x", b)}})
}

func main() {
	log.SetOutput(io.Discard)
	dir, seed, thorough := cases.Args()
	r := cq.NewRNG(seed)
	nr = cq.NewRNG(seed ^ 0x9e3779b97f4a7c15)
	s := cases.New("C08", dir, "LW.Corr.C08",
		"byte strings: uniform random length 0..256; every MHDR byte with typical lengths; model-guided data frames for every FOptsLen 0..15 with total lengths 7+ol-1 .. 7+ol+3 and FPort 0 / non-0 (reaches every branch of the MACPayload decoder); join-request / rejoin / join-accept / proprietary lengths around the accepted ones; single- and multi-bit mutations, truncations and extensions of valid frames. Non-trivial: strings the decoder accepts.")
	s.ShardSize = 300
	theSet = s
	s.Watchdog(3 * time.Second)
	n := 150
	if thorough {
		n = 6000
	}
	// witness of the recorded (fixed) finding C08-1: FOpts + FPort 0 + no FRMPayload
	add(s, []byte{0x40, 1, 2, 3, 4, 0x01, 0, 0, 0x02, 0x00, 9, 9, 9, 9}, "corpus")
	// accepted frames on which a later step fails: a truncated command in FOpts / in a port-0 FRMPayload, join-accepts
	// of 1 + 16k octets that are no join-accept after decryption (C08-2)
	add(s, []byte{0x40, 4, 3, 2, 1, 0x01, 1, 0, 0x03, 9, 9, 9, 9}, "corpus")
	add(s, []byte{0x40, 4, 3, 2, 1, 0x00, 1, 0, 0x00, 0x03, 9, 9, 9, 9}, "corpus")
	add(s, []byte{0x60, 4, 3, 2, 1, 0x00, 1, 0, 0x00, 0x05, 0x01, 9, 9, 9, 9}, "corpus")
	add(s, []byte{0x40, 1, 2, 3, 4, 0x00, 1, 0, 0x05, 0x02, 0xaa, 0xbb, 0xcc, 0xdd}, "corpus") // FPort 5, payload 02: no mac-command
	for _, n := range []int{17, 33, 49, 65, 81} {
		b := r.Bytes(n)
		b[0] = 0x20
		add(s, b, "join-accept-sized")
	}
	// model-guided: every FOptsLen x boundary lengths x port 0 / 7
	for _, mt := range []byte{2, 3, 4, 5} {
		for ol := 0; ol < 16; ol++ {
			for extra := -1; extra <= 3; extra++ {
				for _, port := range []byte{0, 7} {
					nbytes := 1 + 7 + ol + extra + 4
					if nbytes < 0 {
						continue
					}
					b := r.Bytes(nbytes)
					b[0] = mt << 5
					if len(b) > 5 {
						b[5] = b[5]&0xf0 | byte(ol)
					}
					if extra >= 1 && len(b) > 8+ol {
						b[8+ol] = port
					}
					add(s, b, "guided-data")
				}
			}
		}
	}
	s.Exhaustive("MACPayload decoder branches: 4 MTypes x FOptsLen 0..15 x length offsets -1..3 x FPort {0,7}")
	// frames whose base64 text consists of hex digits only (the text could be mistaken for another encoding)
	hexd := "0123456789abcdefABCDEF"
	for i := 0; i < n/2; i++ {
		k := 4 * (2 + r.Intn(8))
		txt := []byte{"02468ACEace4"[r.Intn(12)], hexd[r.Intn(len(hexd))]}
		for len(txt) < k {
			txt = append(txt, hexd[r.Intn(len(hexd))])
		}
		if bb, err := base64.StdEncoding.DecodeString(string(txt)); err == nil {
			add(s, bb, "hexlike-base64-text")
		}
	}
	for mh := 0; mh < 256; mh++ {
		for _, l := range []int{5, 12, 19, 23, 24, 17, 33} {
			b := r.Bytes(l)
			b[0] = byte(mh)
			if mh>>5 == 6 {
				b[1] = byte(r.Intn(4))
			}
			add(s, b, "mhdr-sweep")
		}
	}
	s.Exhaustive("all 256 MHDR bytes x 7 lengths")
	// guided join / rejoin frames: exact accepted lengths, RFU bits zero, random contents (all field bytes non-trivial)
	for rep := 0; rep < 12; rep++ {
		for _, g := range []struct {
			mhdr byte
			n    int
			ty   int
		}{{0x00, 23, -1}, {0x01, 23, -1}, {0xc0, 19, 0}, {0xc0, 19, 2}, {0xc1, 24, 1}, {0xc0, 24, 1}, {0x20, 17, -1}, {0x20, 33, -1}, {0xe0, 9, -1}, {0xc0, 24, 0}, {0xc0, 19, 1}, {0xc0, 19, 3}} {
			b := r.Bytes(g.n)
			b[0] = g.mhdr
			if g.ty >= 0 {
				b[1] = byte(g.ty)
			}
			for j := 2; j < len(b); j++ { // avoid accidental zero bytes hiding a dropped field
				if b[j] == 0 {
					b[j] = 0xa5
				}
			}
			add(s, b, "guided-join")
		}
	}
	for i := 0; i < n; i++ {
		l := r.Intn(257)
		if i%3 == 0 {
			l = r.Intn(30)
		}
		add(s, r.Bytes(l), "uniform")
		// mutations of valid frames
		var p lorawan.PHYPayload
		if i%4 == 0 {
			p = framefmt.JoinFrame(r, r.Intn(5))
		} else {
			p = framefmt.DataFrame(r, framefmt.ValidDataOpt(r))
		}
		b, err := p.MarshalBinary()
		if err != nil {
			continue
		}
		add(s, b, "valid")
		m := append([]byte{}, b...)
		for k := 0; k <= r.Intn(3); k++ {
			m[r.Intn(len(m))] ^= 1 << uint(r.Intn(8))
		}
		add(s, m, "bitflip")
		add(s, b[:r.Intn(len(b)+1)], "truncated")
		add(s, append(append([]byte{}, b...), r.Bytes(1+r.Intn(5))...), "extended")
		if len(b) > 6 { // FOptsLen nibble rewritten
			m2 := append([]byte{}, b...)
			m2[5] = m2[5]&0xf0 | byte(r.Intn(16))
			add(s, m2, "foptslen-mutated")
		}
	}
	s.ReplayRemembered(nr.Intn, 3, func() { noise.Step(nr) })
	s.ReplayConcurrently(8, 2, 60*time.Second)
	if thorough {
		concurrentDecode(s, 2000000)
	} else {
		concurrentDecode(s, 150000)
	}
	if err := s.Finish(); err != nil {
		fmt.Fprintln(os.Stderr, err)
		os.Exit(2)
	}
}
