(* GF(2) linear algebra on fragments: XOR of byte strings, combinations of
   rows selected by 0/1 vectors, matrices acting on row lists; associativity
   of the action, the identity, linearity. *)
From Coq Require Import List NArith ZArith Bool Lia.
From LW Require Import Base.Outcome Base.Bytes App.FragSpec.
Import ListNotations.
Open Scope N_scope.

Definition rows_ok (k : nat) (rows : list (list N)) : Prop := Forall (fun r => length r = k) rows.

Lemma zeros_length k : length (zeros k) = k.
Proof. apply repeat_length. Qed.

Lemma xor_zeros_r s k : length s = k -> xor_bytes s (zeros k) = s.
Proof.
  revert k; induction s as [|x s IH]; intros [|k] H; simpl in *; try reflexivity; try discriminate.
  rewrite N.lxor_0_r. f_equal. apply IH. lia.
Qed.

Lemma xor_comm a b : xor_bytes a b = xor_bytes b a.
Proof.
  revert b; induction a as [|x a IH]; destruct b as [|y b]; simpl; auto.
  rewrite N.lxor_comm. f_equal. apply IH.
Qed.

Lemma xor_zeros_l s k : length s = k -> xor_bytes (zeros k) s = s.
Proof. intros H. rewrite xor_comm. now apply xor_zeros_r. Qed.

Lemma xor_assoc a b c : xor_bytes (xor_bytes a b) c = xor_bytes a (xor_bytes b c).
Proof.
  revert b c; induction a as [|x a IH]; destruct b as [|y b]; destruct c as [|z c]; simpl; auto.
  rewrite N.lxor_assoc. f_equal. apply IH.
Qed.

Lemma xor_cancel r a b : length r = length a -> length a = length b ->
  xor_bytes (xor_bytes r a) (xor_bytes r b) = xor_bytes a b.
Proof.
  revert a b; induction r as [|x r IH]; destruct a as [|y a]; destruct b as [|z b]; simpl;
    intros H1 H2; try discriminate; auto.
  f_equal.
  - rewrite (N.lxor_comm x y), N.lxor_assoc, <- (N.lxor_assoc x x z), N.lxor_nilpotent, N.lxor_0_l.
    reflexivity.
  - apply IH; lia.
Qed.

Lemma xor_zeros_zeros k : xor_bytes (zeros k) (zeros k) = zeros k.
Proof. apply xor_zeros_r, zeros_length. Qed.

Lemma xor_firstn k a b : firstn k (xor_bytes a b) = xor_bytes (firstn k a) (firstn k b).
Proof.
  revert a b; induction k as [|k IH]; intros a b; [reflexivity|].
  destruct a as [|x a], b as [|y b]; simpl; auto. f_equal. apply IH.
Qed.

Lemma xor_skipn k a b : skipn k (xor_bytes a b) = xor_bytes (skipn k a) (skipn k b).
Proof.
  revert a b; induction k as [|k IH]; intros a b; [reflexivity|].
  destruct a as [|x a], b as [|y b]; simpl; auto.
  destruct (skipn k a); reflexivity.
Qed.

(* ---- combinations ---------------------------------------------------------- *)
Lemma comb_length k a rows : rows_ok k rows -> length (comb k a rows) = k.
Proof.
  intros H. revert a. induction H as [|row rows Hr _ IH]; intros [|sel a]; cbn [comb];
    try apply zeros_length.
  destruct sel; [|apply IH].
  rewrite xor_bytes_length, IH, Hr. apply Nat.min_id.
Qed.

Lemma comb_false k n rows : comb k (repeat false n) rows = zeros k.
Proof.
  revert rows; induction n as [|n IH]; intros [|row rows]; cbn [repeat comb]; auto.
Qed.

(* linear in the selection vector *)
Lemma comb_xorb k rows : rows_ok k rows -> forall a b, length a = length b ->
  comb k (xorb_list a b) rows = xor_bytes (comb k a rows) (comb k b rows).
Proof.
  induction 1 as [|row rows Hr Hrows IH]; intros a b Hl.
  - destruct a, b; cbn [xorb_list comb]; try discriminate; now rewrite xor_zeros_zeros.
  - destruct a as [|x a], b as [|y b]; try discriminate.
    + cbn [xorb_list comb]. now rewrite xor_zeros_zeros.
    + simpl in Hl. assert (Hl' : length a = length b) by lia.
      pose proof (comb_length k a rows Hrows) as La. pose proof (comb_length k b rows Hrows) as Lb.
      cbn [xorb_list comb]. rewrite (IH a b Hl').
      destruct x, y; cbn [xorb].
      * symmetry. apply xor_cancel; lia.
      * now rewrite xor_assoc.
      * rewrite <- xor_assoc, (xor_comm row), xor_assoc. reflexivity.
      * reflexivity.
Qed.

Lemma vec_mat_length n a S : Forall (fun s => length s = n) S -> length (vec_mat n a S) = n.
Proof.
  intros H. revert a. induction H as [|s S Hs _ IH]; intros [|sel a]; cbn [vec_mat];
    try apply repeat_length.
  destruct sel; [|apply IH].
  assert (L : forall x y : list bool, length (xorb_list x y) = min (length x) (length y)).
  { induction x; destruct y; simpl; auto. }
  rewrite L, IH, Hs. apply Nat.min_id.
Qed.

(* associativity: combining combined rows = combining with the product vector *)
Lemma comb_mat_apply k n rows S : rows_ok k rows -> length rows = n ->
  Forall (fun s => length s = n) S ->
  forall t, comb k t (mat_apply k S rows) = comb k (vec_mat n t S) rows.
Proof.
  intros Hrows Hn HS. induction HS as [|s S Hs HS IH]; intros t.
  - destruct t; cbn [mat_apply map comb vec_mat]; now rewrite comb_false.
  - destruct t as [|sel t]; cbn [mat_apply map comb vec_mat].
    + now rewrite comb_false.
    + fold (mat_apply k S rows). destruct sel; [|apply IH].
      rewrite IH. symmetry. apply comb_xorb; [assumption|].
      rewrite Hs. symmetry. now apply vec_mat_length.
Qed.

Theorem mat_apply_mul k n rows S T : rows_ok k rows -> length rows = n ->
  Forall (fun s => length s = n) S ->
  mat_apply k T (mat_apply k S rows) = mat_apply k (mat_mul n T S) rows.
Proof.
  intros Hr Hn HS. unfold mat_apply at 1 3, mat_mul. rewrite map_map.
  apply map_ext. intros t. now apply comb_mat_apply.
Qed.

(* ---- identity --------------------------------------------------------------- *)
Lemma comb_unit_gen k i rows : rows_ok k rows -> forall s,
  comb k (map (Nat.eqb i) (seq s (length rows))) rows =
  if (s <=? i)%nat && (i <? s + length rows)%nat then nth (i - s) rows [] else zeros k.
Proof.
  induction 1 as [|row rows Hr Hrows IH]; intros s.
  - cbn [length seq map comb]. destruct ((s <=? i)%nat && (i <? s + 0)%nat) eqn:E; [lia|reflexivity].
  - cbn [length seq map comb]. rewrite IH.
    destruct (Nat.eqb i s) eqn:Eis.
    + apply Nat.eqb_eq in Eis. subst s.
      replace ((S i <=? i)%nat && (i <? S i + length rows)%nat) with false by lia.
      replace ((i <=? i)%nat && (i <? i + S (length rows))%nat) with true by lia.
      rewrite Nat.sub_diag. cbn [nth]. now apply xor_zeros_r.
    + apply Nat.eqb_neq in Eis.
      destruct ((S s <=? i)%nat && (i <? S s + length rows)%nat) eqn:E1.
      * replace ((s <=? i)%nat && (i <? s + S (length rows))%nat) with true by lia.
        replace (i - s)%nat with (S (i - S s)) by lia. reflexivity.
      * replace ((s <=? i)%nat && (i <? s + S (length rows))%nat) with false by lia. reflexivity.
Qed.

Theorem mat_apply_identity k rows : rows_ok k rows ->
  mat_apply k (identity (length rows)) rows = rows.
Proof.
  intros Hr. unfold mat_apply, identity, unit_row. rewrite map_map.
  apply nth_ext with (d := []) (d' := []).
  - now rewrite map_length, seq_length.
  - intros j Hj. rewrite map_length, seq_length in Hj.
    rewrite (nth_indep _ [] (comb k (map (Nat.eqb 0) (seq 0 (length rows))) rows))
      by now rewrite map_length, seq_length.
    rewrite (map_nth (fun i => comb k (map (Nat.eqb i) (seq 0 (length rows))) rows) (seq 0 (length rows)) 0%nat j).
    rewrite seq_nth by assumption. cbn [Nat.add].
    rewrite comb_unit_gen by assumption.
    replace ((0 <=? j)%nat && (j <? 0 + length rows)%nat) with true by lia.
    now rewrite Nat.sub_0_r.
Qed.

(* ---- linear in the rows ------------------------------------------------------ *)
Definition xor_rows (r1 r2 : list (list N)) : list (list N) :=
  map (fun p => xor_bytes (fst p) (snd p)) (combine r1 r2).

Lemma comb_xor_rows k a : forall r1 r2, rows_ok k r1 -> rows_ok k r2 -> length r1 = length r2 ->
  comb k a (xor_rows r1 r2) = xor_bytes (comb k a r1) (comb k a r2).
Proof.
  induction a as [|sel a IH]; intros r1 r2 H1 H2 Hl.
  - cbn [comb]. now rewrite xor_zeros_zeros.
  - destruct r1 as [|x r1], r2 as [|y r2]; try discriminate.
    + cbn [xor_rows combine map comb]. now rewrite xor_zeros_zeros.
    + inversion H1 as [|? ? Hx H1']; inversion H2 as [|? ? Hy H2']; subst.
      simpl in Hl. cbn [xor_rows combine map comb fst snd]. fold (xor_rows r1 r2).
      rewrite IH by (auto; lia). destruct sel; [|reflexivity].
      rewrite !xor_assoc. f_equal.
      rewrite <- !xor_assoc. f_equal. apply xor_comm.
Qed.

Lemma xor_rows_ok k r1 r2 : rows_ok k r1 -> rows_ok k r2 -> rows_ok k (xor_rows r1 r2).
Proof.
  intros H1; revert r2; induction H1 as [|x r1 Hx _ IH]; intros r2 H2; [constructor|].
  destruct r2 as [|y r2]; [constructor|]. inversion H2; subst.
  cbn [xor_rows combine map fst snd]. constructor; [|now apply IH].
  rewrite xor_bytes_length. lia.
Qed.

Theorem mat_apply_xor_rows k A r1 r2 : rows_ok k r1 -> rows_ok k r2 -> length r1 = length r2 ->
  mat_apply k A (xor_rows r1 r2) = xor_rows (mat_apply k A r1) (mat_apply k A r2).
Proof.
  intros H1 H2 Hl. unfold mat_apply. induction A as [|a A IH]; [reflexivity|].
  cbn [map]. unfold xor_rows in *. cbn [combine map fst snd].
  f_equal; [now apply comb_xor_rows|exact IH].
Qed.

(* ---- chunks ------------------------------------------------------------------ *)
Lemma chunks_ok n k data : length data = (n * k)%nat -> rows_ok k (chunks n k data).
Proof.
  revert data; induction n as [|n IH]; intros data H; cbn [chunks]; [constructor|].
  constructor.
  - rewrite firstn_length. lia.
  - apply IH. rewrite skipn_length. lia.
Qed.

Lemma chunks_length n k data : length (chunks n k data) = n.
Proof. revert data; induction n; intros; cbn [chunks length]; auto. Qed.

Lemma chunks_concat n k data : length data = (n * k)%nat -> concat (chunks n k data) = data.
Proof.
  revert data; induction n as [|n IH]; intros data H; cbn [chunks concat].
  - destruct data; [reflexivity|discriminate].
  - rewrite IH by (rewrite skipn_length; lia). apply firstn_skipn.
Qed.

Lemma chunks_xor n k d1 d2 :
  chunks n k (xor_bytes d1 d2) = xor_rows (chunks n k d1) (chunks n k d2).
Proof.
  revert d1 d2; induction n as [|n IH]; intros d1 d2; [reflexivity|].
  cbn [chunks]. unfold xor_rows. cbn [combine map fst snd].
  rewrite xor_firstn, xor_skipn, IH. reflexivity.
Qed.

Lemma select_map {A B} (f : A -> B) idxs (l : list A) d d' :
  Forall (fun i => (i < length l)%nat) idxs ->
  select idxs (map f l) d' = map f (select idxs l d).
Proof.
  intros H. unfold select. rewrite map_map. apply map_ext_in. intros i Hi.
  rewrite Forall_forall in H. specialize (H i Hi).
  rewrite (nth_indep _ d' (f d)) by now rewrite map_length. apply map_nth.
Qed.
