package main

// Two more kinds of caller memory / shared state.
//
// (1) The caller's LISTS.  FRMPayload and FOpts are []Payload: their backing arrays belong to whoever built them.
// One list may be put into two frames (one application payload fanned out to two devices), and a struct copy
// `m := *rx.MACPayload.(*MACPayload)` shares the backing array of rx's lists.  Every method that replaces the list
// of ONE frame (EncryptFRMPayload, DecryptFRMPayload, DecodeFRMPayloadToMACCommands, EncryptFOpts, DecryptFOpts,
// DecodeFOptsToMACCommands) must leave the other frame / the copy unchanged: same element pointers in the same
// order, same deep print (`shared-list:<method>:<shape>`).
//
// (2) POINTER fields of decoded values (MACPayload.FPort, the application layer's *uint32 fields).  A decoder
// that hands out a pointer into a package-level table makes every value decoded with that number share one
// cell.  After decoding, the harness writes through every settable pointer-to-integer field of the decoded value
// and requires (a) a value decoded earlier from the same bytes and (b) a fresh decode of the same bytes
// afterwards to be unchanged (`pointer-field-shared:<entry>:<bytes>`).

import (
	"fmt"
	"reflect"

	"github.com/brocaar/lorawan"
	"verifharness/internal/cases"
	"verifharness/internal/framefmt"
)

func samePayloads(a, b []lorawan.Payload) bool {
	if len(a) != len(b) {
		return false
	}
	for i := range a {
		if a[i] != b[i] {
			return false
		}
	}
	return true
}

func (h *H) sharedList(method string, onFOpts bool, shape string, mk func() (f1, f2 *lorawan.PHYPayload), run func(f *lorawan.PHYPayload) error) {
	f1, f2 := mk()
	m2 := f2.MACPayload.(*lorawan.MACPayload)
	list := func() []lorawan.Payload {
		if onFOpts {
			return m2.FHDR.FOpts
		}
		return m2.FRMPayload
	}
	before := append([]lorawan.Payload{}, list()...)
	text := deep(f2)
	var err error
	func() {
		cases.Begin("shared list: "+method+" on "+shape, map[string]interface{}{"frame": clip(text)})
		defer cases.End()
		defer func() {
			if r := recover(); r != nil {
				err = fmt.Errorf("panic: %v", r)
			}
		}()
		err = run(f1)
	}()
	h.nlists++
	if now := deep(f2); now != text || !samePayloads(before, list()) {
		h.s.Fail(cases.GoFail{Key: fmt.Sprintf("shared-list:%s:%s", method, shape),
			What:   fmt.Sprintf("%s on one frame (result %v) changed ANOTHER frame that holds the same []Payload list (%s): %s then %s", method, err, shape, clip(text), clip(now)),
			Replay: map[string]interface{}{"api": "two frames share one []Payload list (" + shape + "); " + method + " on the first; inspect the second", "second_before": clip(text), "second_after": clip(now)}})
	}
}

func (h *H) lists(mult int) {
	r := h.r
	for rep := 0; rep < 2*mult; rep++ {
		for _, spare := range []int{0, 2} {
			for _, up := range []bool{true, false} {
				up, spare := up, spare
				var k lorawan.AES128Key
				copy(k[:], r.Bytes(16))
				// --- FRMPayload lists ---
				mkFRM := func(port int, items func() []lorawan.Payload) func() (*lorawan.PHYPayload, *lorawan.PHYPayload) {
					return func() (*lorawan.PHYPayload, *lorawan.PHYPayload) {
						its := items()
						l := make([]lorawan.Payload, len(its), len(its)+spare)
						copy(l, its)
						f1 := newDataFrame(r, up, nil, port, l)
						f2 := newDataFrame(r, up, nil, port, l) // another device, the same application payload list
						return f1, f2
					}
				}
				app := func() []lorawan.Payload {
					return []lorawan.Payload{&lorawan.DataPayload{Bytes: r.Bytes(1 + r.Intn(30))}}
				}
				app2 := func() []lorawan.Payload {
					return []lorawan.Payload{&lorawan.DataPayload{Bytes: r.Bytes(3)}, &lorawan.DataPayload{Bytes: r.Bytes(4)}}
				}
				cmds := func() []lorawan.Payload {
					c, _ := propCmds(r, up, 2, false)
					return append(c, framefmt.ValidCmds(r, up, 4)...)
				}
				raw := func() []lorawan.Payload {
					var w []byte
					for _, c := range framefmt.ValidCmds(r, up, 8) {
						b, _ := c.MarshalBinary()
						w = append(w, b...)
					}
					return []lorawan.Payload{&lorawan.DataPayload{Bytes: w}}
				}
				sh := func(s string) string { return fmt.Sprintf("%s, up=%v, spare capacity %d", s, up, spare) }
				h.sharedList("EncryptFRMPayload", false, sh("FRMPayload=[DataPayload] port 10"), mkFRM(10, app), func(f *lorawan.PHYPayload) error { return f.EncryptFRMPayload(k) })
				h.sharedList("EncryptFRMPayload", false, sh("FRMPayload=[DataPayload, DataPayload] port 10"), mkFRM(10, app2), func(f *lorawan.PHYPayload) error { return f.EncryptFRMPayload(k) })
				h.sharedList("EncryptFRMPayload", false, sh("FRMPayload=[MAC commands] port 0"), mkFRM(0, cmds), func(f *lorawan.PHYPayload) error { return f.EncryptFRMPayload(k) })
				h.sharedList("DecryptFRMPayload", false, sh("FRMPayload=[DataPayload] port 10"), mkFRM(10, app), func(f *lorawan.PHYPayload) error { return f.DecryptFRMPayload(k) })
				h.sharedList("DecryptFRMPayload", false, sh("FRMPayload=[DataPayload] port 0"), mkFRM(0, app), func(f *lorawan.PHYPayload) error { return f.DecryptFRMPayload(k) })
				h.sharedList("DecodeFRMPayloadToMACCommands", false, sh("FRMPayload=[DataPayload of commands] port 0"), mkFRM(0, raw), func(f *lorawan.PHYPayload) error { return f.DecodeFRMPayloadToMACCommands() })
				// --- FOpts lists ---
				mkFO := func(items func() []lorawan.Payload) func() (*lorawan.PHYPayload, *lorawan.PHYPayload) {
					return func() (*lorawan.PHYPayload, *lorawan.PHYPayload) {
						its := items()
						l := make([]lorawan.Payload, len(its), len(its)+spare)
						copy(l, its)
						return newDataFrame(r, up, l, 7, nil), newDataFrame(r, up, l, 7, nil)
					}
				}
				focmds := func() []lorawan.Payload { return framefmt.ValidCmds(r, up, 1+r.Intn(14)) }
				h.sharedList("EncryptFOpts", true, sh("FOpts=[MAC commands]"), mkFO(focmds), func(f *lorawan.PHYPayload) error { return f.EncryptFOpts(k) })
				h.sharedList("DecryptFOpts", true, sh("FOpts=[MAC commands]"), mkFO(focmds), func(f *lorawan.PHYPayload) error { return f.DecryptFOpts(k) })
				h.sharedList("DecodeFOptsToMACCommands", true, sh("FOpts=[DataPayload of commands]"), mkFO(raw), func(f *lorawan.PHYPayload) error { return f.DecodeFOptsToMACCommands() })
				// --- a struct copy of a decoded MACPayload, then the receiver is decrypted / decoded further ---
				for _, method := range []string{"DecryptFRMPayload", "EncryptFRMPayload", "DecryptFOpts", "DecodeFOptsToMACCommands"} {
					method := method
					src := newDataFrame(r, up, framefmt.ValidCmds(r, up, 1+r.Intn(10)), 1+r.Intn(200), []lorawan.Payload{&lorawan.DataPayload{Bytes: r.Bytes(1 + r.Intn(20))}})
					wire, err := src.MarshalBinary()
					if err != nil {
						continue
					}
					h.sharedList(method, method[len(method)-5:] == "FOpts" || method == "DecodeFOptsToMACCommands", sh("m := *rx.MACPayload.(*MACPayload) of a decoded frame"), func() (*lorawan.PHYPayload, *lorawan.PHYPayload) {
						rx := &lorawan.PHYPayload{}
						if rx.UnmarshalBinary(append([]byte{}, wire...)) != nil {
							return src, src
						}
						m := *rx.MACPayload.(*lorawan.MACPayload)
						kept := &lorawan.PHYPayload{MHDR: rx.MHDR, MACPayload: &m, MIC: rx.MIC}
						return rx, kept
					}, func(f *lorawan.PHYPayload) error {
						switch method {
						case "DecryptFRMPayload":
							return f.DecryptFRMPayload(k)
						case "EncryptFRMPayload":
							return f.EncryptFRMPayload(k)
						case "DecryptFOpts":
							return f.DecryptFOpts(k)
						}
						return f.DecodeFOptsToMACCommands()
					})
				}
			}
		}
	}
	h.s.Extra["shared_list_probes"] = h.nlists
}

// intPointers collects every settable pointer-to-integer reachable through exported fields.
func intPointers(v reflect.Value, depth int, out *[]reflect.Value) {
	if depth > 6 || !v.IsValid() {
		return
	}
	switch v.Kind() {
	case reflect.Ptr:
		if v.IsNil() {
			return
		}
		switch v.Elem().Kind() {
		case reflect.Uint8, reflect.Uint16, reflect.Uint32, reflect.Uint64, reflect.Int, reflect.Int8, reflect.Int16, reflect.Int32, reflect.Int64:
			if v.Elem().CanSet() {
				*out = append(*out, v.Elem())
			}
		default:
			intPointers(v.Elem(), depth+1, out)
		}
	case reflect.Interface:
		if !v.IsNil() {
			intPointers(v.Elem(), depth+1, out)
		}
	case reflect.Struct:
		for i := 0; i < v.NumField(); i++ {
			if v.Type().Field(i).PkgPath == "" {
				intPointers(v.Field(i), depth+1, out)
			}
		}
	case reflect.Slice, reflect.Array:
		if v.Type().Elem().Kind() == reflect.Uint8 {
			return
		}
		for i := 0; i < v.Len() && i < 16; i++ {
			intPointers(v.Index(i), depth+1, out)
		}
	}
}

// pointerFields: decode b twice, write through the pointer fields of the second value, inspect the first and a third.
func (h *H) pointerFields(entry string, b []byte, decode func(in []byte) (interface{}, error)) {
	dec := func() (v interface{}) {
		cases.Begin(fmt.Sprintf("%s(%x) [pointer fields]", entry, b), map[string]interface{}{"api": entry, "in": hexs(b)})
		defer cases.End()
		defer func() {
			if r := recover(); r != nil {
				v = nil
			}
		}()
		x, err := decode(append([]byte{}, b...))
		if err != nil {
			return nil
		}
		return x
	}
	v1 := dec()
	v2 := dec()
	if v1 == nil || v2 == nil {
		return
	}
	var ptrs []reflect.Value
	intPointers(reflect.ValueOf(v2), 0, &ptrs)
	if len(ptrs) == 0 {
		return
	}
	h.nptrs++
	text := deep(v1)
	for _, p := range ptrs {
		switch p.Kind() {
		case reflect.Int, reflect.Int8, reflect.Int16, reflect.Int32, reflect.Int64:
			p.SetInt(p.Int() ^ 0x55)
		default:
			p.SetUint(p.Uint() ^ 0x55)
		}
	}
	now := deep(v1)
	v3 := dec()
	later := deep(v3)
	if now != text || later != text {
		h.s.Fail(cases.GoFail{Key: fmt.Sprintf("pointer-field-shared:%s:%x", entry, b),
			What:   fmt.Sprintf("writing through the pointer fields of one value decoded by %s changed an earlier value decoded from the same bytes (%s -> %s) or a later decode of them (%s)", entry, clip(text), clip(now), clip(later)),
			Replay: map[string]interface{}{"api": "v1, v2 := decode(in), decode(in); *v2.<pointer field> ^= 0x55; inspect v1; decode(in) again", "entry": entry, "in": hexs(b)}})
	}
}

func (h *H) pointers(mult int) {
	r := h.r
	for rep := 0; rep < mult; rep++ {
		// every FPort value once per round, through MACPayload and through the whole frame
		for port := 0; port < 256; port += 1 + rep%3 {
			w := macWire(r, 0, port, 1+r.Intn(4))
			h.pointerFields("MACPayload.UnmarshalBinary", w, func(in []byte) (interface{}, error) {
				m := &lorawan.MACPayload{}
				return m, m.UnmarshalBinary(true, in)
			})
			if port%8 == 0 {
				frame := append(append([]byte{0x40}, w...), r.Bytes(4)...)
				h.pointerFields("PHYPayload.UnmarshalBinary", frame, func(in []byte) (interface{}, error) {
					p := &lorawan.PHYPayload{}
					return p, p.UnmarshalBinary(in)
				})
			}
		}
		// every application-layer payload, on inputs with small numbers (tables for small values)
		for _, pk := range appPkgs() {
			for _, up := range []bool{false, true} {
				for cid := 0; cid < 256; cid++ {
					pl := pk.payload(up, byte(cid))
					if pl == nil {
						continue
					}
					size := pl.Size() + 4
					for variant := 0; variant < 4; variant++ {
						b := make([]byte, size)
						switch variant {
						case 1:
							b[1] = byte(r.Intn(256))
						case 2:
							for i := range b {
								b[i] = byte(r.Intn(3))
							}
						case 3:
							copy(b, r.Bytes(size))
							b[0] &= 0x03
						}
						up, cid := up, cid
						h.pointerFields(fmt.Sprintf("%s.%T.UnmarshalBinary", pk.name, pl), b, func(in []byte) (interface{}, error) {
							x := pk.payload(up, byte(cid))
							return x, x.UnmarshalBinary(in)
						})
					}
				}
			}
		}
	}
	h.s.Extra["pointer_field_probes"] = h.nptrs
}
