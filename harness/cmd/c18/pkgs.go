// Adapters, Gallina printers and value generators for the four
// application-layer packages.
package main

import (
	"fmt"
	"reflect"
	"strings"
	"unsafe"

	"github.com/brocaar/lorawan"
	cs "github.com/brocaar/lorawan/applayer/clocksync"
	fw "github.com/brocaar/lorawan/applayer/firmwaremanagement"
	fr "github.com/brocaar/lorawan/applayer/fragmentation"
	mc "github.com/brocaar/lorawan/applayer/multicastsetup"
	"verifharness/internal/cq"
)

// payload is the common method set of the four CommandPayload interfaces.
type payload interface {
	MarshalBinary() ([]byte, error)
	UnmarshalBinary([]byte) error
	Size() int
}

// cmd is a package-independent Command; p == nil means "no payload".
type cmd struct {
	cid byte
	p   payload
}

// receiver wraps one package-typed `Commands` variable and one `Command` variable that live
// across several UnmarshalBinary calls (what an application's receive loop does).
type receiver struct {
	decode  func(up bool, b []byte) error // Commands.UnmarshalBinary into the variable
	keep    func() func() []cmd           // shallow copy (slice header) of the variable now; the result reads it later
	isNil   func() bool
	length  func() int
	decode1 func(up bool, b []byte) error // Command.UnmarshalBinary into the variable
	keep1   func() func() cmd             // struct copy of the Command variable now
}

// generation modes
const (
	inRange  = 0 // random values within the specified widths
	boundary = 1 // every field at its minimum or maximum
	outRange = 2 // sub-byte / truncated fields may exceed their width; structure may be inconsistent
)

type gen struct {
	name string
	cid  byte
	up   bool
	mk   func(r *cq.RNG, mode int) payload
	enum func() []payload // all in-range values when the payload is a single byte, else nil
}

type pkg struct {
	id         int
	name, ctor string
	marshal    func([]cmd) ([]byte, error)
	sizes      func([]cmd) []int
	unmarshal  func(up bool, b []byte) ([]cmd, error)
	unmarshal1 func(up bool, b []byte) (cmd, error)
	term       func(p payload) string
	newRecv    func() *receiver // a Commands and a Command variable that are decoded into repeatedly
	gens       []gen
	// CIDs without payload in a direction (e.g. PackageVersionReq)
	bareDown, bareUp []byte
}

// fld draws a value for a field of `bits` significant bits stored in a Go
// type of `tbits` bits.
func fld(r *cq.RNG, mode int, bits, tbits uint) uint64 {
	max := uint64(1)<<bits - 1
	switch mode {
	case boundary:
		if r.Bool() {
			return max
		}
		return 0
	case outRange:
		if bits < tbits && r.Intn(3) != 0 {
			tmax := uint64(1)<<tbits - 1
			switch r.Intn(3) {
			case 0:
				return max + 1
			case 1:
				return tmax
			}
			return max + 1 + r.U64()%(tmax-max)
		}
	}
	switch r.Intn(8) {
	case 0:
		return 0
	case 1:
		return max
	}
	return r.U64() & max
}

func bl(r *cq.RNG, mode int) bool { return r.Bool() }

func mask4(r *cq.RNG) [4]bool { return [4]bool{r.Bool(), r.Bool(), r.Bool(), r.Bool()} }

func bools(m [4]bool) string {
	s := make([]string, 4)
	for i, b := range m {
		s[i] = cq.Bool(b)
	}
	return cq.List(s)
}

func optU32(p *uint32) string {
	if p == nil {
		return cq.None
	}
	return cq.Some(cq.N(uint64(*p)))
}

func u32p(v uint32) *uint32 { return &v }

// ---------------------------------------------------------------- clocksync

func csTerm(p payload) string {
	switch v := p.(type) {
	case *cs.PackageVersionAnsPayload:
		return fmt.Sprintf("(ClockSync.PackageVersionAns %d %d)", v.PackageIdentifier, v.PackageVersion)
	case *cs.AppTimeReqPayload:
		return fmt.Sprintf("(ClockSync.AppTimeReq %d %s %d)", v.DeviceTime, cq.Bool(v.Param.AnsRequired), v.Param.TokenReq)
	case *cs.AppTimeAnsPayload:
		return fmt.Sprintf("(ClockSync.AppTimeAns %s %d)", cq.Z(int64(v.TimeCorrection)), v.Param.TokenAns)
	case *cs.DeviceAppTimePeriodicityReqPayload:
		return fmt.Sprintf("(ClockSync.DeviceAppTimePeriodicityReq %d)", v.Periodicity.Period)
	case *cs.DeviceAppTimePeriodicityAnsPayload:
		return fmt.Sprintf("(ClockSync.DeviceAppTimePeriodicityAns %s %d)", cq.Bool(v.Status.NotSupported), v.Time)
	case *cs.ForceDeviceResyncReqPayload:
		return fmt.Sprintf("(ClockSync.ForceDeviceResyncReq %d)", v.ForceConf.NbTransmissions)
	}
	panic(fmt.Sprintf("csTerm: %T", p))
}

func csPkg() *pkg {
	conv := func(c []cmd) cs.Commands {
		var out cs.Commands
		for _, x := range c {
			k := cs.Command{CID: cs.CID(x.cid)}
			if x.p != nil {
				k.Payload = x.p
			}
			out = append(out, k)
		}
		return out
	}
	back := func(c cs.Command) cmd {
		if c.Payload == nil {
			return cmd{byte(c.CID), nil}
		}
		return cmd{byte(c.CID), c.Payload}
	}
	return &pkg{id: 0, name: "clocksync", ctor: "CS",
		marshal: func(c []cmd) ([]byte, error) { return conv(c).MarshalBinary() },
		sizes: func(c []cmd) []int {
			var out []int
			for _, k := range conv(c) {
				out = append(out, k.Size())
			}
			return out
		},
		unmarshal: func(up bool, b []byte) ([]cmd, error) {
			var c cs.Commands
			err := c.UnmarshalBinary(up, b)
			var out []cmd
			for _, k := range c {
				out = append(out, back(k))
			}
			return out, err
		},
		unmarshal1: func(up bool, b []byte) (cmd, error) {
			var c cs.Command
			err := c.UnmarshalBinary(up, b)
			return back(c), err
		},
		newRecv: func() *receiver {
			var c cs.Commands
			var c1 cs.Command
			return &receiver{
				decode: func(up bool, b []byte) error { return c.UnmarshalBinary(up, b) },
				keep: func() func() []cmd {
					k := c // shallow copy: same backing array
					return func() []cmd {
						var out []cmd
						for _, x := range k {
							out = append(out, back(x))
						}
						return out
					}
				},
				isNil:   func() bool { return c == nil },
				length:  func() int { return len(c) },
				decode1: func(up bool, b []byte) error { return c1.UnmarshalBinary(up, b) },
				keep1: func() func() cmd {
					k := c1
					return func() cmd { return back(k) }
				},
			}
		},
		term:     csTerm,
		bareDown: []byte{0x00}, bareUp: []byte{0x03},
		gens: []gen{
			{"PackageVersionAns", 0, true, func(r *cq.RNG, m int) payload {
				return &cs.PackageVersionAnsPayload{PackageIdentifier: uint8(fld(r, m, 8, 8)), PackageVersion: uint8(fld(r, m, 8, 8))}
			}, nil},
			{"AppTimeReq", 1, true, func(r *cq.RNG, m int) payload {
				return &cs.AppTimeReqPayload{DeviceTime: uint32(fld(r, m, 32, 32)),
					Param: cs.AppTimeReqPayloadParam{AnsRequired: r.Bool(), TokenReq: uint8(fld(r, m, 4, 8))}}
			}, nil},
			{"AppTimeAns", 1, false, func(r *cq.RNG, m int) payload {
				tc := int32(uint32(fld(r, m, 32, 32)))
				if m == boundary {
					tc = []int32{-2147483648, 2147483647, -1, 0}[r.Intn(4)]
				}
				return &cs.AppTimeAnsPayload{TimeCorrection: tc, Param: cs.AppTimeAnsPayloadParam{TokenAns: uint8(fld(r, m, 4, 8))}}
			}, nil},
			{"DeviceAppTimePeriodicityReq", 2, false, func(r *cq.RNG, m int) payload {
				return &cs.DeviceAppTimePeriodicityReqPayload{Periodicity: cs.DeviceAppTimePeriodicityReqPayloadPeriodicity{Period: uint8(fld(r, m, 4, 8))}}
			}, func() []payload {
				var out []payload
				for v := 0; v < 16; v++ {
					out = append(out, &cs.DeviceAppTimePeriodicityReqPayload{Periodicity: cs.DeviceAppTimePeriodicityReqPayloadPeriodicity{Period: uint8(v)}})
				}
				return out
			}},
			{"DeviceAppTimePeriodicityAns", 2, true, func(r *cq.RNG, m int) payload {
				return &cs.DeviceAppTimePeriodicityAnsPayload{Status: cs.DeviceAppTimePeriodicityAnsPayloadStatus{NotSupported: r.Bool()}, Time: uint32(fld(r, m, 32, 32))}
			}, nil},
			{"ForceDeviceResyncReq", 3, false, func(r *cq.RNG, m int) payload {
				return &cs.ForceDeviceResyncReqPayload{ForceConf: cs.ForceDeviceResyncReqPayloadForceConf{NbTransmissions: uint8(fld(r, m, 3, 8))}}
			}, func() []payload {
				var out []payload
				for v := 0; v < 8; v++ {
					out = append(out, &cs.ForceDeviceResyncReqPayload{ForceConf: cs.ForceDeviceResyncReqPayloadForceConf{NbTransmissions: uint8(v)}})
				}
				return out
			}},
		}}
}

// ------------------------------------------------------------ multicastsetup

func addrTerm(a lorawan.DevAddr) string { return cq.Bytes(a[:]) }

func mcTerm(p payload) string {
	switch v := p.(type) {
	case *mc.PackageVersionAnsPayload:
		return fmt.Sprintf("(Multicast.PackageVersionAns %d %d)", v.PackageIdentifier, v.PackageVersion)
	case *mc.McGroupStatusReqPayload:
		return fmt.Sprintf("(Multicast.McGroupStatusReq %s)", bools(v.CmdMask.RegGroupMask))
	case *mc.McGroupStatusAnsPayload:
		items := make([]string, len(v.Items))
		for i, it := range v.Items {
			items[i] = cq.Tuple(cq.N(uint64(it.McGroupID)), addrTerm(it.McAddr))
		}
		return fmt.Sprintf("(Multicast.McGroupStatusAns %d %s %s)", v.Status.NbTotalGroups, bools(v.Status.AnsGroupMask), cq.List(items))
	case *mc.McGroupSetupReqPayload:
		return fmt.Sprintf("(Multicast.McGroupSetupReq %d %s %s %d %d)", v.McGroupIDHeader.McGroupID, addrTerm(v.McAddr),
			cq.Bytes(v.McKeyEncrypted[:]), v.MinMcFCnt, v.MaxMcFCnt)
	case *mc.McGroupSetupAnsPayload:
		return fmt.Sprintf("(Multicast.McGroupSetupAns %s %d)", cq.Bool(v.McGroupIDHeader.IDError), v.McGroupIDHeader.McGroupID)
	case *mc.McGroupDeleteReqPayload:
		return fmt.Sprintf("(Multicast.McGroupDeleteReq %d)", v.McGroupIDHeader.McGroupID)
	case *mc.McGroupDeleteAnsPayload:
		return fmt.Sprintf("(Multicast.McGroupDeleteAns %s %d)", cq.Bool(v.McGroupIDHeader.McGroupUndefined), v.McGroupIDHeader.McGroupID)
	case *mc.McClassCSessionReqPayload:
		return fmt.Sprintf("(Multicast.McClassCSessionReq %d %d %d %d %d)", v.McGroupIDHeader.McGroupID, v.SessionTime,
			v.SessionTimeOut.TimeOut, v.DLFrequency, v.DR)
	case *mc.McClassCSessionAnsPayload:
		s := v.StatusAndMcGroupID
		return fmt.Sprintf("(Multicast.McClassCSessionAns %s %s %s %d %s)", cq.Bool(s.McGroupUndefined), cq.Bool(s.FreqError), cq.Bool(s.DRError), s.McGroupID, optU32(v.TimeToStart))
	case *mc.McClassBSessionReqPayload:
		return fmt.Sprintf("(Multicast.McClassBSessionReq %d %d %d %d %d %d)", v.McGroupIDHeader.McGroupID, v.SessionTime,
			v.TimeOutPeriodicity.Periodicity, v.TimeOutPeriodicity.TimeOut, v.DLFrequency, v.DR)
	case *mc.McClassBSessionAnsPayload:
		s := v.StatusAndMcGroupID
		return fmt.Sprintf("(Multicast.McClassBSessionAns %s %s %s %d %s)", cq.Bool(s.McGroupUndefined), cq.Bool(s.FreqError), cq.Bool(s.DRError), s.McGroupID, optU32(v.TimeToStart))
	}
	panic(fmt.Sprintf("mcTerm: %T", p))
}

func rndAddr(r *cq.RNG, m int) lorawan.DevAddr {
	var a lorawan.DevAddr
	if m == boundary {
		if r.Bool() {
			a = lorawan.DevAddr{255, 255, 255, 255}
		}
		return a
	}
	copy(a[:], r.Bytes(4))
	return a
}

// frequency in Hz: multiple of 100 with quotient below 2^24 when in range
func freq(r *cq.RNG, m int) uint32 {
	switch m {
	case boundary:
		return []uint32{0, 100, 1677721500, 868100000}[r.Intn(4)]
	case outRange:
		switch r.Intn(4) {
		case 0:
			return 1677721600 // quotient 2^24
		case 1:
			return uint32(r.U64()) // mostly not a multiple of 100
		case 2:
			return 4294967200
		}
	}
	return uint32(r.U64()&0xffffff) * 100
}

func sessionAnsFields(r *cq.RNG, m int) (u, f, d bool, id uint8, tts *uint32) {
	if r.Intn(2) == 0 {
		u, f, d = r.Bool(), r.Bool(), r.Bool()
	}
	id = uint8(fld(r, m, 2, 8))
	hasErr := u || f || d
	if !hasErr {
		tts = u32p(uint32(fld(r, m, 24, 32)))
	}
	if m == outRange && r.Intn(3) == 0 {
		// inconsistent structure
		if tts == nil {
			tts = u32p(uint32(r.U64()))
		} else {
			tts = nil
		}
	}
	return
}

func mcPkg() *pkg {
	conv := func(c []cmd) mc.Commands {
		var out mc.Commands
		for _, x := range c {
			k := mc.Command{CID: mc.CID(x.cid)}
			if x.p != nil {
				k.Payload = x.p
			}
			out = append(out, k)
		}
		return out
	}
	back := func(c mc.Command) cmd {
		if c.Payload == nil {
			return cmd{byte(c.CID), nil}
		}
		return cmd{byte(c.CID), c.Payload}
	}
	id2 := func(r *cq.RNG, m int) uint8 { return uint8(fld(r, m, 2, 8)) }
	return &pkg{id: 1, name: "multicastsetup", ctor: "MC",
		marshal: func(c []cmd) ([]byte, error) { return conv(c).MarshalBinary() },
		sizes: func(c []cmd) []int {
			var out []int
			for _, k := range conv(c) {
				out = append(out, k.Size())
			}
			return out
		},
		unmarshal: func(up bool, b []byte) ([]cmd, error) {
			var c mc.Commands
			err := c.UnmarshalBinary(up, b)
			var out []cmd
			for _, k := range c {
				out = append(out, back(k))
			}
			return out, err
		},
		unmarshal1: func(up bool, b []byte) (cmd, error) {
			var c mc.Command
			err := c.UnmarshalBinary(up, b)
			return back(c), err
		},
		newRecv: func() *receiver {
			var c mc.Commands
			var c1 mc.Command
			return &receiver{
				decode: func(up bool, b []byte) error { return c.UnmarshalBinary(up, b) },
				keep: func() func() []cmd {
					k := c // shallow copy: same backing array
					return func() []cmd {
						var out []cmd
						for _, x := range k {
							out = append(out, back(x))
						}
						return out
					}
				},
				isNil:   func() bool { return c == nil },
				length:  func() int { return len(c) },
				decode1: func(up bool, b []byte) error { return c1.UnmarshalBinary(up, b) },
				keep1: func() func() cmd {
					k := c1
					return func() cmd { return back(k) }
				},
			}
		},
		term:     mcTerm,
		bareDown: []byte{0x00}, bareUp: []byte{0x06},
		gens: []gen{
			{"PackageVersionAns", 0, true, func(r *cq.RNG, m int) payload {
				return &mc.PackageVersionAnsPayload{PackageIdentifier: uint8(fld(r, m, 8, 8)), PackageVersion: uint8(fld(r, m, 8, 8))}
			}, nil},
			{"McGroupStatusReq", 1, false, func(r *cq.RNG, m int) payload {
				return &mc.McGroupStatusReqPayload{CmdMask: mc.McGroupStatusReqPayloadCmdMask{RegGroupMask: mask4(r)}}
			}, func() []payload {
				var out []payload
				for v := 0; v < 16; v++ {
					out = append(out, &mc.McGroupStatusReqPayload{CmdMask: mc.McGroupStatusReqPayloadCmdMask{RegGroupMask: [4]bool{v&1 != 0, v&2 != 0, v&4 != 0, v&8 != 0}}})
				}
				return out
			}},
			{"McGroupStatusAns", 1, true, func(r *cq.RNG, m int) payload {
				p := &mc.McGroupStatusAnsPayload{}
				p.Status.NbTotalGroups = uint8(fld(r, m, 3, 8))
				p.Status.AnsGroupMask = mask4(r)
				if m == boundary {
					if r.Bool() {
						p.Status.AnsGroupMask = [4]bool{true, true, true, true}
					} else {
						p.Status.AnsGroupMask = [4]bool{}
					}
				}
				n := 0
				for _, b := range p.Status.AnsGroupMask {
					if b {
						n++
					}
				}
				if m == outRange && r.Intn(3) == 0 {
					n = r.Intn(7)
				}
				for i := 0; i < n; i++ {
					p.Items = append(p.Items, mc.McGroupStatusAnsPayloadItem{McGroupID: id2(r, m), McAddr: rndAddr(r, m)})
				}
				return p
			}, nil},
			{"McGroupSetupReq", 2, false, func(r *cq.RNG, m int) payload {
				p := &mc.McGroupSetupReqPayload{McAddr: rndAddr(r, m), MinMcFCnt: uint32(fld(r, m, 32, 32)), MaxMcFCnt: uint32(fld(r, m, 32, 32))}
				p.McGroupIDHeader.McGroupID = id2(r, m)
				copy(p.McKeyEncrypted[:], r.Bytes(16))
				return p
			}, nil},
			{"McGroupSetupAns", 2, true, func(r *cq.RNG, m int) payload {
				p := &mc.McGroupSetupAnsPayload{}
				p.McGroupIDHeader.IDError = r.Bool()
				p.McGroupIDHeader.McGroupID = id2(r, m)
				return p
			}, func() []payload {
				var out []payload
				for v := 0; v < 8; v++ {
					p := &mc.McGroupSetupAnsPayload{}
					p.McGroupIDHeader.IDError = v&4 != 0
					p.McGroupIDHeader.McGroupID = uint8(v & 3)
					out = append(out, p)
				}
				return out
			}},
			{"McGroupDeleteReq", 3, false, func(r *cq.RNG, m int) payload {
				p := &mc.McGroupDeleteReqPayload{}
				p.McGroupIDHeader.McGroupID = id2(r, m)
				return p
			}, func() []payload {
				var out []payload
				for v := 0; v < 4; v++ {
					p := &mc.McGroupDeleteReqPayload{}
					p.McGroupIDHeader.McGroupID = uint8(v)
					out = append(out, p)
				}
				return out
			}},
			{"McGroupDeleteAns", 3, true, func(r *cq.RNG, m int) payload {
				p := &mc.McGroupDeleteAnsPayload{}
				p.McGroupIDHeader.McGroupUndefined = r.Bool()
				p.McGroupIDHeader.McGroupID = id2(r, m)
				return p
			}, func() []payload {
				var out []payload
				for v := 0; v < 8; v++ {
					p := &mc.McGroupDeleteAnsPayload{}
					p.McGroupIDHeader.McGroupUndefined = v&4 != 0
					p.McGroupIDHeader.McGroupID = uint8(v & 3)
					out = append(out, p)
				}
				return out
			}},
			{"McClassCSessionReq", 4, false, func(r *cq.RNG, m int) payload {
				p := &mc.McClassCSessionReqPayload{SessionTime: uint32(fld(r, m, 32, 32)), DLFrequency: freq(r, m), DR: uint8(fld(r, m, 8, 8))}
				p.McGroupIDHeader.McGroupID = id2(r, m)
				p.SessionTimeOut.TimeOut = uint8(fld(r, m, 4, 8))
				return p
			}, nil},
			{"McClassCSessionAns", 4, true, func(r *cq.RNG, m int) payload {
				p := &mc.McClassCSessionAnsPayload{}
				s := &p.StatusAndMcGroupID
				s.McGroupUndefined, s.FreqError, s.DRError, s.McGroupID, p.TimeToStart = sessionAnsFields(r, m)
				return p
			}, func() []payload {
				var out []payload
				for v := 4; v < 32; v++ { // at least one error bit: one byte
					p := &mc.McClassCSessionAnsPayload{}
					s := &p.StatusAndMcGroupID
					s.McGroupID, s.DRError, s.FreqError, s.McGroupUndefined = uint8(v&3), v&4 != 0, v&8 != 0, v&16 != 0
					out = append(out, p)
				}
				return out
			}},
			{"McClassBSessionReq", 5, false, func(r *cq.RNG, m int) payload {
				p := &mc.McClassBSessionReqPayload{SessionTime: uint32(fld(r, m, 32, 32)), DLFrequency: freq(r, m), DR: uint8(fld(r, m, 8, 8))}
				p.McGroupIDHeader.McGroupID = id2(r, m)
				p.TimeOutPeriodicity.TimeOut = uint8(fld(r, m, 4, 8))
				p.TimeOutPeriodicity.Periodicity = uint8(fld(r, m, 3, 8))
				return p
			}, nil},
			{"McClassBSessionAns", 5, true, func(r *cq.RNG, m int) payload {
				p := &mc.McClassBSessionAnsPayload{}
				s := &p.StatusAndMcGroupID
				s.McGroupUndefined, s.FreqError, s.DRError, s.McGroupID, p.TimeToStart = sessionAnsFields(r, m)
				return p
			}, func() []payload {
				var out []payload
				for v := 4; v < 32; v++ {
					p := &mc.McClassBSessionAnsPayload{}
					s := &p.StatusAndMcGroupID
					s.McGroupID, s.DRError, s.FreqError, s.McGroupUndefined = uint8(v&3), v&4 != 0, v&8 != 0, v&16 != 0
					out = append(out, p)
				}
				return out
			}},
		}}
}

// ------------------------------------------------------------- fragmentation

func frTerm(p payload) string {
	switch v := p.(type) {
	case *fr.PackageVersionAnsPayload:
		return fmt.Sprintf("(FragCmds.PackageVersionAns %d %d)", v.PackageIdentifier, v.PackageVersion)
	case *fr.FragSessionSetupReqPayload:
		return fmt.Sprintf("(FragCmds.FragSessionSetupReq %d %s %d %d %d %d %d %s)", v.FragSession.FragIndex, bools(v.FragSession.McGroupBitMask),
			v.NbFrag, v.FragSize, v.Control.FragmentationMatrix, v.Control.BlockAckDelay, v.Padding, cq.Bytes(v.Descriptor[:]))
	case *fr.FragSessionSetupAnsPayload:
		s := v.StatusBitMask
		return fmt.Sprintf("(FragCmds.FragSessionSetupAns %d %s %s %s %s)", s.FragIndex, cq.Bool(s.WrongDescriptor), cq.Bool(s.FragSessionIndexNotSupported),
			cq.Bool(s.NotEnoughMemory), cq.Bool(s.EncodingUnsupported))
	case *fr.FragSessionDeleteReqPayload:
		return fmt.Sprintf("(FragCmds.FragSessionDeleteReq %d)", v.Param.FragIndex)
	case *fr.FragSessionDeleteAnsPayload:
		return fmt.Sprintf("(FragCmds.FragSessionDeleteAns %d %s)", v.Status.FragIndex, cq.Bool(v.Status.SessionDoesNotExist))
	case *fr.DataFragmentPayload:
		return fmt.Sprintf("(FragCmds.DataFragment %d %d %s)", v.IndexAndN.FragIndex, v.IndexAndN.N, cq.Bytes(v.Payload))
	case *fr.FragSessionStatusReqPayload:
		return fmt.Sprintf("(FragCmds.FragSessionStatusReq %d %s)", v.FragStatusReqParam.FragIndex, cq.Bool(v.FragStatusReqParam.Participants))
	case *fr.FragSessionStatusAnsPayload:
		return fmt.Sprintf("(FragCmds.FragSessionStatusAns %d %d %d %s)", v.ReceivedAndIndex.FragIndex, v.ReceivedAndIndex.NbFragReceived, v.MissingFrag,
			cq.Bool(v.Status.NotEnoughMatrixMemory))
	}
	panic(fmt.Sprintf("frTerm: %T", p))
}

func frPkg() *pkg {
	conv := func(c []cmd) fr.Commands {
		var out fr.Commands
		for _, x := range c {
			k := fr.Command{CID: fr.CID(x.cid)}
			if x.p != nil {
				k.Payload = x.p
			}
			out = append(out, k)
		}
		return out
	}
	back := func(c fr.Command) cmd {
		if c.Payload == nil {
			return cmd{byte(c.CID), nil}
		}
		return cmd{byte(c.CID), c.Payload}
	}
	fi := func(r *cq.RNG, m int) uint8 { return uint8(fld(r, m, 2, 8)) }
	return &pkg{id: 2, name: "fragmentation", ctor: "FR",
		marshal: func(c []cmd) ([]byte, error) { return conv(c).MarshalBinary() },
		sizes: func(c []cmd) []int {
			var out []int
			for _, k := range conv(c) {
				out = append(out, k.Size())
			}
			return out
		},
		unmarshal: func(up bool, b []byte) ([]cmd, error) {
			var c fr.Commands
			err := c.UnmarshalBinary(up, b)
			var out []cmd
			for _, k := range c {
				out = append(out, back(k))
			}
			return out, err
		},
		unmarshal1: func(up bool, b []byte) (cmd, error) {
			var c fr.Command
			err := c.UnmarshalBinary(up, b)
			return back(c), err
		},
		newRecv: func() *receiver {
			var c fr.Commands
			var c1 fr.Command
			return &receiver{
				decode: func(up bool, b []byte) error { return c.UnmarshalBinary(up, b) },
				keep: func() func() []cmd {
					k := c // shallow copy: same backing array
					return func() []cmd {
						var out []cmd
						for _, x := range k {
							out = append(out, back(x))
						}
						return out
					}
				},
				isNil:   func() bool { return c == nil },
				length:  func() int { return len(c) },
				decode1: func(up bool, b []byte) error { return c1.UnmarshalBinary(up, b) },
				keep1: func() func() cmd {
					k := c1
					return func() cmd { return back(k) }
				},
			}
		},
		term:     frTerm,
		bareDown: []byte{0x00}, bareUp: []byte{0x08},
		gens: []gen{
			{"PackageVersionAns", 0, true, func(r *cq.RNG, m int) payload {
				return &fr.PackageVersionAnsPayload{PackageIdentifier: uint8(fld(r, m, 8, 8)), PackageVersion: uint8(fld(r, m, 8, 8))}
			}, nil},
			{"FragSessionSetupReq", 2, false, func(r *cq.RNG, m int) payload {
				p := &fr.FragSessionSetupReqPayload{NbFrag: uint16(fld(r, m, 16, 16)), FragSize: uint8(fld(r, m, 8, 8)), Padding: uint8(fld(r, m, 8, 8))}
				p.FragSession.FragIndex = fi(r, m)
				p.FragSession.McGroupBitMask = mask4(r)
				p.Control.FragmentationMatrix = uint8(fld(r, m, 3, 8))
				p.Control.BlockAckDelay = uint8(fld(r, m, 3, 8))
				copy(p.Descriptor[:], r.Bytes(4))
				return p
			}, nil},
			{"FragSessionSetupAns", 2, true, func(r *cq.RNG, m int) payload {
				p := &fr.FragSessionSetupAnsPayload{}
				s := &p.StatusBitMask
				s.FragIndex, s.WrongDescriptor, s.FragSessionIndexNotSupported, s.NotEnoughMemory, s.EncodingUnsupported = fi(r, m), r.Bool(), r.Bool(), r.Bool(), r.Bool()
				return p
			}, func() []payload {
				var out []payload
				for v := 0; v < 64; v++ {
					p := &fr.FragSessionSetupAnsPayload{}
					s := &p.StatusBitMask
					s.EncodingUnsupported, s.NotEnoughMemory, s.FragSessionIndexNotSupported, s.WrongDescriptor, s.FragIndex = v&1 != 0, v&2 != 0, v&4 != 0, v&8 != 0, uint8(v>>4)
					out = append(out, p)
				}
				return out
			}},
			{"FragSessionDeleteReq", 3, false, func(r *cq.RNG, m int) payload {
				p := &fr.FragSessionDeleteReqPayload{}
				p.Param.FragIndex = fi(r, m)
				return p
			}, func() []payload {
				var out []payload
				for v := 0; v < 4; v++ {
					p := &fr.FragSessionDeleteReqPayload{}
					p.Param.FragIndex = uint8(v)
					out = append(out, p)
				}
				return out
			}},
			{"FragSessionDeleteAns", 3, true, func(r *cq.RNG, m int) payload {
				p := &fr.FragSessionDeleteAnsPayload{}
				p.Status.FragIndex, p.Status.SessionDoesNotExist = fi(r, m), r.Bool()
				return p
			}, func() []payload {
				var out []payload
				for v := 0; v < 8; v++ {
					p := &fr.FragSessionDeleteAnsPayload{}
					p.Status.FragIndex, p.Status.SessionDoesNotExist = uint8(v&3), v&4 != 0
					out = append(out, p)
				}
				return out
			}},
			{"DataFragment", 8, false, func(r *cq.RNG, m int) payload {
				p := &fr.DataFragmentPayload{}
				p.IndexAndN.FragIndex = fi(r, m)
				p.IndexAndN.N = uint16(fld(r, m, 14, 16))
				n := r.Intn(24)
				if m == boundary {
					n = []int{0, 1, 64}[r.Intn(3)]
				}
				p.Payload = r.Bytes(n)
				return p
			}, nil},
			{"FragSessionStatusReq", 1, false, func(r *cq.RNG, m int) payload {
				p := &fr.FragSessionStatusReqPayload{}
				p.FragStatusReqParam.FragIndex, p.FragStatusReqParam.Participants = fi(r, m), r.Bool()
				return p
			}, func() []payload {
				var out []payload
				for v := 0; v < 8; v++ {
					p := &fr.FragSessionStatusReqPayload{}
					p.FragStatusReqParam.Participants, p.FragStatusReqParam.FragIndex = v&1 != 0, uint8(v>>1)
					out = append(out, p)
				}
				return out
			}},
			{"FragSessionStatusAns", 1, true, func(r *cq.RNG, m int) payload {
				p := &fr.FragSessionStatusAnsPayload{MissingFrag: uint8(fld(r, m, 8, 8))}
				p.ReceivedAndIndex.FragIndex = fi(r, m)
				p.ReceivedAndIndex.NbFragReceived = uint16(fld(r, m, 14, 16))
				p.Status.NotEnoughMatrixMemory = r.Bool()
				return p
			}, nil},
		}}
}

// ------------------------------------------------------- firmwaremanagement

// the next firmware version is an unexported *uint32
func fwNext(p *fw.DevUpgradeImageAnsPayload) *uint32 {
	f := reflect.ValueOf(p).Elem().FieldByName("nextFirmwareVersion")
	if f.IsNil() {
		return nil
	}
	v := uint32(f.Elem().Uint())
	return &v
}

func fwSetNext(p *fw.DevUpgradeImageAnsPayload, v *uint32) {
	f := reflect.ValueOf(p).Elem().FieldByName("nextFirmwareVersion")
	reflect.NewAt(f.Type(), unsafe.Pointer(f.UnsafeAddr())).Elem().Set(reflect.ValueOf(v))
}

func fwTerm(p payload) string {
	switch v := p.(type) {
	case *fw.PackageVersionAnsPayload:
		return fmt.Sprintf("(FwMgmt.PackageVersionAns %d %d)", v.PackageIdentifier, v.PackageVersion)
	case *fw.DevVersionReqPayload:
		return "FwMgmt.DevVersionReq"
	case *fw.DevVersionAnsPayload:
		return fmt.Sprintf("(FwMgmt.DevVersionAns %d %d)", v.FWversion, v.HWversion)
	case *fw.DevRebootTimeReqPayload:
		return fmt.Sprintf("(FwMgmt.DevRebootTimeReq %d)", v.RebootTime)
	case *fw.DevRebootTimeAnsPayload:
		return fmt.Sprintf("(FwMgmt.DevRebootTimeAns %d)", v.RebootTime)
	case *fw.DevRebootCountdownReqPayload:
		return fmt.Sprintf("(FwMgmt.DevRebootCountdownReq %d)", v.Countdown)
	case *fw.DevRebootCountdownAnsPayload:
		return fmt.Sprintf("(FwMgmt.DevRebootCountdownAns %d)", v.Countdown)
	case *fw.DevUpgradeImageReqPayload:
		return "FwMgmt.DevUpgradeImageReq"
	case *fw.DevUpgradeImageAnsPayload:
		return fmt.Sprintf("(FwMgmt.DevUpgradeImageAns %d %s)", uint8(v.Status.UpImageStatus), optU32(fwNext(v)))
	case *fw.DevDeleteImageReqPayload:
		return fmt.Sprintf("(FwMgmt.DevDeleteImageReq %d)", v.FirmwareToDeleteVersion)
	case *fw.DevDeleteImageAnsPayload:
		return fmt.Sprintf("(FwMgmt.DevDeleteImageAns %d %d)", v.Status.ErrorInvalidVersion, v.Status.ErrorNoValidImage)
	}
	panic(fmt.Sprintf("fwTerm: %T", p))
}

func mkUpgradeAns(status uint8, next *uint32) *fw.DevUpgradeImageAnsPayload {
	p := &fw.DevUpgradeImageAnsPayload{}
	p.Status.UpImageStatus = fw.UpImageStatus(status)
	fwSetNext(p, next)
	return p
}

func fwPkg() *pkg {
	conv := func(c []cmd) fw.Commands {
		var out fw.Commands
		for _, x := range c {
			k := fw.Command{CID: fw.CID(x.cid)}
			if x.p != nil {
				k.Payload = x.p
			}
			out = append(out, k)
		}
		return out
	}
	back := func(c fw.Command) cmd {
		if c.Payload == nil {
			return cmd{byte(c.CID), nil}
		}
		return cmd{byte(c.CID), c.Payload}
	}
	u32 := func(r *cq.RNG, m int) uint32 { return uint32(fld(r, m, 32, 32)) }
	return &pkg{id: 3, name: "firmwaremanagement", ctor: "FW",
		marshal: func(c []cmd) ([]byte, error) { return conv(c).MarshalBinary() },
		sizes: func(c []cmd) []int {
			var out []int
			for _, k := range conv(c) {
				out = append(out, k.Size())
			}
			return out
		},
		unmarshal: func(up bool, b []byte) ([]cmd, error) {
			var c fw.Commands
			err := c.UnmarshalBinary(up, b)
			var out []cmd
			for _, k := range c {
				out = append(out, back(k))
			}
			return out, err
		},
		unmarshal1: func(up bool, b []byte) (cmd, error) {
			var c fw.Command
			err := c.UnmarshalBinary(up, b)
			return back(c), err
		},
		newRecv: func() *receiver {
			var c fw.Commands
			var c1 fw.Command
			return &receiver{
				decode: func(up bool, b []byte) error { return c.UnmarshalBinary(up, b) },
				keep: func() func() []cmd {
					k := c // shallow copy: same backing array
					return func() []cmd {
						var out []cmd
						for _, x := range k {
							out = append(out, back(x))
						}
						return out
					}
				},
				isNil:   func() bool { return c == nil },
				length:  func() int { return len(c) },
				decode1: func(up bool, b []byte) error { return c1.UnmarshalBinary(up, b) },
				keep1: func() func() cmd {
					k := c1
					return func() cmd { return back(k) }
				},
			}
		},
		term:     fwTerm,
		bareDown: []byte{0x00}, bareUp: []byte{0x06},
		gens: []gen{
			{"PackageVersionAns", 0, true, func(r *cq.RNG, m int) payload {
				return &fw.PackageVersionAnsPayload{PackageIdentifier: uint8(fld(r, m, 8, 8)), PackageVersion: uint8(fld(r, m, 8, 8))}
			}, nil},
			{"DevVersionReq", 1, false, func(r *cq.RNG, m int) payload { return &fw.DevVersionReqPayload{} },
				func() []payload { return []payload{&fw.DevVersionReqPayload{}} }},
			{"DevVersionAns", 1, true, func(r *cq.RNG, m int) payload {
				return &fw.DevVersionAnsPayload{FWversion: u32(r, m), HWversion: u32(r, m)}
			}, nil},
			{"DevRebootTimeReq", 2, false, func(r *cq.RNG, m int) payload { return &fw.DevRebootTimeReqPayload{RebootTime: u32(r, m)} }, nil},
			{"DevRebootTimeAns", 2, true, func(r *cq.RNG, m int) payload { return &fw.DevRebootTimeAnsPayload{RebootTime: u32(r, m)} }, nil},
			{"DevRebootCountdownReq", 3, false, func(r *cq.RNG, m int) payload {
				return &fw.DevRebootCountdownReqPayload{Countdown: uint32(fld(r, m, 24, 32))}
			}, nil},
			{"DevRebootCountdownAns", 3, true, func(r *cq.RNG, m int) payload {
				return &fw.DevRebootCountdownAnsPayload{Countdown: uint32(fld(r, m, 24, 32))}
			}, nil},
			{"DevUpgradeImageReq", 4, false, func(r *cq.RNG, m int) payload { return &fw.DevUpgradeImageReqPayload{} },
				func() []payload { return []payload{&fw.DevUpgradeImageReqPayload{}} }},
			{"DevUpgradeImageAns", 4, true, func(r *cq.RNG, m int) payload {
				st := uint8(fld(r, m, 2, 8))
				var next *uint32
				if st == 3 {
					next = u32p(u32(r, m))
				}
				if m == outRange && r.Intn(3) == 0 {
					if next == nil {
						next = u32p(u32(r, m))
					} else {
						next = nil
					}
				}
				return mkUpgradeAns(st, next)
			}, func() []payload {
				return []payload{mkUpgradeAns(0, nil), mkUpgradeAns(1, nil), mkUpgradeAns(2, nil)}
			}},
			{"DevDeleteImageReq", 5, false, func(r *cq.RNG, m int) payload {
				return &fw.DevDeleteImageReqPayload{FirmwareToDeleteVersion: u32(r, m)}
			}, nil},
			{"DevDeleteImageAns", 5, true, func(r *cq.RNG, m int) payload {
				p := &fw.DevDeleteImageAnsPayload{}
				p.Status.ErrorInvalidVersion, p.Status.ErrorNoValidImage = uint8(fld(r, m, 1, 8)), uint8(fld(r, m, 1, 8))
				return p
			}, func() []payload {
				var out []payload
				for v := 0; v < 4; v++ {
					p := &fw.DevDeleteImageAnsPayload{}
					p.Status.ErrorNoValidImage, p.Status.ErrorInvalidVersion = uint8(v&1), uint8(v>>1)
					out = append(out, p)
				}
				return out
			}},
		}}
}

func cmdTerm(pk *pkg, c cmd) string {
	if c.p == nil || reflect.ValueOf(c.p).IsNil() {
		return cq.Tuple(cq.N(uint64(c.cid)), cq.None)
	}
	return cq.Tuple(cq.N(uint64(c.cid)), cq.Some(pk.term(c.p)))
}

func cmdsTerm(pk *pkg, cs []cmd) string {
	s := make([]string, len(cs))
	for i, c := range cs {
		s[i] = cmdTerm(pk, c)
	}
	return "(" + pk.ctor + " " + cq.List(s) + ")"
}

// short, stable, human-readable name of a command list for keys
func cmdsKey(pk *pkg, cs []cmd) string {
	s := make([]string, len(cs))
	for i, c := range cs {
		t := cmdTerm(pk, c)
		for _, m := range []string{"ClockSync.", "Multicast.", "FragCmds.", "FwMgmt."} {
			t = strings.ReplaceAll(t, m, "")
		}
		t = strings.NewReplacer("(Some ", "", "%Z", "", "(", "", ")", "", ", ", ":", "; ", ",", " ", ",", "[", "", "]", "").Replace(t)
		s[i] = t
	}
	return strings.Join(s, "+")
}

func setDataFragmentPayload(p payload, b []byte) {
	p.(*fr.DataFragmentPayload).Payload = b
}

// dataFragmentNotLast: some DataFragment of a fragmentation stream is followed by another command
func dataFragmentNotLast(pk *pkg, cs []cmd) bool {
	if pk.name != "fragmentation" {
		return false
	}
	for i, c := range cs {
		if _, ok := c.p.(*fr.DataFragmentPayload); ok && i != len(cs)-1 {
			return true
		}
	}
	return false
}

func mkDataFragment(fi uint8, n uint16, payload []byte) payload {
	p := &fr.DataFragmentPayload{Payload: payload}
	p.IndexAndN.FragIndex, p.IndexAndN.N = fi, n
	return p
}

func mkFragStatusReq(fi uint8, participants bool) payload {
	p := &fr.FragSessionStatusReqPayload{}
	p.FragStatusReqParam.FragIndex, p.FragStatusReqParam.Participants = fi, participants
	return p
}
