(* Concrete witnesses for C16 (parameters of joinserver_test.go): hypotheses of the theorems are
   satisfiable, the model reproduces the session keys the test-suite pins for a rejoin-request, and
   the refutation of the key clause for rejoin-requests (known finding C16-1). *)
From Coq Require Import List NArith ZArith Bool Lia.
From Coq Require Import ZifyN ZifyNat ZifyBool.
From LW Require Import Base.Outcome Base.Bytes Base.Hex Crypto.AES Crypto.CMAC Crypto.KeyWrap Crypto.AESInv Crypto.CMACProofs
  Crypto.KeyWrapProofs Mac.Commands Mac.Stream Frame.Model Sec.MIC Sec.JoinAccept Sec.JoinAcceptProofs
  Backend.KeyEnvelope Backend.JoinServer Backend.Device Backend.JoinServerProofs.
From LWGen Require Import KnownGen.
Import ListNotations.
Open Scope N_scope.

(* ---------- witnesses: the parameters of joinserver_test.go ---------- *)
Definition w_dev : device :=
  mkDevice [1; 2; 3; 4; 5; 6; 7; 8] [8; 7; 6; 5; 4; 3; 2; 1] [1; 2; 3; 4; 5; 6; 7; 8; 1; 2; 3; 4; 5; 6; 7; 8] (repeat 0 16).
Definition w_netid : list N := [1; 2; 3].
Definition w_devaddr : list N := [1; 2; 3; 4].
Definition w_cf : list N := [24; 142; 132; 232; 149; 132; 0; 0; 0; 0; 0; 0; 0; 0; 0; 0].
Definition w_kek : list N := repeat 0 16.
Definition s_as : list N := [97; 115].   (* "as" *)

(* no KEKs *)
Definition w_cfg : config :=
  mkConfig (fun de => if bytes_eqb de (d_deveui w_dev) then Found (mkDevKeys (d_nwkkey w_dev) (d_appkey w_dev) 65536%Z) else NotFound)
           (fun _ => Ok []) (fun _ => Ok []) (fun _ => NotFound).
(* NS KEK under the NetID text, AS KEK under "as" *)
Definition w_cfg_kek : config :=
  mkConfig (get_keys w_cfg)
           (fun l => if bytes_eqb l (hex_enc w_netid) || bytes_eqb l s_as then Ok w_kek else Ok [])
           (fun _ => Ok s_as) (fun _ => NotFound).

Definition w_request (mt frame : list N) (dls : N) : request :=
  mkRequest (hex_enc w_netid) (hex_enc (d_joineui w_dev)) 1234 mt JAbsent (JText (hex_enc frame))
            (JText (hex_enc (d_deveui w_dev))) (JText (hex_enc w_devaddr)) (JText (hex_enc [dls])) 1%Z (JText (hex_enc w_cf)).

Definition w_join (dls : N) : request := w_request s_JoinReq (join_request_frame w_dev 258) dls.
Definition w_rejoin0 : request := w_request s_RejoinReq (rejoin02_frame w_dev 0 w_netid 123 (repeat 0 16)) 149.

Definition usable_b (cfg : config) (r : request) (ty dn dls : N) (mt : ansmtype) : bool :=
  match handle cfg (Body r) with
  | AMsg 200 mt' sd rv 1234 RSuccess phy None keys None =>
    ansmtype_eqb mt mt' && bytes_eqb sd (r_receiver r) && bytes_eqb rv (r_sender r) &&
    match device_accept w_dev ty dn phy with
    | Some s => echoes s 65536 w_netid w_devaddr dls 1 (Some w_cf) &&
                servers_share_keys (keks_of cfg) (r_sender r)
                                   (match get_aslabel cfg (d_deveui w_dev) with Ok l => l | _ => [] end) s (k_snwksint keys) (k_fnwksint keys) (k_nwksenc keys) (k_nwkskey keys) (k_appskey keys)
    | None => false
    end
  | _ => false
  end.

Time Example w_join_10 : usable_b w_cfg (w_join 21) 255 258 21 MJoinAns = true.
Proof. vm_compute. reflexivity. Qed.
Time Example w_join_11_kek : usable_b w_cfg_kek (w_join 149) 255 258 149 MJoinAns = true.
Proof. vm_compute. reflexivity. Qed.
Time Example w_rejoin_not_usable : usable_b w_cfg w_rejoin0 0 123 149 MRejoinAns = false.
Proof. vm_compute. reflexivity. Qed.

(* the session keys joinserver_test.go TestRejoinRequest pins for "valid rejoin-request type 0" *)
Definition w_pinned : keyset :=
  mkKeys (Some ([], [84; 115; 118; 176; 7; 14; 169; 150; 78; 61; 226; 98; 252; 231; 85; 145]))
         (Some ([], [15; 235; 84; 189; 47; 133; 75; 254; 195; 103; 254; 91; 27; 132; 16; 55]))
         (Some ([], [212; 9; 208; 87; 17; 14; 159; 221; 5; 199; 126; 12; 85; 63; 119; 244]))
         None
         (Some ([], [11; 25; 22; 151; 83; 252; 60; 31; 222; 161; 118; 106; 12; 34; 117; 225])).
Example w_rejoin_pinned :
  match handle w_cfg (Body w_rejoin0) with AMsg _ _ _ _ _ _ _ _ keys _ => keyset_eqb keys w_pinned | _ => false end = true.
Proof. vm_compute. reflexivity. Qed.

(* ---------- the key clause of C16 for rejoin-requests is false for today's code ---------- *)
Definition rejoin_conformant (cfg : config) (r : request) (d : device) (ty rc : N) (frame netid devaddr : list N)
    (dls rxd : N) (cf : list N) (jn : N) (nskek aslabel askek : list N) : Prop :=
  wf_device d /\ rc < 65536 /\ jn < 16777216 /\
  length netid = 3%nat /\ bytes netid /\ length devaddr = 4%nat /\ bytes devaddr /\
  128 <= dls < 256 /\ rxd < 16 /\ bytes cf /\ cf_canonical cf /\
  rejoin_frame_of d ty rc frame /\
  r_mtype r = s_RejoinReq /\ base_decode r = Ok tt /\
  typed_decode r = Ok (mkTReq frame (d_deveui d) devaddr (dec_dlsettings dls) (Z.of_N rxd) cf) /\
  unmarshal_text 3 (r_sender r) = Ok netid /\ unmarshal_text 8 (r_receiver r) = Ok (d_joineui d) /\
  get_keys cfg (d_deveui d) = Found (mkDevKeys (d_nwkkey d) (d_appkey d) (Z.of_N jn)) /\
  get_kek cfg (r_sender r) = Ok nskek /\ kek_supported nskek /\
  get_aslabel cfg (d_deveui d) = Ok aslabel /\ get_kek cfg aslabel = Ok askek /\ kek_supported askek.

Lemma w_bytes l : forallb (fun b => b <? 256) l = true -> bytes l.
Proof. intros H. apply Forall_forall. intros x Hx. rewrite forallb_forall in H. specialize (H x Hx). lia. Qed.

Lemma w_dev_wf : wf_device w_dev.
Proof. unfold wf_device. repeat split; try reflexivity; apply w_bytes; reflexivity. Qed.

Lemma w_cf_canonical : cf_canonical w_cf.
Proof.
  right. split; [reflexivity|]. apply cflist_channels_rt; [reflexivity|apply w_bytes; reflexivity|].
  cbn. discriminate.
Qed.

Lemma w_rejoin_conformant :
  rejoin_conformant w_cfg w_rejoin0 w_dev 0 123 (rejoin02_frame w_dev 0 w_netid 123 (repeat 0 16)) w_netid w_devaddr 149 1 w_cf
                    65536 [] [] [].
Proof.
  unfold rejoin_conformant.
  split; [exact w_dev_wf|]. split; [lia|]. split; [lia|]. split; [reflexivity|]. split; [apply w_bytes; reflexivity|].
  split; [reflexivity|]. split; [apply w_bytes; reflexivity|]. split; [lia|]. split; [lia|].
  split; [apply w_bytes; reflexivity|]. split; [exact w_cf_canonical|].
  split; [apply rejoin02_frame_of; [left|]; reflexivity|].
  split; [reflexivity|]. split; [reflexivity|].
  split; [vm_compute; reflexivity|]. split; [vm_compute; reflexivity|]. split; [vm_compute; reflexivity|].
  split; [reflexivity|]. split; [reflexivity|]. split; [left; reflexivity|]. split; [reflexivity|]. split; [reflexivity|].
  left; reflexivity.
Qed.

Definition w_ans : answer := Eval vm_compute in handle w_cfg (Body w_rejoin0).
Lemma w_ans_eq : handle w_cfg (Body w_rejoin0) = w_ans.
Proof. vm_compute. reflexivity. Qed.
Definition w_phy : list N := Eval vm_compute in match w_ans with AMsg _ _ _ _ _ _ phy _ _ _ => phy | _ => [] end.
Definition w_keys : keyset := Eval vm_compute in match w_ans with AMsg _ _ _ _ _ _ _ _ keys _ => keys | _ => no_keys end.
Definition w_sess : option session := Eval vm_compute in device_accept w_dev 0 123 w_phy.
Lemma w_sess_eq : device_accept w_dev 0 123 w_phy = w_sess.
Proof. vm_compute. reflexivity. Qed.

Theorem rejoin_keys_refuted :
  exists cfg r d ty rc frame netid devaddr dls rxd cf jn nskek aslabel askek,
    rejoin_conformant cfg r d ty rc frame netid devaddr dls rxd cf jn nskek aslabel askek /\
    In ty c16_rejoin_optneg_session_keys /\
    forall st mt sd rv tx rc' phy lt keys hn s,
      handle cfg (Body r) = AMsg st mt sd rv tx rc' phy lt keys hn -> device_accept d ty rc phy = Some s ->
      servers_share_keys (keks_of cfg) (r_sender r) aslabel s (k_snwksint keys) (k_fnwksint keys) (k_nwksenc keys) (k_nwkskey keys)
                         (k_appskey keys) = false.
Proof.
  exists w_cfg, w_rejoin0, w_dev, 0, 123, (rejoin02_frame w_dev 0 w_netid 123 (repeat 0 16)), w_netid, w_devaddr, 149, 1, w_cf,
         65536, [], [], [].
  split; [exact w_rejoin_conformant|]. split; [vm_compute; auto|].
  intros st mt sd rv tx rc' phy lt keys hn s Hh Hd.
  rewrite w_ans_eq in Hh. unfold w_ans in Hh. injection Hh as _ _ _ _ _ _ Hphy _ Hkeys _. subst phy keys.
  fold w_phy in Hd. rewrite w_sess_eq in Hd. unfold w_sess in Hd. injection Hd as <-.
  vm_compute. reflexivity.
Qed.

Theorem rejoin_usable_conformant cfg r d ty rc frame netid devaddr dls rxd cf jn nskek aslabel askek :
  rejoin_conformant cfg r d ty rc frame netid devaddr dls rxd cf jn nskek aslabel askek ->
  exists phy keys s,
    handle cfg (Body r) = AMsg 200 MRejoinAns (r_receiver r) (r_sender r) (r_txid r) RSuccess phy None keys None /\
    device_accept d ty rc phy = Some s /\
    echoes s jn netid devaddr dls rxd (opt_cf cf) = true /\
    (servers_share_keys (keks_of cfg) (r_sender r) aslabel s (k_snwksint keys) (k_fnwksint keys) (k_nwksenc keys) (k_nwkskey keys)
                        (k_appskey keys) = true \/ In ty c16_rejoin_optneg_session_keys) /\
    opens_to (keks_of cfg) (r_sender r) (k_fnwksint keys) (rejoin_server_key d 1 jn netid rc) = true /\
    opens_to (keks_of cfg) aslabel (k_appskey keys) (rejoin_server_key d 2 jn netid rc) = true /\
    opens_to (keks_of cfg) (r_sender r) (k_snwksint keys) (rejoin_server_key d 3 jn netid rc) = true /\
    opens_to (keks_of cfg) (r_sender r) (k_nwksenc keys) (rejoin_server_key d 4 jn netid rc) = true.
Proof.
  intros (H1 & H2 & H3 & H4 & H5 & H6 & H7 & H8 & H9 & H10 & H11 & H12 & H13 & H14 & H15 & H16 & H17 & H18 & H19 & H20 & H21 & H22 & H23).
  eapply rejoin_usable; eassumption.
Qed.

(* ---------- the hypotheses of join_usable are satisfiable ---------- *)
Definition join_conformant (cfg : config) (r : request) (d : device) (dn : N) (netid rid devaddr : list N)
    (dls rxd : N) (cf : list N) (jn : N) (nskek aslabel askek : list N) : Prop :=
  wf_device d /\ dn < 65536 /\ jn < 16777216 /\
  length netid = 3%nat /\ bytes netid /\ length devaddr = 4%nat /\ bytes devaddr /\
  dls < 256 /\ rxd < 16 /\ bytes cf /\ cf_canonical cf /\
  r_mtype r = s_JoinReq /\ base_decode r = Ok tt /\
  typed_decode r = Ok (mkTReq (join_request_frame d dn) (d_deveui d) devaddr (dec_dlsettings dls) (Z.of_N rxd) cf) /\
  unmarshal_text 3 (r_sender r) = Ok netid /\ unmarshal_text 8 (r_receiver r) = Ok rid /\
  get_keys cfg (d_deveui d) = Found (mkDevKeys (d_nwkkey d) (d_appkey d) (Z.of_N jn)) /\
  get_kek cfg (r_sender r) = Ok nskek /\ kek_supported nskek /\
  get_aslabel cfg (d_deveui d) = Ok aslabel /\ get_kek cfg aslabel = Ok askek /\ kek_supported askek.

Theorem join_usable_conformant cfg r d dn netid rid devaddr dls rxd cf jn nskek aslabel askek :
  join_conformant cfg r d dn netid rid devaddr dls rxd cf jn nskek aslabel askek ->
  exists phy keys s,
    handle cfg (Body r) = AMsg 200 MJoinAns (r_receiver r) (r_sender r) (r_txid r) RSuccess phy None keys None /\
    device_accept d 255 dn phy = Some s /\
    echoes s jn netid devaddr dls rxd (opt_cf cf) = true /\
    servers_share_keys (keks_of cfg) (r_sender r) aslabel s (k_snwksint keys) (k_fnwksint keys) (k_nwksenc keys) (k_nwkskey keys)
                       (k_appskey keys) = true.
Proof.
  intros (H1 & H2 & H3 & H4 & H5 & H6 & H7 & H8 & H9 & H10 & H11 & H12 & H13 & H14 & H15 & H16 & H17 & H18 & H19 & H20 & H21 & H22).
  eapply join_usable; eassumption.
Qed.

Lemma w_join_conformant :
  join_conformant w_cfg_kek (w_join 149) w_dev 258 w_netid (d_joineui w_dev) w_devaddr 149 1 w_cf 65536 w_kek s_as w_kek.
Proof.
  unfold join_conformant.
  split; [exact w_dev_wf|]. split; [lia|]. split; [lia|]. split; [reflexivity|]. split; [apply w_bytes; reflexivity|].
  split; [reflexivity|]. split; [apply w_bytes; reflexivity|]. split; [lia|]. split; [lia|].
  split; [apply w_bytes; reflexivity|]. split; [exact w_cf_canonical|].
  split; [reflexivity|]. split; [reflexivity|].
  split; [vm_compute; reflexivity|]. split; [vm_compute; reflexivity|]. split; [vm_compute; reflexivity|].
  split; [reflexivity|]. split; [reflexivity|].
  split; [right; split; [reflexivity|apply w_bytes; reflexivity]|].
  split; [reflexivity|]. split; [reflexivity|]. right; split; [reflexivity|apply w_bytes; reflexivity].
Qed.

(* a wrong MIC: the join-request of the witness device with its last MIC byte changed *)
Example w_wrong_mic :
  handle w_cfg (Body (w_request s_JoinReq (firstn 22 (join_request_frame w_dev 258) ++ [0]) 21))
  = AMsg 200 MJoinAns (hex_enc (d_joineui w_dev)) (hex_enc w_netid) 1234 RMICFailed [] None no_keys None.
Proof. vm_compute. reflexivity. Qed.

(* ---------- lemmas behind the remaining statements of props/C16.v ---------- *)
Lemma join_conformant_is cfg r d dn netid rid devaddr dls rxd cf jn nskek aslabel askek :
  join_conformant cfg r d dn netid rid devaddr dls rxd cf jn nskek aslabel askek <->
  (wf_device d /\ dn < 65536 /\ jn < 16777216 /\
   length netid = 3%nat /\ bytes netid /\ length devaddr = 4%nat /\ bytes devaddr /\
   dls < 256 /\ rxd < 16 /\ bytes cf /\ cf_canonical cf /\
   r_mtype r = s_JoinReq /\ base_decode r = Ok tt /\
   typed_decode r = Ok (mkTReq (join_request_frame d dn) (d_deveui d) devaddr (dec_dlsettings dls) (Z.of_N rxd) cf) /\
   unmarshal_text 3 (r_sender r) = Ok netid /\ unmarshal_text 8 (r_receiver r) = Ok rid /\
   get_keys cfg (d_deveui d) = Found (mkDevKeys (d_nwkkey d) (d_appkey d) (Z.of_N jn)) /\
   get_kek cfg (r_sender r) = Ok nskek /\ kek_supported nskek /\
   get_aslabel cfg (d_deveui d) = Ok aslabel /\ get_kek cfg aslabel = Ok askek /\ kek_supported askek).
Proof. reflexivity. Qed.

Lemma rejoin_conformant_is cfg r d ty rc frame netid devaddr dls rxd cf jn nskek aslabel askek :
  rejoin_conformant cfg r d ty rc frame netid devaddr dls rxd cf jn nskek aslabel askek <->
  (wf_device d /\ rc < 65536 /\ jn < 16777216 /\
   length netid = 3%nat /\ bytes netid /\ length devaddr = 4%nat /\ bytes devaddr /\
   128 <= dls < 256 /\ rxd < 16 /\ bytes cf /\ cf_canonical cf /\
   rejoin_frame_of d ty rc frame /\
   r_mtype r = s_RejoinReq /\ base_decode r = Ok tt /\
   typed_decode r = Ok (mkTReq frame (d_deveui d) devaddr (dec_dlsettings dls) (Z.of_N rxd) cf) /\
   unmarshal_text 3 (r_sender r) = Ok netid /\ unmarshal_text 8 (r_receiver r) = Ok (d_joineui d) /\
   get_keys cfg (d_deveui d) = Found (mkDevKeys (d_nwkkey d) (d_appkey d) (Z.of_N jn)) /\
   get_kek cfg (r_sender r) = Ok nskek /\ kek_supported nskek /\
   get_aslabel cfg (d_deveui d) = Ok aslabel /\ get_kek cfg aslabel = Ok askek /\ kek_supported askek).
Proof. reflexivity. Qed.

Lemma rejoin_frames d rc netid skey :
  length netid = 3%nat ->
  rejoin_frame_of d 0 rc (rejoin02_frame d 0 netid rc skey) /\
  rejoin_frame_of d 1 rc (rejoin1_frame d rc) /\
  rejoin_frame_of d 2 rc (rejoin02_frame d 2 netid rc skey).
Proof.
  intros H. split; [apply rejoin02_frame_of; auto|]. split; [apply rejoin1_frame_of|apply rejoin02_frame_of; auto].
Qed.

(* ---------- known finding C16-3: rejoin-request answered with OptNeg unset ---------- *)
(* Success, but the join-accept MIC is cmac(JSIntKey, MHDR | ...): neither the 1.0 form (NwkKey) a device
   reading OptNeg = 0 checks, nor the 1.1 form (with the JoinReqType | JoinEUI | RJcount prefix) *)
Definition w_rejoin1_optneg0 : request := w_request s_RejoinReq (rejoin1_frame w_dev 123) 21.
Definition rejoin_optneg0_rejected : bool :=
  match handle w_cfg (Body w_rejoin1_optneg0) with
  | AMsg 200 MRejoinAns _ _ _ RSuccess phy None _ None =>
    match device_accept w_dev 1 123 phy with None => true | Some _ => false end
  | _ => false
  end.
Lemma rejoin_optneg0_refuted : rejoin_optneg0_rejected = true.
Proof. vm_compute. reflexivity. Qed.
