(* C06 - wire format of the 29 MAC-command payloads against the independent
   table-driven specification Mac/Spec.v (layouts, CID table, semantic maps).
   Statement file: every theorem is closed by [exact] of a lemma from theories/.
   (Frame headers, join payloads and CFList: see the C06 part of Frame/FrameSpecProofs.v.) *)
From Coq Require Import List NArith ZArith Bool.
From LW Require Import Base.Outcome Base.Bytes Mac.Commands Mac.Spec Mac.Stream
     Mac.RegistryProofs Mac.DecProofs Mac.EncProofs Mac.PackProofs.
From LWGen Require Import RegistryGen.
Import ListNotations.
Open Scope N_scope.

(* every (direction, CID) in the LIVE registry is the command the specification
   assigns to it, and its registered size is the size of the specified layout *)
Theorem C06_registry_complete : forall up cid sz k,
  reg_lookup builtin_registry up cid = Some (sz, k) ->
  spec_reg_lookup spec_registry up cid = Some k /\
  sz = Z.of_nat (byte_size (layout_of k)) /\ sz = kind_size k.
Proof. exact registry_complete. Qed.
Print Assumptions C06_registry_complete.

(* ... and every command the specification defines is registered *)
Theorem C06_registry_covers_spec :
  forallb spec_entry_ok spec_registry = true.
Proof. exact (proj2 registry_matches_spec). Qed.
Print Assumptions C06_registry_covers_spec.

(* ENCODE: for every payload value of the Go types (all uint8/uint32/int8/int/Duration
   field values), whatever the encoder accepts is bit for bit the specified layout of
   the value's fields (little-endian, field order and widths from the table,
   frequency in 100 Hz / 200 Hz units, 6-bit signed margin, 1/256 s fraction) *)
Theorem C06_encode_is_spec : forall v bs,
  wf_go v = true -> kind_of v <> KProprietary -> enc v = Ok bs ->
  bs = spec_encode (layout_of (kind_of v)) (fields_of v).
Proof. exact enc_eq_spec. Qed.
Print Assumptions C06_encode_is_spec.

(* DECODE: for every payload kind and EVERY byte string, the decoder returns the
   specified field values with RFU bits ignored when the length is the layout's,
   and an error otherwise.  One- and two-byte payloads: all 2^8 / 2^16 strings by
   kernel computation (19 + 3 kinds); 3-5 byte payloads by div/mod arithmetic. *)
Theorem C06_decode_is_spec : forall k bs,
  k <> KProprietary -> Forall (fun b => b < 256) bs ->
  dec k bs =
  if Nat.eqb (length bs) (byte_size (layout_of k))
  then Ok (value_of k (spec_decode (layout_of k) bs)) else Err.
Proof. exact dec_eq_spec. Qed.
Print Assumptions C06_decode_is_spec.

(* the layout interpreter itself is an inverse pair on in-width field values *)
Theorem C06_layout_inverse : forall L vals,
  bit_size L = 8 * N.of_nat (byte_size L) -> in_widths L vals = true ->
  spec_decode L (spec_encode L vals) = vals.
Proof. exact spec_decode_encode. Qed.
Print Assumptions C06_layout_inverse.

(* non-vacuity: an in-range LinkADRReq meets the hypotheses and has the expected bytes *)
Example C06_example :
  wf_go (PLinkADRReq 5 3 (true :: true :: repeat false 14) 6 1) = true /\
  enc (PLinkADRReq 5 3 (true :: true :: repeat false 14) 6 1) = Ok [0x53; 0x03; 0x00; 0x61].
Proof. split; vm_compute; reflexivity. Qed.
