package main

import (
	"bytes"
	"fmt"
	"reflect"
	"strings"

	"github.com/brocaar/lorawan"
	"verifharness/internal/cases"
	"verifharness/internal/cq"
	"verifharness/internal/framefmt"
)

// The encoders are compared with the layout specification in Coq (CFrameEnc / CFhdrEnc). The decoders
// are tied to it here: bytes the specification prescribes for a value must decode to that value
// again, into a new receiver and into one that was used for other frames before.
var (
	usedFHDR lorawan.FHDR
	usedJA   lorawan.JoinAcceptPayload
	usedJR   lorawan.JoinRequestPayload
	usedRJ02 lorawan.RejoinRequestType02Payload
	usedRJ1  lorawan.RejoinRequestType1Payload
)

func decFail(s *cases.Set, what, t string, b []byte, detail string) {
	s.Fail(cases.GoFail{Key: "frame-dec:" + what + ":" + t, What: what + ": " + detail,
		Replay: map[string]interface{}{"value": t, "bytes": fmt.Sprintf("%x", b)}})
}

func fhdrDec(s *cases.Set, h lorawan.FHDR, up bool, t string, b []byte) {
	defer func() {
		if r := recover(); r != nil {
			decFail(s, "FHDR.UnmarshalBinary", t, b, fmt.Sprintf("panics: %v", r))
		}
	}()
	var fresh lorawan.FHDR
	in := append([]byte{}, b...)
	e1 := fresh.UnmarshalBinary(up, in)
	if e1 == nil { // encoding.BinaryUnmarshaler: the decoder copies what it keeps and leaves its input alone
		if !bytes.Equal(in, b) {
			decFail(s, "FHDR.UnmarshalBinary", t, b, fmt.Sprintf("changed its input buffer to %x", in))
			copy(in, b)
		}
		before := framefmt.FHDR(fresh, int(b[4]&0x0f))
		for i := range in {
			in[i] ^= 0xff
		}
		if after := framefmt.FHDR(fresh, int(b[4]&0x0f)); after != before {
			decFail(s, "FHDR.UnmarshalBinary", t, b, "the decoded header changes when the caller overwrites the buffer: "+after)
		}
	}
	// the used receiver as a caller leaves it: counter restored to 32 bits, flags and options of another frame
	usedFHDR.FCnt |= 0xabcd0000
	e2 := usedFHDR.UnmarshalBinary(up, append([]byte{}, b...))
	if e1 != nil || e2 != nil {
		decFail(s, "FHDR.UnmarshalBinary", t, b, "rejects the bytes the encoder produced")
		return
	}
	if !reflect.DeepEqual(fresh, usedFHDR) {
		decFail(s, "FHDR.UnmarshalBinary", t, b, "a used receiver decodes to "+framefmt.FHDR(usedFHDR, int(b[4]&0x0f))+", a new one to "+framefmt.FHDR(fresh, int(b[4]&0x0f)))
	}
	if fresh.DevAddr != h.DevAddr || fresh.FCnt != h.FCnt&0xffff ||
		fresh.FCtrl.ADR != h.FCtrl.ADR || fresh.FCtrl.ADRACKReq != h.FCtrl.ADRACKReq || fresh.FCtrl.ACK != h.FCtrl.ACK ||
		(fresh.FCtrl.FPending || fresh.FCtrl.ClassB) != (h.FCtrl.FPending || h.FCtrl.ClassB) { // FPending and ClassB are one bit
		decFail(s, "FHDR.UnmarshalBinary", t, b, "decodes to other field values: "+framefmt.FHDR(fresh, int(b[4]&0x0f)))
	}
	if re, err := fresh.MarshalBinary(); err != nil || !bytes.Equal(re, b) {
		decFail(s, "FHDR.UnmarshalBinary", t, b, fmt.Sprintf("the decoded header encodes to %x", re))
	}
}

func payloadDec(s *cases.Set, p lorawan.Payload, t string, b []byte) {
	defer func() {
		if r := recover(); r != nil {
			decFail(s, "payload decoder", t, b, fmt.Sprintf("panics: %v", r))
		}
	}()
	var fresh, used lorawan.Payload
	switch p.(type) {
	case *lorawan.JoinAcceptPayload:
		fresh, used = &lorawan.JoinAcceptPayload{}, &usedJA
	case *lorawan.JoinRequestPayload:
		fresh, used = &lorawan.JoinRequestPayload{}, &usedJR
	case *lorawan.RejoinRequestType02Payload:
		fresh, used = &lorawan.RejoinRequestType02Payload{}, &usedRJ02
	case *lorawan.RejoinRequestType1Payload:
		fresh, used = &lorawan.RejoinRequestType1Payload{}, &usedRJ1
	default:
		return
	}
	in := append([]byte{}, b...)
	e1 := fresh.UnmarshalBinary(false, in)
	if e1 == nil {
		if !bytes.Equal(in, b) {
			decFail(s, "payload decoder", t, b, fmt.Sprintf("changed its input buffer to %x", in))
			copy(in, b)
		}
		before := framefmt.Payload(fresh, 0)
		for i := range in {
			in[i] ^= 0xff
		}
		if after := framefmt.Payload(fresh, 0); after != before {
			decFail(s, "payload decoder", t, b, "the decoded payload changes when the caller overwrites the buffer: "+after)
		}
	}
	e2 := used.UnmarshalBinary(false, append([]byte{}, b...))
	if e1 != nil || e2 != nil {
		decFail(s, "payload decoder", t, b, "rejects the bytes the encoder produced")
		return
	}
	if tf, tu := framefmt.Payload(fresh, 0), framefmt.Payload(used, 0); tf != tu {
		decFail(s, "payload decoder", t, b, "a used receiver decodes to "+tu+", a new one to "+tf)
	}
	if re, err := fresh.MarshalBinary(); err != nil || !bytes.Equal(re, b) {
		decFail(s, "payload decoder", t, b, fmt.Sprintf("the decoded payload encodes to %x", re))
	} else if ja, ok := p.(*lorawan.JoinAcceptPayload); ok && ja.CFList != nil {
		// trailing all-zero masks are not representable (C01-1): compare what the wire can carry
		return
	} else if tf := framefmt.Payload(fresh, 0); tf != t {
		decFail(s, "payload decoder", t, b, "decodes to "+tf)
	}
}

func payloadEnc(s *cases.Set, p lorawan.Payload, kind string) {
	t := framefmt.Payload(p, 0)
	o := cq.Err
	func() {
		defer func() {
			if r := recover(); r != nil {
				o = cq.Panic
			}
		}()
		if b, err := p.MarshalBinary(); err == nil {
			o = cq.Ok(cq.Bytes(b))
			payloadDec(s, p, t, b)
		}
	}()
	s.Add(cases.Case{Term: fmt.Sprintf("CFrameEnc %s %s", t, o), Key: "frame-enc:" + t, Kind: kind, Nontrivial: true,
		Replay: map[string]interface{}{"api": kind + " MarshalBinary", "value": t}})
}

// cflistDec: CFList.UnmarshalBinary of 16 octets (alone and inside a join-accept payload), then MarshalBinary of the
// decoded value. Octets 12..14 of a channel-mask CFList are RFU.
func cflistDec(s *cases.Set, b []byte, kind string) {
	o, re := cq.Err, cq.Err
	func() {
		defer func() {
			if r := recover(); r != nil {
				o = cq.Panic
			}
		}()
		var l lorawan.CFList
		in := append([]byte{}, b...)
		if err := l.UnmarshalBinary(in); err != nil {
			return
		}
		t := framefmt.CFList(&l)
		o = cq.Ok(strings.TrimSuffix(strings.TrimPrefix(t, "(Some "), ")"))
		func() {
			defer func() {
				if r := recover(); r != nil {
					re = cq.Panic
				}
			}()
			if rb, err := l.MarshalBinary(); err == nil {
				re = cq.Ok(cq.Bytes(rb))
			}
		}()
		// the same octets behind a join-accept header decode to the same CFList
		ja := append(make([]byte, 12), b...)
		var p lorawan.JoinAcceptPayload
		if err := p.UnmarshalBinary(false, ja); err != nil || framefmt.CFList(p.CFList) != t {
			decFail(s, "CFList decoder", t, b, "JoinAcceptPayload.UnmarshalBinary decodes the same CFList octets to "+framefmt.CFList(p.CFList))
		}
	}()
	s.Add(cases.Case{Term: fmt.Sprintf("CCFListDec %s %s %s", cq.Bytes(b), o, re), Key: fmt.Sprintf("cflist-dec:%x", b), Kind: kind, Nontrivial: true,
		Replay: map[string]interface{}{"api": "CFList.UnmarshalBinary, then MarshalBinary of the decoded value", "bytes": fmt.Sprintf("%x", b)}})
}

// joinAcceptDec: JoinAcceptPayload.UnmarshalBinary of raw octets, then MarshalBinary of the decoded value.
// Bits 7..4 of the RxDelay octet and octets 12..14 of a channel-mask CFList are RFU.
func joinAcceptDec(s *cases.Set, b []byte, kind string) {
	o, re := cq.Err, cq.Err
	func() {
		defer func() {
			if r := recover(); r != nil {
				o = cq.Panic
			}
		}()
		var p lorawan.JoinAcceptPayload
		if err := p.UnmarshalBinary(false, append([]byte{}, b...)); err != nil {
			return
		}
		o = cq.Ok(framefmt.Payload(&p, 0))
		func() {
			defer func() {
				if r := recover(); r != nil {
					re = cq.Panic
				}
			}()
			if rb, err := p.MarshalBinary(); err == nil {
				re = cq.Ok(cq.Bytes(rb))
			}
		}()
	}()
	s.Add(cases.Case{Term: fmt.Sprintf("CJoinAcceptDec %s %s %s", cq.Bytes(b), o, re), Key: fmt.Sprintf("ja-dec:%x", b), Kind: kind, Nontrivial: true,
		Replay: map[string]interface{}{"api": "JoinAcceptPayload.UnmarshalBinary, then MarshalBinary of the decoded value", "bytes": fmt.Sprintf("%x", b)}})
}

// frameCases: MHDR, FCtrl, DLSettings (all 256 octets each), join / rejoin payloads, join-accept with both CFList kinds.
func frameCases(s *cases.Set, r *cq.RNG, thorough bool) {
	for v := 0; v < 256; v++ {
		b := byte(v)
		var h lorawan.MHDR
		_ = h.UnmarshalBinary([]byte{b})
		re, _ := h.MarshalBinary()
		s.Add(cases.Case{Term: fmt.Sprintf("CMhdr %d %d %d %d", b, byte(h.MType), byte(h.Major), re[0]), Key: fmt.Sprintf("mhdr:%02x", b), Kind: "mhdr", Nontrivial: true,
			Replay: map[string]interface{}{"api": "MHDR.UnmarshalBinary/MarshalBinary", "byte": b}})
		var c lorawan.FCtrl
		_ = c.UnmarshalBinary([]byte{b})
		// re-encode through an FHDR so that FOptsLen is set the official way
		fh := lorawan.FHDR{FCtrl: c}
		if n := int(b & 0x0f); n > 0 {
			fh.FOpts = []lorawan.Payload{&lorawan.DataPayload{Bytes: make([]byte, n)}}
		}
		ro := cq.Err
		if fb, err := fh.MarshalBinary(); err == nil {
			ro = cq.Ok(fmt.Sprintf("%d", fb[4]))
		}
		s.Add(cases.Case{Term: fmt.Sprintf("CFctrl %d %s %s", b, framefmt.FCtrl(c, int(b&0x0f)), ro), Key: fmt.Sprintf("fctrl:%02x", b), Kind: "fctrl", Nontrivial: true,
			Replay: map[string]interface{}{"api": "FCtrl.UnmarshalBinary / FHDR.MarshalBinary", "byte": b}})
		var d lorawan.DLSettings
		_ = d.UnmarshalBinary([]byte{b})
		do := cq.Err
		if db, err := d.MarshalBinary(); err == nil {
			do = cq.Ok(fmt.Sprintf("%d", db[0]))
		}
		s.Add(cases.Case{Term: fmt.Sprintf("CDlSettings %d %s %d %d %s", b, cq.Bool(d.OptNeg), d.RX2DataRate, d.RX1DROffset, do), Key: fmt.Sprintf("dlsettings:%02x", b), Kind: "dlsettings", Nontrivial: true,
			Replay: map[string]interface{}{"api": "DLSettings.UnmarshalBinary/MarshalBinary", "byte": b}})
	}
	s.Exhaustive("MHDR, FCtrl and DLSettings: all 256 octets each")
	n := 60
	if thorough {
		n = 2500
	}
	fhdrEnc := func(h lorawan.FHDR, stale int, kind string) {
		t := framefmt.FHDR(h, stale)
		o := cq.Err
		func() {
			defer func() {
				if rec := recover(); rec != nil {
					o = cq.Panic
				}
			}()
			if b, err := h.MarshalBinary(); err == nil {
				o = cq.Ok(cq.Bytes(b))
				fhdrDec(s, h, true, t, b)
			}
		}()
		s.Add(cases.Case{Term: fmt.Sprintf("CFhdrEnc %s %s", t, o), Key: "fhdr-enc:" + t, Kind: kind, Nontrivial: true,
			Replay: map[string]interface{}{"api": "FHDR.MarshalBinary", "value": t}})
	}
	// more FOpts than the 4-bit FOptsLen can announce: around 15, and around every multiple of 256 (uint8 wrap)
	for _, k := range []int{16, 17, 31, 32, 255, 256, 257, 258, 260, 271, 272, 511, 512, 515, 527, 528, 1024, 1030} {
		h := lorawan.FHDR{DevAddr: lorawan.DevAddr{1, 2, 3, 4}, FCnt: uint32(k)}
		h.FOpts = []lorawan.Payload{&lorawan.DataPayload{Bytes: r.Bytes(k)}}
		fhdrEnc(h, 0, "fhdr-fopts-too-long")
		if k <= 600 {
			// the same number of octets as separate commands (LinkCheckReq 0x02 has no payload)
			h.FOpts = nil
			for j := 0; j < k; j++ {
				h.FOpts = append(h.FOpts, &lorawan.MACCommand{CID: lorawan.LinkCheckReq})
			}
			fhdrEnc(h, 0, "fhdr-fopts-too-long")
		}
	}
	for i := 0; i < n; i++ {
		o := framefmt.ValidDataOpt(r)
		o.FOptsBytes = r.Intn(16)
		p := framefmt.DataFrame(r, o)
		m := p.MACPayload.(*lorawan.MACPayload)
		fhdrEnc(m.FHDR, 0, "fhdr-fresh")
		// the same header after a decode (FOptsLen field set), then edited
		if b, err := m.FHDR.MarshalBinary(); err == nil {
			var h lorawan.FHDR
			if h.UnmarshalBinary(true, b) == nil {
				old := int(b[4] & 0x0f)
				fhdrEnc(h, old, "fhdr-decoded")
				h.FOpts = nil
				fhdrEnc(h, old, "fhdr-decoded-fopts-stripped")
				h.FOpts = []lorawan.Payload{&lorawan.DataPayload{Bytes: r.Bytes(1 + r.Intn(15))}}
				fhdrEnc(h, old, "fhdr-decoded-fopts-replaced")
			}
		}
	}
	for i := 0; i < n; i++ {
		for k := 0; k < 5; k++ {
			p := framefmt.JoinFrame(r, k)
			payloadEnc(s, p.MACPayload, fmt.Sprintf("join-payload-kind%d", k))
		}
		// join-accepts with every CFList shape
		ja := framefmt.JoinFrame(r, 1).MACPayload.(*lorawan.JoinAcceptPayload)
		ja.CFList = framefmt.RandomCFList(r)
		payloadEnc(s, ja, "join-accept-cflist")
	}
	// CFList octets as a receiver sees them: encoded lists with the RFU octets (12..14 of the channel-mask type) set,
	// arbitrary octets of both types, an unknown type, wrong lengths
	rfu := [][3]byte{{0, 0, 0}, {1, 0, 0}, {0, 1, 0}, {0, 0, 1}, {0xff, 0xff, 0xff}, {0x80, 0, 0}, {0, 0x80, 0}, {0xff, 0xff, 0}, {0, 0, 0xff}}
	for i := 0; i < n; i++ {
		if c := framefmt.RandomCFList(r); c != nil {
			if b, err := c.MarshalBinary(); err == nil {
				cflistDec(s, b, "cflist-dec-encoded")
				if b[15] == 1 {
					for _, x := range rfu[1:] {
						m := append([]byte{}, b...)
						copy(m[12:15], x[:])
						cflistDec(s, m, "cflist-dec-rfu-set")
					}
					m := append([]byte{}, b...)
					copy(m[12:15], r.Bytes(3))
					cflistDec(s, m, "cflist-dec-rfu-set")
				}
			}
		}
		b := r.Bytes(16)
		b[15] = byte(i % 2)
		cflistDec(s, b, fmt.Sprintf("cflist-dec-random-type%d", b[15]))
		if i%8 == 0 {
			b = r.Bytes(16)
			if b[15] < 2 {
				b[15] += 2
			}
			cflistDec(s, b, "cflist-dec-unknown-type")
			cflistDec(s, r.Bytes([]int{0, 1, 12, 15, 17, 28}[r.Intn(6)]), "cflist-dec-wrong-length")
		}
	}
	// join-accept payloads as a device sees them after decryption: every RxDelay octet, RFU parts set, random octets
	for v := 0; v < 256; v++ {
		b := r.Bytes(12)
		b[11] = byte(v)
		joinAcceptDec(s, b, "ja-dec-rxdelay-octet")
	}
	for i := 0; i < n; i++ {
		ja := framefmt.JoinFrame(r, 1).MACPayload.(*lorawan.JoinAcceptPayload)
		ja.CFList = framefmt.RandomCFList(r)
		if b, err := ja.MarshalBinary(); err == nil {
			joinAcceptDec(s, b, "ja-dec-encoded")
			m := append([]byte{}, b...)
			m[11] |= byte(1+r.Intn(15)) << 4
			joinAcceptDec(s, m, "ja-dec-rxdelay-rfu-set")
			if len(m) == 28 && m[27] == 1 {
				copy(m[24:27], r.Bytes(3))
				joinAcceptDec(s, m, "ja-dec-rxdelay-and-cflist-rfu-set")
			}
		}
		b := r.Bytes(28)
		b[27] = byte(i % 2)
		joinAcceptDec(s, b, "ja-dec-random")
		if i%8 == 0 {
			b = r.Bytes(28)
			joinAcceptDec(s, b, "ja-dec-random-any-cflist-type")
			joinAcceptDec(s, r.Bytes([]int{0, 11, 13, 27, 29, 44}[r.Intn(6)]), "ja-dec-wrong-length")
		}
	}
	for _, x := range rfu {
		for _, fill := range []byte{0, 0xff} {
			b := bytes.Repeat([]byte{fill}, 16)
			copy(b[12:15], x[:])
			b[15] = 1
			cflistDec(s, b, "cflist-dec-rfu-set")
		}
	}
}
