// dump writes coq/gen/*.v from the live code: every table the theorems
// quantify over is re-read from /repo's working tree on every run.
// Each table lives in its own file of this package and registers itself
// in init() with register("XxxGen.v", func() string).
package main

import (
	"fmt"
	"os"
	"path/filepath"
	"sort"
)

var dumps = map[string]func() string{}

func register(file string, f func() string) { dumps[file] = f }

func main() {
	if len(os.Args) < 2 {
		fmt.Fprintln(os.Stderr, "usage: dump <outdir>")
		os.Exit(2)
	}
	dir := os.Args[1]
	if err := os.MkdirAll(dir, 0o755); err != nil {
		fmt.Fprintln(os.Stderr, err)
		os.Exit(1)
	}
	names := make([]string, 0, len(dumps))
	for n := range dumps {
		names = append(names, n)
	}
	sort.Strings(names)
	for _, n := range names {
		if err := os.WriteFile(filepath.Join(dir, n), []byte(dumps[n]()), 0o644); err != nil {
			fmt.Fprintln(os.Stderr, err)
			os.Exit(1)
		}
	}
}
