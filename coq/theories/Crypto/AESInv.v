(* AES-128 model: the cipher and the inverse cipher are mutually inverse on
   16-byte blocks, for every key; outputs are 16 bytes, each < 256.

   Method: S-box / inverse S-box by a 256-case sweep; ShiftRows by computation
   on a symbolic 16-element list; MixColumns via GF(2)-linearity of the
   coefficient multipliers (six 65,536-case sweeps) and the 4 x 256 single-byte
   basis columns of each of the 8 composite rows; AddRoundKey by nilpotence of
   xor; rounds by induction over the list of round keys with the invariant
   "16 elements, each < 256".  All sweeps are [vm_compute] over [forallb]
   lifted with [forallb_forall]. *)
From Coq Require Import List NArith Bool Lia Btauto.
From Coq Require Import ZifyN ZifyNat ZifyBool.
From LW Require Import Base.Bytes Crypto.AES.
Import ListNotations.
Open Scope N_scope.

Definition byte (x : N) : Prop := x < 256.
Definition len16 (s : list N) : Prop := length s = 16%nat.
Definition st16 (s : list N) : Prop := len16 s /\ Forall byte s.

(* ---- finite sweeps ---- *)
Definition all_bytes : list N := map N.of_nat (seq 0 256).

Lemma in_all_bytes x : byte x -> In x all_bytes.
Proof.
  unfold byte, all_bytes. intros H. apply in_map_iff. exists (N.to_nat x). split; [lia|].
  apply in_seq. lia.
Qed.

Lemma sweep1 (P : N -> bool) :
  forallb P all_bytes = true -> forall x, byte x -> P x = true.
Proof. intros H x Hx. rewrite forallb_forall in H. apply H, in_all_bytes, Hx. Qed.

Lemma sweep2 (P : N -> N -> bool) :
  forallb (fun a => forallb (P a) all_bytes) all_bytes = true ->
  forall a b, byte a -> byte b -> P a b = true.
Proof.
  intros H a b Ha Hb. rewrite forallb_forall in H.
  specialize (H a (in_all_bytes a Ha)). rewrite forallb_forall in H.
  apply H, in_all_bytes, Hb.
Qed.

(* ---- S-box ---- *)
Lemma sbox_facts x : byte x ->
  inv_sub (sub x) = x /\ sub (inv_sub x) = x /\ byte (sub x) /\ byte (inv_sub x).
Proof.
  intros Hx.
  pose proof (sweep1 (fun x => (inv_sub (sub x) =? x) && (sub (inv_sub x) =? x)
                               && (sub x <? 256) && (inv_sub x <? 256))) as H.
  specialize (H ltac:(vm_compute; reflexivity) x Hx). cbv beta in H.
  rewrite !andb_true_iff, !N.eqb_eq, !N.ltb_lt in H. unfold byte. tauto.
Qed.

Lemma inv_sub_sub x : byte x -> inv_sub (sub x) = x.
Proof. intros H; apply (sbox_facts x H). Qed.
Lemma sub_inv_sub x : byte x -> sub (inv_sub x) = x.
Proof. intros H; apply (sbox_facts x H). Qed.
Lemma sub_byte x : byte x -> byte (sub x).
Proof. intros H; apply (sbox_facts x H). Qed.
Lemma inv_sub_byte x : byte x -> byte (inv_sub x).
Proof. intros H; apply (sbox_facts x H). Qed.

(* ---- linear maps on bytes ---- *)
Definition L (f : N -> N) : Prop :=
  forall a b, byte a -> byte b -> f (N.lxor a b) = N.lxor (f a) (f b) /\ byte (f a).

Definition L_check (f : N -> N) : bool :=
  forallb (fun a => forallb (fun b => (f (N.lxor a b) =? N.lxor (f a) (f b)) && (f a <? 256))
                            all_bytes) all_bytes.

Lemma L_of_check f : L_check f = true -> L f.
Proof.
  intros H a b Ha Hb.
  pose proof (sweep2 (fun a b => (f (N.lxor a b) =? N.lxor (f a) (f b)) && (f a <? 256)) H a b Ha Hb) as H1.
  cbv beta in H1.
  rewrite andb_true_iff, N.eqb_eq, N.ltb_lt in H1. exact H1.
Qed.

Lemma L_mul1 : L mul1.
Proof. intros a b Ha Hb. split; [reflexivity|exact Ha]. Qed.
Lemma L_mul2 : L mul2.  Proof. apply L_of_check. vm_compute. reflexivity. Qed.
Lemma L_mul3 : L mul3.  Proof. apply L_of_check. vm_compute. reflexivity. Qed.
Lemma L_mul9 : L mul9.  Proof. apply L_of_check. vm_compute. reflexivity. Qed.
Lemma L_mul11 : L mul11. Proof. apply L_of_check. vm_compute. reflexivity. Qed.
Lemma L_mul13 : L mul13. Proof. apply L_of_check. vm_compute. reflexivity. Qed.
Lemma L_mul14 : L mul14. Proof. apply L_of_check. vm_compute. reflexivity. Qed.

(* xtime is linear (stated separately since it is the primitive) *)
Lemma xtime_linear a b : byte a -> byte b -> xtime (N.lxor a b) = N.lxor (xtime a) (xtime b).
Proof. intros Ha Hb. apply (L_mul2 a b Ha Hb). Qed.

Ltac xor_ac := apply N.bits_inj; intro; rewrite ?N.lxor_spec; btauto.

(* ---- linear maps from columns to bytes ---- *)
Definition L4 (h : N -> N -> N -> N -> N) : Prop :=
  forall a b c d a' b' c' d',
    byte a -> byte b -> byte c -> byte d -> byte a' -> byte b' -> byte c' -> byte d' ->
    h (N.lxor a a') (N.lxor b b') (N.lxor c c') (N.lxor d d') = N.lxor (h a b c d) (h a' b' c' d')
    /\ byte (h a b c d).

Lemma lin4_L4 f1 f2 f3 f4 : L f1 -> L f2 -> L f3 -> L f4 -> L4 (lin4 f1 f2 f3 f4).
Proof.
  intros H1 H2 H3 H4 a b c d a' b' c' d' Ha Hb Hc Hd Ha' Hb' Hc' Hd'.
  destruct (H1 a a' Ha Ha') as [E1 B1]. destruct (H2 b b' Hb Hb') as [E2 B2].
  destruct (H3 c c' Hc Hc') as [E3 B3]. destruct (H4 d d' Hd Hd') as [E4 B4].
  unfold lin4. rewrite E1, E2, E3, E4. split.
  - xor_ac.
  - unfold byte in *. repeat apply lxor_byte; assumption.
Qed.

Definition comp4 (o m0 m1 m2 m3 : N -> N -> N -> N -> N) (a b c d : N) : N :=
  o (m0 a b c d) (m1 a b c d) (m2 a b c d) (m3 a b c d).

Lemma comp4_L4 o m0 m1 m2 m3 : L4 o -> L4 m0 -> L4 m1 -> L4 m2 -> L4 m3 -> L4 (comp4 o m0 m1 m2 m3).
Proof.
  intros Ho H0 H1 H2 H3 a b c d a' b' c' d' Ha Hb Hc Hd Ha' Hb' Hc' Hd'.
  unfold comp4.
  destruct (H0 a b c d a' b' c' d') as [E0 B0]; try assumption.
  destruct (H1 a b c d a' b' c' d') as [E1 B1]; try assumption.
  destruct (H2 a b c d a' b' c' d') as [E2 B2]; try assumption.
  destruct (H3 a b c d a' b' c' d') as [E3 B3]; try assumption.
  destruct (H0 a' b' c' d' a b c d) as [_ B0']; try assumption.
  destruct (H1 a' b' c' d' a b c d) as [_ B1']; try assumption.
  destruct (H2 a' b' c' d' a b c d) as [_ B2']; try assumption.
  destruct (H3 a' b' c' d' a b c d) as [_ B3']; try assumption.
  rewrite E0, E1, E2, E3. apply Ho; assumption.
Qed.

Lemma byte0 : byte 0. Proof. reflexivity. Qed.

Lemma L4_decompose h : L4 h -> forall a b c d, byte a -> byte b -> byte c -> byte d ->
  h a b c d = N.lxor (N.lxor (h a 0 0 0) (h 0 b 0 0)) (N.lxor (h 0 0 c 0) (h 0 0 0 d)).
Proof.
  intros H a b c d Ha Hb Hc Hd. pose proof byte0 as Z.
  assert (E1 : h a b c d = N.lxor (h a 0 0 0) (h 0 b c d)).
  { destruct (H a 0 0 0 0 b c d) as [E _]; try assumption.
    rewrite ?N.lxor_0_r, ?N.lxor_0_l in E. exact E. }
  assert (E2 : h 0 b c d = N.lxor (h 0 b 0 0) (h 0 0 c d)).
  { destruct (H 0 b 0 0 0 0 c d) as [E _]; try assumption.
    rewrite ?N.lxor_0_r, ?N.lxor_0_l in E. exact E. }
  assert (E3 : h 0 0 c d = N.lxor (h 0 0 c 0) (h 0 0 0 d)).
  { destruct (H 0 0 c 0 0 0 0 d) as [E _]; try assumption.
    rewrite ?N.lxor_0_r, ?N.lxor_0_l in E. exact E. }
  rewrite E1, E2, E3. xor_ac.
Qed.

Definition sel (k j : nat) (a : N) : N := if Nat.eqb k j then a else 0.

(* the four basis columns of row k of a column map that should be the identity *)
Definition basis_check (g : N -> N -> N -> N -> N) (k : nat) : bool :=
  forallb (fun a => (g a 0 0 0 =? sel k 0 a) && (g 0 a 0 0 =? sel k 1 a)
                    && (g 0 0 a 0 =? sel k 2 a) && (g 0 0 0 a =? sel k 3 a)) all_bytes.

Lemma L4_identity_row g k : L4 g -> basis_check g k = true ->
  forall a b c d, byte a -> byte b -> byte c -> byte d -> g a b c d = nth k [a; b; c; d] 0.
Proof.
  intros HL Hc a b c d Ha Hb Hc' Hd.
  rewrite (L4_decompose g HL a b c d Ha Hb Hc' Hd).
  unfold basis_check in Hc.
  pose proof (sweep1 _ Hc) as Sw. cbv beta in Sw.
  pose proof (Sw a Ha) as Sa. pose proof (Sw b Hb) as Sb.
  pose proof (Sw c Hc') as Sc. pose proof (Sw d Hd) as Sd.
  rewrite !andb_true_iff, !N.eqb_eq in Sa, Sb, Sc, Sd.
  destruct Sa as [[[Sa _] _] _]. destruct Sb as [[[_ Sb] _] _].
  destruct Sc as [[_ Sc] _]. destruct Sd as [_ Sd].
  rewrite Sa, Sb, Sc, Sd.
  destruct k as [|[|[|[|k]]]]; cbn [sel Nat.eqb nth];
    rewrite ?N.lxor_0_r, ?N.lxor_0_l; try reflexivity.
  destruct k; reflexivity.
Qed.

(* ---- MixColumns ---- *)
Lemma L4_mc0 : L4 mc0. Proof. apply lin4_L4; auto using L_mul1, L_mul2, L_mul3. Qed.
Lemma L4_mc1 : L4 mc1. Proof. apply lin4_L4; auto using L_mul1, L_mul2, L_mul3. Qed.
Lemma L4_mc2 : L4 mc2. Proof. apply lin4_L4; auto using L_mul1, L_mul2, L_mul3. Qed.
Lemma L4_mc3 : L4 mc3. Proof. apply lin4_L4; auto using L_mul1, L_mul2, L_mul3. Qed.
Lemma L4_imc0 : L4 imc0. Proof. apply lin4_L4; auto using L_mul9, L_mul11, L_mul13, L_mul14. Qed.
Lemma L4_imc1 : L4 imc1. Proof. apply lin4_L4; auto using L_mul9, L_mul11, L_mul13, L_mul14. Qed.
Lemma L4_imc2 : L4 imc2. Proof. apply lin4_L4; auto using L_mul9, L_mul11, L_mul13, L_mul14. Qed.
Lemma L4_imc3 : L4 imc3. Proof. apply lin4_L4; auto using L_mul9, L_mul11, L_mul13, L_mul14. Qed.

Lemma mc_byte a b c d : byte a -> byte b -> byte c -> byte d ->
  byte (mc0 a b c d) /\ byte (mc1 a b c d) /\ byte (mc2 a b c d) /\ byte (mc3 a b c d).
Proof.
  intros Ha Hb Hc Hd. pose proof byte0 as Z. repeat split.
  - apply (L4_mc0 a b c d 0 0 0 0); assumption.
  - apply (L4_mc1 a b c d 0 0 0 0); assumption.
  - apply (L4_mc2 a b c d 0 0 0 0); assumption.
  - apply (L4_mc3 a b c d 0 0 0 0); assumption.
Qed.

Lemma imc_byte a b c d : byte a -> byte b -> byte c -> byte d ->
  byte (imc0 a b c d) /\ byte (imc1 a b c d) /\ byte (imc2 a b c d) /\ byte (imc3 a b c d).
Proof.
  intros Ha Hb Hc Hd. pose proof byte0 as Z. repeat split.
  - apply (L4_imc0 a b c d 0 0 0 0); assumption.
  - apply (L4_imc1 a b c d 0 0 0 0); assumption.
  - apply (L4_imc2 a b c d 0 0 0 0); assumption.
  - apply (L4_imc3 a b c d 0 0 0 0); assumption.
Qed.

Section Columns.
  Context (a b c d : N) (Ha : byte a) (Hb : byte b) (Hc : byte c) (Hd : byte d).

  Lemma imc_mc_0 : comp4 imc0 mc0 mc1 mc2 mc3 a b c d = a.
  Proof.
    exact (L4_identity_row (comp4 imc0 mc0 mc1 mc2 mc3) 0
             (comp4_L4 imc0 mc0 mc1 mc2 mc3 L4_imc0 L4_mc0 L4_mc1 L4_mc2 L4_mc3)
             ltac:(vm_compute; reflexivity) a b c d Ha Hb Hc Hd).
  Qed.
  Lemma imc_mc_1 : comp4 imc1 mc0 mc1 mc2 mc3 a b c d = b.
  Proof.
    exact (L4_identity_row (comp4 imc1 mc0 mc1 mc2 mc3) 1
             (comp4_L4 imc1 mc0 mc1 mc2 mc3 L4_imc1 L4_mc0 L4_mc1 L4_mc2 L4_mc3)
             ltac:(vm_compute; reflexivity) a b c d Ha Hb Hc Hd).
  Qed.
  Lemma imc_mc_2 : comp4 imc2 mc0 mc1 mc2 mc3 a b c d = c.
  Proof.
    exact (L4_identity_row (comp4 imc2 mc0 mc1 mc2 mc3) 2
             (comp4_L4 imc2 mc0 mc1 mc2 mc3 L4_imc2 L4_mc0 L4_mc1 L4_mc2 L4_mc3)
             ltac:(vm_compute; reflexivity) a b c d Ha Hb Hc Hd).
  Qed.
  Lemma imc_mc_3 : comp4 imc3 mc0 mc1 mc2 mc3 a b c d = d.
  Proof.
    exact (L4_identity_row (comp4 imc3 mc0 mc1 mc2 mc3) 3
             (comp4_L4 imc3 mc0 mc1 mc2 mc3 L4_imc3 L4_mc0 L4_mc1 L4_mc2 L4_mc3)
             ltac:(vm_compute; reflexivity) a b c d Ha Hb Hc Hd).
  Qed.
  Lemma mc_imc_0 : comp4 mc0 imc0 imc1 imc2 imc3 a b c d = a.
  Proof.
    exact (L4_identity_row (comp4 mc0 imc0 imc1 imc2 imc3) 0
             (comp4_L4 mc0 imc0 imc1 imc2 imc3 L4_mc0 L4_imc0 L4_imc1 L4_imc2 L4_imc3)
             ltac:(vm_compute; reflexivity) a b c d Ha Hb Hc Hd).
  Qed.
  Lemma mc_imc_1 : comp4 mc1 imc0 imc1 imc2 imc3 a b c d = b.
  Proof.
    exact (L4_identity_row (comp4 mc1 imc0 imc1 imc2 imc3) 1
             (comp4_L4 mc1 imc0 imc1 imc2 imc3 L4_mc1 L4_imc0 L4_imc1 L4_imc2 L4_imc3)
             ltac:(vm_compute; reflexivity) a b c d Ha Hb Hc Hd).
  Qed.
  Lemma mc_imc_2 : comp4 mc2 imc0 imc1 imc2 imc3 a b c d = c.
  Proof.
    exact (L4_identity_row (comp4 mc2 imc0 imc1 imc2 imc3) 2
             (comp4_L4 mc2 imc0 imc1 imc2 imc3 L4_mc2 L4_imc0 L4_imc1 L4_imc2 L4_imc3)
             ltac:(vm_compute; reflexivity) a b c d Ha Hb Hc Hd).
  Qed.
  Lemma mc_imc_3 : comp4 mc3 imc0 imc1 imc2 imc3 a b c d = d.
  Proof.
    exact (L4_identity_row (comp4 mc3 imc0 imc1 imc2 imc3) 3
             (comp4_L4 mc3 imc0 imc1 imc2 imc3 L4_mc3 L4_imc0 L4_imc1 L4_imc2 L4_imc3)
             ltac:(vm_compute; reflexivity) a b c d Ha Hb Hc Hd).
  Qed.
End Columns.

(* ---- the state invariant ---- *)
Ltac destr16 s H :=
  let Hl := fresh "Hlen" in let Ha := fresh "Hall" in
  destruct H as [Hl Ha]; unfold len16 in Hl;
  do 16 (destruct s as [|? s]; [discriminate Hl|]);
  destruct s; [clear Hl|discriminate Hl];
  repeat (apply Forall_cons_iff in Ha; let Hb := fresh "Hb" in destruct Ha as [Hb Ha]);
  clear Ha.

Ltac solve_st16 :=
  split; [reflexivity | repeat (apply Forall_cons; [|]); try apply Forall_nil; try assumption].

Lemma shift_rows_st16 s : st16 s -> st16 (shift_rows s).
Proof. intros H. destr16 s H. cbn [shift_rows]. solve_st16. Qed.
Lemma inv_shift_rows_st16 s : st16 s -> st16 (inv_shift_rows s).
Proof. intros H. destr16 s H. cbn [inv_shift_rows]. solve_st16. Qed.
Lemma inv_shift_shift s : st16 s -> inv_shift_rows (shift_rows s) = s.
Proof. intros H. destr16 s H. reflexivity. Qed.
Lemma shift_inv_shift s : st16 s -> shift_rows (inv_shift_rows s) = s.
Proof. intros H. destr16 s H. reflexivity. Qed.

Lemma mix_columns_st16 s : st16 s -> st16 (mix_columns s).
Proof.
  intros H. destr16 s H. cbn [mix_columns].
  solve_st16; (apply mc_byte; assumption).
Qed.
Lemma inv_mix_columns_st16 s : st16 s -> st16 (inv_mix_columns s).
Proof.
  intros H. destr16 s H. cbn [inv_mix_columns].
  solve_st16; (apply imc_byte; assumption).
Qed.

Lemma inv_mix_mix s : st16 s -> inv_mix_columns (mix_columns s) = s.
Proof.
  intros H. destr16 s H. cbn [mix_columns inv_mix_columns].
  repeat match goal with |- _ :: _ = _ :: _ => f_equal end;
    first [apply imc_mc_0 | apply imc_mc_1 | apply imc_mc_2 | apply imc_mc_3]; assumption.
Qed.
Lemma mix_inv_mix s : st16 s -> mix_columns (inv_mix_columns s) = s.
Proof.
  intros H. destr16 s H. cbn [mix_columns inv_mix_columns].
  repeat match goal with |- _ :: _ = _ :: _ => f_equal end;
    first [apply mc_imc_0 | apply mc_imc_1 | apply mc_imc_2 | apply mc_imc_3]; assumption.
Qed.

Lemma sub_bytes_st16 s : st16 s -> st16 (sub_bytes s).
Proof.
  intros [Hl Ha]. split.
  - unfold len16, sub_bytes. now rewrite map_length.
  - unfold sub_bytes. apply Forall_map. eapply Forall_impl; [|exact Ha]. apply sub_byte.
Qed.
Lemma inv_sub_bytes_st16 s : st16 s -> st16 (inv_sub_bytes s).
Proof.
  intros [Hl Ha]. split.
  - unfold len16, inv_sub_bytes. now rewrite map_length.
  - unfold inv_sub_bytes. apply Forall_map. eapply Forall_impl; [|exact Ha]. apply inv_sub_byte.
Qed.
Lemma inv_sub_sub_bytes s : Forall byte s -> inv_sub_bytes (sub_bytes s) = s.
Proof.
  unfold inv_sub_bytes, sub_bytes. induction 1 as [|x s Hx _ IH]; [reflexivity|].
  cbn [map]. now rewrite IH, inv_sub_sub.
Qed.
Lemma sub_inv_sub_bytes s : Forall byte s -> sub_bytes (inv_sub_bytes s) = s.
Proof.
  unfold inv_sub_bytes, sub_bytes. induction 1 as [|x s Hx _ IH]; [reflexivity|].
  cbn [map]. now rewrite IH, sub_inv_sub.
Qed.

Lemma xor_bytes_byte a b : Forall byte a -> Forall byte b -> Forall byte (xor_bytes a b).
Proof.
  intros Ha; revert b; induction Ha as [|x a Hx _ IH]; intros b Hb; [constructor|].
  destruct Hb as [|y b Hy Hb]; [constructor|]. cbn [xor_bytes].
  constructor; [apply lxor_byte; assumption|apply IH, Hb].
Qed.

Lemma add_round_key_st16 s rk : st16 s -> st16 rk -> st16 (add_round_key s rk).
Proof.
  intros [Hl Ha] [Hl' Ha']. split.
  - unfold len16, add_round_key in *. rewrite xor_bytes_length, Hl, Hl'. reflexivity.
  - apply xor_bytes_byte; assumption.
Qed.
Lemma add_round_key_invol s rk : st16 s -> st16 rk -> add_round_key (add_round_key s rk) rk = s.
Proof.
  intros [Hl _] [Hl' _]. apply xor_bytes_invol. unfold len16 in *. rewrite Hl, Hl'. constructor.
Qed.

(* ---- rounds ---- *)
Lemma round_st16 s rk : st16 s -> st16 rk -> st16 (round s rk).
Proof. intros. unfold round. auto using add_round_key_st16, mix_columns_st16, shift_rows_st16, sub_bytes_st16. Qed.
Lemma final_round_st16 s rk : st16 s -> st16 rk -> st16 (final_round s rk).
Proof. intros. unfold final_round. auto using add_round_key_st16, shift_rows_st16, sub_bytes_st16. Qed.
Lemma inv_round_st16 s rk : st16 s -> st16 rk -> st16 (inv_round s rk).
Proof. intros. unfold inv_round. auto using add_round_key_st16, inv_mix_columns_st16, inv_shift_rows_st16, inv_sub_bytes_st16. Qed.
Lemma inv_final_round_st16 s rk : st16 s -> st16 rk -> st16 (inv_final_round s rk).
Proof. intros. unfold inv_final_round. auto using add_round_key_st16, inv_shift_rows_st16, inv_sub_bytes_st16. Qed.

Lemma inv_round_round s rk : st16 s -> st16 rk -> inv_round (round s rk) rk = s.
Proof.
  intros Hs Hk. unfold inv_round, round.
  rewrite add_round_key_invol, inv_mix_mix, inv_shift_shift, inv_sub_sub_bytes;
    auto using mix_columns_st16, shift_rows_st16, sub_bytes_st16. apply Hs.
Qed.
Lemma round_inv_round s rk : st16 s -> st16 rk -> round (inv_round s rk) rk = s.
Proof.
  intros Hs Hk. unfold inv_round, round.
  rewrite sub_inv_sub_bytes, shift_inv_shift, mix_inv_mix, add_round_key_invol;
    auto using add_round_key_st16, inv_mix_columns_st16, inv_shift_rows_st16.
  apply inv_shift_rows_st16, inv_mix_columns_st16, add_round_key_st16; assumption.
Qed.
Lemma inv_final_final s rk : st16 s -> st16 rk -> inv_final_round (final_round s rk) rk = s.
Proof.
  intros Hs Hk. unfold inv_final_round, final_round.
  rewrite add_round_key_invol, inv_shift_shift, inv_sub_sub_bytes;
    auto using shift_rows_st16, sub_bytes_st16. apply Hs.
Qed.
Lemma final_inv_final s rk : st16 s -> st16 rk -> final_round (inv_final_round s rk) rk = s.
Proof.
  intros Hs Hk. unfold inv_final_round, final_round.
  rewrite sub_inv_sub_bytes, shift_inv_shift, add_round_key_invol;
    auto using add_round_key_st16, inv_shift_rows_st16.
  apply inv_shift_rows_st16, add_round_key_st16; assumption.
Qed.

Lemma enc_rounds_st16 rks : Forall st16 rks -> forall s, st16 s -> st16 (enc_rounds s rks).
Proof.
  induction 1 as [|rk rest Hrk Hrest IH]; intros s Hs; [exact Hs|].
  cbn [enc_rounds]. destruct rest as [|rk' rest'].
  - apply final_round_st16; assumption.
  - apply IH, round_st16; assumption.
Qed.
Lemma dec_rounds_st16 rks : Forall st16 rks -> forall s, st16 s -> st16 (dec_rounds s rks).
Proof.
  induction 1 as [|rk rest Hrk Hrest IH]; intros s Hs; [exact Hs|].
  cbn [dec_rounds]. destruct rest as [|rk' rest'].
  - apply inv_final_round_st16; assumption.
  - apply inv_round_st16; [apply IH|]; assumption.
Qed.

Lemma dec_enc_rounds rks : Forall st16 rks -> forall s, st16 s -> dec_rounds (enc_rounds s rks) rks = s.
Proof.
  induction 1 as [|rk rest Hrk Hrest IH]; intros s Hs; [reflexivity|].
  cbn [enc_rounds dec_rounds]. destruct rest as [|rk' rest'].
  - apply inv_final_final; assumption.
  - rewrite IH by (apply round_st16; assumption). apply inv_round_round; assumption.
Qed.
Lemma enc_dec_rounds rks : Forall st16 rks -> forall s, st16 s -> enc_rounds (dec_rounds s rks) rks = s.
Proof.
  induction 1 as [|rk rest Hrk Hrest IH]; intros s Hs; [reflexivity|].
  cbn [enc_rounds dec_rounds]. destruct rest as [|rk' rest'].
  - apply final_inv_final; assumption.
  - rewrite round_inv_round; [apply IH, Hs| |assumption].
    apply dec_rounds_st16; assumption.
Qed.

(* ---- normalisation and key expansion ---- *)
Lemma norm16_len16 l : len16 (norm16 l).
Proof.
  unfold len16, norm16. rewrite firstn_length, app_length, repeat_length. lia.
Qed.
Lemma norm16_id l : len16 l -> norm16 l = l.
Proof. intros H. unfold norm16. apply take_app_n, H. Qed.
Lemma Forall_firstn' {A} (P : A -> Prop) n l : Forall P l -> Forall P (firstn n l).
Proof.
  intros H; revert n; induction H; intros [|n]; cbn [firstn]; constructor; auto.
Qed.
Lemma norm16_st16 l : Forall byte l -> st16 (norm16 l).
Proof.
  intros H. split; [apply norm16_len16|]. unfold norm16. apply Forall_firstn'.
  apply Forall_app. split; [exact H|]. apply Forall_forall. intros x Hx.
  apply repeat_spec in Hx. subst x. reflexivity.
Qed.

Lemma next_round_key_st16 rk rc : st16 rk -> byte rc -> st16 (next_round_key rk rc).
Proof.
  intros H Hrc. destr16 rk H. cbn [next_round_key]. cbv zeta.
  solve_st16; unfold byte in *; repeat (apply lxor_byte; try assumption); apply sub_byte; assumption.
Qed.

Lemma expand_from_st16 rcs : Forall byte rcs -> forall rk, st16 rk -> Forall st16 (expand_from rk rcs).
Proof.
  induction 1 as [|rc rcs Hrc _ IH]; intros rk Hrk; cbn [expand_from].
  - constructor; [exact Hrk|constructor].
  - constructor; [exact Hrk|]. apply IH, next_round_key_st16; assumption.
Qed.

Lemma rcons_bytes : Forall byte rcons.
Proof. unfold rcons. repeat constructor. Qed.

Lemma expand_key_st16 k : Forall byte k -> Forall st16 (expand_key k).
Proof. intros H. apply expand_from_st16; [apply rcons_bytes|apply norm16_st16, H]. Qed.

Lemma expand_key_length k : length (expand_key k) = 11%nat.
Proof.
  unfold expand_key. generalize (norm16 k). intros rk.
  unfold rcons. reflexivity.
Qed.

(* ---- the cipher over an expanded key ---- *)
Lemma aes_encrypt_rk_st16 rks b : Forall st16 rks -> Forall byte b -> st16 (aes_encrypt_rk rks b).
Proof.
  intros Hr Hb. unfold aes_encrypt_rk. destruct Hr as [|rk0 rest H0 Hrest].
  - apply norm16_st16, Hb.
  - apply enc_rounds_st16; [exact Hrest|]. apply add_round_key_st16; [apply norm16_st16, Hb|exact H0].
Qed.
Lemma aes_decrypt_rk_st16 rks b : Forall st16 rks -> Forall byte b -> st16 (aes_decrypt_rk rks b).
Proof.
  intros Hr Hb. unfold aes_decrypt_rk. destruct Hr as [|rk0 rest H0 Hrest].
  - apply norm16_st16, Hb.
  - apply add_round_key_st16; [|exact H0]. apply dec_rounds_st16; [exact Hrest|apply norm16_st16, Hb].
Qed.

Lemma aes_decrypt_encrypt_rk rks b : Forall st16 rks -> st16 b ->
  aes_decrypt_rk rks (aes_encrypt_rk rks b) = b.
Proof.
  intros Hr Hb. unfold aes_encrypt_rk, aes_decrypt_rk. destruct Hr as [|rk0 rest H0 Hrest].
  - rewrite !norm16_id; [reflexivity|apply Hb|]. rewrite norm16_id; apply Hb.
  - rewrite (norm16_id b) by apply Hb.
    assert (H1 : st16 (add_round_key b rk0)) by (apply add_round_key_st16; assumption).
    rewrite norm16_id by (apply enc_rounds_st16; assumption).
    rewrite dec_enc_rounds by assumption. apply add_round_key_invol; assumption.
Qed.
Lemma aes_encrypt_decrypt_rk rks b : Forall st16 rks -> st16 b ->
  aes_encrypt_rk rks (aes_decrypt_rk rks b) = b.
Proof.
  intros Hr Hb. unfold aes_encrypt_rk, aes_decrypt_rk. destruct Hr as [|rk0 rest H0 Hrest].
  - rewrite !norm16_id; [reflexivity|apply Hb|]. rewrite norm16_id; apply Hb.
  - rewrite (norm16_id b) by apply Hb.
    assert (H1 : st16 (dec_rounds b rest)) by (apply dec_rounds_st16; assumption).
    rewrite norm16_id by (apply add_round_key_st16; assumption).
    rewrite add_round_key_invol by assumption. apply enc_dec_rounds; assumption.
Qed.

(* ---- main theorems ---- *)
Theorem aes_decrypt_encrypt : forall k b,
  length k = 16%nat -> length b = 16%nat ->
  Forall (fun x => x < 256) k -> Forall (fun x => x < 256) b ->
  aes_decrypt k (aes_encrypt k b) = b.
Proof.
  intros k b _ Hb Hk Hbb. apply aes_decrypt_encrypt_rk; [apply expand_key_st16, Hk|split; assumption].
Qed.

Theorem aes_encrypt_decrypt : forall k b,
  length k = 16%nat -> length b = 16%nat ->
  Forall (fun x => x < 256) k -> Forall (fun x => x < 256) b ->
  aes_encrypt k (aes_decrypt k b) = b.
Proof.
  intros k b _ Hb Hk Hbb. apply aes_encrypt_decrypt_rk; [apply expand_key_st16, Hk|split; assumption].
Qed.

Theorem aes_encrypt_bytes : forall k b,
  Forall (fun x => x < 256) k -> Forall (fun x => x < 256) b ->
  Forall (fun x => x < 256) (aes_encrypt k b).
Proof. intros k b Hk Hb. apply (aes_encrypt_rk_st16 (expand_key k) b); [apply expand_key_st16, Hk|exact Hb]. Qed.

Theorem aes_decrypt_bytes : forall k b,
  Forall (fun x => x < 256) k -> Forall (fun x => x < 256) b ->
  Forall (fun x => x < 256) (aes_decrypt k b).
Proof. intros k b Hk Hb. apply (aes_decrypt_rk_st16 (expand_key k) b); [apply expand_key_st16, Hk|exact Hb]. Qed.

(* ---- the output always has 16 elements (no hypothesis on the inputs) ---- *)
Ltac destr16l s Hl :=
  unfold len16 in Hl;
  do 16 (destruct s as [|? s]; [discriminate Hl|]);
  destruct s; [clear Hl|discriminate Hl].

Lemma shift_rows_len16 s : len16 s -> len16 (shift_rows s).
Proof. intros H. destr16l s H. reflexivity. Qed.
Lemma inv_shift_rows_len16 s : len16 s -> len16 (inv_shift_rows s).
Proof. intros H. destr16l s H. reflexivity. Qed.
Lemma mix_columns_len16 s : len16 s -> len16 (mix_columns s).
Proof. intros H. destr16l s H. reflexivity. Qed.
Lemma inv_mix_columns_len16 s : len16 s -> len16 (inv_mix_columns s).
Proof. intros H. destr16l s H. reflexivity. Qed.
Lemma sub_bytes_len16 s : len16 s -> len16 (sub_bytes s).
Proof. unfold len16, sub_bytes. now rewrite map_length. Qed.
Lemma inv_sub_bytes_len16 s : len16 s -> len16 (inv_sub_bytes s).
Proof. unfold len16, inv_sub_bytes. now rewrite map_length. Qed.
Lemma add_round_key_len16 s rk : len16 s -> len16 rk -> len16 (add_round_key s rk).
Proof. unfold len16, add_round_key. intros H1 H2. now rewrite xor_bytes_length, H1, H2. Qed.

Lemma enc_rounds_len16 rks : Forall len16 rks -> forall s, len16 s -> len16 (enc_rounds s rks).
Proof.
  induction 1 as [|rk rest Hrk Hrest IH]; intros s Hs; [exact Hs|].
  cbn [enc_rounds]. destruct rest as [|rk' rest'].
  - unfold final_round. auto using add_round_key_len16, shift_rows_len16, sub_bytes_len16.
  - apply IH. unfold round.
    auto using add_round_key_len16, mix_columns_len16, shift_rows_len16, sub_bytes_len16.
Qed.
Lemma dec_rounds_len16 rks : Forall len16 rks -> forall s, len16 s -> len16 (dec_rounds s rks).
Proof.
  induction 1 as [|rk rest Hrk Hrest IH]; intros s Hs; [exact Hs|].
  cbn [dec_rounds]. destruct rest as [|rk' rest'].
  - unfold inv_final_round. auto using add_round_key_len16, inv_shift_rows_len16, inv_sub_bytes_len16.
  - unfold inv_round.
    auto 6 using add_round_key_len16, inv_mix_columns_len16, inv_shift_rows_len16, inv_sub_bytes_len16.
Qed.

Lemma next_round_key_len16 rk rc : len16 rk -> len16 (next_round_key rk rc).
Proof. intros H. destr16l rk H. reflexivity. Qed.
Lemma expand_from_len16 rcs : forall rk, len16 rk -> Forall len16 (expand_from rk rcs).
Proof.
  induction rcs as [|rc rcs IH]; intros rk Hrk; cbn [expand_from].
  - constructor; [exact Hrk|constructor].
  - constructor; [exact Hrk|]. apply IH, next_round_key_len16, Hrk.
Qed.
Lemma expand_key_len16 k : Forall len16 (expand_key k).
Proof. apply expand_from_len16, norm16_len16. Qed.

Lemma aes_encrypt_rk_len16 rks b : Forall len16 rks -> len16 (aes_encrypt_rk rks b).
Proof.
  intros Hr. unfold aes_encrypt_rk. destruct Hr as [|rk0 rest H0 Hrest]; [apply norm16_len16|].
  apply enc_rounds_len16; [exact Hrest|]. apply add_round_key_len16; [apply norm16_len16|exact H0].
Qed.
Lemma aes_decrypt_rk_len16 rks b : Forall len16 rks -> len16 (aes_decrypt_rk rks b).
Proof.
  intros Hr. unfold aes_decrypt_rk. destruct Hr as [|rk0 rest H0 Hrest]; [apply norm16_len16|].
  apply add_round_key_len16; [|exact H0]. apply dec_rounds_len16; [exact Hrest|apply norm16_len16].
Qed.

Lemma st16_len16 rks : Forall st16 rks -> Forall len16 rks.
Proof. intros H. eapply Forall_impl; [|exact H]. intros s Hs; apply Hs. Qed.

Theorem aes_encrypt_length : forall k b, length (aes_encrypt k b) = 16%nat.
Proof. intros k b. apply (aes_encrypt_rk_len16 (expand_key k) b), expand_key_len16. Qed.
Theorem aes_decrypt_length : forall k b, length (aes_decrypt k b) = 16%nat.
Proof. intros k b. apply (aes_decrypt_rk_len16 (expand_key k) b), expand_key_len16. Qed.

(* the key length hypothesis of the inverse laws is not needed: a key of any
   other length is zero-padded / truncated by [expand_key] *)
Theorem aes_decrypt_encrypt_anykey : forall k b,
  Forall byte k -> st16 b -> aes_decrypt k (aes_encrypt k b) = b.
Proof. intros k b Hk Hb. apply aes_decrypt_encrypt_rk; [apply expand_key_st16, Hk|exact Hb]. Qed.
Theorem aes_encrypt_decrypt_anykey : forall k b,
  Forall byte k -> st16 b -> aes_encrypt k (aes_decrypt k b) = b.
Proof. intros k b Hk Hb. apply aes_encrypt_decrypt_rk; [apply expand_key_st16, Hk|exact Hb]. Qed.
