package main

import (
	"bytes"
	"context"
	"fmt"
	"os"
	"os/exec"
	"path/filepath"
	"strings"
	"syscall"
	"time"

	"verifharness/internal/cases"
)

// raceRun (thorough tier): builds cmd/c10race with the Go race detector and runs it:
// N goroutines x {decode, MIC, encrypt/validate on distinct values, RegisterProprietaryMACCommand,
// GetMACPayloadAndSize, decoding proprietary commands of one shared (direction, CID), keeping a frame with
// encrypted FOpts across other goroutines' encryptions} with randomized yields. A reported race or a value that
// changed under its owner (exit code 3) is a failure. This is supporting
// evidence for the lock-discipline theorem, not a proof (Go memory model / scheduler not modelled).
func (h *H) raceRun() {
	note := func(s string) { h.s.Extra["race_run"] = s }
	// the race runtime maps a large virtual address range; try to lift the address-space limit the
	// driver set (not permitted in every sandbox; the run is attempted regardless)
	lim := syscall.Rlimit{Cur: ^uint64(0), Max: ^uint64(0)}
	_ = syscall.Setrlimit(syscall.RLIMIT_AS, &lim)
	bin := filepath.Join(h.s.Dir, "c10race")
	os.MkdirAll(h.s.Dir, 0o755)
	env := append(os.Environ(), "GOFLAGS=-mod=mod", "GOPROXY=off", "GOSUMDB=off", "GOTOOLCHAIN=local", "CGO_ENABLED=1")
	build := exec.Command("go", "build", "-race", "-tags", "verif", "-o", bin, "./cmd/c10race")
	build.Env = env
	if out, err := build.CombinedOutput(); err != nil {
		note("NOT RUN: go build -race failed (needs cgo + a C compiler offline): " + strings.TrimSpace(string(out)))
		h.s.Fail(cases.GoFail{Key: "race:build", What: "the -race stress program does not build against the current /repo", Replay: map[string]interface{}{"output": string(out)}})
		return
	}
	defer os.Remove(bin)
	ctx, cancel := context.WithTimeout(context.Background(), 5*time.Minute)
	defer cancel()
	run := exec.CommandContext(ctx, bin, fmt.Sprint(h.r.U64()%1000000), "16", "400")
	run.Env = append(env, "GORACE=halt_on_error=0 exitcode=66")
	var buf bytes.Buffer
	run.Stdout, run.Stderr = &buf, &buf
	err := run.Run()
	out := buf.String()
	n := strings.Count(out, "WARNING: DATA RACE")
	if n > 0 || err != nil {
		if len(out) > 6000 {
			out = out[:6000]
		}
		h.s.Fail(cases.GoFail{Key: "race:detector", What: fmt.Sprintf("go race detector reported %d data race(s) (or the stress program failed: %v)", n, err),
			Replay: map[string]interface{}{"cmd": "cd /verif/harness && CGO_ENABLED=1 go build -race -tags verif -o /tmp/c10race ./cmd/c10race && /tmp/c10race <seed> 16 400", "output": out}})
		note(fmt.Sprintf("race detector: %d report(s), err=%v", n, err))
		return
	}
	note("race detector run clean: " + strings.TrimSpace(out))
}
