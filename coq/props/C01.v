(* C01 - statement file (being filled in) *)
From Coq Require Import List NArith ZArith Bool.
From LW Require Import Base.Outcome Base.Bytes Mac.Commands Mac.Spec Mac.Stream Frame.Model Frame.Spec.
Import ListNotations.
Open Scope N_scope.
Theorem C01_placeholder_mhdr : forall mt mj, mt < 8 -> mj < 4 -> mhdr_marshal mt mj < 256.
Proof.
  intros mt mj H1 H2. unfold mhdr_marshal, shl8.
  assert (E : mt = 0 \/ mt = 1 \/ mt = 2 \/ mt = 3 \/ mt = 4 \/ mt = 5 \/ mt = 6 \/ mt = 7) by (zify; Lia.lia).
  assert (F : mj = 0 \/ mj = 1 \/ mj = 2 \/ mj = 3) by (zify; Lia.lia).
  destruct E as [->|[->|[->|[->|[->|[->|[->| ->]]]]]]]; destruct F as [->|[->|[->| ->]]]; vm_compute; reflexivity.
Qed.
Print Assumptions C01_placeholder_mhdr.
