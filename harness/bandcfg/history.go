// AddChannel histories shared by the C12 / C13 harnesses: short sequences of
// band.AddChannel(frequency, minDR, maxDR) calls applied to a fresh band
// object, printed as Gallina `list (Z * Z * Z)`.
package bandcfg

import (
	"fmt"
	"strings"

	"github.com/brocaar/lorawan/band"
)

// Op is one AddChannel(frequency, minDR, maxDR) call.
type Op struct {
	Freq         uint32
	MinDR, MaxDR int
}

// Ops prints a history as a Gallina list of triples.
func Ops(ops []Op) string {
	items := make([]string, len(ops))
	for i, o := range ops {
		items[i] = fmt.Sprintf("(%d%%Z, %s%%Z, %s%%Z)", o.Freq, Z(int64(o.MinDR)), Z(int64(o.MaxDR)))
	}
	return "[" + strings.Join(items, "; ") + "]"
}

// OpsKey is the stable, human-readable form used in case keys: "868300000/6/6,867100000/0/5".
func OpsKey(ops []Op) string {
	items := make([]string, len(ops))
	for i, o := range ops {
		items[i] = fmt.Sprintf("%d/%d/%d", o.Freq, o.MinDR, o.MaxDR)
	}
	return strings.Join(items, ",")
}

// OpsReplay is the replay form of a history.
func OpsReplay(ops []Op) []string {
	items := make([]string, len(ops))
	for i, o := range ops {
		items[i] = fmt.Sprintf("AddChannel(%d, %d, %d)", o.Freq, o.MinDR, o.MaxDR)
	}
	return items
}

// Apply runs the history on b and reports, per call, whether it returned an error
// (printed as a Gallina `list bool`).
func Apply(b band.Band, ops []Op) (errs []bool, printed string) {
	items := make([]string, len(ops))
	for i, o := range ops {
		err := b.AddChannel(o.Freq, o.MinDR, o.MaxDR)
		errs = append(errs, err != nil)
		items[i] = Bool(err != nil)
	}
	return errs, "[" + strings.Join(items, "; ") + "]"
}

// UplinkRuns returns the maximal runs [lo, hi] of consecutive indices 0..15 that are
// defined data-rates usable for uplink (decided through the public API:
// GetDataRate(i) succeeds and GetDataRateIndex(true, that) == i).
func UplinkRuns(b band.Band) [][2]int {
	var runs [][2]int
	open := false
	for dr := 0; dr <= 16; dr++ {
		ok := false
		if dr <= 15 {
			if d, err := b.GetDataRate(dr); err == nil {
				if i, err := b.GetDataRateIndex(true, d); err == nil && i == dr {
					ok = true
				}
			}
		}
		switch {
		case ok && !open:
			runs = append(runs, [2]int{dr, dr})
			open = true
		case ok:
			runs[len(runs)-1][1] = dr
		default:
			open = false
		}
	}
	return runs
}

// RNG is the part of cq.RNG the generators need.
type RNG interface{ Intn(n int) int }

// RandomRange draws a DR range inside one run of defined uplink data-rates; single-DR ranges
// (also at the very top / bottom of a run) are frequent.
func RandomRange(r RNG, runs [][2]int) (int, int) {
	run := runs[r.Intn(len(runs))]
	n := run[1] - run[0] + 1
	switch r.Intn(5) {
	case 0:
		return run[1], run[1]
	case 1:
		return run[0], run[0]
	case 2:
		return run[0], run[1]
	}
	lo := run[0] + r.Intn(n)
	hi := lo + r.Intn(run[1]-lo+1)
	return lo, hi
}

// UplinkFrequencies lists the frequencies of the current uplink channels of b.
func UplinkFrequencies(b band.Band) []uint32 {
	var out []uint32
	for _, i := range b.GetUplinkChannelIndices() {
		if c, err := b.GetUplinkChannel(i); err == nil {
			out = append(out, c.Frequency)
		}
	}
	return out
}

// RandomHistory draws n AddChannel calls for a band whose default uplink frequencies are
// base: about 40% of the calls repeat a frequency that is already a channel (default or
// added earlier) with a freshly drawn DR range, the others use a new frequency on the
// 200 kHz raster above the first default channel.
func RandomHistory(r RNG, base []uint32, runs [][2]int, n int) []Op {
	freqs := append([]uint32{}, base...)
	var ops []Op
	for k := 0; k < n; k++ {
		var f uint32
		if len(freqs) > 0 && r.Intn(5) < 2 {
			f = freqs[r.Intn(len(freqs))]
		} else {
			f0 := uint32(868100000)
			if len(base) > 0 {
				f0 = base[0]
			}
			f = f0 + uint32(1+r.Intn(40))*200000
		}
		lo, hi := RandomRange(r, runs)
		ops = append(ops, Op{f, lo, hi})
		freqs = append(freqs, f)
	}
	return ops
}
