(* C05 recovers: the receiver pipeline applied to the sender pipeline's output
   returns exactly the MAC commands and payload of the sender's frame, for
   every valid data frame, both directions, both MAC versions, all keys,
   counters and MIC parameters.

   Uses: C03 involution (EncryptProofs), the MAC command stream round trip
   (Mac.StreamProofs, the lead), the MIC wire-view invariance (RecoverLemmas),
   and ONE hypothesis left to C01 (Frame/*Proofs.v, the lead): the frame
   round trip phy_unmarshal (phy_marshal p) = wire_view p for spec_valid p. *)
From Coq Require Import List NArith ZArith Bool Lia Arith.
From Coq Require Import ZifyN ZifyNat ZifyBool.
From LW Require Import Base.Outcome Base.Bytes Crypto.AES Crypto.AESInv Crypto.CMAC
     Mac.Commands Mac.Spec Mac.Stream Mac.StreamProofs
     Frame.Model Frame.Spec Sec.MIC Sec.MICProofs Sec.Encrypt Sec.EncryptProofs Sec.EndToEnd
     Sec.FrameLemmas Sec.RecoverLemmas.
Import ListNotations.
Open Scope N_scope.
Ltac Zify.zify_post_hook ::= Z.div_mod_to_equations.

Definition keys_ok (k : keys) : Prop :=
  Forall byte (fnwksint k) /\ Forall byte (snwksint k) /\ Forall byte (nwksenc k) /\ Forall byte (appskey k).
Definition params_ok (prm : micparams) : Prop := txdr prm < 256 /\ txch prm < 256.

(* a data frame, all components explicit *)
Definition frame mt mj da c fc O port F x : phy :=
  mkPHY mt mj (PLMac (mkMAC (mkFHDR da c fc O) port F)) x.

Definition wire_fctrl (c : fctrl) (n : nat) : fctrl :=
  mkFCtrl (adr c) (adrackreq c) (ack c) (classb c || fpending c) (classb c || fpending c) (N.of_nat n).

(* what the two parties hold in the FRMPayload field *)
Definition frm_rel key up da fc port (F F3 : list item) (fb : list N) : Prop :=
  (F = [] /\ F3 = [] /\ fb = []) \/
  (exists d, F <> [] /\ frm_marshal port F = Ok d /\ Forall byte d /\
             encrypt_frm key up da fc d = Ok fb /\ F3 = [IData fb]).

Definition fopts_rel ver key up da fc (port : option N) (O O3 : list item) (ob : list N) : Prop :=
  (O = [] /\ O3 = [] /\ ob = []) \/
  (exists d, O <> [] /\ d <> [] /\ items_marshal O = Ok d /\ Forall byte d /\ (length d <= 15)%nat /\
             match ver with
             | LoRaWAN1_0 => O3 = O /\ ob = d
             | LoRaWAN1_1 => encrypt_fopts key (afcntdown up port) up da fc d = Ok ob /\ O3 = [IData ob]
             end).

Lemma wire_items_of its b : items_marshal its = Ok b ->
  wire_items its = match b with [] => [] | _ => [IData b] end.
Proof. intros H. unfold wire_items, items_bytes. rewrite H. destruct b; reflexivity. Qed.

Lemma id_ok_parts k bs : id_ok k bs = true -> length bs = k /\ Forall byte bs.
Proof.
  unfold id_ok. intros H. apply andb_true_iff in H as [H1 H2]. apply Nat.eqb_eq in H1.
  split; [exact H1|]. now apply bytes_ok_Forall.
Qed.

Lemma set_fcnt_wire full mt mj a m x :
  set_fcnt full (mkPHY mt mj (PLMac (wire_mac a m)) x) = mkPHY mt mj (PLMac (wire_mac full m)) x.
Proof. reflexivity. Qed.

Lemma wire_frame_eq mt mj da c fcn fcn0 O3 port F3 x :
  mkPHY mt mj (PLMac (wire_mac fcn (mkMAC (mkFHDR da c fcn0 O3) port F3))) x
  = frame mt mj da (wire_fctrl c (length (items_bytes O3))) fcn (wire_items O3) port (wire_items F3) x.
Proof. reflexivity. Qed.

Section Recover.
  Variable reg : registry.
  Hypothesis Hreg : reg_ok reg.

  (* ---- sender side ---- *)
  Lemma sender_frm key mt mj da c fc O port F x :
    Forall byte key -> Forall byte da ->
    (forall d, frm_marshal port F = Ok d -> Forall byte d) ->
    (exists d, frm_marshal port F = Ok d) ->
    exists F3 fb,
      phy_encrypt_frm key (frame mt mj da c fc O port F x) = Ok (frame mt mj da c fc O port F3 x) /\
      frm_rel key (is_uplink mt) da fc port F F3 fb /\ frm_marshal port F3 = Ok fb /\ Forall byte fb.
  Proof.
    intros Hk Hda Hbytes [d Hd]. unfold phy_encrypt_frm, frame. cbn [pl frm hdr fport devaddr fcnt mtype].
    destruct F as [|it F'].
    - exists [], []. split; [reflexivity|]. split; [left; auto|]. split; [reflexivity|constructor].
    - rewrite Hd. cbn [bind]. destruct (frm_never_fails key (is_uplink mt) da fc d) as [e He].
      rewrite He. cbn [bind]. exists [IData e], e. split; [reflexivity|].
      split; [right; exists d; repeat split; auto; discriminate|].
      split; [apply frm_marshal_single|].
      exact (encrypt_frm_bytes key (is_uplink mt) da fc d e Hk Hda (Hbytes d Hd) He).
  Qed.

  Lemma sender_fopts ver key mt mj da c fc O port F x d :
    Forall byte key -> Forall byte da ->
    items_marshal O = Ok d -> Forall byte d -> (length d <= 15)%nat -> (O = [] <-> d = []) ->
    exists O3 ob,
      match ver with
      | LoRaWAN1_1 => phy_encrypt_fopts key (frame mt mj da c fc O port F x)
      | LoRaWAN1_0 => Ok (frame mt mj da c fc O port F x)
      end = Ok (frame mt mj da c fc O3 port F x) /\
      fopts_rel ver key (is_uplink mt) da fc port O O3 ob /\ items_marshal O3 = Ok ob /\ Forall byte ob /\
      (length ob <= 15)%nat.
  Proof.
    intros Hk Hda Hd Hdb Hl Hnil. destruct O as [|it O'].
    - assert (d = []) by (now apply Hnil). subst d.
      exists [], []. split; [destruct ver; reflexivity|]. split; [left; auto|]. split; [reflexivity|]. split; [constructor|cbn; lia].
    - assert (Hdn : d <> []) by (intros E; apply Hnil in E; discriminate).
      destruct ver.
      + exists (it :: O'), d. split; [reflexivity|].
        split; [right; exists d; repeat split; auto; discriminate|]. auto.
      + unfold phy_encrypt_fopts, frame. cbn [pl fopts hdr fport devaddr fcnt mtype]. rewrite Hd. cbn [bind].
        destruct (proj2 (fopts_ok_iff key (afcntdown (is_uplink mt) port) (is_uplink mt) da fc d) Hl) as [e He].
        rewrite He. cbn [bind]. exists [IData e], e. split; [reflexivity|].
        split; [right; exists d; repeat split; auto; discriminate|].
        split; [apply items_marshal_single|].
        split; [exact (encrypt_fopts_bytes key _ _ da fc d e Hk Hda Hdb He)|].
        rewrite (fopts_length _ _ _ _ _ _ _ He). exact Hl.
  Qed.

  (* ---- receiver side ---- *)
  Lemma receiver_fopts ver key mt mj da c fc port O O3 ob FR x :
    forallb (cmd_sendable reg (is_uplink mt)) O = true ->
    fopts_rel ver key (is_uplink mt) da fc port O O3 ob -> items_marshal O3 = Ok ob ->
    match ver with
    | LoRaWAN1_1 => phy_decrypt_fopts reg key (frame mt mj da c fc (wire_items O3) port FR x)
    | LoRaWAN1_0 => phy_decode_fopts reg (frame mt mj da c fc (wire_items O3) port FR x)
    end = Ok (frame mt mj da c fc O port FR x).
  Proof.
    intros Hs Hrel Hob. rewrite (wire_items_of _ _ Hob).
    destruct Hrel as [(-> & -> & ->)|(d & Hne & Hdn & Hd & Hdb & Hl & Hver)].
    - destruct ver; reflexivity.
    - pose proof (sendable_decode reg (is_uplink mt) O d Hreg Hs Hd) as Hdec.
      destruct ver.
      + destruct Hver as [-> ->]. destruct d as [|d0 d']; [contradiction|].
        unfold phy_decode_fopts, frame. cbn [pl fopts hdr mtype decode_payloads]. rewrite Hdec. reflexivity.
      + destruct Hver as [He ->].
        assert (Hon : ob <> []).
        { intros E. subst ob. apply fopts_length in He. destruct d; [contradiction|discriminate]. }
        destruct ob as [|o0 ob']; [contradiction|].
        unfold phy_decrypt_fopts, phy_encrypt_fopts, frame. cbn [pl fopts hdr fport devaddr fcnt mtype].
        rewrite items_marshal_single. cbn [bind].
        rewrite (fopts_involution _ _ _ _ _ _ _ He). cbn [bind].
        unfold phy_decode_fopts, with_fopts. cbn [pl fopts hdr mtype decode_payloads devaddr Model.fc fcnt fport frm major mic].
        rewrite Hdec. reflexivity.
  Qed.

  Definition frm_expected (port : option N) (F : list item) : list item :=
    match port with Some 0 => F | _ => wire_items F end.

  Lemma receiver_frm key mt mj da c fc port O' F F3 fb x :
    match port with
    | Some 0 => forallb (cmd_sendable reg (is_uplink mt)) F = true
    | _ => True
    end ->
    frm_rel key (is_uplink mt) da fc port F F3 fb -> frm_marshal port F3 = Ok fb ->
    phy_decrypt_frm reg key (frame mt mj da c fc O' port (wire_items F3) x)
    = Ok (frame mt mj da c fc O' port (frm_expected port F) x).
  Proof.
    intros Hs Hrel Hfb. rewrite (wire_items_of _ _ (frm_marshal_items _ _ _ Hfb)).
    destruct Hrel as [(-> & -> & ->)|(d & Hne & Hd & Hdb & He & ->)].
    - unfold phy_decrypt_frm, phy_encrypt_frm, frame, frm_expected. cbn [pl frm bind fport].
      destruct port as [[|q]|]; reflexivity.
    - pose proof (frm_length _ _ _ _ _ _ He) as HL.
      pose proof (frm_marshal_items _ _ _ Hd) as Hdi.
      destruct fb as [|f0 fb'].
      + (* an FRMPayload of zero bytes: nothing arrives *)
        destruct d; [|discriminate].
        unfold phy_decrypt_frm, phy_encrypt_frm, frame, frm_expected. cbn [pl frm bind fport].
        destruct port as [[|q]|]; try (now rewrite (wire_items_of _ _ Hdi)).
        (* port 0: sendable commands marshal to at least one byte *)
        destruct (sendable_marshal reg (is_uplink mt) F Hreg Hs) as (b & Hb & _ & _ & Hnil).
        rewrite Hdi in Hb. injection Hb as <-. destruct F; [reflexivity|]. exfalso. apply Hne. now apply Hnil.
      + unfold phy_decrypt_frm, phy_encrypt_frm, frame. cbn [pl frm hdr fport devaddr fcnt mtype].
        rewrite frm_marshal_single. cbn [bind].
        rewrite (frm_involution _ _ _ _ _ _ He). cbn [bind with_frm pl fport frm mtype major mic hdr].
        unfold frm_expected. destruct port as [[|q]|].
        * unfold phy_decode_frm. cbn [pl frm mtype decode_payloads hdr fport major mic with_frm].
          rewrite (sendable_decode reg (is_uplink mt) F d Hreg Hs Hdi). reflexivity.
        * rewrite (wire_items_of _ _ Hdi). destruct d; [discriminate|reflexivity].
        * rewrite (wire_items_of _ _ Hdi). destruct d; [discriminate|reflexivity].
  Qed.

  (* ---- validity of the sender's frame, unpacked ---- *)
  Lemma valid_data_inv mt mj da c fcn O port F x :
    spec_valid_data reg (frame mt mj da c fcn O port F x) = true ->
    mj < 4 /\ id_ok 4 x = true /\ 2 <= mt /\ mt <= 5 /\
    length da = 4%nat /\ Forall byte da /\ fcn < 2 ^ 32 /\
    forallb cmd_valid O = true /\ (items_size O <= 15)%nat /\ forallb cmd_valid F = true /\
    forallb (cmd_sendable reg (is_uplink mt)) O = true /\
    match port with
    | None => F = []
    | Some 0 => O = [] /\ forallb (cmd_sendable reg (is_uplink mt)) F = true
    | Some q => q < 256 /\ existsb is_mac F = false
    end.
  Proof.
    unfold spec_valid_data, spec_valid, mac_valid, frame.
    cbn [pl major mic mtype hdr devaddr fcnt fopts frm fport].
    intros H.
    repeat match goal with X : _ && _ = true |- _ => apply andb_true_iff in X; destruct X end.
    match goal with X : id_ok 4 da = true |- _ => apply id_ok_parts in X as [Hd4 Hdb] end.
    split; [lia|]. split; [assumption|]. split; [lia|]. split; [lia|]. split; [exact Hd4|]. split; [exact Hdb|].
    split; [now apply N.ltb_lt|]. split; [assumption|]. split; [now apply Nat.leb_le|].
    split; [assumption|]. split; [assumption|].
    destruct port as [[|q]|].
    + match goal with X : _ && (0 <=? 0) = true |- _ => apply andb_true_iff in X as [X _]; apply Nat.eqb_eq in X; rename X into HO end.
      split; [now destruct O|assumption].
    + match goal with X : (N.pos q <? 256) && _ = true |- _ => apply andb_true_iff in X as [X1 X2] end.
      split; [lia|]. now apply negb_true_iff.
    + destruct F; [reflexivity|discriminate].
  Qed.

  Lemma mac_marshal_shape da c fcn O3 port F3 ob fb :
    items_marshal O3 = Ok ob -> (length ob <= 15)%nat -> frm_marshal port F3 = Ok fb ->
    (port = None -> F3 = []) -> (port = Some 0 -> O3 = []) ->
    exists b, mac_marshal (mkMAC (mkFHDR da c fcn O3) port F3) = Ok b.
  Proof.
    intros Ho Hl Hf Hn H0. unfold mac_marshal, fhdr_marshal. cbn [hdr fopts Model.fc devaddr fcnt fport frm].
    rewrite Ho. cbn [bind].
    replace (15 <? N.of_nat (length ob)) with false by lia.
    unfold fctrl_marshal. cbn [foptslen]. replace (15 <? N.of_nat (length ob)) with false by lia.
    cbn [bind]. destruct port as [q|].
    - destruct (negb (Nat.eqb (length O3) 0) && (q =? 0)) eqn:E.
      + apply andb_true_iff in E as [E1 E2]. apply N.eqb_eq in E2. subst q. rewrite (H0 eq_refl) in E1. discriminate.
      + rewrite Hf. cbn [bind]. eauto.
    - rewrite (Hn eq_refl). eauto.
  Qed.

  Lemma id_ok_intro n l : length l = n -> Forall byte l -> id_ok n l = true.
  Proof.
    intros H1 H2. unfold id_ok. apply andb_true_iff. split; [now apply Nat.eqb_eq|now apply bytes_ok_Forall].
  Qed.

  (* the frame the sender serialises is a valid frame again *)
  Lemma shape_valid mt mj da c fcn O3 port F3 x :
    mj < 4 -> 2 <= mt -> mt <= 5 -> length da = 4%nat -> Forall byte da -> fcn < 2 ^ 32 ->
    length x = 4%nat -> Forall byte x ->
    forallb cmd_valid O3 = true -> (items_size O3 <= 15)%nat ->
    forallb cmd_valid F3 = true ->
    match port with
    | None => F3 = []
    | Some 0 => O3 = []
    | Some q => q < 256 /\ existsb is_mac F3 = false
    end ->
    spec_valid (frame mt mj da c fcn O3 port F3 x) = true.
  Proof.
    intros Hmj Hmt2 Hmt5 Hd4 Hdb Hfc Hx4 Hxb HvO HszO HvF Hport.
    unfold spec_valid, mac_valid, frame. cbn [pl major mic mtype hdr devaddr fcnt fopts frm fport].
    rewrite (id_ok_intro 4 x Hx4 Hxb), (id_ok_intro 4 da Hd4 Hdb), HvO, HvF.
    rewrite (proj2 (N.ltb_lt mj 4) Hmj), (proj2 (N.leb_le 2 mt) Hmt2), (proj2 (N.leb_le mt 5) Hmt5).
    rewrite (proj2 (N.ltb_lt fcn (2 ^ 32)) Hfc), (proj2 (Nat.leb_le (items_size O3) 15) HszO).
    cbn [andb].
    destruct port as [[|q]|].
    + subst O3. reflexivity.
    + destruct Hport as [Hq Hm]. rewrite Hm. rewrite (proj2 (N.ltb_lt (N.pos q) 256) Hq). reflexivity.
    + subst F3. reflexivity.
  Qed.

  (* C01 (Frame/*Proofs.v, the lead): serialising and decoding a valid frame gives its wire view *)
  Hypothesis frame_roundtrip : forall p,
    spec_valid p = true -> exists bs, phy_marshal p = Ok bs /\ phy_unmarshal bs = Ok (wire_view p).

  Theorem recovers_frame ver k prm mt mj da c fcn O port F x0 :
    keys_ok k -> params_ok prm ->
    spec_valid_data reg (frame mt mj da c fcn O port F x0) = true ->
    exists bs,
      sender ver k prm (frame mt mj da c fcn O port F x0) = Ok bs /\
      receiver reg ver k prm fcn bs = Ok (commands_and_payload (frame mt mj da c fcn O port F x0)).
  Proof.
    intros (Kf & Ks & Ke & Ka) (Pdr & Pch) Hv.
    destruct (valid_data_inv _ _ _ _ _ _ _ _ _ Hv)
      as (Vmj & Vx0 & Vmt2 & Vmt5 & Vd4 & Vdb & Vfc & VvO & VszO & VvF & VsO & Vport).
    set (up := is_uplink mt) in *.
    set (fkey := match port with Some 0 => nwksenc k | _ => appskey k end).
    assert (Kfrm : Forall byte fkey) by (unfold fkey; destruct port as [[|q]|]; assumption).
    (* FRMPayload marshals to bytes *)
    assert (HF : exists d, frm_marshal port F = Ok d /\ Forall byte d).
    { destruct port as [[|q]|].
      - destruct Vport as [_ Hs]. destruct (sendable_marshal reg up F Hreg Hs) as (d & Hd & Hdb & _).
        exists d. now rewrite frm_marshal_port0.
      - destruct Vport as [_ Hm]. destruct (items_marshal_nomac_ok F Hm VvF) as (d & Hd & Hdb).
        exists d. now rewrite frm_marshal_nomac.
      - subst F. exists []. split; [reflexivity|constructor]. }
    destruct HF as (d1 & Hd1 & Hd1b).
    destruct (sender_frm fkey mt mj da c fcn O port F x0 Kfrm Vdb) as (F3 & fb & Hs1 & Rfrm & Hfb & Hfbb).
    { intros d Hd. rewrite Hd1 in Hd. now injection Hd as <-. }
    { eauto. }
    (* FOpts marshal to at most 15 bytes *)
    destruct (sendable_marshal reg up O Hreg VsO) as (d2 & Hd2 & Hd2b & Hd2l & Hd2n).
    destruct (sender_fopts ver (nwksenc k) mt mj da c fcn O port F3 x0 d2 Ke Vdb Hd2 Hd2b) as (O3 & ob & Hs2 & Rfo & Hob & Hobb & Hobl);
      [lia|exact Hd2n|].
    (* relations between the fields held by the sender's frame and the original ones *)
    assert (HF3 : forallb cmd_valid F3 = true /\ existsb is_mac F3 = false /\ (F = [] -> F3 = [])).
    { destruct Rfrm as [(-> & -> & ->)|(d & Hne & _ & _ & _ & ->)].
      - auto.
      - cbn [forallb cmd_valid existsb is_mac]. rewrite (proj2 (bytes_ok_Forall fb) Hfbb).
        split; [reflexivity|]. split; [reflexivity|]. intros E; contradiction. }
    destruct HF3 as (VvF3 & VmF3 & VnF3).
    assert (HO3 : forallb cmd_valid O3 = true /\ (items_size O3 <= 15)%nat /\ (O = [] -> O3 = [])).
    { destruct Rfo as [(-> & -> & ->)|(d & Hne & _ & _ & _ & _ & Hver)].
      - auto.
      - destruct ver.
        + destruct Hver as [-> ->]. split; [assumption|]. split; [assumption|]. intros E; contradiction.
        + destruct Hver as [_ ->]. cbn [forallb cmd_valid items_size]. rewrite (proj2 (bytes_ok_Forall ob) Hobb).
          split; [reflexivity|]. split; [lia|]. intros E; contradiction. }
    destruct HO3 as (VvO3 & VszO3 & VnO3).
    assert (Vport3 : match port with
                     | None => F3 = []
                     | Some 0 => O3 = []
                     | Some q => q < 256 /\ existsb is_mac F3 = false
                     end).
    { destruct port as [[|q]|].
      - destruct Vport as [HO _]. now apply VnO3.
      - destruct Vport as [Hq _]. now split.
      - now apply VnF3. }
    (* the MIC *)
    destruct (mac_marshal_shape da c fcn O3 port F3 ob fb Hob Hobl Hfb) as [b3 Hb3].
    { intros ->. exact Vport3. } { intros ->. exact Vport3. }
    set (m3 := mkMAC (mkFHDR da c fcn O3) port F3) in *.
    set (p2 := frame mt mj da c fcn O3 port F3 x0).
    assert (Hmsg : mic_bytes p2 m3 = Ok (mhdr_marshal mt mj :: b3)).
    { unfold mic_bytes. rewrite Hb3. reflexivity. }
    assert (Hmsgb : Forall byte (mhdr_marshal mt mj :: b3)).
    { constructor; [apply mhdr_byte|].
      apply (mac_marshal_bytes m3 b3 ob Hb3); cbn [m3 hdr devaddr fopts fport frm]; auto.
      - intros q Hq. subst port. destruct q; [lia|exact (proj1 Vport3)].
      - intros fb' Hfb'. rewrite (frm_marshal_items _ _ _ Hfb) in Hfb'. now injection Hfb' as <-. }
    assert (HMIC : exists x, length x = 4%nat /\ Forall byte x /\
                     set_data_mic ver up k prm p2 = Ok (frame mt mj da c fcn O3 port F3 x) /\
                     validate_data_mic ver up k prm
                       (mkPHY mt mj (PLMac (wire_mac fcn m3)) x) = Ok true).
    { unfold set_data_mic, validate_data_mic. destruct up.
      - unfold set_up_mic, validate_up_mic.
        destruct (calc_up_mic ver (conf prm) (txdr prm) (txch prm) (fnwksint k) (snwksint k) p2) as [x| | |] eqn:Ec.
        2-4: (unfold calc_up_mic in Ec; cbn [p2 frame pl] in Ec; fold m3 in Ec; fold p2 in Ec; rewrite Hmsg in Ec;
              cbn [bind] in Ec; destruct ver; discriminate).
        destruct (calc_up_mic_bytes _ _ _ _ _ _ p2 m3 _ x eq_refl Hmsg Ec Kf Ks Hmsgb Vdb Pdr Pch) as [Hx4 Hxb].
        exists x. split; [exact Hx4|]. split; [exact Hxb|]. split; [reflexivity|].
        pose proof (calc_up_mic_wire _ _ _ _ _ _ p2 m3 x x eq_refl Ec) as Hw.
        cbn [p2 frame mtype major m3 hdr fcnt] in Hw. fold m3 in Hw. rewrite Hw. cbn [bind mic].
        f_equal. now apply bytes_eqb_eq.
      - unfold set_down_mic, validate_down_mic.
        destruct (calc_down_mic ver (conf prm) (snwksint k) p2) as [x| | |] eqn:Ec.
        2-4: (unfold calc_down_mic in Ec; cbn [p2 frame pl] in Ec; fold m3 in Ec; fold p2 in Ec; rewrite Hmsg in Ec;
              cbn [bind] in Ec; discriminate).
        destruct (calc_down_mic_bytes _ _ _ p2 m3 _ x eq_refl Hmsg Ec Ks Hmsgb Vdb) as [Hx4 Hxb].
        exists x. split; [exact Hx4|]. split; [exact Hxb|]. split; [reflexivity|].
        pose proof (calc_down_mic_wire _ _ _ p2 m3 x x eq_refl Ec) as Hw.
        cbn [p2 frame mtype major m3 hdr fcnt] in Hw. fold m3 in Hw. rewrite Hw. cbn [bind mic].
        f_equal. now apply bytes_eqb_eq. }
    destruct HMIC as (x & Hx4 & Hxb & Hset & Hval).
    set (p3 := frame mt mj da c fcn O3 port F3 x) in *.
    (* serialisation and the receiver's decoding *)
    assert (Hvalid3 : spec_valid p3 = true).
    { apply (shape_valid mt mj da c fcn O3 port F3 x); auto. }
    destruct (frame_roundtrip p3 Hvalid3) as (bs & Hmar & Hunm).
    exists bs. split.
    - unfold sender, sender_frame. cbn [frame pl fport mtype]. fold fkey. fold (frame mt mj da c fcn O port F x0).
      change (frm_key k (frame mt mj da c fcn O port F x0)) with fkey.
      rewrite Hs1. cbn [bind]. rewrite Hs2. cbn [bind]. fold up. fold p2. rewrite Hset. cbn [bind]. exact Hmar.
    - unfold receiver, receiver_frame. rewrite Hunm. cbn [bind].
      rewrite (wire_view_mac p3 m3 eq_refl), set_fcnt_wire.
      cbn [p3 frame mtype major mic]. fold up.
      rewrite Hval. cbn [bind negb]. unfold m3. rewrite wire_frame_eq.
      rewrite (receiver_fopts ver (nwksenc k) mt mj da _ fcn port O O3 ob (wire_items F3) x VsO Rfo Hob). cbn [bind].
      change (frm_key k (frame mt mj da (wire_fctrl c (length (items_bytes O3))) fcn O port (wire_items F3) x)) with fkey.
      rewrite (receiver_frm fkey mt mj da _ fcn port O F F3 fb x).
      + cbn [bind]. unfold content_of_frame, commands_and_payload, frm_expected, frame. cbn [pl hdr fopts fport frm].
        destruct port as [[|q]|]; reflexivity.
      + destruct port as [[|q]|]; try exact I. exact (proj2 Vport).
      + exact Rfrm.
      + exact Hfb.
  Qed.
End Recover.

(* the same for a frame value given as a whole *)
Theorem recovers reg :
  reg_ok reg ->
  (forall p, spec_valid p = true -> exists bs, phy_marshal p = Ok bs /\ phy_unmarshal bs = Ok (wire_view p)) ->
  forall ver k prm f m,
    keys_ok k -> params_ok prm -> spec_valid_data reg f = true -> pl f = PLMac m ->
    exists bs, sender ver k prm f = Ok bs /\
               receiver reg ver k prm (fcnt (hdr m)) bs = Ok (commands_and_payload f).
Proof.
  intros Hreg Hrt ver k prm f m Hk Hp Hv Hpl.
  destruct f as [mt mj p x]. cbn [pl] in Hpl. subst p. destruct m as [[da c fcn O] port F].
  exact (recovers_frame reg Hreg Hrt ver k prm mt mj da c fcn O port F x Hk Hp Hv).
Qed.
