(* The deprecated band names: band.GetConfig(AS_923 | AU_915_928 | ... , repeater, dwell) returns
   the very configuration of the common name (Regional.deprecated_names), for C12 and C13.
   [band_alias_configs] = the dumped objects obtained through the deprecated names. *)
From Coq Require Import List ZArith Bool String Lia.
From LW Require Import Base.Outcome Band.Types Band.Lookup Band.Regional Band.Rx1Spec Band.TablesSpec
     Band.Rx1Checks Band.Rx1BaseProofs Band.TablesChecks Band.TablesProofs.
From LWGen Require Import BandGen.
Import ListNotations.
Open Scope Z_scope.

(* ---- soundness of the decidable equalities ------------------------------------------------ *)

Lemma list_eqb_sound {A} (e : A -> A -> bool) : (forall a b, e a b = true -> a = b) ->
  forall l1 l2, list_eqb e l1 l2 = true -> l1 = l2.
Proof.
  intros He. induction l1 as [|a l1 IH]; intros [|b l2]; cbn; try discriminate; auto.
  rewrite andb_true_iff. intros [H1 H2]. f_equal; auto.
Qed.

Lemma pair_eqb_zz_eq a b : pair_eqb_zz a b = true -> a = b.
Proof.
  destruct a, b. unfold pair_eqb_zz. cbn. rewrite andb_true_iff, !Z.eqb_eq. intros [? ?]. now subst.
Qed.

Lemma keyed_z_sound {A} (e : A -> A -> bool) : (forall a b, e a b = true -> a = b) ->
  forall x y : Z * A, (fst x =? fst y) && e (snd x) (snd y) = true -> x = y.
Proof.
  intros He [k a] [k' b]. cbn. rewrite andb_true_iff, Z.eqb_eq. intros [-> H]. f_equal. now apply He.
Qed.

Lemma keyed_s_sound {A} (e : A -> A -> bool) : (forall a b, e a b = true -> a = b) ->
  forall x y : string * A, String.eqb (fst x) (fst y) && e (snd x) (snd y) = true -> x = y.
Proof.
  intros He [k a] [k' b]. cbn. rewrite andb_true_iff, String.eqb_eq. intros [-> H]. f_equal. now apply He.
Qed.

Lemma size_table_eqb_eq a b : size_table_eqb a b = true -> a = b.
Proof. apply list_eqb_sound. apply keyed_z_sound. apply pair_eqb_zz_eq. Qed.

Lemma maxpl_eqb_eq a b : maxpl_eqb a b = true -> a = b.
Proof.
  apply list_eqb_sound. apply (keyed_s_sound (fun u v => list_eqb _ u v)).
  apply list_eqb_sound. apply keyed_s_sound. apply size_table_eqb_eq.
Qed.

Lemma channel_eqb_eq a b : channel_eqb a b = true -> a = b.
Proof.
  destruct a as [a1 a2 a3 a4 a5], b as [b1 b2 b3 b4 b5]. unfold channel_eqb. cbn. rewrite !andb_true_iff, !Z.eqb_eq.
  intros [[[[? ?] ?] E] C]. apply Bool.eqb_prop in E. apply Bool.eqb_prop in C. now subst.
Qed.

Lemma kind_eqb_eq a b : kind_eqb a b = true -> a = b.
Proof. destruct a, b; cbn; congruence. Qed.

Lemma z_eqb_sound a b : (a =? b) = true -> a = b.
Proof. apply Z.eqb_eq. Qed.

Lemma tables_eqb_eq a b : tables_eqb a b = true -> a = b.
Proof.
  destruct a as [a1 a2 a3 a4 a5 a6 a7 a8 a9], b as [b1 b2 b3 b4 b5 b6 b7 b8 b9]. unfold tables_eqb.
  cbn [t_extra t_cfmin t_cfmax t_drs t_maxpl t_rx1 t_up t_down t_txpow].
  rewrite !andb_true_iff, !Z.eqb_eq. intros [[[[[[[[E ?] ?] D] M] R] U] Dn] T].
  apply Bool.eqb_prop in E.
  apply (list_eqb_sound _ (keyed_z_sound _ data_rate_eqb_eq)) in D.
  apply maxpl_eqb_eq in M.
  apply (list_eqb_sound _ (keyed_z_sound (list_eqb Z.eqb) (list_eqb_sound _ z_eqb_sound))) in R.
  apply (list_eqb_sound _ channel_eqb_eq) in U. apply (list_eqb_sound _ channel_eqb_eq) in Dn.
  apply (list_eqb_sound _ z_eqb_sound) in T. now subst.
Qed.

Lemma cfg_body_eqb_eq a b : cfg_body_eqb a b = true -> a = with_name b (c_name a).
Proof.
  destruct a as [a1 a2 a3 a4 a5 a6 a7 a8 a9], b as [b1 b2 b3 b4 b5 b6 b7 b8 b9]. unfold cfg_body_eqb, with_name.
  cbn [c_name c_rep c_dwell c_kind c_dwell400 c_freq_off c_bname c_defaults c_tab].
  rewrite !andb_true_iff, Z.eqb_eq, String.eqb_eq. intros [[[[[[[R Dw] K] D4] ?] ?] Df] T].
  apply Bool.eqb_prop in R. apply Bool.eqb_prop in Dw. apply Bool.eqb_prop in D4.
  apply kind_eqb_eq in K. apply defaults_eqb_eq in Df. apply tables_eqb_eq in T. now subst.
Qed.

(* ---- the theorem ---------------------------------------------------------------------------- *)

Lemma alias_check_ok : alias_check = true.
Proof. vm_compute. reflexivity. Qed.

(* every object obtained through a deprecated name is the configuration of its common name *)
Lemma deprecated_name_same_band ac : In ac band_alias_configs ->
  exists common c, In (c_name ac, common) deprecated_names /\ In c band_configs /\ c_name c = common
                   /\ c_rep c = c_rep ac /\ c_dwell c = c_dwell ac /\ ac = with_name c (c_name ac).
Proof.
  intros Hin. pose proof alias_check_ok as H. unfold alias_check in H.
  apply andb_true_iff in H as [H _]. rewrite forallb_forall in H. specialize (H ac Hin).
  unfold alias_cfg_check in H. apply andb_true_iff in H as [Hd Hp].
  unfold is_deprecated in Hd. destruct (assoc_string (c_name ac) deprecated_names) as [common|] eqn:A; [|discriminate].
  destruct (alias_partner ac) as [c|] eqn:P; [|discriminate].
  unfold alias_partner in P. apply find_some in P as [Hc E]. apply andb_true_iff in E as [En Eb].
  apply String.eqb_eq in En. unfold common_name in En. rewrite A in En.
  pose proof (cfg_body_eqb_eq _ _ Eb) as Heq.
  exists common, c. repeat split; auto.
  - clear -A. induction deprecated_names as [|[k v] m IH]; [discriminate|].
    cbn [assoc_string] in A. destruct (String.eqb_spec (c_name ac) k) as [->|_].
    + injection A as ->. now left.
    + right. now apply IH.
  - rewrite Heq. reflexivity.
  - rewrite Heq. reflexivity.
Qed.

(* ... and every deprecated name x repeater x dwell time is among the dumped objects *)
Lemma deprecated_names_covered name common rep dw : In (name, common) deprecated_names ->
  exists ac, In ac band_alias_configs /\ c_name ac = name /\ c_rep ac = rep /\ c_dwell ac = dw.
Proof.
  intros Hin. pose proof alias_check_ok as H. unfold alias_check in H.
  apply andb_true_iff in H as [_ H]. unfold alias_cover_check in H.
  rewrite forallb_forall in H. specialize (H _ Hin). cbn [fst] in H.
  rewrite forallb_forall in H.
  assert (Hb : forall b : bool, In b [false; true]) by (intros []; cbn; auto).
  specialize (H rep (Hb rep)). rewrite forallb_forall in H. specialize (H dw (Hb dw)).
  unfold alias_cover_cell in H. apply existsb_exists in H as [ac [Hac E]].
  rewrite !andb_true_iff in E. destruct E as [[En Er] Ed].
  apply String.eqb_eq in En. apply Bool.eqb_prop in Er. apply Bool.eqb_prop in Ed.
  exists ac. auto.
Qed.
