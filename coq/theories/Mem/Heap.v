(* C10 (M1): an explicit buffer heap for Go byte slices.

   A heap is a list of buffers (backing arrays); a slice is a window
   {buffer id; offset; len; cap} into one of them, [cap] counted from the
   offset as in Go.  Operations mirror the Go built-ins, with the run-time
   panics as [Panic]:

     sl_sub s a b      s[a:b]            0 <= a <= b <= cap(s)      (b may exceed len)
     sl_rd s i         s[i]              0 <= i < len(s)
     sl_wr s i v       s[i] = v
     sl_app g s vs     append(s, vs...)  in place iff len + k <= cap, otherwise a
                                      fresh buffer of capacity len + k + g (len + k);
                                      the growth function [g] is left abstract
                                      (every theorem quantifies over it)
     sl_cpy dst src    copy(dst, src)    min(len dst, len src) bytes, memmove semantics
     sl_mk n c         make([]byte, n, c)
     sl_lit bs         []byte{...}       fresh buffer, cap = len

   Computations are state transformers [M A := heap -> heap * outcome A]: the
   heap is returned on every outcome, so that "an error path did not write"
   can be stated.  No proofs in this file. *)
From Coq Require Import List NArith ZArith Bool Arith.
From LW Require Import Base.Outcome.
Import ListNotations.

Definition heap := list (list N).

Record slice := mkSlice { sbuf : nat; soff : nat; slen : nat; scap : nat }.

(* Go's nil slice: no capacity, so it can neither be read nor written, and any
   non-empty append allocates *)
Definition nil_slice : slice := mkSlice 0 0 0 0.

Definition buffer (h : heap) (b : nat) : list N := nth b h [].

Definition bytes_of (h : heap) (s : slice) : list N :=
  firstn (slen s) (skipn (soff s) (buffer h (sbuf s))).

Fixpoint upd {A} (l : list A) (i : nat) (v : A) : list A :=
  match l, i with
  | [], _ => []
  | _ :: l', O => v :: l'
  | x :: l', S i' => x :: upd l' i' v
  end.

Definition set_byte (h : heap) (b i : nat) (v : N) : heap :=
  upd h b (upd (buffer h b) i v).

Fixpoint set_bytes (h : heap) (b i : nat) (vs : list N) : heap :=
  match vs with
  | [] => h
  | v :: vs' => set_bytes (set_byte h b i v) b (S i) vs'
  end.

Definition slice_eqb (s t : slice) : bool :=
  Nat.eqb (sbuf s) (sbuf t) && Nat.eqb (soff s) (soff t) && Nat.eqb (slen s) (slen t) && Nat.eqb (scap s) (scap t).

(* ---- the state monad ---- *)
Definition M (A : Type) := heap -> heap * outcome A.

Definition retM {A} (a : A) : M A := fun h => (h, Ok a).
Definition failM {A} : M A := fun h => (h, Err).
Definition panicM {A} : M A := fun h => (h, Panic).
Definition liftM {A} (o : outcome A) : M A := fun h => (h, o).

Definition bindM {A B} (m : M A) (f : A -> M B) : M B :=
  fun h => match m h with
           | (h', Ok a) => f a h'
           | (h', Err) => (h', Err)
           | (h', Panic) => (h', Panic)
           | (h', OutOfFuel) => (h', OutOfFuel)
           end.

Notation "'doM' x <- e ; k" := (bindM e (fun x => k))
  (at level 200, x pattern, e at level 100, k at level 200, right associativity).
Notation "'seqM' e ; k" := (bindM e (fun _ => k))
  (at level 200, e at level 100, k at level 200, right associativity).

(* ---- slice expressions ---- *)
Definition sl_sub (s : slice) (a b : Z) : outcome slice :=
  if (0 <=? a)%Z && (a <=? b)%Z && (b <=? Z.of_nat (scap s))%Z
  then Ok (mkSlice (sbuf s) (soff s + Z.to_nat a) (Z.to_nat b - Z.to_nat a) (scap s - Z.to_nat a))
  else Panic.

Definition sl_subM (s : slice) (a b : Z) : M slice := liftM (sl_sub s a b).

Definition zlen (s : slice) : Z := Z.of_nat (slen s).

(* ---- element access ---- *)
Definition sl_rd (s : slice) (i : Z) : M N :=
  fun h => if (0 <=? i)%Z && (i <? zlen s)%Z
           then (h, Ok (nth (soff s + Z.to_nat i) (buffer h (sbuf s)) 0%N))
           else (h, Panic).

Definition sl_wr (s : slice) (i : Z) (v : N) : M unit :=
  fun h => if (0 <=? i)%Z && (i <? zlen s)%Z
           then (set_byte h (sbuf s) (soff s + Z.to_nat i) v, Ok tt)
           else (h, Panic).

(* the whole contents of a slice, for handing to a pure function (AES, CMAC, a value decoder) *)
Definition loadM (s : slice) : M (list N) := fun h => (h, Ok (bytes_of h s)).

(* ---- allocation ---- *)
Definition sl_mk (n c : nat) : M slice :=
  fun h => if (n <=? c)%nat
           then (h ++ [repeat 0%N c], Ok (mkSlice (length h) 0 n c))
           else (h, Panic).

Definition sl_lit (bs : list N) : M slice :=
  fun h => (h ++ [bs], Ok (mkSlice (length h) 0 (length bs) (length bs))).

(* ---- append / copy ---- *)
Definition sl_app (g : nat -> nat) (s : slice) (vs : list N) : M slice :=
  fun h =>
    let k := length vs in
    if (slen s + k <=? scap s)%nat
    then (set_bytes h (sbuf s) (soff s + slen s) vs,
          Ok (mkSlice (sbuf s) (soff s) (slen s + k) (scap s)))
    else let n := (slen s + k)%nat in
         (h ++ [bytes_of h s ++ vs ++ repeat 0%N (g n)],
          Ok (mkSlice (length h) 0 n (n + g n))).

(* append(dst, src...) *)
Definition sl_app_sl (g : nat -> nat) (dst src : slice) : M slice :=
  fun h => sl_app g dst (bytes_of h src) h.

Definition sl_cpy (dst src : slice) : M nat :=
  fun h => let bs := firstn (slen dst) (bytes_of h src) in
           (set_bytes h (sbuf dst) (soff dst) bs, Ok (length bs)).

(* copy(dst, bs) from a Go array / value (e.g. p.MIC[:]) *)
Definition sl_cpy_bytes (dst : slice) (bs : list N) : M nat :=
  fun h => let bs' := firstn (slen dst) bs in
           (set_bytes h (sbuf dst) (soff dst) bs', Ok (length bs')).

(* ---- well-formedness (used by the theorems, and evaluated on the harness inputs) ---- *)
Definition wf_sliceb (h : heap) (s : slice) : bool :=
  (sbuf s <? length h)%nat && (soff s + scap s <=? length (buffer h (sbuf s)))%nat && (slen s <=? scap s)%nat.

(* overwrite a whole buffer with a value (the caller scribbling over memory it owns) *)
Definition scribble (h : heap) (b : nat) (v : N) : heap :=
  upd h b (map (fun _ => v) (buffer h b)).
