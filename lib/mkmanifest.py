#!/usr/bin/env python3
"""Regenerates MANIFEST.json from lib/props.py and lib/manifest_text.py."""
import json, os, sys
ROOT = os.path.dirname(os.path.dirname(os.path.abspath(__file__)))
sys.path.insert(0, os.path.join(ROOT, "lib"))
import props as P
import manifest_text as T

checks = []
for pid in sorted(P.PROPS):
    t = T.TEXT[pid]
    checks.append({
        "property_id": pid,
        "quick_cmd": "./check %s --tier quick" % pid,
        "thorough_cmd": "./check %s --tier thorough" % pid,
        "evidence_file": "/verif/evidence/%s.json" % pid,
        "replay_cmd_template": "./check %s --replay {path}" % pid,
        "engine": "coq-proof+correspondence",
        "level_claimed": {"category": "proof", "text": t["text"], "design_ref": t.get("design_ref", "DESIGN.md §5 " + pid)},
        "level_note": t["note"],
        "technique": t["technique"],
    })
claimed = set(P.PROPS)
na = [{"property_id": pid, "reason": r} for pid, r in sorted(T.NOT_APPLICABLE.items()) if pid not in claimed]
m = {
    "version": 1,
    "setup_cmd": "./check --setup",
    "hooks": {"guard": "verif", "enable": "go build -tags verif (harness module with replace github.com/brocaar/lorawan => /repo)",
              "baseline_off_cmd": T.BASELINE_OFF, "source_commits": T.HOOK_COMMITS, "add_only": True},
    "engines": [{"name": "coq-proof+correspondence", "path": "/verif/check", "serves_properties": sorted(claimed),
                 "kind_free_text": "Coq 8.16.1 theorems over hand-written Gallina models (coq/theories, coq/props) + tables dumped from the live code (coq/gen) + Go differential harness whose cases are evaluated inside Coq with vm_compute"}],
    "checks": checks,
    "notes": T.NOTES,
    "not_applicable": na,
}
json.dump(m, open(os.path.join(ROOT, "MANIFEST.json"), "w"), indent=1)
print("MANIFEST.json: %d checks, %d not_applicable" % (len(checks), len(na)))
