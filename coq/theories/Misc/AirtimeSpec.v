(* LoRa time on air as Semtech defines it, over exact rationals.

   Sources (transcribed from memory, no network): AN1200.13 "LoRa Modem
   Designer's Guide" section 4 / SX1272/76 data sheets for SF7..12, and the
   SX1261/2 data sheet section 6.1.4 "LoRa Time-on-Air" (same in SX1280/1 and
   LR11xx; reference driver LoRaMac-node RadioGetLoRaTimeOnAirNumerator) which
   is the only definition for SF5 and SF6:

     T_sym = 2^SF / BW
     SF5, SF6 : N_sym = N_pre + 6.25 + 8 + ceil( max(8 PL + 16 CRC - 4 SF     + N_hdr, 0) / (4 SF) )          * (CR + 4)
     SF7..12  : N_sym = N_pre + 4.25 + 8 + ceil( max(8 PL + 16 CRC - 4 SF + 8 + N_hdr, 0) / (4 (SF - 2 DE)) ) * (CR + 4)
     ToA = N_sym * T_sym

   PL payload bytes, N_hdr = 20 with the explicit header and 0 without, DE = 1
   with low-data-rate optimisation (no such variant for SF5/SF6), CR = 1..4,
   CRC = 1 (payload CRC present; the implementation has no parameter for it).
   For SF7..12 this is AN1200.13's  8 + max(ceil((8PL - 4SF + 28 + 16CRC - 20IH) / (4(SF-2DE))) (CR+4), 0).
   BW is given in kHz, times are in nanoseconds: T_sym = 2^SF * 10^6 / BW_kHz. *)
From Coq Require Import ZArith QArith Qround Bool.
Open Scope Q_scope.

Definition zq (z : Z) : Q := inject_Z z.
Definition bq (b : bool) : Q := if b then 1 else 0.

Definition spec_tsym (sf bw : Z) : Q := zq (2 ^ sf) * 1000000 / zq bw.

(* SF5 and SF6 are the spreading factors of the SX126x/SX128x generation only *)
Definition low_sf (sf : Z) : bool := (sf <=? 6)%Z.

Definition spec_numerator (pl sf : Z) (header : bool) : Q :=
  8 * zq pl + 16 * 1 - 4 * zq sf + (if low_sf sf then 0 else 8) + (if header then 20 else 0).

Definition spec_denominator (sf : Z) (ldro : bool) : Q :=
  if low_sf sf then 4 * zq sf else 4 * (zq sf - 2 * bq ldro).

(* max(x, 0) *)
Definition qmax0 (x : Q) : Q := if Qle_bool 0 x then x else 0.

(* number of payload symbols, the 8 included *)
Definition spec_npayload (pl sf cr : Z) (header ldro : bool) : Z :=
  (8 + Qceiling (qmax0 (spec_numerator pl sf header) / spec_denominator sf ldro) * (cr + 4))%Z.

Definition spec_preamble_symbols (sf pre : Z) : Q := zq pre + (if low_sf sf then 6.25 else 4.25).

(* total number of symbols *)
Definition spec_total_symbols (pl sf pre cr : Z) (header ldro : bool) : Q :=
  spec_preamble_symbols sf pre + zq (spec_npayload pl sf cr header ldro).

Definition spec_airtime (pl sf bw pre cr : Z) (header ldro : bool) : Q :=
  spec_total_symbols pl sf pre cr header ldro * spec_tsym sf bw.
