(* C06, decode direction: for every payload kind and every byte string the
   decoder returns exactly what the table-driven specification prescribes
   (value of the right length, RFU bits ignored; any other length refused). *)
From Coq Require Import List NArith ZArith Bool Lia.
From Coq Require Import ZifyN ZifyNat ZifyBool.
From LW Require Import Base.Outcome Base.Bytes Base.Bits Mac.Commands Mac.Spec Mac.ByteLemmas Mac.EqLemmas Mac.PackProofs.
Import ListNotations.
Open Scope N_scope.
Ltac Zify.zify_post_hook ::= Z.div_mod_to_equations.

Definition dec_spec (k : kind) (bs : list N) : outcome macpl :=
  if Nat.eqb (length bs) (byte_size (layout_of k))
  then Ok (value_of k (spec_decode_k k bs)) else Err.

Definition peqb := outcome_eqb macpl_eqb.

Definition kinds1 : list kind :=
  [KLinkADRAns; KDutyCycleReq; KRXParamSetupAns; KNewChannelAns; KRXTimingSetupReq; KTXParamSetupReq;
   KDLChannelAns; KPingSlotInfoReq; KBeaconFreqAns; KPingSlotChannelAns; KResetInd; KResetConf;
   KRekeyInd; KRekeyConf; KADRParamSetupReq; KRejoinParamSetupReq; KRejoinParamSetupAns;
   KDeviceModeInd; KDeviceModeConf].
Definition kinds2 : list kind := [KLinkCheckAns; KDevStatusAns; KForceRejoinReq].

(* all 256 byte values x 19 one-byte kinds *)
Lemma sweep_kinds1 :
  forallb (fun k => forallb (fun b => peqb (dec k [b]) (dec_spec k [b])) (range 256)) kinds1 = true.
Proof. vm_compute. reflexivity. Qed.

(* all 65,536 two-byte strings x 3 two-byte kinds *)
Lemma sweep_kinds2 :
  forallb (fun k => forallb (fun a => forallb (fun b => peqb (dec k [a; b]) (dec_spec k [a; b])) (range 256)) (range 256)) kinds2 = true.
Proof. vm_compute. reflexivity. Qed.

Lemma dec1 k b : In k kinds1 -> b < 256 -> dec k [b] = dec_spec k [b].
Proof.
  intros Hk Hb. apply peqb_eq.
  pose proof sweep_kinds1 as S. rewrite forallb_forall in S. specialize (S k Hk).
  exact (sweep1 256 _ S b Hb).
Qed.

Lemma dec2 k a b : In k kinds2 -> a < 256 -> b < 256 -> dec k [a; b] = dec_spec k [a; b].
Proof.
  intros Hk Ha Hb. apply peqb_eq.
  pose proof sweep_kinds2 as S. rewrite forallb_forall in S. specialize (S k Hk).
  exact (sweep2 256 256 _ S a b Ha Hb).
Qed.

Ltac inv_forall :=
  repeat match goal with
  | H : Forall _ (_ :: _) |- _ => inversion H; clear H; subst
  | H : Forall _ [] |- _ => clear H
  end.

(* wrong lengths: every decoder starts with the length test *)
Lemma dec_wrong_len k bs : k <> KProprietary ->
  Nat.eqb (length bs) (byte_size (layout_of k)) = false -> dec k bs = Err.
Proof.
  intros Hk H. destruct k; try congruence; unfold dec;
    change (byte_size (layout_of _)) with 1%nat in H ||
    change (byte_size (layout_of _)) with 2%nat in H ||
    change (byte_size (layout_of _)) with 3%nat in H ||
    change (byte_size (layout_of _)) with 4%nat in H ||
    change (byte_size (layout_of _)) with 5%nat in H;
    rewrite H; reflexivity.
Qed.

Local Ltac pows :=
  repeat match goal with
  | |- context [2 ^ ?k] => let r := eval vm_compute in (2 ^ k) in change (2 ^ k) with r
  end.

Lemma f2b_div b i : b < 256 -> i < 8 -> negb (N.land b (2 ^ i) =? 0) = f2b ((b / 2 ^ i) mod 2).
Proof. intros. unfold f2b. now apply land_bit. Qed.

Lemma dec_beaconfreq b0 b1 b2 : b0 < 256 -> b1 < 256 -> b2 < 256 ->
  dec KBeaconFreqReq [b0; b1; b2] = dec_spec KBeaconFreqReq [b0; b1; b2].
Proof.
  intros H0 H1 H2. unfold dec, dec_spec. rewrite spec_decode_k_plain by reflexivity. change (byte_size (layout_of _)) with 3%nat. cbn [length Nat.eqb layout_of].
  unfold spec_decode. cbn [unpack value_of g nth le_val]. pows. do 2 f_equal. lia.
Qed.

Lemma dec_dlchannel b0 b1 b2 b3 : b0 < 256 -> b1 < 256 -> b2 < 256 -> b3 < 256 ->
  dec KDLChannelReq [b0; b1; b2; b3] = dec_spec KDLChannelReq [b0; b1; b2; b3].
Proof.
  intros H0 H1 H2 H3. unfold dec, dec_spec. rewrite spec_decode_k_plain by reflexivity. change (byte_size (layout_of _)) with 4%nat. cbn [length Nat.eqb layout_of].
  unfold spec_decode, nth0. cbn [unpack value_of g nth le_val skipn]. pows. f_equal. f_equal; lia.
Qed.

Lemma dec_pingslotchannel b0 b1 b2 b3 : b0 < 256 -> b1 < 256 -> b2 < 256 -> b3 < 256 ->
  dec KPingSlotChannelReq [b0; b1; b2; b3] = dec_spec KPingSlotChannelReq [b0; b1; b2; b3].
Proof.
  intros H0 H1 H2 H3. unfold dec, dec_spec. rewrite spec_decode_k_plain by reflexivity. change (byte_size (layout_of _)) with 4%nat. cbn [length Nat.eqb layout_of].
  unfold spec_decode, nth0. cbn [unpack value_of g nth le_val firstn]. rewrite land15 by assumption.
  pows. f_equal. f_equal; lia.
Qed.

Lemma dec_devicetime b0 b1 b2 b3 b4 : b0 < 256 -> b1 < 256 -> b2 < 256 -> b3 < 256 -> b4 < 256 ->
  dec KDeviceTimeAns [b0; b1; b2; b3; b4] = dec_spec KDeviceTimeAns [b0; b1; b2; b3; b4].
Proof.
  intros H0 H1 H2 H3 H4. unfold dec, dec_spec. rewrite spec_decode_k_plain by reflexivity. change (byte_size (layout_of _)) with 5%nat. cbn [length Nat.eqb layout_of].
  unfold spec_decode, nth0, second. cbn [unpack value_of g nth le_val firstn]. pows. do 2 f_equal.
  f_equal; [|f_equal; lia]. rewrite Z.mul_comm. f_equal. f_equal. lia.
Qed.

Lemma dec_rxparamsetup b0 b1 b2 b3 : b0 < 256 -> b1 < 256 -> b2 < 256 -> b3 < 256 ->
  dec KRXParamSetupReq [b0; b1; b2; b3] = dec_spec KRXParamSetupReq [b0; b1; b2; b3].
Proof.
  intros H0 H1 H2 H3. unfold dec, dec_spec, dec_dlsettings. rewrite spec_decode_k_plain by reflexivity. change (byte_size (layout_of _)) with 4%nat. cbn [length Nat.eqb layout_of].
  unfold spec_decode, nth0. cbn [unpack value_of g nth le_val firstn skipn].
  rewrite land15, bits_6_4 by assumption. change 128 with (2 ^ 7). rewrite f2b_div by (assumption || lia).
  pows. f_equal. f_equal; [lia | f_equal; lia | lia | lia].
Qed.

Lemma dec_newchannel b0 b1 b2 b3 b4 : b0 < 256 -> b1 < 256 -> b2 < 256 -> b3 < 256 -> b4 < 256 ->
  dec KNewChannelReq [b0; b1; b2; b3; b4] = dec_spec KNewChannelReq [b0; b1; b2; b3; b4].
Proof.
  intros H0 H1 H2 H3 H4. unfold dec, dec_spec. rewrite spec_decode_k_plain by reflexivity. change (byte_size (layout_of _)) with 5%nat. cbn [length Nat.eqb layout_of].
  unfold spec_decode, nth0, newch_freq_of. cbn [unpack value_of g nth le_val firstn skipn].
  rewrite land15, hi_nibble by assumption. pows.
  set (f := b1 + 256 * (b2 + 256 * (b3 + 256 * 0))).
  assert (Hf : f < 16777216) by (unfold f; lia).
  assert (E : (b0 + 256 * (b1 + 256 * (b2 + 256 * (b3 + 256 * (b4 + 256 * 0))))) / 256 mod 16777216 = f).
  { replace (b0 + 256 * (b1 + 256 * (b2 + 256 * (b3 + 256 * (b4 + 256 * 0)))))
      with (b0 + 256 * (f + 16777216 * b4)) by (unfold f; lia).
    replace ((b0 + 256 * (f + 16777216 * b4)) / 256) with (f + 16777216 * b4) by lia.
    lia. }
  rewrite E. f_equal. f_equal; [lia| |lia|lia].
  clearbody f. unfold newch_freq_of. destruct (12000000 <=? f) eqn:C; lia.
Qed.

Lemma land_pow2_testbit n i : negb (N.land n (N.shiftl 1 i) =? 0) = N.testbit n i.
Proof.
  rewrite N.shiftl_1_l.
  destruct (N.testbit n i) eqn:T.
  - apply negb_true_iff. apply N.eqb_neq. intros E.
    assert (H : N.testbit (N.land n (2 ^ i)) i = false) by (rewrite E; apply N.bits_0).
    rewrite N.land_spec, T, N.pow2_bits_true in H. discriminate.
  - apply negb_false_iff. apply N.eqb_eq. apply N.bits_inj. intros j.
    rewrite N.land_spec, N.bits_0, N.pow2_bits_eqb.
    destruct (N.eqb_spec i j) as [->|]; [now rewrite T | apply andb_false_r].
Qed.

Lemma dec_linkadr b0 b1 b2 b3 : b0 < 256 -> b1 < 256 -> b2 < 256 -> b3 < 256 ->
  dec KLinkADRReq [b0; b1; b2; b3] = dec_spec KLinkADRReq [b0; b1; b2; b3].
Proof.
  intros H0 H1 H2 H3. unfold dec, dec_spec, dec_chmask. rewrite spec_decode_k_plain by reflexivity. change (byte_size (layout_of _)) with 4%nat. cbn [length Nat.eqb layout_of].
  unfold spec_decode, nth0. cbn [unpack value_of g nth le_val firstn skipn length Nat.eqb bind].
  rewrite !land15, hi_nibble, bits_6_4 by assumption. pows.
  f_equal. f_equal; try lia.
  match goal with |- _ = mask_of ?a => replace a with (b1 + 256 * (b2 + 256 * 0)) by lia end.
  unfold mask_of. apply map_ext. intros i. apply land_pow2_testbit.
Qed.

Definition bytes (bs : list N) : Prop := Forall (fun b => b < 256) bs.

(* the decoder of every (non-proprietary) payload kind is the specified one, on every byte string *)
Theorem dec_eq_spec k bs : k <> KProprietary -> bytes bs -> dec k bs = dec_spec k bs.
Proof.
  intros Hk Hb.
  destruct (Nat.eqb (length bs) (byte_size (layout_of k))) eqn:L.
  2:{ rewrite dec_wrong_len by assumption. unfold dec_spec. now rewrite L. }
  apply PeanoNat.Nat.eqb_eq in L. unfold bytes in Hb.
  destruct k; try congruence;
    (change (byte_size (layout_of _)) with 1%nat in L ||
     change (byte_size (layout_of _)) with 2%nat in L ||
     change (byte_size (layout_of _)) with 3%nat in L ||
     change (byte_size (layout_of _)) with 4%nat in L ||
     change (byte_size (layout_of _)) with 5%nat in L);
    repeat (destruct bs as [|? bs]; try discriminate L); inv_forall;
    first [ apply dec1; [unfold kinds1; simpl; tauto | assumption]
          | apply dec2; [unfold kinds2; simpl; tauto | assumption | assumption]
          | apply dec_beaconfreq; assumption
          | apply dec_dlchannel; assumption
          | apply dec_pingslotchannel; assumption
          | apply dec_devicetime; assumption
          | apply dec_rxparamsetup; assumption
          | apply dec_newchannel; assumption
          | apply dec_linkadr; assumption ].
Qed.

(* DutyCycleReq, spelled out (finding C06-3): bits 7:4 of a received octet are RFU and do not reach
   the value; the one octet not read through the layout is the LoRaWAN 1.0 value 255.  All 256 octets. *)
Lemma sweep_dutycycle :
  forallb (fun b => peqb (dec KDutyCycleReq [b]) (Ok (PDutyCycleReq (if b =? 255 then 255 else b mod 16)))) (range 256) = true.
Proof. vm_compute. reflexivity. Qed.

Theorem dec_dutycycle b : b < 256 ->
  dec KDutyCycleReq [b] = Ok (PDutyCycleReq (if b =? 255 then 255 else b mod 16)).
Proof. intros Hb. apply peqb_eq. exact (sweep1 256 _ sweep_dutycycle b Hb). Qed.

(* ... so what the decoder yields is always a value the encoder accepts, and re-encodes to the octet
   with the RFU bits cleared *)
Lemma sweep_dutycycle_reencode :
  forallb (fun b => match dec KDutyCycleReq [b] with
                    | Ok v => outcome_eqb bytes_eqb (enc v) (Ok [if b =? 255 then 255 else b mod 16])
                    | _ => false end) (range 256) = true.
Proof. vm_compute. reflexivity. Qed.

Theorem dec_dutycycle_reencodes b : b < 256 ->
  exists v, dec KDutyCycleReq [b] = Ok v /\ enc v = Ok [if b =? 255 then 255 else b mod 16].
Proof.
  intros Hb. pose proof (sweep1 256 _ sweep_dutycycle_reencode b Hb) as S. cbv beta in S.
  destruct (dec KDutyCycleReq [b]) as [v| | |]; try discriminate. exists v. split; [reflexivity|].
  destruct (enc v) as [bs| | |]; cbn in S; try discriminate. apply bytes_eqb_eq in S. now subst.
Qed.

Theorem dutycycle_rfu_ignored b : b < 256 ->
  dec KDutyCycleReq [b] = Ok (PDutyCycleReq (if b =? 255 then 255 else b mod 16)) /\
  enc (PDutyCycleReq (if b =? 255 then 255 else b mod 16)) = Ok [if b =? 255 then 255 else b mod 16].
Proof.
  intros Hb. split; [exact (dec_dutycycle b Hb)|].
  destruct (dec_dutycycle_reencodes b Hb) as (v & Hd & He). rewrite (dec_dutycycle b Hb) in Hd.
  injection Hd as <-. exact He.
Qed.
