(* C18 - application-layer package commands round-trip; multicast keys follow TS005.
   Statement file: each theorem is closed by [exact] of a lemma proved in
   theories/App, followed by Print Assumptions.

   Vocabulary (theories/App): per package a type [payload] (one constructor per
   payload type of the Go package, fields as N / Z / bool / lists), [enc] =
   MarshalBinary, [psize] = Size, [lookup uplink cid] = the decoder of the payload
   the registry creates for that CID and direction, [cmds_enc] / [cmds_dec] =
   Commands.MarshalBinary / UnmarshalBinary, [cmd_size] = Command.Size.
   [XX.spec p] is the wire layout of p written from TS003/TS004/TS005/TS006
   (App/Spec.v), [XX.in_widthb p] says every field fits the width given there,
   [XXW.wf_stream up cs]: every command of cs is in-width, belongs to direction
   up and carries the CID of its payload type (or has no payload and the package
   defines none), and a payload that extends to the end of the message
   (fragmentation DataFragment) occurs only in last position. *)
From Coq Require Import List NArith ZArith Bool.
From LW Require Import Base.Outcome Base.Bytes App.Common App.Spec.
From LW Require App.ClockSync App.Multicast App.FragCmds App.FwMgmt App.McKeys App.McKeysSpec
     App.ClockSyncProofs App.MulticastProofs App.FragCmdsProofs App.FwMgmtProofs App.McKeysProofs
     App.DecodeTotalProofs.
Import ListNotations.
Open Scope N_scope.

(* ---- clock synchronization (TS003) ------------------------------------- *)
Theorem C18_clocksync_payload : forall p rest, CS.in_widthb p = true ->
  exists bs d, ClockSync.enc p = Ok bs /\ length bs = ClockSync.psize p
    /\ bs = spec_bytes (CS.spec p)
    /\ ClockSync.lookup (ClockSync.uplink_of p) (ClockSync.cid_of p) = Some d
    /\ d (bs ++ rest) = Ok p.
Proof. exact ClockSyncProofs.payload_roundtrip. Qed.
Print Assumptions C18_clocksync_payload.

Theorem C18_clocksync_stream : forall up cs, CSW.wf_stream up cs = true ->
  exists bs, ClockSync.cmds_enc cs = Ok bs
    /\ length bs = fold_right Nat.add O (map ClockSync.cmd_size cs)
    /\ bs = CSW.stream_bytes cs
    /\ ClockSync.cmds_dec up bs = Ok cs.
Proof. exact ClockSyncProofs.stream_roundtrip. Qed.
Print Assumptions C18_clocksync_stream.

Theorem C18_clocksync_enc_no_panic : forall p, ClockSync.enc p <> Panic.
Proof. exact ClockSyncProofs.enc_no_panic. Qed.
Print Assumptions C18_clocksync_enc_no_panic.

(* ---- remote multicast setup (TS005) ------------------------------------ *)
Theorem C18_multicast_payload : forall p rest, MC.in_widthb p = true ->
  exists bs d, Multicast.enc p = Ok bs /\ length bs = Multicast.psize p
    /\ bs = spec_bytes (MC.spec p)
    /\ Multicast.lookup (Multicast.uplink_of p) (Multicast.cid_of p) = Some d
    /\ d (bs ++ rest) = Ok p.
Proof. exact MulticastProofs.payload_roundtrip. Qed.
Print Assumptions C18_multicast_payload.

Theorem C18_multicast_stream : forall up cs, MCW.wf_stream up cs = true ->
  exists bs, Multicast.cmds_enc cs = Ok bs
    /\ length bs = fold_right Nat.add O (map Multicast.cmd_size cs)
    /\ bs = MCW.stream_bytes cs
    /\ Multicast.cmds_dec up bs = Ok cs.
Proof. exact MulticastProofs.stream_roundtrip. Qed.
Print Assumptions C18_multicast_stream.

(* for every value of the payload type, in range or not *)
Theorem C18_multicast_enc_no_panic : forall p, Multicast.enc p <> Panic.
Proof. exact MulticastProofs.enc_no_panic. Qed.
Print Assumptions C18_multicast_enc_no_panic.

(* ---- fragmented data block transport (TS004) --------------------------- *)
(* DataFragment takes everything that is left: nothing may follow it *)
Theorem C18_fragmentation_payload : forall p rest, FR.in_widthb p = true ->
  (FRW.greedy p = true -> rest = []) ->
  exists bs d, FragCmds.enc p = Ok bs /\ length bs = FragCmds.psize p
    /\ bs = spec_bytes (FR.spec p)
    /\ FragCmds.lookup (FragCmds.uplink_of p) (FragCmds.cid_of p) = Some d
    /\ d (bs ++ rest) = Ok p.
Proof. exact FragCmdsProofs.payload_roundtrip. Qed.
Print Assumptions C18_fragmentation_payload.

Theorem C18_fragmentation_stream : forall up cs, FRW.wf_stream up cs = true ->
  exists bs, FragCmds.cmds_enc cs = Ok bs
    /\ length bs = fold_right Nat.add O (map FragCmds.cmd_size cs)
    /\ bs = FRW.stream_bytes cs
    /\ FragCmds.cmds_dec up bs = Ok cs.
Proof. exact FragCmdsProofs.stream_roundtrip. Qed.
Print Assumptions C18_fragmentation_stream.

Theorem C18_fragmentation_enc_no_panic : forall p, FragCmds.enc p <> Panic.
Proof. exact FragCmdsProofs.enc_no_panic. Qed.
Print Assumptions C18_fragmentation_enc_no_panic.

(* the same at full strength over all sequences of individually well-formed commands, with
   the one exception spelled out (known finding C18-5: the wire format gives a DataFragment no
   length, it extends to the end of the payload) ... *)
Theorem C18_fragmentation_stream_or_known : forall up cs, forallb (FRW.wf_cmd up) cs = true ->
  (exists bs, FragCmds.cmds_enc cs = Ok bs
     /\ length bs = fold_right Nat.add O (map FragCmds.cmd_size cs)
     /\ bs = FRW.stream_bytes cs
     /\ FragCmds.cmds_dec up bs = Ok cs)
  \/ FRW.data_fragment_not_last cs = true.
Proof. exact FragCmdsProofs.stream_roundtrip_or_known. Qed.
Print Assumptions C18_fragmentation_stream_or_known.

(* ... and the exception is real: the audit's input is encoded without error and decoded as
   a single, longer DataFragment *)
Theorem C18_fragmentation_data_fragment_not_last_refuted :
  exists cs bs, forallb (FRW.wf_cmd false) cs = true /\ FRW.data_fragment_not_last cs = true
    /\ FragCmds.cmds_enc cs = Ok bs /\ bs = [0x08; 0x02; 0x40; 0xaa; 0xbb; 0x01; 0x03]
    /\ FragCmds.cmds_dec false bs = Ok [(8, Some (FragCmds.DataFragment 1 2 [0xaa; 0xbb; 0x01; 0x03]))]
    /\ FragCmds.cmds_dec false bs <> Ok cs.
Proof. exact FragCmdsProofs.data_fragment_not_last. Qed.
Print Assumptions C18_fragmentation_data_fragment_not_last_refuted.

(* ---- firmware management (TS006) --------------------------------------- *)
(* the zero-length requests demand an exact length at payload level; the
   stream decoder hands them exactly their own bytes (next theorem) *)
Theorem C18_firmware_payload : forall p rest, FW.in_widthb p = true ->
  (FwMgmtProofs.exact p = true -> rest = []) ->
  exists bs d, FwMgmt.enc p = Ok bs /\ length bs = FwMgmt.psize p
    /\ bs = spec_bytes (FW.spec p)
    /\ FwMgmt.lookup (FwMgmt.uplink_of p) (FwMgmt.cid_of p) = Some d
    /\ d (bs ++ rest) = Ok p.
Proof. exact FwMgmtProofs.payload_roundtrip. Qed.
Print Assumptions C18_firmware_payload.

Theorem C18_firmware_stream : forall up cs, FWW.wf_stream up cs = true ->
  exists bs, FwMgmt.cmds_enc cs = Ok bs
    /\ length bs = fold_right Nat.add O (map FwMgmt.cmd_size cs)
    /\ bs = FWW.stream_bytes cs
    /\ FwMgmt.cmds_dec up bs = Ok cs.
Proof. exact FwMgmtProofs.stream_roundtrip. Qed.
Print Assumptions C18_firmware_stream.

(* for every value, including a "valid image" status without a next version *)
Theorem C18_firmware_enc_no_panic : forall p, FwMgmt.enc p <> Panic.
Proof. exact FwMgmtProofs.enc_no_panic. Qed.
Print Assumptions C18_firmware_enc_no_panic.

(* ---- stream decoders terminate on every byte string ---------------------- *)
Theorem C18_stream_decoders_terminate : forall up data,
  ClockSync.cmds_dec up data <> OutOfFuel /\ Multicast.cmds_dec up data <> OutOfFuel
  /\ FragCmds.cmds_dec up data <> OutOfFuel /\ FwMgmt.cmds_dec up data <> OutOfFuel.
Proof.
  intros up data. split; [exact (ClockSyncProofs.stream_dec_terminates up data)|].
  split; [exact (MulticastProofs.stream_dec_terminates up data)|].
  split; [exact (FragCmdsProofs.stream_dec_terminates up data)|exact (FwMgmtProofs.stream_dec_terminates up data)].
Qed.
Print Assumptions C18_stream_decoders_terminate.

(* ... and never panic: every index and slice expression of the decoders is in
   range after the length tests, for every byte string and either direction *)
Theorem C18_decoders_no_panic : forall up data,
  ClockSync.cmds_dec up data <> Panic /\ Multicast.cmds_dec up data <> Panic
  /\ FragCmds.cmds_dec up data <> Panic /\ FwMgmt.cmds_dec up data <> Panic
  /\ ClockSync.cmd_dec up data <> Panic /\ Multicast.cmd_dec up data <> Panic
  /\ FragCmds.cmd_dec up data <> Panic /\ FwMgmt.cmd_dec up data <> Panic.
Proof. exact DecodeTotalProofs.decoders_no_panic. Qed.
Print Assumptions C18_decoders_no_panic.

(* ---- multicast keys (TS005), over LW.Crypto.AES.aes_encrypt -------------- *)
Theorem C18_mckeys_spec : forall key addr, addr_ok addr = true ->
  McKeys.mc_root_key_for_gen_app_key key = Ok (McKeysSpec.spec_root_gen key)
  /\ McKeys.mc_root_key_for_app_key key = Ok (McKeysSpec.spec_root_app key)
  /\ McKeys.mc_ke_key key = Ok (McKeysSpec.spec_ke key)
  /\ McKeys.mc_app_s_key key addr = Ok (McKeysSpec.spec_app_s key (be_val addr))
  /\ McKeys.mc_net_s_key key addr = Ok (McKeysSpec.spec_net_s key (be_val addr)).
Proof. exact McKeysProofs.mckeys_spec. Qed.
Print Assumptions C18_mckeys_spec.

(* non-vacuity: the Class-B request that used to decode wrongly is well formed
   and round-trips; a two-command firmware stream starting with the empty
   DevVersionReq is well formed and round-trips *)
Example C18_example :
  MCW.wf_stream false [(5, Some (Multicast.McClassBSessionReq 2 0x01020304 3 8 868100000 5))] = true
  /\ Multicast.cmds_dec false [5; 2; 4; 3; 2; 1; 0x38; 0x28; 0x76; 0x84; 5]
     = Ok [(5, Some (Multicast.McClassBSessionReq 2 0x01020304 3 8 868100000 5))]
  /\ FWW.wf_stream false [(1, Some FwMgmt.DevVersionReq); (2, Some (FwMgmt.DevRebootTimeReq 5))] = true
  /\ FwMgmt.cmds_dec false [1; 2; 5; 0; 0; 0]
     = Ok [(1, Some FwMgmt.DevVersionReq); (2, Some (FwMgmt.DevRebootTimeReq 5))].
Proof. vm_compute. repeat split; reflexivity. Qed.
