(* C09 (MAC-command stream decoder): for any bytes and any registry reachable by
   registrations, decodeDataPayloadToMACCommands returns a value or an error
   within |input| + 1 iterations - no panic, no exhausted fuel. *)
From Coq Require Import List NArith ZArith Bool Lia.
From LW Require Import Base.Outcome Base.Bytes Mac.Commands Mac.Stream Mac.StreamProofs Mac.RegOkProofs.
From LWGen Require Import RegistryGen.
Import ListNotations.
Open Scope N_scope.

Definition okerr {A} (x : outcome A) : Prop := x <> Panic /\ x <> OutOfFuel.

Lemma decode_loop_total r up bytes : reg_ok r -> forall fuel i acc,
  (0 <= i)%Z -> (Z.to_nat (Z.of_nat (length bytes) - i) < fuel)%nat ->
  okerr (decode_loop fuel r up bytes i acc).
Proof.
  intros Hr. induction fuel as [|fuel IH]; intros i acc Hi Hf; [lia|].
  cbn [decode_loop].
  destruct (Z.of_nat (length bytes) <=? i)%Z eqn:E; [split; discriminate|].
  unfold go_index. replace (0 <=? i)%Z with true by lia.
  destruct (nth_error bytes (Z.to_nat i)) as [c|] eqn:En.
  2:{ apply nth_error_None in En. lia. }
  cbn [bind].
  set (plLen := match reg_lookup r up c with Some (s, _) => s | None => 0%Z end).
  assert (Hp : (0 <= plLen)%Z).
  { unfold plLen. destruct (reg_lookup r up c) as [[s k]|] eqn:El; [|lia]. destruct (Hr _ _ _ _ El). lia. }
  destruct (Z.of_nat (length bytes) - i <? plLen + 1)%Z eqn:E2; [split; discriminate|].
  unfold go_slice.
  replace ((0 <=? i)%Z && (i <=? i + 1 + plLen)%Z && (i + 1 + plLen <=? Z.of_nat (length bytes))%Z) with true by lia.
  cbn [bind]. apply IH; lia.
Qed.

Theorem decode_stream_total h up bytes :
  okerr (decode_stream (register_all builtin_registry h) up bytes).
Proof.
  unfold decode_stream. apply decode_loop_total; [apply reg_ok_history|lia|lia].
Qed.

(* every MAC payload decoder returns a value or an error *)
Theorem dec_total k data : okerr (dec k data).
Proof.
  unfold dec. destruct k;
    repeat match goal with
    | |- okerr (if ?c then _ else _) => destruct c
    | |- okerr (let '(_, _) := ?x in _) => destruct x as [[? ?] ?]
    | |- okerr (bind (dec_chmask ?d) _) => unfold dec_chmask; destruct (Nat.eqb (length d) 2); cbn [bind]
    end; split; discriminate.
Qed.
