package main

// "No hidden shared state", stated over histories: a population of LIVE values (decoded frames,
// frames after EncryptFOpts / EncryptFRMPayload / Decrypt*, decoded MAC commands incl. proprietary
// ones, marshalled outputs) is kept together with the text each value printed as when it was
// produced.  After every further library call - made on OTHER values - a few members are printed
// again, at the end all of them: the text must not have changed.  In the functional models
// (Mem/Alias.v, Mem/Reuse.v) a call cannot reach a value it was not given, so the model's
// prediction is "unchanged"; a difference is reported as `history:<kind>:<key>` (Go-side).
// Direct checks on top: every command decoded from one stream carries the bytes of ITS wire
// segment, and all payload objects handed out by the registry / held by live commands are
// pairwise distinct pointers.

import (
	"bytes"
	"fmt"
	"reflect"

	"github.com/brocaar/lorawan"
	"verifharness/internal/cases"
	"verifharness/internal/cq"
	"verifharness/internal/framefmt"
	"verifharness/internal/macfmt"
	"verifharness/internal/noise"
)

type live struct {
	kind, key, first, madeAfter string
	print                       func() string
	replay                      map[string]interface{}
}

type population struct {
	h        *H
	items    []live
	ptrs     map[uintptr]string // payload objects held by decoded commands
	keep     []interface{}      // ... kept reachable, so that an address is never reused for a new object
	reported map[string]bool
	last     string // description of the most recent library call
	rechecks int
}

func safePrint(f func() string) (s string) {
	defer func() {
		if r := recover(); r != nil {
			s = fmt.Sprintf("panic while printing: %v", r)
		}
	}()
	return f()
}

func (p *population) add(kind, key string, print func() string, replay map[string]interface{}) {
	p.items = append(p.items, live{kind: kind, key: key, first: safePrint(print), madeAfter: p.last, print: print, replay: replay})
}

func (p *population) check(i int) {
	it := p.items[i]
	p.rechecks++
	now := safePrint(it.print)
	if now == it.first || p.reported[it.key] {
		return
	}
	p.reported[it.key] = true
	rp := map[string]interface{}{"produced_by": it.kind, "recorded": clip(it.first), "now": clip(now), "changed_after_call": p.last, "position_in_history": i}
	for k, v := range it.replay {
		rp[k] = v
	}
	p.h.s.Fail(cases.GoFail{Key: "history:" + it.kind + ":" + it.key,
		What:   fmt.Sprintf("a value produced earlier (%s) changed after a later call on OTHER values (%s): recorded %s, now %s", it.kind, p.last, clip(it.first), clip(now)),
		Replay: rp})
}

func clip(s string) string {
	if len(s) > 300 {
		return s[:300] + "…"
	}
	return s
}

func (p *population) recheck(k int) {
	for ; k > 0 && len(p.items) > 0; k-- {
		// bias towards recent members: most sharing shows up on the neighbours in time
		n := len(p.items)
		i := p.h.r.Intn(n)
		if p.h.r.Bool() && n > 6 {
			i = n - 1 - p.h.r.Intn(6)
		}
		p.check(i)
	}
}

func (p *population) recheckAll() {
	for i := range p.items {
		p.check(i)
	}
}

// notePayloads registers the payload objects of decoded commands: they must be pairwise distinct.
func (p *population) notePayloads(where string, items []lorawan.Payload) {
	for _, it := range items {
		mc, ok := it.(*lorawan.MACCommand)
		if !ok || mc.Payload == nil {
			continue
		}
		v := reflect.ValueOf(mc.Payload)
		if v.Kind() != reflect.Ptr || v.Elem().Type().Size() == 0 {
			continue
		}
		ptr := v.Pointer()
		p.keep = append(p.keep, mc.Payload)
		if prev, dup := p.ptrs[ptr]; dup && !p.reported["ptr:"+where] {
			p.reported["ptr:"+where] = true
			p.h.s.Fail(cases.GoFail{Key: fmt.Sprintf("shared-payload-object:cid=%d:%s", byte(mc.CID), where),
				What:   fmt.Sprintf("two decoded MAC commands hold the SAME payload object (%T at %#x): %s and %s", mc.Payload, ptr, prev, where),
				Replay: map[string]interface{}{"first": prev, "second": where, "cid": byte(mc.CID)}})
		}
		p.ptrs[ptr] = where
	}
}

func hkey(r *cq.RNG) (k lorawan.AES128Key) {
	switch r.Intn(4) {
	case 0:
	case 1:
		for i := range k {
			k[i] = 2
		}
	default:
		copy(k[:], r.Bytes(16))
	}
	return
}

// propCmds builds n registered proprietary commands of one direction (CID 128 size 3 / 130 size 1 up, 129 size 2 down).
func propCmds(r *cq.RNG, up bool, n int, sameCID bool) ([]lorawan.Payload, [][]byte) {
	var out []lorawan.Payload
	var want [][]byte
	for i := 0; i < n; i++ {
		cid, size := lorawan.CID(129), 2
		if up {
			cid, size = 128, 3
			if !sameCID && r.Bool() {
				cid, size = 130, 1
			}
		}
		b := r.Bytes(size)
		out = append(out, &lorawan.MACCommand{CID: cid, Payload: &lorawan.ProprietaryMACCommandPayload{Bytes: b}})
		want = append(want, append([]byte{}, b...))
	}
	return out, want
}

// checkStream: every command decoded from one stream shows the bytes of its own wire segment.
func (p *population) checkStream(where string, items []lorawan.Payload, want [][]byte) {
	j := 0
	for _, it := range items {
		mc, ok := it.(*lorawan.MACCommand)
		if !ok {
			continue
		}
		pp, ok := mc.Payload.(*lorawan.ProprietaryMACCommandPayload)
		if !ok {
			continue
		}
		if j < len(want) && !bytes.Equal(pp.Bytes, want[j]) && !p.reported["stream:"+where] {
			p.reported["stream:"+where] = true
			p.h.s.Fail(cases.GoFail{Key: fmt.Sprintf("stream-decode:%s:cmd=%d", where, j),
				What:   fmt.Sprintf("command %d decoded from one stream of proprietary commands shows payload %x, its wire bytes are %x (all: %s)", j, pp.Bytes, want[j], macfmt.Items(items)),
				Replay: map[string]interface{}{"api": where, "expected_payloads": fmt.Sprintf("%x", want), "decoded": macfmt.Items(items)}})
		}
		j++
	}
}

func (p *population) call(desc string, f func()) {
	func() {
		if desc != "noise.Step" { // noise brackets its own calls
			cases.Begin("history step: "+desc, map[string]interface{}{"previous_call": p.last})
			defer cases.End()
		}
		defer func() { _ = recover() }()
		f()
	}()
	p.last = desc
	p.recheck(4)
}

func newDataFrame(r *cq.RNG, up bool, fopts []lorawan.Payload, port int, frm []lorawan.Payload) *lorawan.PHYPayload {
	mt := lorawan.UnconfirmedDataDown
	if up {
		mt = lorawan.UnconfirmedDataUp
	}
	f := framefmt.DataFrame(r, framefmt.Opt{MType: mt, Port: -1, FCntHigh: r.Bool()})
	m := f.MACPayload.(*lorawan.MACPayload)
	m.FHDR.FOpts = fopts
	if port >= 0 {
		q := uint8(port)
		m.FPort = &q
	}
	m.FRMPayload = frm
	return &f
}

func (h *H) history(mult int) {
	r := h.r
	p := &population{h: h, ptrs: map[uintptr]string{}, reported: map[string]bool{}, last: "(start)"}
	phy := func(f *lorawan.PHYPayload, fl int) func() string {
		return func() string { return framefmt.Phy(*f, fl) }
	}

	// the registry hands out a new object per call
	registryDistinct := func(when string) {
		for _, up := range []bool{false, true} {
			for cid := 0; cid < 256; cid++ {
				a, _, err1 := lorawan.GetMACPayloadAndSize(up, lorawan.CID(cid))
				b, _, err2 := lorawan.GetMACPayloadAndSize(up, lorawan.CID(cid))
				if err1 != nil || err2 != nil {
					continue
				}
				va, vb := reflect.ValueOf(a), reflect.ValueOf(b)
				if va.Kind() == reflect.Ptr && va.Elem().Type().Size() > 0 && va.Pointer() == vb.Pointer() {
					h.s.Fail(cases.GoFail{Key: fmt.Sprintf("shared-payload-object:registry:up=%v:cid=%d", up, cid),
						What:   fmt.Sprintf("GetMACPayloadAndSize(%v, %d) returned the same %T object twice (%s)", up, cid, a, when),
						Replay: map[string]interface{}{"uplink": up, "cid": cid}})
				}
			}
		}
	}
	registryDistinct("at start")

	// ---- fixed opening sequences (the orders that expose sharing) ----
	// (1) encrypt FOpts of A; encrypt / decrypt FOpts of B; A must still read the same
	for i := 0; i < 3; i++ {
		up := i%2 == 0
		a := newDataFrame(r, up, framefmt.ValidCmds(r, up, 3+r.Intn(12)), 1+r.Intn(200), []lorawan.Payload{&lorawan.DataPayload{Bytes: r.Bytes(5)}})
		ka := hkey(r)
		p.call("A.EncryptFOpts", func() { _ = a.EncryptFOpts(ka) })
		p.add("frame-after-EncryptFOpts", fmt.Sprintf("opening-A%d", i), phy(a, 0), map[string]interface{}{"api": "A.EncryptFOpts(k); B.EncryptFOpts(k'); B.DecryptFOpts(k'); inspect A"})
		outA, errA := a.MarshalBinary()
		b := newDataFrame(r, !up, framefmt.ValidCmds(r, !up, 3+r.Intn(12)), 1+r.Intn(200), nil)
		kb := hkey(r)
		p.call("B.EncryptFOpts", func() { _ = b.EncryptFOpts(kb) })
		p.call("B.DecryptFOpts", func() { _ = b.DecryptFOpts(kb) })
		p.add("frame-after-DecryptFOpts", fmt.Sprintf("opening-B%d", i), phy(b, 0), nil) // B is not touched again
		if errA == nil {
			out2, err2 := a.MarshalBinary()
			if err2 != nil || !bytes.Equal(outA, out2) {
				h.s.Fail(cases.GoFail{Key: fmt.Sprintf("history:marshal-after-other-frame-EncryptFOpts:%d", i),
					What:   fmt.Sprintf("A.MarshalBinary() changed after EncryptFOpts/DecryptFOpts on another frame: %x then %x (%v)", outA, out2, err2),
					Replay: map[string]interface{}{"api": "A.EncryptFOpts(k); out := A.MarshalBinary(); B.EncryptFOpts(k'); B.DecryptFOpts(k'); A.MarshalBinary()", "frameA": framefmt.Phy(*a, 0)}})
			}
		}
		p.recheckAll()
	}
	// (2) several proprietary commands of ONE CID in one stream, in successive frames
	for i := 0; i < 4; i++ {
		up := i%2 == 0
		n := 2 + r.Intn(2)
		cmds, want := propCmds(r, up, n, true)
		var wire []byte
		for _, c := range cmds {
			b, _ := c.MarshalBinary()
			wire = append(wire, b...)
		}
		where := fmt.Sprintf("DecodeFOptsToMACCommands(up=%v, %x)", up, wire)
		f := newDataFrame(r, up, []lorawan.Payload{&lorawan.DataPayload{Bytes: wire}}, -1, nil)
		p.call(where, func() { _ = f.DecodeFOptsToMACCommands() })
		m := f.MACPayload.(*lorawan.MACPayload)
		p.checkStream(where, m.FHDR.FOpts, want)
		p.notePayloads(where, m.FHDR.FOpts)
		p.add("decoded-FOpts-commands", fmt.Sprintf("opening-stream%d:%x", i, wire), phy(f, 0), map[string]interface{}{"api": where})
		// single commands of the same CID afterwards
		for k := 0; k < 2; k++ {
			c := &lorawan.MACCommand{}
			one, _ := cmds[k].MarshalBinary()
			one = append([]byte{}, one...)
			one[1] ^= 0x5a
			w2 := fmt.Sprintf("MACCommand.UnmarshalBinary(up=%v, %x)", up, one)
			p.call(w2, func() { _ = c.UnmarshalBinary(up, one) })
			p.notePayloads(w2, []lorawan.Payload{c})
			p.add("decoded-command", fmt.Sprintf("opening-cmd%d-%d:%x", i, k, one), func() string { return macfmt.Item(c) }, map[string]interface{}{"api": w2})
		}
		p.recheckAll()
	}

	// ---- random history ----
	var rx lorawan.PHYPayload
	steps := 140 * mult
	for s := 0; s < steps; s++ {
		up := r.Bool()
		switch r.Intn(9) {
		case 0: // decode a frame
			var src lorawan.PHYPayload
			if r.Intn(4) == 0 {
				src = framefmt.JoinFrame(r, r.Intn(5))
			} else {
				src = framefmt.DataFrame(r, framefmt.ValidDataOpt(r))
			}
			wire, err := src.MarshalBinary()
			if err != nil {
				continue
			}
			wire = append([]byte{}, wire...)
			if r.Bool() {
				// the long-lived receiver of an application: rx.UnmarshalBinary(f); work on rx; frames = append(frames, rx)
				ok := false
				p.call("rx.UnmarshalBinary (long-lived receiver)", func() { ok = rx.UnmarshalBinary(wire) == nil })
				if !ok {
					continue
				}
				fl := framefmt.DecodedFOptsLen(wire)
				if m, isMac := rx.MACPayload.(*lorawan.MACPayload); isMac {
					if r.Bool() {
						m.FHDR.FCnt |= uint32(1+r.Intn(9)) << 16 // the application restores the 32-bit counter
					}
					if r.Intn(3) == 0 {
						p.call("rx.DecodeFOptsToMACCommands", func() { _ = rx.DecodeFOptsToMACCommands() })
					}
				}
				kept := rx // struct copy, shares whatever rx points to
				p.add("kept-copy-of-long-lived-receiver", fmt.Sprintf("%d:%x", s, wire), phy(&kept, fl), map[string]interface{}{"api": "rx.UnmarshalBinary(in); kept := rx; later rx.UnmarshalBinary(other)", "in": hexs(wire)})
				continue
			}
			q := &lorawan.PHYPayload{}
			ok := false
			p.call("PHYPayload.UnmarshalBinary", func() { ok = q.UnmarshalBinary(wire) == nil })
			if ok {
				p.add("decoded-frame", fmt.Sprintf("%d:%x", s, wire), phy(q, framefmt.DecodedFOptsLen(wire)), map[string]interface{}{"api": "PHYPayload.UnmarshalBinary", "in": hexs(wire)})
			}
		case 1, 2: // FOpts encryption (and decryption) of a frame with FOpts, sometimes proprietary commands inside
			var fo []lorawan.Payload
			if r.Intn(3) == 0 {
				fo, _ = propCmds(r, up, 1+r.Intn(3), r.Bool())
			} else {
				fo = framefmt.ValidCmds(r, up, 1+r.Intn(15))
			}
			f := newDataFrame(r, up, fo, []int{-1, 1 + r.Intn(200)}[r.Intn(2)], nil)
			k := hkey(r)
			okE := false
			p.call("PHYPayload.EncryptFOpts", func() { okE = f.EncryptFOpts(k) == nil })
			if !okE {
				continue
			}
			if r.Bool() {
				p.add("frame-after-EncryptFOpts", fmt.Sprintf("%d", s), phy(f, 0), map[string]interface{}{"api": "PHYPayload.EncryptFOpts", "key": hexs(k[:])})
				continue
			}
			okD := false
			p.call("PHYPayload.DecryptFOpts", func() { okD = f.DecryptFOpts(k) == nil })
			if okD {
				m := f.MACPayload.(*lorawan.MACPayload)
				p.notePayloads(fmt.Sprintf("DecryptFOpts at step %d", s), m.FHDR.FOpts)
				p.add("frame-after-DecryptFOpts", fmt.Sprintf("%d", s), phy(f, 0), map[string]interface{}{"api": "PHYPayload.EncryptFOpts; DecryptFOpts", "key": hexs(k[:])})
			}
		case 3: // FRMPayload encryption / decryption, port 0 with commands or application data
			var f *lorawan.PHYPayload
			if r.Bool() {
				frm, _ := propCmds(r, up, 1+r.Intn(4), r.Bool())
				frm = append(frm, framefmt.ValidCmds(r, up, r.Intn(8))...)
				f = newDataFrame(r, up, nil, 0, frm)
			} else {
				f = newDataFrame(r, up, nil, 1+r.Intn(200), []lorawan.Payload{&lorawan.DataPayload{Bytes: r.Bytes(1 + r.Intn(40))}})
			}
			k := hkey(r)
			okE := false
			p.call("PHYPayload.EncryptFRMPayload", func() { okE = f.EncryptFRMPayload(k) == nil })
			if !okE {
				continue
			}
			if r.Bool() {
				okD := false
				p.call("PHYPayload.DecryptFRMPayload", func() { okD = f.DecryptFRMPayload(k) == nil })
				if !okD {
					continue
				}
				p.notePayloads(fmt.Sprintf("DecryptFRMPayload at step %d", s), f.MACPayload.(*lorawan.MACPayload).FRMPayload)
			}
			p.add("frame-after-FRMPayload-crypto", fmt.Sprintf("%d", s), phy(f, 0), map[string]interface{}{"api": "PHYPayload.EncryptFRMPayload (+ DecryptFRMPayload)", "key": hexs(k[:])})
		case 4: // a single MAC command, proprietary or built-in
			var wire []byte
			if r.Bool() {
				cs, _ := propCmds(r, up, 1, false)
				wire, _ = cs[0].MarshalBinary()
			} else if cs := framefmt.ValidCmds(r, up, 1+r.Intn(5)); len(cs) > 0 {
				wire, _ = cs[0].MarshalBinary()
			}
			if len(wire) == 0 {
				continue
			}
			wire = append([]byte{}, wire...)
			c := &lorawan.MACCommand{}
			where := fmt.Sprintf("MACCommand.UnmarshalBinary(up=%v, %x) at step %d", up, wire, s)
			ok := false
			p.call(where, func() { ok = c.UnmarshalBinary(up, wire) == nil })
			if ok {
				p.notePayloads(where, []lorawan.Payload{c})
				p.add("decoded-command", fmt.Sprintf("%d:%x", s, wire), func() string { return macfmt.Item(c) }, map[string]interface{}{"api": where})
			}
		case 5: // a stream of proprietary commands in FOpts or FRMPayload (unencrypted decode)
			n := 2 + r.Intn(2)
			cmds, want := propCmds(r, up, n, r.Intn(3) > 0)
			var wire []byte
			for _, c := range cmds {
				b, _ := c.MarshalBinary()
				wire = append(wire, b...)
			}
			inFOpts := r.Bool()
			var f *lorawan.PHYPayload
			where := fmt.Sprintf("Decode%sToMACCommands(up=%v, %x) at step %d", map[bool]string{true: "FOpts", false: "FRMPayload"}[inFOpts], up, wire, s)
			if inFOpts {
				f = newDataFrame(r, up, []lorawan.Payload{&lorawan.DataPayload{Bytes: wire}}, -1, nil)
				p.call(where, func() { _ = f.DecodeFOptsToMACCommands() })
				p.checkStream(where, f.MACPayload.(*lorawan.MACPayload).FHDR.FOpts, want)
				p.notePayloads(where, f.MACPayload.(*lorawan.MACPayload).FHDR.FOpts)
			} else {
				f = newDataFrame(r, up, nil, 0, []lorawan.Payload{&lorawan.DataPayload{Bytes: wire}})
				p.call(where, func() { _ = f.DecodeFRMPayloadToMACCommands() })
				p.checkStream(where, f.MACPayload.(*lorawan.MACPayload).FRMPayload, want)
				p.notePayloads(where, f.MACPayload.(*lorawan.MACPayload).FRMPayload)
			}
			p.add("decoded-command-stream", fmt.Sprintf("%d:%x", s, wire), phy(f, 0), map[string]interface{}{"api": where})
		case 6: // a marshalled output
			src := framefmt.DataFrame(r, framefmt.ValidDataOpt(r))
			var out []byte
			p.call("PHYPayload.MarshalBinary", func() { out, _ = src.MarshalBinary() })
			if out != nil {
				p.add("marshalled-output", fmt.Sprintf("%d", s), func() string { return hexs(out) }, map[string]interface{}{"api": "PHYPayload.MarshalBinary", "frame": framefmt.Phy(src, 0)})
			}
		default: // unrelated calls
			p.call("noise.Step", func() { noise.Step(r) })
		}
	}
	p.last = "(end of history)"
	p.recheckAll()
	registryDistinct("at end")
	h.s.Extra["history_live_values"] = len(p.items)
	h.s.Extra["history_rechecks"] = p.rechecks
	kinds := map[string]int{}
	for _, it := range p.items {
		kinds[it.kind]++
	}
	h.s.Extra["history_population"] = kinds
}
