(* C02: the model of the data-frame MIC functions equals the specification
   (LW.Sec.MICSpec) for every frame, key, version, counter and TX parameter;
   validation is exactly "carried MIC = specified MIC"; the inputs the
   specification excludes do not influence the result.  Everything is
   equational: no property of AES or CMAC is used. *)
From Coq Require Import List NArith ZArith Bool Lia.
From Coq Require Import ZifyN ZifyNat ZifyBool.
From LW Require Import Base.Outcome Base.Bytes Crypto.AES Crypto.CMAC Crypto.CMACProofs Mac.Commands Mac.Stream Frame.Model
     Sec.MIC Sec.MICSpec.
Import ListNotations.
Open Scope N_scope.
Ltac Zify.zify_post_hook ::= Z.div_mod_to_equations.

Definition spec_version (v : macver) : version :=
  match v with LoRaWAN1_0 => V1_0 | LoRaWAN1_1 => V1_1 end.

Lemma copy4_len4 (b : list N) : length b = 4%nat -> copy4 b = b.
Proof.
  destruct b as [|a [|b [|c [|d [|e r]]]]]; simpl; intros H; try discriminate; reflexivity.
Qed.

Lemma devaddr_wire_rev da : length da = 4%nat -> devaddr_wire da = rev da.
Proof. intros H. unfold devaddr_wire. apply copy4_len4. now rewrite rev_length. Qed.

Lemma conf_field_eq (a : bool) (c : N) : (if a then c else 0) mod 65536 = conf_field a c.
Proof. unfold conf_field. destruct a; reflexivity. Qed.

Lemma up_b0_spec m msg : length (devaddr (hdr m)) = 4%nat ->
  up_b0 m msg = B0_up (devaddr (hdr m)) (fcnt (hdr m)) (len_byte msg).
Proof. intros H. unfold up_b0, B0_up, block. rewrite devaddr_wire_rev by exact H. reflexivity. Qed.

Lemma up_b1_spec (a : bool) (c : N) txdr txch m msg : length (devaddr (hdr m)) = 4%nat ->
  up_b1 ((if a then c else 0) mod 65536) txdr txch m msg
  = B1_up a c txdr txch (devaddr (hdr m)) (fcnt (hdr m)) (len_byte msg).
Proof.
  intros H. unfold up_b1, B1_up, block. rewrite devaddr_wire_rev by exact H. rewrite conf_field_eq.
  rewrite <- !app_assoc. reflexivity.
Qed.

Lemma down_b0_spec ver (a : bool) (c : N) m msg : length (devaddr (hdr m)) = 4%nat ->
  down_b0 ((if macver_eqb ver LoRaWAN1_0 || negb a then 0 else c) mod 65536) m msg
  = B0_down (spec_version ver) a c (devaddr (hdr m)) (fcnt (hdr m)) (len_byte msg).
Proof.
  intros H. unfold down_b0, B0_down, block. rewrite devaddr_wire_rev by exact H.
  destruct ver; cbn [macver_eqb orb spec_version].
  - reflexivity.
  - replace ((if negb a then 0 else c) mod 65536) with (conf_field a c)
      by (unfold conf_field; destruct a; reflexivity).
    rewrite <- !app_assoc. reflexivity.
Qed.

Lemma len_byte_small (msg : list N) : (length msg < 256)%nat -> len_byte msg = N.of_nat (length msg).
Proof. intros H. unfold len_byte. apply N.mod_small. lia. Qed.

(* ---- the model computes the specification's MIC ---- *)
(* for every frame whose MACPayload marshals; the one-byte length field holds len(msg) mod 256 *)
Theorem up_eq_spec_len ver conf txdr txch fk sk p m msg :
  pl p = PLMac m -> mic_bytes p m = Ok msg -> length (devaddr (hdr m)) = 4%nat ->
  calc_up_mic ver conf txdr txch fk sk p
  = Ok (spec_up_mic_len (spec_version ver) fk sk conf txdr txch (ack (fc (hdr m))) (devaddr (hdr m))
                        (fcnt (hdr m)) msg (len_byte msg)).
Proof.
  intros Hp Hm Hd. unfold calc_up_mic. rewrite Hp, Hm. cbn [bind].
  unfold spec_up_mic_len, first. rewrite up_b0_spec by exact Hd.
  destruct ver; cbn [spec_version]; [reflexivity|].
  rewrite up_b1_spec by exact Hd. reflexivity.
Qed.

Theorem up_eq_spec ver conf txdr txch fk sk p m msg :
  pl p = PLMac m -> mic_bytes p m = Ok msg -> length (devaddr (hdr m)) = 4%nat -> (length msg < 256)%nat ->
  calc_up_mic ver conf txdr txch fk sk p
  = Ok (spec_up_mic (spec_version ver) fk sk conf txdr txch (ack (fc (hdr m))) (devaddr (hdr m))
                    (fcnt (hdr m)) msg).
Proof.
  intros Hp Hm Hd Hl. rewrite (up_eq_spec_len _ _ _ _ _ _ _ _ _ Hp Hm Hd).
  unfold spec_up_mic. now rewrite len_byte_small.
Qed.

Theorem down_eq_spec_len ver conf sk p m msg :
  pl p = PLMac m -> mic_bytes p m = Ok msg -> length (devaddr (hdr m)) = 4%nat ->
  calc_down_mic ver conf sk p
  = Ok (spec_down_mic_len (spec_version ver) sk conf (ack (fc (hdr m))) (devaddr (hdr m)) (fcnt (hdr m))
                          msg (len_byte msg)).
Proof.
  intros Hp Hm Hd. unfold calc_down_mic. rewrite Hp, Hm. cbn [bind].
  unfold spec_down_mic_len, first. rewrite down_b0_spec by exact Hd. reflexivity.
Qed.

Theorem down_eq_spec ver conf sk p m msg :
  pl p = PLMac m -> mic_bytes p m = Ok msg -> length (devaddr (hdr m)) = 4%nat -> (length msg < 256)%nat ->
  calc_down_mic ver conf sk p
  = Ok (spec_down_mic (spec_version ver) sk conf (ack (fc (hdr m))) (devaddr (hdr m)) (fcnt (hdr m)) msg).
Proof.
  intros Hp Hm Hd Hl. rewrite (down_eq_spec_len _ _ _ _ _ _ Hp Hm Hd).
  unfold spec_down_mic. now rewrite len_byte_small.
Qed.

(* ---- when is there a MIC at all: exactly for a *MACPayload that marshals ---- *)
Lemma calc_up_ok_inv ver conf txdr txch fk sk p x :
  calc_up_mic ver conf txdr txch fk sk p = Ok x -> exists m msg, pl p = PLMac m /\ mic_bytes p m = Ok msg.
Proof.
  unfold calc_up_mic. destruct (pl p) eqn:Hp; try discriminate.
  destruct (mic_bytes p m) eqn:Hm; try discriminate. eauto.
Qed.

Lemma calc_down_ok_inv ver conf sk p x :
  calc_down_mic ver conf sk p = Ok x -> exists m msg, pl p = PLMac m /\ mic_bytes p m = Ok msg.
Proof.
  unfold calc_down_mic. destruct (pl p) eqn:Hp; try discriminate.
  destruct (mic_bytes p m) eqn:Hm; try discriminate. eauto.
Qed.

Theorem up_no_mic_without_macpayload ver conf txdr txch fk sk p :
  (forall m, pl p <> PLMac m) -> calc_up_mic ver conf txdr txch fk sk p = Err.
Proof. intros H. unfold calc_up_mic. destruct (pl p); try reflexivity. now destruct (H m). Qed.

Theorem down_no_mic_without_macpayload ver conf sk p :
  (forall m, pl p <> PLMac m) -> calc_down_mic ver conf sk p = Err.
Proof. intros H. unfold calc_down_mic. destruct (pl p); try reflexivity. now destruct (H m). Qed.

(* Set stores exactly the computed MIC and touches nothing else *)
Theorem set_up_stores ver conf txdr txch fk sk p q :
  set_up_mic ver conf txdr txch fk sk p = Ok q ->
  calc_up_mic ver conf txdr txch fk sk p = Ok (mic q) /\ mtype q = mtype p /\ major q = major p /\ pl q = pl p.
Proof.
  unfold set_up_mic. destruct (calc_up_mic ver conf txdr txch fk sk p); cbn [bind]; try discriminate.
  intros [= <-]. auto.
Qed.

Theorem set_down_stores ver conf sk p q :
  set_down_mic ver conf sk p = Ok q ->
  calc_down_mic ver conf sk p = Ok (mic q) /\ mtype q = mtype p /\ major q = major p /\ pl q = pl p.
Proof.
  unfold set_down_mic. destruct (calc_down_mic ver conf sk p); cbn [bind]; try discriminate.
  intros [= <-]. auto.
Qed.

(* ---- validation is "carried MIC = specified MIC" ---- *)
Theorem validate_up_iff ver conf txdr txch fk sk p b :
  validate_up_mic ver conf txdr txch fk sk p = Ok b ->
  exists m msg, pl p = PLMac m /\ mic_bytes p m = Ok msg /\
    (length (devaddr (hdr m)) = 4%nat -> (length msg < 256)%nat ->
     (b = true <-> mic p = spec_up_mic (spec_version ver) fk sk conf txdr txch (ack (fc (hdr m)))
                                       (devaddr (hdr m)) (fcnt (hdr m)) msg)).
Proof.
  unfold validate_up_mic. destruct (calc_up_mic ver conf txdr txch fk sk p) as [x| | |] eqn:Hc; cbn [bind]; try discriminate.
  intros [= <-]. destruct (calc_up_ok_inv _ _ _ _ _ _ _ _ Hc) as (m & msg & Hp & Hm).
  exists m, msg. split; [exact Hp|]. split; [exact Hm|]. intros Hd Hl.
  rewrite (up_eq_spec _ _ _ _ _ _ _ _ _ Hp Hm Hd Hl) in Hc. injection Hc as <-. apply bytes_eqb_eq.
Qed.

Theorem validate_down_iff ver conf sk p b :
  validate_down_mic ver conf sk p = Ok b ->
  exists m msg, pl p = PLMac m /\ mic_bytes p m = Ok msg /\
    (length (devaddr (hdr m)) = 4%nat -> (length msg < 256)%nat ->
     (b = true <-> mic p = spec_down_mic (spec_version ver) sk conf (ack (fc (hdr m)))
                                         (devaddr (hdr m)) (fcnt (hdr m)) msg)).
Proof.
  unfold validate_down_mic. destruct (calc_down_mic ver conf sk p) as [x| | |] eqn:Hc; cbn [bind]; try discriminate.
  intros [= <-]. destruct (calc_down_ok_inv _ _ _ _ _ Hc) as (m & msg & Hp & Hm).
  exists m, msg. split; [exact Hp|]. split; [exact Hm|]. intros Hd Hl.
  rewrite (down_eq_spec _ _ _ _ _ _ Hp Hm Hd Hl) in Hc. injection Hc as <-. apply bytes_eqb_eq.
Qed.

(* a frame that carries the MIC Set computed validates; with any other four bytes it does not *)
Theorem validate_after_set_up ver conf txdr txch fk sk p q :
  set_up_mic ver conf txdr txch fk sk p = Ok q -> validate_up_mic ver conf txdr txch fk sk q = Ok true.
Proof.
  unfold set_up_mic, validate_up_mic.
  destruct (calc_up_mic ver conf txdr txch fk sk p) as [x| | |] eqn:Hc; cbn [bind]; try discriminate.
  intros [= <-].
  assert (E : calc_up_mic ver conf txdr txch fk sk (set_mic p x) = Ok x) by exact Hc.
  rewrite E. cbn [bind set_mic mic]. f_equal. now apply bytes_eqb_eq.
Qed.

Theorem validate_after_set_down ver conf sk p q :
  set_down_mic ver conf sk p = Ok q -> validate_down_mic ver conf sk q = Ok true.
Proof.
  unfold set_down_mic, validate_down_mic.
  destruct (calc_down_mic ver conf sk p) as [x| | |] eqn:Hc; cbn [bind]; try discriminate.
  intros [= <-].
  assert (E : calc_down_mic ver conf sk (set_mic p x) = Ok x) by exact Hc.
  rewrite E. cbn [bind set_mic mic]. f_equal. now apply bytes_eqb_eq.
Qed.

(* ---- inputs the specification excludes from the MIC ---- *)
(* ConfFCnt: only with ACK, and only modulo 2^16 *)
Theorem up_conf_irrelevant_without_ack ver c1 c2 txdr txch fk sk p m :
  pl p = PLMac m -> ack (fc (hdr m)) = false ->
  calc_up_mic ver c1 txdr txch fk sk p = calc_up_mic ver c2 txdr txch fk sk p.
Proof. intros Hp Ha. unfold calc_up_mic. rewrite Hp, Ha. reflexivity. Qed.

Theorem up_conf_mod_2_16 ver c1 c2 txdr txch fk sk p :
  c1 mod 65536 = c2 mod 65536 ->
  calc_up_mic ver c1 txdr txch fk sk p = calc_up_mic ver c2 txdr txch fk sk p.
Proof.
  intros H. unfold calc_up_mic. destruct (pl p); try reflexivity.
  destruct (ack (fc (hdr m))); [rewrite H|]; reflexivity.
Qed.

Theorem down_conf_irrelevant_without_ack ver c1 c2 sk p m :
  pl p = PLMac m -> ack (fc (hdr m)) = false -> calc_down_mic ver c1 sk p = calc_down_mic ver c2 sk p.
Proof. intros Hp Ha. unfold calc_down_mic. rewrite Hp, Ha. cbn [negb]. rewrite orb_true_r. reflexivity. Qed.

Theorem down_conf_mod_2_16 ver c1 c2 sk p :
  c1 mod 65536 = c2 mod 65536 -> calc_down_mic ver c1 sk p = calc_down_mic ver c2 sk p.
Proof.
  intros H. unfold calc_down_mic. destruct (pl p); try reflexivity.
  destruct (macver_eqb ver LoRaWAN1_0 || negb (ack (fc (hdr m)))); [|rewrite H]; reflexivity.
Qed.

(* LoRaWAN 1.0: ConfFCnt, TxDr, TxCh and the SNwkSIntKey argument are not used *)
Theorem up_10_ignores_11_parameters c1 c2 dr1 dr2 ch1 ch2 fk sk1 sk2 p :
  calc_up_mic LoRaWAN1_0 c1 dr1 ch1 fk sk1 p = calc_up_mic LoRaWAN1_0 c2 dr2 ch2 fk sk2 p.
Proof. unfold calc_up_mic. destruct (pl p); reflexivity. Qed.

Theorem down_10_ignores_conf c1 c2 sk p :
  calc_down_mic LoRaWAN1_0 c1 sk p = calc_down_mic LoRaWAN1_0 c2 sk p.
Proof. unfold calc_down_mic. destruct (pl p); reflexivity. Qed.

(* the carried MIC itself is not an input of the calculation *)
Theorem up_mic_ignores_carried_mic ver conf txdr txch fk sk p x :
  calc_up_mic ver conf txdr txch fk sk (set_mic p x) = calc_up_mic ver conf txdr txch fk sk p.
Proof. reflexivity. Qed.
Theorem down_mic_ignores_carried_mic ver conf sk p x :
  calc_down_mic ver conf sk (set_mic p x) = calc_down_mic ver conf sk p.
Proof. reflexivity. Qed.

(* ---- ValidateUplinkDataMICF compares the cmacF half only ---- *)
Lemma skipn2_app2 (a b : list N) : length a = 2%nat -> skipn 2 (a ++ b) = b.
Proof. destruct a as [|x [|y [|z r]]]; simpl; intros H; try discriminate; reflexivity. Qed.

Lemma firstn2_length16 (t : list N) : length t = 16%nat -> length (firstn 2 t) = 2%nat.
Proof. intros H. rewrite firstn_length. lia. Qed.

Lemma spec_up_11_halves fk sk conf txdr txch a da fc msg :
  spec_up_mic V1_1 fk sk conf txdr txch a da fc msg
  = firstn 2 (cmac sk (B1_up a conf txdr txch da fc (N.of_nat (length msg)) ++ msg))
    ++ spec_cmacF_half fk da fc msg.
Proof. reflexivity. Qed.

Theorem micf_iff fk p b :
  validate_up_micf fk p = Ok b ->
  exists m msg, pl p = PLMac m /\ mic_bytes p m = Ok msg /\
    (length (devaddr (hdr m)) = 4%nat -> (length msg < 256)%nat ->
     (b = true <-> skipn 2 (mic p) = spec_cmacF_half fk (devaddr (hdr m)) (fcnt (hdr m)) msg)).
Proof.
  unfold validate_up_micf, bind.
  destruct (calc_up_mic LoRaWAN1_1 0 0 0 fk fk p) as [x| | |] eqn:Hc; try discriminate.
  intros Hb. assert (Eb : b = bytes_eqb (skipn 2 (mic p)) (skipn 2 x)) by congruence. rewrite Eb. clear Hb Eb. destruct (calc_up_ok_inv _ _ _ _ _ _ _ _ Hc) as (m & msg & Hp & Hm).
  exists m, msg. split; [exact Hp|]. split; [exact Hm|]. intros Hd Hl.
  rewrite (up_eq_spec _ _ _ _ _ _ _ _ _ Hp Hm Hd Hl) in Hc.
  change (spec_version LoRaWAN1_1) with V1_1 in Hc. rewrite spec_up_11_halves in Hc.
  assert (E : x = firstn 2 (cmac fk (B1_up (ack (fc (hdr m))) 0 0 0 (devaddr (hdr m)) (fcnt (hdr m))
                                            (N.of_nat (length msg)) ++ msg))
                  ++ spec_cmacF_half fk (devaddr (hdr m)) (fcnt (hdr m)) msg) by congruence.
  rewrite E.
  rewrite skipn2_app2 by (apply firstn2_length16, cmac_length).
  apply bytes_eqb_eq.
Qed.

(* ... so it accepts a frame whose cmacS half is arbitrary: the first two MIC bytes, ConfFCnt,
   TxDr, TxCh and SNwkSIntKey do not influence it *)
Theorem micf_ignores_first_half fk p x y z1 z2 :
  validate_up_micf fk (set_mic p (x :: y :: z1 :: z2 :: nil))
  = validate_up_micf fk (set_mic p (0 :: 0 :: z1 :: z2 :: nil)).
Proof. reflexivity. Qed.
