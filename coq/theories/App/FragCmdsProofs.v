(* Proofs about the fragmentation command model: payload round trips with
   the TS004 layout and the reported size, no panic on encode, stream round
   trip (DataFragment extends to the end of the message: only in last position). *)
From Coq Require Import List NArith ZArith Bool Lia.
From Coq Require Import ZifyN ZifyNat ZifyBool.
From LW Require Import Base.Outcome Base.Bytes App.Common App.Spec App.ProofTools App.StreamProofs
     App.FragCmds.
Import ListNotations.
Open Scope N_scope.
Ltac Zify.zify_post_hook ::= Z.div_mod_to_equations.

Lemma land_3fff n : N.land n 0x3fff = n mod 2 ^ 14.
Proof. change 0x3fff with (N.ones 14). apply N.land_ones. Qed.

Lemma lor_index b1 fi : b1 < 64 -> fi < 4 -> N.lor b1 (shl8 (N.land fi 0x03) 6) = b1 + 64 * fi.
Proof. intros Hb Hf. enum b1 64%nat; enum fi 4%nat; reflexivity. Qed.

Lemma index_and_n_eq fi n : n < 2 ^ 14 -> fi < 4 ->
  index_and_n fi n = [n mod 256; n / 256 + 64 * fi].
Proof.
  intros Hn Hf. unfold index_and_n. rewrite land_3fff.
  cbn [le_bytes]. rewrite lor_index by lia. f_equal; [lia|]. f_equal. lia.
Qed.

Lemma shiftr6 x : N.shiftr x 6 = x / 64.
Proof. rewrite N.shiftr_div_pow2. reflexivity. Qed.

Definition greedy := FRW.greedy.

Theorem payload_roundtrip p rest : FR.in_widthb p = true -> (greedy p = true -> rest = []) ->
  exists bs d, enc p = Ok bs /\ length bs = psize p /\ bs = spec_bytes (FR.spec p)
    /\ lookup (uplink_of p) (cid_of p) = Some d /\ d (bs ++ rest) = Ok p.
Proof.
  intros H Hg. unfold FR.in_widthb in H.
  assert (Fin : forall (bs : list N) d,
    enc p = Ok bs -> length bs = psize p -> bs = spec_bytes (FR.spec p) ->
    lookup (uplink_of p) (cid_of p) = Some d -> d (bs ++ rest) = Ok p ->
    exists bs d, enc p = Ok bs /\ length bs = psize p /\ bs = spec_bytes (FR.spec p)
      /\ lookup (uplink_of p) (cid_of p) = Some d /\ d (bs ++ rest) = Ok p).
  { intros bs d; exists bs, d; auto. }
  destruct p as [i v|fi m nb fs fm bad pad desc|fi wd ins nem eu|fi|fi sdne|fi n d|fi part|fi nbr miss nemm];
    cbn [FR.spec FR.extra] in H.
  - widths H. eapply Fin; [reflexivity|reflexivity| |reflexivity| ].
    + cbn [FR.spec]; layout. bytes_eq; lia.
    + unfold dec_PackageVersionAns. run. reflexivity.
  - widths H.
    assert (Hm : length m = 4%nat) by lia.
    assert (Hd : length desc = 4%nat) by lia.
    destruct (length4 m Hm) as (m0 & m1 & m2 & m3 & ->).
    destruct (length4 desc Hd) as (d0 & d1 & d2 & d3 & ->).
    eapply Fin; [reflexivity|reflexivity| |reflexivity| ].
    + cbn [FR.spec]; layout. cbn [enc app le_bytes]. bytes_eq; try lia.
      * destruct m0, m1, m2, m3; enum fi 4%nat; reflexivity.
      * enum bad 8%nat; enum fm 8%nat; reflexivity.
    + unfold dec_FragSessionSetupReq. cbn [enc]. run. fields_eq; try lia.
      * destruct m0, m1, m2, m3; enum fi 4%nat; reflexivity.
      * destruct m0, m1, m2, m3; enum fi 4%nat; reflexivity.
      * enum bad 8%nat; enum fm 8%nat; reflexivity.
      * enum bad 8%nat; enum fm 8%nat; reflexivity.
  - widths H. eapply Fin; [reflexivity|reflexivity| |reflexivity| ].
    + cbn [FR.spec]; layout. bytes_eq. destruct wd, ins, nem, eu; enum fi 4%nat; reflexivity.
    + unfold dec_FragSessionSetupAns. cbn [enc]. run.
      destruct wd, ins, nem, eu; enum fi 4%nat; reflexivity.
  - widths H. eapply Fin; [reflexivity|reflexivity| |reflexivity| ].
    + cbn [FR.spec]; layout. bytes_eq. enum fi 4%nat; reflexivity.
    + unfold dec_FragSessionDeleteReq. run. enum fi 4%nat; reflexivity.
  - widths H. eapply Fin; [reflexivity|reflexivity| |reflexivity| ].
    + cbn [FR.spec]; layout. bytes_eq. destruct sdne; enum fi 4%nat; reflexivity.
    + unfold dec_FragSessionDeleteAns. cbn [enc]. run. destruct sdne; enum fi 4%nat; reflexivity.
  - widths H. pose proof (Hg eq_refl) as Hr. subst rest.
    assert (Hn : n < 2 ^ 14) by lia. assert (Hf : fi < 4) by lia.
    eapply Fin; [reflexivity| | |reflexivity| ].
    + cbn [enc psize]. rewrite index_and_n_eq by assumption. reflexivity.
    + cbn [enc FR.spec]. rewrite index_and_n_eq by assumption. layout. rewrite app_nil_r.
      cbn [app]. bytes_eq; lia.
    + rewrite app_nil_r. cbn [enc]. rewrite index_and_n_eq by assumption. unfold dec_DataFragment. run.
      rewrite land_3fff, shiftr6. fields_eq; lia.
  - widths H. eapply Fin; [reflexivity|reflexivity| |reflexivity| ].
    + cbn [FR.spec]; layout. bytes_eq. destruct part; enum fi 4%nat; reflexivity.
    + unfold dec_FragSessionStatusReq. cbn [enc]. run. destruct part; enum fi 4%nat; reflexivity.
  - widths H.
    assert (Hn : nbr < 2 ^ 14) by lia. assert (Hf : fi < 4) by lia.
    eapply Fin; [reflexivity| | |reflexivity| ].
    + cbn [enc psize]. rewrite index_and_n_eq by assumption. reflexivity.
    + cbn [enc FR.spec]. rewrite index_and_n_eq by assumption. layout. cbn [app].
      bytes_eq; try lia. destruct nemm; reflexivity.
    + cbn [enc]. rewrite index_and_n_eq by assumption. unfold dec_FragSessionStatusAns. run.
      rewrite land_3fff, shiftr6. fields_eq; try lia. destruct nemm; reflexivity.
Qed.

Theorem enc_no_panic p : enc p <> Panic.
Proof. destruct p; discriminate. Qed.

Lemma dec_fuel_free up cid d data : lookup up cid = Some d -> d data <> OutOfFuel.
Proof.
  unfold lookup. destruct up.
  - cid_cases cid; intros E; try discriminate E; inversion E; subst; clear E.
    all: unfold dec_PackageVersionAns, dec_FragSessionStatusAns, dec_FragSessionSetupAns,
         dec_FragSessionDeleteAns; no_fuel.
  - cid_cases cid; intros E; try discriminate E; inversion E; subst; clear E.
    all: unfold dec_FragSessionStatusReq, dec_FragSessionSetupReq, dec_FragSessionDeleteReq,
         dec_DataFragment; no_fuel.
Qed.

Lemma cmd_roundtrip up (c : command) rest :
  FRW.wf_cmd up c = true -> (cmd_greedy FRW.greedy c = true -> rest = []) ->
  exists bs, cmd_enc c = Ok bs /\ length bs = cmd_size c /\ bs = spec_cmd_bytes FR.spec c
             /\ cmd_dec up (whole up (bs ++ rest)) = Ok c.
Proof.
  destruct c as [cid [p|]]; unfold FRW.wf_cmd, wf_cmd, cmd_greedy; cbn [fst snd]; intros H Hg.
  - apply andb_true_iff in H as [H Hw]. apply andb_true_iff in H as [Hc Hu].
    apply N.eqb_eq in Hc. apply eqb_prop in Hu. subst cid up.
    destruct (payload_roundtrip p rest Hw Hg) as (bs & d & E & L & S & Lk & D).
    exists (cid_of p :: bs). unfold cmd_enc, Common.cmd_enc, cmd_size, Common.cmd_size, cmd_dec, Common.cmd_dec, whole.
    cbn [fst snd]. rewrite E. cbn [bind app length]. rewrite L.
    split; [reflexivity|]. split; [lia|]. split; [unfold spec_cmd_bytes; cbn [fst snd]; now rewrite S|].
    rewrite Lk, D. reflexivity.
  - apply andb_true_iff in H as [Hc Hn]. exists [cid].
    unfold cmd_enc, Common.cmd_enc, cmd_size, Common.cmd_size, cmd_dec, Common.cmd_dec, whole.
    cbn [fst snd app]. repeat split.
    unfold FRW.has_payload, opt_some in Hn. destruct (lookup up cid); [discriminate|reflexivity].
Qed.

Theorem stream_roundtrip up (cs : list command) :
  FRW.wf_stream up cs = true ->
  exists bs, cmds_enc cs = Ok bs
    /\ length bs = fold_right Nat.add O (map cmd_size cs)
    /\ bs = FRW.stream_bytes cs
    /\ cmds_dec up bs = Ok cs.
Proof.
  apply (StreamProofs.stream_roundtrip payload enc psize lookup whole FR.in_widthb cid_of uplink_of
           FRW.has_payload FRW.greedy FR.spec).
  intros up' c rest Hwf Hg. now apply cmd_roundtrip.
Qed.

Theorem stream_dec_terminates up data : cmds_dec up data <> OutOfFuel.
Proof. apply (StreamProofs.stream_dec_terminates payload psize lookup whole dec_fuel_free). Qed.

(* the statement of C18 for fragmentation streams at full strength, with the one exception:
   every sequence of individually well-formed commands round-trips, or a DataFragment is
   followed by another command (known finding C18-5) *)
Theorem stream_roundtrip_or_known up (cs : list command) :
  forallb (FRW.wf_cmd up) cs = true ->
  (exists bs, cmds_enc cs = Ok bs
     /\ length bs = fold_right Nat.add O (map cmd_size cs)
     /\ bs = FRW.stream_bytes cs
     /\ cmds_dec up bs = Ok cs)
  \/ FRW.data_fragment_not_last cs = true.
Proof.
  intros H. destruct (FRW.data_fragment_not_last cs) eqn:E; [now right|left].
  apply stream_roundtrip. unfold FRW.wf_stream. rewrite wf_stream_split.
  unfold FRW.wf_cmd in H. rewrite H. unfold FRW.data_fragment_not_last in E. now rewrite E.
Qed.

(* the exception is real (audit input): DataFragment{FragIndex 1, N 2, aa bb} followed by
   FragSessionStatusReq{FragIndex 1, Participants} encodes to 08 02 40 aa bb 01 03 without error and
   decodes as one DataFragment with payload aa bb 01 03 *)
Example data_fragment_not_last :
  exists cs bs, forallb (FRW.wf_cmd false) cs = true /\ FRW.data_fragment_not_last cs = true
    /\ cmds_enc cs = Ok bs /\ bs = [0x08; 0x02; 0x40; 0xaa; 0xbb; 0x01; 0x03]
    /\ cmds_dec false bs = Ok [(8, Some (DataFragment 1 2 [0xaa; 0xbb; 0x01; 0x03]))]
    /\ cmds_dec false bs <> Ok cs.
Proof.
  exists [(8, Some (DataFragment 1 2 [0xaa; 0xbb])); (1, Some (FragSessionStatusReq 1 true))]. eexists.
  split; [reflexivity|]. split; [reflexivity|]. split; [reflexivity|]. split; [reflexivity|].
  split; [reflexivity|]. vm_compute. discriminate.
Qed.
