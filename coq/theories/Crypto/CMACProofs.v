(* AES-CMAC model: the tag has 16 bytes, each < 256. *)
From Coq Require Import List NArith Bool Lia Arith.
From LW Require Import Base.Bytes Crypto.AES Crypto.AESInv Crypto.CMAC.
Import ListNotations.
Open Scope N_scope.

Lemma be_bytes_ok k x : Forall byte (be_bytes k x).
Proof. unfold be_bytes. apply Forall_rev. apply le_bytes_ok. Qed.

Lemma dbl_st16 l : st16 (dbl l).
Proof. unfold dbl. split; [apply be_bytes_length|apply be_bytes_ok]. Qed.

Lemma zero16_st16 : st16 zero16.
Proof. split; [reflexivity|]. unfold zero16. cbn [repeat]. repeat constructor. Qed.

Lemma subkeys_st16 rks : st16 (fst (subkeys_rk rks)) /\ st16 (snd (subkeys_rk rks)).
Proof. unfold subkeys_rk. cbn [fst snd]. split; apply dbl_st16. Qed.

Lemma pad16_bytes m : Forall byte m -> Forall byte (pad16 m).
Proof.
  intros H. unfold pad16. apply Forall_firstn'. apply Forall_app. split; [exact H|].
  cbn [repeat]. repeat constructor.
Qed.

Lemma Forall_skipn' {A} (P : A -> Prop) n l : Forall P l -> Forall P (skipn n l).
Proof.
  intros H; revert n; induction H; intros [|n]; cbn [skipn]; try constructor; auto.
Qed.

Lemma cmac_loop_st16 fuel rks k1 k2 : Forall st16 rks -> Forall byte k1 -> Forall byte k2 ->
  forall x m, st16 x -> Forall byte m -> st16 (cmac_loop fuel rks k1 k2 x m).
Proof.
  intros Hr H1 H2. induction fuel as [|fuel IH]; intros x m Hx Hm; [exact Hx|].
  cbn [cmac_loop]. destruct (length m <=? 16)%nat.
  - apply aes_encrypt_rk_st16; [exact Hr|]. apply xor_bytes_byte; [apply Hx|].
    destruct (length m =? 16)%nat; apply xor_bytes_byte; auto using pad16_bytes.
  - apply IH; [|apply Forall_skipn', Hm].
    apply aes_encrypt_rk_st16; [exact Hr|]. apply xor_bytes_byte; [apply Hx|apply Forall_firstn', Hm].
Qed.

Lemma cmac_rk_st16 rks m : Forall st16 rks -> Forall byte m -> st16 (cmac_rk rks m).
Proof.
  intros Hr Hm. unfold cmac_rk.
  pose proof (subkeys_st16 rks) as [[_ H1] [_ H2]].
  destruct (subkeys_rk rks) as [k1 k2]. cbn [fst snd] in *.
  apply cmac_loop_st16; auto using zero16_st16.
Qed.

Theorem cmac_st16 : forall k m, Forall byte k -> Forall byte m -> st16 (cmac k m).
Proof. intros k m Hk Hm. apply cmac_rk_st16; [apply expand_key_st16, Hk|exact Hm]. Qed.

(* length: no hypothesis on key or message *)
Lemma cmac_loop_len16 fuel rks k1 k2 : Forall len16 rks ->
  forall x m, len16 x -> len16 (cmac_loop fuel rks k1 k2 x m).
Proof.
  intros Hr. induction fuel as [|fuel IH]; intros x m Hx; [exact Hx|].
  cbn [cmac_loop]. destruct (length m <=? 16)%nat.
  - apply aes_encrypt_rk_len16, Hr.
  - apply IH. apply aes_encrypt_rk_len16, Hr.
Qed.

Theorem cmac_length : forall k m, length (cmac k m) = 16%nat.
Proof.
  intros k m. unfold cmac, cmac_rk. destruct (subkeys_rk (expand_key k)) as [k1 k2].
  apply cmac_loop_len16; [apply expand_key_len16|reflexivity].
Qed.

Theorem cmac_bytes : forall k m,
  Forall (fun x => x < 256) k -> Forall (fun x => x < 256) m -> Forall (fun x => x < 256) (cmac k m).
Proof. intros k m Hk Hm. apply (cmac_st16 k m Hk Hm). Qed.

(* ---- unfolding lemmas for callers ---- *)
(* a message of at most 16 bytes is a single block *)
Lemma cmac_rk_short rks m : (length m <= 16)%nat ->
  cmac_rk rks m =
  let '(k1, k2) := subkeys_rk rks in
  aes_encrypt_rk rks (xor_bytes zero16
    (if (length m =? 16)%nat then xor_bytes m k1 else xor_bytes (pad16 m) k2)).
Proof.
  intros H. unfold cmac_rk. destruct (subkeys_rk rks) as [k1 k2]. cbn [cmac_loop].
  apply Nat.leb_le in H. rewrite H. reflexivity.
Qed.
