(* C20, sensitivity/sensitivity.go: the integer bracket used to judge CalculateSensitivity.

   The implementation computes  S = float32(-174 + 10*math.Log10(bw) + float64(nf+snr))  in binary
   floating point; float32 rounding and the libm logarithm are NOT modelled.  The correspondence run
   judges every observed value o with the integer test below; Misc/SensProofs.v proves that the test
   means what it is used for:  sens_bracket bw (nf+snr) o = true  implies
   |o - (-174 + 10 log10 bw + nf + snr)| <= 0.1 dB over the real numbers. *)
From Coq Require Import ZArith QArith Qround Bool.
Local Open Scope Z_scope.

(* y := o + 174 - (nf+snr), m := floor(20 y):  10^(m-1) <= bw^200 <= 10^(m+2)
   (bw^200 = 10^(20 * 10 log10 bw)) *)
Definition sens_bracket (bw : Z) (nfsnr o : Q) : bool :=
  let y := (o + 174 - nfsnr)%Q in
  let m := Qfloor (20 * y) in
  (0 <? bw) && (10 ^ (m - 1) <=? bw ^ 200) && (bw ^ 200 <=? 10 ^ (m + 2)).
