(* Proofs about the model of fragmentation.Encode (after the repair 9813ac2):
   it equals the TS004 transcription for every valid input (hence systematic,
   parity rows = XOR of the rows the matrix line selects), it is linear, a
   left inverse of the selected generator rows recovers the block, invalid
   sizes are errors, nothing panics, and the PRBS retry loop terminates. *)
From Coq Require Import List NArith ZArith Bool Lia.
From Coq Require Import ZifyN ZifyNat ZifyBool.
From LW Require Import Base.Outcome Base.Bytes App.FragEncode App.FragSpec App.FragLinearProofs.
Import ListNotations.
Open Scope N_scope.
Ltac Zify.zify_post_hook ::= Z.to_euclidean_division_equations.

(* ---- prbs23 ------------------------------------------------------------------ *)
Lemma land_pow2 x k : N.land x (2 ^ k) = if N.testbit x k then 2 ^ k else 0.
Proof.
  apply N.bits_inj. intros i. rewrite N.land_spec, N.pow2_bits_eqb.
  destruct (N.eqb_spec k i) as [->|Hne].
  - rewrite andb_true_r. destruct (N.testbit x i) eqn:E; [now rewrite N.pow2_bits_true|now rewrite N.bits_0].
  - rewrite andb_false_r. destruct (N.testbit x k); [rewrite N.pow2_bits_false; auto|now rewrite N.bits_0].
Qed.

Lemma of_N_land a b : Z.land (Z.of_N a) (Z.of_N b) = Z.of_N (N.land a b).
Proof. destruct a, b; reflexivity. Qed.

Lemma prbs23_spec x : prbs23 (Z.of_N x) = Z.of_N (spec_prbs23 x).
Proof.
  unfold prbs23, spec_prbs23.
  change 1%Z with (Z.of_N 1). change 32%Z with (Z.of_N 32). rewrite !of_N_land.
  change 1 with (2 ^ 0) at 1. change 32 with (2 ^ 5) at 1. rewrite !land_pow2.
  rewrite N.shiftr_div_pow2. change (2 ^ 1) with 2.
  rewrite N2Z.inj_add, N2Z.inj_div.
  rewrite Z.quot_div_nonneg by lia.
  destruct (N.testbit x 0), (N.testbit x 5); cbn [xorb]; reflexivity.
Qed.

Lemma prbs23_nonneg x : (0 <= x)%Z -> (0 <= prbs23 x)%Z.
Proof. intros H. rewrite <- (Z2N.id x H), prbs23_spec. lia. Qed.

(* ---- power-of-two test, on the range that matters ------------------------------ *)
Fixpoint nrange (len : nat) (s : N) : list N :=
  match len with O => [] | S l => s :: nrange l (s + 1) end.
Lemma in_nrange len : forall s x, s <= x < s + N.of_nat len -> In x (nrange len s).
Proof.
  induction len as [|len IH]; intros s x H; [lia|]. cbn [nrange].
  destruct (N.eq_dec s x) as [->|Hne]; [now left|right]. apply IH. lia.
Qed.

Lemma pow2_agree_sweep :
  forallb (fun m => Bool.eqb (is_power2 (Z.of_N m)) (spec_pow2 m)) (nrange (N.to_nat 65537) 0) = true.
Proof. vm_compute. reflexivity. Qed.

Lemma pow2_agree m : m <= 65536 -> is_power2 (Z.of_N m) = spec_pow2 m.
Proof.
  intros H. pose proof pow2_agree_sweep as S. rewrite forallb_forall in S.
  apply eqb_prop. apply S. apply in_nrange. lia.
Qed.

(* ---- one coefficient ------------------------------------------------------------ *)
Lemma draw_spec fuel : forall x M mm, 0 < M + mm ->
  draw fuel (Z.of_N x) (Z.of_N M) (Z.of_N mm) =
  match spec_draw fuel x (M + mm) M with
  | Some (x', r) => Ok (Z.of_N x', Z.of_N r)
  | None => OutOfFuel
  end.
Proof.
  induction fuel as [|fuel IH]; intros x M mm Hpos; [reflexivity|].
  cbn [draw spec_draw]. rewrite prbs23_spec.
  replace (Z.of_N M + Z.of_N mm =? 0)%Z with false by lia.
  rewrite <- N2Z.inj_add. rewrite Z.rem_mod_nonneg by lia. rewrite <- N2Z.inj_mod.
  destruct (M <=? spec_prbs23 x mod (M + mm)) eqn:E.
  - replace (Z.of_N (spec_prbs23 x mod (M + mm)) >=? Z.of_N M)%Z with true by lia. now apply IH.
  - replace (Z.of_N (spec_prbs23 x mod (M + mm)) >=? Z.of_N M)%Z with false by lia. reflexivity.
Qed.

Lemma spec_draw_lt fuel : forall x md M x' r, spec_draw fuel x md M = Some (x', r) -> r < M.
Proof.
  induction fuel as [|fuel IH]; intros x md M x' r; cbn [spec_draw]; [discriminate|].
  destruct (M <=? spec_prbs23 x mod md) eqn:E; [apply IH|].
  intros H; inversion H; subst. lia.
Qed.

(* ---- a whole line ---------------------------------------------------------------- *)
Lemma set_one_spec : forall line r, (r < length line)%nat ->
  exists l', set_one r line = Some l' /\ length l' = length line
             /\ forall j, nth j l' false = Nat.eqb j r || nth j line false.
Proof.
  induction line as [|b line IH]; intros r Hr; [simpl in Hr; lia|].
  destruct r as [|r]; cbn [set_one].
  - exists (true :: line). repeat split. intros [|j]; reflexivity.
  - destruct (IH r) as (l' & E & L & Hn); [simpl in Hr; lia|].
    rewrite E. exists (b :: l'). split; [reflexivity|]. split; [simpl; lia|].
    intros [|j]; cbn [nth Nat.eqb]; [reflexivity|apply Hn].
Qed.

(* the vector after setting all drawn columns *)
Definition marks (rs : list N) (line : list bool) : list bool :=
  map (fun j => existsb (N.eqb (N.of_nat j)) rs || nth j line false) (seq 0 (length line)).

Lemma map_nth_seq (l : list bool) : map (fun j => nth j l false) (seq 0 (length l)) = l.
Proof.
  apply nth_ext with (d := nth 0 l false) (d' := false).
  - now rewrite map_length, seq_length.
  - intros j Hj. rewrite map_length, seq_length in Hj.
    pose proof (map_nth (fun j => nth j l false) (seq 0 (length l)) 0%nat j) as H.
    cbv beta in H. rewrite H. now rewrite seq_nth.
Qed.

Lemma marks_nil line : marks [] line = line.
Proof. unfold marks. cbn [existsb orb]. apply map_nth_seq. Qed.

Lemma marks_cons r rs line l' : (N.to_nat r < length line)%nat ->
  length l' = length line -> (forall j, nth j l' false = Nat.eqb j (N.to_nat r) || nth j line false) ->
  marks rs l' = marks (r :: rs) line.
Proof.
  intros Hr L Hn. unfold marks. rewrite L. apply map_ext. intros j.
  cbn [existsb]. rewrite Hn.
  replace (N.of_nat j =? r) with (Nat.eqb j (N.to_nat r)) by
    (destruct (Nat.eqb_spec j (N.to_nat r)), (N.eqb_spec (N.of_nat j) r); auto; lia).
  destruct (Nat.eqb j (N.to_nat r)), (existsb (N.eqb (N.of_nat j)) rs); reflexivity.
Qed.

Lemma coeffs_spec fuel M mm : 0 < M + mm -> M <= 65536 ->
  forall k x line, length line = N.to_nat M ->
  coeffs k fuel (Z.of_N x) (Z.of_N M) (Z.of_N mm) line =
  match spec_columns k fuel x (M + mm) M with
  | Some rs => Ok (marks rs line)
  | None => OutOfFuel
  end.
Proof.
  intros Hpos HM. induction k as [|k IH]; intros x line Hl.
  - cbn [coeffs spec_columns]. now rewrite marks_nil.
  - cbn [coeffs spec_columns].
    replace (65536 >=? Z.of_N M)%Z with true by lia.
    rewrite draw_spec by assumption.
    destruct (spec_draw fuel x (M + mm) M) as [[x' r]|] eqn:Ed; [|reflexivity].
    cbn [bind]. pose proof (spec_draw_lt _ _ _ _ _ _ Ed) as Hr.
    replace (Z.of_N r <? 0)%Z with false by lia.
    replace (Z.to_nat (Z.of_N r)) with (N.to_nat r) by lia.
    destruct (set_one_spec line (N.to_nat r)) as (l' & E & L & Hn); [lia|].
    rewrite E. rewrite IH by lia.
    destruct (spec_columns k fuel x' (M + mm) M) as [rs|]; [|reflexivity].
    f_equal. apply marks_cons; auto. lia.
Qed.

Lemma marks_false rs n :
  marks rs (repeat false n) = map (fun j => existsb (N.eqb (N.of_nat j)) rs) (seq 0 n).
Proof.
  unfold marks. rewrite repeat_length. apply map_ext. intros j.
  replace (nth j (repeat false n) false) with false; [apply orb_false_r|].
  symmetry. destruct (Nat.lt_ge_cases j n) as [Hj|Hj].
  - apply nth_repeat.
  - apply nth_overflow. now rewrite repeat_length.
Qed.

Theorem matrix_line_spec fuel n M : M <= 65536 ->
  matrix_line fuel (Z.of_N n) (Z.of_N M) =
  match spec_matrix_line fuel n M with Some l => Ok l | None => OutOfFuel end.
Proof.
  intros HM. unfold matrix_line, spec_matrix_line, spec_line_columns.
  replace (Z.of_N M <? 0)%Z with false by lia.
  rewrite pow2_agree by assumption.
  rewrite Z.quot_div_nonneg by lia.
  change 2%Z with (Z.of_N 2). rewrite <- N2Z.inj_div.
  replace (Z.to_nat (Z.of_N (M / 2))) with (N.to_nat (M / 2)) by lia.
  replace (Z.to_nat (Z.of_N M)) with (N.to_nat M) by lia.
  change 1%Z with (Z.of_N 1) at 1. change 1001%Z with (Z.of_N 1001).
  rewrite <- N2Z.inj_mul, <- N2Z.inj_add.
  destruct (N.eq_dec (M / 2) 0) as [Hz|Hnz].
  - rewrite Hz. cbn [N.to_nat coeffs spec_columns]. f_equal. rewrite <- marks_false. now rewrite marks_nil.
  - set (mm := if spec_pow2 M then 1 else 0).
    replace (if spec_pow2 M then 1%Z else 0%Z) with (Z.of_N mm) by (unfold mm; destruct (spec_pow2 M); reflexivity).
    rewrite coeffs_spec; try assumption.
    + destruct (spec_columns _ _ _ _ _) as [rs|]; [|reflexivity]. f_equal. apply marks_false.
    + unfold mm. destruct (spec_pow2 M); lia.
    + apply repeat_length.
Qed.

(* ---- Encode ------------------------------------------------------------------------ *)
Lemma data_rows_chunks k : forall n data, length data = (n * k)%nat ->
  data_rows n data k = Ok (chunks n k data).
Proof.
  induction n as [|n IH]; intros data H; [reflexivity|].
  cbn [data_rows chunks].
  replace (k <=? length data)%nat with true by (symmetry; apply Nat.leb_le; lia).
  rewrite IH by (rewrite skipn_length; lia). reflexivity.
Qed.

Lemma xor_selected_comb k : forall a rows s, rows_ok k rows -> length s = k ->
  xor_selected a rows s = xor_bytes s (comb k a rows).
Proof.
  induction a as [|sel a IH]; intros rows s Hr Hs.
  - cbn [xor_selected comb]. now rewrite xor_zeros_r.
  - destruct rows as [|row rows]; cbn [xor_selected comb]; [now rewrite xor_zeros_r|].
    inversion Hr as [|? ? Hrow Hrows]; subst.
    destruct sel.
    + rewrite IH; auto; [apply xor_assoc|]. rewrite xor_bytes_length. lia.
    + now apply IH.
Qed.

Lemma parity_rows_spec fuel rows k : rows_ok k rows -> N.of_nat (length rows) <= 65536 ->
  (Z.of_nat k <= MAXALLOC)%Z ->
  forall cnt y,
  parity_rows fuel cnt (Z.of_N y) rows (Z.of_nat k) =
  match spec_parity_lines fuel cnt y (N.of_nat (length rows)) with
  | Some ls => Ok (map (fun l => comb k l rows) ls)
  | None => OutOfFuel
  end.
Proof.
  intros Hr Hl Hk. induction cnt as [|cnt IH]; intros y; [reflexivity|].
  cbn [parity_rows spec_parity_lines].
  replace (Z.of_nat k <? 0)%Z with false by lia. replace (MAXALLOC <? Z.of_nat k)%Z with false by lia. cbn [orb].
  replace (Z.of_N y + 1)%Z with (Z.of_N (y + 1)) by lia.
  replace (Z.of_nat (length rows)) with (Z.of_N (N.of_nat (length rows))) by lia.
  rewrite matrix_line_spec by lia.
  destruct (spec_matrix_line fuel (y + 1) (N.of_nat (length rows))) as [l|]; [|reflexivity].
  cbn [bind]. rewrite IH.
  destruct (spec_parity_lines fuel cnt (y + 1) (N.of_nat (length rows))) as [ls|]; [|reflexivity].
  cbn [bind map]. f_equal. f_equal.
  rewrite Nat2Z.id. rewrite (xor_selected_comb k) by (auto; apply repeat_length).
  apply xor_zeros_l. now apply comb_length.
Qed.

(* the specification's fragments: the uncoded rows, then the parity rows *)
Lemma spec_encode_unfold fuel data k red : (0 < k)%nat -> length data = (length data / k * k)%nat ->
  spec_encode fuel data k red =
  match spec_parity_lines fuel red 0 (N.of_nat (length data / k)) with
  | Some ls => Some (chunks (length data / k) k data
                     ++ map (fun l => comb k l (chunks (length data / k) k data)) ls)
  | None => None
  end.
Proof.
  intros Hk Hd. unfold spec_encode, spec_generator.
  destruct (spec_parity_lines fuel red 0 (N.of_nat (length data / k))) as [ls|]; [|reflexivity].
  f_equal. unfold mat_apply. rewrite map_app. f_equal.
  pose proof (mat_apply_identity k (chunks (length data / k) k data) (chunks_ok _ _ _ Hd)) as Hi.
  rewrite chunks_length in Hi. exact Hi.
Qed.

Definition valid (data : list N) (size : Z) : Prop :=
  (0 < size)%Z /\ (0 < length data)%nat /\ Z.rem (Z.of_nat (length data)) size = 0%Z.

(* a Go byte slice is never longer than the runtime's allocation limit *)
Definition fits (data : list N) : Prop := (Z.of_nat (length data) <= MAXALLOC)%Z.

Lemma valid_nat data size : valid data size ->
  let k := Z.to_nat size in
  (0 < k)%nat /\ size = Z.of_nat k /\ length data = (length data / k * k)%nat
  /\ Z.quot (Z.of_nat (length data)) size = Z.of_nat (length data / k)
  /\ (k <= length data)%nat.
Proof.
  intros (Hs & Hpos & Hr) k. assert (Hk : size = Z.of_nat k) by (unfold k; lia).
  split; [lia|]. split; [exact Hk|].
  rewrite Hk in *. rewrite Z.rem_mod_nonneg in Hr by lia. rewrite Z.quot_div_nonneg by lia.
  rewrite <- Nat2Z.inj_mod in Hr. rewrite <- Nat2Z.inj_div.
  pose proof (Nat.div_mod_eq (length data) k).
  assert (Hd : length data = (length data / k * k)%nat) by lia.
  split; [exact Hd|]. split; [reflexivity|].
  destruct (length data / k)%nat; lia.
Qed.

Theorem encode_spec fuel data size red : valid data size -> fits data ->
  N.of_nat (length data / Z.to_nat size) <= 65536 ->
  encode_with fuel data size red =
  match spec_encode fuel data (Z.to_nat size) (Z.to_nat red) with
  | Some fr => Ok fr
  | None => OutOfFuel
  end.
Proof.
  intros Hv Hfit Hn. destruct (valid_nat data size Hv) as (Hk & Hsz & Hd & Hq & Hle).
  destruct Hv as (Hs & Hpos & Hr). unfold encode_with. unfold fits in Hfit.
  remember (Z.to_nat size) as k eqn:Ek. clear Ek. subst size.
  replace (Z.of_nat k <=? 0)%Z with false by lia. replace (Z.of_nat k =? 0)%Z with false by lia.
  replace (Z.of_nat (length data) =? 0)%Z with false by lia.
  rewrite Hr. cbn [Z.eqb negb]. rewrite Hq, !Nat2Z.id.
  rewrite data_rows_chunks by exact Hd. cbn [bind].
  change 0%Z with (Z.of_N 0).
  rewrite parity_rows_spec; [|now apply chunks_ok|now rewrite chunks_length|lia].
  rewrite chunks_length, spec_encode_unfold by assumption.
  destruct (spec_parity_lines fuel (Z.to_nat red) 0 (N.of_nat (length data / k))); reflexivity.
Qed.

(* ---- invalid sizes ---------------------------------------------------------------- *)
Theorem encode_invalid fuel data size red : ~ valid data size ->
  encode_with fuel data size red = Err.
Proof.
  intros Hn. unfold encode_with, valid in *.
  destruct (size <=? 0)%Z eqn:E1; [reflexivity|].
  destruct (Z.of_nat (length data) =? 0)%Z eqn:E0; [reflexivity|].
  replace (size =? 0)%Z with false by lia.
  destruct (Z.rem (Z.of_nat (length data)) size =? 0)%Z eqn:E2; [|reflexivity].
  exfalso. apply Hn. split; lia.
Qed.

(* ---- systematic prefix and parity rows, stated on the fragments ---------------------- *)
Theorem encode_systematic fuel data size red frags : valid data size -> fits data ->
  N.of_nat (length data / Z.to_nat size) <= 65536 ->
  encode_with fuel data size red = Ok frags ->
  let k := Z.to_nat size in
  let n := (length data / k)%nat in
  exists lines,
    spec_parity_lines fuel (Z.to_nat red) 0 (N.of_nat n) = Some lines
    /\ length lines = Z.to_nat red
    /\ frags = chunks n k data ++ map (fun l => comb k l (chunks n k data)) lines
    /\ firstn n frags = chunks n k data
    /\ concat (firstn n frags) = data.
Proof.
  intros Hv Hfit Hn He k n. destruct (valid_nat data size Hv) as (Hk & Hsz & Hd & Hq & _).
  rewrite encode_spec in He by assumption.
  fold k in Hk, Hd, He. rewrite spec_encode_unfold in He by assumption. fold n in He.
  destruct (spec_parity_lines fuel (Z.to_nat red) 0 (N.of_nat n)) as [ls|] eqn:El; [|discriminate].
  inversion He; subst frags. exists ls. split; [reflexivity|].
  assert (Hlen : forall cnt y ls', spec_parity_lines fuel cnt y (N.of_nat n) = Some ls' -> length ls' = cnt).
  { induction cnt as [|cnt IH]; intros y ls' H; cbn [spec_parity_lines] in H.
    - now inversion H.
    - destruct (spec_matrix_line fuel (y + 1) (N.of_nat n)); [|discriminate].
      destruct (spec_parity_lines fuel cnt (y + 1) (N.of_nat n)) eqn:E; [|discriminate].
      inversion H; subst. cbn [length]. f_equal. eapply IH; eauto. }
  split; [eapply Hlen; eauto|]. split; [reflexivity|].
  assert (Hf : firstn n (chunks n k data ++ map (fun l => comb k l (chunks n k data)) ls) = chunks n k data).
  { rewrite <- (chunks_length n k data) at 1. apply take_app_length. }
  split; [exact Hf|]. rewrite Hf. apply chunks_concat. exact Hd.
Qed.

(* ---- generator form, linearity, recovery ----------------------------------------------- *)
Lemma encode_generator fuel data size red frags : valid data size -> fits data ->
  N.of_nat (length data / Z.to_nat size) <= 65536 ->
  encode_with fuel data size red = Ok frags ->
  exists G, spec_generator fuel (length data / Z.to_nat size) (Z.to_nat red) = Some G
    /\ frags = mat_apply (Z.to_nat size) G (chunks (length data / Z.to_nat size) (Z.to_nat size) data).
Proof.
  intros Hv Hfit Hn He. rewrite encode_spec in He by assumption. unfold spec_encode in He.
  destruct (spec_generator fuel (length data / Z.to_nat size) (Z.to_nat red)) as [G|]; [|discriminate].
  exists G. split; [reflexivity|]. now inversion He.
Qed.

Theorem encode_linear fuel d1 d2 size red fr1 fr2 :
  length d1 = length d2 -> valid d1 size -> fits d1 -> N.of_nat (length d1 / Z.to_nat size) <= 65536 ->
  encode_with fuel d1 size red = Ok fr1 -> encode_with fuel d2 size red = Ok fr2 ->
  encode_with fuel (xor_bytes d1 d2) size red = Ok (xor_rows fr1 fr2).
Proof.
  intros Hl Hv Hfit Hn E1 E2.
  assert (Hv2 : valid d2 size) by (unfold valid in *; now rewrite <- Hl).
  assert (Hfit2 : fits d2) by (unfold fits in *; now rewrite <- Hl).
  assert (Hlx : length (xor_bytes d1 d2) = length d1) by (rewrite xor_bytes_length; lia).
  assert (Hvx : valid (xor_bytes d1 d2) size) by (unfold valid in *; now rewrite Hlx).
  assert (Hfitx : fits (xor_bytes d1 d2)) by (unfold fits in *; now rewrite Hlx).
  destruct (valid_nat d1 size Hv) as (Hk & Hsz & Hd & Hq & _).
  destruct (encode_generator _ _ _ _ _ Hv Hfit Hn E1) as (G & HG & ->).
  assert (Hn2 : N.of_nat (length d2 / Z.to_nat size) <= 65536) by now rewrite <- Hl.
  destruct (encode_generator _ _ _ _ _ Hv2 Hfit2 Hn2 E2) as (G2 & HG2 & ->).
  rewrite <- Hl in HG2. rewrite HG in HG2. inversion HG2; subst G2.
  rewrite encode_spec by (auto; now rewrite Hlx). unfold spec_encode. rewrite Hlx, HG.
  f_equal. rewrite chunks_xor. rewrite <- Hl.
  apply mat_apply_xor_rows.
  - now apply chunks_ok.
  - apply chunks_ok. now rewrite <- Hl.
  - now rewrite !chunks_length.
Qed.

Lemma spec_matrix_line_length fuel n M l : spec_matrix_line fuel n M = Some l -> length l = N.to_nat M.
Proof.
  unfold spec_matrix_line. destruct (spec_line_columns fuel n M); [|discriminate].
  intros H; inversion H. now rewrite map_length, seq_length.
Qed.

Lemma spec_generator_shape fuel n red G : spec_generator fuel n red = Some G ->
  length G = (n + red)%nat /\ Forall (fun s => length s = n) G.
Proof.
  unfold spec_generator. destruct (spec_parity_lines fuel red 0 (N.of_nat n)) as [ls|] eqn:El; [|discriminate].
  intros H; inversion H; subst G; clear H.
  assert (Hls : forall cnt y ls', spec_parity_lines fuel cnt y (N.of_nat n) = Some ls' ->
                length ls' = cnt /\ Forall (fun s => length s = n) ls').
  { induction cnt as [|cnt IH]; intros y ls' H; cbn [spec_parity_lines] in H.
    - inversion H. split; [reflexivity|constructor].
    - destruct (spec_matrix_line fuel (y + 1) (N.of_nat n)) as [l|] eqn:Em; [|discriminate].
      destruct (spec_parity_lines fuel cnt (y + 1) (N.of_nat n)) as [r|] eqn:E; [|discriminate].
      inversion H; subst. destruct (IH _ _ E) as [L F]. split; [simpl; lia|].
      constructor; [|exact F]. rewrite (spec_matrix_line_length _ _ _ _ Em). lia. }
  destruct (Hls _ _ _ El) as [L F]. split.
  - rewrite app_length. unfold identity. rewrite map_length, seq_length. lia.
  - apply Forall_app. split; [|exact F].
    unfold identity, unit_row. apply Forall_forall. intros s Hs. apply in_map_iff in Hs as (i & <- & _).
    now rewrite map_length, seq_length.
Qed.

(* any subset of the fragments whose generator rows have a left inverse over GF(2)
   (i.e. full rank) determines the block: the inverse applied to the received
   fragments is the list of uncoded fragments *)
Theorem encode_recover fuel data size red frags G kept T : valid data size -> fits data ->
  N.of_nat (length data / Z.to_nat size) <= 65536 ->
  encode_with fuel data size red = Ok frags ->
  let k := Z.to_nat size in
  let n := (length data / k)%nat in
  spec_generator fuel n (Z.to_nat red) = Some G ->
  Forall (fun i => (i < n + Z.to_nat red)%nat) kept ->
  mat_mul n T (select kept G []) = identity n ->
  mat_apply k T (select kept frags []) = chunks n k data
  /\ concat (mat_apply k T (select kept frags [])) = data.
Proof.
  intros Hv Hfit Hn He k n HG Hkept HT.
  destruct (valid_nat data size Hv) as (Hk & Hsz & Hd & Hq & _). fold k in Hk, Hd.
  destruct (encode_generator _ _ _ _ _ Hv Hfit Hn He) as (G' & HG' & Hfr).
  fold k n in HG', Hfr. rewrite HG in HG'. inversion HG'; subst G'. clear HG'.
  destruct (spec_generator_shape _ _ _ _ HG) as [LG FG].
  assert (Hrows : rows_ok k (chunks n k data)) by now apply chunks_ok.
  assert (E : mat_apply k T (select kept frags []) = chunks n k data).
  { rewrite Hfr. unfold mat_apply at 2.
    rewrite (select_map (fun a => comb k a (chunks n k data)) kept G [] [])
      by now rewrite LG.
    fold (mat_apply k (select kept G []) (chunks n k data)).
    rewrite (mat_apply_mul k n); auto.
    - rewrite HT. rewrite <- (chunks_length n k data) at 1. now apply mat_apply_identity.
    - apply chunks_length.
    - unfold select. apply Forall_forall. intros s Hs. apply in_map_iff in Hs as (i & <- & Hi).
      rewrite Forall_forall in FG, Hkept. apply FG. apply nth_In. rewrite LG. now apply Hkept. }
  split; [exact E|]. rewrite E. now apply chunks_concat.
Qed.

(* ---- termination of the retry loop ------------------------------------------------------ *)
(* when the count is not a power of two the modulus is the count itself:
   the first draw is always accepted *)
Lemma spec_draw_one_step fuel x M : 0 < M ->
  spec_draw (S fuel) x (M + 0) M = Some (spec_prbs23 x, spec_prbs23 x mod M).
Proof.
  intros HM. cbn [spec_draw]. rewrite N.add_0_r.
  replace (M <=? spec_prbs23 x mod M) with false; [reflexivity|].
  symmetry. apply N.leb_gt. apply N.mod_lt. lia.
Qed.

Lemma spec_columns_one_step fuel M : 0 < M -> forall k x,
  spec_columns k (S fuel) x (M + 0) M <> None.
Proof.
  intros HM. induction k as [|k IH]; intros x; cbn [spec_columns]; [discriminate|].
  rewrite spec_draw_one_step by assumption.
  specialize (IH (spec_prbs23 x)).
  destruct (spec_columns k (S fuel) (spec_prbs23 x) (M + 0) M); [discriminate|congruence].
Qed.

Theorem line_terminates_not_pow2 fuel n M : spec_pow2 M = false ->
  spec_matrix_line (S fuel) n M <> None.
Proof.
  intros Hp. unfold spec_matrix_line, spec_line_columns. rewrite Hp.
  destruct (N.eq_dec M 0) as [->|Hnz].
  - cbn. discriminate.
  - pose proof (spec_columns_one_step fuel M ltac:(lia) (N.to_nat (M / 2)) (1 + 1001 * n)) as H.
    destruct (spec_columns _ _ _ _ _); [discriminate|congruence].
Qed.

(* more fuel never changes a result *)
Lemma spec_draw_mono f : forall x md M r d, spec_draw f x md M = Some r -> spec_draw (f + d) x md M = Some r.
Proof.
  induction f as [|f IH]; intros x md M r d H; [discriminate|].
  cbn [spec_draw Nat.add] in *. destruct (M <=? spec_prbs23 x mod md); auto.
Qed.

Lemma spec_columns_mono f d : forall k x md M rs,
  spec_columns k f x md M = Some rs -> spec_columns k (f + d) x md M = Some rs.
Proof.
  induction k as [|k IH]; intros x md M rs H; [exact H|].
  cbn [spec_columns] in *.
  destruct (spec_draw f x md M) as [[x' r]|] eqn:Ed; [|discriminate].
  rewrite (spec_draw_mono _ _ _ _ _ d Ed).
  destruct (spec_columns k f x' md M) as [rs'|] eqn:Ec; [|discriminate].
  now rewrite (IH _ _ _ _ Ec).
Qed.

Lemma spec_matrix_line_mono f d n M : spec_matrix_line f n M <> None ->
  spec_matrix_line (f + d) n M <> None.
Proof.
  unfold spec_matrix_line, spec_line_columns.
  destruct (spec_columns _ f _ _ _) as [rs|] eqn:E; [|congruence].
  now rewrite (spec_columns_mono _ d _ _ _ _ _ E).
Qed.

(* powers of two: the retry bound, established by evaluation for the nine powers
   of two up to 300 and parity indices 1..100: 8 PRBS steps per coefficient suffice *)
Definition pow2_counts : list N := [1; 2; 4; 8; 16; 32; 64; 128; 256].
Definition RETRY_BOUND : nat := 8.

Lemma pow2_retry_sweep :
  forallb (fun M => forallb (fun n => match spec_matrix_line RETRY_BOUND n M with Some _ => true | None => false end)
                            (nrange 100 1)) pow2_counts = true.
Proof. vm_compute. reflexivity. Qed.

Lemma pow2_counts_complete :
  forallb (fun M => implb (spec_pow2 M) (existsb (N.eqb M) pow2_counts)) (nrange 301 0) = true.
Proof. vm_compute. reflexivity. Qed.

Theorem line_terminates n M : M <= 300 -> 1 <= n <= 100 ->
  spec_matrix_line RETRY_BOUND n M <> None.
Proof.
  intros HM Hn. destruct (spec_pow2 M) eqn:Hp.
  - pose proof pow2_counts_complete as C. rewrite forallb_forall in C.
    specialize (C M (in_nrange 301 0 M ltac:(lia))). rewrite Hp in C. cbn [implb] in C.
    apply existsb_exists in C as (M' & Hin & He). apply N.eqb_eq in He. subst M'.
    pose proof pow2_retry_sweep as S. rewrite forallb_forall in S. specialize (S M Hin).
    rewrite forallb_forall in S. specialize (S n (in_nrange 100 1 n ltac:(lia))).
    destruct (spec_matrix_line RETRY_BOUND n M); [discriminate|discriminate S].
  - now apply line_terminates_not_pow2.
Qed.

Lemma parity_lines_terminate fuel M : forall cnt y,
  (forall n, y < n <= y + N.of_nat cnt -> spec_matrix_line fuel n M <> None) ->
  spec_parity_lines fuel cnt y M <> None.
Proof.
  induction cnt as [|cnt IH]; intros y H; cbn [spec_parity_lines]; [discriminate|].
  pose proof (H (y + 1) ltac:(lia)) as H1.
  destruct (spec_matrix_line fuel (y + 1) M); [|congruence].
  specialize (IH (y + 1)). 
  destruct (spec_parity_lines fuel cnt (y + 1) M); [discriminate|].
  exfalso. apply IH; [|reflexivity]. intros n Hn. apply H. lia.
Qed.

(* Encode returns fragments - it neither fails nor loops - for every valid input in
   the property's range: at most 300 fragments, redundancy at most 100 *)
Theorem encode_terminates data size red : valid data size -> fits data ->
  N.of_nat (length data / Z.to_nat size) <= 300 -> (red <= 100)%Z ->
  exists frags, encode data size red = Ok frags.
Proof.
  intros Hv Hfit Hn Hr. unfold encode. rewrite encode_spec by (auto; lia).
  destruct (valid_nat data size Hv) as (Hk & Hsz & Hd & Hq & _).
  rewrite spec_encode_unfold by assumption.
  pose proof (parity_lines_terminate FUEL (N.of_nat (length data / Z.to_nat size)) (Z.to_nat red) 0) as Hp.
  destruct (spec_parity_lines FUEL (Z.to_nat red) 0 (N.of_nat (length data / Z.to_nat size))) as [ls|].
  - eexists; reflexivity.
  - exfalso. apply Hp; [|reflexivity]. intros n Hn'.
    change FUEL with (RETRY_BOUND + 56)%nat. apply spec_matrix_line_mono. apply line_terminates; lia.
Qed.

(* and for counts that are not powers of two, with no bound on count (below 65536) or redundancy *)
Theorem encode_terminates_not_pow2 data size red : valid data size -> fits data ->
  N.of_nat (length data / Z.to_nat size) <= 65536 ->
  spec_pow2 (N.of_nat (length data / Z.to_nat size)) = false ->
  exists frags, encode data size red = Ok frags.
Proof.
  intros Hv Hfit Hn Hp2. unfold encode. rewrite encode_spec by auto.
  destruct (valid_nat data size Hv) as (Hk & Hsz & Hd & Hq & _).
  rewrite spec_encode_unfold by assumption.
  pose proof (parity_lines_terminate FUEL (N.of_nat (length data / Z.to_nat size)) (Z.to_nat red) 0) as Hp.
  destruct (spec_parity_lines FUEL (Z.to_nat red) 0 (N.of_nat (length data / Z.to_nat size))) as [ls|].
  - eexists; reflexivity.
  - exfalso. apply Hp; [|reflexivity]. intros n _.
    change FUEL with (S 63). now apply line_terminates_not_pow2.
Qed.

(* ---- no panic, for every input ------------------------------------------------------------ *)
Lemma draw_post fuel : forall x m mm x' r, (0 <= x)%Z -> (0 < m)%Z -> (0 <= mm)%Z ->
  draw fuel x m mm = Ok (x', r) -> (0 <= x' /\ 0 <= r < m)%Z.
Proof.
  induction fuel as [|fuel IH]; intros x m mm x' r Hx Hm Hmm; cbn [draw]; [discriminate|].
  replace (m + mm =? 0)%Z with false by lia.
  pose proof (prbs23_nonneg x Hx) as Hp.
  destruct (Z.rem (prbs23 x) (m + mm) >=? m)%Z eqn:E.
  - apply IH; auto.
  - intros H; inversion H; subst. pose proof (Z.rem_bound_pos (prbs23 x) (m + mm) Hp ltac:(lia)). lia.
Qed.

Lemma draw_no_panic fuel : forall x m mm, (0 < m)%Z -> (0 <= mm)%Z -> draw fuel x m mm <> Panic.
Proof.
  induction fuel as [|fuel IH]; intros x m mm Hm Hmm; cbn [draw]; [discriminate|].
  replace (m + mm =? 0)%Z with false by lia.
  destruct (Z.rem (prbs23 x) (m + mm) >=? m)%Z; [now apply IH|discriminate].
Qed.

Lemma coeffs_no_panic fuel m mm : (0 < m)%Z -> (0 <= mm)%Z -> forall k x line,
  (0 <= x)%Z -> Z.of_nat (length line) = m -> coeffs k fuel x m mm line <> Panic.
Proof.
  intros Hm Hmm. induction k as [|k IH]; intros x line Hx Hl; cbn [coeffs]; [discriminate|].
  destruct (65536 >=? m)%Z eqn:E.
  - pose proof (draw_no_panic fuel x m mm Hm Hmm) as Hd.
    destruct (draw fuel x m mm) as [[x' r]| | |] eqn:Ed; cbn [bind]; try discriminate; [|congruence].
    destruct (draw_post _ _ _ _ _ _ Hx Hm Hmm Ed) as (Hx' & Hr).
    replace (r <? 0)%Z with false by lia.
    destruct (set_one_spec line (Z.to_nat r)) as (l' & El & Ll & _); [lia|].
    rewrite El. apply IH; auto. lia.
  - cbn [bind]. cbn [Z.ltb Z.compare].
    destruct (set_one_spec line (Z.to_nat 65536)) as (l' & El & Ll & _); [lia|].
    rewrite El. apply IH; auto. lia.
Qed.

Lemma matrix_line_no_panic fuel n m : (0 <= n)%Z -> (0 <= m)%Z -> matrix_line fuel n m <> Panic.
Proof.
  intros Hn Hm. unfold matrix_line. replace (m <? 0)%Z with false by lia.
  destruct (Z.eq_dec m 0) as [->|Hnz]; [change (Z.to_nat (Z.quot 0 2)) with O; cbn [coeffs]; discriminate|].
  apply coeffs_no_panic; try lia.
  - destruct (is_power2 m); lia.
  - rewrite repeat_length. lia.
Qed.

Lemma parity_rows_no_panic fuel rows size : (0 <= size <= MAXALLOC)%Z -> forall cnt y, (0 <= y)%Z ->
  parity_rows fuel cnt y rows size <> Panic.
Proof.
  intros Hs. induction cnt as [|cnt IH]; intros y Hy; cbn [parity_rows]; [discriminate|].
  replace (size <? 0)%Z with false by lia. replace (MAXALLOC <? size)%Z with false by lia. cbn [orb].
  pose proof (matrix_line_no_panic fuel (y + 1) (Z.of_nat (length rows)) ltac:(lia) ltac:(lia)) as Hm.
  destruct (matrix_line fuel (y + 1) (Z.of_nat (length rows))); cbn [bind]; try discriminate; [|congruence].
  specialize (IH (y + 1)%Z ltac:(lia)).
  destruct (parity_rows fuel cnt (y + 1) rows size); cbn [bind]; try discriminate. congruence.
Qed.

(* for every block a Go program can hold (fits), every size and every redundancy *)
Theorem encode_no_panic fuel data size red : fits data -> encode_with fuel data size red <> Panic.
Proof.
  intros Hfit. unfold encode_with. unfold fits in Hfit.
  destruct (size <=? 0)%Z eqn:E1; [discriminate|].
  destruct (Z.of_nat (length data) =? 0)%Z eqn:E0; [discriminate|].
  replace (size =? 0)%Z with false by lia.
  destruct (Z.rem (Z.of_nat (length data)) size =? 0)%Z eqn:E2; cbn [negb]; [|discriminate].
  assert (Hv : valid data size) by (unfold valid; lia).
  destruct (valid_nat data size Hv) as (Hk & Hsz & Hd & Hq & Hle).
  rewrite Hq, Nat2Z.id, data_rows_chunks by exact Hd. cbn [bind].
  pose proof (parity_rows_no_panic fuel (chunks (length data / Z.to_nat size) (Z.to_nat size) data) size
                ltac:(lia) (Z.to_nat red) 0%Z ltac:(lia)) as Hp.
  destruct (parity_rows _ _ _ _ _); cbn [bind]; try discriminate. congruence.
Qed.

(* before fix 10583ce the empty block passed the divisibility test for every positive size and the
   size reached make() unchecked: with the refusal removed from the model, the audit's input panics *)
Example empty_block_huge_size_would_panic :
  parity_rows FUEL 1 0 [] (2 ^ 63 - 1) = Panic.
Proof. reflexivity. Qed.
