(* Diagnosis for C12: which cells of the dumped tables fail which table
   obligation of Band/Rx1Proofs.v.  Run by the driver on every check; every
   item of a non-empty DIAG_<tag> list becomes the failing key "<tag>:<item>".
   Depends on model, spec and generated tables only (not on the proofs). *)
From Coq Require Import List ZArith Bool String.
From LW Require Import Base.Outcome Band.Types Band.Lookup Band.Regional Band.Rx1Spec Band.Rx1Checks.
From LWGen Require Import BandGen KnownGen.
Import ListNotations.
Open Scope Z_scope.
Set Printing Width 200.

Definition id_of (c : band_cfg) := (c_name c, c_rep c, c_dwell c).

(* (name, repeater, dwell, uplink DR, RX1 offset) *)
Definition rx1_failing (P : band_cfg -> Z -> Z -> bool) :=
  flat_map (fun c => map (fun p => (id_of c, fst p, snd p))
                         (filter (fun p => negb (P c (fst p) (snd p))) (rx1_domain c))) band_configs.

Definition DIAG_rx1_result_defined := Eval vm_compute in rx1_failing defined_check.
Print DIAG_rx1_result_defined.
Definition DIAG_rx1_invalid_accepted := Eval vm_compute in rx1_failing valid_check.
Print DIAG_rx1_invalid_accepted.
Definition DIAG_rx1_monotone_step := Eval vm_compute in rx1_failing step_check.
Print DIAG_rx1_monotone_step.

Definition with_reg (c : band_cfg) (f : region -> bool) : bool :=
  match region_of (c_name c) with Some reg => f reg | None => false end.

Definition DIAG_rx1_formula := Eval vm_compute in
  flat_map (fun c => map (fun p => (id_of c, fst p, snd p))
    (filter (fun p => negb (with_reg c (fun reg =>
       rx1_formula_rule reg (c_dwell c) (fst p) (snd p) (get_rx1_dr c (fst p) (snd p))))) formula_domain))
    band_configs.
Print DIAG_rx1_formula.

(* (name, repeater, dwell, dr, off): accepted although dr is no data-rate of the band / off is no offset of the region *)
Definition DIAG_rx1_uplink_dr_defined := Eval vm_compute in
  flat_map (fun c => map (fun p => (id_of c, fst p, snd p))
    (filter (fun p => negb (uplink_dr_check c (fst p) (snd p))) (rx1_domain c))) band_configs.
Print DIAG_rx1_uplink_dr_defined.
Definition DIAG_rx1_offset_in_range := Eval vm_compute in
  flat_map (fun c => map (fun p => (id_of c, fst p, snd p))
    (filter (fun p => negb (offset_check c (fst p) (snd p))) (rx1_domain c))) band_configs.
Print DIAG_rx1_offset_in_range.
Definition DIAG_known_offset_cell_not_reproduced := Eval vm_compute in
  filter (fun x => negb (offset_refuted_check x)) c12_known_offset_cells.
Print DIAG_known_offset_cell_not_reproduced.

(* (name, repeater, dwell, uplink channel index) *)
Definition DIAG_rx1_channel := Eval vm_compute in
  flat_map (fun c => let t := c_tab c in
    map (fun i => (id_of c, i))
      (filter (fun i => negb (with_reg c (fun reg =>
         match zindex (t_up t) i with
         | Ok u => rx1_channel_ok reg (t_down t) i (ch_freq u) (get_rx1_channel_index c i)
                                  (get_rx1_frequency c (ch_freq u))
         | _ => false
         end))) (zrange 0 (zlen (t_up t) - 1)))) band_configs.
Print DIAG_rx1_channel.

(* (name, repeater, dwell): a band accepting extra channels whose RX1 rule is not "same channel /
   same frequency" or whose default uplink / downlink channels differ in frequency at some index
   (premise of C12_rx1_channel_after_add_channels) *)
Definition DIAG_extra_channels_aligned := Eval vm_compute in
  map id_of (filter (fun c => negb (extra_aligned_cfg c)) band_configs).
Print DIAG_extra_channels_aligned.

(* (deprecated name, repeater, dwell): GetConfig does not return the configuration of the common name *)
Definition DIAG_deprecated_name := Eval vm_compute in
  (map id_of (filter (fun ac => negb (alias_cfg_check ac)) band_alias_configs)
   ++ flat_map (fun p => flat_map (fun rep => flat_map (fun dw =>
        if alias_cover_cell (fst p) rep dw then [] else [(fst p, rep, dw)]) [false; true]) [false; true]) deprecated_names)%list.
Print DIAG_deprecated_name.

(* (name, repeater, dwell, hopping channel number) *)
Definition DIAG_ping_slot := Eval vm_compute in
  flat_map (fun c => map (fun k => (id_of c, k))
    (filter (fun k => negb (with_reg c (fun reg =>
       outcome_eqb Z.eqb (ping_slot_at c k) (Ok (spec_ping_slot_at reg k))))) (zrange 0 7))) band_configs.
Print DIAG_ping_slot.

(* (name, repeater, dwell) *)
Definition DIAG_rx2_defaults := Eval vm_compute in
  map id_of (filter (fun c => negb (with_reg c (fun reg =>
    defaults_eqb (get_defaults c) (c_defaults c) && rx2_ok reg (c_tab c) (get_defaults c)))) band_configs).
Print DIAG_rx2_defaults.

(* recorded cells that no longer reproduce (the _refuted theorem fails): (name, dr, off) *)
Definition DIAG_known_cell_not_reproduced := Eval vm_compute in
  filter (fun x => negb (refuted_check x)) c12_known_cells.
Print DIAG_known_cell_not_reproduced.
