(* Correspondence cases for C08 (accepted frames are canonical) and the frame
   part of C09 (decoders are total). *)
From Coq Require Import List NArith ZArith Bool.
From LW Require Export Base.Outcome Base.Bytes Mac.Commands Mac.Spec Mac.Stream Frame.Model Frame.Spec.
Import ListNotations.
Open Scope N_scope.

Inductive case :=
(* bytes, UnmarshalBinary outcome, MarshalBinary of the decoded frame, and
   UnmarshalBinary of that output again *)
| CDecode (bs : list N) (o : outcome phy) (o_re : outcome (list N)) (o_again : outcome phy).

Definition oeqb := outcome_eqb bytes_eqb.
Definition phyeqb := outcome_eqb phy_eqb.

Definition rfu_zero (bs : list N) : bool :=
  match bs with b0 :: _ => N.land b0 28 =? 0 | [] => true end.

Definition check (c : case) : N :=
  match c with
  | CDecode bs o o_re o_again =>
    code (phyeqb (phy_unmarshal bs) o &&
          match o with
          | Ok p => oeqb (phy_marshal p) o_re &&
                    match o_re with Ok b2 => phyeqb (phy_unmarshal b2) o_again | _ => true end
          | _ => true
          end)
         (match o with
          | Ok p => if rfu_zero bs then oeqb o_re (Ok bs) && phyeqb o_again (Ok p)
                    else negb (is_panic o_re)
          | Err => true
          | _ => false
          end)
  end.

Definition run_cases := run_with check.
