(* Byte strings as [list N]; little/big-endian integers; Go slice
   operations that panic exactly when Go does. *)
From Coq Require Import List NArith ZArith Bool Lia.
From Coq Require Import ZifyN ZifyNat ZifyBool.
From LW Require Import Base.Outcome.
Import ListNotations.
Open Scope N_scope.
Ltac Zify.zify_post_hook ::= Z.div_mod_to_equations.

Definition byte_ok (b : N) : bool := b <? 256.
Definition bytes_ok (bs : list N) : bool := forallb byte_ok bs.

Lemma bytes_ok_Forall bs : bytes_ok bs = true <-> Forall (fun b => b < 256) bs.
Proof.
  unfold bytes_ok. rewrite forallb_forall, Forall_forall. unfold byte_ok.
  split; intros H x Hx; specialize (H x Hx); lia.
Qed.

(* little-endian: k bytes of x (x mod 256^k) *)
Fixpoint le_bytes (k : nat) (x : N) : list N :=
  match k with
  | O => []
  | S k' => (x mod 256) :: le_bytes k' (x / 256)
  end.

Fixpoint le_val (bs : list N) : N :=
  match bs with
  | [] => 0
  | b :: bs' => b + 256 * le_val bs'
  end.

Definition be_bytes (k : nat) (x : N) : list N := rev (le_bytes k x).
Definition be_val (bs : list N) : N := le_val (rev bs).

Lemma le_bytes_length k x : length (le_bytes k x) = k.
Proof. revert x; induction k; simpl; intros; auto. Qed.

Lemma le_bytes_ok k x : Forall (fun b => b < 256) (le_bytes k x).
Proof.
  revert x; induction k; simpl; intros; constructor; auto.
  apply N.mod_lt; lia.
Qed.

Lemma le_val_bytes k x : le_val (le_bytes k x) = x mod (256 ^ N.of_nat k).
Proof.
  revert x; induction k as [|k IH]; intros x.
  - simpl. now rewrite N.mod_1_r.
  - cbn [le_bytes le_val]. rewrite IH.
    replace (N.of_nat (S k)) with (N.succ (N.of_nat k)) by lia.
    rewrite N.pow_succ_r by lia.
    assert (Hp : 256 ^ N.of_nat k <> 0) by (apply N.pow_nonzero; lia).
    rewrite (N.mod_mul_r x 256 (256 ^ N.of_nat k)) by lia.
    reflexivity.
Qed.

Lemma le_val_lt bs : Forall (fun b => b < 256) bs -> le_val bs < 256 ^ N.of_nat (length bs).
Proof.
  induction 1 as [|b bs Hb _ IH]; cbn [le_val length].
  - simpl; lia.
  - replace (N.of_nat (S (length bs))) with (N.succ (N.of_nat (length bs))) by lia.
    rewrite N.pow_succ_r by lia. nia.
Qed.

Lemma le_bytes_val bs : Forall (fun b => b < 256) bs -> le_bytes (length bs) (le_val bs) = bs.
Proof.
  induction 1 as [|b bs Hb _ IH]; cbn [le_val length le_bytes]; auto.
  f_equal.
  - lia.
  - replace ((b + 256 * le_val bs) / 256) with (le_val bs); [exact IH|].
    generalize (le_val bs); intros v. lia.
Qed.

Lemma le_bytes_small k x : x < 256 ^ N.of_nat k -> le_val (le_bytes k x) = x.
Proof. intros H. rewrite le_val_bytes. now apply N.mod_small. Qed.

Lemma be_bytes_length k x : length (be_bytes k x) = k.
Proof. unfold be_bytes. now rewrite rev_length, le_bytes_length. Qed.

Lemma be_val_bytes k x : be_val (be_bytes k x) = x mod (256 ^ N.of_nat k).
Proof. unfold be_val, be_bytes. now rewrite rev_involutive, le_val_bytes. Qed.

Lemma Forall_rev {A} (P : A -> Prop) l : Forall P l -> Forall P (rev l).
Proof. rewrite !Forall_forall. intros H x Hx. apply H. now apply in_rev. Qed.

Lemma be_bytes_val bs : Forall (fun b => b < 256) bs -> be_bytes (length bs) (be_val bs) = bs.
Proof.
  intros H. unfold be_bytes, be_val.
  rewrite <- (rev_length bs), le_bytes_val by now apply Forall_rev.
  apply rev_involutive.
Qed.

(* bit fields of a number *)
Definition bits (x : N) (lo w : N) : N := (x / 2 ^ lo) mod 2 ^ w.
Definition testb (x : N) (i : N) : bool := N.testbit x i.

(* Go slicing s[a:b] (a, b as integers), s[i] *)
Definition go_slice {A} (s : list A) (a b : Z) : outcome (list A) :=
  if (0 <=? a)%Z && (a <=? b)%Z && (b <=? Z.of_nat (length s))%Z
  then Ok (firstn (Z.to_nat b - Z.to_nat a) (skipn (Z.to_nat a) s))
  else Panic.

Definition go_index {A} (s : list A) (i : Z) : outcome A :=
  if (0 <=? i)%Z then
    match nth_error s (Z.to_nat i) with Some x => Ok x | None => Panic end
  else Panic.

Definition take {A} (n : nat) (l : list A) := firstn n l.
Definition drop {A} (n : nat) (l : list A) := skipn n l.

Lemma take_app_length {A} (l1 l2 : list A) : firstn (length l1) (l1 ++ l2) = l1.
Proof. induction l1; simpl; congruence. Qed.
Lemma drop_app_length {A} (l1 l2 : list A) : skipn (length l1) (l1 ++ l2) = l2.
Proof. induction l1; simpl; congruence. Qed.

Lemma take_app_n {A} n (l1 l2 : list A) : length l1 = n -> firstn n (l1 ++ l2) = l1.
Proof. intros <-. apply take_app_length. Qed.
Lemma drop_app_n {A} n (l1 l2 : list A) : length l1 = n -> skipn n (l1 ++ l2) = l2.
Proof. intros <-. apply drop_app_length. Qed.

(* xor of byte strings, truncating to the shorter *)
Fixpoint xor_bytes (a b : list N) : list N :=
  match a, b with
  | x :: a', y :: b' => N.lxor x y :: xor_bytes a' b'
  | _, _ => []
  end.

Lemma xor_bytes_length a b : length (xor_bytes a b) = min (length a) (length b).
Proof. revert b; induction a; destruct b; simpl; auto. Qed.

Lemma xor_bytes_invol a b : (length a <= length b)%nat -> xor_bytes (xor_bytes a b) b = a.
Proof.
  revert b; induction a as [|x a IH]; destruct b as [|y b]; simpl; intros H; auto; try lia.
  rewrite IH by lia. f_equal. rewrite N.lxor_assoc, N.lxor_nilpotent. apply N.lxor_0_r.
Qed.

Lemma log2_byte x : x < 256 -> N.log2 x < 8.
Proof.
  intros H. destruct (N.eq_dec x 0) as [->|Hn]; [reflexivity|].
  apply N.log2_lt_pow2; [lia|exact H].
Qed.

Lemma lxor_byte x y : x < 256 -> y < 256 -> N.lxor x y < 256.
Proof.
  intros Hx Hy.
  destruct (N.eq_dec (N.lxor x y) 0) as [->|Hn]; [reflexivity|].
  change 256 with (2 ^ 8). apply N.log2_lt_pow2; [lia|].
  eapply N.le_lt_trans; [apply N.log2_lxor|].
  apply N.max_lub_lt; now apply log2_byte.
Qed.

Definition repeatN (x : N) (n : nat) : list N := repeat x n.
