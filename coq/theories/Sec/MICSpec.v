(* Message integrity code of data frames, transcribed from the specification:
   LoRaWAN 1.1 section 4.4 (4.4.1 downlink, 4.4.2 uplink) and LoRaWAN 1.0.x
   section 4.4.  Written from the documents, over AES-CMAC (RFC 4493,
   LW.Crypto.CMAC); it does not mention the frame model of the code.

     msg = MHDR | FHDR | FPort | FRMPayload

   1.0.x (both directions):
     B0   = 0x49 | 4 x 0x00 | Dir | DevAddr | FCntUp or FCntDown | 0x00 | len(msg)
     cmac = aes128_cmac(NwkSKey, B0 | msg)            MIC = cmac[0..3]

   1.1 downlink:
     B0   = 0x49 | ConfFCnt | 2 x 0x00 | Dir = 0x01 | DevAddr | AFCntDwn or NFCntDwn | 0x00 | len(msg)
     ConfFCnt = (frame counter of the confirmed uplink being acknowledged) modulo 2^16
                if the ACK bit of the downlink frame is set, else 0x0000
     cmac = aes128_cmac(SNwkSIntKey, B0 | msg)        MIC = cmac[0..3]

   1.1 uplink:
     B0   = 0x49 | 4 x 0x00 | Dir = 0x00 | DevAddr | FCntUp | 0x00 | len(msg)
     B1   = 0x49 | ConfFCnt | TxDr | TxCh | Dir = 0x00 | DevAddr | FCntUp | 0x00 | len(msg)
     ConfFCnt as above (ACK bit of the uplink frame; counter of the confirmed downlink)
     cmacS = aes128_cmac(SNwkSIntKey, B1 | msg)       cmacF = aes128_cmac(FNwkSIntKey, B0 | msg)
     MIC  = cmacS[0..1] | cmacF[0..1]     (a 1.0 network server: MIC = cmacF[0..3])

   Multi-byte fields are little endian; DevAddr (a 32-bit value, here its four
   bytes most significant first) is transmitted least significant byte first;
   the counters are the full 32-bit values. *)
From Coq Require Import List NArith Bool.
From LW Require Import Base.Bytes Crypto.CMAC.
Import ListNotations.
Open Scope N_scope.

Inductive version := V1_0 | V1_1.

Definition dir_up : N := 0.
Definition dir_down : N := 1.

(* the 16-byte block prepended to msg; [b1_4] are bytes 1..4 *)
Definition block (b1_4 : list N) (dir : N) (devaddr_msb_first : list N) (fcnt32 : N) (msglen : N) : list N :=
  [0x49] ++ b1_4 ++ [dir] ++ rev devaddr_msb_first ++ le_bytes 4 fcnt32 ++ [0x00] ++ [msglen].

Definition conf_field (ack : bool) (conf_fcnt : N) : N := if ack then conf_fcnt mod 2 ^ 16 else 0.

Definition B0_up devaddr fcnt msglen := block [0; 0; 0; 0] dir_up devaddr fcnt msglen.
Definition B1_up ack conf txdr txch devaddr fcnt msglen :=
  block (le_bytes 2 (conf_field ack conf) ++ [txdr; txch]) dir_up devaddr fcnt msglen.
Definition B0_down (v : version) ack conf devaddr fcnt msglen :=
  block (match v with
         | V1_0 => [0; 0; 0; 0]
         | V1_1 => le_bytes 2 (conf_field ack conf) ++ [0; 0]
         end) dir_down devaddr fcnt msglen.

Definition first (n : nat) (tag : list N) : list N := firstn n tag.

(* [msglen] is the value of the one-byte len(msg) field *)
Definition spec_up_mic_len (v : version) (fnwksintkey snwksintkey : list N) (conf txdr txch : N)
           (ack : bool) (devaddr : list N) (fcnt : N) (msg : list N) (msglen : N) : list N :=
  let cmacF := cmac fnwksintkey (B0_up devaddr fcnt msglen ++ msg) in
  match v with
  | V1_0 => first 4 cmacF
  | V1_1 =>
    let cmacS := cmac snwksintkey (B1_up ack conf txdr txch devaddr fcnt msglen ++ msg) in
    first 2 cmacS ++ first 2 cmacF
  end.

Definition spec_down_mic_len (v : version) (snwksintkey : list N) (conf : N)
           (ack : bool) (devaddr : list N) (fcnt : N) (msg : list N) (msglen : N) : list N :=
  first 4 (cmac snwksintkey (B0_down v ack conf devaddr fcnt msglen ++ msg)).

(* the specification: len(msg) is the length of msg (a frame has at most 255 bytes) *)
Definition spec_up_mic v fkey skey conf txdr txch ack devaddr fcnt msg :=
  spec_up_mic_len v fkey skey conf txdr txch ack devaddr fcnt msg (N.of_nat (length msg)).
Definition spec_down_mic v skey conf ack devaddr fcnt msg :=
  spec_down_mic_len v skey conf ack devaddr fcnt msg (N.of_nat (length msg)).

(* the cmacF half alone (what a forwarding network server of a roaming device can check) *)
Definition spec_cmacF_half (fkey : list N) (devaddr : list N) (fcnt : N) (msg : list N) : list N :=
  first 2 (cmac fkey (B0_up devaddr fcnt (N.of_nat (length msg)) ++ msg)).
