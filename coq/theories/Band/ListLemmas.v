(* Lemmas about the list helpers of Channels.v / Planner.v: positional update,
   index enumeration, membership, insertion sort. *)
From Coq Require Import List ZArith Bool Lia Sorting.Sorted Permutation.
From Coq Require Import ZifyBool.
From LW Require Import Base.Outcome Band.Channels Band.Planner.
Import ListNotations.
Open Scope Z_scope.

(* ---- upd / map_nth -------------------------------------------------------- *)

Lemma upd_length {A} (l : list A) i v : length (upd l i v) = length l.
Proof. revert i; induction l; destruct i; simpl; auto. Qed.

Lemma nth_upd_eq {A} (l : list A) i v d : (i < length l)%nat -> nth i (upd l i v) d = v.
Proof. revert i; induction l; destruct i; simpl; intros; try lia; auto. apply IHl; lia. Qed.

Lemma nth_upd_neq {A} (l : list A) i j v d : i <> j -> nth j (upd l i v) d = nth j l d.
Proof.
  revert i j; induction l; destruct i, j; simpl; intros; try congruence; auto.
Qed.

Lemma nth_upd {A} (l : list A) i j v d :
  nth j (upd l i v) d = if (Nat.eqb i j && Nat.ltb i (length l))%bool then v else nth j l d.
Proof.
  destruct (Nat.eqb_spec i j) as [->|Hn]; simpl.
  - destruct (Nat.ltb_spec j (length l)).
    + now apply nth_upd_eq.
    + clear -H. revert j H; induction l; destruct j; simpl; intros; auto; try lia. apply IHl; lia.
  - now apply nth_upd_neq.
Qed.

Lemma map_nth_length {A} (f : A -> A) l i : length (map_nth f l i) = length l.
Proof. revert i; induction l; destruct i; simpl; auto. Qed.

Lemma nth_error_map_nth {A} (f : A -> A) l i j :
  nth_error (map_nth f l i) j =
  if Nat.eqb i j then option_map f (nth_error l j) else nth_error l j.
Proof.
  revert i j; induction l as [|a l IH]; intros i j.
  - destruct i, j; simpl; try reflexivity; destruct (Nat.eqb _ _); reflexivity.
  - destruct i, j; simpl; try reflexivity. apply IH.
Qed.

(* ---- zmem ------------------------------------------------------------------ *)

Lemma zmem_In i l : zmem i l = true <-> In i l.
Proof.
  unfold zmem. rewrite existsb_exists. split.
  - intros [x [Hx E]]. apply Z.eqb_eq in E. now subst.
  - intros H. exists i. split; auto. apply Z.eqb_refl.
Qed.

Lemma zmem_false i l : zmem i l = false <-> ~ In i l.
Proof. rewrite <- zmem_In. destruct (zmem i l); split; congruence. Qed.

Lemma diff_In c x y :
  In c (int_slice_diff x y) <-> (In c x /\ ~ In c y) \/ (In c y /\ ~ In c x).
Proof.
  unfold int_slice_diff. rewrite in_app_iff, !filter_In, !negb_true_iff, !zmem_false. tauto.
Qed.

(* ---- indices_where ---------------------------------------------------------- *)

Lemma indices_where_In {A} (p : A -> bool) l k i :
  In i (indices_where p l k) <->
  k <= i /\ exists a, nth_error l (Z.to_nat (i - k)) = Some a /\ p a = true.
Proof.
  revert k; induction l as [|a l IH]; intros k; simpl.
  - split; [tauto|]. intros [_ [a [H _]]]. destruct (Z.to_nat (i - k)); discriminate.
  - assert (Hstep : In i (indices_where p l (k + 1)) <->
              k + 1 <= i /\ exists a0, nth_error l (Z.to_nat (i - (k + 1))) = Some a0 /\ p a0 = true)
      by apply IH.
    destruct (p a) eqn:Pa; simpl; rewrite Hstep; split.
    + intros [->|[H1 [b [H2 H3]]]].
      * split; [lia|]. exists a. replace (i - i) with 0 by lia. simpl. auto.
      * split; [lia|]. exists b. replace (Z.to_nat (i - k)) with (S (Z.to_nat (i - (k + 1)))) by lia. auto.
    + intros [H1 [b [H2 H3]]]. destruct (Z.eq_dec k i) as [->|Hne]; [now left|right].
      split; [lia|]. exists b. replace (Z.to_nat (i - k)) with (S (Z.to_nat (i - (k + 1)))) in H2 by lia. auto.
    + intros [H1 [b [H2 H3]]]. split; [lia|]. exists b.
      replace (Z.to_nat (i - k)) with (S (Z.to_nat (i - (k + 1)))) by lia. auto.
    + intros [H1 [b [H2 H3]]]. destruct (Z.eq_dec k i) as [->|Hne].
      * replace (i - i) with 0 in H2 by lia. simpl in H2. congruence.
      * split; [lia|]. exists b. replace (Z.to_nat (i - k)) with (S (Z.to_nat (i - (k + 1)))) in H2 by lia. auto.
Qed.

(* enumeration as a filter over the index range *)
Definition zrange_from (k : Z) (n : nat) : list Z := map (fun j => k + Z.of_nat j) (seq 0 n).

Lemma zrange_from_S k n : zrange_from k (S n) = k :: zrange_from (k + 1) n.
Proof.
  unfold zrange_from. simpl. f_equal; [lia|]. rewrite <- seq_shift, map_map.
  apply map_ext. intros; lia.
Qed.

Lemma indices_where_filter {A} (p : A -> bool) (d : A) l k :
  indices_where p l k = filter (fun i => p (nth (Z.to_nat (i - k)) l d)) (zrange_from k (length l)).
Proof.
  revert k; induction l as [|a l IH]; intros k; [reflexivity|].
  cbn [length]. rewrite zrange_from_S. cbn [indices_where filter].
  replace (k - k) with 0 by lia. cbn [Z.to_nat nth].
  rewrite IH.
  assert (E : filter (fun i => p (nth (Z.to_nat (i - (k + 1))) l d)) (zrange_from (k + 1) (length l)) =
              filter (fun i => p (nth (Z.to_nat (i - k)) (a :: l) d)) (zrange_from (k + 1) (length l))).
  { apply filter_ext_in. intros i Hi. unfold zrange_from in Hi. apply in_map_iff in Hi as [j [<- _]].
    replace (Z.to_nat (k + 1 + Z.of_nat j - k)) with (S j) by lia.
    replace (Z.to_nat (k + 1 + Z.of_nat j - (k + 1))) with j by lia. reflexivity. }
  rewrite E. destruct (p a); reflexivity.
Qed.

Lemma zrange_from_In k n i : In i (zrange_from k n) <-> k <= i < k + Z.of_nat n.
Proof.
  unfold zrange_from. rewrite in_map_iff. split.
  - intros [j [<- Hj]]. apply in_seq in Hj. lia.
  - intros H. exists (Z.to_nat (i - k)). split; [lia|]. apply in_seq. lia.
Qed.

(* ---- insertion sort ----------------------------------------------------------- *)

Lemma insert_sorted_In x y l : In y (insert_sorted x l) <-> y = x \/ In y l.
Proof.
  induction l as [|a l IH]; simpl; [intuition|].
  destruct (x <=? a); simpl; rewrite ?IH; intuition.
Qed.

Lemma sort_ints_In y l : In y (sort_ints l) <-> In y l.
Proof.
  induction l as [|a l IH]; simpl; [tauto|].
  rewrite insert_sorted_In, IH. intuition.
Qed.

Lemma insert_sorted_sorted x l : StronglySorted Z.le l -> StronglySorted Z.le (insert_sorted x l).
Proof.
  induction 1 as [|a l Hs IH Ha]; simpl.
  - constructor; constructor.
  - destruct (Z.leb_spec x a).
    + constructor; [constructor; assumption|]. constructor; [assumption|].
      eapply Forall_impl; [|exact Ha]. intros; lia.
    + constructor; [assumption|]. apply Forall_forall. intros y Hy.
      apply insert_sorted_In in Hy as [->|Hy]; [lia|]. rewrite Forall_forall in Ha. auto.
Qed.

Lemma sort_ints_sorted l : StronglySorted Z.le (sort_ints l).
Proof. induction l; simpl; [constructor|]. now apply insert_sorted_sorted. Qed.

Lemma insert_sorted_length x l : length (insert_sorted x l) = S (length l).
Proof. induction l; simpl; auto. destruct (x <=? a); simpl; auto. Qed.

Lemma sort_ints_length l : length (sort_ints l) = length l.
Proof. induction l; simpl; auto. rewrite insert_sorted_length. auto. Qed.

(* sorting a sorted list changes nothing *)
Lemma insert_sorted_head x l : Forall (fun y => x <= y) l -> insert_sorted x l = x :: l.
Proof.
  destruct l as [|a l]; simpl; auto. intros H. inversion H; subst.
  destruct (Z.leb_spec x a); [reflexivity|lia].
Qed.

Lemma sort_ints_id l : StronglySorted Z.le l -> sort_ints l = l.
Proof.
  induction 1 as [|a l Hs IH Ha]; simpl; auto. rewrite IH. now apply insert_sorted_head.
Qed.

Lemma indices_where_sorted {A} (p : A -> bool) l k :
  StronglySorted Z.lt (indices_where p l k).
Proof.
  revert k; induction l as [|a l IH]; intros k; simpl; [constructor|].
  destruct (p a); [|apply IH]. constructor; [apply IH|].
  apply Forall_forall. intros i Hi. apply indices_where_In in Hi. lia.
Qed.

Lemma sorted_lt_le l : StronglySorted Z.lt l -> StronglySorted Z.le l.
Proof.
  induction 1; constructor; auto. eapply Forall_impl; [|eassumption]. intros; lia.
Qed.
