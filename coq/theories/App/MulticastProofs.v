(* Proofs about the remote-multicast-setup command model (after the repair
   09e6cf1): payload round trips with the TS005 layout and the reported size,
   no panic on encode for any value, stream round trip. *)
From Coq Require Import List NArith ZArith Bool Lia.
From Coq Require Import ZifyN ZifyNat ZifyBool.
From LW Require Import Base.Outcome Base.Bytes App.Common App.Spec App.ProofTools App.StreamProofs
     App.Multicast.
Import ListNotations.
Open Scope N_scope.
Ltac Zify.zify_post_hook ::= Z.div_mod_to_equations.

Definition item_ok (it : N * list N) : Prop :=
  fst it < 4 /\ length (snd it) = 4%nat /\ Forall (fun b => b < 256) (snd it).

Definition enc_item (it : N * list N) : list N := N.land (fst it) 0x03 :: devaddr_marshal (snd it).

Lemma addr_ok_spec a : addr_ok a = true -> length a = 4%nat /\ Forall (fun b => b < 256) a.
Proof.
  unfold addr_ok. intros H. apply andb_true_iff in H as [H1 H2].
  split; [now apply Nat.eqb_eq|now apply bytes_ok_Forall].
Qed.

Lemma item_layout it : item_ok it ->
  enc_item it = spec_bytes (MC.item_groups it).
Proof.
  intros (Hi & Hl & Hb). unfold enc_item, devaddr_marshal, MC.item_groups. layout.
  rewrite <- (le_bytes_be_val4 (snd it)) by assumption.
  cbn [le_bytes]. generalize dependent (be_val (snd it)). intros v.
  destruct it as [i a]; cbn [fst] in *. bytes_eq; try lia. enum i 4%nat; reflexivity.
Qed.

Lemma items_layout items : Forall item_ok items ->
  flat_map enc_item items =
  spec_bytes (flat_map MC.item_groups items).
Proof.
  induction 1 as [|it items Hi _ IH]; [reflexivity|].
  cbn [flat_map]. rewrite IH, (item_layout it Hi). unfold spec_bytes. now rewrite flat_map_app.
Qed.

Lemma enc_item_length it : item_ok it -> length (enc_item it) = 5%nat.
Proof. intros (_ & Hl & _). unfold enc_item, devaddr_marshal. cbn [length]. rewrite rev_length. lia. Qed.

Lemma items_length items : Forall item_ok items -> length (flat_map enc_item items) = (5 * length items)%nat.
Proof.
  induction 1 as [|it items Hi _ IH]; [reflexivity|].
  cbn [flat_map length]. rewrite app_length, IH, (enc_item_length it Hi). lia.
Qed.

Lemma dec_items_ok items : Forall item_ok items -> forall pre rest,
  dec_items (length items) (pre ++ flat_map enc_item items ++ rest) (length pre) = Ok items.
Proof.
  induction 1 as [|it items Hi _ IH]; intros pre rest; [reflexivity|].
  destruct Hi as (Hid & Hl & Hb).
  set (id3 := N.land (fst it) 3). set (ra := rev (snd it)).
  set (tail := flat_map enc_item items ++ rest).
  assert (Hra : length ra = 4%nat) by (unfold ra; now rewrite rev_length).
  assert (E : pre ++ flat_map enc_item (it :: items) ++ rest = pre ++ id3 :: ra ++ tail).
  { cbn [flat_map]. unfold enc_item at 1, devaddr_marshal. fold id3 ra. unfold tail.
    cbn [app]. now rewrite <- !app_assoc. }
  rewrite E. cbn [length dec_items].
  rewrite idx_app. cbn [bind].
  replace (pre ++ id3 :: ra ++ tail) with ((pre ++ [id3]) ++ ra ++ tail)
    by (rewrite <- app_assoc; reflexivity).
  rewrite (sub_app (pre ++ [id3]) ra tail (length pre + 1) (length pre + 5)).
  2: rewrite app_length; reflexivity.
  2: lia.
  cbn [bind]. unfold devaddr_unmarshal. rewrite Hra. cbn [Nat.eqb bind].
  specialize (IH ((pre ++ [id3]) ++ ra) rest).
  rewrite !app_length, Hra in IH. cbn [length] in IH.
  replace (length pre + 1 + 4)%nat with (length pre + 5)%nat in IH by lia.
  fold tail in IH. rewrite <- app_assoc in IH. rewrite IH. cbn [bind].
  f_equal. f_equal. unfold ra. rewrite rev_involutive.
  destruct it as [i a]; cbn [fst snd] in *. f_equal.
  unfold id3. cbn [fst]. enum i 4%nat; reflexivity.
Qed.

Lemma items_ok_of items :
  forallb (fun f => fvalue f <? 2 ^ fwidth f) [] = true ->
  groups_ok (flat_map MC.item_groups items) = true ->
  forallb (fun it => addr_ok (snd it)) items = true -> Forall item_ok items.
Proof.
  intros _. induction items as [|it items IH]; intros Hg Ha; [constructor|].
  cbn [flat_map app groups_ok forallb MC.item_groups] in Hg, Ha.
  apply andb_true_iff in Ha as [Ha1 Ha2].
  apply andb_true_iff in Hg as [Hg1 Hg]. apply andb_true_iff in Hg as [Hg2 Hg].
  constructor; [|now apply IH].
  destruct (addr_ok_spec _ Ha1) as [Hl Hb]. split; [|split]; auto.
  cbn [group_ok sum_widths fwidth fvalue forallb] in Hg1. lia.
Qed.

Lemma session_ans_rt (mk : bool -> bool -> bool -> N -> option N -> payload) u f d id tts rest :
  groups_ok (MC.status_groups u f d id tts) = true ->
  Bool.eqb (is_some tts) (negb (u || f || d)) = true ->
  exists bs, enc_session_ans u f d id tts = Ok bs
    /\ length bs = (if has_error u f d then 1 else 4)%nat
    /\ bs = spec_bytes (MC.status_groups u f d id tts)
    /\ dec_session_ans mk (bs ++ rest) = Ok (mk u f d id tts).
Proof.
  intros H Hx. unfold MC.status_groups in *.
  destruct tts as [t|]; widths H; cbn [is_some] in Hx.
  - assert (u = false /\ f = false /\ d = false) as (-> & -> & ->) by (destruct u, f, d; auto; discriminate).
    eexists. split; [reflexivity|]. split; [reflexivity|]. split.
    + layout. cbn [enc_session_ans has_error orb andb negb session_status]. run. bytes_eq; try lia.
      enum id 4%nat; reflexivity.
    + unfold dec_session_ans. run.
      enum id 4%nat;
        (match goal with |- context [Some (t mod 256 + ?e)] => remember (t mod 256 + e) as tv eqn:Etv end;
         vm_compute; subst tv; do 3 f_equal; lia).
  - assert (has_error u f d = true) as He by (unfold has_error; destruct u, f, d; auto; discriminate).
    unfold enc_session_ans. rewrite He. cbn [andb negb].
    eexists. split; [reflexivity|]. split; [reflexivity|]. split.
    + layout. bytes_eq. destruct u, f, d; enum id 4%nat; reflexivity.
    + unfold dec_session_ans. run. destruct u, f, d; try discriminate He; enum id 4%nat; reflexivity.
Qed.

Lemma freq_bytes q : q < 2 ^ 24 ->
  (le_val ([q mod 256; (q / 256) mod 256; (q / 256 / 256) mod 256] ++ [0]) * 100) mod 2 ^ 32 = q * 100.
Proof. intros H. cbn [app le_val]. lia. Qed.

Theorem payload_roundtrip p rest : MC.in_widthb p = true ->
  exists bs d, enc p = Ok bs /\ length bs = psize p /\ bs = spec_bytes (MC.spec p)
    /\ lookup (uplink_of p) (cid_of p) = Some d /\ d (bs ++ rest) = Ok p.
Proof.
  intros H. unfold MC.in_widthb in H.
  assert (Fin : forall (bs : list N) d,
    enc p = Ok bs -> length bs = psize p -> bs = spec_bytes (MC.spec p) ->
    lookup (uplink_of p) (cid_of p) = Some d -> d (bs ++ rest) = Ok p ->
    exists bs d, enc p = Ok bs /\ length bs = psize p /\ bs = spec_bytes (MC.spec p)
      /\ lookup (uplink_of p) (cid_of p) = Some d /\ d (bs ++ rest) = Ok p).
  { intros bs d; exists bs, d; auto. }
  destruct p as [i v|m|nb m items|id addr key minf maxf|e id|id|u id|id st tmo freq dr
                 |u f d id tts|id st per tmo freq dr|u f d id tts];
    cbn [MC.spec MC.extra] in H.
  - (* PackageVersionAns *)
    widths H. eapply Fin; [reflexivity|reflexivity| |reflexivity| ].
    + cbn [MC.spec]; layout. bytes_eq; lia.
    + unfold dec_PackageVersionAns. run. reflexivity.
  - (* McGroupStatusReq *)
    widths H. assert (Hm : length m = 4%nat) by lia.
    destruct (length4 m Hm) as (m0 & m1 & m2 & m3 & ->).
    eapply Fin; [reflexivity|reflexivity| |reflexivity| ].
    + cbn [MC.spec]; layout. bytes_eq. destruct m0, m1, m2, m3; reflexivity.
    + unfold dec_McGroupStatusReq. cbn [enc]. run. rewrite unmask4_mask. reflexivity.
  - (* McGroupStatusAns *)
    apply andb_true_iff in H as [Hg Hx].
    apply andb_true_iff in Hx as [Hx Ha]. apply andb_true_iff in Hx as [Hm Hc].
    apply Nat.eqb_eq in Hm, Hc.
    destruct (length4 m Hm) as (m0 & m1 & m2 & m3 & ->).
    cbn [groups_ok forallb] in Hg. apply andb_true_iff in Hg as [Hg0 Hgi].
    assert (Hit : Forall item_ok items) by (apply items_ok_of; auto).
    cbn [group_ok sum_widths fwidth fvalue forallb] in Hg0.
    assert (Hnb : nb < 8) by lia.
    assert (Hlen4 : (length items <= 4)%nat) by (rewrite Hc; destruct m0, m1, m2, m3; cbn; lia).
    assert (Henc : enc (McGroupStatusAns nb [m0; m1; m2; m3] items) =
                   Ok (N.lor (mask_bits 0 [m0; m1; m2; m3] 0) (shl8 (N.land nb 7) 4) :: flat_map enc_item items)).
    { cbn [enc]. replace (4 <? length items)%nat with false by lia.
      rewrite Hc, Nat.eqb_refl. cbn [negb]. reflexivity. }
    eapply Fin; [exact Henc| | |reflexivity| ].
    + cbn [length psize]. rewrite items_length by assumption. lia.
    + cbn [MC.spec]. unfold spec_bytes. cbn [flat_map]. fold (spec_bytes (flat_map MC.item_groups items)).
      rewrite <- items_layout by assumption. cbn [group_bytes pack le_bytes app]. f_equal.
      destruct m0, m1, m2, m3; enum nb 8%nat; reflexivity.
    + unfold dec_McGroupStatusAns. cbn [app length Nat.eqb idx nth_error bind].
      set (b0 := N.lor (mask_bits 0 [m0; m1; m2; m3] 0) (shl8 (N.land nb 7) 4)).
      assert (Hun : unmask4 b0 = [m0; m1; m2; m3])
        by (unfold b0; destruct m0, m1, m2, m3; enum nb 8%nat; reflexivity).
      assert (Hnb' : N.shiftr (N.land b0 0x70) 4 = nb)
        by (unfold b0; destruct m0, m1, m2, m3; enum nb 8%nat; reflexivity).
      rewrite Hun, Hnb'. rewrite <- Hc.
      rewrite app_length, items_length by assumption.
      replace (S (5 * length items + length rest) <? 1 + 5 * length items)%nat with false by lia.
      change (b0 :: flat_map enc_item items ++ rest) with ([b0] ++ flat_map enc_item items ++ rest).
      change 1%nat with (length [b0]).
      rewrite dec_items_ok by assumption. reflexivity.
  - (* McGroupSetupReq *)
    widths H.
    assert (Ha : length addr = 4%nat) by lia. assert (Hk : length key = 16%nat) by lia.
    destruct (length4 addr Ha) as (a0 & a1 & a2 & a3 & ->).
    assert (Hab : a0 < 256 /\ a1 < 256 /\ a2 < 256 /\ a3 < 256).
    { unfold bytes_ok, byte_ok in H. cbn [forallb] in H. lia. }
    explode key Hk.
    eapply Fin; [reflexivity|reflexivity| |reflexivity| ].
    + cbn [MC.spec]; layout. cbn [enc app rev devaddr_marshal le_bytes]. unfold be_val. cbn [rev app le_val].
      bytes_eq; try lia. enum id 4%nat; reflexivity.
    + unfold dec_McGroupSetupReq. cbn [enc]. run. fields_eq; try lia. enum id 4%nat; reflexivity.
  - (* McGroupSetupAns *)
    widths H. eapply Fin; [reflexivity|reflexivity| |reflexivity| ].
    + cbn [MC.spec]; layout. bytes_eq. destruct e; enum id 4%nat; reflexivity.
    + unfold dec_McGroupSetupAns. cbn [enc]. run. destruct e; enum id 4%nat; reflexivity.
  - (* McGroupDeleteReq *)
    widths H. eapply Fin; [reflexivity|reflexivity| |reflexivity| ].
    + cbn [MC.spec]; layout. bytes_eq. enum id 4%nat; reflexivity.
    + unfold dec_McGroupDeleteReq. run. enum id 4%nat; reflexivity.
  - (* McGroupDeleteAns *)
    widths H. eapply Fin; [reflexivity|reflexivity| |reflexivity| ].
    + cbn [MC.spec]; layout. bytes_eq. destruct u; enum id 4%nat; reflexivity.
    + unfold dec_McGroupDeleteAns. cbn [enc]. run. destruct u; enum id 4%nat; reflexivity.
  - (* McClassCSessionReq *)
    widths H.
    assert (Hf : freq mod 100 = 0) by lia. assert (Hq : freq / 100 < 2 ^ 24) by lia.
    assert (Hfq : freq = (freq / 100) * 100) by lia.
    eapply Fin; [ | | |reflexivity| ].
    + cbn [enc]. replace (freq mod 100 =? 0) with true by lia. cbn [negb]. reflexivity.
    + reflexivity.
    + cbn [MC.spec]; layout. run. bytes_eq; try lia; [enum id 4%nat; reflexivity|enum tmo 16%nat; reflexivity].
    + unfold dec_McClassCSessionReq, rd_freq. run.
      fields_eq; try lia; [enum id 4%nat; reflexivity|enum tmo 16%nat; reflexivity].
  - (* McClassCSessionAns *)
    apply andb_true_iff in H as [Hg Hx].
    destruct (session_ans_rt McClassCSessionAns u f d id tts rest Hg Hx) as (bs & E & L & S & D).
    eapply Fin; [exact E|exact L|exact S|reflexivity|exact D].
  - (* McClassBSessionReq *)
    widths H.
    assert (Hf : freq mod 100 = 0) by lia. assert (Hq : freq / 100 < 2 ^ 24) by lia.
    assert (Hfq : freq = (freq / 100) * 100) by lia.
    eapply Fin; [ | | |reflexivity| ].
    + cbn [enc]. replace (freq mod 100 =? 0) with true by lia. cbn [negb]. reflexivity.
    + reflexivity.
    + cbn [MC.spec]; layout. run. bytes_eq; try lia; [enum id 4%nat; reflexivity|].
      enum tmo 16%nat; enum per 8%nat; reflexivity.
    + unfold dec_McClassBSessionReq, rd_freq. run.
      fields_eq; try lia; [enum id 4%nat; reflexivity| |]; enum tmo 16%nat; enum per 8%nat; reflexivity.
  - (* McClassBSessionAns *)
    apply andb_true_iff in H as [Hg Hx].
    destruct (session_ans_rt McClassBSessionAns u f d id tts rest Hg Hx) as (bs & E & L & S & D).
    eapply Fin; [exact E|exact L|exact S|reflexivity|exact D].
Qed.

Theorem enc_no_panic p : enc p <> Panic.
Proof.
  destruct p as [i v|m|nb m items|id addr key minf maxf|e id|id|u id|id st tmo freq dr
                 |u f d id tts|id st per tmo freq dr|u f d id tts]; cbn [enc]; try discriminate.
  - destruct (4 <? length items)%nat; [discriminate|].
    destruct (negb (Nat.eqb (count_true m) (length items))); discriminate.
  - destruct (negb (freq mod 100 =? 0)); discriminate.
  - unfold enc_session_ans. destruct u, f, d, tts; discriminate.
  - destruct (negb (freq mod 100 =? 0)); discriminate.
  - unfold enc_session_ans. destruct u, f, d, tts; discriminate.
Qed.

Lemma dec_items_fuel_free n : forall data off, dec_items n data off <> OutOfFuel.
Proof.
  induction n as [|n IH]; intros data off; cbn [dec_items]; [discriminate|].
  specialize (IH data (off + 5)%nat).
  unfold idx, sub, devaddr_unmarshal.
  destruct (nth_error data off); cbn [bind]; [|discriminate].
  destruct (off + 5 <=? length data)%nat; cbn [bind]; [|discriminate].
  destruct (Nat.eqb _ 4); cbn [bind]; [|discriminate].
  destruct (dec_items n data (off + 5)); cbn [bind]; try discriminate. congruence.
Qed.

Lemma dec_McGroupStatusAns_fuel_free data : dec_McGroupStatusAns data <> OutOfFuel.
Proof.
  unfold dec_McGroupStatusAns, idx.
  destruct (Nat.eqb (length data) 0); [discriminate|].
  destruct (nth_error data 0) as [b|]; cbn [bind]; [|discriminate].
  cbv zeta.
  destruct (length data <? 1 + 5 * count_true (unmask4 b))%nat; [discriminate|].
  pose proof (dec_items_fuel_free (count_true (unmask4 b)) data 1) as Hi.
  destruct (dec_items _ data 1); cbn [bind]; try discriminate. congruence.
Qed.

Lemma dec_fuel_free up cid d data : lookup up cid = Some d -> d data <> OutOfFuel.
Proof.
  unfold lookup. destruct up.
  - cid_cases cid; intros E; try discriminate E; inversion E; subst; clear E.
    all: first [apply dec_McGroupStatusAns_fuel_free
               |unfold dec_PackageVersionAns, dec_McGroupSetupAns, dec_McGroupDeleteAns, dec_session_ans; no_fuel].
  - cid_cases cid; intros E; try discriminate E; inversion E; subst; clear E.
    all: unfold dec_McGroupStatusReq, dec_McGroupSetupReq, dec_McGroupDeleteReq, dec_McClassCSessionReq,
         dec_McClassBSessionReq, rd_freq; no_fuel.
Qed.

Lemma cmd_roundtrip up (c : command) rest :
  MCW.wf_cmd up c = true ->
  exists bs, cmd_enc c = Ok bs /\ length bs = cmd_size c /\ bs = spec_cmd_bytes MC.spec c
             /\ cmd_dec up (whole up (bs ++ rest)) = Ok c.
Proof.
  destruct c as [cid [p|]]; unfold MCW.wf_cmd, wf_cmd; cbn [fst snd]; intros H.
  - apply andb_true_iff in H as [H Hw]. apply andb_true_iff in H as [Hc Hu].
    apply N.eqb_eq in Hc. apply eqb_prop in Hu. subst cid up.
    destruct (payload_roundtrip p rest Hw) as (bs & d & E & L & S & Lk & D).
    exists (cid_of p :: bs). unfold cmd_enc, Common.cmd_enc, cmd_size, Common.cmd_size, cmd_dec, Common.cmd_dec, whole.
    cbn [fst snd]. rewrite E. cbn [bind app length]. rewrite L.
    split; [reflexivity|]. split; [lia|]. split; [unfold spec_cmd_bytes; cbn [fst snd]; now rewrite S|].
    rewrite Lk, D. reflexivity.
  - apply andb_true_iff in H as [Hc Hn]. exists [cid].
    unfold cmd_enc, Common.cmd_enc, cmd_size, Common.cmd_size, cmd_dec, Common.cmd_dec, whole.
    cbn [fst snd app]. repeat split.
    unfold MCW.has_payload, opt_some in Hn. destruct (lookup up cid); [discriminate|reflexivity].
Qed.

Theorem stream_roundtrip up (cs : list command) :
  MCW.wf_stream up cs = true ->
  exists bs, cmds_enc cs = Ok bs
    /\ length bs = fold_right Nat.add O (map cmd_size cs)
    /\ bs = MCW.stream_bytes cs
    /\ cmds_dec up bs = Ok cs.
Proof.
  apply (StreamProofs.stream_roundtrip payload enc psize lookup whole MC.in_widthb cid_of uplink_of
           MCW.has_payload never MC.spec).
  intros up' c rest Hwf _. now apply cmd_roundtrip.
Qed.

Theorem stream_dec_terminates up data : cmds_dec up data <> OutOfFuel.
Proof. apply (StreamProofs.stream_dec_terminates payload psize lookup whole dec_fuel_free). Qed.
