(* TS005 (Remote Multicast Setup v1.0.0) key derivations, transcribed from
   the specification:
     McRootKey = aes128_encrypt(GenAppKey, 0x00 | pad16)   LoRaWAN 1.0.x devices
     McRootKey = aes128_encrypt(AppKey,    0x20 | pad16)   LoRaWAN 1.1 devices
     McKEKey   = aes128_encrypt(McRootKey, 0x00 | pad16)
     McAppSKey = aes128_encrypt(McKey, 0x01 | McAddr | pad16)
     McNetSKey = aes128_encrypt(McKey, 0x02 | McAddr | pad16)
   pad16 appends zero octets up to 16; multi-octet fields (McAddr) are
   little-endian.  An address is given as its 32-bit value. *)
From Coq Require Import List NArith ZArith Bool.
From LW Require Import Base.Bytes Crypto.AES.
Import ListNotations.
Open Scope N_scope.

Definition pad16 (l : list N) : list N := l ++ repeat 0 (16 - length l).

Definition spec_root_gen (gen_app_key : list N) : list N := aes_encrypt gen_app_key (pad16 [0x00]).
Definition spec_root_app (app_key : list N) : list N := aes_encrypt app_key (pad16 [0x20]).
Definition spec_ke (mc_root_key : list N) : list N := aes_encrypt mc_root_key (pad16 [0x00]).
Definition spec_app_s (mc_key : list N) (mc_addr : N) : list N :=
  aes_encrypt mc_key (pad16 (0x01 :: le_bytes 4 mc_addr)).
Definition spec_net_s (mc_key : list N) (mc_addr : N) : list N :=
  aes_encrypt mc_key (pad16 (0x02 :: le_bytes 4 mc_addr)).
