// Correspondence harness for C02: data-frame MIC (Set*/Validate* of PHYPayload)
// on generated frames, keys, versions, counters and TX parameters.
package main

import (
	"crypto/aes"
	"fmt"
	"io"
	"log"
	"os"
	"time"

	"github.com/brocaar/lorawan"
	"github.com/brocaar/lorawan/applayer/clocksync"
	"github.com/jacobsa/crypto/cmac"

	"verifharness/internal/cases"
	"verifharness/internal/collide"
	"verifharness/internal/cq"
	"verifharness/internal/framefmt"
	"verifharness/internal/micforge"
	"verifharness/internal/noise"
)

// nr drives the unrelated library calls made between the compared calls (own stream: case generation is unaffected)
var nr *cq.RNG

func hx(b []byte) string { return fmt.Sprintf("%x", b) }

func ver(v lorawan.MACVersion) string {
	if v == lorawan.LoRaWAN1_0 {
		return "LoRaWAN1_0"
	}
	return "LoRaWAN1_1"
}

func obool(ok bool, err error) string {
	if err != nil {
		return cq.Err
	}
	return cq.Ok(cq.Bool(ok))
}

// setUp returns the MIC SetUplinkDataMIC stores (on a copy of p).
func setUp(p lorawan.PHYPayload, v lorawan.MACVersion, conf uint32, dr, ch uint8, fk, sk lorawan.AES128Key) (s string, mic lorawan.MIC, ok bool) {
	cases.Begin("SetUplinkDataMIC:"+framefmt.Phy(p, 0), nil)
	defer cases.End()
	defer func() {
		if r := recover(); r != nil {
			s, ok = cq.Panic, false
		}
	}()
	if err := p.SetUplinkDataMIC(v, conf, dr, ch, fk, sk); err != nil {
		return cq.Err, mic, false
	}
	return cq.Ok(cq.Bytes(p.MIC[:])), p.MIC, true
}

func setDown(p lorawan.PHYPayload, v lorawan.MACVersion, conf uint32, sk lorawan.AES128Key) (s string, mic lorawan.MIC, ok bool) {
	cases.Begin("SetDownlinkDataMIC:"+framefmt.Phy(p, 0), nil)
	defer cases.End()
	defer func() {
		if r := recover(); r != nil {
			s, ok = cq.Panic, false
		}
	}()
	if err := p.SetDownlinkDataMIC(v, conf, sk); err != nil {
		return cq.Err, mic, false
	}
	return cq.Ok(cq.Bytes(p.MIC[:])), p.MIC, true
}

func valUp(p lorawan.PHYPayload, v lorawan.MACVersion, conf uint32, dr, ch uint8, fk, sk lorawan.AES128Key) (s string) {
	cases.Begin("ValidateUplinkDataMIC:"+framefmt.Phy(p, 0), nil)
	defer cases.End()
	defer func() {
		if r := recover(); r != nil {
			s = cq.Panic
		}
	}()
	return obool(p.ValidateUplinkDataMIC(v, conf, dr, ch, fk, sk))
}

func valUpF(p lorawan.PHYPayload, fk lorawan.AES128Key) (s string) {
	cases.Begin("ValidateUplinkDataMICF:"+framefmt.Phy(p, 0), nil)
	defer cases.End()
	defer func() {
		if r := recover(); r != nil {
			s = cq.Panic
		}
	}()
	return obool(p.ValidateUplinkDataMICF(fk))
}

func valDown(p lorawan.PHYPayload, v lorawan.MACVersion, conf uint32, sk lorawan.AES128Key) (s string) {
	cases.Begin("ValidateDownlinkDataMIC:"+framefmt.Phy(p, 0), nil)
	defer cases.End()
	defer func() {
		if r := recover(); r != nil {
			s = cq.Panic
		}
	}()
	return obool(p.ValidateDownlinkDataMIC(v, conf, sk))
}

func key(r *cq.RNG) (k lorawan.AES128Key) {
	switch r.Intn(12) {
	case 0: // all zero
	case 1:
		for i := range k {
			k[i] = 0xff
		}
	default:
		copy(k[:], r.Bytes(16))
	}
	return
}

func counter(r *cq.RNG) uint32 {
	switch r.Intn(10) {
	case 0:
		return uint32(r.Intn(1 << 16))
	case 1:
		return 0
	case 2:
		return 0xffffffff
	case 3:
		return 0x10000 * uint32(1+r.Intn(0xffff)) // low half zero
	default:
		return r.U32() | 0x10000
	}
}

// tamper replaces the carried MIC: 0 keep the one just set, 1 random, 2 one bit flipped,
// 3 first half changed (cmacS half in 1.1), 4 second half changed.
func tamper(r *cq.RNG, mic lorawan.MIC, how int) lorawan.MIC {
	switch how {
	case 1:
		copy(mic[:], r.Bytes(4))
	case 2:
		mic[r.Intn(4)] ^= 1 << uint(r.Intn(8))
	case 3:
		mic[r.Intn(2)] ^= byte(1 + r.Intn(255))
	case 4:
		mic[2+r.Intn(2)] ^= byte(1 + r.Intn(255))
	}
	return mic
}

var hows = []string{"valid", "random", "bitflip", "first-half", "second-half"}

// unchanged runs a call that only inspects the frame *p and reports when the frame afterwards prints or marshals
// differently (MIC included). Nothing is restored: later calls see what a real caller would see.
func unchanged(s *cases.Set, what string, p *lorawan.PHYPayload, call func() string) string {
	before := framefmt.Phy(*p, 0)
	bb, _ := marshalQuiet(*p)
	o := call()
	after := framefmt.Phy(*p, 0)
	ab, _ := marshalQuiet(*p)
	if before != after || string(bb) != string(ab) {
		s.Fail(cases.GoFail{Key: "validate-changes-frame:" + what + ":" + before, What: what + " changed the frame it only inspects (a second validation, or MarshalBinary, now sees another frame)",
			Replay: map[string]interface{}{"api": what, "frame_before": before, "frame_after": after, "bytes_before": hx(bb), "bytes_after": hx(ab), "result": o}})
	}
	return o
}

func marshalQuiet(p lorawan.PHYPayload) (b []byte, err error) {
	defer func() {
		if r := recover(); r != nil {
			b, err = nil, fmt.Errorf("panic")
		}
	}()
	return p.MarshalBinary()
}

// pointer forms of the validate helpers: the call is made on the caller's frame object itself
func valUpP(p *lorawan.PHYPayload, v lorawan.MACVersion, conf uint32, dr, ch uint8, fk, sk lorawan.AES128Key) (s string) {
	cases.Begin("ValidateUplinkDataMIC:"+framefmt.Phy(*p, 0), nil)
	defer cases.End()
	defer func() {
		if r := recover(); r != nil {
			s = cq.Panic
		}
	}()
	return obool(p.ValidateUplinkDataMIC(v, conf, dr, ch, fk, sk))
}

func valUpFP(p *lorawan.PHYPayload, fk lorawan.AES128Key) (s string) {
	cases.Begin("ValidateUplinkDataMICF:"+framefmt.Phy(*p, 0), nil)
	defer cases.End()
	defer func() {
		if r := recover(); r != nil {
			s = cq.Panic
		}
	}()
	return obool(p.ValidateUplinkDataMICF(fk))
}

func valDownP(p *lorawan.PHYPayload, v lorawan.MACVersion, conf uint32, sk lorawan.AES128Key) (s string) {
	cases.Begin("ValidateDownlinkDataMIC:"+framefmt.Phy(*p, 0), nil)
	defer cases.End()
	defer func() {
		if r := recover(); r != nil {
			s = cq.Panic
		}
	}()
	return obool(p.ValidateDownlinkDataMIC(v, conf, sk))
}

// obj: when set by a verdict family, the validations of the next compared case are made on this one frame object
// (the case's term is printed from the frame the caller believes it holds)
var obj *lorawan.PHYPayload

// upCaseM: one compared uplink case. fixed == nil: the carried MIC is the one just set, changed as `how` says;
// fixed != nil: the frame carries *fixed (a MIC that was valid for a neighbouring call). quiet: no unrelated calls
// in between (neighbour families run back to back). Returns the MIC Set computed.
func upCaseM(s *cases.Set, r *cq.RNG, p lorawan.PHYPayload, v lorawan.MACVersion, conf uint32, dr, ch uint8, fk, sk lorawan.AES128Key, how int, kind, what string, fixed *lorawan.MIC, quiet bool) (lorawan.MIC, bool) {
	if !quiet {
		noise.Step(nr)
	}
	oset, mic, ok := setUp(p, v, conf, dr, ch, fk, sk)
	if ok {
		lastMIC = mic
	}
	if fixed != nil {
		p.MIC = *fixed
	} else if ok {
		p.MIC = tamper(r, mic, how)
	}
	t := framefmt.Phy(p, 0)
	q := p
	target := &p
	if obj != nil {
		target = obj
	}
	oval := unchanged(s, "ValidateUplinkDataMIC", target, func() string { return valUpP(target, v, conf, dr, ch, fk, sk) })
	ovalf := unchanged(s, "ValidateUplinkDataMICF", target, func() string { return valUpFP(target, fk) })
	key := fmt.Sprintf("up:%s:conf=%d:txdr=%d:txch=%d:fkey=%s:skey=%s:mic=%s:%s", ver(v), conf, dr, ch, hx(fk[:]), hx(sk[:]), what, t)
	rp := map[string]interface{}{"api": "SetUplinkDataMIC on a copy, then ValidateUplinkDataMIC / ValidateUplinkDataMICF on the frame as given",
		"macVersion": ver(v), "confFCnt": conf, "txDR": dr, "txCh": ch, "fNwkSIntKey": hx(fk[:]), "sNwkSIntKey": hx(sk[:]), "frame": t,
		"carried_mic": what, "previous_compared_call": lastKey, "observed": map[string]string{"set": oset, "validate": oval, "validateF": ovalf}}
	s.Add(cases.Case{
		Term: fmt.Sprintf("CUp %s %d %d %d %s %s %s %s %s %s", ver(v), conf, dr, ch, cq.Bytes(fk[:]), cq.Bytes(sk[:]), t, oset, oval, ovalf),
		Key:  key, Kind: kind, Nontrivial: true, Replay: rp})
	lastKey = clip(key)
	s.Remember(key, oset+" "+oval+" "+ovalf, rp, func() string {
		a, _, _ := setUp(q, v, conf, dr, ch, fk, sk)
		return a + " " + valUp(q, v, conf, dr, ch, fk, sk) + " " + valUpF(q, fk)
	})
	return mic, ok
}

func upCase(s *cases.Set, r *cq.RNG, p lorawan.PHYPayload, v lorawan.MACVersion, conf uint32, dr, ch uint8, fk, sk lorawan.AES128Key, how int, kind string) {
	upCaseM(s, r, p, v, conf, dr, ch, fk, sk, how, kind, hows[how], nil, false)
}

func downCaseM(s *cases.Set, r *cq.RNG, p lorawan.PHYPayload, v lorawan.MACVersion, conf uint32, sk lorawan.AES128Key, how int, kind, what string, fixed *lorawan.MIC, quiet bool) (lorawan.MIC, bool) {
	if !quiet {
		noise.Step(nr)
	}
	oset, mic, ok := setDown(p, v, conf, sk)
	if ok {
		lastMIC = mic
	}
	if fixed != nil {
		p.MIC = *fixed
	} else if ok {
		p.MIC = tamper(r, mic, how)
	}
	t := framefmt.Phy(p, 0)
	q := p
	target := &p
	if obj != nil {
		target = obj
	}
	oval := unchanged(s, "ValidateDownlinkDataMIC", target, func() string { return valDownP(target, v, conf, sk) })
	key := fmt.Sprintf("down:%s:conf=%d:skey=%s:mic=%s:%s", ver(v), conf, hx(sk[:]), what, t)
	rp := map[string]interface{}{"api": "SetDownlinkDataMIC on a copy, then ValidateDownlinkDataMIC on the frame as given",
		"macVersion": ver(v), "confFCnt": conf, "sNwkSIntKey": hx(sk[:]), "frame": t, "carried_mic": what, "previous_compared_call": lastKey,
		"observed": map[string]string{"set": oset, "validate": oval}}
	s.Add(cases.Case{
		Term: fmt.Sprintf("CDown %s %d %s %s %s %s", ver(v), conf, cq.Bytes(sk[:]), t, oset, oval),
		Key:  key, Kind: kind, Nontrivial: true, Replay: rp})
	lastKey = clip(key)
	s.Remember(key, oset+" "+oval, rp, func() string {
		a, _, _ := setDown(q, v, conf, sk)
		return a + " " + valDown(q, v, conf, sk)
	})
	return mic, ok
}

func downCase(s *cases.Set, r *cq.RNG, p lorawan.PHYPayload, v lorawan.MACVersion, conf uint32, sk lorawan.AES128Key, how int, kind string) {
	downCaseM(s, r, p, v, conf, sk, how, kind, hows[how], nil, false)
}

var lastKey = "(none)"
var lastMIC lorawan.MIC // the MIC Set computed in the previous compared case
var forged, forgedHit int

// forge builds a data frame whose CORRECT MIC under the given parameters is `want` (see internal/micforge): the
// message B0 | MHDR | FHDR | FPort | FRMPayload is made a multiple of 16 bytes long with its last block inside the
// FRMPayload, and that block is solved from the wanted tag. 1.0 and downlink: one CMAC, direct. 1.1 uplink:
// MIC = cmacS[0:2] | cmacF[0:2] over messages differing in the first block only: cmacS is fixed by inversion, the
// 14 free tag bytes are varied until cmacF[0:2] fits (about 2^16 trials).
func forge(r *cq.RNG, up bool, v lorawan.MACVersion, conf uint32, dr, ch uint8, fk, sk lorawan.AES128Key, want lorawan.MIC) (lorawan.PHYPayload, bool) {
	mts := []lorawan.MType{lorawan.UnconfirmedDataDown, lorawan.ConfirmedDataDown}
	if up {
		mts = []lorawan.MType{lorawan.UnconfirmedDataUp, lorawan.ConfirmedDataUp}
	}
	n := 23 + 16*r.Intn(3) // 16 (B0) + 1 + 7 + 1 + n is a multiple of 16
	p := dataFrame(r, framefmt.Opt{MType: mts[r.Intn(2)], Port: 1 + r.Intn(255), FRMLen: n, FCntHigh: r.Intn(10) < 7})
	m := p.MACPayload.(*lorawan.MACPayload)
	pay := m.FRMPayload[0].(*lorawan.DataPayload)
	b, err := p.MarshalBinary()
	if err != nil || len(b) != 1+7+1+n+4 {
		return p, false
	}
	msg := b[:len(b)-4]
	last, ok := micforge.ForgeData(micforge.DataParams{Uplink: up, V11: v != lorawan.LoRaWAN1_0, ACK: m.FHDR.FCtrl.ACK, Conf: conf,
		TxDR: dr, TxCh: ch, FKey: fk, SKey: sk, DevAddr: m.FHDR.DevAddr, FCnt: m.FHDR.FCnt}, msg[:len(msg)-16], want, r.U64)
	if !ok {
		return p, false
	}
	copy(pay.Bytes[n-16:], last[:])
	return p, true
}

// forgedCases: frames whose correct MIC is 00000000, ffffffff, 00000001 and the MIC of the previous case, for every
// direction x version; ordinary cases (Set must give that MIC, Validate of the frame carrying it must be true).
func forgedCases(s *cases.Set, r *cq.RNG, rounds int) {
	for round := 0; round < rounds; round++ {
		for _, up := range []bool{true, false} {
			for _, v := range []lorawan.MACVersion{lorawan.LoRaWAN1_0, lorawan.LoRaWAN1_1} {
				for wi, want := range []lorawan.MIC{{}, {0xff, 0xff, 0xff, 0xff}, {0, 0, 0, 1}, lastMIC, {0, 0, 0xab, 0xcd}, {0x12, 0x34, 0, 0}} {
					if wi == 3 {
						want = lastMIC
					}
					conf, dr, ch, fk, sk := counter(r), r.Byte(), r.Byte(), key(r), key(r)
					p, ok := forge(r, up, v, conf, dr, ch, fk, sk, want)
					if !ok {
						continue
					}
					forged++
					var mic lorawan.MIC
					var sok bool
					kind := fmt.Sprintf("forged-mic-%s", []string{"00000000", "ffffffff", "00000001", "previous", "0000xxxx", "xxxx0000"}[wi])
					if up {
						mic, sok = upCaseM(s, r, p, v, conf, dr, ch, fk, sk, 0, kind, "forged", nil, false)
					} else {
						mic, sok = downCaseM(s, r, p, v, conf, sk, 0, kind, "forged", nil, false)
					}
					if sok && mic == want {
						forgedHit++
					}
				}
			}
		}
	}
	s.Extra["forged_mic_frames"] = forged
	s.Extra["forged_mic_frames_whose_set_mic_is_the_wanted_value"] = forgedHit
}

func clip(k string) string {
	if len(k) > 300 {
		return k[:300] + "..."
	}
	return k
}

// withFCnt returns a copy of the frame (own MACPayload) with another FCnt / ACK flag.
func withFCnt(p lorawan.PHYPayload, fcnt uint32) lorawan.PHYPayload {
	m := *p.MACPayload.(*lorawan.MACPayload)
	m.FHDR.FCnt = fcnt
	p.MACPayload = &m
	return p
}

func otherVer(v lorawan.MACVersion) lorawan.MACVersion {
	if v == lorawan.LoRaWAN1_0 {
		return lorawan.LoRaWAN1_1
	}
	return lorawan.LoRaWAN1_0
}

// family: a base call whose frame carries its valid MIC, then back to back the same call with exactly one input
// changed (the frame still carrying the base MIC), then the base call again. The library keeps no state between
// calls: each neighbour must be judged on its own inputs (most of them must be rejected).
func family(s *cases.Set, r *cq.RNG, p lorawan.PHYPayload, up bool, v lorawan.MACVersion, conf uint32, dr, ch uint8, fk, sk lorawan.AES128Key, i int) {
	m := p.MACPayload.(*lorawan.MACPayload)
	fc := m.FHDR.FCnt
	var zero lorawan.AES128Key
	noise.Step(nr)
	if up {
		mic, ok := upCaseM(s, r, p, v, conf, dr, ch, fk, sk, 0, "family-up-base", "valid", nil, true)
		if !ok {
			return
		}
		one := func(q lorawan.PHYPayload, v lorawan.MACVersion, conf uint32, dr, ch uint8, fk, sk lorawan.AES128Key, what string) {
			upCaseM(s, r, q, v, conf, dr, ch, fk, sk, 0, "family-up", "base-mic:"+what, &mic, true)
		}
		for _, b := range []uint{16, 31, 16 + uint(i%16), uint(i % 16)} {
			one(withFCnt(p, fc^(1<<b)), v, conf, dr, ch, fk, sk, fmt.Sprintf("fcnt-bit%d", b))
		}
		one(withFCnt(p, fc+0x10000), v, conf, dr, ch, fk, sk, "fcnt+2^16")
		one(p, v, conf+1, dr, ch, fk, sk, "conf+1")
		one(p, v, conf+0x10000, dr, ch, fk, sk, "conf+2^16")
		one(p, v, conf, dr^1, ch, fk, sk, "txdr^1")
		one(p, v, conf, dr, ch^0x80, fk, sk, "txch^0x80")
		one(p, v, conf, dr, ch, zero, sk, "fkey-zero")
		one(p, v, conf, dr, ch, fk, zero, "skey-zero")
		one(p, v, conf, dr, ch, fk, fk, "skey=fkey")
		one(p, v, conf, dr, ch, sk, fk, "keys-swapped")
		one(p, otherVer(v), conf, dr, ch, fk, sk, "other-version")
		// keys that differ from the base key but agree with it under a cheap digest (internal/collide)
		for _, pr := range collide.For(fk) {
			one(p, v, conf, dr, ch, lorawan.AES128Key(pr.K2), sk, "fkey-collides-"+pr.Name)
		}
		for _, pr := range collide.For(sk) {
			if pr.Name == "crc32-ieee+castagnoli+koopman" || pr.Name == "first15bytes" || pr.Name == "xorfold8/4/2/1+bytesum" {
				one(p, v, conf, dr, ch, fk, lorawan.AES128Key(pr.K2), "skey-collides-"+pr.Name)
			}
		}
		one(p, v, conf, dr, ch, fk, sk, "base-after-colliding-keys")
		// MICs that are correct under a related formula of the library: all must be judged by the model
		rel := func(what string, f func(c *lorawan.PHYPayload) error) {
			c := p
			if f(&c) == nil {
				m2 := c.MIC
				upCaseM(s, r, p, v, conf, dr, ch, fk, sk, 0, "family-up-related", "related-formula:"+what, &m2, true)
			}
		}
		rel("other-version", func(c *lorawan.PHYPayload) error { return c.SetUplinkDataMIC(otherVer(v), conf, dr, ch, fk, sk) })
		rel("downlink-formula-skey", func(c *lorawan.PHYPayload) error { return c.SetDownlinkDataMIC(v, conf, sk) })
		rel("downlink-formula-fkey", func(c *lorawan.PHYPayload) error { return c.SetDownlinkDataMIC(v, conf, fk) })
		rel("cmacF-only(1.0-form)", func(c *lorawan.PHYPayload) error { return c.SetUplinkDataMIC(lorawan.LoRaWAN1_0, 0, 0, 0, fk, fk) })
		rel("micf-call-form", func(c *lorawan.PHYPayload) error { return c.SetUplinkDataMIC(lorawan.LoRaWAN1_1, 0, 0, 0, fk, fk) })
		rel("keys-swapped", func(c *lorawan.PHYPayload) error { return c.SetUplinkDataMIC(v, conf, dr, ch, sk, fk) })
		rel("neighbour-conf", func(c *lorawan.PHYPayload) error { return c.SetUplinkDataMIC(v, conf+1, dr, ch, fk, sk) })
		rel("neighbour-txdr", func(c *lorawan.PHYPayload) error { return c.SetUplinkDataMIC(v, conf, dr+1, ch, fk, sk) })
		rel("neighbour-txch", func(c *lorawan.PHYPayload) error { return c.SetUplinkDataMIC(v, conf, dr, ch+1, fk, sk) })
		{
			sw := mic
			sw[0], sw[1], sw[2], sw[3] = mic[2], mic[3], mic[0], mic[1]
			upCaseM(s, r, p, v, conf, dr, ch, fk, sk, 0, "family-up-related", "related-formula:halves-swapped", &sw, true)
			ff := mic
			ff[0], ff[1] = mic[2], mic[3]
			upCaseM(s, r, p, v, conf, dr, ch, fk, sk, 0, "family-up-related", "related-formula:cmacF-half-twice", &ff, true)
		}
		one(p, v, conf, dr, ch, fk, sk, "base-again")
		// verdict family: ONE frame object (signed for fk/sk) validated with wrong keys, with the same wrong keys
		// again, then with the right ones - the carried MIC is never re-assigned in between
		{
			holder := p
			holder.MIC = mic
			obj = &holder
			believed := holder
			wrong := key(r)
			upCaseM(s, r, believed, v, conf, dr, ch, wrong, wrong, 0, "family-up-verdict", "verdict:wrong-keys", &mic, true)
			upCaseM(s, r, believed, v, conf, dr, ch, wrong, wrong, 0, "family-up-verdict", "verdict:wrong-keys-again", &mic, true)
			upCaseM(s, r, believed, v, conf, dr, ch, fk, sk, 0, "family-up-verdict", "verdict:right-keys", &mic, true)
			obj = nil
		}
	} else {
		mic, ok := downCaseM(s, r, p, v, conf, sk, 0, "family-down-base", "valid", nil, true)
		if !ok {
			return
		}
		one := func(q lorawan.PHYPayload, v lorawan.MACVersion, conf uint32, sk lorawan.AES128Key, what string) {
			downCaseM(s, r, q, v, conf, sk, 0, "family-down", "base-mic:"+what, &mic, true)
		}
		for _, b := range []uint{16, 31, 16 + uint(i%16), uint(i % 16)} {
			one(withFCnt(p, fc^(1<<b)), v, conf, sk, fmt.Sprintf("fcnt-bit%d", b))
		}
		one(withFCnt(p, fc+0x10000), v, conf, sk, "fcnt+2^16")
		one(p, v, conf+1, sk, "conf+1")
		one(p, v, conf+0x10000, sk, "conf+2^16")
		one(p, v, conf, zero, "skey-zero")
		one(p, otherVer(v), conf, sk, "other-version")
		for _, pr := range collide.For(sk) {
			one(p, v, conf, lorawan.AES128Key(pr.K2), "skey-collides-"+pr.Name)
		}
		one(p, v, conf, sk, "base-after-colliding-keys")
		rel := func(what string, f func(c *lorawan.PHYPayload) error) {
			c := p
			if f(&c) == nil {
				m2 := c.MIC
				downCaseM(s, r, p, v, conf, sk, 0, "family-down-related", "related-formula:"+what, &m2, true)
			}
		}
		rel("other-version", func(c *lorawan.PHYPayload) error { return c.SetDownlinkDataMIC(otherVer(v), conf, sk) })
		rel("uplink-formula-1.0", func(c *lorawan.PHYPayload) error { return c.SetUplinkDataMIC(lorawan.LoRaWAN1_0, 0, 0, 0, sk, sk) })
		rel("uplink-formula-1.1", func(c *lorawan.PHYPayload) error { return c.SetUplinkDataMIC(lorawan.LoRaWAN1_1, conf, dr, ch, sk, sk) })
		rel("neighbour-conf", func(c *lorawan.PHYPayload) error { return c.SetDownlinkDataMIC(v, conf+1, sk) })
		one(p, v, conf, sk, "base-again")
		{
			holder := p
			holder.MIC = mic
			obj = &holder
			believed := holder
			wrong := key(r)
			downCaseM(s, r, believed, v, conf, wrong, 0, "family-down-verdict", "verdict:wrong-key", &mic, true)
			downCaseM(s, r, believed, v, conf, wrong, 0, "family-down-verdict", "verdict:wrong-key-again", &mic, true)
			downCaseM(s, r, believed, v, conf, sk, 0, "family-down-verdict", "verdict:right-key", &mic, true)
			obj = nil
		}
	}
}

func cmacCase(s *cases.Set, k, m []byte, name string) {
	h, err := cmac.New(k)
	if err != nil {
		s.Fail(cases.GoFail{Key: "cmac:new:" + hx(k), What: "cmac.New failed: " + err.Error(), Replay: map[string]interface{}{"key": hx(k)}})
		return
	}
	h.Write(m)
	o := h.Sum([]byte{})
	s.Add(cases.Case{Term: fmt.Sprintf("CCmac %s %s %s", cq.Bytes(k), cq.Bytes(m), cq.Bytes(o)),
		Key: "cmac:" + name + ":key=" + hx(k) + ":msg=" + hx(m), Kind: "crypto-cmac", Nontrivial: true,
		Replay: map[string]interface{}{"api": "jacobsa/crypto/cmac", "key": hx(k), "msg": hx(m), "observed": hx(o)}})
}

func aesCase(s *cases.Set, k, b []byte, name string) {
	blk, err := aes.NewCipher(k)
	if err != nil {
		s.Fail(cases.GoFail{Key: "aes:new:" + hx(k), What: "aes.NewCipher failed: " + err.Error(), Replay: map[string]interface{}{"key": hx(k)}})
		return
	}
	o := make([]byte, 16)
	blk.Encrypt(o, b)
	s.Add(cases.Case{Term: fmt.Sprintf("CAesEnc %s %s %s", cq.Bytes(k), cq.Bytes(b), cq.Bytes(o)),
		Key: "aes:" + name + ":key=" + hx(k) + ":block=" + hx(b), Kind: "crypto-aes", Nontrivial: true,
		Replay: map[string]interface{}{"api": "crypto/aes Encrypt", "key": hx(k), "block": hx(b), "observed": hx(o)}})
}

// wireValidate: what a receiver does with octets from the air: UnmarshalBinary, FCnt := full,
// optionally DecodeFOptsToMACCommands, then Validate{Uplink,Downlink}DataMIC by its role.
func wireValidate(b []byte, decodeFirst bool, v lorawan.MACVersion, up bool, conf uint32, dr, ch uint8, fk, sk lorawan.AES128Key, full uint32) (s string) {
	cases.Begin("UnmarshalBinary + Validate*DataMIC:"+hx(b), nil)
	defer cases.End()
	defer func() {
		if r := recover(); r != nil {
			s = cq.Panic
		}
	}()
	var q lorawan.PHYPayload
	if err := q.UnmarshalBinary(append([]byte{}, b...)); err != nil {
		return cq.Err
	}
	if m, ok := q.MACPayload.(*lorawan.MACPayload); ok {
		m.FHDR.FCnt = full
	}
	if decodeFirst {
		if err := q.DecodeFOptsToMACCommands(); err != nil {
			return cq.Err
		}
	}
	if up {
		return obool(q.ValidateUplinkDataMIC(v, conf, dr, ch, fk, sk))
	}
	return obool(q.ValidateDownlinkDataMIC(v, conf, sk))
}

func wireCase(s *cases.Set, b []byte, decodeFirst bool, v lorawan.MACVersion, up bool, conf uint32, dr, ch uint8, fk, sk lorawan.AES128Key, full uint32, kind, what string) {
	noise.Step(nr)
	o := wireValidate(b, decodeFirst, v, up, conf, dr, ch, fk, sk, full)
	key := fmt.Sprintf("%s:%s:up=%v:full=%d:conf=%d:dr=%d:ch=%d:fkey=%s:skey=%s:bytes=%s", what, ver(v), up, full, conf, dr, ch, hx(fk[:]), hx(sk[:]), hx(b))
	rp := map[string]interface{}{"api": fmt.Sprintf("UnmarshalBinary, FCnt := full, %sValidate*DataMIC (role uplink=%v)", map[bool]string{true: "DecodeFOptsToMACCommands, ", false: ""}[decodeFirst], up),
		"what": what, "macVersion": ver(v), "confFCnt": conf, "txDR": dr, "txCh": ch, "fNwkSIntKey": hx(fk[:]), "sNwkSIntKey": hx(sk[:]), "fullFCnt": full, "bytes": hx(b), "observed": o}
	s.Add(cases.Case{Term: fmt.Sprintf("CWire %s %s %s %d %d %d %s %s %d %s %s", cq.Bool(decodeFirst), ver(v), cq.Bool(up), conf, dr, ch, cq.Bytes(fk[:]), cq.Bytes(sk[:]), full, cq.Bytes(b), o),
		Key: key, Kind: kind, Nontrivial: true, Replay: rp})
	bb := append([]byte{}, b...)
	s.Remember(key, o, rp, func() string { return wireValidate(bb, decodeFirst, v, up, conf, dr, ch, fk, sk, full) })
}

// wireCases: validation of octets as received. The specification MIC covers the octets as transmitted; the library
// recomputes it from the decoded value. Where the decoders drop RFU parts the two differ (known findings C02-1:
// MHDR bits 4..2; C02-2: RFU bits of MAC commands once the FOpts have been decoded) - those inputs are generated
// under the keys `wire:mhdr-rfu:` / `wire-decoded:fopts-rfu:`; every other position must behave.
func wireCases(s *cases.Set, r *cq.RNG, i int) {
	v := []lorawan.MACVersion{lorawan.LoRaWAN1_0, lorawan.LoRaWAN1_1}[i%2]
	mts := []lorawan.MType{lorawan.UnconfirmedDataUp, lorawan.UnconfirmedDataDown, lorawan.ConfirmedDataUp, lorawan.ConfirmedDataDown}
	mt := mts[(i/2)%4]
	up := mt == lorawan.UnconfirmedDataUp || mt == lorawan.ConfirmedDataUp
	conf, dr, ch, fk, sk := counter(r), r.Byte(), r.Byte(), key(r), key(r)
	sign := func(p *lorawan.PHYPayload) bool {
		if up {
			return p.SetUplinkDataMIC(v, conf, dr, ch, fk, sk) == nil
		}
		return p.SetDownlinkDataMIC(v, conf, sk) == nil
	}
	specMIC := func(b []byte, ack bool, da lorawan.DevAddr, full uint32) (m [4]byte) {
		return micforge.DataMIC(micforge.DataParams{Uplink: up, V11: v != lorawan.LoRaWAN1_0, ACK: ack, Conf: conf, TxDR: dr, TxCh: ch,
			FKey: fk, SKey: sk, DevAddr: da, FCnt: full}, b[:len(b)-4])
	}
	// --- a frame with application payload and valid MAC commands in FOpts
	p := dataFrame(r, framefmt.Opt{MType: mt, Port: 1 + r.Intn(200), FRMLen: r.Intn(24), FOptsBytes: r.Intn(8), FCntHigh: i%3 != 0})
	m := p.MACPayload.(*lorawan.MACPayload)
	full, ack, da := m.FHDR.FCnt, m.FHDR.FCtrl.ACK, m.FHDR.DevAddr
	if !sign(&p) {
		return
	}
	b, err := p.MarshalBinary()
	if err != nil {
		return
	}
	wireCase(s, b, false, v, up, conf, dr, ch, fk, sk, full, "wire", "wire:as-sent")
	for _, bits := range []byte{0x04, 0x08, 0x10, 0x1c} {
		c := append([]byte{}, b...)
		c[0] |= bits
		wireCase(s, c, false, v, up, conf, dr, ch, fk, sk, full, "wire-mhdr-rfu", fmt.Sprintf("wire:mhdr-rfu:bits=%02x:mic-of-the-frame-sent-with-rfu-zero", bits))
		sm := specMIC(c, ack, da, full)
		copy(c[len(c)-4:], sm[:])
		wireCase(s, c, false, v, up, conf, dr, ch, fk, sk, full, "wire-mhdr-rfu", fmt.Sprintf("wire:mhdr-rfu:bits=%02x:specification-mic-of-the-received-octets", bits))
	}
	for k := 0; k < 3; k++ { // any other single-bit change must be rejected (MType / Major / every later octet)
		c := append([]byte{}, b...)
		pos := r.Intn(len(c) * 8)
		if pos/8 == 0 && pos%8 >= 2 && pos%8 <= 4 {
			pos = 8 + r.Intn((len(c)-1)*8)
		}
		c[pos/8] ^= 1 << uint(pos%8)
		f2 := full&0xffff0000 | uint32(c[6]) | uint32(c[7])<<8
		wireCase(s, c, false, v, up, conf, dr, ch, fk, sk, f2, "wire-bitflip", fmt.Sprintf("wire:bitflip:byte=%d:bit=%d", pos/8, pos%8))
	}
	{ // the specification MIC of octets with RFU zero is accepted (control for the construction above)
		c := append([]byte{}, b...)
		sm := specMIC(c, ack, da, full)
		copy(c[len(c)-4:], sm[:])
		wireCase(s, c, false, v, up, conf, dr, ch, fk, sk, full, "wire", "wire:specification-mic")
	}
	// --- LoRaWAN 1.0 (FOpts in clear): validation after DecodeFOptsToMACCommands
	v = lorawan.LoRaWAN1_0
	wireCase(s, func() []byte { q := p; sign(&q); x, _ := q.MarshalBinary(); return x }(), true, v, up, conf, dr, ch, fk, sk, full, "wire-decoded", "wire-decoded:as-sent")
	var clean, rfu []byte // one command without / with RFU bits set
	if up {
		clean, rfu = []byte{0x03, byte(r.Intn(8))}, nil // LinkADRAns: bits 7..3 RFU
		rfu = []byte{0x03, clean[1] | byte(1+r.Intn(31))<<3}
	} else {
		clean = []byte{0x08, byte(r.Intn(16))} // RXTimingSetupReq: bits 7..4 RFU
		rfu = []byte{0x08, clean[1] | byte(1+r.Intn(15))<<4}
	}
	mk := func(fo []byte) []byte {
		q := dataFrame(r, framefmt.Opt{MType: mt, Port: 1 + r.Intn(200), FRMLen: r.Intn(10), FCntHigh: i%3 != 0})
		qm := q.MACPayload.(*lorawan.MACPayload)
		qm.FHDR.DevAddr, qm.FHDR.FCnt, qm.FHDR.FCtrl = da, full, m.FHDR.FCtrl
		qm.FHDR.FOpts = []lorawan.Payload{&lorawan.DataPayload{Bytes: fo}}
		if !sign(&q) {
			return nil
		}
		x, _ := q.MarshalBinary()
		return x
	}
	if w := mk(clean); w != nil {
		wireCase(s, w, true, v, up, conf, dr, ch, fk, sk, full, "wire-decoded", "wire-decoded:clean-command")
		// the RFU bits set in flight: octet 9 is the command's payload octet (MHDR 1 + FHDR 7 + CID 1)
		c := append([]byte{}, w...)
		c[9] = rfu[1]
		wireCase(s, c, false, v, up, conf, dr, ch, fk, sk, full, "wire", "wire:fopts-changed-in-flight:validated-before-decoding")
		wireCase(s, c, true, v, up, conf, dr, ch, fk, sk, full, "wire-decoded-fopts-rfu", "wire-decoded:fopts-rfu:set-in-flight:mic-of-the-frame-sent-with-rfu-zero")
		// a flipped MIC bit is still rejected after decoding
		c2 := append([]byte{}, w...)
		c2[len(c2)-1-r.Intn(4)] ^= 1 << uint(r.Intn(8))
		wireCase(s, c2, true, v, up, conf, dr, ch, fk, sk, full, "wire-decoded", "wire-decoded:mic-bitflip")
	}
	if w := mk(rfu); w != nil { // sent with RFU bits set and signed over them
		wireCase(s, w, false, v, up, conf, dr, ch, fk, sk, full, "wire", "wire:fopts-with-rfu-bits:validated-before-decoding")
		wireCase(s, w, true, v, up, conf, dr, ch, fk, sk, full, "wire-decoded-fopts-rfu", "wire-decoded:fopts-rfu:sent-with-rfu-bits:specification-mic-of-the-received-octets")
	}
}

// b1Corner: LoRaWAN 1.1 uplinks of a session whose two integrity keys are EQUAL (a device provisioned with one key,
// also the all-zero key), in the corner where B1 differs from B0 in at most one field: (ConfFCnt, txDR, txCh) all
// zero, each alone non-zero, ConfFCnt a multiple of 2^16, crossed with ACK on / off. Ordinary cases (Set, Validate,
// ValidateF compared with model and specification), plus the same with different keys as control.
func b1Corner(s *cases.Set, r *cq.RNG, i int) {
	var zero lorawan.AES128Key
	k := key(r)
	keysets := [][2]lorawan.AES128Key{{k, k}, {zero, zero}, {k, key(r)}}
	combos := [][3]uint32{{0, 0, 0}, {1 + uint32(r.Intn(65535)), 0, 0}, {0, 1 + uint32(r.Intn(255)), 0}, {0, 0, 1 + uint32(r.Intn(255))},
		{0x10000 * (1 + uint32(r.Intn(100))), 0, 0}, {0x10000*uint32(r.Intn(100)) + 1 + uint32(r.Intn(65535)), 0, 0}, {1 + uint32(r.Intn(65535)), 1, 1}}
	for ki, ks := range keysets {
		for _, ack := range []bool{true, false} {
			for ci, c := range combos {
				if ki == 2 && ci > 1 { // control with different keys: two combinations are enough
					continue
				}
				mt := []lorawan.MType{lorawan.UnconfirmedDataUp, lorawan.ConfirmedDataUp}[(i+ci)%2]
				p := dataFrame(r, framefmt.Opt{MType: mt, Port: 1 + r.Intn(200), FRMLen: r.Intn(20), FOptsBytes: r.Intn(5), FCntHigh: ci%2 == 0})
				p.MACPayload.(*lorawan.MACPayload).FHDR.FCtrl.ACK = ack
				upCase(s, r, p, lorawan.LoRaWAN1_1, c[0], uint8(c[1]), uint8(c[2]), ks[0], ks[1], []int{0, 3, 4}[(i+ci)%3], "b1-corner-equal-keys")
			}
		}
	}
}

// dataFrame / joinFrame: the framefmt generators with the MHDR Major field drawn from all four values (the library
// accepts any; the MHDR octet enters every MIC)
func dataFrame(r *cq.RNG, o framefmt.Opt) lorawan.PHYPayload {
	p := framefmt.DataFrame(r, o)
	p.MHDR.Major = lorawan.Major(r.Intn(4))
	return p
}

func joinFrame(r *cq.RNG, kind int) lorawan.PHYPayload {
	p := framefmt.JoinFrame(r, kind)
	p.MHDR.Major = lorawan.Major(r.Intn(4))
	return p
}

// opaquify replaces *DataPayload elements of FRMPayload / FOpts by a Payload implementation that does not come
// from the library (framefmt.Opaque; on the wire it is the bytes its MarshalBinary returns). how: 0 all, 1 FRMPayload
// only, 2 FOpts only, 3 FRMPayload split into [Opaque, DataPayload].
func opaquify(p lorawan.PHYPayload, how int) lorawan.PHYPayload {
	m, ok := p.MACPayload.(*lorawan.MACPayload)
	if !ok {
		return p
	}
	c := *m
	conv := func(l []lorawan.Payload) []lorawan.Payload {
		out := make([]lorawan.Payload, len(l))
		for i, e := range l {
			if d, ok := e.(*lorawan.DataPayload); ok {
				out[i] = &framefmt.Opaque{B: append([]byte{}, d.Bytes...)}
			} else {
				out[i] = e
			}
		}
		return out
	}
	if how == 0 || how == 1 {
		c.FRMPayload = conv(m.FRMPayload)
	}
	if how == 0 || how == 2 {
		c.FHDR.FOpts = conv(m.FHDR.FOpts)
	}
	if how == 3 && len(m.FRMPayload) == 1 {
		if d, ok := m.FRMPayload[0].(*lorawan.DataPayload); ok && len(d.Bytes) >= 2 {
			h := len(d.Bytes) / 2
			c.FRMPayload = []lorawan.Payload{&framefmt.Opaque{B: append([]byte{}, d.Bytes[:h]...)}, &lorawan.DataPayload{Bytes: append([]byte{}, d.Bytes[h:]...)}}
		}
	}
	p.MACPayload = &c
	return p
}

func main() {
	log.SetOutput(io.Discard)
	dir, seed, thorough := cases.Args()
	r := cq.NewRNG(seed)
	nr = cq.NewRNG(seed ^ 0x9e3779b97f4a7c15)
	s := cases.New("C02", dir, "LW.Corr.C02",
		"RFC 4493 examples 1-4 and FIPS-197 C.1 first; then data frames (framefmt.DataFrame) whose MIC message length is cycled over 1..16 CMAC blocks (FRMPayload length chosen for it), FCnt with high bits in 70%, ConfFCnt with high bits in 70%, ACK alternating, both MAC versions, txDR/txCh cycled over all byte values, random/degenerate keys, carried MIC = valid / random / one bit flipped / first half changed / second half changed; validate also called with the other direction's function; MHDR Major drawn from 0..3; in a quarter of the frames the FRMPayload / FOpts elements are of a foreign Payload type (framefmt.Opaque, mixed [Opaque, DataPayload], a clocksync.Command on port 202); malformed: nil MACPayload, wrong payload type, unencodable frame (16-byte FOpts, MAC command on port > 0). Octets as received (CWire): frames serialised, then changed on the wire and run through UnmarshalBinary + Validate* (optionally after DecodeFOptsToMACCommands for 1.0): as sent, MHDR RFU bits 04/08/10/1c set with the old MIC and with the specification MIC over the received octets (known C02-1), three other single-bit flips, a MAC command's RFU bits set in flight or signed by the sender and validated before / after decoding (known C02-2), MIC bit flips after decoding; the verdict is compared with the specification MIC computed in Coq from the raw octets. FOpts of 256..515 octets (C02-3). B1 corner: 1.1 uplinks with EQUAL integrity keys (random and all-zero) where B1 differs from B0 in at most one field - (ConfFCnt, txDR, txCh) all zero, each alone non-zero, ConfFCnt a multiple of 2^16 - crossed with ACK on/off. Special MIC values: frames CONSTRUCTED (internal/micforge: CMAC inverted in its last block, which lies inside the FRMPayload; 1.1 uplink by a 2^16 search for the second half) so that their correct MIC is 00000000, ffffffff, 00000001, the MIC of the previous case, 0000xxxx, xxxx0000 - for uplink/downlink x 1.0/1.1; Set must give that MIC and Validate of the frame carrying it must be true. History: unrelated library calls (internal/noise) before every compared call; neighbour families run back to back (a base call whose frame carries its valid MIC, then the same call with exactly one input changed - single FCnt bits 16, 31, one more high and one low bit, FCnt + 2^16, ConfFCnt + 1 / + 2^16, txDR, txCh, each key zeroed, keys equal, keys swapped, other version, each key replaced by a DIFFERENT key that agrees with it under CRC-32 x3 / Adler-32 / byte sum / xor-folds / first 15 / first 8 / last 8 bytes (internal/collide) - the frame still carrying the base MIC, then the base call again), and MICs that are correct under a RELATED formula of the library (other version, downlink formula with either key, 1.0 / MICF form, keys swapped, neighbouring ConfFCnt/txDR/txCh, halves swapped, cmacF half twice), and a verdict family on ONE frame object (wrong keys, the same wrong keys again, the right keys; MIC never re-assigned), each an ordinary case compared with model and specification; after every Validate* call the frame must print and marshal as before (validate-changes-frame:); every compared call is repeated from 8 goroutines at once (ReplayConcurrently) and three times later in the process (reverse, same, shuffled order) and must give its first result. Cases are distinct by construction (random keys) except the repeated base calls.")
	s.ShardSize = 60
	n := 600
	if thorough {
		n = 15000
		s.ShardSize = 500
	}
	// official vectors
	rfcKey := []byte{0x2b, 0x7e, 0x15, 0x16, 0x28, 0xae, 0xd2, 0xa6, 0xab, 0xf7, 0x15, 0x88, 0x09, 0xcf, 0x4f, 0x3c}
	rfcMsg := []byte{0x6b, 0xc1, 0xbe, 0xe2, 0x2e, 0x40, 0x9f, 0x96, 0xe9, 0x3d, 0x7e, 0x11, 0x73, 0x93, 0x17, 0x2a,
		0xae, 0x2d, 0x8a, 0x57, 0x1e, 0x03, 0xac, 0x9c, 0x9e, 0xb7, 0x6f, 0xac, 0x45, 0xaf, 0x8e, 0x51,
		0x30, 0xc8, 0x1c, 0x46, 0xa3, 0x5c, 0xe4, 0x11, 0xe5, 0xfb, 0xc1, 0x19, 0x1a, 0x0a, 0x52, 0xef,
		0xf6, 0x9f, 0x24, 0x45, 0xdf, 0x4f, 0x9b, 0x17, 0xad, 0x2b, 0x41, 0x7b, 0xe6, 0x6c, 0x37, 0x10}
	for _, l := range []int{0, 16, 40, 64} {
		cmacCase(s, rfcKey, rfcMsg[:l], fmt.Sprintf("rfc4493-len%d", l))
	}
	fipsKey := make([]byte, 16)
	fipsBlk := make([]byte, 16)
	for i := range fipsKey {
		fipsKey[i] = byte(i)
		fipsBlk[i] = byte(i * 0x11)
	}
	aesCase(s, fipsKey, fipsBlk, "fips197-c1")
	for i := 0; i < 6; i++ {
		cmacCase(s, r.Bytes(16), r.Bytes(r.Intn(270)), "random")
		aesCase(s, r.Bytes(16), r.Bytes(16), "random")
	}

	s.Watchdog(3 * time.Second)
	{
		rounds := 2
		if thorough {
			rounds = 25
		}
		forgedCases(s, r, rounds)
	}
	{
		nw := 16
		if thorough {
			nw = 400
		}
		for i := 0; i < nw; i++ {
			wireCases(s, r, i)
		}
	}
	// FOpts of 256..271 octets: FOptsLen does not fit its 4 bits (defect C02-3, fixed: refused like 16..255)
	for _, n := range []int{256, 257, 260, 271, 272, 512, 515} {
		q := dataFrame(r, framefmt.Opt{MType: lorawan.UnconfirmedDataDown, Port: -1})
		q.MACPayload.(*lorawan.MACPayload).FHDR.FOpts = []lorawan.Payload{&lorawan.DataPayload{Bytes: r.Bytes(n)}}
		if n%2 == 0 {
			downCase(s, r, q, lorawan.LoRaWAN1_0, counter(r), key(r), 0, "fopts-too-long")
		} else {
			q.MHDR.MType = lorawan.UnconfirmedDataUp
			upCase(s, r, q, lorawan.LoRaWAN1_1, counter(r), r.Byte(), r.Byte(), key(r), key(r), 0, "fopts-too-long")
		}
	}
	{
		nb := 3
		if thorough {
			nb = 60
		}
		for i := 0; i < nb; i++ {
			b1Corner(s, r, i)
		}
	}
	vers := []lorawan.MACVersion{lorawan.LoRaWAN1_0, lorawan.LoRaWAN1_1}
	for i := 0; i < n; i++ {
		o := framefmt.ValidDataOpt(r)
		// aim for a MIC message of (i mod 16) + 1 CMAC blocks: msg = 1 + 7 + fopts (+ 1 + frm)
		blocks := i%16 + 1
		if o.Port > 0 && !o.FRMAsMAC {
			want := blocks*16 - r.Intn(16)
			base := 9 + o.FOptsBytes
			if want > base {
				o.FRMLen = want - base
			}
			if o.FRMLen > 242 {
				o.FRMLen = 242
			}
		}
		// the specification's msg has at most 255 bytes (one-byte length field); 1 in 25 stays oversize (model comparison only)
		if 9+o.FOptsBytes+o.FRMLen > 255 && r.Intn(25) != 0 {
			o.FRMLen = 246 - o.FOptsBytes
		}
		o.FCntHigh = r.Intn(10) < 7
		p := dataFrame(r, o)
		m := p.MACPayload.(*lorawan.MACPayload)
		m.FHDR.FCtrl.ACK = i%2 == 0
		if r.Intn(12) == 0 {
			m.FHDR.FCnt = []uint32{0, 0xffff, 0x10000, 0xffffffff, 0xffff0000}[r.Intn(5)]
		}
		if i%4 == 2 { // payload elements of a type that does not come from the library (wire form: their MarshalBinary bytes)
			p = opaquify(p, (i/4)%4)
		}
		if i%40 == 7 {
			pt := uint8(202)
			mm := *p.MACPayload.(*lorawan.MACPayload)
			mm.FPort = &pt
			mm.FRMPayload = []lorawan.Payload{&clocksync.Command{CID: clocksync.AppTimeReq, Payload: &clocksync.AppTimeReqPayload{DeviceTime: r.U32(), Param: clocksync.AppTimeReqPayloadParam{AnsRequired: r.Bool(), TokenReq: uint8(r.Intn(16))}}}}
			p.MACPayload = &mm
		}
		v := vers[(i/2)%2]
		conf := counter(r)
		dr, ch := uint8(i%256), uint8((i*7+3)%256)
		if thorough {
			dr, ch = uint8(i%256), uint8((i/256*37+i*7+3)%256)
		}
		fk, sk := key(r), key(r)
		if r.Intn(10) == 0 {
			sk = fk
		}
		how := i % len(hows)
		up := p.MHDR.MType == lorawan.UnconfirmedDataUp || p.MHDR.MType == lorawan.ConfirmedDataUp
		// the API does not tie the function to the MType: every eighth frame goes through the other direction's functions
		if i%8 == 7 {
			up = !up
		}
		if up {
			upCase(s, r, p, v, conf, dr, ch, fk, sk, how, "up-"+ver(v))
		} else {
			downCase(s, r, p, v, conf, sk, how, "down-"+ver(v))
		}
		if (!thorough && i%6 == 1) || (thorough && i%10 == 1) { // neighbour family on a fresh frame of moderate size
			o2 := framefmt.ValidDataOpt(r)
			if o2.FRMLen > 60 {
				o2.FRMLen = r.Intn(61)
			}
			q := dataFrame(r, o2)
			q.MACPayload.(*lorawan.MACPayload).FHDR.FCtrl.ACK = i%2 == 0
			fam := q.MHDR.MType == lorawan.UnconfirmedDataUp || q.MHDR.MType == lorawan.ConfirmedDataUp
			family(s, r, q, fam, vers[(i/2)%2], counter(r), dr, ch, key(r), key(r), i)
		}
		if i%10 == 3 { // malformed stream
			q := dataFrame(r, framefmt.ValidDataOpt(r))
			switch r.Intn(4) {
			case 0:
				q.MACPayload = nil
			case 1:
				q.MACPayload = &lorawan.DataPayload{Bytes: r.Bytes(r.Intn(30))}
			case 2:
				q.MACPayload.(*lorawan.MACPayload).FHDR.FOpts = []lorawan.Payload{&lorawan.DataPayload{Bytes: r.Bytes(16 + r.Intn(5))}}
			case 3:
				pt := uint8(1 + r.Intn(255))
				mm := q.MACPayload.(*lorawan.MACPayload)
				mm.FPort = &pt
				mm.FRMPayload = framefmt.ValidCmds(r, true, 8)
				if len(mm.FRMPayload) == 0 {
					mm.FRMPayload = []lorawan.Payload{&lorawan.MACCommand{CID: lorawan.LinkCheckReq}}
				}
			}
			if r.Bool() {
				upCase(s, r, q, v, conf, dr, ch, fk, sk, 0, "malformed")
			} else {
				downCase(s, r, q, v, conf, sk, 0, "malformed")
			}
		}
	}
	s.ReplayRemembered(nr.Intn, 3, func() { noise.Step(nr) })
	s.ReplayConcurrently(8, 3, 60*time.Second)
	if err := s.Finish(); err != nil {
		fmt.Fprintln(os.Stderr, err)
		os.Exit(2)
	}
}
