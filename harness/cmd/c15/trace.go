// Traces: histories whose alphabet contains the observation calls as well as
// the state-changing calls. One band instance lives through the whole trace;
// every accessor answer is recorded at the position where it was obtained and
// compared (Corr/C15.v, CTrace) with the pure model state at that position.
package main

import (
	"fmt"

	"github.com/brocaar/lorawan"
	"github.com/brocaar/lorawan/band"
	"verifharness/chanobs"
	"verifharness/internal/cases"
	"verifharness/internal/cq"
)

// observation kinds
const (
	obAll = iota // EIdx 0..4
	obStandard
	obCustom
	obEnabled
	obDisabled
	obLists
	obUp
	obDown
	obTxp
	obLookup
	obLookupDR
	obCFList
	obPlan
	obSnap
	nObs
)

var obName = [...]string{"GetUplinkChannelIndices", "GetStandardUplinkChannelIndices", "GetCustomUplinkChannelIndices",
	"GetEnabledUplinkChannelIndices", "GetDisabledUplinkChannelIndices", "five-index-lists", "GetUplinkChannel", "GetDownlinkChannel",
	"GetTXPowerOffset", "GetUplinkChannelIndex", "GetUplinkChannelIndexForFrequencyDR", "GetCFList", "GetLinkADRReqPayloads", "snapshot"}

func payloadCoq(p lorawan.LinkADRReqPayload) string {
	var m uint64
	for i, b := range p.ChMask {
		if b {
			m |= 1 << uint(i)
		}
	}
	return fmt.Sprintf("(P %d %d %d %d %d)", p.DataRate, p.TXPower, m, p.Redundancy.ChMaskCntl, p.Redundancy.NbRep)
}

type tracer struct {
	g      *gen
	cfg    chanobs.Config
	b      band.Band // the instance under test: every call on it is an event of the trace
	shadow band.Band // same calls applied; read only to choose arguments
	extra  bool
	n      int // channel count of the shadow
	ops    []chanobs.Op
	kinds  []int
	coq    []string
	txt    []string
	last   snap
	snaps  int
}

func (g *gen) newTracer(cfg chanobs.Config) *tracer {
	sh := cfg.New()
	return &tracer{g: g, cfg: cfg, b: cfg.New(), shadow: sh, extra: chanobs.SupportsExtra(cfg), n: len(sh.GetUplinkChannelIndices())}
}

func (t *tracer) ev(coq, txt string) {
	t.coq = append(t.coq, coq)
	t.txt = append(t.txt, txt)
}

func (t *tracer) op(o chanobs.Op) {
	k := o.Apply(t.b)
	o.Apply(t.shadow)
	t.n = len(t.shadow.GetUplinkChannelIndices())
	t.ops = append(t.ops, o)
	t.kinds = append(t.kinds, k)
	t.ev(fmt.Sprintf("EOp (%s) %s", o.Coq(), chanobs.Out(k, "tt")), fmt.Sprintf("%s -> %s", o.String(), chanobs.KindName(k)))
}

func (t *tracer) randOp() { t.op(chanobs.RandOp(t.g.r, t.cfg, t.shadow, t.n, t.extra)) }

func (t *tracer) idxList(k int) []int {
	switch k {
	case obAll:
		return t.b.GetUplinkChannelIndices()
	case obStandard:
		return t.b.GetStandardUplinkChannelIndices()
	case obCustom:
		return t.b.GetCustomUplinkChannelIndices()
	case obEnabled:
		return t.b.GetEnabledUplinkChannelIndices()
	}
	return t.b.GetDisabledUplinkChannelIndices()
}

// someFreq: mostly the frequency of an existing channel (read from the shadow).
func (t *tracer) someFreq() uint32 {
	r := t.g.r
	ups := chanobs.Uplinks(t.shadow)
	if len(ups) > 0 {
		switch r.Intn(4) {
		case 0:
			return chanobs.RandFreq(r, ups)
		case 1: // a unit-conversion neighbour of a stored frequency
			nb := neighbours(ups[r.Intn(len(ups))].Freq)
			return nb[r.Intn(len(nb))]
		}
		return ups[r.Intn(len(ups))].Freq
	}
	return chanobs.RandFreq(r, ups)
}

func (t *tracer) someIndex() int {
	r := t.g.r
	switch r.Intn(4) {
	case 0:
		return t.n - 1 // the newest channel
	case 1:
		return []int{-1, t.n, 0}[r.Intn(3)]
	}
	return chanobs.RandIndex(r, t.n)
}

// observe makes one observation call of the given kind on the instance under test.
func (t *tracer) observe(kind int) {
	r := t.g.r
	b := t.b
	switch kind {
	case obAll, obStandard, obCustom, obEnabled, obDisabled:
		l := t.idxList(kind)
		t.ev(fmt.Sprintf("EIdx %d %s", kind, cq.Ints(l)), fmt.Sprintf("%s() -> %v", obName[kind], l))
	case obLists:
		a, s, c, e, d := b.GetUplinkChannelIndices(), b.GetStandardUplinkChannelIndices(), b.GetCustomUplinkChannelIndices(),
			b.GetEnabledUplinkChannelIndices(), b.GetDisabledUplinkChannelIndices()
		t.ev(fmt.Sprintf("ELists %s %s %s %s %s", cq.Ints(a), cq.Ints(s), cq.Ints(c), cq.Ints(e), cq.Ints(d)),
			fmt.Sprintf("index lists: all=%v standard=%v custom=%v enabled=%v disabled=%v", a, s, c, e, d))
	case obUp, obDown, obTxp:
		c, x := probeIndex(b, kind-obUp, t.someIndex())
		t.ev("EProbe ("+c+")", x)
	case obLookup:
		c, x := probeLookup(b, t.someFreq(), r.Bool())
		t.ev("EProbe ("+c+")", x)
	case obLookupDR:
		c, x := probeLookupDR(b, t.someFreq(), []int{0, 3, 5, 6, 7, -1, 15, 100}[r.Intn(8)])
		t.ev("EProbe ("+c+")", x)
	case obCFList:
		v := r.Intn(len(versions))
		var cf *lorawan.CFList
		if chanobs.Call(func() error { cf = b.GetCFList(versions[v]); return nil }) != chanobs.KOk {
			t.g.s.Fail(cases.GoFail{Key: fmt.Sprintf("panic:GetCFList:%s:%s", t.cfg.String(), versions[v]), What: "GetCFList panics",
				Replay: map[string]interface{}{"band": t.cfg.String(), "trace": t.txt, "version": versions[v]}})
		}
		t.ev(fmt.Sprintf("ECF %d%%nat %s", v, optCoq(cflistCoq(cf))), fmt.Sprintf("GetCFList(%s) -> %s", versions[v], cflistCoq(cf)))
	case obPlan:
		var dev []int
		switch r.Intn(4) {
		case 0:
			dev = chanobs.RandIndexList(r, t.n)
		case 1: // what the device has = the standard channels
			dev = t.shadow.GetStandardUplinkChannelIndices()
		case 2:
			dev = t.shadow.GetEnabledUplinkChannelIndices()
		default:
			for i := 0; i < t.n; i++ {
				if r.Intn(4) != 0 {
					dev = append(dev, i)
				}
			}
		}
		var pls []lorawan.LinkADRReqPayload
		kp := chanobs.Call(func() error { pls = b.GetLinkADRReqPayloadsForEnabledUplinkChannelIndices(dev); return nil })
		var res []int
		ka := chanobs.KPanic
		if kp == chanobs.KOk {
			ka = chanobs.Call(func() error {
				var err error
				res, err = b.GetEnabledUplinkChannelIndicesForLinkADRReqPayloads(dev, pls)
				return err
			})
		}
		n, en, cus := len(b.GetUplinkChannelIndices()), b.GetEnabledUplinkChannelIndices(), b.GetCustomUplinkChannelIndices()
		ps := make([]string, len(pls))
		for i, p := range pls {
			ps[i] = payloadCoq(p)
		}
		t.ev(fmt.Sprintf("EPlan %s %s %s %s %s %s", cq.Ints(dev), chanobs.Out(kp, cq.List(ps)), chanobs.Out(ka, cq.Ints(res)), cq.Z(int64(n)), cq.Ints(en), cq.Ints(cus)),
			fmt.Sprintf("GetLinkADRReqPayloadsForEnabledUplinkChannelIndices(%v) -> %s %+v; applied to the device: %s %v; channels=%d enabled=%v custom=%v",
				dev, chanobs.KindName(kp), pls, chanobs.KindName(ka), res, n, en, cus))
	case obSnap:
		sn := t.g.snapshot(t.cfg, b, t.ops)
		t.last = sn
		t.snaps++
		t.ev(fmt.Sprintf("ESnap %s %s", sn.obs, cq.List(sn.probes)),
			fmt.Sprintf("every accessor: %d channels, enabled=%v; %d index/lookup probes", sn.n, sn.enabled, len(sn.probes)))
	}
}

// finish records the CTrace case; with crossLayer the values the instance now
// produces also go through the MAC-layer encoders.
func (t *tracer) finish(tag string, crossLayer bool) {
	if crossLayer {
		if t.snaps == 0 || t.coq[len(t.coq)-1][:5] != "ESnap" {
			t.observe(obSnap)
		}
	}
	t.g.s.Add(cases.Case{
		Term: fmt.Sprintf("CTrace %d%%nat %s", t.cfg.Index, cq.List(t.coq)),
		Key:  fmt.Sprintf("trace:%s:%s:%s", t.cfg.String(), tag, chanobs.Hash(t.coq)),
		Kind: "trace-" + tag, Nontrivial: len(t.ops) > 0,
		Replay: map[string]interface{}{"api": "one band instance; calls and observations in this order", "band": t.cfg.String(), "trace": t.txt}})
	if crossLayer {
		t.g.crossLayer(t.cfg, t.b, t.ops, t.last)
	}
}

// sandwich: a short unobserved prefix, then observation - call - the same
// observation again - the five index lists (and a full snapshot for the
// AddChannel sandwiches): an accessor that remembers anything across a
// state-changing call shows up right behind that call.
func (g *gen) sandwich(cfg chanobs.Config, kind int, opKind int, prefix int) {
	r := g.r
	t := g.newTracer(cfg)
	for i := 0; i < prefix; i++ {
		t.randOp()
	}
	t.observe(kind)
	var o chanobs.Op
	switch opKind {
	case 0:
		ups := chanobs.Uplinks(t.shadow)
		f := chanobs.RandFreq(r, ups)
		if f == 0 || r.Intn(3) != 0 {
			f = ups[0].Freq + uint32(100000*(1+r.Intn(30)))
		}
		mx := 5
		if cfg.Name == band.ISM2400 {
			mx = 7
		}
		o = chanobs.Add(f, 0, mx)
	case 1:
		en := t.shadow.GetEnabledUplinkChannelIndices()
		if len(en) == 0 {
			o = chanobs.Disable(0)
		} else {
			o = chanobs.Disable(en[r.Intn(len(en))])
		}
	default:
		dis := t.shadow.GetDisabledUplinkChannelIndices()
		if len(dis) == 0 {
			o = chanobs.Enable(t.n - 1)
		} else {
			o = chanobs.Enable(dis[r.Intn(len(dis))])
		}
	}
	t.op(o)
	t.observe(kind)
	t.observe(obLists)
	tag := fmt.Sprintf("%s/%s/again", obName[kind], []string{"AddChannel", "Disable", "Enable"}[opKind])
	t.finish(tag, false)
}

// randomTrace: up to maxOps calls, observations of random kinds in between
// (always one right before and one right after every AddChannel), at most two
// full snapshots inside and one at the end.
func (g *gen) randomTrace(cfg chanobs.Config, maxOps int) {
	r := g.r
	t := g.newTracer(cfg)
	k := r.Intn(maxOps + 1)
	light := func() {
		kind := r.Intn(obSnap)
		t.observe(kind)
	}
	for i := 0; i < k; i++ {
		for r.Intn(2) == 0 {
			light()
		}
		o := chanobs.RandOp(r, cfg, t.shadow, t.n, t.extra)
		if o.Kind == 0 {
			light()
		}
		t.op(o)
		if o.Kind == 0 {
			light()
			if r.Intn(2) == 0 {
				t.observe(obLists)
			}
		}
		if t.snaps < 2 && r.Intn(12) == 0 {
			t.observe(obSnap)
		}
	}
	for r.Intn(2) == 0 {
		light()
	}
	t.finish(fmt.Sprintf("random%d", maxOps), true)
}
