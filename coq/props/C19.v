(* C19 - the fragmentation encoder is systematic, linear, uses the TS004 parity
   matrix; recoverability; invalid sizes are errors; the retry loop terminates.
   Statement file: each theorem is closed by [exact] of a lemma proved in
   theories/App, followed by Print Assumptions.

   Vocabulary: [encode data size red] models fragmentation.Encode (App/FragEncode.v,
   fuel FUEL = 64 for the PRBS retry loop, [encode_with fuel] the same with explicit
   fuel); [valid data size] := 0 < size, data not empty, and size divides len(data); [fits data] :=
   len(data) <= 2^48 (true of every Go slice);
   [spec_encode], [spec_matrix_line], [spec_parity_lines], [spec_generator] are the
   TS004 transcription (App/FragSpec.v); [chunks n k data] the n uncoded fragments of
   k bytes; [comb k l rows] the XOR of the rows selected by the 0/1 vector l;
   [mat_apply k A rows] = [comb k a rows] for every row a of A; [mat_mul], [identity]
   over GF(2).  The fragment count is bounded by 65536 where the model is compared
   with TS004 (above that encode.go's start value r = 1 << 16 is no longer >= the
   count; the property's range is 1..300). *)
From Coq Require Import List NArith ZArith Bool.
From LW Require Import Base.Outcome Base.Bytes App.FragEncode App.FragSpec App.FragLinearProofs
     App.FragEncodeProofs.
Import ListNotations.
Open Scope N_scope.

(* the model returns exactly the fragments TS004 defines, for every valid input
   (OutOfFuel exactly when the specification's while loop exceeds the same bound) *)
Theorem C19_matches_TS004 : forall fuel data size red, valid data size -> fits data ->
  N.of_nat (length data / Z.to_nat size) <= 65536 ->
  encode_with fuel data size red =
  match spec_encode fuel data (Z.to_nat size) (Z.to_nat red) with
  | Some fr => Ok fr
  | None => OutOfFuel
  end.
Proof. exact encode_spec. Qed.
Print Assumptions C19_matches_TS004.

(* systematic: the first n fragments are the data rows in order (their
   concatenation is the block), followed by [red] parity fragments, parity
   fragment y being the XOR of the data rows selected by matrix_line(y+1, n) *)
Theorem C19_systematic_parity : forall fuel data size red frags, valid data size -> fits data ->
  N.of_nat (length data / Z.to_nat size) <= 65536 ->
  encode_with fuel data size red = Ok frags ->
  let k := Z.to_nat size in
  let n := (length data / k)%nat in
  exists lines,
    spec_parity_lines fuel (Z.to_nat red) 0 (N.of_nat n) = Some lines
    /\ length lines = Z.to_nat red
    /\ frags = chunks n k data ++ map (fun l => comb k l (chunks n k data)) lines
    /\ firstn n frags = chunks n k data
    /\ concat (firstn n frags) = data.
Proof. exact encode_systematic. Qed.
Print Assumptions C19_systematic_parity.

(* linear over XOR *)
Theorem C19_linear : forall fuel d1 d2 size red fr1 fr2,
  length d1 = length d2 -> valid d1 size -> fits d1 -> N.of_nat (length d1 / Z.to_nat size) <= 65536 ->
  encode_with fuel d1 size red = Ok fr1 -> encode_with fuel d2 size red = Ok fr2 ->
  encode_with fuel (xor_bytes d1 d2) size red = Ok (xor_rows fr1 fr2).
Proof. exact encode_linear. Qed.
Print Assumptions C19_linear.

(* recoverability: for any subset [kept] of the fragments whose generator rows
   have a left inverse T over GF(2) (full rank), T applied to the received
   fragments is the list of data rows, whose concatenation is the block *)
Theorem C19_recover : forall fuel data size red frags G kept T, valid data size -> fits data ->
  N.of_nat (length data / Z.to_nat size) <= 65536 ->
  encode_with fuel data size red = Ok frags ->
  let k := Z.to_nat size in
  let n := (length data / k)%nat in
  spec_generator fuel n (Z.to_nat red) = Some G ->
  Forall (fun i => (i < n + Z.to_nat red)%nat) kept ->
  mat_mul n T (select kept G []) = identity n ->
  mat_apply k T (select kept frags []) = chunks n k data
  /\ concat (mat_apply k T (select kept frags [])) = data.
Proof. exact encode_recover. Qed.
Print Assumptions C19_recover.

(* invalid sizes (zero, negative, non-dividing) and the empty block are errors ... *)
Theorem C19_invalid_size_is_error : forall fuel data size red, ~ valid data size ->
  encode_with fuel data size red = Err.
Proof. exact encode_invalid. Qed.
Print Assumptions C19_invalid_size_is_error.

(* ... and no input makes the encoder panic (after fixes 9813ac2 and 10583ce): every block a Go
   program can hold ([fits]: at most MAXALLOC = 2^48 bytes, the runtime's allocation limit, beyond
   which make() panics with "len out of range"), every size, every redundancy - the empty block
   included, which is refused: a fragment size is never larger than the block, so every row that is
   allocated is no larger than the data that already exists *)
Theorem C19_no_panic : forall fuel data size red, fits data -> encode_with fuel data size red <> Panic.
Proof. exact encode_no_panic. Qed.
Print Assumptions C19_no_panic.

(* termination of the PRBS retry loop.  Not a power of two: one PRBS step per
   coefficient always suffices, for every count and parity index *)
Theorem C19_one_step_when_not_power_of_two : forall fuel n M, spec_pow2 M = false ->
  spec_matrix_line (S fuel) n M <> None.
Proof. exact line_terminates_not_pow2. Qed.
Print Assumptions C19_one_step_when_not_power_of_two.

(* all counts 1..300 (the nine powers of two by evaluation) and parity indices
   1..100: RETRY_BOUND = 8 steps per coefficient suffice *)
Theorem C19_retry_bound : forall n M, M <= 300 -> 1 <= n <= 100 ->
  spec_matrix_line RETRY_BOUND n M <> None.
Proof. exact line_terminates. Qed.
Print Assumptions C19_retry_bound.

Theorem C19_terminates : forall data size red, valid data size -> fits data ->
  N.of_nat (length data / Z.to_nat size) <= 300 -> (red <= 100)%Z ->
  exists frags, encode data size red = Ok frags.
Proof. exact encode_terminates. Qed.
Print Assumptions C19_terminates.

Theorem C19_terminates_not_power_of_two : forall data size red, valid data size -> fits data ->
  N.of_nat (length data / Z.to_nat size) <= 65536 ->
  spec_pow2 (N.of_nat (length data / Z.to_nat size)) = false ->
  exists frags, encode data size red = Ok frags.
Proof. exact encode_terminates_not_pow2. Qed.
Print Assumptions C19_terminates_not_power_of_two.

(* non-vacuity: a block of four 2-byte rows with three parity fragments; the
   fragments {parity 1, row 1, row 3, row 0, parity 3} have full rank and the
   left inverse computed by Gaussian elimination recovers the block *)
Example C19_example :
  valid [1; 2; 3; 4; 5; 6; 7; 8] 2
  /\ encode [1; 2; 3; 4; 5; 6; 7; 8] 2 3 = Ok [[1; 2]; [3; 4]; [5; 6]; [7; 8]; [4; 4]; [4; 4]; [4; 12]]
  /\ (exists G T, spec_generator FUEL 4 3 = Some G
        /\ left_inverse 4 (select [4; 1; 3; 0; 6]%nat G []) = Some T
        /\ mat_mul 4 T (select [4; 1; 3; 0; 6]%nat G []) = identity 4)
  /\ encode [1; 2; 3; 4] 0 1 = Err /\ encode [1; 2; 3; 4] (-2) 1 = Err /\ encode [1; 2; 3; 4] 3 1 = Err
  /\ encode [] (2 ^ 63 - 1) 1 = Err.
Proof.
  split; [split; [reflexivity|split; [cbn; repeat constructor|reflexivity]]|]. split; [reflexivity|]. split; [|repeat split].
  eexists. eexists. split; [vm_compute; reflexivity|]. split; vm_compute; reflexivity.
Qed.
