(* C14 - LinkADRReq channel-mask planning reaches exactly the network's channel set.
   Statement file: each theorem is closed by [exact] of a lemma proved in
   theories/Band, followed by Print Assumptions.

   Vocabulary (theories/Band): [st] = the channel tables of a band (Channels.v);
   [run s0 ops] = the state after the history [ops] of AddChannel / Disable / Enable;
   [plan_generic] / [apply_generic] = band.go's planner and its inverse,
   [plan_us] / [apply_us] = the US915 / AU915 overrides, [plan us] / [apply us] the
   pair a band uses (Planner.v); [target s dev] = the network's enabled channels
   among those the device can know (PlannerSpec.v); [configs] = the initial
   tables of all 14 bands x repeater x dwell-time, dumped from the live code. *)
From Coq Require Import List ZArith Bool Sorting.Sorted.
From LW Require Import Base.Outcome Band.Channels Band.Planner Band.PlannerSpec Band.CrossLayer
  Band.PlannerProofs Band.PlannerUSProofs Band.PlannerTotal Band.PlannerKnown Band.ChannelsGenProofs Band.EndToEnd.
From LWGen Require Import ChannelsGen.
Import ListNotations.
Open Scope Z_scope.

(* what the target list is: ascending, and exactly enabled /\ (standard \/ on the device) *)
Theorem C14_target_membership : forall (s : st) dev i,
  In i (target s dev) <->
  In i (get_enabled_uplink_channel_indices s) /\ (In i (get_standard_uplink_channel_indices s) \/ In i dev).
Proof. exact target_spec. Qed.
Print Assumptions C14_target_membership.

Theorem C14_target_sorted : forall (s : st) dev, StronglySorted Z.lt (target s dev).
Proof. exact target_sorted. Qed.
Print Assumptions C14_target_sorted.

(* generic planner: for EVERY channel table of at most 256 channels and EVERY
   device channel list (any order, duplicates, and entries that are not channels of
   the plan: negative, beyond the plan, 256, 4096, 2^63 - the planner drops them,
   /repo fix for finding C14-4, and the apply function ignores them), applying the
   planned payloads yields exactly the target *)
Theorem C14_generic_sound : forall (s : st) dev,
  zlen (up s) <= 256 ->
  exists pls, plan_generic 16 s dev = Ok pls /\ apply_generic 16 s dev pls = Ok (target s dev).
Proof. exact (generic_sound_all 16 eq_refl). Qed.
Print Assumptions C14_generic_sound.

(* ... and the same for any block size (the model's parameter), e.g. for the
   exhaustive small-instance evaluation *)
Theorem C14_generic_sound_any_block_size : forall B, 0 < B -> forall (s : st) dev,
  zlen (up s) <= 256 ->
  exists pls, plan_generic B s dev = Ok pls /\ apply_generic B s dev pls = Ok (target s dev).
Proof. exact generic_sound_all. Qed.
Print Assumptions C14_generic_sound_any_block_size.

(* beyond 256 channels the statement is false (finding C14-2: uint8 wrap of ChMaskCntl*16) *)
Theorem C14_sound_refuted_above_256 :
  exists s dev pls, zlen (up s) = 261 /\ in_range 261 dev = true /\
    plan_generic 16 s dev = Ok pls /\ apply_generic 16 s dev pls = Ok [258] /\ target s dev = [0; 1; 2].
Proof. exact sound_refuted_257. Qed.
Print Assumptions C14_sound_refuted_above_256.

(* at most one payload per 16-channel block (the property allows one more), for every device list *)
Theorem C14_count : forall (s : st) dev,
  exists pls, plan_generic 16 s dev = Ok pls /\ Z.of_nat (length pls) <= blocks 16 (zlen (up s)).
Proof. exact (generic_count_all 16 eq_refl). Qed.
Print Assumptions C14_count.

(* nothing is produced when the device already matches - also when it matches on the
   channels of the plan and reports further indices the plan does not have *)
Theorem C14_noop : forall (s : st) dev, same_set dev (target s dev) -> plan_generic 16 s dev = Ok [].
Proof. exact (generic_noop_all 16). Qed.
Print Assumptions C14_noop.

Theorem C14_noop_known_channels : forall (s : st) dev,
  same_set (known_channels (zlen (up s)) dev) (target s dev) -> plan_generic 16 s dev = Ok [].
Proof. exact (generic_noop_known 16). Qed.
Print Assumptions C14_noop_known_channels.

(* every payload is encodable when the plan has at most 128 channels, for every device list ... *)
Theorem C14_encodable : forall (s : st) dev,
  zlen (up s) <= 128 ->
  exists pls, plan_generic 16 s dev = Ok pls /\ forallb encodable pls = true.
Proof. exact generic_encodable_all. Qed.
Print Assumptions C14_encodable.

(* ... which means: LinkADRReqPayload.MarshalBinary (model) accepts it and it decodes back *)
Theorem C14_encodable_means : forall p, encodable p = true ->
  exists bs, linkadrreq_marshal p = Ok bs /\ length bs = 4%nat /\
             Forall (fun b => 0 <= b < 256) bs /\ linkadrreq_unmarshal bs = Ok p.
Proof. exact CrossLayerProofs.linkadrreq_roundtrip. Qed.
Print Assumptions C14_encodable_means.

(* with 129 or more channels it is false (finding C14-1: ChMaskCntl > 7) *)
Theorem C14_encodable_refuted_above_128 :
  exists s dev pls, zlen (up s) = 133 /\ in_range 133 dev = true /\
    plan_generic 16 s dev = Ok pls /\ forallb encodable pls = false.
Proof. exact encodable_refuted_129. Qed.
Print Assumptions C14_encodable_refuted_above_128.

(* the code before the fix for finding C14-4 ([plan_generic_prefix]: no restriction of the
   device list) on a pristine three-channel plan: an unencodable ChMaskCntl 8 for device
   {0,1,2,130}; for {0,1,2,4096} the block number wraps to 0 and the payload switches every
   channel off; seven payloads for a one-block plan.  The repaired planner plans nothing. *)
Theorem C14_prefix_refuted :
  (exists pls, plan_generic_prefix 16 eu3 [0; 1; 2; 130] = Ok pls /\ forallb encodable pls = false) /\
  (exists pls, plan_generic_prefix 16 eu3 [0; 1; 2; 4096] = Ok pls /\
               apply_generic 16 eu3 [0; 1; 2; 4096] pls = Ok [] /\ target eu3 [0; 1; 2; 4096] = [0; 1; 2]) /\
  (exists pls, plan_generic_prefix 16 eu3 [0; 1; 2; 16; 32; 48; 64; 80; 96; 112] = Ok pls /\ length pls = 7%nat) /\
  plan_generic 16 eu3 [0; 1; 2; 130] = Ok [] /\ plan_generic 16 eu3 [0; 1; 2; 4096] = Ok [] /\
  plan_generic 16 eu3 [0; 1; 2; 16; 32; 48; 64; 80; 96; 112] = Ok [].
Proof. exact prefix_refuted. Qed.
Print Assumptions C14_prefix_refuted.

(* US915 / AU915: two strategies, the shorter wins; for the 72-channel layout
   (no custom channels) the device ends up with exactly the enabled channels, whatever
   the device list holds *)
Theorem C14_us_sound : forall (s : st) dev, us_layout s ->
  exists pls, plan_us 16 s dev = Ok pls /\ apply_us 16 s dev pls = Ok (get_enabled_uplink_channel_indices s).
Proof. exact us_sound_all. Qed.
Print Assumptions C14_us_sound.

Theorem C14_us_count : forall (s : st) dev,
  exists pls, plan_us 16 s dev = Ok pls /\ Z.of_nat (length pls) <= blocks 16 (zlen (up s)).
Proof. exact us_count_all. Qed.
Print Assumptions C14_us_count.

Theorem C14_us_noop : forall (s : st) dev, same_set dev (target s dev) -> plan_us 16 s dev = Ok [].
Proof. exact us_noop_all. Qed.
Print Assumptions C14_us_noop.

Theorem C14_us_encodable : forall (s : st) dev, us_layout s ->
  exists pls, plan_us 16 s dev = Ok pls /\ forallb encodable pls = true.
Proof. exact us_encodable_all. Qed.
Print Assumptions C14_us_encodable.

(* no panic, for EVERY device list (negative, huge, repeated entries) and EVERY payload list *)
Theorem C14_planner_total : forall B (s : st) dev, exists pls, plan_generic B s dev = Ok pls.
Proof. exact plan_generic_total_all. Qed.
Print Assumptions C14_planner_total.

Theorem C14_us_planner_total : forall B (s : st) dev, exists pls, plan_us B s dev = Ok pls.
Proof. exact plan_us_total_all. Qed.
Print Assumptions C14_us_planner_total.

Theorem C14_apply_never_panics : forall (s : st) dev pls,
  (exists r, apply_generic 16 s dev pls = Ok r) \/ apply_generic 16 s dev pls = Err.
Proof. intros. now apply apply_generic_never_panics. Qed.
Print Assumptions C14_apply_never_panics.

Theorem C14_us_apply_never_panics : forall (s : st) dev pls, 72 <= zlen (up s) ->
  (exists r, apply_us 16 s dev pls = Ok r) \/ apply_us 16 s dev pls = Err.
Proof. exact apply_us_never_panics. Qed.
Print Assumptions C14_us_apply_never_panics.

(* the bands that exist (dumped on every run): all channels standard, at most
   128 of them, and the two planner-overriding bands have the 72-channel layout *)
Theorem C14_band_tables : forall nm rep dw s, In (nm, rep, dw, s) configs ->
  (forall c, In c (up s) -> custom c = false) /\
  (us_like nm = true -> us_layout s /\ extra s = false) /\ zlen (up s) <= 128.
Proof.
  intros nm rep dw s H. destruct (configs_spec nm rep dw s H) as [A [B [C _]]]. auto.
Qed.
Print Assumptions C14_band_tables.

(* the property for the bands that exist: every configuration, every history,
   every device channel list (the 256-channel bound is finding C14-2) *)
Theorem C14_all_bands_sound : forall nm rep dw s0 ops dev, In (nm, rep, dw, s0) configs ->
  let s := run s0 ops in
  zlen (up s) <= 256 ->
  exists pls, plan (us_like nm) 16 s dev = Ok pls /\ apply (us_like nm) 16 s dev pls = Ok (target s dev).
Proof. exact all_bands_sound. Qed.
Print Assumptions C14_all_bands_sound.

Theorem C14_all_bands_count : forall nm (s : st) dev,
  exists pls, plan (us_like nm) 16 s dev = Ok pls /\ Z.of_nat (length pls) <= blocks 16 (zlen (up s)).
Proof. exact all_bands_count. Qed.
Print Assumptions C14_all_bands_count.

Theorem C14_all_bands_noop : forall nm (s : st) dev,
  same_set dev (target s dev) -> plan (us_like nm) 16 s dev = Ok [].
Proof. exact all_bands_noop. Qed.
Print Assumptions C14_all_bands_noop.

(* the 128-channel bound is finding C14-1 *)
Theorem C14_all_bands_encodable : forall nm rep dw s0 ops dev, In (nm, rep, dw, s0) configs ->
  let s := run s0 ops in
  zlen (up s) <= 128 ->
  exists pls, plan (us_like nm) 16 s dev = Ok pls /\
    forall p, In p pls -> encodable p = true /\
      exists bs, linkadrreq_marshal p = Ok bs /\ linkadrreq_unmarshal bs = Ok p.
Proof. exact all_bands_encodable. Qed.
Print Assumptions C14_all_bands_encodable.

(* non-vacuity: EU868 (configuration 32, standard channels 0 1 2) after adding a
   channel (index 3, custom) and disabling channel 1: a device with {0, 1} must
   end with {0, 2} - one payload for block 0, the added channel stays unknown;
   a device that also has channel 3 keeps it; a device with {2, 0} already matches *)
Example C14_example :
  let s := run (match nth_error configs 32 with Some (_, _, _, s) => s | None => mkSt false 0 0 [] [] [] [] end)
               [AddChannel 867100000 0 5; Disable 1] in
  target s [0; 1] = [0; 2] /\ target s [0; 1; 3] = [0; 2; 3] /\
  plan_generic 16 s [0; 1] = Ok [mkPayload 0 0 (true :: false :: true :: repeat false 13) 0 0] /\
  plan_generic 16 s [2; 0] = Ok [].
Proof. vm_compute. repeat split; reflexivity. Qed.
