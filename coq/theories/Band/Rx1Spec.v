(* SPECIFICATION for C12, written from the property text and the Regional
   Parameters rules, as executable (bool) predicates over an OBSERVED result,
   so that the same definitions are used by the theorems (applied to the
   model) and by the correspondence run (applied to what the implementation
   returned).  No reference to Band/Lookup.v. *)
From Coq Require Import List ZArith Bool String.
From LW Require Import Base.Outcome Band.Types Band.Regional.
Import ListNotations.
Open Scope Z_scope.

(* "exists for downlink / uplink in that band" *)
Definition dr_defined (t : tables) (r : Z) : bool :=
  match zfind r (t_drs t) with Some _ => true | None => false end.
Definition dr_defined_down (t : tables) (r : Z) : bool :=
  match zfind r (t_drs t) with Some d => dr_down d | None => false end.
Definition dr_defined_up (t : tables) (r : Z) : bool :=
  match zfind r (t_drs t) with Some d => dr_up d | None => false end.


(* no defined downlink data-rate strictly between lo and hi *)
Definition no_defined_down_between (t : tables) (lo hi : Z) : bool :=
  forallb (fun d => negb (dr_defined_down t d)) (zrange (lo + 1) (hi - 1)).

(* arguments that no region accepts: negative numbers, data-rates that do not
   fit the 4-bit field, offsets that do not fit the 3-bit RX1DROffset field *)
Definition rx1_args_invalid (dr off : Z) : bool :=
  (dr <? 0) || (off <? 0) || (dr >? 15) || (off >? 7).

(* the region's positive offsets: 0..5 (offsets 6 and 7, where a region
   defines them, are the effective offsets -1 and -2) *)
Definition max_positive_offset : Z := 5.

Definition zmax (a b : Z) := if a <? b then b else a.
Definition zmin (a b : Z) := if a <? b then a else b.

(* RX1 data-rate where the region defines it by a formula over the positive
   offsets (None = no formula claimed for that cell) *)
Definition spec_rx1_formula (r : region) (dwell400 : bool) (dr off : Z) : option Z :=
  let in_rng x lo hi := (lo <=? x) && (x <=? hi) in
  match r with
  | REU868 | REU433 | RCN779 | RRU864 | RISM2400 =>
    if in_rng dr 0 7 && in_rng off 0 5 then Some (zmax (dr - off) 0) else None
  | RCN470 | RKR920 | RIN865 =>
    if in_rng dr 0 5 && in_rng off 0 5 then Some (zmax (dr - off) 0) else None
  | RAS923 _ =>
    (* MAX(MinDR, DR - offset), MinDR = 2 under downlink dwell time *)
    if in_rng dr 0 5 && in_rng off 0 5 then Some (zmax (dr - off) (if dwell400 then 2 else 0)) else None
  | RUS915 =>
    if in_rng dr 0 4 && in_rng off 0 3 then Some (zmin 13 (zmax 8 (dr + 10 - off))) else None
  | RAU915 =>
    if in_rng dr 0 6 && in_rng off 0 5 then Some (zmin 13 (zmax 8 (dr + 8 - off))) else None
  end.

(* One (uplink DR, RX1 offset) cell: [obs] is the result for (dr, off),
   [prev] the result for (dr, off - 1). *)
Definition rx1_no_panic (obs : outcome Z) : bool := negb (is_panic obs).

Definition rx1_invalid_rule (dr off : Z) (obs : outcome Z) : bool :=
  if rx1_args_invalid dr off then is_err obs else true.

Definition rx1_defined_rule (t : tables) (obs : outcome Z) : bool :=
  match obs with Ok r => dr_defined_down t r | _ => true end.

Definition rx1_formula_rule (reg : region) (dwell400 : bool) (dr off : Z) (obs : outcome Z) : bool :=
  match spec_rx1_formula reg dwell400 dr off with
  | Some e => outcome_eqb Z.eqb obs (Ok e)
  | None => true
  end.

Definition rx1_step_rule (t : tables) (off : Z) (prev obs : outcome Z) : bool :=
  if (1 <=? off) && (off <=? max_positive_offset) then
    match prev, obs with
    | Ok p, Ok r => (r <=? p) && no_defined_down_between t r p
    | _, _ => true
    end
  else true.

(* an accepted uplink data-rate is a data-rate of the band ("invalid data-rates yield an error":
   an index GetDataRate rejects must be rejected here too) *)
Definition rx1_uplink_dr_rule (t : tables) (dr : Z) (obs : outcome Z) : bool :=
  match obs with Ok _ => dr_defined t dr | _ => true end.

(* the RX1DROffset values a region defines: 0..3 (US915), 0..7 (AS923, IN865: 6 and 7 are the
   effective offsets -1 and -2), 0..5 everywhere else; a larger value is an invalid offset *)
Definition spec_max_rx1_offset (reg : region) : Z :=
  match reg with
  | RUS915 => 3
  | RAS923 _ | RIN865 => 7
  | _ => 5
  end.
Definition rx1_offset_rule (reg : region) (off : Z) (obs : outcome Z) : bool :=
  if off >? spec_max_rx1_offset reg then is_err obs else true.

Definition rx1_cell_ok (c : band_cfg) (dr off : Z) (prev obs : outcome Z) : bool :=
  match region_of (c_name c) with
  | None => false
  | Some reg =>
    rx1_no_panic obs && rx1_invalid_rule dr off obs && rx1_defined_rule (c_tab c) obs
    && rx1_formula_rule reg (c_dwell c) dr off obs && rx1_step_rule (c_tab c) off prev obs
    && rx1_uplink_dr_rule (c_tab c) dr obs && rx1_offset_rule reg off obs
  end.

(* ---- RX1 channel / frequency ------------------------------------------------
   For uplink channel [i] with frequency [f]: [o_idx] = RX1 channel index
   obtained from [i], [o_freq] = RX1 frequency obtained from [f]; [down] the
   band's downlink channels.  Both must denote the downlink channel the
   region's rule selects, and that channel must exist. *)
Definition rx1_channel_ok (reg : region) (down : list channel) (i f : Z)
           (o_idx o_freq : outcome Z) : bool :=
  match o_idx, o_freq with
  | Ok j, Ok g =>
    (j =? spec_rx1_channel reg i)
    && match zindex down j with
       | Ok d => ch_freq d =? g
       | _ => false
       end
    && match reg with
       | RUS915 | RAU915 | RCN470 => true
       | _ => g =? f           (* RX1 on the uplink frequency *)
       end
  | _, _ => false
  end.

(* The same rule stated on observations only (used for band objects after a history of
   AddChannel calls, where the downlink channel list is not a dumped table): uplink channel
   [i] has frequency [f]; [o_idx] = RX1 channel index obtained from [i]; [o_down] = frequency
   of the downlink channel GetDownlinkChannel(that index) (an error when there is no such
   downlink channel); [o_freq] = RX1 frequency obtained from [f]. *)
Definition rx1_channel_obs_ok (reg : region) (i f : Z) (o_idx o_down o_freq : outcome Z) : bool :=
  match o_idx, o_down, o_freq with
  | Ok j, Ok g', Ok g =>
    (j =? spec_rx1_channel reg i) && (g' =? g)
    && match reg with
       | RUS915 | RAU915 | RCN470 => true
       | _ => g =? f
       end
  | _, _, _ => false
  end.

(* The uplink channel list after a history: the region's default channels followed by one channel
   per accepted AddChannel call, in call order ([added] = the frequencies of the accepted calls;
   Disable / Enable change no frequency).  Uplink channel [i] must carry exactly that frequency -
   also beyond index 255. *)
Definition uplink_freq_after_adds_ok (reg : region) (added : list Z) (i f : Z) : bool :=
  match zindex (map (fun c => fst (fst c)) (spec_uplink_channels reg) ++ added) i with
  | Ok g => g =? f
  | _ => false
  end.

(* GetRX1FrequencyForUplinkFrequency on ANY frequency f: regions answering RX1 on the uplink
   frequency return f itself (nothing is snapped to a nearby channel); the other regions answer
   with one of their downlink frequencies or an error (checked against the model) *)
Definition rx1_frequency_any_ok (reg : region) (f : Z) (o : outcome Z) : bool :=
  match reg with
  | RUS915 | RAU915 | RCN470 => true
  | _ => outcome_eqb Z.eqb o (Ok f)
  end.

(* ---- ping slot -------------------------------------------------------------- *)
Definition ping_slot_ok (reg : region) (devaddr beacon : Z) (obs : outcome Z) : bool :=
  outcome_eqb Z.eqb obs (Ok (spec_ping_slot reg devaddr beacon)).

(* ANY beacon time (time.Duration is a signed 64-bit number of nanoseconds): a time before the GPS
   epoch is not a beacon time - the hopping regions answer it with an error, never with a panic
   (and never with the hop a truncating division would select); the fixed-frequency regions do not
   look at their arguments *)
Definition hopping_region (reg : region) : bool :=
  match reg with RUS915 | RAU915 | RCN470 => true | _ => false end.
Definition ping_slot_any_ok (reg : region) (devaddr beacon : Z) (obs : outcome Z) : bool :=
  if 0 <=? beacon then ping_slot_ok reg devaddr beacon obs
  else if hopping_region reg then is_err obs
  else outcome_eqb Z.eqb obs (Ok (spec_ping_slot_at reg 0)).

(* ---- RX2 default ------------------------------------------------------------ *)
Definition rx2_ok (reg : region) (t : tables) (d : defaults) : bool :=
  defaults_eqb d (spec_defaults reg) && dr_defined_down t (d_rx2_dr d).
