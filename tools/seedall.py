#!/usr/bin/env python3
"""Runs tools/seedcheck.sh over seeded defects and summarises: usage seedall.py <root> [Cxx/a ...]"""
import sys, os, subprocess, re, json, concurrent.futures
root = sys.argv[1]
sel = sys.argv[2:]
todo = []
for pid in sorted(os.listdir(root)):
    for v in ("a", "b"):
        d = os.path.join(root, pid, v)
        if os.path.exists(os.path.join(d, "patch.diff")) and os.path.exists(os.path.join(d, "meta.json")):
            if not sel or ("%s/%s" % (pid, v)) in sel:
                todo.append((pid, v, d))
NEIGH = {"C01": ["C06", "C08", "C04", "C09"], "C02": ["C05"], "C03": ["C05"], "C04": ["C01", "C16"], "C05": ["C02", "C03", "C10", "C07", "C01", "C06"],
         "C06": ["C01", "C07", "C15"], "C07": ["C06", "C09", "C15"], "C08": ["C01", "C10"], "C09": ["C08", "C07", "C10", "C18"],
         "C10": ["C09", "C15", "C06"], "C11": ["C10"], "C12": ["C15", "C13"], "C13": ["C12", "C15"], "C14": ["C15"], "C15": ["C14", "C01", "C06"],
         "C16": ["C04", "C17"], "C17": ["C16"], "C18": ["C09", "C10"], "C19": [], "C20": []}
def run(t):
    pid, v, d = t
    extra = json.load(open(os.path.join(d, "meta.json"))).get("also_checks", [])
    p = subprocess.run(["/verif/tools/seedcheck.sh", d, pid] + extra, capture_output=True, text=True)
    out = p.stdout + p.stderr
    if "VIOLATION" not in out and NEIGH.get(pid):
        # the property's own check is quiet: do the checks of neighbouring properties see it?
        more = [c for c in NEIGH[pid] if c not in extra]
        p2 = subprocess.run(["/verif/tools/seedcheck.sh", d] + more, capture_output=True, text=True)
        out += "\n" + "\n".join(l for l in (p2.stdout + p2.stderr).splitlines(True) if True)
    open(os.path.join(d, "seedcheck.log"), "w").write(out)
    out = out.replace("\n\n", "\n")
    m = re.search(r"demo on clean tree \(must pass\)\nrc=(\d+)", out)
    clean = m.group(1) if m else "?"
    m = re.search(r"demo on patched tree \(must fail\)\nrc=(\d+)", out)
    patched = m.group(1) if m else "?"
    suite = out.split("== suite on patched tree")[1].split("== check")[0] if "== suite on patched tree" in out else ""
    suite_ok = not re.search(r"FAIL|panic|cannot|undefined", "\n".join(suite.splitlines()[1:]))
    checks = re.findall(r"== check (\w+) on patched tree\n(.*?)rc=(\d+)", out, re.S)
    res = "; ".join("%s rc=%s %s" % (c, rc, "VIOLATION" + (" nfi" if "no-failing-input-found" in body else "") if "VIOLATION" in body else "") for c, body, rc in checks)
    return "%s/%s demo_clean=%s demo_patched=%s suite_ok=%s | %s" % (pid, v, clean, patched, suite_ok, res)
with concurrent.futures.ThreadPoolExecutor(3) as ex:
    for r in ex.map(run, todo):
        print(r, flush=True)
