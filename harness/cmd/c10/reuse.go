package main

import (
	"fmt"
	"reflect"
	"strings"

	"github.com/brocaar/lorawan"
	"verifharness/internal/cases"
	"verifharness/internal/cq"
	"verifharness/internal/framefmt"
	"verifharness/internal/macfmt"
)

// target is one decodable type: a factory of fresh receivers (pointers), the decoder into a receiver and the
// printer of a receiver (also used on shallow copies of it).
type target struct {
	name  string // key component
	ctype string // Coq term of type rtype
	mk    func() interface{}
	dec   func(v interface{}, b []byte) error
	print func(v interface{}, last []byte) string
	// touch (optional): what an application does to a decoded value before it keeps it and reuses the receiver
	// (restore the 32-bit frame counter, decode the FOpts into commands)
	touch func(v interface{}, r *cq.RNG)
}

// shallow returns a pointer to a struct copy (`kept := *v`) of the receiver: what a caller keeps when it
// appends the decoded value to a list and decodes the next input into the same receiver.
func shallow(v interface{}) interface{} {
	e := reflect.ValueOf(v).Elem()
	c := reflect.New(e.Type())
	c.Elem().Set(e)
	return c.Interface()
}

func bools16(m lorawan.ChMask) string {
	s := make([]string, 16)
	for i, b := range m {
		s[i] = cq.Bool(b)
	}
	return cq.List(s)
}

func masksTerm(ms []lorawan.ChMask) string {
	s := make([]string, len(ms))
	for i, m := range ms {
		s[i] = bools16(m)
	}
	return cq.List(s)
}

func targets() []target {
	var ts []target
	for _, b := range macfmt.Builtin {
		b := b
		ts = append(ts, target{name: "payload:" + b.Kind, ctype: "(TMacpl " + b.Kind + ")",
			mk:  func() interface{} { return macfmt.Kinds[macfmt.KindIndex(b.Kind)].New() },
			dec: func(v interface{}, d []byte) error { return v.(lorawan.MACCommandPayload).UnmarshalBinary(d) },
			print: func(v interface{}, _ []byte) string {
				return "(RMacpl " + macfmt.Payload(v.(lorawan.MACCommandPayload)) + ")"
			}})
	}
	ts = append(ts,
		target{name: "ChMask", ctype: "TMask", mk: func() interface{} { return &lorawan.ChMask{} },
			dec:   func(v interface{}, d []byte) error { return v.(*lorawan.ChMask).UnmarshalBinary(d) },
			print: func(v interface{}, _ []byte) string { return "(RMask " + bools16(*v.(*lorawan.ChMask)) + ")" }},
		target{name: "CFListChannelPayload", ctype: "TChannels", mk: func() interface{} { return &lorawan.CFListChannelPayload{} },
			dec: func(v interface{}, d []byte) error {
				return v.(*lorawan.CFListChannelPayload).UnmarshalBinary(false, d)
			},
			print: func(v interface{}, _ []byte) string {
				xs := make([]uint64, 5)
				for i, c := range v.(*lorawan.CFListChannelPayload).Channels {
					xs[i] = uint64(c)
				}
				return "(RChannels " + cq.Ns(xs) + ")"
			}},
		target{name: "CFListChannelMaskPayload", ctype: "TMasks", mk: func() interface{} { return &lorawan.CFListChannelMaskPayload{} },
			dec: func(v interface{}, d []byte) error {
				return v.(*lorawan.CFListChannelMaskPayload).UnmarshalBinary(false, d)
			},
			print: func(v interface{}, _ []byte) string {
				return "(RMasks " + masksTerm(v.(*lorawan.CFListChannelMaskPayload).ChannelMasks) + ")"
			}},
		target{name: "CFList", ctype: "TCFList", mk: func() interface{} { return &lorawan.CFList{} },
			dec: func(v interface{}, d []byte) error { return v.(*lorawan.CFList).UnmarshalBinary(d) },
			print: func(v interface{}, _ []byte) string {
				t := framefmt.CFList(v.(*lorawan.CFList)) // (Some (mkCFList ...))
				t = strings.TrimSuffix(strings.TrimPrefix(t, "(Some "), ")")
				return "(RCFList " + t + ")"
			}},
		target{name: "JoinAcceptPayload", ctype: "TJoinAccept", mk: func() interface{} { return &lorawan.JoinAcceptPayload{} },
			dec: func(v interface{}, d []byte) error { return v.(*lorawan.JoinAcceptPayload).UnmarshalBinary(false, d) },
			print: func(v interface{}, _ []byte) string {
				return "(RPayload " + framefmt.Payload(v.(*lorawan.JoinAcceptPayload), 0) + ")"
			}},
		target{name: "FHDR", ctype: "TFhdr", mk: func() interface{} { return &lorawan.FHDR{} },
			dec: func(v interface{}, d []byte) error { return v.(*lorawan.FHDR).UnmarshalBinary(true, d) },
			print: func(v interface{}, last []byte) string {
				return "(RFhdr " + framefmt.FHDR(*v.(*lorawan.FHDR), int(last[4]&0x0f)) + ")"
			},
			touch: func(v interface{}, r *cq.RNG) { v.(*lorawan.FHDR).FCnt |= uint32(1+r.Intn(9)) << 16 }},
		target{name: "MACPayload", ctype: "TMac", mk: func() interface{} { return &lorawan.MACPayload{} },
			dec: func(v interface{}, d []byte) error { return v.(*lorawan.MACPayload).UnmarshalBinary(true, d) },
			print: func(v interface{}, last []byte) string {
				return "(RMac " + framefmt.MACPayload(v.(*lorawan.MACPayload), int(last[4]&0x0f)) + ")"
			},
			touch: func(v interface{}, r *cq.RNG) { v.(*lorawan.MACPayload).FHDR.FCnt |= uint32(1+r.Intn(9)) << 16 }},
		target{name: "PHYPayload", ctype: "TPhy", mk: func() interface{} { return &lorawan.PHYPayload{} },
			dec: func(v interface{}, d []byte) error { return v.(*lorawan.PHYPayload).UnmarshalBinary(d) },
			print: func(v interface{}, last []byte) string {
				return "(RPhy " + framefmt.Phy(*v.(*lorawan.PHYPayload), framefmt.DecodedFOptsLen(last)) + ")"
			},
			touch: func(v interface{}, r *cq.RNG) {
				p := v.(*lorawan.PHYPayload)
				if m, ok := p.MACPayload.(*lorawan.MACPayload); ok {
					m.FHDR.FCnt |= uint32(1+r.Intn(9)) << 16
				}
			}},
	)
	for _, up := range []bool{false, true} {
		up := up
		ts = append(ts, target{name: fmt.Sprintf("MACCommand:up=%v", up), ctype: "(TCmd " + cq.Bool(up) + ")", mk: func() interface{} { return &lorawan.MACCommand{} },
			dec:   func(v interface{}, d []byte) error { return v.(*lorawan.MACCommand).UnmarshalBinary(up, d) },
			print: func(v interface{}, _ []byte) string { return "(RItem " + macfmt.Item(v.(*lorawan.MACCommand)) + ")" }})
	}
	return ts
}

func (h *H) reuseOne(t target, b1, b2 []byte) bool {
	run := func(v interface{}, b []byte) (st string) {
		cases.Begin(fmt.Sprintf("%s.UnmarshalBinary(%x) [reuse]", t.name, b), map[string]interface{}{"b1": hexs(b1), "b2": hexs(b2)})
		defer cases.End()
		defer func() {
			if r := recover(); r != nil {
				st = cq.Panic
			}
		}()
		if err := t.dec(v, append([]byte{}, b...)); err != nil {
			return cq.Err
		}
		return "ok"
	}
	v := t.mk()
	if run(v, b1) != "ok" {
		return false
	}
	// the application works on the decoded value, keeps a (shallow) copy of it and reuses the receiver
	if t.touch != nil && h.r.Bool() {
		t.touch(v, h.r)
	}
	kept := shallow(v)
	keptText := t.print(kept, b1)
	used := run(v, b2)
	if after := t.print(kept, b1); after != keptText {
		h.s.Fail(cases.GoFail{Key: fmt.Sprintf("kept-copy-changed:%s:%s:%s", t.name, hexs(b1), hexs(b2)),
			What:   fmt.Sprintf("a copy (kept := *v) of the value decoded from b1 changed when b2 was decoded into the same receiver: %s then %s", clip(keptText), clip(after)),
			Replay: map[string]interface{}{"api": "v." + t.name + ".UnmarshalBinary(b1); kept := *v; v.UnmarshalBinary(b2); inspect kept", "b1": hexs(b1), "b2": hexs(b2), "kept_before": clip(keptText), "kept_after": clip(after)}})
	}
	if used == "ok" {
		used = cq.Ok(t.print(v, b2))
	}
	w := t.mk()
	fresh := run(w, b2)
	if fresh == "ok" {
		fresh = cq.Ok(t.print(w, b2))
	}
	if !okTerm(used) || !okTerm(fresh) {
		return false
	}
	h.s.Add(cases.Case{
		Term: fmt.Sprintf("CReuse %s %s %s %s %s", t.ctype, cq.Bytes(b1), cq.Bytes(b2), used, fresh),
		Key:  fmt.Sprintf("reuse:%s:%s:%s", t.name, hexs(b1), hexs(b2)), Kind: "reuse-" + strings.SplitN(t.name, ":", 2)[0], Nontrivial: strings.HasPrefix(used, "(Ok"),
		Replay: map[string]interface{}{"api": t.name + ".UnmarshalBinary(b1) then .UnmarshalBinary(b2) on the same value, versus UnmarshalBinary(b2) on a fresh value", "b1": hexs(b1), "b2": hexs(b2)},
	})
	return true
}

func find(ts []target, name string) target {
	for _, t := range ts {
		if t.name == name {
			return t
		}
	}
	panic(name)
}

// reuseCorpus: the witnesses of C10-3 found on the unchanged tree.
func (h *H) reuseCorpus() {
	ts := targets()
	h.reuseOne(find(ts, "payload:KLinkADRAns"), []byte{7}, []byte{0})
	h.reuseOne(find(ts, "payload:KLinkADRReq"), []byte{0x11, 0xff, 0xff, 0x01}, []byte{0x11, 0x01, 0x00, 0x01})
	h.reuseOne(find(ts, "payload:KTXParamSetupReq"), []byte{0x3f}, []byte{0x05})
	h.reuseOne(find(ts, "ChMask"), []byte{0xff, 0xff}, []byte{0, 0})
	h.reuseOne(find(ts, "CFListChannelPayload"), []byte{1, 2, 3, 4, 5, 6, 7, 8, 9, 10, 11, 12, 13, 14, 15}, []byte{9, 9, 9})
	h.reuseOne(find(ts, "CFListChannelMaskPayload"), []byte{1, 0, 2, 0}, []byte{3, 0})
	ja := make([]byte, 28)
	ja[27] = 0
	ja[12] = 1
	h.reuseOne(find(ts, "JoinAcceptPayload"), ja, make([]byte, 12))
	// the boundary of fix e2c2b92 (C06-2): six masks, then RFU bytes 12..14 that are not a seventh mask;
	// receivers that held six masks (or, before the fix, seven) are decoded into again
	six := []byte{1, 0, 2, 0, 3, 0, 4, 0, 5, 0, 6, 0}
	rfu := append(append([]byte{}, six...), 0xaa, 0xbb, 0xcc)
	h.reuseOne(find(ts, "CFListChannelMaskPayload"), rfu, six)
	h.reuseOne(find(ts, "CFListChannelMaskPayload"), rfu[:14], rfu)
	h.reuseOne(find(ts, "CFListChannelMaskPayload"), six, rfu[:13])
	h.reuseOne(find(ts, "CFListChannelMaskPayload"), rfu, []byte{9, 0, 0, 0, 0, 0, 0, 0, 0, 0, 0, 0, 0xff, 0xff, 0xff})
	h.reuseOne(find(ts, "CFList"), append(append([]byte{}, rfu...), 1), append(append([]byte{}, six...), 0x11, 0x22, 0x33, 1))
	h.reuseOne(find(ts, "CFList"), append(append([]byte{}, rfu...), 1), append(append([]byte{}, rfu...), 0))
	jaRFU := append(make([]byte, 12), append(append([]byte{}, rfu...), 1)...)
	jaSix := append(make([]byte, 12), append(append([]byte{}, six...), 0, 0, 0, 1)...)
	h.reuseOne(find(ts, "JoinAcceptPayload"), jaRFU, jaSix)
	h.reuseOne(find(ts, "JoinAcceptPayload"), jaSix, jaRFU)
	h.reuseOne(find(ts, "JoinAcceptPayload"), jaRFU, make([]byte, 12))
	// RxDelay octet with RFU bits set (fix f9b46ea): only the low nibble is the delay
	jaDelay := make([]byte, 12)
	jaDelay[11] = 0x11
	jaDelay2 := append([]byte{}, jaRFU...)
	jaDelay2[11] = 0xf5
	h.reuseOne(find(ts, "JoinAcceptPayload"), jaDelay, jaDelay2)
	h.reuseOne(find(ts, "JoinAcceptPayload"), jaDelay2, jaDelay)
	h.reuseOne(find(ts, "FHDR"), []byte{1, 2, 3, 4, 2, 0, 0, 0xaa, 0xbb}, []byte{1, 2, 3, 4, 0, 0, 0})
	h.reuseOne(find(ts, "MACPayload"), []byte{1, 2, 3, 4, 2, 0, 0, 0xaa, 0xbb, 7, 0xcc}, []byte{1, 2, 3, 4, 0, 0, 0})
	h.reuseOne(find(ts, "MACCommand:up=true"), []byte{3, 7}, []byte{2})
	h.reuseOne(find(ts, "MACPayload"), []byte{1, 2, 3, 4, 0, 0, 0}, []byte{1, 2, 3, 4, 2, 0, 0, 0xaa, 0xbb, 0}) // FPort 0 + FOpts, empty FRMPayload
}

func (h *H) reuse(mult int) {
	r := h.r
	ts := targets()
	for _, t := range ts {
		t := t
		n := 4 * mult
		gen := func() []byte { return nil }
		switch {
		case strings.HasPrefix(t.name, "payload:"):
			size := macfmt.Kinds[macfmt.KindIndex(strings.TrimPrefix(t.name, "payload:"))].Size
			gen = func() []byte {
				b := r.Bytes(size)
				switch r.Intn(4) {
				case 0:
					for i := range b {
						b[i] = 0
					}
				case 1:
					for i := range b {
						b[i] = 0xff
					}
				}
				return b
			}
		case t.name == "ChMask":
			gen = func() []byte { return [][]byte{{0, 0}, {0xff, 0xff}, r.Bytes(2)}[r.Intn(3)] }
		case t.name == "CFListChannelPayload":
			n = 10 * mult
			gen = func() []byte { return r.Bytes(3 * r.Intn(6)) }
		case t.name == "CFListChannelMaskPayload":
			n = 10 * mult
			gen = func() []byte {
				b := r.Bytes(r.Intn(16))
				if r.Intn(3) == 0 { // around the six-mask boundary: 12..15 bytes, non-zero RFU bytes behind the masks
					b = r.Bytes(12 + r.Intn(4))
					for i := 12; i < len(b); i++ {
						b[i] |= 1
					}
					return b
				}
				if r.Bool() {
					for i := range b {
						if r.Bool() {
							b[i] = 0
						}
					}
				}
				return b
			}
		case t.name == "CFList":
			n = 8 * mult
			gen = func() []byte {
				b := r.Bytes(16)
				b[15] = byte(r.Intn(3))
				if r.Bool() { // non-zero RFU bytes 12..14 behind six channel-masks
					b[12], b[13], b[14] = b[12]|1, b[13]|1, b[14]|1
				}
				return b
			}
		case t.name == "JoinAcceptPayload":
			n = 12 * mult
			gen = func() []byte {
				if r.Bool() {
					b := r.Bytes(12)
					if r.Bool() {
						b[11] |= 0x10 << uint(r.Intn(4)) // RFU bits of the RxDelay octet
					}
					return b
				}
				b := r.Bytes(28)
				b[27] = byte(r.Intn(2))
				if r.Bool() { // CFList payload bytes 12..14 non-zero
					b[24], b[25], b[26] = b[24]|1, b[25]|1, b[26]|1
				}
				return b
			}
		case t.name == "FHDR":
			n = 12 * mult
			gen = func() []byte {
				k := []int{0, 0, 1, 5, 15}[r.Intn(5)]
				b := r.Bytes(7 + k)
				b[4] = b[4]&0xf0 | byte(k)
				return b
			}
		case t.name == "MACPayload":
			n = 20 * mult
			gen = func() []byte {
				k := []int{0, 0, 1, 5, 15}[r.Intn(5)]
				rest := []int{0, 0, 1, 2, 9}[r.Intn(5)]
				b := r.Bytes(7 + k + rest)
				b[4] = b[4]&0xf0 | byte(k)
				if rest > 0 && r.Intn(3) > 0 {
					b[7+k] = byte(1 + r.Intn(200))
				}
				return b
			}
		case t.name == "PHYPayload":
			n = 16 * mult
			gen = func() []byte {
				var p lorawan.PHYPayload
				if r.Intn(3) == 0 {
					p = framefmt.JoinFrame(r, r.Intn(5))
				} else {
					p = framefmt.DataFrame(r, framefmt.ValidDataOpt(r))
				}
				b, err := p.MarshalBinary()
				if err != nil || len(b) > 60 {
					return []byte{0x40, 1, 2, 3, 4, 0, 1, 0, 9, 9, 9, 9}
				}
				return b
			}
		case strings.HasPrefix(t.name, "MACCommand"):
			n = 14 * mult
			up := strings.HasSuffix(t.name, "true")
			gen = func() []byte {
				if r.Intn(3) == 0 {
					return []byte{[]byte{2, 6, 13, 128, 129, 3}[r.Intn(6)]}
				}
				var dir []int
				for i, b := range macfmt.Builtin {
					if b.Up == up {
						dir = append(dir, i)
					}
				}
				b := macfmt.Builtin[dir[r.Intn(len(dir))]]
				if r.Intn(5) == 0 {
					if up {
						return append([]byte{128}, r.Bytes(3)...)
					}
					return append([]byte{129}, r.Bytes(2)...)
				}
				return append([]byte{byte(b.CID)}, r.Bytes(macfmt.Kinds[macfmt.KindIndex(b.Kind)].Size)...)
			}
		}
		for i, tries := 0, 0; i < n && tries < 20*n; tries++ {
			if h.reuseOne(t, gen(), gen()) {
				i++
			}
		}
	}
}
