(* C10: the heap decoder computes the same frame VALUE as the value-level
   decoder.  For a well-formed input slice, [view] of the result of
   [h_phy_unmarshal] equals [phy_dec_into zero_phy] (Mem/Reuse.v, the decoder
   into a fresh value) of the bytes of the slice; the heap afterwards is the
   old heap plus new buffers.  This ties the memory model (M1) to the value
   model (M2), whose payload / join-accept parts are in turn proved equal to
   the C06/C07/C01 decoders (ReuseProofs.v). *)
From Coq Require Import List NArith ZArith Bool Arith Lia.
From LW Require Import Base.Outcome Base.Bytes Mac.Commands Mac.Stream Frame.Model
     Mem.Heap Mem.HeapProofs Mem.Alias Mem.AliasProofs Mem.Reuse.
Import ListNotations.
Local Open Scope nat_scope.

Definition wf_slice (h : heap) (s : slice) : Prop :=
  sbuf s < length h /\ soff s + scap s <= length (buffer h (sbuf s)) /\ slen s <= scap s.

(* ---- lists ---- *)
Lemma skipn_skipn' {A} a b (l : list A) : skipn a (skipn b l) = skipn (b + a) l.
Proof.
  revert l; induction b; simpl; intros; auto. destruct l; simpl; auto. now rewrite skipn_nil.
Qed.

Lemma nth_skipn' {A} n i (l : list A) d : nth i (skipn n l) d = nth (n + i) l d.
Proof. revert l; induction n; simpl; intros; auto. destruct l; simpl; auto. destruct i; reflexivity. Qed.

Lemma nth_firstn' {A} n i (l : list A) d : i < n -> nth i (firstn n l) d = nth i l d.
Proof.
  revert i l; induction n; intros i l H; [lia|]. destruct l; simpl; auto.
  destruct i; simpl; auto. apply IHn. lia.
Qed.

(* ---- slices ---- *)
Lemma bytes_of_length h s : wf_slice h s -> length (bytes_of h s) = slen s.
Proof. intros (_ & H1 & H2). unfold bytes_of. rewrite firstn_length, skipn_length. lia. Qed.

Lemma bytes_of_nth h s i : i < slen s -> nth i (bytes_of h s) 0%N = nth (soff s + i) (buffer h (sbuf s)) 0%N.
Proof. intros H. unfold bytes_of. rewrite nth_firstn' by auto. apply nth_skipn'. Qed.

Lemma rd_spec h s i : (0 <= i < zlen s)%Z -> sl_rd s i h = (h, Ok (nth (Z.to_nat i) (bytes_of h s) 0%N)).
Proof.
  intros H. unfold sl_rd. unfold zlen in *.
  replace ((0 <=? i)%Z && (i <? Z.of_nat (slen s))%Z) with true
    by (symmetry; apply andb_true_iff; split; [apply Z.leb_le|apply Z.ltb_lt]; lia).
  rewrite bytes_of_nth by lia. reflexivity.
Qed.

Lemma sub_spec h s a b s' :
  wf_slice h s -> (b <= zlen s)%Z -> sl_sub s a b = Ok s' ->
  wf_slice h s' /\ slen s' = Z.to_nat b - Z.to_nat a /\
  bytes_of h s' = firstn (Z.to_nat b - Z.to_nat a) (skipn (Z.to_nat a) (bytes_of h s)).
Proof.
  intros (W0 & W1 & W2) Hb H. unfold sl_sub, zlen in *.
  destruct ((0 <=? a)%Z && (a <=? b)%Z && (b <=? Z.of_nat (scap s))%Z) eqn:E; [|discriminate].
  inversion H; subst s'; clear H.
  apply andb_true_iff in E as [E E3]. apply andb_true_iff in E as [E1 E2].
  apply Z.leb_le in E1, E2, E3.
  split; [|split]; [unfold wf_slice; simpl; lia|reflexivity|].
  unfold bytes_of; simpl.
  rewrite skipn_firstn_comm, skipn_skipn', firstn_firstn.
  f_equal. lia.
Qed.

Lemma sub_ok s a b : (0 <= a <= b)%Z -> (b <= Z.of_nat (scap s))%Z -> exists s', sl_sub s a b = Ok s'.
Proof.
  intros H1 H2. unfold sl_sub.
  replace ((0 <=? a)%Z && (a <=? b)%Z && (b <=? Z.of_nat (scap s))%Z) with true; [eauto|].
  symmetry. rewrite !andb_true_iff. repeat split; apply Z.leb_le; lia.
Qed.

(* ---- make + copy = a new buffer holding the bytes ---- *)
Lemma set_bytes_nth_in h b i vs j :
  b < length h -> i + length vs <= length (buffer h b) -> i <= j < i + length vs ->
  nth j (buffer (set_bytes h b i vs) b) 0%N = nth (j - i) vs 0%N.
Proof.
  revert h i; induction vs as [|v vs IH]; simpl; intros h i Hb Hl Hj; [lia|].
  destruct (Nat.eq_dec j i) as [->|Hne].
  - rewrite set_bytes_nth by lia. unfold set_byte. rewrite buffer_upd_same by auto.
    rewrite nth_upd, Nat.eqb_refl, Nat.sub_diag.
    replace (i <? length (buffer h b)) with true by (symmetry; apply Nat.ltb_lt; lia). reflexivity.
  - rewrite IH.
    + replace (j - i) with (S (j - S i)) by lia. reflexivity.
    + now rewrite set_byte_length.
    + rewrite set_byte_buffer_length. lia.
    + lia.
Qed.

Lemma heap_ext (h1 h2 : heap) : length h1 = length h2 -> (forall b, buffer h1 b = buffer h2 b) -> h1 = h2.
Proof. intros HL H. apply (nth_ext h1 h2 [] []); [exact HL|]. intros n _. apply H. Qed.

Lemma alloc_fill h z bs : length z = length bs -> set_bytes (h ++ [z]) (length h) 0 bs = h ++ [bs].
Proof.
  intros HL. apply heap_ext.
  - rewrite set_bytes_length, !app_length. reflexivity.
  - intros b. destruct (Nat.lt_trichotomy b (length h)) as [Hb|[->|Hb]].
    + rewrite (buffer_app_old h [bs]) by auto. rewrite <- (buffer_app_old h [z] b) by auto.
      apply list_ext_nth; [apply set_bytes_buffer_length|]. intros i. apply set_bytes_nth. left. lia.
    + rewrite buffer_app_new. apply list_ext_nth.
      * rewrite set_bytes_buffer_length, buffer_app_new. exact HL.
      * intros i. destruct (Nat.lt_ge_cases i (length bs)).
        -- rewrite set_bytes_nth_in; [now rewrite Nat.sub_0_r| rewrite app_length; simpl; lia
                                      | rewrite buffer_app_new; lia | lia].
        -- rewrite !nth_overflow; auto. rewrite set_bytes_buffer_length, buffer_app_new. lia.
    + unfold buffer. rewrite !nth_overflow; auto; [rewrite app_length|rewrite set_bytes_length, app_length]; simpl; lia.
Qed.

Lemma bytes_of_app_old h x s : sbuf s < length h -> bytes_of (h ++ x) s = bytes_of h s.
Proof. intros H. apply bytes_of_ext. now apply buffer_app_old. Qed.

Lemma bytes_of_new h bs : bytes_of (h ++ [bs]) (mkSlice (length h) 0 (length bs) (length bs)) = bs.
Proof. unfold bytes_of; simpl. rewrite buffer_app_new. apply firstn_all. Qed.

(* doM b <- sl_mk k k; seqM sl_cpy b s; f b   with k = len(s) *)
Lemma mk_cpy_run {A} h s k (f : slice -> M A) :
  wf_slice h s -> k = slen s ->
  (doM b <- sl_mk k k; seqM sl_cpy b s; f b) h =
  f (mkSlice (length h) 0 k k) (h ++ [bytes_of h s]).
Proof.
  intros W ->. unfold bindM at 1. unfold sl_mk. rewrite Nat.leb_refl.
  unfold bindM at 1. unfold sl_cpy. cbn [slen sbuf soff].
  rewrite bytes_of_app_old by apply W.
  rewrite firstn_all2 by (rewrite bytes_of_length; auto).
  rewrite alloc_fill by (rewrite repeat_length, bytes_of_length; auto).
  reflexivity.
Qed.

(* ---- views are stable under allocation ---- *)
Definition slices_in (h : heap) (ss : list slice) : Prop := Forall (fun s => sbuf s < length h) ss.

Lemma view_item_app h x it : slices_in h (item_slices it) -> view_item (h ++ x) it = view_item h it.
Proof.
  intros H. apply view_item_ext. intros s Hs. apply buffer_app_old.
  unfold slices_in in H. rewrite Forall_forall in H. auto.
Qed.

(* ---- the decoders ---- *)
Definition extends (h h' : heap) : Prop := exists x, h' = h ++ x.

Lemma extends_refl h : extends h h.
Proof. exists []. now rewrite app_nil_r. Qed.

Lemma extends_trans h1 h2 h3 : extends h1 h2 -> extends h2 h3 -> extends h1 h3.
Proof. intros [x ->] [y ->]. exists (x ++ y). now rewrite app_assoc. Qed.

Lemma extends_wf h h' s : extends h h' -> wf_slice h s -> wf_slice h' s.
Proof.
  intros [x ->] (W0 & W1 & W2). unfold wf_slice. rewrite buffer_app_old by auto.
  rewrite app_length. repeat split; auto; lia.
Qed.

Lemma extends_bytes h h' s : extends h h' -> sbuf s < length h -> bytes_of h' s = bytes_of h s.
Proof. intros [x ->] H. now apply bytes_of_app_old. Qed.

Lemma fhdr_refine h s :
  wf_slice h s ->
  exists h' r, h_fhdr_unmarshal s h = (h', r) /\ extends h h' /\
               omap (view_fhdr h') r = fhdr_dec_into zero_fhdr (bytes_of h s) /\
               (forall x, r = Ok x -> slices_in h' (items_slices (h_fopts x))).
Proof.
  intros W. unfold h_fhdr_unmarshal, fhdr_dec_into.
  rewrite (bytes_of_length h s W). unfold zlen.
  destruct (Z.of_nat (slen s) <? 7)%Z eqn:E7.
  - apply Z.ltb_lt in E7. replace (slen s <? 7) with true by (symmetry; apply Nat.ltb_lt; lia).
    exists h, Err. repeat split; auto using extends_refl. discriminate.
  - apply Z.ltb_ge in E7. replace (slen s <? 7) with false by (symmetry; apply Nat.ltb_ge; lia).
    unfold bindM at 1. unfold loadM.
    destruct (7 <? Z.of_nat (slen s))%Z eqn:E8.
    + apply Z.ltb_lt in E8. replace (7 <? slen s) with true by (symmetry; apply Nat.ltb_lt; lia).
      destruct (sub_ok s 7 (Z.of_nat (slen s))) as [s' Hs']; [lia|destruct W as (_ & _ & ?); lia|].
      destruct (sub_spec h s 7 (Z.of_nat (slen s)) s' W ltac:(unfold zlen; lia) Hs') as (W' & L' & B').
      unfold bindM at 1. unfold bindM at 1. unfold sl_subM, liftM. rewrite Hs'.
      rewrite (mk_cpy_run h s' (slen s - 7) (fun b => retM [HIData b]) W') by (rewrite L'; lia).
      eexists. eexists. split; [reflexivity|]. split; [eexists; reflexivity|].
      split; [|intros x Hx; inversion Hx; subst x; simpl; constructor; [|constructor];
               simpl; rewrite app_length; simpl; lia].
      assert (HB : bytes_of (h ++ [bytes_of h s']) (mkSlice (length h) 0 (slen s - 7) (slen s - 7))
                   = skipn 7 (bytes_of h s)).
      { replace (slen s - 7) with (length (bytes_of h s')) by (rewrite bytes_of_length; auto; lia).
        rewrite bytes_of_new, B', Nat2Z.id. change (Z.to_nat 7) with 7.
        apply firstn_all2. rewrite skipn_length, bytes_of_length; auto. }
      unfold retM. cbn [omap bind]. unfold view_fhdr. cbn [h_devaddr h_fc h_fcnt h_fopts map view_item].
      rewrite HB. reflexivity.
    + apply Z.ltb_ge in E8. replace (7 <? slen s) with false by (symmetry; apply Nat.ltb_ge; lia).
      exists h. eexists. split; [reflexivity|]. split; [apply extends_refl|].
      split; [reflexivity|]. intros x Hx. inversion Hx; subst x. constructor.
Qed.

Lemma view_items_app h x its : slices_in h (items_slices its) -> map (view_item (h ++ x)) its = map (view_item h) its.
Proof.
  intros H. apply view_items_ext. intros s Hs. apply buffer_app_old.
  unfold slices_in in H. rewrite Forall_forall in H. auto.
Qed.

Lemma view_fhdr_app h x hd : slices_in h (items_slices (h_fopts hd)) -> view_fhdr (h ++ x) hd = view_fhdr h hd.
Proof. intros H. unfold view_fhdr. f_equal. now apply view_items_app. Qed.

Lemma zltb_nat a b : (Z.of_nat a <? Z.of_nat b)%Z = (a <? b).
Proof.
  destruct (a <? b) eqn:E; [apply Nat.ltb_lt in E; apply Z.ltb_lt; lia|apply Nat.ltb_ge in E; apply Z.ltb_ge; lia].
Qed.

Lemma mac_refine h s :
  wf_slice h s ->
  exists h' r, h_mac_unmarshal s h = (h', r) /\ extends h h' /\
               omap (view_mac h') r = mac_dec_into zero_mac (bytes_of h s).
Proof.
  intros W. pose proof (bytes_of_length h s W) as L.
  unfold h_mac_unmarshal, mac_dec_into. rewrite L. unfold zlen. change (hdr zero_mac) with zero_fhdr.
  destruct (Z.of_nat (slen s) <? 7)%Z eqn:E7.
  { apply Z.ltb_lt in E7. replace (slen s <? 7) with true by (symmetry; apply Nat.ltb_lt; lia).
    exists h, Err. repeat split; auto using extends_refl. }
  apply Z.ltb_ge in E7. replace (slen s <? 7) with false by (symmetry; apply Nat.ltb_ge; lia).
  unfold bindM at 1. rewrite (rd_spec h s 4) by (unfold zlen; lia). change (Z.to_nat 4) with 4.
  set (q := N.land (nth 4 (bytes_of h s) 0%N) 15).
  rewrite <- (N_nat_Z q). set (ol := N.to_nat q).
  destruct (Z.of_nat (slen s) <? 7 + Z.of_nat ol)%Z eqn:E8.
  { apply Z.ltb_lt in E8. replace (slen s <? 7 + ol) with true by (symmetry; apply Nat.ltb_lt; lia).
    exists h, Err. repeat split; auto using extends_refl. }
  apply Z.ltb_ge in E8. replace (slen s <? 7 + ol) with false by (symmetry; apply Nat.ltb_ge; lia).
  destruct (sub_ok s 0 (7 + Z.of_nat ol)) as [hs Hhs]; [lia|destruct W as (_ & _ & ?); lia|].
  destruct (sub_spec h s 0 (7 + Z.of_nat ol) hs W ltac:(unfold zlen; lia) Hhs) as (Whs & Lhs & Bhs).
  unfold bindM at 1. unfold sl_subM, liftM. rewrite Hhs.
  destruct (fhdr_refine h hs Whs) as (h1 & r1 & R1 & X1 & V1 & S1).
  unfold bindM at 1. rewrite R1.
  assert (Bhs' : bytes_of h hs = firstn (7 + ol) (bytes_of h s)).
  { rewrite Bhs. change (Z.to_nat 0) with 0. rewrite Nat.sub_0_r. simpl skipn. f_equal. lia. }
  rewrite Bhs' in V1.
  assert (Hne : fhdr_dec_into zero_fhdr (firstn (7 + ol) (bytes_of h s)) <> Err /\
                fhdr_dec_into zero_fhdr (firstn (7 + ol) (bytes_of h s)) <> Panic /\
                fhdr_dec_into zero_fhdr (firstn (7 + ol) (bytes_of h s)) <> OutOfFuel).
  { unfold fhdr_dec_into. rewrite firstn_length, L.
    replace (Nat.min (7 + ol) (slen s) <? 7) with false by (symmetry; apply Nat.ltb_ge; lia).
    repeat split; discriminate. }
  destruct r1 as [hd| | |]; cbn [omap bind] in V1;
    try (exfalso; destruct Hne as (N1 & N2 & N3); congruence).
  rewrite <- V1. cbn [bind].
  assert (W1 : wf_slice h1 s) by (eapply extends_wf; eauto).
  assert (B1 : bytes_of h1 s = bytes_of h s) by (apply extends_bytes; [auto|apply W]).
  specialize (S1 hd eq_refl).
  set (P := if 7 + ol <? slen s then Some (nth (7 + ol) (bytes_of h s) 0%N) else None).
  assert (HP : (if (7 + Z.of_nat ol <? Z.of_nat (slen s))%Z
                then doM p <- sl_rd s (7 + Z.of_nat ol); retM (Some p) else retM None) h1 = (h1, Ok P)).
  { unfold P. replace (7 + Z.of_nat ol)%Z with (Z.of_nat (7 + ol)) by lia. rewrite zltb_nat.
    destruct (7 + ol <? slen s) eqn:E9; [|reflexivity].
    apply Nat.ltb_lt in E9. unfold bindM. rewrite (rd_spec h1 s) by (unfold zlen; lia).
    rewrite B1, Nat2Z.id. reflexivity. }
  unfold bindM at 1. rewrite HP.
  replace (7 + Z.of_nat ol + 1)%Z with (Z.of_nat (7 + ol + 1)) by lia. rewrite zltb_nat.
  change 0%Z with (Z.of_nat 0). rewrite zltb_nat.
  destruct (match P with Some 0%N => true | _ => false end && (0 <? ol)) eqn:EP.
  { exists h1, Err. split; [reflexivity|]. split; [exact X1|]. reflexivity. }
  destruct (7 + ol + 1 <? slen s) eqn:E10.
  2:{ exists h1. eexists. split; [reflexivity|]. split; [exact X1|]. reflexivity. }
  apply Nat.ltb_lt in E10.
  destruct (sub_ok s (Z.of_nat (7 + ol + 1)) (Z.of_nat (slen s))) as [s2 Hs2];
    [lia|destruct W as (_ & _ & ?); lia|].
  destruct (sub_spec h1 s (Z.of_nat (7 + ol + 1)) (Z.of_nat (slen s)) s2 W1 ltac:(unfold zlen; lia) Hs2) as (W2 & L2 & B2).
  unfold bindM at 1. rewrite Hs2.
  rewrite (mk_cpy_run h1 s2 _ (fun b => retM (mkHMAC hd P [HIData b])) W2) by (rewrite L2; lia).
  eexists. eexists. split; [reflexivity|]. split; [eapply extends_trans; [exact X1|eexists; reflexivity]|].
  unfold retM. cbn [omap bind]. unfold view_mac. cbn [h_hdr h_fport h_frm map view_item].
  rewrite view_fhdr_app by exact S1. do 3 f_equal.
  replace (Z.to_nat (Z.of_nat (slen s) - Z.of_nat (7 + ol + 1))) with (length (bytes_of h1 s2))
    by (rewrite bytes_of_length; auto; lia).
  rewrite bytes_of_new, B2, B1, !Nat2Z.id.
  f_equal. apply firstn_all2. rewrite skipn_length, L. lia.
Qed.

Theorem phy_refine : forall h s,
  wf_slice h s ->
  exists h' r, h_phy_unmarshal s h = (h', r) /\ extends h h' /\
               omap (view h') r = phy_dec_into zero_phy (bytes_of h s).
Proof.
  intros h s W. pose proof (bytes_of_length h s W) as L.
  unfold h_phy_unmarshal, phy_dec_into. rewrite L. unfold zlen.
  change 5%Z with (Z.of_nat 5). rewrite zltb_nat.
  destruct (slen s <? 5) eqn:E5.
  { exists h, Err. repeat split; auto using extends_refl. }
  apply Nat.ltb_ge in E5.
  unfold bindM at 1. rewrite (rd_spec h s 0) by (unfold zlen; lia). change (Z.to_nat 0) with 0.
  set (b0 := nth 0 (bytes_of h s) 0%N). set (mt := N.shiftr b0 5). set (mj := N.land b0 3).
  unfold bindM at 1. unfold loadM.
  destruct ((mt =? JoinRequest)%N || (mt =? RejoinRequest)%N) eqn:EJ.
  { (* join-request / rejoin-request: decoded into values by the frame model *)
    destruct (phy_unmarshal (bytes_of h s)) as [v| | |] eqn:EV; cbn [liftO bind];
      try (eexists; eexists; split; [reflexivity|]; split; [apply extends_refl|reflexivity]).
    eexists. eexists. split; [reflexivity|]. split; [apply extends_refl|].
    unfold retM. cbn [omap bind]. unfold view. cbn [h_mtype h_major h_pl h_mic view_payload].
    rewrite Nat2Z.id. reflexivity. }
  destruct (sub_ok s 1 (Z.of_nat (slen s) - 4)) as [body Hb]; [lia|destruct W as (_ & _ & ?); lia|].
  destruct (sub_spec h s 1 (Z.of_nat (slen s) - 4) body W ltac:(unfold zlen; lia) Hb) as (Wb & Lb & Bb).
  assert (Bb' : bytes_of h body = firstn (slen s - 5) (skipn 1 (bytes_of h s))).
  { rewrite Bb. change (Z.to_nat 1) with 1. f_equal. lia. }
  unfold bindM at 1. unfold bindM at 1. unfold sl_subM, liftM. rewrite Hb.
  destruct ((mt =? JoinAccept)%N || (mt =? Proprietary)%N) eqn:EA.
  - unfold h_data_unmarshal.
    unfold bindM at 1.
    rewrite (mk_cpy_run h body (slen body) (fun b => retM b) Wb eq_refl).
    eexists. eexists. split; [reflexivity|]. split; [eexists; reflexivity|].
    unfold retM. cbn [omap bind]. unfold view. cbn [h_mtype h_major h_pl h_mic view_payload].
    rewrite Nat2Z.id. do 2 f_equal.
    replace (slen body) with (length (bytes_of h body)) by (rewrite bytes_of_length; auto).
    rewrite bytes_of_new. now rewrite Bb'.
  - destruct (mac_refine h body Wb) as (h1 & r1 & R1 & X1 & V1).
    unfold bindM at 1. rewrite R1. rewrite Bb' in V1. rewrite <- V1.
    destruct r1 as [m| | |]; cbn [omap bind];
      try (eexists; eexists; split; [reflexivity|]; split; [exact X1|reflexivity]).
    eexists. eexists. split; [reflexivity|]. split; [exact X1|].
    unfold retM. cbn [omap bind]. unfold view. cbn [h_mtype h_major h_pl h_mic view_payload].
    rewrite Nat2Z.id. reflexivity.
Qed.

(* the fixed-size identifiers decode to the byte-reversed input whatever the overlap of input and receiver *)
Theorem ident_unmarshal_overlap : forall h recv data,
  wf_slice h recv -> wf_slice h data -> slen data = slen recv ->
  bytes_of (fst (h_ident_unmarshal recv data h)) recv = rev (bytes_of h data).
Proof.
  intros h recv data W Wd E.
  unfold h_ident_unmarshal. rewrite E, Nat.eqb_refl. cbn [negb].
  unfold bindM, loadM, sl_cpy_bytes, retM. cbn [fst].
  set (d := rev (bytes_of h data)).
  assert (Ld : length d = slen recv) by (unfold d; rewrite rev_length, bytes_of_length; auto).
  rewrite firstn_all2 by lia.
  set (h' := set_bytes h (sbuf recv) (soff recv) d).
  assert (W' : wf_slice h' recv).
  { destruct W as (W0 & W1 & W2). unfold wf_slice, h'. rewrite set_bytes_length, set_bytes_buffer_length. auto. }
  apply list_ext_nth; [rewrite bytes_of_length; auto|].
  intros i. destruct (Nat.lt_ge_cases i (slen recv)) as [Hi|Hi].
  - rewrite bytes_of_nth by auto. unfold h'. destruct W as (W0 & W1 & W2).
    rewrite set_bytes_nth_in by lia. f_equal. lia.
  - rewrite !nth_overflow; auto; [lia|rewrite bytes_of_length; auto].
Qed.
