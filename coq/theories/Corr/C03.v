(* Correspondence cases for C03: FRMPayload / FOpts encryption, exported
   functions and PHYPayload methods, against the model (LW.Sec.Encrypt) and the
   specification keystream (LW.Sec.EncryptSpec).
   bit 0: model differs from the observed behaviour;
   bit 1: the observed behaviour is neither the specified transform nor an
          error (in particular: success with the data left as it was), or it
          is a panic. *)
From Coq Require Import List NArith ZArith Bool.
From LW Require Export Base.Outcome Base.Bytes Crypto.AES Mac.Commands Mac.Stream Frame.Model
     Sec.MIC Sec.Encrypt Sec.EncryptSpec.
From LWGen Require Import RegistryGen.
Import ListNotations.
Open Scope N_scope.

Inductive methop := EncFOpts | DecFOpts | EncFRM | DecFRM | DecodeFOpts | DecodeFRM.

Inductive case :=
(* func EncryptFRMPayload(key, uplink, devAddr, fCnt, data) *)
| CFrm (key : list N) (uplink : bool) (da : list N) (fcnt : N) (data : list N) (o : outcome (list N))
(* func EncryptFOpts(key, aFCntDown, uplink, devAddr, fCnt, data) *)
| CFOpts (key : list N) (afcntdown uplink : bool) (da : list N) (fcnt : N) (data : list N) (o : outcome (list N))
(* a PHYPayload method applied to frame p; o = frame afterwards *)
| CMeth (op : methop) (key : list N) (p : phy) (o : outcome phy)
| CAesEnc (k b o : list N).

Definition oeqb := outcome_eqb bytes_eqb.
Definition phyeqb := outcome_eqb phy_eqb.
Definition reg := builtin_registry.

Definition model_meth (op : methop) (key : list N) (p : phy) : outcome phy :=
  match op with
  | EncFOpts => phy_encrypt_fopts key p
  | DecFOpts => phy_decrypt_fopts reg key p
  | EncFRM => phy_encrypt_frm key p
  | DecFRM => phy_decrypt_frm reg key p
  | DecodeFOpts => phy_decode_fopts reg p
  | DecodeFRM => phy_decode_frm reg p
  end.

(* what the specification says the frame is afterwards: the field replaced by the
   keystream transform of the bytes it carried (decoded into commands by the
   decrypt methods), everything else untouched; None = no transform is defined
   (not a data frame, unencodable field, FOpts longer than 15 bytes, undecodable) *)
Definition spec_fopts (decode : bool) (key : list N) (p : phy) : option phy :=
  match pl p with
  | PLMac m =>
    match fopts (hdr m) with
    | [] => Some p
    | _ =>
      match items_marshal (fopts (hdr m)) with
      | Ok b =>
        if (15 <? length b)%nat then None else
        let up := is_uplink (mtype p) in
        let e := spec_crypt_fopts key (uses_afcntdwn up (fport m)) up (devaddr (hdr m)) (fcnt (hdr m)) b in
        if decode then match decode_stream reg up e with Ok cs => Some (with_fopts p m cs) | _ => None end
        else Some (with_fopts p m [IData e])
      | _ => None
      end
    end
  | _ => None
  end.

Definition spec_frm (decode : bool) (key : list N) (p : phy) : option phy :=
  match pl p with
  | PLMac m =>
    match frm m with
    | [] => Some p
    | _ =>
      match frm_marshal (fport m) (frm m) with
      | Ok b =>
        let up := is_uplink (mtype p) in
        let e := spec_crypt_frm key up (devaddr (hdr m)) (fcnt (hdr m)) b in
        if decode && match fport m with Some 0 => true | _ => false end
        then match decode_stream reg up e with Ok cs => Some (with_frm p m cs) | _ => None end
        else Some (with_frm p m [IData e])
      | _ => None
      end
    end
  | _ => None
  end.

Definition spec_meth (op : methop) (key : list N) (p : phy) : option phy :=
  match op with
  | EncFOpts => spec_fopts false key p
  | DecFOpts => spec_fopts true key p
  | EncFRM => spec_frm false key p
  | DecFRM => spec_frm true key p
  | DecodeFOpts | DecodeFRM => None     (* no cryptographic transform: model comparison only *)
  end.

Definition transform_or_error {A} (eqb : A -> A -> bool) (spec : option A) (o : outcome A) : bool :=
  match o with
  | Ok q => match spec with Some e => eqb e q | None => false end
  | Err => true
  | _ => false
  end.

Definition check (c : case) : N :=
  match c with
  | CFrm key up da fc data o =>
    code (oeqb (encrypt_frm key up da fc data) o)
         (* the specification's block index is one byte: up to 255 blocks *)
         (if (nblocks (length data) <=? 255)%nat
          then oeqb o (Ok (spec_crypt_frm key up da fc data))
          else match o with Ok q => Nat.eqb (length q) (length data) | _ => false end)
  | CFOpts key a up da fc data o =>
    code (oeqb (encrypt_fopts key a up da fc data) o)
         (if (length data <=? 15)%nat then oeqb o (Ok (spec_crypt_fopts key a up da fc data)) else is_err o)
  | CMeth op key p o =>
    code (phyeqb (model_meth op key p) o)
         (match op with
          | DecodeFOpts => negb (is_panic o)
          | DecodeFRM =>
            (* mac-commands are carried in the FRMPayload only when FPort = 0: on a frame with a payload and
               another (or no) FPort the step is refused (the application octets stay application octets) *)
            match pl p with
            | PLMac m =>
              match frm m, fport m with
              | [], _ | _, Some 0 => negb (is_panic o)
              | _, _ => is_err o
              end
            | _ => negb (is_panic o)
            end
          | _ => transform_or_error phy_eqb (spec_meth op key p) o
          end)
  | CAesEnc k b o =>
    let rks := expand_key k in
    code (bytes_eqb (aes_encrypt_rk rks b) o) (bytes_eqb (aes_decrypt_rk rks o) b && Nat.eqb (length o) 16)
  end.

Definition run_cases := run_with check.
