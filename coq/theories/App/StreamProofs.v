(* Generic theorem about the Command / Commands code shared by the four
   packages: if every well-formed command round-trips when it is decoded
   from the window the stream decoder hands to it, then every well-formed
   stream round-trips, its length is the sum of the reported sizes, and the
   decoder loop never runs out of fuel. *)
From Coq Require Import List NArith ZArith Bool Lia.
From Coq Require Import ZifyN ZifyNat ZifyBool.
From LW Require Import Base.Outcome Base.Bytes App.Common App.Spec.
Import ListNotations.
Open Scope N_scope.

Lemma wf_stream_split {P} (inw : P -> bool) cid_of up_of has_payload greedy up (cs : list (N * option P)) :
  wf_stream inw cid_of up_of has_payload greedy up cs =
  forallb (wf_cmd inw cid_of up_of has_payload up) cs && negb (greedy_not_last greedy cs).
Proof.
  induction cs as [|c cs IH]; [reflexivity|].
  cbn [wf_stream forallb greedy_not_last]. rewrite IH.
  destruct (wf_cmd inw cid_of up_of has_payload up c); cbn [andb]; [|reflexivity].
  destruct cs as [|c' cs']; [reflexivity|].
  destruct (cmd_greedy greedy c); cbn [negb orb andb]; [now rewrite andb_false_r|reflexivity].
Qed.

Section Termination.
  Variable payload : Type.
  Variable psize : payload -> nat.
  Variable lookup : bool -> N -> option (list N -> outcome payload).
  Variable window : bool -> list N -> list N.
  Let cmd := Common.command payload.
  Let csize := @Common.cmd_size payload psize.
  Let sdec := @Common.cmds_dec payload psize lookup window.

  Lemma csize_pos (c : cmd) : (1 <= csize c)%nat.
  Proof. unfold csize, Common.cmd_size. destruct (snd c); lia. Qed.

  (* the decoder loop terminates on every input: each command consumes at
     least one byte (payload decoders themselves have no loops on fuel) *)
  Hypothesis dec_fuel_free : forall up cid d data, lookup up cid = Some d -> d data <> OutOfFuel.

  Lemma loop_no_fuel_exhaustion up : forall fuel data, (length data < fuel)%nat ->
    Common.cmds_dec_loop psize lookup window fuel up data <> OutOfFuel.
  Proof.
    induction fuel as [|fuel IH]; intros data Hf; [lia|].
    destruct data as [|b data]; [discriminate|].
    cbn [Common.cmds_dec_loop].
    destruct (Common.cmd_dec lookup up (window up (b :: data))) as [c| | |] eqn:Ec; cbn [bind]; try discriminate.
    - assert (Hpos := csize_pos c). unfold csize in Hpos.
      specialize (IH (skipn (Common.cmd_size psize c) (b :: data))).
      destruct (Common.cmds_dec_loop psize lookup window fuel up (skipn (Common.cmd_size psize c) (b :: data))) eqn:El;
        cbn [bind]; try discriminate.
      exfalso. apply IH; [|reflexivity].
      destruct (Common.cmd_size psize c) as [|n]; [lia|].
      cbn [skipn]. pose proof (skipn_length n data). simpl in Hf. lia.
    - exfalso. revert Ec. unfold Common.cmd_dec.
      destruct (window up (b :: data)) as [|cid rest]; [discriminate|].
      destruct (lookup up cid) as [d|] eqn:El; [|discriminate].
      pose proof (dec_fuel_free up cid d rest El) as Hd.
      destruct (d rest); cbn [bind]; try discriminate. congruence.
  Qed.

  Theorem stream_dec_terminates up data : sdec up data <> OutOfFuel.
  Proof. unfold sdec, Common.cmds_dec. apply loop_no_fuel_exhaustion. lia. Qed.
End Termination.

Section Generic.
  Variable payload : Type.
  Variable enc : payload -> outcome (list N).
  Variable psize : payload -> nat.
  Variable lookup : bool -> N -> option (list N -> outcome payload).
  Variable window : bool -> list N -> list N.
  Variable inw : payload -> bool.
  Variable cid_of : payload -> N.
  Variable up_of : payload -> bool.
  Variable has_payload : bool -> N -> bool.
  Variable greedy : payload -> bool.
  Variable spec : payload -> list group.

  Let cmd := Common.command payload.
  Let cenc := @Common.cmd_enc payload enc.
  Let csize := @Common.cmd_size payload psize.
  Let cdec := @Common.cmd_dec payload lookup.
  Let senc := @Common.cmds_enc payload enc.
  Let sdec := @Common.cmds_dec payload psize lookup window.
  Let wfc := @wf_cmd payload inw cid_of up_of has_payload.
  Let wfs := @wf_stream payload inw cid_of up_of has_payload greedy.
  Let sbytes := @spec_stream_bytes payload spec.

  (* per-command round trip, through the window, with the wire layout *)
  Hypothesis cmd_rt : forall up (c : cmd) rest,
    wfc up c = true -> (cmd_greedy greedy c = true -> rest = []) ->
    exists bs, cenc c = Ok bs /\ length bs = csize c /\ bs = spec_cmd_bytes spec c
               /\ cdec up (window up (bs ++ rest)) = Ok c.

  Lemma stream_rt_fuel up (cs : list cmd) :
    wfs up cs = true ->
    exists bs, senc cs = Ok bs
      /\ length bs = fold_right Nat.add O (map csize cs)
      /\ bs = sbytes cs
      /\ forall fuel, (length bs < fuel)%nat ->
           Common.cmds_dec_loop psize lookup window fuel up bs = Ok cs.
  Proof.
    unfold wfs, senc, sbytes, csize.
    induction cs as [|c cs IH]; intros Hwf.
    - exists []. repeat split. intros [|f] Hf; [simpl in Hf; lia|reflexivity].
    - cbn [wf_stream] in Hwf.
      apply andb_true_iff in Hwf as [Hwf Hs]. apply andb_true_iff in Hwf as [Hc Hg].
      destruct (IH Hs) as (r & Er & Lr & Sr & Dr).
      assert (Hrest : cmd_greedy greedy c = true -> r = []).
      { intros G. destruct cs as [|c' cs'].
        - cbn in Er. now inversion Er.
        - rewrite G in Hg. discriminate. }
      destruct (cmd_rt up c r Hc Hrest) as (b & Eb & Lb & Sb & Db).
      unfold cenc, csize, cdec in Eb, Lb, Db.
      exists (b ++ r). split; [|split; [|split]].
      + cbn [Common.cmds_enc]. rewrite Eb. cbn [bind]. rewrite Er. reflexivity.
      + rewrite app_length, Lb, Lr. reflexivity.
      + unfold spec_stream_bytes. cbn [flat_map]. rewrite Sb.
        unfold spec_stream_bytes in Sr. rewrite Sr. reflexivity.
      + intros fuel Hf.
        assert (Hpos := csize_pos payload psize c).
        destruct b as [|b0 b']; [simpl in Lb; lia|].
        destruct fuel as [|fuel]; [lia|].
        change ((b0 :: b') ++ r) with (b0 :: (b' ++ r)).
        cbn [Common.cmds_dec_loop].
        change (b0 :: (b' ++ r)) with ((b0 :: b') ++ r).
        rewrite Db. cbn [bind].
        rewrite <- Lb. rewrite drop_app_length.
        rewrite Dr; [reflexivity|].
        rewrite app_length in Hf. simpl in Hf. lia.
  Qed.

  Theorem stream_roundtrip up (cs : list cmd) :
    wfs up cs = true ->
    exists bs, senc cs = Ok bs
      /\ length bs = fold_right Nat.add O (map csize cs)
      /\ bs = sbytes cs
      /\ sdec up bs = Ok cs.
  Proof.
    intros H. destruct (stream_rt_fuel up cs H) as (bs & E & L & S & D).
    exists bs. repeat split; auto. unfold sdec, Common.cmds_dec. apply D. lia.
  Qed.

End Generic.
