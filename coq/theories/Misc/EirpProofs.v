(* Proofs of the EIRP clauses of C20.  The loop of GetTXParamSetupEIRPIndex is
   characterised for ANY strictly increasing table of at most 256 entries; the
   dumped table enters through computed obligations only. *)
From Coq Require Import List NArith ZArith QArith Bool Lia Sorted ZifyN ZifyNat ZifyBool.
From LW Require Import Base.Outcome Misc.Eirp.
From LWGen Require Import EirpGen.
Import ListNotations.

Lemma qlt_iff a b : qlt a b = true <-> a < b.
Proof.
  unfold qlt. rewrite negb_true_iff. split; intros H.
  - apply Qnot_le_lt. intros Hle. apply Qle_bool_iff in Hle. congruence.
  - destruct (Qle_bool b a) eqn:E; [|reflexivity]. apply Qle_bool_iff in E.
    exfalso. exact (Qlt_not_le _ _ H E).
Qed.

Lemma qlt_false_iff a b : qlt a b = false <-> b <= a.
Proof.
  unfold qlt. rewrite negb_false_iff. apply Qle_bool_iff.
Qed.

(* number of leading entries that do not exceed p *)
Fixpoint lead (p : Q) (tbl : list Q) : nat :=
  match tbl with
  | [] => O
  | e :: r => if qlt p e then O else S (lead p r)
  end.

Lemma loop_lead p : forall tbl i out,
  eirp_loop tbl i out p =
  match lead p tbl with O => out | S k => ((i + N.of_nat k) mod 256)%N end.
Proof.
  induction tbl as [|e r IH]; intros i out; cbn [eirp_loop lead]; [reflexivity|].
  destruct (qlt p e); [reflexivity|].
  rewrite IH. destruct (lead p r) as [|k].
  - f_equal. lia.
  - f_equal. lia.
Qed.

Lemma lead_le_length p tbl : (lead p tbl <= length tbl)%nat.
Proof. induction tbl as [|e r IH]; cbn [lead length]; [lia|]. destruct (qlt p e); lia. Qed.

Lemma lead_prefix p : forall tbl j w, (j < lead p tbl)%nat -> nth_error tbl j = Some w -> w <= p.
Proof.
  induction tbl as [|e r IH]; intros j w Hj Hn; cbn [lead] in Hj; [lia|].
  destruct (qlt p e) eqn:E; [lia|]. apply qlt_false_iff in E.
  destruct j as [|j]; cbn in Hn.
  - inversion Hn; subst. exact E.
  - apply (IH j w); [lia|exact Hn].
Qed.

Lemma sorted_all_gt p e r : StronglySorted Qlt (e :: r) -> p < e -> Forall (fun w => p < w) (e :: r).
Proof.
  intros HS Hp. inversion HS as [|? ? _ HF]; subst. constructor; [exact Hp|].
  eapply Forall_impl; [|exact HF]. intros a Ha. cbn in Ha. eapply Qlt_trans; eassumption.
Qed.

Lemma lead_suffix p : forall tbl, StronglySorted Qlt tbl ->
  forall j w, (lead p tbl <= j)%nat -> nth_error tbl j = Some w -> p < w.
Proof.
  induction tbl as [|e r IH]; intros HS j w Hj Hn; [destruct j; discriminate|].
  cbn [lead] in Hj. destruct (qlt p e) eqn:E.
  - apply qlt_iff in E. pose proof (sorted_all_gt p e r HS E) as HF.
    rewrite Forall_forall in HF. apply HF. eapply nth_error_In; eassumption.
  - destruct j as [|j]; [lia|]. cbn in Hn. inversion HS; subst.
    apply (IH ltac:(assumption) j w); [lia|exact Hn].
Qed.

Lemma sorted_nth_le : forall tbl, StronglySorted Qlt tbl ->
  forall j1 j2 a b, (j1 <= j2)%nat -> nth_error tbl j1 = Some a -> nth_error tbl j2 = Some b -> a <= b.
Proof.
  induction tbl as [|e r IH]; intros HS j1 j2 a b Hj H1 H2; [destruct j1; discriminate|].
  inversion HS as [|? ? HS' HF]; subst.
  destruct j1 as [|j1], j2 as [|j2]; cbn in H1, H2; try lia.
  - inversion H1; inversion H2; subst. apply Qle_refl.
  - inversion H1; subst. rewrite Forall_forall in HF. apply Qlt_le_weak, HF.
    eapply nth_error_In; eassumption.
  - apply (IH HS' j1 j2); [lia|assumption|assumption].
Qed.

(* what the index loop returns, for a sorted table of at most 256 entries *)
Theorem index_of_spec tbl p h r : tbl = h :: r -> StronglySorted Qlt tbl -> (length tbl <= 256)%nat ->
  let i := eirp_index_of tbl p in
  (p < h -> i = 0%N) /\
  (h <= p -> exists v, eirp_value_of tbl i = Ok v /\ nth_error tbl (N.to_nat i) = Some v /\ v <= p /\
              (forall w, In w tbl -> w <= p -> w <= v) /\
              (forall w, nth_error tbl (S (N.to_nat i)) = Some w -> p < w)).
Proof.
  intros Ht HS Hlen. cbv zeta. unfold eirp_index_of. rewrite loop_lead. split.
  - intros Hp. subst tbl. cbn [lead]. apply qlt_iff in Hp. now rewrite Hp.
  - intros Hp. pose proof (lead_le_length p tbl) as Hl.
    destruct (lead p tbl) as [|k] eqn:El.
    { subst tbl. cbn [lead] in El. destruct (qlt p h) eqn:E; [|discriminate].
      apply qlt_iff in E. exfalso. exact (Qlt_not_le _ _ E Hp). }
    replace ((0 + N.of_nat k) mod 256)%N with (N.of_nat k) by (rewrite N.mod_small; lia).
    rewrite Nat2N.id.
    destruct (nth_error tbl k) as [v|] eqn:Ev; [|apply nth_error_None in Ev; lia].
    exists v. repeat split.
    + unfold eirp_value_of. replace (Z.of_nat (length tbl) - 1 <? Z.of_N (N.of_nat k))%Z with false by lia.
      rewrite Nat2N.id, Ev. reflexivity.
    + apply (lead_prefix p tbl k v); [lia|exact Ev].
    + intros w Hin Hw. apply In_nth_error in Hin as [j Hj].
      destruct (Nat.le_gt_cases j k) as [Hjk|Hjk].
      * eapply sorted_nth_le; eauto.
      * exfalso. apply (Qlt_not_le p w); [|exact Hw].
        apply (lead_suffix p tbl HS j w); [lia|exact Hj].
    + intros w Hn. apply (lead_suffix p tbl HS (S k) w); [lia|exact Hn].
Qed.

(* ---- obligations on the dumped table ---- *)
Lemma eirp_table_is_lorawan : eirp_table = lorawan_eirp_table.
Proof. reflexivity. Qed.

Lemma lorawan_table_sorted : StronglySorted Qlt lorawan_eirp_table.
Proof. unfold lorawan_eirp_table. repeat (constructor; [|repeat constructor; reflexivity]). constructor. Qed.

Theorem eirp_floor p : 8 <= p ->
  exists v, eirp_value (eirp_index p) = Ok v /\ In v lorawan_eirp_table /\ v <= p /\
            (forall w, In w lorawan_eirp_table -> w <= p -> w <= v) /\
            (forall w, nth_error lorawan_eirp_table (S (N.to_nat (eirp_index p))) = Some w -> p < w).
Proof.
  intros Hp. unfold eirp_value, eirp_index. rewrite eirp_table_is_lorawan.
  destruct (index_of_spec lorawan_eirp_table p 8 (tl lorawan_eirp_table) eq_refl lorawan_table_sorted) as [_ H];
    [cbn; lia|].
  destruct (H Hp) as (v & H1 & H2 & H3 & H4 & H5). exists v. repeat split; auto.
  eapply nth_error_In; eassumption.
Qed.

Theorem eirp_below p : p < 8 -> eirp_index p = 0%N /\ eirp_value (eirp_index p) = Ok 8.
Proof.
  intros Hp. unfold eirp_value, eirp_index. rewrite eirp_table_is_lorawan.
  destruct (index_of_spec lorawan_eirp_table p 8 (tl lorawan_eirp_table) eq_refl lorawan_table_sorted) as [H _];
    [cbn; lia|].
  cbv zeta in H. rewrite (H Hp). split; reflexivity.
Qed.

(* all 256 index bytes: the first 16 decode to the LoRaWAN values, the rest are rejected *)
Theorem eirp_decode_all idx : (idx < 256)%N ->
  eirp_value idx = match nth_error lorawan_eirp_table (N.to_nat idx) with Some v => Ok v | None => Err end.
Proof.
  intros H. unfold eirp_value. rewrite eirp_table_is_lorawan. unfold eirp_value_of.
  destruct (Z.ltb_spec (Z.of_nat (length lorawan_eirp_table) - 1) (Z.of_N idx)) as [Hlt|Hge].
  - destruct (nth_error lorawan_eirp_table (N.to_nat idx)) eqn:E; [|reflexivity].
    assert (N.to_nat idx < length lorawan_eirp_table)%nat by (apply nth_error_Some; congruence). lia.
  - destruct (nth_error lorawan_eirp_table (N.to_nat idx)) eqn:E; [reflexivity|].
    apply nth_error_None in E. lia.
Qed.
