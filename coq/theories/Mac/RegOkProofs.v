(* every registry reachable from the live built-in one by any history of
   RegisterProprietaryMACCommand calls carries, for each entry, the encoded
   length of its payload kind *)
From Coq Require Import List NArith ZArith Bool Lia.
From LW Require Import Base.Outcome Base.Bytes Mac.Commands Mac.Spec Mac.Stream Mac.RegistryProofs Mac.StreamProofs.
From LWGen Require Import RegistryGen.
Import ListNotations.
Open Scope N_scope.

Lemma builtin_positive :
  forallb (fun e : (bool * N) * (Z * kind) => (0 <? fst (snd e))%Z && negb (kind_eqb (snd (snd e)) KProprietary)) builtin_registry = true.
Proof. vm_compute. reflexivity. Qed.

Lemma reg_ok_builtin : reg_ok builtin_registry.
Proof.
  intros up cid sz k H. pose proof (registry_complete up cid sz k H) as (_ & _ & Hs).
  apply reg_lookup_in in H. pose proof builtin_positive as P. rewrite forallb_forall in P.
  specialize (P _ H). cbn in P. apply andb_true_iff in P as [P _]. split; [lia|auto].
Qed.

Lemma reg_ok_register r up cid sz : reg_ok r -> reg_ok (fst (register r up cid sz)).
Proof.
  intros Hr. unfold register.
  destruct (negb ((128 <=? cid) && (cid <=? 255))); [exact Hr|].
  destruct (sz <? 0)%Z eqn:E1; [exact Hr|].
  destruct (sz =? 0)%Z eqn:E2; [exact Hr|].
  cbn [fst]. intros u c s k H. cbn [reg_lookup] in H.
  destruct (Bool.eqb up u && (cid =? c)).
  - injection H as <- <-. split; [lia|congruence].
  - now apply (Hr u c s k).
Qed.

Theorem reg_ok_history h : reg_ok (register_all builtin_registry h).
Proof.
  unfold register_all. generalize reg_ok_builtin. generalize builtin_registry.
  induction h as [|[[u c] sz] h IH]; intros r Hr; cbn [fold_left]; [exact Hr|].
  apply IH. now apply reg_ok_register.
Qed.
