(* Correspondence cases for C02: data-frame MIC set / validate against the model
   (LW.Sec.MIC) and against the specification value (LW.Sec.MICSpec).
   bit 0: model differs from the observed behaviour;
   bit 1: the observed behaviour is not the specified one: the MIC set is not
          the specification's MIC of the frame, or a validate result is not
          (carried MIC = specification MIC), or a frame without a marshalable
          *MACPayload did not give an error; for octets as received: the verdict
          is not (carried MIC = specification MIC over those octets). *)
From Coq Require Import List NArith ZArith Bool.
From LW Require Export Base.Outcome Base.Bytes Crypto.AES Crypto.CMAC Mac.Commands Mac.Stream Frame.Model
     Sec.MIC Sec.MICSpec Sec.Encrypt Sec.EndToEnd Sec.WireMIC.
From LWGen Require Import RegistryGen.
Import ListNotations.
Open Scope N_scope.

Inductive case :=
(* frame p (carrying some MIC); MIC computed by SetUplinkDataMIC on a copy; ValidateUplinkDataMIC;
   ValidateUplinkDataMICF fKey *)
| CUp (ver : macver) (conf txdr txch : N) (fkey skey : list N) (p : phy)
      (o_set : outcome (list N)) (o_val o_valf : outcome bool)
| CDown (ver : macver) (conf : N) (skey : list N) (p : phy) (o_set : outcome (list N)) (o_val : outcome bool)
(* octets as received: UnmarshalBinary; FCnt := full; [DecodeFOptsToMACCommands;] Validate*DataMIC by role [up] *)
| CWire (decode_first : bool) (ver : macver) (up : bool) (conf txdr txch : N) (fkey skey : list N) (full : N)
        (bs : list N) (o : outcome bool)
(* the primitives underneath, against crypto/aes and jacobsa/crypto/cmac *)
| CCmac (k m o : list N)
| CAesEnc (k b o : list N).

Definition oeqb := outcome_eqb bytes_eqb.
Definition obeqb := outcome_eqb Bool.eqb.
Definition sv (v : macver) : version := match v with LoRaWAN1_0 => V1_0 | LoRaWAN1_1 => V1_1 end.

(* the specification's inputs read off the frame: ACK bit, DevAddr, 32-bit FCnt, msg = MHDR | MACPayload *)
Definition spec_inputs (p : phy) : option (bool * list N * N * list N) :=
  match pl p with
  | PLMac m =>
    match mic_bytes p m with
    | Ok msg => Some (ack (fc (hdr m)), devaddr (hdr m), fcnt (hdr m), msg)
    | _ => None
    end
  | _ => None
  end.

Definition check (c : case) : N :=
  match c with
  | CUp ver conf txdr txch fkey skey p o_set o_val o_valf =>
    let m := calc_up_mic ver conf txdr txch fkey skey p in
    let mf := calc_up_mic LoRaWAN1_1 0 0 0 fkey fkey p in
    code (oeqb m o_set
          && obeqb (do x <- m; Ok (bytes_eqb (mic p) x)) o_val
          && obeqb (do x <- mf; Ok (bytes_eqb (skipn 2 (mic p)) (skipn 2 x))) o_valf)
         (match spec_inputs p with
          | Some (a, da, fc, msg) =>
            (* the specification's one-byte len(msg) field limits msg to 255 bytes: no claim beyond *)
            if (255 <? length msg)%nat then is_ok o_set && is_ok o_val && is_ok o_valf else
            let s := spec_up_mic (sv ver) fkey skey conf txdr txch a da fc msg in
            oeqb o_set (Ok s) && obeqb o_val (Ok (bytes_eqb (mic p) s))
            && obeqb o_valf (Ok (bytes_eqb (skipn 2 (mic p)) (spec_cmacF_half fkey da fc msg)))
          | None => is_err o_set && is_err o_val && is_err o_valf
          end)
  | CDown ver conf skey p o_set o_val =>
    let m := calc_down_mic ver conf skey p in
    code (oeqb m o_set && obeqb (do x <- m; Ok (bytes_eqb (mic p) x)) o_val)
         (match spec_inputs p with
          | Some (a, da, fc, msg) =>
            if (255 <? length msg)%nat then is_ok o_set && is_ok o_val else
            let s := spec_down_mic (sv ver) skey conf a da fc msg in
            oeqb o_set (Ok s) && obeqb o_val (Ok (bytes_eqb (mic p) s))
          | None => is_err o_set && is_err o_val
          end)
  | CWire dec ver up conf txdr txch fkey skey full bs o =>
    code (obeqb (wire_validate_data dec builtin_registry ver up conf txdr txch fkey skey full bs) o)
         (* the verdict is (carried MIC = specification MIC over the octets as received), for a receiver counter that
            extends the 16 bits on the wire and a frame of at most 255 octets; an error is a refusal *)
         (match o with
          | Ok b =>
            match wire_spec_data ver up conf txdr txch fkey skey full bs with
            | Some (carried, specified, wire) =>
              if (full mod 65536 =? wire) && (length bs - 4 <? 256)%nat
              then Bool.eqb b (bytes_eqb carried specified) else true
            | None => false
            end
          | Err => true
          | _ => false
          end)
  | CCmac k m o => code (bytes_eqb (cmac k m) o) (Nat.eqb (length o) 16 && bytes_ok o)
  | CAesEnc k b o =>
    let rks := expand_key k in
    code (bytes_eqb (aes_encrypt_rk rks b) o) (bytes_eqb (aes_decrypt_rk rks o) b && Nat.eqb (length o) 16)
  end.

Definition run_cases := run_with check.

(* the check evaluates the model's definitions of the wrappers *)
Example check_uses_validate_up ver conf txdr txch fkey skey p :
  validate_up_mic ver conf txdr txch fkey skey p
  = (do x <- calc_up_mic ver conf txdr txch fkey skey p; Ok (bytes_eqb (mic p) x)).
Proof. reflexivity. Qed.
Example check_uses_validate_micf fkey p :
  validate_up_micf fkey p
  = (do x <- calc_up_mic LoRaWAN1_1 0 0 0 fkey fkey p; Ok (bytes_eqb (skipn 2 (mic p)) (skipn 2 x))).
Proof. reflexivity. Qed.
Example check_uses_validate_down ver conf skey p :
  validate_down_mic ver conf skey p = (do x <- calc_down_mic ver conf skey p; Ok (bytes_eqb (mic p) x)).
Proof. reflexivity. Qed.
