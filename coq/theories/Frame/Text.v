(* PHYPayload.MarshalText / UnmarshalText (phypayload.go:556-571): base64 (StdEncoding) of the
   binary form. *)
From Coq Require Import List NArith Bool.
From LW Require Import Base.Outcome Base.Bytes Mac.Commands Mac.Stream Frame.Model Text.Base64.
Import ListNotations.
Open Scope N_scope.

Definition phy_marshal_text (p : phy) : outcome (list N) :=
  do b <- phy_marshal p; Ok (b64_encode b).

Definition phy_unmarshal_text (t : list N) : outcome phy :=
  match b64_decode t with
  | Some b => phy_unmarshal b
  | None => Err
  end.
