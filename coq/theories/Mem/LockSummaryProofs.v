(* C10 (M3): obligations on the lock summary regenerated from /repo by
   harness/cmd/dump/locks.go on every run.  A function that accesses the
   registry without the right lock, or drops an unlock, makes [summary_ok]
   stop checking; a package-level variable that some function starts to write
   makes [shared_state_ok] stop checking. *)
From Coq Require Import List String Bool.
From LW Require Import Mem.Locks Mem.LocksProofs.
From LWGen Require Import LockSummaryGen.
Import ListNotations.
Open Scope string_scope.

Lemma summary_ok : all_well_locked lock_summary = true.
Proof. vm_compute. reflexivity. Qed.

(* the only package-level variable of the repository that any function assigns is the registry, and
   every function assigning it is in the lock summary; no initialiser reads the registry *)
Definition shared_state_check : bool :=
  forallb (fun e : string * string * list string =>
             let '(pkg, v, fs) := e in
             String.eqb pkg "." && String.eqb v "macPayloadRegistry" &&
             forallb (fun f => existsb (fun s => String.eqb (fst s) f) lock_summary) fs)
          global_writers
  && match registry_readers_in_initialisers with [] => true | _ => false end
  (* the only package-level synchronisation object / pool / atomic is the registry's mutex *)
  && forallb (fun e : string * string => String.eqb (fst e) "." && String.eqb (snd e) "macPayloadMutex") sync_globals.

Lemma shared_state_ok : shared_state_check = true.
Proof. vm_compute. reflexivity. Qed.

Theorem registry_race_free : forall ps,
  Forall (fun p => In p (map snd lock_summary)) ps ->
  forall s, reach (init ps) s -> ~ race s.
Proof. exact (summary_race_free lock_summary summary_ok). Qed.
