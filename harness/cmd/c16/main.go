// Correspondence harness for C16: JSON bodies built here (not by backend's marshaler) are sent
// through the real joinserver.NewHandler(config) with net/http/httptest.  The configuration
// callbacks are backed by a table that is printed into every case.  Observables: HTTP status,
// result code, PHYPayload, key envelopes (label + bytes), Sender / Receiver / TransactionID,
// Lifetime, HNetID.  Coq evaluates the model on (table, request), compares it with the observed
// answer, and runs the independent device / server oracle (Backend/Device.v) on the OBSERVED answer.
package main

import (
	"encoding/hex"
	"fmt"
	"log"
	"net/http"
	"os"
	"strings"
	"time"

	"verifharness/internal/cases"
	"verifharness/internal/cq"
)

type G struct {
	s *cases.Set
	r *cq.RNG
}

const (
	kJoin = iota
	kRejoin0
	kRejoin1
	kRejoin2
)

// act describes one conformant activation request and the world around it.
type act struct {
	dev       device
	joinNonce int
	netID     [3]byte
	devAddr   [4]byte
	dls       byte
	rxDelay   int64
	cfl       []byte // nil or 16 bytes
	kind      int
	devNonce  uint16
	txid      uint32
	nsKEK     []byte // nil: no KEK under the NetID label
	asLabel   string
	asKEK     []byte
	sKey      []byte // SNwkSIntKey of the running session (rejoin 0/2 MIC)
	receiver  string // non-empty: ReceiverID text (an EUI64 other than the JoinEUI of the frame, audit finding 3)
	padMethod int    // with padTotal > 0: the request document is padded to that many bytes (req.padTo)
	padTotal  int
}

func (g *G) hexText(b []byte, allow0x bool) string {
	s := hex.EncodeToString(b)
	switch g.r.Intn(6) {
	case 0:
		s = strings.ToUpper(s)
	case 1:
		if allow0x {
			s = "0x" + s
		}
	}
	return s
}

func (g *G) cflist(kind int) []byte {
	switch kind {
	case 0:
		return nil
	case 1: // type 0: five frequencies, any 24-bit values
		b := g.r.Bytes(16)
		b[15] = 0
		return b
	case 2: // type 1: channel masks, RFU bytes zero
		b := g.r.Bytes(16)
		n := g.r.Intn(7) // number of 16-bit masks kept
		for i := 2 * n; i < 15; i++ {
			b[i] = 0
		}
		b[12], b[13], b[14] = 0, 0, 0
		b[15] = 1
		return b
	default: // the two frequencies of the repository's test-suite
		b := make([]byte, 16)
		copy(b, []byte{0x18, 0x8e, 0x84, 0xe8, 0x95, 0x84})
		return b
	}
}

func (g *G) randomAct(kind int) act {
	r := g.r
	a := act{kind: kind}
	copy(a.dev.devEUI[:], r.Bytes(8))
	copy(a.dev.joinEUI[:], r.Bytes(8))
	copy(a.dev.nwkKey[:], r.Bytes(16))
	copy(a.dev.appKey[:], r.Bytes(16))
	switch r.Intn(6) {
	case 0:
		a.joinNonce = 0
	case 1:
		a.joinNonce = 1<<24 - 1
	default:
		a.joinNonce = r.Intn(1 << 24)
	}
	copy(a.netID[:], r.Bytes(3))
	copy(a.devAddr[:], r.Bytes(4))
	a.dls = r.Byte()
	if kind != kJoin {
		a.dls |= 0x80 // a rejoin-request exists only in 1.1: the NS negotiates 1.1
	}
	a.rxDelay = int64(r.Intn(16))
	a.cfl = g.cflist(r.Intn(4))
	a.devNonce = uint16(r.U64())
	switch r.Intn(8) {
	case 0:
		a.devNonce = 0
	case 1:
		a.devNonce = 0xffff
	}
	a.txid = r.U32()
	switch r.Intn(8) {
	case 0:
		a.txid = 0
	case 1:
		a.txid = 0xffffffff
	}
	if r.Bool() {
		a.nsKEK = r.Bytes(16)
	}
	if r.Bool() {
		a.asLabel = []string{"lora-app-server", "as-1", "AS/kek#2"}[r.Intn(3)]
		if r.Intn(4) != 0 {
			a.asKEK = r.Bytes(16)
		}
	}
	a.sKey = r.Bytes(16)
	return a
}

func (a *act) netIDText() string { return hex.EncodeToString(a.netID[:]) }

func (a *act) table() *table {
	t := &table{devices: []devEntry{{eui: a.dev.devEUI, kind: found, nwk: a.dev.nwkKey, app: a.dev.appKey, joinNonce: a.joinNonce}}}
	if a.nsKEK != nil {
		t.keks = append(t.keks, kekEntry{label: a.netIDText(), kek: a.nsKEK})
	}
	if a.asLabel != "" {
		t.aslabels = append(t.aslabels, asEntry{eui: a.dev.devEUI, label: a.asLabel})
		if a.asKEK != nil {
			t.keks = append(t.keks, kekEntry{label: a.asLabel, kek: a.asKEK})
		}
	}
	// per-device AS-KEK labels: the all-zero DevEUI and the decoy device have labels and KEKs of their own, so the
	// argument the handler passes to GetASKEKLabelByDevEUIFunc matters
	dec := decoyEUI(a.dev.devEUI)
	t.aslabels = append(t.aslabels, asEntry{eui: dec, label: "as-decoy"}, asEntry{eui: [8]byte{}, label: "as-zero"})
	t.keks = append(t.keks, kekEntry{label: "as-decoy", kek: append(append([]byte{}, dec[:]...), dec[:]...)},
		kekEntry{label: "as-zero", kek: []byte("zero-eui-kek-16b")})
	return t
}

func (a *act) frame() []byte {
	switch a.kind {
	case kJoin:
		return a.dev.joinRequestFrame(a.devNonce)
	case kRejoin0:
		return a.dev.rejoin02Frame(0, a.netID, a.devNonce, a.sKey)
	case kRejoin2:
		return a.dev.rejoin02Frame(2, a.netID, a.devNonce, a.sKey)
	default:
		return a.dev.rejoin1Frame(a.devNonce)
	}
}

func (a *act) reqtype() byte {
	return []byte{0xff, 0, 1, 2}[a.kind]
}

func (g *G) request(a *act) *req {
	r := &req{sender: a.netIDText(), receiver: g.hexText(a.dev.joinEUI[:], true), txid: a.txid, mtype: "JoinReq", rxDelay: a.rxDelay,
		omit: map[string]bool{}, null: map[string]bool{}}
	if a.kind != kJoin {
		r.mtype = "RejoinReq"
	}
	r.phy = sp(g.hexText(a.frame(), true))
	r.devEUI = sp(g.hexText(a.dev.devEUI[:], true))
	r.devAddr = sp(g.hexText(a.devAddr[:], true))
	r.dls = sp(g.hexText([]byte{a.dls}, false))
	if a.cfl != nil {
		r.cfl = sp(g.hexText(a.cfl, true))
	} else if g.r.Intn(3) == 0 {
		r.cfl = sp("")
	} else if g.r.Intn(3) == 0 {
		r.null["CFList"] = true
	}
	if g.r.Intn(4) == 0 {
		r.senderToken = sp(g.hexText(g.r.Bytes(g.r.Intn(5)), true))
	}
	if a.rxDelay == 0 && g.r.Bool() {
		r.omit["RxDelay"] = true
	}
	if a.txid == 0 && g.r.Bool() {
		r.omit["TransactionID"] = true
	}
	if a.receiver != "" {
		r.receiver = a.receiver
	}
	if a.padTotal > 0 {
		r.padTo(a.padMethod, a.padTotal)
	}
	return r
}

func (a *act) intent() string {
	cfl := cq.None
	if a.cfl != nil {
		cfl = cq.Some(cq.Bytes(a.cfl))
	}
	return fmt.Sprintf("(IActivate (mkDevice %s %s %s %s) %d %d %d %s %s %d %d %s)", cq.Bytes(a.dev.devEUI[:]), cq.Bytes(a.dev.joinEUI[:]),
		cq.Bytes(a.dev.nwkKey[:]), cq.Bytes(a.dev.appKey[:]), a.reqtype(), a.devNonce, a.joinNonce, cq.Bytes(a.netID[:]), cq.Bytes(a.devAddr[:]),
		a.dls, a.rxDelay, cfl)
}

func (a *act) describe() string {
	k := []string{"join", "rejoin:type=0", "rejoin:type=1", "rejoin:type=2"}[a.kind]
	cf := "none"
	if a.cfl != nil {
		cf = fmt.Sprintf("type%d", a.cfl[15])
	}
	kek := ""
	if a.nsKEK != nil {
		kek += "ns"
	}
	if a.asLabel != "" {
		kek += "+aslabel"
	}
	if a.asKEK != nil {
		kek += "+askek"
	}
	if kek == "" {
		kek = "none"
	}
	return fmt.Sprintf("%s:optneg=%v:cflist=%s:kek=%s:dev=%x:nonce=%d", k, a.dls&0x80 != 0, cf, kek, a.dev.devEUI, a.devNonce)
}

// run sends one request through a fresh handler over the table and records the case(s).
func (g *G) run(t *table, r *req, intent, kind, key string, extra map[string]interface{}) answer {
	return g.runOn(t.handler(), t, r, intent, kind, key, extra)
}

// runOn: the same through an existing handler (histories: the handler, or the whole process, has
// served other requests before; the model is a function of (table, request) only, so any dependence
// on the past shows as a mismatch)
func (g *G) runOn(h http.Handler, t *table, r *req, intent, kind, key string, extra map[string]interface{}) answer {
	body := r.body()
	ans := send(h, body)
	rp := map[string]interface{}{"api": "joinserver.NewHandler(config).ServeHTTP (POST body)", "body": r.replayBody(body), "config": t.replay(), "observed": ans.summary(), "intent": intent}
	for k, v := range extra {
		rp[k] = v
	}
	g.configIntact(t, key, rp)
	if ans.garbage != "" && !ans.panicked {
		g.s.Fail(cases.GoFail{Key: "answer-shape:" + key, What: "the answer is not a well-formed Backend Interfaces answer: " + ans.garbage, Replay: rp})
	} else if !ans.panicked && !ans.bare && ans.proto != "1.0" {
		g.s.Fail(cases.GoFail{Key: "answer-shape:" + key, What: "ProtocolVersion of the answer is not 1.0", Replay: rp})
	}
	g.s.Add(cases.Case{Term: fmt.Sprintf("CReq %s %s %s %s PAll", t.coq(), r.coq(), ans.coq(), intent), Key: key, Kind: kind, Nontrivial: true, Replay: rp})
	return ans
}

// configIntact: the handler must leave the values its callbacks returned alone (they are the key
// store's own memory); a later request would otherwise be served from a corrupted configuration.
func (g *G) configIntact(t *table, key string, rp map[string]interface{}) {
	if m := t.mutated(); m != "" {
		g.s.Fail(cases.GoFail{Key: "config-mutated:" + key, What: "the handler wrote into the slice GetKEKByLabelFunc returned: " + m, Replay: rp})
	}
}

// activation: a conformant request.  A rejoin with OptNeg set is split into two cases so that the
// recorded finding (session keys) has its own narrow key and every other clause keeps its own.
func (g *G) activation(a *act, kind string) {
	t := a.table()
	g.activationOn(t.handler(), t, a, kind, "", nil)
}

func (g *G) activationOn(h http.Handler, t *table, a *act, kind, prefix string, extra map[string]interface{}) {
	r := g.request(a)
	if a.kind == kJoin {
		g.runOn(h, t, r, a.intent(), kind, prefix+a.describe(), extra)
		return
	}
	if a.dls&0x80 == 0 {
		// rejoin answered with OptNeg unset (known finding C16-3): Success with a join-accept MIC that is neither
		// the 1.0 nor the 1.1 form.  One case under the finding's own key.
		body := r.body()
		ans := send(h, body)
		rp := map[string]interface{}{"api": "joinserver.NewHandler(config).ServeHTTP (POST body)", "body": r.replayBody(body), "config": t.replay(), "observed": ans.summary(), "intent": a.intent()}
		g.configIntact(t, prefix+a.describe(), rp)
		g.s.Add(cases.Case{Term: fmt.Sprintf("CReq %s %s %s %s PNoKeys", t.coq(), r.coq(), ans.coq(), a.intent()),
			Key: fmt.Sprintf("%srejoin:optneg=false:join-accept-mic:type=%d:dev=%x:nonce=%d", prefix, a.reqtype(), a.dev.devEUI, a.devNonce), Kind: kind + "-optneg-unset", Nontrivial: true, Replay: rp})
		return
	}
	body := r.body()
	ans := send(h, body)
	rp := map[string]interface{}{"api": "joinserver.NewHandler(config).ServeHTTP (POST body)", "body": r.replayBody(body), "config": t.replay(), "observed": ans.summary(), "intent": a.intent()}
	for k, v := range extra {
		rp[k] = v
	}
	g.configIntact(t, prefix+a.describe(), rp)
	if ans.garbage != "" && !ans.panicked {
		g.s.Fail(cases.GoFail{Key: "answer-shape:" + prefix + a.describe(), What: "the answer is not a well-formed Backend Interfaces answer: " + ans.garbage, Replay: rp})
	}
	g.s.Add(cases.Case{Term: fmt.Sprintf("CReq %s %s %s %s PNoKeys", t.coq(), r.coq(), ans.coq(), a.intent()), Key: prefix + a.describe() + ":accept", Kind: kind, Nontrivial: true, Replay: rp})
	g.s.Add(cases.Case{Term: fmt.Sprintf("CReq %s %s %s %s PKeysOnly", t.coq(), r.coq(), ans.coq(), a.intent()),
		Key: fmt.Sprintf("rejoin:optneg=true:session-keys:type=%d:dev=%x:nonce=%d", a.reqtype(), a.dev.devEUI, a.devNonce), Kind: kind + "-session-keys", Nontrivial: true, Replay: rp})
}

func suiteAct(kind int, optneg bool, kek bool) act {
	a := act{kind: kind, joinNonce: 65536, netID: [3]byte{1, 2, 3}, devAddr: [4]byte{1, 2, 3, 4}, dls: 0x15, rxDelay: 1, devNonce: 258, txid: 1234}
	a.dev.devEUI = [8]byte{1, 2, 3, 4, 5, 6, 7, 8}
	a.dev.joinEUI = [8]byte{8, 7, 6, 5, 4, 3, 2, 1}
	a.dev.nwkKey = [16]byte{1, 2, 3, 4, 5, 6, 7, 8, 1, 2, 3, 4, 5, 6, 7, 8}
	a.dev.appKey = [16]byte{16, 15, 14, 13, 12, 11, 10, 9, 8, 7, 6, 5, 4, 3, 2, 1}
	a.cfl = []byte{0x18, 0x8e, 0x84, 0xe8, 0x95, 0x84, 0, 0, 0, 0, 0, 0, 0, 0, 0, 0}
	if optneg {
		a.dls |= 0x80
	}
	if kek {
		a.nsKEK = make([]byte, 16)
		a.asLabel = "lora-app-server"
		a.asKEK = make([]byte, 16)
	}
	if kind != kJoin {
		a.devNonce = 123
	}
	a.sKey = make([]byte, 16)
	return a
}

func main() {
	if len(os.Args) >= 4 && os.Args[3] == "racechild" {
		raceChild()
		return
	}
	dir, seed, thorough := cases.Args()
	s := cases.New("C16", dir, "LW.Corr.C16", "every case is one HTTP request through the real handler with the configuration table as it is at that moment (history steps share a process / handler with earlier requests; the model is a pure function of (table, body), so dependence on the past is a mismatch); wrong-MIC cases include MICs correct under every other key the server knows or derives; distinct by (table, body)")
	s.ShardSize = 24
	s.Watchdog(3 * time.Second)
	g := &G{s: s, r: cq.NewRNG(seed)}

	// ---- corpus: the parameters of the repository's own test-suite (incl. the witness of the known finding) ----
	for _, c := range []struct {
		kind        int
		optneg, kek bool
	}{{kJoin, false, false}, {kJoin, true, false}, {kJoin, true, true}, {kRejoin0, true, false}, {kRejoin1, true, false}, {kRejoin2, true, true}} {
		a := suiteAct(c.kind, c.optneg, c.kek)
		g.activation(&a, "suite-parameters")
	}

	nAct := 12
	if thorough {
		nAct = 150
	}
	// ---- conformant activations: all four request kinds ----
	for i := 0; i < nAct; i++ {
		for kind := kJoin; kind <= kRejoin2; kind++ {
			a := g.randomAct(kind)
			g.activation(&a, []string{"join-ok", "rejoin0-ok", "rejoin1-ok", "rejoin2-ok"}[kind])
		}
		a := g.randomAct(kJoin) // join-requests are the bulk of the property: twice the weight, both OptNeg values forced
		a.dls = a.dls&0x7f | byte(i&1)<<7
		g.activation(&a, "join-ok")
	}
	g.variations(thorough)
	g.malformed(thorough)
	g.homeNS(thorough)
	g.histories(thorough)
	g.errorPaths(thorough)
	g.sizeLadder(thorough)
	g.optionalConfig(thorough)
	g.goOnly(thorough)
	g.concurrent(thorough)
	if thorough || os.Getenv("VERIF_C16_RACE") == "1" {
		g.raceRun(seed)
	} else {
		s.Extra["race_run"] = "quick tier: not run (thorough tier builds this harness with -race and runs the concurrent requests under the race detector)"
	}
	if err := s.Finish(); err != nil {
		log.Fatal(err)
	}
	fmt.Printf("C16: %d cases\n", s.Len())
}
