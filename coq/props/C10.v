(* C10 - isolation: no aliasing of caller buffers, no hidden shared state, race-free
   (race freedom: lock discipline over a syntactic summary only - see notes/C10.md).
   Statement file: each theorem is closed by [exact] of a lemma proved in theories/Mem. *)
From Coq Require Import List NArith ZArith Bool.
From LW Require Import Base.Outcome Base.Bytes Mac.Commands Mac.Stream Frame.Model
     Mem.Heap Mem.HeapProofs Mem.Alias Mem.AliasProofs Mem.Reuse Mem.ReuseProofs Mem.RefineProofs
     Mem.Locks Mem.LocksProofs Mem.LockSummaryProofs.
From LWGen Require Import LockSummaryGen.
Import ListNotations.
Local Open Scope nat_scope.

(* ---- M1: aliasing, on the buffer heap ---------------------------------- *)

(* After PHYPayload.UnmarshalBinary(data) succeeded, replacing the whole contents of ANY buffer
   that existed before the call (in particular the one data points into) by anything leaves the
   decoded frame - all of its FOpts / FRMPayload / DataPayload bytes - unchanged. *)
Theorem C10_decode_isolated : forall (data : slice) (h h' : heap) (f : hphy),
  h_phy_unmarshal data h = (h', Ok f) ->
  forall b, b < length h -> forall l : list N, view (upd h' b l) f = view h' f.
Proof. exact decode_isolated. Qed.
Print Assumptions C10_decode_isolated.

(* ... the same for MACCommand.UnmarshalBinary (proprietary payload bytes) *)
Theorem C10_cmd_decode_isolated : forall r up (data : slice) (h h' : heap) it e,
  h_cmd_unmarshal r up data h = (h', Ok (it, e)) ->
  forall b, b < length h -> forall l : list N, view_item (upd h' b l) it = view_item h' it.
Proof. exact cmd_decode_isolated. Qed.
Print Assumptions C10_cmd_decode_isolated.

(* ... and for the exported decoders of the frame parts called directly (encoding.BinaryUnmarshaler:
   "UnmarshalBinary must copy the data if it wishes to retain the data after returning"):
   FHDR, MACPayload, DataPayload, ProprietaryMACCommandPayload *)
Theorem C10_part_decoders_isolated : forall (data : slice) (h : heap),
  (forall h' x, h_fhdr_unmarshal data h = (h', Ok x) ->
     forall b, b < length h -> forall l : list N, view_fhdr (upd h' b l) x = view_fhdr h' x) /\
  (forall h' m, h_mac_unmarshal data h = (h', Ok m) ->
     forall b, b < length h -> forall l : list N, view_mac (upd h' b l) m = view_mac h' m) /\
  (forall h' s, h_data_unmarshal data h = (h', Ok s) ->
     forall b, b < length h -> forall l : list N, bytes_of (upd h' b l) s = bytes_of h' s) /\
  (forall h' p, h_prop_unmarshal data h = (h', Ok p) ->
     forall b, b < length h -> forall l : list N, view_macpl (upd h' b l) p = view_macpl h' p) /\
  old_unchanged h (fst (h_fhdr_unmarshal data h)) /\
  old_unchanged h (fst (h_mac_unmarshal data h)) /\
  old_unchanged h (fst (h_prop_unmarshal data h)).
Proof. exact part_decoders_isolated. Qed.
Print Assumptions C10_part_decoders_isolated.

(* Decoders never write to memory that existed before the call, on every outcome (success, error,
   panic): frame decoder, MAC command decoder, command-stream decoder, DataPayload (serves C09). *)
Theorem C10_decoders_readonly : forall (data : slice) (h : heap),
  old_unchanged h (fst (h_phy_unmarshal data h)) /\
  (forall r up, old_unchanged h (fst (h_cmd_unmarshal r up data h))) /\
  (forall r up pls, old_unchanged h (fst (h_decode_cmds r up pls h))) /\
  old_unchanged h (fst (h_data_unmarshal data h)).
Proof. exact decoders_readonly. Qed.
Print Assumptions C10_decoders_readonly.

(* PHYPayload.MarshalBinary, for every append growth policy g and every frame (whatever its byte
   slices point to, with whatever spare capacity): no existing buffer is written. *)
Theorem C10_marshal_readonly : forall (g : nat -> nat) (f : hphy) (h : heap),
  old_unchanged h (fst (h_phy_marshal g f h)).
Proof. exact marshal_readonly. Qed.
Print Assumptions C10_marshal_readonly.

(* The encoded output lives in a buffer that did not exist before (or has no capacity at all), so
   overwriting it - or any other new buffer - in any way leaves the frame as it was before the call. *)
Theorem C10_encode_isolated : forall (g : nat -> nat) (f : hphy) (h h' : heap) (out : slice),
  frame_old (length h) f ->
  h_phy_marshal g f h = (h', Ok out) ->
  view h' f = view h f /\
  (length h <= sbuf out \/ scap out = 0) /\
  forall b, length h <= b -> forall l : list N, view (upd h' b l) f = view h f.
Proof. exact encode_isolated. Qed.
Print Assumptions C10_encode_isolated.

(* Every MarshalBinary of a PART of a frame - FOpts / FRMPayload element (DataPayload, MAC command), command payload
   (incl. ProprietaryMACCommandPayload), FHDR, MACPayload, the MACPayload field (incl. a raw DataPayload: join-accept,
   proprietary frames) - writes no existing buffer and returns memory that did not exist before the call (or has no
   capacity): overwriting an encoder's output in any way cannot change the frame. *)
Theorem C10_part_marshal_isolated : forall (g : nat -> nat) (h : heap),
  (forall it, part_output_new h (h_item_marshal g it h)) /\
  (forall p, part_output_new h (h_macpl_marshal p h)) /\
  (forall c p, part_output_new h (h_cmd_marshal g c p h)) /\
  (forall x, part_output_new h (h_fhdr_marshal g x h)) /\
  (forall m, part_output_new h (h_mac_marshal g m h)) /\
  (forall p, part_output_new h (h_payload_marshal g p h)).
Proof. exact part_marshal_isolated. Qed.
Print Assumptions C10_part_marshal_isolated.

(* AES128Key / EUI64 / DevAddr / NetID.UnmarshalBinary: the receiver ends up holding the byte-reversed input for EVERY
   placement of input and receiver in memory, including the input being the receiver itself. *)
Theorem C10_ident_decode_overlap : forall (h : heap) (recv data : slice),
  wf_slice h recv -> wf_slice h data -> slen data = slen recv ->
  bytes_of (fst (h_ident_unmarshal recv data h)) recv = rev (bytes_of h data).
Proof. exact ident_unmarshal_overlap. Qed.
Print Assumptions C10_ident_decode_overlap.

(* The exported EncryptFRMPayload / EncryptFOpts change nothing outside [off, off+len) of the slice
   they were given - whatever its capacity - on every outcome. *)
Theorem C10_encrypt_frame_rule : forall key up afd devaddr fcnt (data : slice) (h : heap),
  only_window_changed data h (fst (h_encrypt_frm key up devaddr fcnt data h)) /\
  only_window_changed data h (fst (h_encrypt_fopts key afd up devaddr fcnt data h)).
Proof. exact encrypt_frame_rule. Qed.
Print Assumptions C10_encrypt_frame_rule.

(* MIC validation / calculation / setting (f0: any keyed function of the MIC input) write to no
   existing buffer, and the inspected frame is unchanged. *)
Theorem C10_validate_readonly : forall (f0 : list N -> list N) (g : nat -> nat) (p : hphy) (h : heap),
  old_unchanged h (fst (h_validate_data_mic f0 g p h)) /\
  old_unchanged h (fst (h_validate_join_mic f0 g p h)) /\
  old_unchanged h (fst (h_set_data_mic f0 g p h)) /\
  (frame_old (length h) p ->
   view (fst (h_validate_data_mic f0 g p h)) p = view h p /\
   view (fst (h_validate_join_mic f0 g p h)) p = view h p).
Proof. exact validate_readonly. Qed.
Print Assumptions C10_validate_readonly.

(* Frame-level EncryptFRMPayload / DecryptFRMPayload / EncryptFOpts / DecryptFOpts / DecryptJoinAcceptPayload /
   EncryptJoinAcceptPayload replace the frame's payload by new buffers and write to no existing one
   (in particular not into spare capacity of the bytes the frame held). *)
Theorem C10_frame_crypto_readonly : forall g r key (p : hphy) (h : heap),
  old_unchanged h (fst (h_phy_encrypt_frm g key p h)) /\
  old_unchanged h (fst (h_phy_decrypt_frm g r key p h)) /\
  old_unchanged h (fst (h_phy_encrypt_fopts g key p h)) /\
  old_unchanged h (fst (h_phy_decrypt_fopts g r key p h)) /\
  old_unchanged h (fst (h_decrypt_ja g key p h)) /\
  old_unchanged h (fst (h_encrypt_ja g key p h)).
Proof. exact frame_crypto_readonly. Qed.
Print Assumptions C10_frame_crypto_readonly.

(* ---- M2: reuse ------------------------------------------------------------ *)

(* Decoding into a value that was used before = decoding into a fresh value, for every decoder of
   the root package and every previous value. *)
Theorem C10_reuse :
  (forall prev k data, macpl_dec_into prev k data = macpl_dec_into (zero_value k) k data) /\
  (forall prev data, chmask_dec_into prev data = chmask_dec_into zero_mask data) /\
  (forall prev r up data, data <> [] -> cmd_dec_into prev r up data = cmd_dec_into (IMac 0 None) r up data) /\
  (forall prev data, cfl_channels_dec_into prev data = cfl_channels_dec_into zero_channels data) /\
  (forall prev data, cfl_masks_dec_into prev data = cfl_masks_dec_into [] data) /\
  (forall prev data, cflist_dec_into prev data = cflist_dec_into zero_cflist data) /\
  (forall prev data, joinaccept_dec_into prev data = joinaccept_dec_into zero_joinaccept data) /\
  (forall prev data, fhdr_dec_into prev data = fhdr_dec_into zero_fhdr data) /\
  (forall prev data, mac_dec_into prev data = mac_dec_into zero_mac data) /\
  (forall prev data, phy_dec_into prev data = phy_dec_into zero_phy data).
Proof.
  exact (conj macpl_reuse (conj chmask_reuse (conj cmd_reuse (conj cfl_channels_reuse (conj cfl_masks_reuse
        (conj cflist_reuse (conj joinaccept_reuse (conj fhdr_reuse (conj mac_reuse phy_reuse))))))))).
Qed.
Print Assumptions C10_reuse.

(* the reuse models are the value-level decoders of C06/C07/C01 *)
Theorem C10_reuse_models_agree :
  (forall prev k data, macpl_dec_into prev k data = dec k data) /\
  (forall prev data, joinaccept_dec_into prev data = joinaccept_unmarshal data).
Proof. exact (conj macpl_dec_into_spec joinaccept_dec_into_spec). Qed.
Print Assumptions C10_reuse_models_agree.

(* The memory model and the value model agree: for a well-formed input slice the heap decoder returns
   the old heap plus new buffers, and the frame it built, seen as a value, is what the decoder into a
   fresh value computes from the bytes of the slice. *)
Theorem C10_heap_decoder_refines_value_decoder : forall (h : heap) (s : slice),
  wf_slice h s ->
  exists h' r, h_phy_unmarshal s h = (h', r) /\ (exists x, h' = h ++ x) /\
               omap (view h') r = phy_dec_into zero_phy (bytes_of h s).
Proof. exact phy_refine. Qed.
Print Assumptions C10_heap_decoder_refines_value_decoder.

(* ---- M3: lock discipline over the summary regenerated from the source ------ *)

(* In every reachable state of every interleaving of ANY number of threads, each running one of the
   summarised functions, no write of the registry is co-enabled with another access of it.
   NOT modelled: the Go memory model and scheduler; the summary is syntactic (go/ast). *)
Theorem C10_registry_race_free : forall ps : list program,
  Forall (fun p => In p (map snd lock_summary)) ps ->
  forall s, reach (init ps) s -> ~ race s.
Proof. exact registry_race_free. Qed.
Print Assumptions C10_registry_race_free.

(* No other package-level variable of the repository is assigned inside any function (syntactic scan),
   and the functions assigning the registry are exactly those covered by the theorem above. *)
Theorem C10_no_other_shared_state : shared_state_check = true.
Proof. exact shared_state_ok. Qed.
Print Assumptions C10_no_other_shared_state.

(* hypotheses are satisfiable / the statements are not vacuous *)
Example C10_decode_example :
  exists h' f, h_phy_unmarshal (mkSlice 0 1 14 15) [[9; 64; 1; 2; 3; 4; 0; 5; 0; 7; 170; 9; 9; 9; 9; 8; 8]%N] = (h', Ok f)
               /\ frame_slices f <> [].
Proof. eexists. eexists. split; [vm_compute; reflexivity|vm_compute; discriminate]. Qed.

Example C10_lock_discipline_not_vacuous :
  exists s, reach (init [[ORLock; OWrite; ORUnlock]; [ORLock; ORead; ORUnlock]]) s /\ race s.
Proof. exact unlocked_write_races. Qed.
