(* C02 - data-frame MIC equals the specification value; set / validate agree.
   Statements only; proofs in LW.Sec.MICProofs.  Model: LW.Sec.MIC (phypayload.go
   calculateUplinkDataMIC / calculateDownlinkDataMIC and the five wrappers);
   specification: LW.Sec.MICSpec (LoRaWAN 1.1 section 4.4, 1.0.x section 4.4).
   Side conditions: `length (devaddr ..) = 4` is the Go type DevAddr = [4]byte;
   `length msg < 256`: the specification's len(msg) field is one byte (a LoRaWAN
   frame has at most 255 bytes); for longer messages the code stores
   len(msg) mod 256 (C02_up_eq_spec_any_length). *)
From Coq Require Import List NArith ZArith Bool.
From LW Require Import Base.Outcome Base.Bytes Crypto.AES Crypto.CMAC Mac.Commands Mac.Stream Frame.Model
     Frame.CanonProofs Sec.MIC Sec.MICSpec Sec.MICProofs Sec.EndToEnd Sec.EndToEndProofs Sec.WireMIC Sec.WireMICProofs.
From LWGen Require Import RegistryGen.
Import ListNotations.
Open Scope N_scope.

Theorem C02_up_eq_spec : forall ver conf txdr txch fk sk p m msg,
  pl p = PLMac m -> mic_bytes p m = Ok msg -> length (devaddr (hdr m)) = 4%nat -> (length msg < 256)%nat ->
  calc_up_mic ver conf txdr txch fk sk p
  = Ok (spec_up_mic (spec_version ver) fk sk conf txdr txch (ack (fc (hdr m))) (devaddr (hdr m))
                    (fcnt (hdr m)) msg).
Proof. exact up_eq_spec. Qed.
Print Assumptions C02_up_eq_spec.

Theorem C02_down_eq_spec : forall ver conf sk p m msg,
  pl p = PLMac m -> mic_bytes p m = Ok msg -> length (devaddr (hdr m)) = 4%nat -> (length msg < 256)%nat ->
  calc_down_mic ver conf sk p
  = Ok (spec_down_mic (spec_version ver) sk conf (ack (fc (hdr m))) (devaddr (hdr m)) (fcnt (hdr m)) msg).
Proof. exact down_eq_spec. Qed.
Print Assumptions C02_down_eq_spec.

Theorem C02_up_eq_spec_any_length : forall ver conf txdr txch fk sk p m msg,
  pl p = PLMac m -> mic_bytes p m = Ok msg -> length (devaddr (hdr m)) = 4%nat ->
  calc_up_mic ver conf txdr txch fk sk p
  = Ok (spec_up_mic_len (spec_version ver) fk sk conf txdr txch (ack (fc (hdr m))) (devaddr (hdr m))
                        (fcnt (hdr m)) msg (N.of_nat (length msg) mod 256)).
Proof. exact up_eq_spec_len. Qed.
Print Assumptions C02_up_eq_spec_any_length.

Theorem C02_down_eq_spec_any_length : forall ver conf sk p m msg,
  pl p = PLMac m -> mic_bytes p m = Ok msg -> length (devaddr (hdr m)) = 4%nat ->
  calc_down_mic ver conf sk p
  = Ok (spec_down_mic_len (spec_version ver) sk conf (ack (fc (hdr m))) (devaddr (hdr m)) (fcnt (hdr m))
                          msg (N.of_nat (length msg) mod 256)).
Proof. exact down_eq_spec_len. Qed.
Print Assumptions C02_down_eq_spec_any_length.

Theorem C02_validate_up_iff : forall ver conf txdr txch fk sk p b,
  validate_up_mic ver conf txdr txch fk sk p = Ok b ->
  exists m msg, pl p = PLMac m /\ mic_bytes p m = Ok msg /\
    (length (devaddr (hdr m)) = 4%nat -> (length msg < 256)%nat ->
     (b = true <-> mic p = spec_up_mic (spec_version ver) fk sk conf txdr txch (ack (fc (hdr m)))
                                       (devaddr (hdr m)) (fcnt (hdr m)) msg)).
Proof. exact validate_up_iff. Qed.
Print Assumptions C02_validate_up_iff.

Theorem C02_validate_down_iff : forall ver conf sk p b,
  validate_down_mic ver conf sk p = Ok b ->
  exists m msg, pl p = PLMac m /\ mic_bytes p m = Ok msg /\
    (length (devaddr (hdr m)) = 4%nat -> (length msg < 256)%nat ->
     (b = true <-> mic p = spec_down_mic (spec_version ver) sk conf (ack (fc (hdr m)))
                                         (devaddr (hdr m)) (fcnt (hdr m)) msg)).
Proof. exact validate_down_iff. Qed.
Print Assumptions C02_validate_down_iff.

Theorem C02_set_up_stores_computed_mic : forall ver conf txdr txch fk sk p q,
  set_up_mic ver conf txdr txch fk sk p = Ok q ->
  calc_up_mic ver conf txdr txch fk sk p = Ok (mic q) /\ mtype q = mtype p /\ major q = major p /\ pl q = pl p.
Proof. exact set_up_stores. Qed.
Print Assumptions C02_set_up_stores_computed_mic.

Theorem C02_set_down_stores_computed_mic : forall ver conf sk p q,
  set_down_mic ver conf sk p = Ok q ->
  calc_down_mic ver conf sk p = Ok (mic q) /\ mtype q = mtype p /\ major q = major p /\ pl q = pl p.
Proof. exact set_down_stores. Qed.
Print Assumptions C02_set_down_stores_computed_mic.

Theorem C02_validate_after_set_up : forall ver conf txdr txch fk sk p q,
  set_up_mic ver conf txdr txch fk sk p = Ok q -> validate_up_mic ver conf txdr txch fk sk q = Ok true.
Proof. exact validate_after_set_up. Qed.
Print Assumptions C02_validate_after_set_up.

Theorem C02_validate_after_set_down : forall ver conf sk p q,
  set_down_mic ver conf sk p = Ok q -> validate_down_mic ver conf sk q = Ok true.
Proof. exact validate_after_set_down. Qed.
Print Assumptions C02_validate_after_set_down.

Theorem C02_no_mic_without_macpayload : forall ver conf txdr txch fk sk p,
  (forall m, pl p <> PLMac m) ->
  calc_up_mic ver conf txdr txch fk sk p = Err /\ calc_down_mic ver conf sk p = Err.
Proof. intros. split; [now apply up_no_mic_without_macpayload | now apply down_no_mic_without_macpayload]. Qed.
Print Assumptions C02_no_mic_without_macpayload.

(* exclusions *)
Theorem C02_up_conf_irrelevant_without_ack : forall ver c1 c2 txdr txch fk sk p m,
  pl p = PLMac m -> ack (fc (hdr m)) = false ->
  calc_up_mic ver c1 txdr txch fk sk p = calc_up_mic ver c2 txdr txch fk sk p.
Proof. exact up_conf_irrelevant_without_ack. Qed.
Print Assumptions C02_up_conf_irrelevant_without_ack.

Theorem C02_up_conf_only_mod_2_16 : forall ver c1 c2 txdr txch fk sk p,
  c1 mod 65536 = c2 mod 65536 ->
  calc_up_mic ver c1 txdr txch fk sk p = calc_up_mic ver c2 txdr txch fk sk p.
Proof. exact up_conf_mod_2_16. Qed.
Print Assumptions C02_up_conf_only_mod_2_16.

Theorem C02_down_conf_irrelevant_without_ack : forall ver c1 c2 sk p m,
  pl p = PLMac m -> ack (fc (hdr m)) = false -> calc_down_mic ver c1 sk p = calc_down_mic ver c2 sk p.
Proof. exact down_conf_irrelevant_without_ack. Qed.
Print Assumptions C02_down_conf_irrelevant_without_ack.

Theorem C02_down_conf_only_mod_2_16 : forall ver c1 c2 sk p,
  c1 mod 65536 = c2 mod 65536 -> calc_down_mic ver c1 sk p = calc_down_mic ver c2 sk p.
Proof. exact down_conf_mod_2_16. Qed.
Print Assumptions C02_down_conf_only_mod_2_16.

Theorem C02_up_10_ignores_11_parameters : forall c1 c2 dr1 dr2 ch1 ch2 fk sk1 sk2 p,
  calc_up_mic LoRaWAN1_0 c1 dr1 ch1 fk sk1 p = calc_up_mic LoRaWAN1_0 c2 dr2 ch2 fk sk2 p.
Proof. exact up_10_ignores_11_parameters. Qed.
Print Assumptions C02_up_10_ignores_11_parameters.

Theorem C02_down_10_ignores_conf : forall c1 c2 sk p,
  calc_down_mic LoRaWAN1_0 c1 sk p = calc_down_mic LoRaWAN1_0 c2 sk p.
Proof. exact down_10_ignores_conf. Qed.
Print Assumptions C02_down_10_ignores_conf.

Theorem C02_micf_iff : forall fk p b,
  validate_up_micf fk p = Ok b ->
  exists m msg, pl p = PLMac m /\ mic_bytes p m = Ok msg /\
    (length (devaddr (hdr m)) = 4%nat -> (length msg < 256)%nat ->
     (b = true <-> skipn 2 (mic p) = spec_cmacF_half fk (devaddr (hdr m)) (fcnt (hdr m)) msg)).
Proof. exact micf_iff. Qed.
Print Assumptions C02_micf_iff.

(* ---- octets as received ("any change to an authenticated input is rejected") ----
   The theorems above speak about the decoded frame value: the MIC functions hash its RE-ENCODING (mic_bytes).  For a
   receiver that holds octets from the air the statement is about those octets: it holds for every octet string whose
   MHDR RFU bits (bits 4..2 of the first octet) are zero, validated before DecodeFOptsToMACCommands - every octet of
   msg is then authenticated.  The two exceptions are known findings with witnesses: C02-1 (the MHDR RFU bits are
   dropped by the decoder) and C02-2 (after DecodeFOptsToMACCommands the RFU bits of MAC commands are dropped). *)
Theorem C02_validate_received_octets : forall reg ver up conf txdr txch fk sk full bs b,
  Forall (fun x => x < 256) bs -> rfu_zero bs = true ->
  wire_validate_data false reg ver up conf txdr txch fk sk full bs = Ok b ->
  exists p m,
    phy_unmarshal bs = Ok p /\ pl p = PLMac m /\
    (full mod 65536 = fcnt (hdr m) mod 65536 -> length (devaddr (hdr m)) = 4%nat -> (length bs - 4 < 256)%nat ->
     b = bytes_eqb (skipn (length bs - 4) bs)
                   (if up then spec_up_mic (spec_version ver) fk sk conf txdr txch (ack (fc (hdr m))) (devaddr (hdr m)) full
                                            (firstn (length bs - 4) bs)
                    else spec_down_mic (spec_version ver) sk conf (ack (fc (hdr m))) (devaddr (hdr m)) full
                                       (firstn (length bs - 4) bs))).
Proof. exact data_wire_validate. Qed.
Print Assumptions C02_validate_received_octets.

Theorem C02_received_octets_mhdr_rfu_refuted :
  rfu_zero c05_2_bytes = false /\
  wire_validate_data false builtin_registry LoRaWAN1_0 true 0 0 0 (fnwksint c05_2_keys) (snwksint c05_2_keys) 5 c05_2_bytes = Ok true /\
  (let '(carried, specified, _) :=
       match wire_spec_data LoRaWAN1_0 true 0 0 0 (fnwksint c05_2_keys) (snwksint c05_2_keys) 5 c05_2_bytes with
       | Some x => x | None => ([], [], 0) end in
   bytes_eqb carried specified) = false.
Proof. exact data_wire_mhdr_rfu_refuted. Qed.
Print Assumptions C02_received_octets_mhdr_rfu_refuted.

Theorem C02_validate_after_decode_refuted :
  nth 9 c02_2_sent 0 = 7 /\ rfu_zero c02_2_received = true /\
  wire_validate_data false builtin_registry LoRaWAN1_0 true 0 0 0 c02_2_key c02_2_key 3 c02_2_sent = Ok true /\
  wire_validate_data false builtin_registry LoRaWAN1_0 true 0 0 0 c02_2_key c02_2_key 3 c02_2_received = Ok false /\
  wire_validate_data true builtin_registry LoRaWAN1_0 true 0 0 0 c02_2_key c02_2_key 3 c02_2_received = Ok true.
Proof. exact data_wire_after_decode_refuted. Qed.
Print Assumptions C02_validate_after_decode_refuted.

(* the hypotheses are satisfiable, and the statements say something: a concrete 1.1 uplink
   (DevAddr 01020304, FCnt 0x12345, ACK, one MAC command in FOpts, 20 payload bytes) *)
Definition ex_frame : phy :=
  mkPHY ConfirmedDataUp 0
        (PLMac (mkMAC (mkFHDR [1; 2; 3; 4] (mkFCtrl true false true false false 0) 74565 [IMac 2 None])
                      (Some 10) [IData [1; 2; 3; 4; 5; 6; 7; 8; 9; 10; 11; 12; 13; 14; 15; 16; 17; 18; 19; 20]]))
        [0; 0; 0; 0].
Definition ex_key1 : list N := [2; 2; 2; 2; 2; 2; 2; 2; 2; 2; 2; 2; 2; 2; 2; 2].
Definition ex_key2 : list N := [3; 3; 3; 3; 3; 3; 3; 3; 3; 3; 3; 3; 3; 3; 3; 3].

Example C02_example_nonvacuous :
  exists m msg mic1 mic2,
    pl ex_frame = PLMac m /\ mic_bytes ex_frame m = Ok msg /\ length (devaddr (hdr m)) = 4%nat /\
    (length msg < 256)%nat /\
    calc_up_mic LoRaWAN1_1 70000 5 3 ex_key1 ex_key2 ex_frame = Ok mic1 /\ length mic1 = 4%nat /\
    (* a ConfFCnt that differs modulo 2^16 changes the MIC of this ACK frame *)
    calc_up_mic LoRaWAN1_1 70001 5 3 ex_key1 ex_key2 ex_frame = Ok mic2 /\ mic1 <> mic2 /\
    validate_up_mic LoRaWAN1_1 70000 5 3 ex_key1 ex_key2 (set_mic ex_frame mic1) = Ok true /\
    validate_up_mic LoRaWAN1_1 70000 5 3 ex_key1 ex_key2 (set_mic ex_frame mic2) = Ok false /\
    validate_up_micf ex_key1 (set_mic ex_frame mic2) = Ok true.
Proof.
  eexists _, _, _, _. vm_compute. repeat split; try reflexivity; try discriminate.
  apply Nat.leb_le. reflexivity.
Qed.
