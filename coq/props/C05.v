(* C05 - end-to-end secure frame exchange.  Statements only; proofs in LW.Sec.EndToEndProofs. *)
From Coq Require Import List NArith ZArith Bool.
From LW Require Import Base.Outcome Base.Bytes Crypto.AES Crypto.CMAC Mac.Commands Mac.Spec Mac.Stream
     Frame.Model Frame.Spec Sec.MIC Sec.MICSpec Sec.MICProofs Sec.Encrypt Sec.EndToEnd Sec.EndToEndProofs.
Import ListNotations.
Open Scope N_scope.

Theorem C05_tamper : forall ver up k prm full bs b,
  rx_validate ver up k prm full bs = Ok b ->
  exists p m msg,
    phy_unmarshal bs = Ok p /\ pl (set_fcnt full p) = PLMac m /\ mic_bytes (set_fcnt full p) m = Ok msg /\
    fcnt (hdr m) = full /\
    (length (devaddr (hdr m)) = 4%nat -> (length msg < 256)%nat ->
     b = bytes_eqb (skipn (length bs - 4) bs)
                   (spec_data_mic ver up k prm (ack (fc (hdr m))) (devaddr (hdr m)) full msg)).
Proof. exact tamper. Qed.
Print Assumptions C05_tamper.
