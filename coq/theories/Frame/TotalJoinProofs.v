(* C09: the checked join-accept / CFList decoders equal the value model on every input. *)
From Coq Require Import List NArith ZArith Bool Lia.
From LW Require Import Base.Outcome Base.Bytes Mac.Commands Mac.Stream Frame.Model Frame.Checked Frame.CheckedJoin Frame.TotalProofs.
Import ListNotations.
Open Scope N_scope.

Lemma zlen_eqb {A} (l : list A) (n : nat) : (zlen l =? Z.of_nat n)%Z = Nat.eqb (length l) n.
Proof.
  unfold zlen. destruct (Nat.eqb (length l) n) eqn:E.
  - apply PeanoNat.Nat.eqb_eq in E. rewrite E. apply Z.eqb_refl.
  - apply PeanoNat.Nat.eqb_neq in E. apply Z.eqb_neq. lia.
Qed.

Theorem cflist_chk_eq data : cflist_unmarshal_chk data = cflist_unmarshal data.
Proof.
  unfold cflist_unmarshal_chk, cflist_unmarshal.
  change 16%Z with (Z.of_nat 16). rewrite zlen_eqb.
  destruct (Nat.eqb (length data) 16) eqn:L; [|reflexivity]. apply PeanoNat.Nat.eqb_eq in L.
  do 16 (destruct data as [|? data]; [discriminate L|]). destruct data; [|discriminate L].
  cbn [negb]. unfold go_index, go_slice, zlen. cbn [length nth_error Z.to_nat Pos.to_nat Pos.iter_op Nat.add].
  vm_compute. reflexivity.
Qed.

Theorem joinaccept_chk_eq data : joinaccept_unmarshal_chk data = joinaccept_unmarshal data.
Proof.
  unfold joinaccept_unmarshal_chk, joinaccept_unmarshal.
  change 12%Z with (Z.of_nat 12). change 28%Z with (Z.of_nat 28). rewrite !zlen_eqb.
  destruct (Nat.eqb (length data) 12) eqn:L12.
  - apply PeanoNat.Nat.eqb_eq in L12.
    do 12 (destruct data as [|? data]; [discriminate L12|]). destruct data; [|discriminate L12].
    vm_compute. reflexivity.
  - destruct (Nat.eqb (length data) 28) eqn:L28; [|reflexivity].
    apply PeanoNat.Nat.eqb_eq in L28.
    do 28 (destruct data as [|? data]; [discriminate L28|]). destruct data; [|discriminate L28].
    pose proof cflist_chk_eq as E. revert E.
    generalize cflist_unmarshal_chk. generalize cflist_unmarshal. intros g f E.
    generalize dec_dlsettings. intros dd.
    cbv [go_slice go_index zlen length Z.of_nat Pos.of_succ_nat Pos.succ Z.leb Z.ltb Z.compare Pos.compare Pos.compare_cont
         andb orb negb Z.to_nat Pos.to_nat Pos.iter_op Nat.add Nat.sub firstn skipn nth_error nth bind Z.eqb Pos.eqb].
    rewrite E. reflexivity.
Qed.
