(* C11 - DevAddr/NetID prefix algebra and identifier representations.
   Statement file: each theorem is closed by [exact] of a lemma proved in
   theories/, followed by Print Assumptions. *)
From Coq Require Import List NArith ZArith Bool.
From LW Require Import Base.Outcome Base.Bytes Base.Hex Ident.Model Ident.Spec Ident.Proofs.
Import ListNotations.
Open Scope N_scope.

(* SetAddrPrefix, for all 2^24 NetIDs and all 2^32 addresses, yields the
   address the addressing rules define *)
Theorem C11_set_prefix : forall v a, v < 2 ^ 24 -> a < 2 ^ 32 ->
  set_addr_prefix v a = spec_addr v a.
Proof. exact set_prefix_spec. Qed.
Print Assumptions C11_set_prefix.

(* ... whose type prefix, NwkID bits and NwkAddr bits are as defined *)
Theorem C11_fields : forall v a, v < 2 ^ 24 -> a < 2 ^ 32 ->
  let t := spec_type v in
  let r := spec_addr v a in
  r < 2 ^ 32 /\
  r / 2 ^ (32 - spec_prefix_len t) = spec_prefix_val t /\
  (r / 2 ^ spec_addr_bits t) mod 2 ^ spec_nwkid_width t = spec_nwkid v /\
  r mod 2 ^ spec_addr_bits t = a mod 2 ^ spec_addr_bits t.
Proof. exact spec_addr_fields. Qed.
Print Assumptions C11_fields.

(* membership is true exactly for addresses carrying that type and NwkID *)
Theorem C11_is_netid_iff : forall v a, v < 2 ^ 24 -> a < 2 ^ 32 ->
  is_netid v a = spec_member v a.
Proof. exact is_netid_iff. Qed.
Print Assumptions C11_is_netid_iff.

Theorem C11_netid_type_id : forall v, v < 2 ^ 24 ->
  netid_type v = spec_type v /\ be_val (netid_id_bytes v) = spec_id v.
Proof. intros v H. split; [exact (netid_type_spec v H) | exact (be_val_id_bytes v H)]. Qed.
Print Assumptions C11_netid_type_id.

Theorem C11_devaddr_type_iff : forall a t, a < 2 ^ 32 -> t < 8 ->
  (devaddr_netid_type a = Z.of_N t <-> a / 2 ^ (32 - spec_prefix_len t) = spec_prefix_val t).
Proof. exact devaddr_type_iff. Qed.
Print Assumptions C11_devaddr_type_iff.

Theorem C11_devaddr_nwkid : forall a t, a < 2 ^ 32 -> t < 8 -> devaddr_netid_type a = Z.of_N t ->
  exists k, devaddr_nwkid a = Some ((a / 2 ^ spec_addr_bits t) mod 2 ^ spec_nwkid_width t, k).
Proof. exact devaddr_nwkid_spec. Qed.
Print Assumptions C11_devaddr_nwkid.

(* representations: text (hex, optional 0x), binary (byte-reversed), sql *)
Theorem C11_text_roundtrip : forall k bs, length bs = k -> Forall (fun b => b < 256) bs ->
  unmarshal_text k (marshal_text bs) = Ok bs /\
  unmarshal_text k (48 :: 120 :: marshal_text bs) = Ok bs.
Proof. exact text_roundtrip. Qed.
Print Assumptions C11_text_roundtrip.

Theorem C11_text_wrong_length : forall k text bs, unmarshal_text k text = Ok bs -> length bs = k.
Proof. exact text_wrong_length. Qed.
Print Assumptions C11_text_wrong_length.

Theorem C11_binary_roundtrip : forall k bs, length bs = k ->
  marshal_binary bs = rev bs /\ unmarshal_binary k (marshal_binary bs) = Ok bs.
Proof. intros k bs H. split; [reflexivity | exact (binary_roundtrip k bs H)]. Qed.
Print Assumptions C11_binary_roundtrip.

Theorem C11_binary_wrong_length : forall k data bs,
  unmarshal_binary k data = Ok bs -> length data = k /\ length bs = k.
Proof. exact binary_wrong_length. Qed.
Print Assumptions C11_binary_wrong_length.

Theorem C11_sql_roundtrip : forall k bs, length bs = k -> scan k bs = Ok bs.
Proof. exact scan_roundtrip. Qed.
Print Assumptions C11_sql_roundtrip.

Theorem C11_sql_wrong_length : forall k data bs, scan k data = Ok bs -> length data = k /\ bs = data.
Proof. exact scan_wrong_length. Qed.
Print Assumptions C11_sql_wrong_length.

(* non-vacuity: a concrete NetID (type 3) and address meet the hypotheses and
   the result has the expected bits *)
Example C11_example :
  set_addr_prefix 0x6000ab 0xffffffff = 0xe157ffff /\ spec_member 0x6000ab 0xe157ffff = true.
Proof. vm_compute. split; reflexivity. Qed.
