"""Per-property configuration of the driver."""
import re

TRUSTED_COMMON = [
    "Coq 8.16.1 kernel incl. its vm_compute machine (finite sweeps, correspondence evaluation); native_compute not used",
    "no axioms declared by this development (driver greps for Axiom/Parameter/Admitted/... on every run)",
    "hand-written Gallina model tied to /repo only by the correspondence run of this check (Go harness built with -tags verif against the working tree; printers in harness/internal/cq)",
    "tables in coq/gen/*.v are dumped from the live code by harness/cmd/dump on every run",
    "no extraction: the model is evaluated inside Coq",
]
ASSUME_COMMON = [
    "Go runtime semantics (bounds checks, integer wrap-around) as specified by the language",
    "specification transcribed by hand from the public LoRaWAN documents (no network access)",
]

# name -> Coq element type of the exception lists in gen/KnownGen.v
KNOWN_DECLS = {
}

PROPS = {
    "C11": {
        "cmd": "c11",
        "trusted": ["models: theories/Ident/Model.v (netid.go, DevAddr part of fhdr.go, EUI64/AES128Key text/binary/sql methods), theories/Base/Hex.v (encoding/hex + strings.TrimPrefix re-specified)",
                    "spec: theories/Ident/Spec.v (Backend Interfaces addressing table)"],
        "assumptions": ["encoding/hex behaves as modelled in Base/Hex.v (compared on every text case)"],
    },
}


def parse_diag(pid, out):
    """Lines 'DIAG <key> <what>' are not printable from Coq; diagnosis files print
    lists which are decoded here per property."""
    res = []
    return res
