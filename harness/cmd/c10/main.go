// Correspondence harness for C10 (isolation): guard-byte harness.
//
// Every byte slice handed to the implementation is a window
// buf[off : off+len : off+cap] of a larger backing buffer filled with a
// pattern (guard bytes before, spare capacity 0..31 behind, guard bytes
// behind that).  After each call the whole backing buffer and a deep snapshot
// of the frame (framefmt) are reported; then the caller's memory is
// overwritten and the frame is snapshotted again.  The Coq side runs the heap
// model on the same memory and evaluates the isolation property on the
// OBSERVED buffers / snapshots.
package main

import (
	"fmt"
	"io"
	"log"
	"os"
	"strings"
	"time"

	"github.com/brocaar/lorawan"
	"verifharness/internal/cases"
	"verifharness/internal/cq"
	"verifharness/internal/framefmt"
	"verifharness/internal/macfmt"
)

// ---- guarded memory ----

type arena struct {
	r     *cq.RNG
	bufs  [][]byte
	force int // >= 0: spare capacity of every window (corpus witnesses); otherwise random
}

func pattern(buf []byte, salt int) {
	for i := range buf {
		buf[i] = byte(0xA5 ^ (i*29 + salt*7))
	}
}

// window allocates a backing buffer and returns the window holding content:
// off guard bytes, len(content) bytes, spare capacity, tail guard bytes.
func (a *arena) window(content []byte, spare int) (s []byte, off, capa int) {
	off = a.r.Intn(9)
	tail := a.r.Intn(5)
	n := len(content)
	buf := make([]byte, off+n+spare+tail)
	pattern(buf, len(a.bufs))
	copy(buf[off:], content)
	a.bufs = append(a.bufs, buf)
	return buf[off : off+n : off+n+spare], off, n + spare
}

func (a *arena) spare() int {
	if a.force >= 0 {
		return a.force
	}
	switch a.r.Intn(4) {
	case 0:
		return 0
	case 1:
		return 1 + a.r.Intn(4)
	default:
		return a.r.Intn(32)
	}
}

// place moves content into guarded memory; returns the slice and its Coq term.
func (a *arena) place(content []byte) ([]byte, string) {
	id := len(a.bufs)
	s, off, capa := a.window(content, a.spare())
	return s, fmt.Sprintf("(mkSlice %d %d %d %d)", id, off, len(content), capa)
}

func (a *arena) dump() string {
	s := make([]string, len(a.bufs))
	for i, b := range a.bufs {
		s[i] = cq.Bytes(b)
	}
	return cq.List(s)
}

func hexs(b []byte) string { return fmt.Sprintf("%x", b) }

// ---- frames with their slices in guarded memory: Coq terms of Mem.Alias.hphy ----

func (a *arena) hitem(p lorawan.Payload) (string, bool) {
	switch v := p.(type) {
	case *lorawan.DataPayload:
		s, t := a.place(v.Bytes)
		v.Bytes = s
		return "(HIData " + t + ")", true
	case *lorawan.MACCommand:
		if v.Payload == nil {
			return fmt.Sprintf("(HIMac %d None)", byte(v.CID)), true
		}
		if pp, ok := v.Payload.(*lorawan.ProprietaryMACCommandPayload); ok {
			s, t := a.place(pp.Bytes)
			pp.Bytes = s
			return fmt.Sprintf("(HIMac %d (Some (HPProp %s)))", byte(v.CID), t), true
		}
		return fmt.Sprintf("(HIMac %d (Some (HPVal %s)))", byte(v.CID), macfmt.Payload(v.Payload)), true
	}
	return "", false
}

func (a *arena) hitems(ps []lorawan.Payload) (string, bool) {
	out := make([]string, len(ps))
	for i, p := range ps {
		t, ok := a.hitem(p)
		if !ok {
			return "", false
		}
		out[i] = t
	}
	return cq.List(out), true
}

// hphy relocates every byte slice of p into guarded memory and returns the term.
func (a *arena) hphy(p *lorawan.PHYPayload) (string, bool) {
	var pl string
	switch v := p.MACPayload.(type) {
	case nil:
		pl = "HPLNil"
	case *lorawan.MACPayload:
		fo, ok1 := a.hitems(v.FHDR.FOpts)
		frm, ok2 := a.hitems(v.FRMPayload)
		if !ok1 || !ok2 {
			return "", false
		}
		port := cq.None
		if v.FPort != nil {
			port = cq.Some(fmt.Sprintf("%d", *v.FPort))
		}
		pl = fmt.Sprintf("(HPLMac (mkHMAC (mkHFHDR %s %s %d %s) %s %s))", cq.Bytes(v.FHDR.DevAddr[:]), framefmt.FCtrl(v.FHDR.FCtrl, 0), v.FHDR.FCnt, fo, port, frm)
	case *lorawan.DataPayload:
		s, t := a.place(v.Bytes)
		v.Bytes = s
		pl = "(HPLData " + t + ")"
	case *lorawan.JoinRequestPayload, *lorawan.JoinAcceptPayload, *lorawan.RejoinRequestType02Payload, *lorawan.RejoinRequestType1Payload:
		t := framefmt.Payload(v, 0)
		if strings.Contains(t, "Unknown") {
			return "", false
		}
		pl = "(HPLVal " + t + ")"
	default:
		return "", false
	}
	return fmt.Sprintf("(mkHPHY %d %d %s %s)", byte(p.MHDR.MType), byte(p.MHDR.Major), pl, cq.Bytes(p.MIC[:])), true
}

func snapshot(p lorawan.PHYPayload, foptsLen int) string { return framefmt.Phy(p, foptsLen) }

func okTerm(s string) bool { return !strings.Contains(s, "Unknown") }

// ---- cases ----

type H struct {
	s          *cases.Set
	r          *cq.RNG
	forceSpare int
	nprobes    int
	nprobesOK  int
	nnested    int
	nestedSeen map[string]bool
	roProbes   int
	nparts     int
	nlists     int
	nptrs      int
}

func (h *H) arena() *arena { return &arena{r: h.r, force: h.forceSpare} }

// curWhat / curReplay describe the implementation call guard() is about to make (for the watchdog).
var (
	curWhat   = "implementation call"
	curReplay map[string]interface{}
)

func guard(f func() error) (status string) {
	cases.Begin(curWhat, curReplay)
	defer cases.End()
	defer func() {
		if r := recover(); r != nil {
			status = cq.Panic
		}
	}()
	if err := f(); err != nil {
		return cq.Err
	}
	return "ok"
}

// decode: PHYPayload.UnmarshalBinary on a guarded window, then the caller scribbles over the buffer.
func (h *H) decode(wire []byte, spare int, kind string) {
	a := h.arena()
	in, off, capa := a.window(wire, spare)
	bk := cq.Bytes(a.bufs[0])
	var p lorawan.PHYPayload
	curWhat, curReplay = fmt.Sprintf("PHYPayload.UnmarshalBinary(%x)", wire), map[string]interface{}{"in": hexs(wire)}
	st := guard(func() error { return p.UnmarshalBinary(in) })
	fl := framefmt.DecodedFOptsLen(wire)
	o1 := st
	if st == "ok" {
		o1 = cq.Ok(snapshot(p, fl))
	}
	bk1 := cq.Bytes(a.bufs[0])
	scr := h.r.Byte()
	for i := range a.bufs[0] {
		a.bufs[0][i] = scr
	}
	o2 := st
	if st == "ok" {
		o2 = cq.Ok(snapshot(p, fl))
	}
	if !okTerm(o1) {
		return
	}
	h.s.Add(cases.Case{
		Term: fmt.Sprintf("CDecode %s %d %d %d %d %s %s %s", bk, off, len(wire), capa, scr, o1, bk1, o2),
		Key:  fmt.Sprintf("decode:%s:%s", kind, hexs(wire)), Kind: "decode-" + kind, Nontrivial: st == "ok",
		Replay: map[string]interface{}{"api": "PHYPayload.UnmarshalBinary(in); overwrite the buffer of in; inspect the frame", "in": hexs(wire), "spare_capacity": capa - len(wire), "scribble": scr},
	})
}

func (h *H) cmdDecode(up bool, wire []byte, spare int) {
	a := h.arena()
	in, off, capa := a.window(wire, spare)
	bk := cq.Bytes(a.bufs[0])
	var m lorawan.MACCommand
	curWhat, curReplay = fmt.Sprintf("MACCommand.UnmarshalBinary(%v, %x)", up, wire), map[string]interface{}{"uplink": up, "in": hexs(wire)}
	st := guard(func() error { return m.UnmarshalBinary(up, in) })
	o1 := st
	if st == "ok" {
		o1 = cq.Ok(macfmt.Item(&m))
	}
	bk1 := cq.Bytes(a.bufs[0])
	scr := h.r.Byte()
	for i := range a.bufs[0] {
		a.bufs[0][i] = scr
	}
	o2 := st
	if st == "ok" {
		o2 = cq.Ok(macfmt.Item(&m))
	}
	h.s.Add(cases.Case{
		Term: fmt.Sprintf("CCmdDecode %s %d %d %d %s %d %s %s %s", bk, off, len(wire), capa, cq.Bool(up), scr, o1, bk1, o2),
		Key:  fmt.Sprintf("cmd-decode:up=%v:%s", up, hexs(wire)), Kind: "cmd-decode", Nontrivial: st == "ok",
		Replay: map[string]interface{}{"api": "MACCommand.UnmarshalBinary(uplink, in); overwrite the buffer of in; inspect the command", "uplink": up, "in": hexs(wire), "scribble": scr},
	})
}

func (h *H) encFRM(data []byte, spare int) {
	a := h.arena()
	in, off, capa := a.window(data, spare)
	bk := cq.Bytes(a.bufs[0])
	var key lorawan.AES128Key
	copy(key[:], h.r.Bytes(16))
	var da lorawan.DevAddr
	copy(da[:], h.r.Bytes(4))
	up := h.r.Bool()
	fcnt := h.r.U32()
	var out []byte
	curWhat, curReplay = fmt.Sprintf("EncryptFRMPayload(len=%d)", len(data)), map[string]interface{}{"data": hexs(data), "key": hexs(key[:])}
	st := guard(func() (err error) { out, err = lorawan.EncryptFRMPayload(key, up, da, fcnt, in); return })
	o := st
	if st == "ok" {
		o = cq.Ok(cq.Bytes(out))
	}
	h.s.Add(cases.Case{
		Term: fmt.Sprintf("CEncFRM %s %d %d %d %s %s %s %d %s %s", bk, off, len(data), capa, cq.Bytes(key[:]), cq.Bool(up), cq.Bytes(da[:]), fcnt, o, cq.Bytes(a.bufs[0])),
		Key:  fmt.Sprintf("encrypt-frmpayload:len=%d:spare=%d", len(data), capa-len(data)), Kind: "encrypt-frmpayload", Nontrivial: true,
		Replay: map[string]interface{}{"api": "EncryptFRMPayload(key, uplink, devAddr, fCnt, buf[off:off+len:off+cap]); inspect buf", "data": hexs(data), "spare_capacity": capa - len(data), "key": hexs(key[:]), "uplink": up, "devaddr": hexs(da[:]), "fcnt": fcnt},
	})
}

func (h *H) encFOpts(data []byte, spare int) {
	a := h.arena()
	in, off, capa := a.window(data, spare)
	bk := cq.Bytes(a.bufs[0])
	var key lorawan.AES128Key
	copy(key[:], h.r.Bytes(16))
	var da lorawan.DevAddr
	copy(da[:], h.r.Bytes(4))
	up, afd := h.r.Bool(), h.r.Bool()
	fcnt := h.r.U32()
	var out []byte
	curWhat, curReplay = fmt.Sprintf("EncryptFOpts(len=%d)", len(data)), map[string]interface{}{"data": hexs(data), "key": hexs(key[:])}
	st := guard(func() (err error) { out, err = lorawan.EncryptFOpts(key, afd, up, da, fcnt, in); return })
	o := st
	if st == "ok" {
		o = cq.Ok(cq.Bytes(out))
	}
	h.s.Add(cases.Case{
		Term: fmt.Sprintf("CEncFOpts %s %d %d %d %s %s %s %s %d %s %s", bk, off, len(data), capa, cq.Bytes(key[:]), cq.Bool(afd), cq.Bool(up), cq.Bytes(da[:]), fcnt, o, cq.Bytes(a.bufs[0])),
		Key:  fmt.Sprintf("encrypt-fopts:len=%d:spare=%d", len(data), capa-len(data)), Kind: "encrypt-fopts", Nontrivial: true,
		Replay: map[string]interface{}{"api": "EncryptFOpts(key, aFCntDown, uplink, devAddr, fCnt, buf[off:off+len:off+cap]); inspect buf", "data": hexs(data), "spare_capacity": capa - len(data), "key": hexs(key[:])},
	})
}

func (h *H) decryptJA(ct []byte, spare int) {
	a := h.arena()
	in, off, capa := a.window(ct, spare)
	bk := cq.Bytes(a.bufs[0])
	var key lorawan.AES128Key
	copy(key[:], h.r.Bytes(16))
	p := lorawan.PHYPayload{MHDR: lorawan.MHDR{MType: lorawan.JoinAccept}, MACPayload: &lorawan.DataPayload{Bytes: in}}
	copy(p.MIC[:], h.r.Bytes(4))
	mic := cq.Bytes(p.MIC[:])
	curWhat, curReplay = fmt.Sprintf("DecryptJoinAcceptPayload(%x)", ct), map[string]interface{}{"bytes": hexs(ct), "key": hexs(key[:])}
	st := guard(func() error { return p.DecryptJoinAcceptPayload(key) })
	o := st
	if st == "ok" {
		o = cq.Ok(snapshot(p, 0))
	}
	if !okTerm(o) {
		return
	}
	h.s.Add(cases.Case{
		Term: fmt.Sprintf("CDecryptJA %s %d %d %d %s %s %s %s", bk, off, len(ct), capa, mic, cq.Bytes(key[:]), o, cq.Bytes(a.bufs[0])),
		Key:  fmt.Sprintf("decrypt-joinaccept:len=%d:spare=%d", len(ct), capa-len(ct)), Kind: "decrypt-joinaccept", Nontrivial: true,
		Replay: map[string]interface{}{"api": "PHYPayload{JoinAccept, &DataPayload{Bytes: buf[off:off+len:off+cap]}}.DecryptJoinAcceptPayload(key); inspect buf", "bytes": hexs(ct), "spare_capacity": capa - len(ct), "key": hexs(key[:])},
	})
}

func (h *H) marshal(p lorawan.PHYPayload, kind string) {
	a := h.arena()
	f, ok := a.hphy(&p)
	if !ok {
		return
	}
	bufs := a.dump()
	snap0 := snapshot(p, 0)
	var out []byte
	curWhat, curReplay = "PHYPayload.MarshalBinary:"+snap0, map[string]interface{}{"frame": snap0}
	st := guard(func() (err error) { out, err = p.MarshalBinary(); return })
	o := st
	if st == "ok" {
		o = cq.Ok(cq.Bytes(out))
	}
	bufs1 := a.dump()
	scr := h.r.Byte()
	if st == "ok" {
		out = out[:cap(out)]
		for i := range out {
			out[i] = scr
		}
	}
	snap1 := snapshot(p, 0)
	if !okTerm(snap0) {
		return
	}
	h.s.Add(cases.Case{
		Term: fmt.Sprintf("CMarshal %s %s %d %s %s %s %s", bufs, f, scr, snap0, o, bufs1, snap1),
		Key:  fmt.Sprintf("marshal:%s:%s", kind, snap0), Kind: "marshal-" + kind, Nontrivial: st == "ok",
		Replay: map[string]interface{}{"api": "PHYPayload.MarshalBinary(); overwrite the output incl. spare capacity; inspect the frame and its byte slices", "frame": snap0, "scribble": scr},
	})
}

func (h *H) mic(p lorawan.PHYPayload, which int, set bool) {
	a := h.arena()
	f, ok := a.hphy(&p)
	if !ok {
		return
	}
	bufs := a.dump()
	snap0 := snapshot(p, 0)
	var k1, k2 lorawan.AES128Key
	copy(k1[:], h.r.Bytes(16))
	copy(k2[:], h.r.Bytes(16))
	ver := lorawan.MACVersion(h.r.Intn(2))
	var eui lorawan.EUI64
	copy(eui[:], h.r.Bytes(8))
	curWhat, curReplay = fmt.Sprintf("MIC which=%d set=%v:%s", which, set, snap0), map[string]interface{}{"frame": snap0, "which": which, "set": set}
	st := guard(func() (err error) {
		switch which {
		case 0:
			if set {
				return p.SetUplinkDataMIC(ver, h.r.U32(), h.r.Byte(), h.r.Byte(), k1, k2)
			}
			_, err = p.ValidateUplinkDataMIC(ver, h.r.U32(), h.r.Byte(), h.r.Byte(), k1, k2)
		case 1:
			if set {
				return p.SetDownlinkDataMIC(ver, h.r.U32(), k1)
			}
			_, err = p.ValidateDownlinkDataMIC(ver, h.r.U32(), k1)
		case 2:
			if set {
				return p.SetUplinkJoinMIC(k1)
			}
			_, err = p.ValidateUplinkJoinMIC(k1)
		default:
			if set {
				return p.SetDownlinkJoinMIC(lorawan.JoinType(h.r.Intn(3)), eui, lorawan.DevNonce(h.r.Intn(65536)), k1)
			}
			_, err = p.ValidateDownlinkJoinMIC(lorawan.JoinType(h.r.Intn(3)), eui, lorawan.DevNonce(h.r.Intn(65536)), k1)
		}
		return
	})
	if st == cq.Panic || !okTerm(snap0) {
		if st == cq.Panic {
			h.s.Fail(cases.GoFail{Key: "mic-panic:" + snap0, What: "MIC calculation panicked", Replay: map[string]interface{}{"frame": snap0, "which": which}})
		}
		return
	}
	h.s.Add(cases.Case{
		Term: fmt.Sprintf("CMic %s %s %d %s %s %s %s %s", bufs, f, which, cq.Bool(set), snap0, cq.Bool(st == "ok"), a.dump(), snapshot(p, 0)),
		Key:  fmt.Sprintf("mic:which=%d:set=%v:%s", which, set, snap0), Kind: fmt.Sprintf("mic-%d-set=%v", which, set), Nontrivial: st == "ok",
		Replay: map[string]interface{}{"api": "Validate*/Set*MIC (which: 0 uplink data, 1 downlink data, 2 uplink join, 3 downlink join); inspect frame and its byte slices", "which": which, "set": set, "frame": snap0},
	})
}

func (h *H) frameCrypt(p lorawan.PHYPayload, which int) { h.frameCryptKey(p, which, nil) }

// frameCryptKey: with k == nil a random key is drawn.
func (h *H) frameCryptKey(p lorawan.PHYPayload, which int, k *lorawan.AES128Key) {
	a := h.arena()
	f, ok := a.hphy(&p)
	if !ok {
		return
	}
	bufs := a.dump()
	snap0 := snapshot(p, 0)
	var key lorawan.AES128Key
	copy(key[:], h.r.Bytes(16))
	if k != nil {
		key = *k
	}
	curWhat, curReplay = fmt.Sprintf("frame-crypt which=%d:%s", which, snap0), map[string]interface{}{"frame": snap0, "which": which, "key": hexs(key[:])}
	st := guard(func() error {
		switch which {
		case 0:
			return p.EncryptFRMPayload(key)
		case 1:
			return p.EncryptFOpts(key)
		case 2:
			return p.DecryptFRMPayload(key)
		case 3:
			return p.EncryptJoinAcceptPayload(key)
		default:
			return p.DecryptFOpts(key)
		}
	})
	o := st
	if st == "ok" {
		o = cq.Ok(snapshot(p, 0))
	}
	if !okTerm(o) || !okTerm(snap0) {
		return
	}
	h.s.Add(cases.Case{
		Term: fmt.Sprintf("CFrameCrypt %s %s %d %s %s %s", bufs, f, which, cq.Bytes(key[:]), o, a.dump()),
		Key:  fmt.Sprintf("frame-crypt:which=%d:%s", which, snap0), Kind: fmt.Sprintf("frame-crypt-%d", which), Nontrivial: st == "ok",
		Replay: map[string]interface{}{"api": "PHYPayload.EncryptFRMPayload (0) / EncryptFOpts (1) / DecryptFRMPayload (2) / EncryptJoinAcceptPayload (3) / DecryptFOpts (4); inspect the byte slices the frame held before", "which": which, "frame": snap0, "key": hexs(key[:])},
	})
}

func main() {
	log.SetOutput(io.Discard)
	dir, seed, thorough := cases.Args()
	r := cq.NewRNG(seed)
	s := cases.New("C10", dir, "LW.Corr.C10",
		"guard-byte harness: every slice handed to the implementation is a window of a patterned backing buffer with 0..8 guard bytes in front, spare capacity {0, 1..4, 0..31} and 0..4 guard bytes behind. Decode: valid data frames (4 MTypes x FOpts 0..15 x FPort absent/0/n x FRMPayload lengths incl. 0,1,15,16,17,241,242), join/rejoin/proprietary frames, truncations and random bytes, then the caller overwrites the buffer. Exported EncryptFRMPayload lengths 0..64 exhaustively x spare capacity classes + long payloads; EncryptFOpts lengths 0..17; DecryptJoinAcceptPayload 12/28(+MIC) byte forms and malformed lengths; Aliasing probes (decode from a private buffer, buffer unchanged, invert the buffer, value unchanged) of every exported UnmarshalBinary / UnmarshalText / Scan of the root package (FHDR and MACPayload with FOpts 0/1/5/15 x FPort absent/present x FRMPayload absent/present also against the heap model) and of the application-layer payloads, Command, Commands. MarshalBinary / MIC validate+set / frame-level encrypt+decrypt of frames whose DataPayload / proprietary payload bytes live in guarded windows, output overwritten incl. capacity; the same on hand-built frames whose FOpts / FRMPayload lists have 2..4 entries mixing DataPayload windows, built-in and proprietary MAC commands; reuse: every payload decoder of the root package into a used vs. a fresh value (all built-in kinds, ChMask, CFList payloads, JoinAccept 12 after 28, FHDR/MACPayload with and without FOpts/FPort/FRMPayload, MACCommand, PHYPayload); histories (no hidden shared state): a population of live values - decoded frames, frames after EncryptFOpts/DecryptFOpts/EncryptFRMPayload/DecryptFRMPayload, decoded MAC commands (built-in and registered proprietary CIDs, 2..3 commands of ONE CID in one FOpts/FRMPayload stream, then single commands of that CID), marshalled outputs - with the text each printed as when produced; fixed opening orders (encrypt A; encrypt+decrypt B; re-marshal A) then 140 random steps interleaved with internal/noise; after every call 4 members are re-printed, at the end all; payload objects of decoded commands and of GetMACPayloadAndSize must be pairwise distinct pointers; part outputs: for decoded data / join-accept / join-request / rejoin / proprietary frames (also after DecodeFOptsToMACCommands, DecryptFRMPayload, DecryptJoinAcceptPayload) the output of every part's MarshalBinary (MACPayload field, FHDR, FOpts / FRMPayload elements, command payloads, CFList and its payload, join payload fields, identifiers) is overwritten over its whole capacity: the frame prints and re-encodes the same; DataPayload / ProprietaryMACCommandPayload.MarshalBinary on guarded windows against the heap model; AES128Key / EUI64 / DevAddr / NetID.UnmarshalBinary with the input at every offset -n..n of the receiver inside one array (n = its size: all four types, every offset, in both tiers) against the heap model; shared lists: one []Payload list (FRMPayload / FOpts, with and without spare capacity) in two frames, or a struct copy of a decoded MACPayload, then EncryptFRMPayload / DecryptFRMPayload / DecodeFRMPayloadToMACCommands / EncryptFOpts / DecryptFOpts / DecodeFOptsToMACCommands on one: the other keeps its element pointers, order and deep print; pointer fields: after decoding (MACPayload / PHYPayload with every FPort value, every application-layer payload on all-zero / small-number / random inputs) every settable pointer-to-integer field of one decoded value is written through: an earlier value decoded from the same bytes and a later decode are unchanged; read-only inputs: every probe input that decodes is decoded once more from a PROT_READ page (also the stream decoders over every built-in command of both directions): a write, even one undone before returning, faults; nested caller memory: join-accepts whose CFList.Payload is a raw *DataPayload (15 / 6 / 0 bytes) or a foreign Payload, frames whose MACPayload is raw / foreign, data frames whose FOpts / FRMPayload mix raw, foreign and proprietary-command elements, a MACCommand with a proprietary payload - all byte slices in guarded windows with spare capacity - through CFList / JoinAcceptPayload / MACPayload / FHDR / PHYPayload.MarshalBinary, MarshalText, Set/Validate join + data MIC, EncryptJoinAcceptPayload, EncryptFRMPayload, EncryptFOpts: buffers unchanged incl. capacity, output shares no memory, overwriting the output changes nothing; kept copies: a struct copy (kept := *v) of every receiver, taken after the application touched it (32-bit FCnt restored, FOpts decoded) and before the next input is decoded into it, must print unchanged afterwards (root decoders, application-layer payloads / Command / Commands, a long-lived PHYPayload receiver chained through the history, slices and objects returned by band objects before later mutations); concurrent smoke: 8 goroutines repeating ~70 recorded tasks (on own values, and on the SAME shared input bytes) for 0.5 s while one goroutine registers proprietary CIDs 131..191, results compared with the sequential ones, progress-based hang detection; bands: two instances per band, random AddChannel/Disable/Enable history on one, snapshot of the other. Non-trivial = the call succeeded.")
	s.ShardSize = 120
	s.Watchdog(3 * time.Second) // a call that does not return becomes the failing input hang:<what>
	h := &H{s: s, r: r, forceSpare: -1}
	for _, reg := range []struct {
		up   bool
		cid  lorawan.CID
		size int
	}{{true, 128, 3}, {false, 129, 2}, {true, 130, 1}} {
		if err := lorawan.RegisterProprietaryMACCommand(reg.up, reg.cid, reg.size); err != nil {
			fmt.Fprintln(os.Stderr, err)
			os.Exit(2)
		}
	}
	mult := 1
	if thorough {
		mult = 25
	}

	// ---- corpus: witnesses of the defects found on the unchanged tree ----
	h.decode([]byte{0x40, 1, 2, 3, 4, 0x02, 5, 0, 0xaa, 0xbb, 7, 0xcc, 0xdd, 9, 9, 9, 9}, 3, "corpus") // C10-1
	h.decode([]byte{0x40, 1, 2, 3, 4, 0x02, 5, 0, 0xaa, 0xbb, 0, 9, 9, 9, 9}, 2, "corpus")             // FPort 0 + FOpts, empty FRMPayload: refused (C08 fix)
	h.decode([]byte{0x40, 1, 2, 3, 4, 0x00, 5, 0, 0, 9, 9, 9, 9}, 0, "corpus")                         // FPort 0, no FOpts, empty FRMPayload: accepted
	h.cmdDecode(true, []byte{128, 0xaa, 0xbb, 0xcc}, 2)                                                // C10-1b
	h.encFRM([]byte{1, 2, 3, 4, 5}, 27)                                                                // C10-2
	h.decryptJA(r.Bytes(12), 20)                                                                       // C10-4
	h.reuseCorpus()                                                                                    // C10-3

	// ---- decode ----
	for i := 0; i < 110*mult; i++ {
		p := framefmt.DataFrame(r, framefmt.ValidDataOpt(r))
		if b, err := p.MarshalBinary(); err == nil {
			h.decode(b, (&arena{r: r, force: -1}).spare(), "data")
			if i%5 == 0 && len(b) > 1 { // truncation
				h.decode(b[:r.Intn(len(b))], r.Intn(8), "truncated")
			}
		}
		if i%4 == 0 {
			k := (i / 4) % 5
			j := framefmt.JoinFrame(r, k)
			if b, err := j.MarshalBinary(); err == nil {
				h.decode(b, r.Intn(32), fmt.Sprintf("join%d", k))
			}
			q := lorawan.PHYPayload{MHDR: lorawan.MHDR{MType: lorawan.Proprietary}, MACPayload: &lorawan.DataPayload{Bytes: r.Bytes(r.Intn(40))}}
			if b, err := q.MarshalBinary(); err == nil {
				h.decode(b, r.Intn(32), "proprietary")
			}
			h.decode(r.Bytes(r.Intn(40)), r.Intn(8), "random")
		}
	}
	for i := 0; i < 12*mult; i++ {
		up := r.Bool()
		cid := []byte{128, 129, 130, 3, 5, 0x20, 0x55}[r.Intn(7)]
		n := r.Intn(6)
		h.cmdDecode(up, append([]byte{cid}, r.Bytes(n)...), r.Intn(8))
	}

	// ---- exported encryption functions ----
	for n := 0; n <= 64; n++ {
		h.encFRM(r.Bytes(n), []int{0, 1 + r.Intn(15), 16 + r.Intn(16)}[n%3])
		if thorough {
			for sp := 0; sp < 32; sp++ {
				h.encFRM(r.Bytes(n), sp)
			}
		}
	}
	s.Exhaustive("EncryptFRMPayload: payload lengths 0..64 (spare capacity 0 / 1..15 / 16..31 in rotation; thorough: x every spare capacity 0..31)")
	for i := 0; i < 12*mult; i++ {
		h.encFRM(r.Bytes(65+r.Intn(190)), r.Intn(32))
	}
	for n := 0; n <= 17; n++ {
		h.encFOpts(r.Bytes(n), r.Intn(32))
		h.encFOpts(r.Bytes(n), 0)
	}
	s.Exhaustive("EncryptFOpts: lengths 0..17 x spare capacity {0, random}")
	for i := 0; i < 10*mult; i++ {
		n := []int{12, 28, 12, 28, 0, 11, 13, 27, 44}[i%9]
		h.decryptJA(r.Bytes(n), []int{0, 4, r.Intn(32)}[i%3])
	}

	// ---- frames that hold guarded slices ----
	for i := 0; i < 45*mult; i++ {
		p := framefmt.DataFrame(r, framefmt.ValidDataOpt(r))
		h.withProprietary(&p)
		h.marshal(p, "data")
		if i%3 == 0 {
			j := framefmt.JoinFrame(r, (i/3)%5)
			h.marshal(j, "join")
			q := lorawan.PHYPayload{MHDR: lorawan.MHDR{MType: []lorawan.MType{lorawan.Proprietary, lorawan.JoinAccept}[i%2]}, MACPayload: &lorawan.DataPayload{Bytes: r.Bytes(r.Intn(40))}}
			copy(q.MIC[:], r.Bytes(4))
			h.marshal(q, "datapayload")
		}
		if i%9 == 0 { // malformed: encoder refuses
			o := framefmt.ValidDataOpt(r)
			o.FOptsBytes, o.FOptsRaw = 16+r.Intn(20), true
			h.marshal(framefmt.DataFrame(r, o), "malformed")
		}
	}
	for i := 0; i < 24*mult; i++ {
		p := framefmt.DataFrame(r, framefmt.ValidDataOpt(r))
		h.withProprietary(&p)
		which := 0
		if p.MHDR.MType == lorawan.UnconfirmedDataDown || p.MHDR.MType == lorawan.ConfirmedDataDown {
			which = 1
		}
		h.mic(p, which, i%3 == 0)
		if i%4 == 0 {
			h.mic(framefmt.JoinFrame(r, []int{0, 2, 3, 4}[(i/4)%4]), 2, i%8 == 0)
			h.mic(framefmt.JoinFrame(r, 1), 3, i%8 == 0)
			h.mic(framefmt.JoinFrame(r, 0), 0, false) // wrong payload type: error path
		}
	}
	for i := 0; i < 24*mult; i++ {
		o := framefmt.ValidDataOpt(r)
		if o.FRMLen > 64 && !thorough {
			o.FRMLen = 1 + r.Intn(64)
		}
		p := framefmt.DataFrame(r, o)
		h.withProprietary(&p)
		h.frameCrypt(p, []int{0, 1, 2, 4}[i%4])
		if i%6 == 0 {
			h.frameCrypt(framefmt.JoinFrame(r, 1), 3)
			// FPort 0 with an empty FRMPayload (nothing to decode), with and without FOpts
			q := framefmt.DataFrame(r, framefmt.Opt{MType: lorawan.MType(2 + r.Intn(4)), Port: 0, FOptsBytes: []int{0, 3}[i/6%2]})
			h.frameCrypt(q, 2)
		}
	}

	// ---- multi-entry FOpts / FRMPayload lists ----
	h.mixed(mult)

	// ---- aliasing probes of every exported decoder entry point ----
	h.probes(mult)

	// ---- encoded output of every part of a frame; identifier decoders with overlapping input ----
	h.elements(mult)

	// ---- the caller's []Payload lists; pointer fields of decoded values ----
	h.lists(mult)
	h.pointers(mult)

	// ---- caller memory behind nested interface-typed fields ----
	h.nested(mult)

	// ---- no hidden shared state, over histories ----
	h.history(mult)

	// ---- reuse of values, band instances ----
	h.reuse(mult)
	h.appReuse(mult)
	h.bands(mult)

	if thorough {
		h.raceRun()
	} else {
		s.Extra["race_run"] = "quick tier: not run (thorough tier builds cmd/c10race with -race and runs it)"
	}
	// last: it re-registers proprietary CIDs 131..191 (never 128..130, which the model-compared cases use)
	h.concurrentSmoke()
	if err := s.Finish(); err != nil {
		fmt.Fprintln(os.Stderr, err)
		os.Exit(2)
	}
}

// withProprietary sometimes turns the frame into a port-0 frame that carries a registered proprietary command.
func (h *H) withProprietary(p *lorawan.PHYPayload) {
	m, ok := p.MACPayload.(*lorawan.MACPayload)
	if !ok || h.r.Intn(6) != 0 {
		return
	}
	up := p.MHDR.MType == lorawan.UnconfirmedDataUp || p.MHDR.MType == lorawan.ConfirmedDataUp
	var c *lorawan.MACCommand
	if up {
		c = &lorawan.MACCommand{CID: 128, Payload: &lorawan.ProprietaryMACCommandPayload{Bytes: h.r.Bytes(3)}}
	} else {
		c = &lorawan.MACCommand{CID: 129, Payload: &lorawan.ProprietaryMACCommandPayload{Bytes: h.r.Bytes(2)}}
	}
	if h.r.Bool() && len(m.FHDR.FOpts) == 0 {
		port := uint8(0)
		m.FPort = &port
		m.FRMPayload = append([]lorawan.Payload{c}, framefmt.ValidCmds(h.r, up, h.r.Intn(10))...)
	} else if m.FPort == nil || *m.FPort != 0 {
		m.FHDR.FOpts = []lorawan.Payload{c}
	}
}
