(* Outcomes of Go calls as values: normal return, returned error, run-time
   panic, and fuel exhaustion (a loop that did not finish within the bound). *)
From Coq Require Import List NArith ZArith Bool.
Import ListNotations.

Inductive outcome (A : Type) : Type :=
| Ok (a : A)
| Err
| Panic
| OutOfFuel.
Arguments Ok {A} a.
Arguments Err {A}.
Arguments Panic {A}.
Arguments OutOfFuel {A}.

Definition bind {A B} (x : outcome A) (f : A -> outcome B) : outcome B :=
  match x with
  | Ok a => f a
  | Err => Err
  | Panic => Panic
  | OutOfFuel => OutOfFuel
  end.

Definition omap {A B} (f : A -> B) (x : outcome A) : outcome B :=
  bind x (fun a => Ok (f a)).

Notation "'do' x <- e ; k" := (bind e (fun x => k))
  (at level 200, x pattern, e at level 100, k at level 200, right associativity).

Definition is_ok {A} (x : outcome A) : bool :=
  match x with Ok _ => true | _ => false end.
Definition is_err {A} (x : outcome A) : bool :=
  match x with Err => true | _ => false end.
Definition is_panic {A} (x : outcome A) : bool :=
  match x with Panic => true | _ => false end.

Definition outcome_eqb {A} (eqb : A -> A -> bool) (x y : outcome A) : bool :=
  match x, y with
  | Ok a, Ok b => eqb a b
  | Err, Err => true
  | Panic, Panic => true
  | OutOfFuel, OutOfFuel => true
  | _, _ => false
  end.

Lemma bind_ok {A B} (x : outcome A) (f : A -> outcome B) b :
  bind x f = Ok b -> exists a, x = Ok a /\ f a = Ok b.
Proof. destruct x; simpl; intros H; try discriminate; eauto. Qed.

(* Result codes of correspondence cases: bit 0 = model differs from the
   implementation, bit 1 = the property fails on the observed behaviour. *)
Definition code (model_ok prop_ok : bool) : N :=
  ((if model_ok then 0 else 1) + (if prop_ok then 0 else 2))%N.

Definition run_with {C} (check : C -> N) (cs : list (N * C)) : list (N * N) :=
  filter (fun r => negb (N.eqb (snd r) 0))
         (map (fun ic => (fst ic, check (snd ic))) cs).

Fixpoint list_eqb {A} (eqb : A -> A -> bool) (l1 l2 : list A) : bool :=
  match l1, l2 with
  | [], [] => true
  | a :: l1', b :: l2' => eqb a b && list_eqb eqb l1' l2'
  | _, _ => false
  end.

Lemma list_eqb_eq {A} (eqb : A -> A -> bool)
      (H : forall a b, eqb a b = true <-> a = b) l1 l2 :
  list_eqb eqb l1 l2 = true <-> l1 = l2.
Proof.
  revert l2; induction l1 as [|a l1 IH]; intros [|b l2]; simpl; split; intros E;
    try reflexivity; try discriminate.
  - apply andb_true_iff in E as [E1 E2]. apply H in E1. apply IH in E2. now subst.
  - inversion E; subst. apply andb_true_iff; split; [now apply H | now apply IH].
Qed.

Definition bytes_eqb := list_eqb N.eqb.
Lemma bytes_eqb_eq l1 l2 : bytes_eqb l1 l2 = true <-> l1 = l2.
Proof. apply list_eqb_eq. intros; apply N.eqb_eq. Qed.

Definition option_eqb {A} (eqb : A -> A -> bool) (x y : option A) : bool :=
  match x, y with
  | Some a, Some b => eqb a b
  | None, None => true
  | _, _ => false
  end.
