From Coq Require Import List NArith ZArith Bool Lia.
From LW Require Import Base.Outcome Base.Bytes Mac.Commands Mac.Stream.
Import ListNotations.
Open Scope N_scope.

Lemma blist_eqb_eq a b : blist_eqb a b = true -> a = b.
Proof. apply list_eqb_eq. intros x y. split; [apply eqb_prop | intros ->; apply eqb_reflx]. Qed.

Ltac split_and :=
  repeat match goal with
  | H : _ && _ = true |- _ => apply andb_true_iff in H; destruct H
  end.
Ltac conv_eqs :=
  repeat match goal with
  | H : (_ =? _) = true |- _ => apply N.eqb_eq in H
  | H : (_ =? _)%Z = true |- _ => apply Z.eqb_eq in H
  | H : Bool.eqb _ _ = true |- _ => apply eqb_prop in H
  | H : blist_eqb _ _ = true |- _ => apply blist_eqb_eq in H
  | H : bytes_eqb _ _ = true |- _ => apply bytes_eqb_eq in H
  end.

Lemma macpl_eqb_eq a b : macpl_eqb a b = true -> a = b.
Proof.
  destruct a, b; cbn [macpl_eqb]; intros H; try discriminate; split_and; conv_eqs; subst; reflexivity.
Qed.

Lemma blist_eqb_refl a : blist_eqb a a = true.
Proof. apply list_eqb_eq; [|reflexivity]. intros x y. split; [apply eqb_prop | intros ->; apply eqb_reflx]. Qed.
Lemma bytes_eqb_refl a : bytes_eqb a a = true.
Proof. apply bytes_eqb_eq. reflexivity. Qed.

Lemma macpl_eqb_refl a : macpl_eqb a a = true.
Proof.
  destruct a; cbn [macpl_eqb];
    rewrite ?N.eqb_refl, ?Z.eqb_refl, ?eqb_reflx, ?blist_eqb_refl, ?bytes_eqb_refl; reflexivity.
Qed.

Lemma peqb_eq (x y : outcome macpl) : outcome_eqb macpl_eqb x y = true -> x = y.
Proof.
  destruct x, y; cbn; intros H; try discriminate; try reflexivity. f_equal. now apply macpl_eqb_eq.
Qed.

Lemma oeqb_eq (x y : outcome (list N)) : outcome_eqb bytes_eqb x y = true -> x = y.
Proof.
  destruct x, y; cbn; intros H; try discriminate; try reflexivity. f_equal. now apply bytes_eqb_eq.
Qed.
