(* Proofs about the clock-synchronization model: every payload whose fields
   are within the TS003 widths encodes to the specified layout, of the
   reported size, and decodes back, also when more bytes follow; encoding
   never panics; well-formed streams round-trip. *)
From Coq Require Import List NArith ZArith Bool Lia.
From Coq Require Import ZifyN ZifyNat ZifyBool.
From LW Require Import Base.Outcome Base.Bytes App.Common App.Spec App.ProofTools App.StreamProofs
     App.ClockSync.
Import ListNotations.
Open Scope N_scope.
Ltac Zify.zify_post_hook ::= Z.div_mod_to_equations.

Lemma i32_roundtrip tc : (- 2 ^ 31 <= tc < 2 ^ 31)%Z -> i32_of_u32 (u32_of_i32 tc) = tc.
Proof.
  intros H. unfold i32_of_u32, u32_of_i32.
  destruct (Z.to_N (tc mod 2 ^ 32) <? 2 ^ 31) eqn:E; lia.
Qed.

Lemma u32_of_i32_lt tc : u32_of_i32 tc < 2 ^ 32.
Proof. unfold u32_of_i32. lia. Qed.

Theorem payload_roundtrip p rest : CS.in_widthb p = true ->
  exists bs d, enc p = Ok bs /\ length bs = psize p /\ bs = spec_bytes (CS.spec p)
    /\ lookup (uplink_of p) (cid_of p) = Some d /\ d (bs ++ rest) = Ok p.
Proof.
  intros H. unfold CS.in_widthb in H.
  destruct p as [i v|dt ans tok|tc tok|per|ns t|nb]; cbn [CS.spec CS.extra] in H; widths H;
    eexists; eexists; (split; [reflexivity|]); (split; [reflexivity|]);
    (split; [|split; [reflexivity|]]).
  - cbn [CS.spec]; layout. bytes_eq; lia.
  - unfold dec_PackageVersionAns. run. reflexivity.
  - cbn [CS.spec]; layout. bytes_eq; try lia. destruct ans; enum tok 16%nat; reflexivity.
  - unfold dec_AppTimeReq. run. fields_eq; try lia; destruct ans; enum tok 16%nat; reflexivity.
  - cbn [CS.spec]; layout. unfold u32_of_i32. bytes_eq; try lia. enum tok 16%nat; reflexivity.
  - unfold dec_AppTimeAns. run. fields_eq.
    + transitivity (i32_of_u32 (u32_of_i32 tc)); [f_equal|apply i32_roundtrip; lia].
      pose proof (u32_of_i32_lt tc) as Hu. revert Hu. generalize (u32_of_i32 tc). intros u Hu. lia.
    + enum tok 16%nat; reflexivity.
  - cbn [CS.spec]; layout. bytes_eq. enum per 16%nat; reflexivity.
  - unfold dec_DeviceAppTimePeriodicityReq. run. fields_eq. enum per 16%nat; reflexivity.
  - cbn [CS.spec]; layout. bytes_eq; try lia. destruct ns; reflexivity.
  - unfold dec_DeviceAppTimePeriodicityAns. run. fields_eq; try lia. destruct ns; reflexivity.
  - cbn [CS.spec]; layout. bytes_eq. enum nb 8%nat; reflexivity.
  - unfold dec_ForceDeviceResyncReq. run. fields_eq. enum nb 8%nat; reflexivity.
Qed.

Theorem enc_no_panic p : enc p <> Panic.
Proof. destruct p; discriminate. Qed.

Lemma dec_fuel_free up cid d data : lookup up cid = Some d -> d data <> OutOfFuel.
Proof.
  unfold lookup. destruct up.
  - destruct cid as [|[[|[]|]|[|[]|]|]]; intros E; inversion E; subst; clear E.
    all: unfold dec_PackageVersionAns, dec_AppTimeReq, dec_DeviceAppTimePeriodicityAns, rd_le, sub, idx.
    all: repeat (match goal with |- context [if ?c then _ else _] => destruct c
                           | |- context [match nth_error ?l ?i with _ => _ end] => destruct (nth_error l i) end;
                 cbn [bind]); discriminate.
  - destruct cid as [|[[|[]|]|[|[]|]|]]; intros E; inversion E; subst; clear E.
    all: unfold dec_AppTimeAns, dec_DeviceAppTimePeriodicityReq, dec_ForceDeviceResyncReq, rd_le, sub, idx.
    all: repeat (match goal with |- context [if ?c then _ else _] => destruct c
                           | |- context [match nth_error ?l ?i with _ => _ end] => destruct (nth_error l i) end;
                 cbn [bind]); discriminate.
Qed.

Lemma cmd_roundtrip up (c : command) rest :
  CSW.wf_cmd up c = true ->
  exists bs, cmd_enc c = Ok bs /\ length bs = cmd_size c /\ bs = spec_cmd_bytes CS.spec c
             /\ cmd_dec up (whole up (bs ++ rest)) = Ok c.
Proof.
  destruct c as [cid [p|]]; unfold CSW.wf_cmd, wf_cmd; cbn [fst snd]; intros H.
  - apply andb_true_iff in H as [H Hw]. apply andb_true_iff in H as [Hc Hu].
    apply N.eqb_eq in Hc. apply eqb_prop in Hu. subst cid up.
    destruct (payload_roundtrip p rest Hw) as (bs & d & E & L & S & Lk & D).
    exists (cid_of p :: bs). unfold cmd_enc, Common.cmd_enc, cmd_size, Common.cmd_size, cmd_dec, Common.cmd_dec, whole.
    cbn [fst snd]. rewrite E. cbn [bind app length]. rewrite L.
    split; [reflexivity|]. split; [lia|]. split; [unfold spec_cmd_bytes; cbn [fst snd]; now rewrite S|].
    rewrite Lk, D. reflexivity.
  - apply andb_true_iff in H as [Hc Hn]. exists [cid].
    unfold cmd_enc, Common.cmd_enc, cmd_size, Common.cmd_size, cmd_dec, Common.cmd_dec, whole.
    cbn [fst snd app]. repeat split.
    unfold CSW.has_payload, opt_some in Hn. destruct (lookup up cid); [discriminate|reflexivity].
Qed.

Theorem stream_roundtrip up (cs : list command) :
  CSW.wf_stream up cs = true ->
  exists bs, cmds_enc cs = Ok bs
    /\ length bs = fold_right Nat.add O (map cmd_size cs)
    /\ bs = CSW.stream_bytes cs
    /\ cmds_dec up bs = Ok cs.
Proof.
  apply (StreamProofs.stream_roundtrip payload enc psize lookup whole CS.in_widthb cid_of uplink_of
           CSW.has_payload never CS.spec).
  intros up' c rest Hwf _. now apply cmd_roundtrip.
Qed.

Theorem stream_dec_terminates up data : cmds_dec up data <> OutOfFuel.
Proof. apply (StreamProofs.stream_dec_terminates payload psize lookup whole dec_fuel_free). Qed.
