#!/usr/bin/env python3
"""Runs tools/seedcheck.sh over seeded defects and summarises: usage seedall.py <root> [Cxx/a ...]"""
import sys, os, subprocess, re, json, concurrent.futures
root = sys.argv[1]
sel = sys.argv[2:]
todo = []
for pid in sorted(os.listdir(root)):
    for v in ("a", "b"):
        d = os.path.join(root, pid, v)
        if os.path.exists(os.path.join(d, "patch.diff")) and os.path.exists(os.path.join(d, "meta.json")):
            if not sel or ("%s/%s" % (pid, v)) in sel:
                todo.append((pid, v, d))
def run(t):
    pid, v, d = t
    extra = json.load(open(os.path.join(d, "meta.json"))).get("also_checks", [])
    p = subprocess.run(["/verif/tools/seedcheck.sh", d, pid] + extra, capture_output=True, text=True)
    out = p.stdout + p.stderr
    open(os.path.join(d, "seedcheck.log"), "w").write(out)
    m = re.search(r"demo on clean tree \(must pass\)\nrc=(\d+)", out)
    clean = m.group(1) if m else "?"
    m = re.search(r"demo on patched tree \(must fail\)\nrc=(\d+)", out)
    patched = m.group(1) if m else "?"
    suite = out.split("== suite on patched tree")[1].split("== check")[0] if "== suite on patched tree" in out else ""
    suite_ok = not re.search(r"FAIL|panic|cannot|undefined", "\n".join(suite.splitlines()[1:]))
    checks = re.findall(r"== check (\w+) on patched tree\n(.*?)rc=(\d+)", out, re.S)
    res = "; ".join("%s rc=%s %s" % (c, rc, "VIOLATION" + (" nfi" if "no-failing-input-found" in body else "") if "VIOLATION" in body else "") for c, body, rc in checks)
    return "%s/%s demo_clean=%s demo_patched=%s suite_ok=%s | %s" % (pid, v, clean, patched, suite_ok, res)
with concurrent.futures.ThreadPoolExecutor(3) as ex:
    for r in ex.map(run, todo):
        print(r, flush=True)
