(* Model of the channel-plan state machine of /repo/band/band.go
   (AddChannel, Disable/EnableUplinkChannelIndex and the accessors), written to
   mirror the Go code function by function.  No band overrides these functions
   (US915/AU915 only override the LinkADRReq planner, see Planner.v).

   Go [int] indices, data-rates and [uint32] frequencies are all [Z] here;
   callers supply frequencies in [0, 2^32).  Model of the code AFTER the fix
   commit for C15-1 (negative indices are reported as errors instead of
   panicking); the pre-fix behaviour is kept as [*_prefix] for the record. *)
From Coq Require Import List ZArith Bool.
From LW Require Import Base.Outcome.
Import ListNotations.
Open Scope Z_scope.

(* band.go:102-108 *)
Record channel := mkChannel {
  freq : Z;      (* Frequency uint32, Hz *)
  minDR : Z;
  maxDR : Z;
  enabled : bool;
  custom : bool  (* configured by the user through AddChannel *)
}.

(* the part of [band] (band.go:251-261) the channel functions read *)
Record st := mkSt {
  extra : bool;            (* supportsExtraChannels *)
  cfmin : Z;               (* cFListMinDR *)
  cfmax : Z;               (* cFListMaxDR *)
  up : list channel;       (* uplinkChannels *)
  down : list channel;     (* downlinkChannels *)
  txp : list Z;            (* txPowerOffsets *)
  updr : list Z            (* the keys dr of dataRates with dataRates[dr].uplink *)
}.

Definition set_up (s : st) (u : list channel) : st :=
  mkSt (extra s) (cfmin s) (cfmax s) u (down s) (txp s) (updr s).

Definition zlen {A} (l : list A) : Z := Z.of_nat (length l).

(* l[i] for a Go int i: panics outside [0, len) *)
Definition zidx {A} (l : list A) (i : Z) : outcome A :=
  if (i <? 0) || (zlen l <=? i) then Panic
  else match nth_error l (Z.to_nat i) with Some a => Ok a | None => Panic end.

Fixpoint upd {A} (l : list A) (i : nat) (v : A) : list A :=
  match l, i with
  | [], _ => []
  | _ :: t, O => v :: t
  | h :: t, S i' => h :: upd t i' v
  end.

Fixpoint map_nth {A} (f : A -> A) (l : list A) (i : nat) : list A :=
  match l, i with
  | [], _ => []
  | h :: t, O => f h :: t
  | h :: t, S i' => h :: map_nth f t i'
  end.

Definition set_enabled (v : bool) (c : channel) : channel :=
  mkChannel (freq c) (minDR c) (maxDR c) v (custom c).

Inductive op :=
| AddChannel (f mn mx : Z)
| Disable (i : Z)
| Enable (i : Z).

(* AddChannel argument validation (fix for findings C15-8 / C15-9; before it every
   argument was accepted, [add_channel_prefix]).  All failed checks return an error
   and leave the tables unchanged, so their order does not matter for the model. *)
Definition dr_defined (drs : list Z) (d : Z) : bool := existsb (Z.eqb d) drs.

(* both ends are uplink data-rates of the band, min <= max, and so is every
   data-rate in between; written with [if] so that the range is only built for
   ends that are defined (bounded) *)
Definition valid_dr_range (drs : list Z) (mn mx : Z) : bool :=
  if dr_defined drs mn then
    if dr_defined drs mx then
      if mn <=? mx then forallb (fun k => dr_defined drs (mn + Z.of_nat k)) (seq 0 (Z.to_nat (mx - mn + 1)))
      else false
    else false
  else false.

(* the frequency is one NewChannelReq can carry: multiple of 100 Hz fitting 24 bits,
   from 2.4 GHz on a multiple of 200 Hz with the halved value fitting; 0 passes *)
Definition valid_channel_freq (f : Z) : bool :=
  let fr := if f >=? 2400000000 then f / 2 else f in
  (fr / 100 <? 16777216) && (f mod 100 =? 0) && negb ((f >=? 2400000000) && negb (f mod 200 =? 0)).

Definition accepts (ext : bool) (drs : list Z) (f mn mx : Z) : bool :=
  ext && valid_dr_range drs mn mx && valid_channel_freq f.

(* band.go AddChannel *)
Definition add_channel (s : st) (f mn mx : Z) : st * outcome unit :=
  if negb (accepts (extra s) (updr s) f mn mx) then (s, Err)
  else let c := mkChannel f mn mx (negb (f =? 0)) true in
       (mkSt (extra s) (cfmin s) (cfmax s) (up s ++ [c]) (down s ++ [c]) (txp s) (updr s), Ok tt).

(* the code before the fix: no validation *)
Definition add_channel_prefix (s : st) (f mn mx : Z) : st * outcome unit :=
  if negb (extra s) then (s, Err)
  else let c := mkChannel f mn mx (negb (f =? 0)) true in
       (mkSt (extra s) (cfmin s) (cfmax s) (up s ++ [c]) (down s ++ [c]) (txp s) (updr s), Ok tt).

(* band.go:402-416 (fixed: [channel < 0 ||] added to the guard) *)
Definition set_enabled_index (v : bool) (s : st) (i : Z) : st * outcome unit :=
  if (i <? 0) || (i >? zlen (up s) - 1) then (s, Err)
  else (set_up s (map_nth (set_enabled v) (up s) (Z.to_nat i)), Ok tt).

(* the code before the fix: only the upper bound was checked, and
   [b.uplinkChannels[channel]] panics for a negative index *)
Definition set_enabled_index_prefix (v : bool) (s : st) (i : Z) : st * outcome unit :=
  if i >? zlen (up s) - 1 then (s, Err)
  else if i <? 0 then (s, Panic)
  else (set_up s (map_nth (set_enabled v) (up s) (Z.to_nat i)), Ok tt).

Definition step (s : st) (o : op) : st * outcome unit :=
  match o with
  | AddChannel f mn mx => add_channel s f mn mx
  | Disable i => set_enabled_index false s i
  | Enable i => set_enabled_index true s i
  end.

Definition run (s : st) (ops : list op) : st :=
  fold_left (fun s o => fst (step s o)) ops s.

(* the outcomes of the individual calls, in order *)
Fixpoint run_outcomes (s : st) (ops : list op) : list (outcome unit) :=
  match ops with
  | [] => []
  | o :: ops' => let r := step s o in snd r :: run_outcomes (fst r) ops'
  end.

(* ---- accessors ---------------------------------------------------------- *)

(* guard [channel < 0 || channel > len-1] then index (fixed form) *)
Definition guarded_idx {A} (l : list A) (i : Z) : outcome A :=
  if (i <? 0) || (i >? zlen l - 1) then Err else zidx l i.

Definition guarded_idx_prefix {A} (l : list A) (i : Z) : outcome A :=
  if i >? zlen l - 1 then Err else zidx l i.

(* band.go:352-358 *)
Definition get_uplink_channel (s : st) (i : Z) : outcome channel := guarded_idx (up s) i.
(* band.go:395-400 *)
Definition get_downlink_channel (s : st) (i : Z) : outcome channel := guarded_idx (down s) i.
(* band.go:327-332 *)
Definition get_tx_power_offset (s : st) (i : Z) : outcome Z := guarded_idx (txp s) i.

(* first index (from [k]) whose element satisfies [p] *)
Fixpoint find_index {A} (p : A -> bool) (l : list A) (k : Z) : option Z :=
  match l with
  | [] => None
  | a :: l' => if p a then Some k else find_index p l' (k + 1)
  end.

(* band.go:360-368 *)
Definition get_uplink_channel_index (s : st) (f : Z) (default : bool) : outcome Z :=
  match find_index (fun c => (f =? freq c) && negb (Bool.eqb (custom c) default)) (up s) 0 with
  | Some i => Ok i
  | None => Err
  end.

(* band.go GetUplinkChannelIndexForFrequencyDR BEFORE fix for finding C15-6: only the
   first default and the first custom channel with the frequency were examined *)
Fixpoint index_for_freq_dr_loop (s : st) (f dr : Z) (defaults : list bool) : outcome Z :=
  match defaults with
  | [] => Err
  | d :: rest =>
    match get_uplink_channel_index s f d with
    | Ok i =>
      match get_uplink_channel s i with
      | Ok c => if (minDR c <=? dr) && (maxDR c >=? dr) then Ok i
                else index_for_freq_dr_loop s f dr rest
      | Err => Err
      | Panic => Panic
      | OutOfFuel => OutOfFuel
      end
    | _ => index_for_freq_dr_loop s f dr rest
    end
  end.

Definition get_uplink_channel_index_for_frequency_dr_prefix (s : st) (f dr : Z) : outcome Z :=
  index_for_freq_dr_loop s f dr [true; false].

(* band.go GetUplinkChannelIndexForFrequencyDR (after the fix): for defaultChannel in
   [true; false], the first channel with that frequency, of that class, whose data-rate
   range contains dr *)
Definition freq_dr_class (f dr : Z) (default : bool) (c : channel) : bool :=
  (freq c =? f) && negb (Bool.eqb (custom c) default) && (minDR c <=? dr) && (maxDR c >=? dr).

Definition get_uplink_channel_index_for_frequency_dr (s : st) (f dr : Z) : outcome Z :=
  match find_index (freq_dr_class f dr true) (up s) 0 with
  | Some i => Ok i
  | None => match find_index (freq_dr_class f dr false) (up s) 0 with
            | Some i => Ok i
            | None => Err
            end
  end.

(* indices (from [k]) of the elements satisfying [p], ascending *)
Fixpoint indices_where {A} (p : A -> bool) (l : list A) (k : Z) : list Z :=
  match l with
  | [] => []
  | a :: l' => if p a then k :: indices_where p l' (k + 1) else indices_where p l' (k + 1)
  end.

(* band.go:418-464 *)
Definition get_uplink_channel_indices (s : st) : list Z := indices_where (fun _ => true) (up s) 0.
Definition get_standard_uplink_channel_indices (s : st) : list Z :=
  indices_where (fun c => negb (custom c)) (up s) 0.
Definition get_custom_uplink_channel_indices (s : st) : list Z := indices_where custom (up s) 0.
Definition get_enabled_uplink_channel_indices (s : st) : list Z := indices_where enabled (up s) 0.
Definition get_disabled_uplink_channel_indices (s : st) : list Z :=
  indices_where (fun c => negb (enabled c)) (up s) 0.

(* ---- CFList (band.go:483-536) ------------------------------------------- *)

Inductive cflist :=
| CFChannels (fs : list Z)          (* CFListChannelPayload.Channels, 5 entries *)
| CFMasks (ms : list (list bool)).  (* CFListChannelMaskPayload.ChannelMasks, 16 bools each *)

(* protocol versions as the harness passes them; only the three that the code
   compares against matter *)
Inductive pversion := PV_1_0_0 | PV_1_0_1 | PV_1_0_2 | PV_1_0_3 | PV_1_0_4 | PV_1_1_0 | PV_other.

Definition pv_before_103 (v : pversion) : bool :=
  match v with PV_1_0_0 | PV_1_0_1 | PV_1_0_2 => true | _ => false end.

Fixpoint pad_to {A} (d : A) (n : nat) (l : list A) : list A :=
  match n with
  | O => []
  | S n' => match l with [] => d :: pad_to d n' [] | a :: l' => a :: pad_to d n' l' end
  end.

(* getCFListChannelMask: masks of [w] = 16 channels; the last one padded with
   false; one all-false mask for an empty channel list *)
Fixpoint chunk_masks (fuel : nat) (w : nat) (l : list bool) : list (list bool) :=
  match fuel with
  | O => []
  | S fuel' =>
    pad_to false w (firstn w l) ::
    match skipn w l with
    | [] => []
    | rest => chunk_masks fuel' w rest
    end
  end.

Definition cflist_channel_mask (s : st) : cflist :=
  CFMasks (chunk_masks (S (length (up s))) 16 (map enabled (up s))).

(* getCFListChannels: the first five custom channels whose DR range is exactly
   the band's CFList range; nil when all five slots stay 0 (fix for finding C15-7;
   before it: nil as soon as the FIRST slot was 0, [cflist_channels_prefix]) *)
Definition cflist_channel_slots (s : st) : list Z :=
  let sel := filter (fun c => custom c && (minDR c =? cfmin s) && (maxDR c =? cfmax s)) (up s) in
  pad_to 0 5 (map freq (firstn 5 sel)).

Definition cflist_channels (s : st) : option cflist :=
  let fs := cflist_channel_slots s in
  if forallb (fun f => f =? 0) fs then None else Some (CFChannels fs).

Definition cflist_channels_prefix (s : st) : option cflist :=
  let fs := cflist_channel_slots s in
  match fs with
  | 0 :: _ => None
  | _ => Some (CFChannels fs)
  end.

Definition get_cflist (s : st) (v : pversion) : option cflist :=
  if negb (extra s) && pv_before_103 v then None
  else if extra s then cflist_channels s
  else Some (cflist_channel_mask s).
