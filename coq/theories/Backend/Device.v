(* Independent oracle for C16: an end-device, a network server and an application server written
   from the specifications, NOT from the Go code:
     LoRaWAN 1.1   6.1.1.3-6.1.1.5 (root keys, JSIntKey / JSEncKey), 6.2.2 (join-request),
                   6.2.3 (join-accept: encryption, MIC, session-key derivation), 6.2.4 (rejoin-request)
     LoRaWAN 1.0.x 6.2.4 / 6.2.5 (join-request, join-accept, NwkSKey / AppSKey)
     Backend Interfaces 1.0  section 9 and the KeyEnvelope object (KEKLabel absent: key in the clear;
                   present: AESKey is the RFC 3394 wrap of the key under the KEK with that label)
   It uses only the primitives AES-128 / AES-CMAC / RFC 3394 unwrap (LW.Crypto) and little-endian
   byte helpers; it does not import the frame model, the security model or the join-server model.

   Conventions: EUIs, NetID and DevAddr are byte lists written most significant byte first (as the
   identifiers are printed); on the air every multi-octet field is little endian.

   Specification text transcribed here:
   * Join-request  : MHDR(0x00) | JoinEUI | DevEUI | DevNonce | MIC,
                     MIC = aes128_cmac(NwkKey, MHDR | JoinEUI | DevEUI | DevNonce)[0..3]
   * Rejoin 0 / 2  : MHDR(0xC0) | type | NetID | DevEUI | RJcount0 | MIC (SNwkSIntKey)
   * Rejoin 1      : MHDR(0xC0) | 1 | JoinEUI | DevEUI | RJcount1 | MIC (JSIntKey)
   * JSIntKey = aes128_encrypt(NwkKey, 0x06 | DevEUI | pad16), JSEncKey = ... 0x05 ...
   * Join-accept   : MHDR(0x20) | aes128_decrypt(K, JoinNonce | NetID | DevAddr | DLSettings | RxDelay
                     | [CFList] | MIC) in ECB mode; K = NwkKey when answering a join-request, JSEncKey
                     when answering a rejoin-request.  The device recovers the plaintext with
                     aes128_encrypt.
   * MIC, OptNeg unset: aes128_cmac(NwkKey, MHDR | JoinNonce | NetID | DevAddr | DLSettings | RxDelay | CFList)
     MIC, OptNeg set  : aes128_cmac(JSIntKey, JoinReqType | JoinEUI | DevNonce | MHDR | JoinNonce | ... | CFList)
                        JoinReqType = 0xFF (join-request), 0 / 1 / 2 (rejoin-request type);
                        for a rejoin-request RJcount0 / RJcount1 takes the place of DevNonce
   * Keys, OptNeg unset (1.0): NwkSKey = aes128_encrypt(NwkKey, 0x01 | JoinNonce | NetID | DevNonce | pad16)
                               AppSKey = aes128_encrypt(NwkKey, 0x02 | JoinNonce | NetID | DevNonce | pad16)
     Keys, OptNeg set (1.1):   FNwkSIntKey = aes128_encrypt(NwkKey, 0x01 | JoinNonce | JoinEUI | DevNonce | pad16)
                               SNwkSIntKey = ... 0x03 ..., NwkSEncKey = ... 0x04 ...
                               AppSKey     = aes128_encrypt(AppKey, 0x02 | JoinNonce | JoinEUI | DevNonce | pad16) *)
From Coq Require Import List NArith Bool.
From LW Require Import Base.Outcome Base.Bytes Crypto.AES Crypto.CMAC Crypto.KeyWrap.
Import ListNotations.
Open Scope N_scope.

Record device := mkDevice { d_deveui : list N; d_joineui : list N; d_nwkkey : list N; d_appkey : list N }.

Definition le (k : nat) (x : N) : list N := le_bytes k x.
Definition lsb_first (id : list N) : list N := rev id.
Definition pad16 (l : list N) : list N := firstn 16 (l ++ repeat 0 16).
Definition mic4 (key msg : list N) : list N := firstn 4 (cmac key msg).
Definition derive (key : list N) (typ : N) (fields : list N) : list N := aes_encrypt key (pad16 (typ :: fields)).

Definition d_jsintkey (d : device) : list N := derive (d_nwkkey d) 6 (lsb_first (d_deveui d)).
Definition d_jsenckey (d : device) : list N := derive (d_nwkkey d) 5 (lsb_first (d_deveui d)).

(* ---- uplink frames the device sends ---- *)
Definition join_request_frame (d : device) (devnonce : N) : list N :=
  let msg := [0] ++ lsb_first (d_joineui d) ++ lsb_first (d_deveui d) ++ le 2 devnonce in
  msg ++ mic4 (d_nwkkey d) msg.

(* rejoin type 0 / 2: MIC under the SNwkSIntKey of the running session (not known to a join server) *)
Definition rejoin02_frame (d : device) (ty : N) (netid : list N) (rjcount0 : N) (snwksintkey : list N) : list N :=
  let msg := [192; ty] ++ lsb_first netid ++ lsb_first (d_deveui d) ++ le 2 rjcount0 in
  msg ++ mic4 snwksintkey msg.

Definition rejoin1_frame (d : device) (rjcount1 : N) : list N :=
  let msg := [192; 1] ++ lsb_first (d_joineui d) ++ lsb_first (d_deveui d) ++ le 2 rjcount1 in
  msg ++ mic4 (d_jsintkey d) msg.

(* ---- what the device holds after accepting a join-accept ---- *)
Record session := mkSession {
  s_joinnonce : N; s_netid : list N; s_devaddr : list N; s_dlsettings : N; s_rxdelay : N;
  s_cflist : option (list N);          (* the 16 CFList bytes as received *)
  s_optneg : bool;
  s_fnwksint : list N;                 (* 1.0: NwkSKey *)
  s_snwksint : list N;                 (* 1.0: NwkSKey *)
  s_nwksenc : list N;                  (* 1.0: NwkSKey *)
  s_appskey : list N
}.

Fixpoint blocks (n : nat) (m : list N) : list (list N) :=
  match n with O => [] | S n' => firstn 16 m :: blocks n' (skipn 16 m) end.

Definition ecb_encrypt (key ct : list N) : list N :=
  concat (map (aes_encrypt key) (blocks (Nat.div (length ct) 16) ct)).

Definition JoinReqType_join : N := 255.

(* [reqtype]: 255 after a join-request, 0 / 1 / 2 after a rejoin-request of that type;
   [devnonce]: the DevNonce (or RJcount0 / RJcount1) of the request being answered.
   [device_check]: the decrypted message JoinNonce | NetID | DevAddr | DLSettings | RxDelay | [CFList] | MIC *)
Definition device_check (d : device) (reqtype devnonce mhdr : N) (pt : list N) : option session :=
  let body := firstn (length pt - 4) pt in
  let mic := skipn (length pt - 4) pt in
  let jn := firstn 3 body in
  let netid := firstn 3 (skipn 3 body) in
  let devaddr := firstn 4 (skipn 6 body) in
  let dls := nth 10 body 0 in
  let rxd := nth 11 body 0 mod 16 in             (* RxDelay: bits 3..0, bits 7..4 RFU, ignored *)
  let cfl := if Nat.eqb (length body) 28 then Some (skipn 12 body) else None in
  let optneg := negb (dls / 128 =? 0) in
  let expect :=
    if optneg
    then mic4 (d_jsintkey d) ([reqtype] ++ lsb_first (d_joineui d) ++ le 2 devnonce ++ [mhdr] ++ body)
    else mic4 (d_nwkkey d) ([mhdr] ++ body) in
  if negb (list_eqb N.eqb mic expect) then None else
  let f11 := jn ++ lsb_first (d_joineui d) ++ le 2 devnonce in
  let f10 := jn ++ netid ++ le 2 devnonce in
  Some (if optneg
        then mkSession (le_val jn) (rev netid) (rev devaddr) dls rxd cfl true
                       (derive (d_nwkkey d) 1 f11) (derive (d_nwkkey d) 3 f11) (derive (d_nwkkey d) 4 f11)
                       (derive (d_appkey d) 2 f11)
        else let nwkskey := derive (d_nwkkey d) 1 f10 in
             mkSession (le_val jn) (rev netid) (rev devaddr) dls rxd cfl false
                       nwkskey nwkskey nwkskey (derive (d_nwkkey d) 2 f10)).

Definition device_accept (d : device) (reqtype devnonce : N) (frame : list N) : option session :=
  match frame with
  | [] => None
  | mhdr :: ct =>
    if negb (mhdr / 32 =? 1) then None else                   (* MType 001 = join-accept *)
    if negb (mhdr mod 4 =? 0) then None else                  (* Major LoRaWAN R1 *)
    if negb (Nat.eqb (length ct) 16) && negb (Nat.eqb (length ct) 32) then None else
    let key := if reqtype =? JoinReqType_join then d_nwkkey d else d_jsenckey d in
    device_check d reqtype devnonce mhdr (ecb_encrypt key ct)
  end.

(* ---- network / application server side: key envelopes ---- *)
(* (KEKLabel, AESKey).  [keks label] is the KEK configured under that label ([] = none), [own] the
   label under which the receiving server shares a KEK with the join server (the NetID text for a
   network server, the AS-KEK label for an application server; [] = none).
   A server that shares a KEK expects its keys wrapped with it (RFC 3394) and labelled; a server
   without one expects the key in the clear without a label. *)
Definition is_empty {A} (l : list A) : bool := match l with [] => true | _ => false end.

Definition opens_to (keks : list N -> list N) (own : list N) (e : option (list N * list N)) (key : list N) : bool :=
  match e with
  | Some (label, data) =>
    if negb (is_empty own) && negb (is_empty (keks own))
    then list_eqb N.eqb label own &&
         match unwrap (keks own) data with Some k => list_eqb N.eqb k key | None => false end
    else is_empty label && list_eqb N.eqb data key
  | None => false
  end.

(* the keys the servers obtain from a Success answer are the keys the device derived:
   1.0 (OptNeg unset): NwkSKey + AppSKey;  1.1: FNwkSIntKey, SNwkSIntKey, NwkSEncKey + AppSKey *)
Definition servers_share_keys (keks : list N -> list N) (ns_label as_label : list N) (s : session)
    (snwksint fnwksint nwksenc nwkskey appskey : option (list N * list N)) : bool :=
  opens_to keks as_label appskey (s_appskey s) &&
  (if s_optneg s
   then opens_to keks ns_label fnwksint (s_fnwksint s) && opens_to keks ns_label snwksint (s_snwksint s)
        && opens_to keks ns_label nwksenc (s_nwksenc s)
   else opens_to keks ns_label nwkskey (s_fnwksint s)).

(* the join-accept carries what the network server asked for *)
Definition echoes (s : session) (joinnonce : N) (netid devaddr : list N) (dlsettings rxdelay : N)
    (cflist : option (list N)) : bool :=
  (s_joinnonce s =? joinnonce) && list_eqb N.eqb (s_netid s) netid && list_eqb N.eqb (s_devaddr s) devaddr
  && (s_dlsettings s =? dlsettings) && (s_rxdelay s =? rxdelay)
  && match s_cflist s, cflist with
     | None, None => true
     | Some a, Some b => list_eqb N.eqb a b
     | _, _ => false
     end.
