package main

import (
	"encoding/hex"
	"fmt"
	"net/http"
)

// histories: requests that are NOT the first thing the process (or the handler) sees for their
// DevEUI / label.  The same DevEUI comes back with other root keys, join nonces, KEKs, AS labels and
// home NetIDs; several handlers with different configurations live side by side; join -> rejoin ->
// join sequences and OptNeg toggling.  Every answer is an ordinary case: compared with the model on
// (the table as it is NOW, this request) - the model is a pure function, so any dependence on earlier
// requests (caches, memoised keys, remembered nonces) is a mismatch - and checked by the device
// oracle holding the keys as they are NOW.

type hist struct {
	g    *G
	name string
	step int
}

func (h *hist) act(hd http.Handler, t *table, a *act) {
	h.step++
	prefix := fmt.Sprintf("history:%s:step=%d:", h.name, h.step)
	h.g.activationOn(hd, t, a, "history", prefix, map[string]interface{}{"history": h.name, "step": h.step,
		"note": "replay needs the earlier steps of this history in the same process (same keys in cases.jsonl, ascending step)"})
}

// withKeys: the same device identity (DevEUI, JoinEUI) provisioned with other root keys / join nonce
func (g *G) withKeys(a act) act {
	copy(a.dev.nwkKey[:], g.r.Bytes(16))
	copy(a.dev.appKey[:], g.r.Bytes(16))
	a.joinNonce = g.r.Intn(1 << 24)
	return a
}

// fresh: new per-request values for the same device and the same world
func (g *G) fresh(a act, kind int, optneg bool) act {
	a.kind = kind
	a.devNonce, a.txid, a.rxDelay = uint16(g.r.U64()), g.r.U32(), int64(g.r.Intn(16))
	a.dls = g.r.Byte() & 0x7f
	if optneg || kind != kJoin {
		a.dls |= 0x80
	}
	a.cfl = g.cflist(g.r.Intn(4))
	copy(a.devAddr[:], g.r.Bytes(4))
	return a
}

func (g *G) histories(thorough bool) {
	r := g.r
	reps := 1
	if thorough {
		reps = 8
	}
	for rep := 0; rep < reps; rep++ {
		tag := fmt.Sprint(rep)

		// ---- key rotation on ONE handler: K1 (1.1 join, rejoins) -> K2 (1.1 join, rejoins, 1.0 join) -> K3 ----
		{
			h := &hist{g: g, name: "key-rotation-one-handler-" + tag}
			a := g.randomAct(kJoin)
			t := a.table()
			hd := t.handler()
			for round := 0; round < 3; round++ {
				for _, st := range []struct {
					kind   int
					optneg bool
				}{{kJoin, true}, {kRejoin1, true}, {kRejoin0, true}, {kJoin, false}, {kJoin, true}, {kRejoin2, true}} {
					b := g.fresh(a, st.kind, st.optneg)
					h.act(hd, t, &b)
				}
				a = g.withKeys(a)
				t.devices[0] = devEntry{eui: a.dev.devEUI, kind: found, nwk: a.dev.nwkKey, app: a.dev.appKey, joinNonce: a.joinNonce}
			}
		}

		// ---- two handlers with different key stores for the same DevEUI, used alternately ----
		{
			h := &hist{g: g, name: "two-handlers-same-deveui-" + tag}
			a1 := g.randomAct(kJoin)
			a2 := g.withKeys(a1)
			a2.nsKEK, a2.asLabel, a2.asKEK = r.Bytes(16), "as-1", r.Bytes(16)
			a1.nsKEK, a1.asLabel, a1.asKEK = nil, "", nil
			t1, t2 := a1.table(), a2.table()
			h1, h2 := t1.handler(), t2.handler()
			for i, kind := range []int{kJoin, kJoin, kRejoin1, kRejoin1, kJoin, kRejoin0, kRejoin2, kJoin} {
				b1, b2 := g.fresh(a1, kind, i != 4), g.fresh(a2, kind, i != 4)
				if i%2 == 0 {
					h.act(h1, t1, &b1)
					h.act(h2, t2, &b2)
				} else {
					h.act(h2, t2, &b2)
					h.act(h1, t1, &b1)
				}
			}
		}

		// ---- KEK / AS-label rotation under the same labels, same device keys ----
		{
			h := &hist{g: g, name: "kek-rotation-" + tag}
			a := g.randomAct(kJoin)
			a.nsKEK, a.asLabel, a.asKEK = r.Bytes(16), "as-1", r.Bytes(16)
			for i := 0; i < 6; i++ {
				b := g.fresh(a, []int{kJoin, kRejoin1, kJoin, kRejoin0, kJoin, kJoin}[i], i%2 == 0)
				t := b.table()
				h.act(t.handler(), t, &b)
				switch i {
				case 0:
					a.nsKEK = r.Bytes(16)
				case 1:
					a.asKEK = r.Bytes(16)
				case 2:
					a.asLabel = "as-2"
				case 3:
					a.nsKEK, a.asKEK = nil, nil
				case 4:
					a.nsKEK, a.asLabel, a.asKEK = r.Bytes(16), "", nil
				}
			}
		}

		// ---- one handler, one key store with NS and AS KEKs, several requests: the store must stay as it is ----
		{
			h := &hist{g: g, name: "same-key-store-" + tag}
			a := g.randomAct(kJoin)
			a.nsKEK, a.asLabel, a.asKEK = r.Bytes(16), "as-1", r.Bytes(16)
			t := a.table()
			hd := t.handler()
			for _, kind := range []int{kJoin, kJoin, kRejoin1, kJoin, kRejoin0} {
				b := g.fresh(a, kind, true)
				h.act(hd, t, &b)
			}
		}

		// ---- OptNeg toggling, join nonce moving, DevNonce repeated: same device, same keys, one handler ----
		{
			h := &hist{g: g, name: "optneg-toggle-" + tag}
			a := g.randomAct(kJoin)
			t := a.table()
			hd := t.handler()
			for i := 0; i < 8; i++ {
				b := g.fresh(a, kJoin, i%2 == 1)
				if i >= 4 {
					b.devNonce = 7 // the same DevNonce again: the handler keeps no nonce history
				}
				b.joinNonce = (a.joinNonce + i) & 0xffffff
				t.devices[0].joinNonce = b.joinNonce
				h.act(hd, t, &b)
			}
		}

		// ---- wrong MIC / unknown device before and after a good join of the same DevEUI ----
		{
			name := "good-bad-good-" + tag
			a := g.randomAct(kJoin)
			a.dls |= 0x80
			t := a.table()
			hd := t.handler()
			h := &hist{g: g, name: name}
			b := g.fresh(a, kJoin, true)
			h.act(hd, t, &b)
			// wrong MIC
			c := g.fresh(a, kJoin, true)
			q := g.request(&c)
			f := c.frame()
			f[len(f)-1] ^= 0x01
			q.phy = sp(hex.EncodeToString(f))
			g.runOn(hd, t, q, "IWrongMIC", "history", fmt.Sprintf("history:%s:step=2:wrong-mic:%s", name, c.describe()), nil)
			// device removed, then provisioned again with other keys
			saved := t.devices
			t.devices = nil
			d := g.fresh(a, kRejoin1, true)
			g.runOn(hd, t, g.request(&d), "IUnknownDevEUI", "history", fmt.Sprintf("history:%s:step=3:unknown:%s", name, d.describe()), nil)
			t.devices = saved
			a = g.withKeys(a)
			t.devices[0] = devEntry{eui: a.dev.devEUI, kind: found, nwk: a.dev.nwkKey, app: a.dev.appKey, joinNonce: a.joinNonce}
			h.step = 3
			for _, kind := range []int{kJoin, kRejoin2} {
				e := g.fresh(a, kind, true)
				h.act(hd, t, &e)
			}
		}

		// ---- home NetID of the same DevEUI changes / disappears ----
		{
			var eui [8]byte
			copy(eui[:], r.Bytes(8))
			t := &table{home: []homeEntry{{eui: eui, kind: found}}}
			hd := t.handler()
			for i := 0; i < 5; i++ {
				switch i {
				case 0, 1, 3:
					t.home[0].kind = found
					copy(t.home[0].netID[:], r.Bytes(3))
				case 2:
					t.home[0].kind = notFound
				case 4:
					t.home = nil
				}
				q := &req{sender: hex.EncodeToString(r.Bytes(3)), receiver: hex.EncodeToString(r.Bytes(8)), txid: r.U32(), mtype: "HomeNSReq",
					devEUI: sp(hex.EncodeToString(eui[:])), omit: map[string]bool{"RxDelay": true}, null: map[string]bool{}}
				g.runOn(hd, t, q, "INone", "history", fmt.Sprintf("history:home-netid-changes-%s:step=%d:dev=%x", tag, i+1, eui), nil)
			}
		}
	}

	// ---- random histories: 2 device identities x 3 provisionings x 2 handlers ----
	n, steps := 3, 8
	if thorough {
		n, steps = 60, 12
	}
	for i := 0; i < n; i++ {
		h := &hist{g: g, name: fmt.Sprintf("random-%d", i)}
		ids := []act{g.randomAct(kJoin), g.randomAct(kJoin)}
		var prov [2][3]act
		for d := 0; d < 2; d++ {
			prov[d][0] = ids[d]
			prov[d][1] = g.withKeys(ids[d])
			prov[d][2] = g.withKeys(ids[d])
			prov[d][2].nsKEK, prov[d][2].asLabel, prov[d][2].asKEK = r.Bytes(16), "as-1", r.Bytes(16)
		}
		for s := 0; s < steps; s++ {
			a := g.fresh(prov[r.Intn(2)][r.Intn(3)], r.Intn(4), r.Bool())
			t := a.table()
			h.act(t.handler(), t, &a)
		}
	}
}
