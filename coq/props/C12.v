(* C12 - RX1 / RX2 / ping-slot parameters follow the regional rules; invalid
   arguments give an error, never a panic.
   Statement file: each theorem is closed by [exact] of a lemma proved in
   theories/Band/Rx1Proofs.v, followed by Print Assumptions.
   [band_configs] = the tables of band.GetConfig(name, repeater, dwell) for the 14
   band names x {false,true} x {no limit, 400 ms}, dumped from the live code on
   every run (LWGen.BandGen); [get_*] = the model of the lookup code
   (Band/Lookup.v); [spec_*], [dr_defined_down], [region_of] = the specification
   (Band/Rx1Spec.v, Band/Regional.v); [c12_known_cells] = the recorded findings
   (known/C12.json -> LWGen.KnownGen).  All arguments range over all of Z. *)
From Coq Require Import List ZArith Bool String.
From LW Require Import Base.Outcome Band.Types Band.Lookup Band.Regional Band.Rx1Spec Band.Rx1Checks Band.Rx1BaseProofs Band.Rx1Proofs.
From LW Require Import Band.AddChannelProofs Band.AliasProofs.
From LWGen Require Import BandGen KnownGen.
Import ListNotations.
Open Scope Z_scope.

(* errors, never panics - for any tables whatsoever and all integer arguments *)
Theorem C12_rx1_no_panic : forall (c : band_cfg) (dr off : Z), get_rx1_dr c dr off <> Panic.
Proof. exact rx1_no_panic_any. Qed.
Print Assumptions C12_rx1_no_panic.

(* negative numbers, data-rates above 15 and offsets above 7 are rejected with an error *)
Theorem C12_rx1_invalid_is_error : forall c, In c band_configs -> forall dr off : Z,
  dr < 0 \/ off < 0 \/ dr > 15 \/ off > 7 -> get_rx1_dr c dr off = Err.
Proof. intros c Hc dr off H. apply rx1_invalid_err; [exact Hc | now apply rx1_args_invalid_iff]. Qed.
Print Assumptions C12_rx1_invalid_is_error.

(* every accepted (uplink DR, RX1 offset) pair maps to a data-rate that exists for
   downlink in that band - except the recorded cells *)
Theorem C12_rx1_result_defined : forall c, In c band_configs -> forall dr off r : Z,
  get_rx1_dr c dr off = Ok r ->
  dr_defined_down (c_tab c) r = true \/ In (c_name c, dr, off) c12_known_cells.
Proof. exact rx1_defined. Qed.
Print Assumptions C12_rx1_result_defined.

(* ... and each recorded cell is a real violation of the unconditional statement:
   the pair is accepted and the result is not a defined downlink data-rate *)
Theorem C12_rx1_result_defined_refuted : forall name dr off, In (name, dr, off) c12_known_cells ->
  exists c r, In c band_configs /\ c_name c = name /\ get_rx1_dr c dr off = Ok r
              /\ dr_defined_down (c_tab c) r = false.
Proof. exact rx1_known_refuted. Qed.
Print Assumptions C12_rx1_result_defined_refuted.

(* "invalid data-rates or offsets yield an error": an accepted uplink data-rate is a data-rate of
   the band (an index GetDataRate rejects is rejected here too) ... *)
Theorem C12_rx1_uplink_dr_defined : forall c, In c band_configs -> forall dr off r : Z,
  get_rx1_dr c dr off = Ok r -> dr_defined (c_tab c) dr = true.
Proof. exact rx1_uplink_dr_defined. Qed.
Print Assumptions C12_rx1_uplink_dr_defined.

(* ... and an accepted offset is one the region defines (0..3 US915; 0..7 AS923, IN865; 0..5
   elsewhere) - except the recorded KR920 cells (offsets 6 and 7), each proved to be accepted *)
Theorem C12_rx1_offset_in_range : forall c, In c band_configs ->
  forall reg, region_of (c_name c) = Some reg -> forall dr off r : Z,
  get_rx1_dr c dr off = Ok r ->
  off <= spec_max_rx1_offset reg \/ In (c_name c, dr, off) c12_known_offset_cells.
Proof. exact rx1_offset_in_range. Qed.
Print Assumptions C12_rx1_offset_in_range.

Theorem C12_rx1_offset_in_range_refuted : forall name dr off, In (name, dr, off) c12_known_offset_cells ->
  exists c reg r, In c band_configs /\ c_name c = name /\ region_of name = Some reg
                  /\ off > spec_max_rx1_offset reg /\ get_rx1_dr c dr off = Ok r.
Proof. exact rx1_offset_known_refuted. Qed.
Print Assumptions C12_rx1_offset_in_range_refuted.

(* where the region defines the RX1 data-rate by a formula - max(DR - offset, floor)
   with the dwell-time floor for AS923; min(13, max(8, DR + 10|8 - offset)) for
   US915|AU915 - the result equals it (domain and value: Rx1Spec.spec_rx1_formula) *)
Theorem C12_rx1_formula : forall c, In c band_configs -> forall reg, region_of (c_name c) = Some reg ->
  forall dr off e : Z, spec_rx1_formula reg (c_dwell c) dr off = Some e ->
  get_rx1_dr c dr off = Ok e.
Proof. exact rx1_formula. Qed.
Print Assumptions C12_rx1_formula.

(* over the positive offsets 0..5 the RX1 data-rate never increases and moves down by at
   most one defined downlink data-rate per offset unit *)
Theorem C12_rx1_monotone_step : forall c, In c band_configs -> forall dr off r0 r1 : Z,
  0 <= off < 5 ->
  get_rx1_dr c dr off = Ok r0 -> get_rx1_dr c dr (off + 1) = Ok r1 ->
  r1 <= r0 /\ forall d, r1 < d < r0 -> dr_defined_down (c_tab c) d = false.
Proof. exact rx1_step. Qed.
Print Assumptions C12_rx1_monotone_step.

(* for every uplink channel i (frequency f): the RX1 channel index obtained from i and the
   RX1 frequency obtained from f denote the same existing downlink channel, the one the
   region's rule selects (same channel | i mod 8 | i mod 48) *)
Theorem C12_rx1_channel : forall c, In c band_configs -> forall reg, region_of (c_name c) = Some reg ->
  forall i u, zindex (t_up (c_tab c)) i = Ok u ->
  exists d, get_rx1_channel_index c i = Ok (spec_rx1_channel reg i)
            /\ zindex (t_down (c_tab c)) (spec_rx1_channel reg i) = Ok d
            /\ get_rx1_frequency c (ch_freq u) = Ok (ch_freq d)
            /\ (match reg with RUS915 | RAU915 | RCN470 => True | _ => ch_freq d = ch_freq u end).
Proof.
  intros c Hc reg Hreg i u Hu. apply rx1_channel_ok_spec. now apply rx1_channel.
Qed.
Print Assumptions C12_rx1_channel.

(* ... and this survives every history of AddChannel(frequency, MinDR, MaxDR) calls
   (any frequencies incl. repeated ones, any DR ranges; [add_channels] = the model of the
   calls, [with_tables] = the band object carrying the resulting channel lists): for every
   uplink channel of the resulting object the RX1 channel index is an EXISTING downlink
   channel (GetDownlinkChannel succeeds) whose frequency is the RX1 frequency obtained from
   the uplink frequency *)
Theorem C12_rx1_channel_after_add_channels : forall c, In c band_configs ->
  forall reg, region_of (c_name c) = Some reg -> forall ops : list (Z * Z * Z),
  let t' := fst (add_channels (c_tab c) ops) in
  let c' := with_tables c t' in
  forall i u, zindex (t_up t') i = Ok u ->
  exists d, get_rx1_channel_index c' i = Ok (spec_rx1_channel reg i)
            /\ get_downlink_channel t' (spec_rx1_channel reg i) = Ok d
            /\ get_rx1_frequency c' (ch_freq u) = Ok (ch_freq d)
            /\ (match reg with RUS915 | RAU915 | RCN470 => True | _ => ch_freq d = ch_freq u end).
Proof. exact rx1_channel_after_add_channels. Qed.
Print Assumptions C12_rx1_channel_after_add_channels.

(* ... and every history of AddChannel / DisableUplinkChannelIndex / EnableUplinkChannelIndex
   calls ([apply_ops], any list of calls with any integer arguments, refused calls included):
   enabling / disabling changes neither the RX1 channel nor the RX1 frequency of ANY uplink
   channel (enabled or not), in every region incl. the mod 8 / mod 48 ones *)
Theorem C12_rx1_channel_after_history : forall c, In c band_configs ->
  forall reg, region_of (c_name c) = Some reg -> forall ops : list chan_op,
  let t' := fst (apply_ops (c_tab c) ops) in
  let c' := with_tables c t' in
  forall i u, zindex (t_up t') i = Ok u ->
  exists d, get_rx1_channel_index c' i = Ok (spec_rx1_channel reg i)
            /\ get_downlink_channel t' (spec_rx1_channel reg i) = Ok d
            /\ get_rx1_frequency c' (ch_freq u) = Ok (ch_freq d)
            /\ (match reg with RUS915 | RAU915 | RCN470 => True | _ => ch_freq d = ch_freq u end).
Proof. exact rx1_channel_after_history. Qed.
Print Assumptions C12_rx1_channel_after_history.

(* GetRX1FrequencyForUplinkFrequency is total: for ANY frequency (channel or not, 1 Hz beside a
   channel) and ANY channel lists the regions answering RX1 on the uplink frequency return exactly
   the argument ([rx1_frequency_any_ok]) *)
Theorem C12_rx1_frequency_any : forall c, In c band_configs ->
  forall reg, region_of (c_name c) = Some reg -> forall (t : tables) (f : Z),
  rx1_frequency_any_ok reg f (get_rx1_frequency (with_tables c t) f) = true.
Proof. exact rx1_frequency_any. Qed.
Print Assumptions C12_rx1_frequency_any.

(* ping-slot frequency: the region's fixed frequency, or hopping over the 8 downlink
   channels by (DevAddr + floor(beacon_time / 128 s)) mod 8; all DevAddr >= 0 and all
   beacon times >= 0 ns *)
Theorem C12_ping_slot : forall c, In c band_configs -> forall reg, region_of (c_name c) = Some reg ->
  forall devaddr beacon_ns : Z, 0 <= devaddr -> 0 <= beacon_ns ->
  get_ping_slot_frequency c devaddr beacon_ns = Ok (spec_ping_slot reg devaddr beacon_ns).
Proof. exact ping_slot. Qed.
Print Assumptions C12_ping_slot.

(* ... and for EVERY beacon time, i.e. every signed 64-bit duration and beyond: never a panic;
   before the GPS epoch the hopping regions answer with an error, the fixed-frequency regions
   with their frequency ([ping_slot_any_ok]) *)
Theorem C12_ping_slot_any_time : forall c, In c band_configs -> forall reg, region_of (c_name c) = Some reg ->
  forall devaddr beacon_ns : Z, 0 <= devaddr ->
  ping_slot_any_ok reg devaddr beacon_ns (get_ping_slot_frequency c devaddr beacon_ns) = true.
Proof. exact ping_slot_any_time. Qed.
Print Assumptions C12_ping_slot_any_time.

Theorem C12_ping_slot_no_panic : forall c, In c band_configs -> forall devaddr beacon_ns : Z, 0 <= devaddr ->
  get_ping_slot_frequency c devaddr beacon_ns <> Panic.
Proof. exact ping_slot_no_panic. Qed.
Print Assumptions C12_ping_slot_no_panic.

(* RX2 defaults: the model of GetDefaults equals what the live code returned to the
   dumper, equals the Regional Parameters values, and the RX2 data-rate exists for downlink *)
Theorem C12_rx2_defaults : forall c, In c band_configs -> forall reg, region_of (c_name c) = Some reg ->
  get_defaults c = c_defaults c /\ get_defaults c = spec_defaults reg
  /\ dr_defined_down (c_tab c) (d_rx2_dr (get_defaults c)) = true.
Proof. exact rx2_defaults. Qed.
Print Assumptions C12_rx2_defaults.

(* every configuration belongs to a region of the specification *)
Theorem C12_regions_total : forall c, In c band_configs -> exists reg, region_of (c_name c) = Some reg.
Proof. exact region_known. Qed.
Print Assumptions C12_regions_total.

(* the deprecated, still exported band names (AS_923, AU_915_928, CN_470_510, ... -
   [deprecated_names]): what band.GetConfig returns for (deprecated name, repeater, dwell) is, in
   every table and field but the name it was asked for, the configuration of the common name with
   the same arguments - so every statement above holds for those objects too - and every
   deprecated name x repeater x dwell time is among the dumped objects *)
Theorem C12_deprecated_names : forall ac, In ac band_alias_configs ->
  exists common c, In (c_name ac, common) deprecated_names /\ In c band_configs /\ c_name c = common
                   /\ c_rep c = c_rep ac /\ c_dwell c = c_dwell ac /\ ac = with_name c (c_name ac).
Proof. exact deprecated_name_same_band. Qed.
Print Assumptions C12_deprecated_names.

Theorem C12_deprecated_names_covered : forall name common rep dw, In (name, common) deprecated_names ->
  exists ac, In ac band_alias_configs /\ c_name ac = name /\ c_rep ac = rep /\ c_dwell ac = dw.
Proof. exact deprecated_names_covered. Qed.
Print Assumptions C12_deprecated_names_covered.

(* non-vacuity: the configurations exist, pairs are accepted, rejected and computed *)
Example C12_example :
  List.length band_configs = 56%nat
  /\ (exists c, In c band_configs /\ c_name c = "US915"%string
                /\ get_rx1_dr c 4 1 = Ok 13 /\ get_rx1_dr c 4 (-1) = Err /\ get_rx1_dr c 7 0 = Err
                /\ get_ping_slot_frequency c 4294967295 (129 * second) = Ok 923300000)
  /\ (exists c, In c band_configs /\ c_name c = "AS923-2"%string /\ c_dwell c = true
                /\ get_rx1_dr c 3 5 = Ok 2 /\ get_rx1_dr c 3 7 = Ok 5).
Proof.
  assert (L : List.length band_configs = 56%nat) by (vm_compute; reflexivity).
  pose (d := mkCfg "" false false KEU868 false 0 "" (mkDefaults 0 0 0 0 0 0) (mkTables false 0 0 [] [] [] [] [] [])).
  split; [exact L|]. split.
  - exists (nth 52 band_configs d). split; [apply nth_In; rewrite L; repeat constructor|].
    vm_compute. repeat split; reflexivity.
  - exists (nth 5 band_configs d). split; [apply nth_In; rewrite L; repeat constructor|].
    vm_compute. repeat split; reflexivity.
Qed.
