(* C14 - placeholder statement file (theorems are added as they are proved). *)
From Coq Require Import List ZArith Bool.
From LW Require Import Base.Outcome Band.Channels Band.Planner Band.PlannerSpec.
