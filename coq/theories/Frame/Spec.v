(* What LoRaWAN 1.0.x/1.1 section 4 allows as a frame value (independent of the
   encoder's own checks), and the equivalence under which a decoded frame is
   compared with the original. *)
From Coq Require Import List NArith ZArith Bool.
From LW Require Import Base.Outcome Base.Bytes Mac.Commands Mac.Spec Mac.Stream Frame.Model.
Import ListNotations.
Open Scope N_scope.

Definition id_ok (k : nat) (bs : list N) : bool := Nat.eqb (length bs) k && bytes_ok bs.

(* a MAC command of a frame: CID byte, payload (if any) within the specified ranges *)
Definition cmd_valid (it : item) : bool :=
  match it with
  | IMac c None => c <? 256
  | IMac c (Some v) => (c <? 256) && spec_in_range v
  | IData d => bytes_ok d
  end.

Fixpoint items_size (its : list item) : nat :=
  match its with
  | [] => 0
  | IMac _ None :: r => 1 + items_size r
  | IMac _ (Some v) :: r =>
    1 + match v with PProprietary b => length b | _ => Z.to_nat (kind_size (kind_of v)) end + items_size r
  | IData d :: r => length d + items_size r
  end.

Definition is_mac (it : item) : bool := match it with IMac _ _ => true | IData _ => false end.

Definition cfpayload_valid (p : cfpayload) (ty : N) : bool :=
  match p with
  | CFPChannels chs => Nat.eqb (length chs) 5 && forallb freq_ok chs && (ty =? 0)
  | CFPMasks ms => (length ms <=? 6)%nat && forallb (fun m => Nat.eqb (length m) 16) ms && (ty =? 1)
  | CFPNil => false
  end.

Definition mac_valid (m : macpayload) : bool :=
  let h := hdr m in
  id_ok 4 (devaddr h) && (fcnt h <? 2 ^ 32)
  && forallb cmd_valid (fopts h) && (items_size (fopts h) <=? 15)%nat
  && forallb cmd_valid (frm m)
  && match fport m with
     | None => match frm m with [] => true | _ => false end      (* FRMPayload needs an FPort *)
     | Some 0 => (Nat.eqb (length (fopts h)) 0)                   (* port 0 excludes FOpts *)
                 && (0 <=? 0)
     | Some p => (p <? 256) && negb (existsb is_mac (frm m))      (* MAC commands only on port 0 *)
     end.

Definition spec_valid (p : phy) : bool :=
  (major p <? 4) && id_ok 4 (mic p) &&
  match pl p with
  | PLJoinRequest je de dn => (mtype p =? JoinRequest) && id_ok 8 je && id_ok 8 de && (dn <? 65536)
  | PLJoinAccept jn nid da _ rx2 rx1 rxd cfl =>
    (mtype p =? JoinAccept) && (jn <? 2 ^ 24) && id_ok 3 nid && id_ok 4 da && (rx2 <? 16) && (rx1 <? 8) && (rxd <? 16)
    && match cfl with None => true | Some l => cfpayload_valid (cf_payload l) (cf_type l) end
  | PLRejoin02 ty nid de rc => (mtype p =? RejoinRequest) && ((ty =? 0) || (ty =? 2)) && id_ok 3 nid && id_ok 8 de && (rc <? 65536)
  | PLRejoin1 ty je de rc => (mtype p =? RejoinRequest) && (ty =? 1) && id_ok 8 je && id_ok 8 de && (rc <? 65536)
  | PLMac m => ((2 <=? mtype p) && (mtype p <=? 5)) && mac_valid m
  | PLData d => (mtype p =? Proprietary) && bytes_ok d
  | PLNil => false
  end.

(* ---- the stated equivalence: what a receiver can see of a frame ---- *)
Definition items_bytes (its : list item) : list N :=
  match items_marshal its with Ok b => b | _ => [] end.

Definition wire_items (its : list item) : list item :=
  match items_bytes its with [] => [] | b => [IData b] end.

Definition strip_zero_masks (ms : list (list bool)) : list (list bool) :=
  rev ((fix drop (l : list (list bool)) :=
          match l with
          | m :: r => if existsb (fun x => x) m then l else drop r
          | [] => []
          end) (rev ms)).

Definition wire_cflist (l : cflist) : cflist :=
  match cf_payload l with
  | CFPMasks ms => mkCFList (CFPMasks (strip_zero_masks ms)) (cf_type l)
  | _ => l
  end.

Definition wire_view (p : phy) : phy :=
  match pl p with
  | PLMac m =>
    let h := hdr m in
    let c := fc h in
    let cb := classb c || fpending c in
    let ob := items_bytes (fopts h) in
    mkPHY (mtype p) (major p)
          (PLMac (mkMAC (mkFHDR (devaddr h)
                                (mkFCtrl (adr c) (adrackreq c) (ack c) cb cb (N.of_nat (length ob)))
                                (fcnt h mod 65536) (wire_items (fopts h)))
                        (fport m) (wire_items (frm m))))
          (mic p)
  | PLJoinAccept jn nid da o rx2 rx1 rxd cfl =>
    (* a join-accept is decoded as an opaque (encrypted) DataPayload by the frame decoder *)
    mkPHY (mtype p) (major p)
          (match payload_marshal (pl p) with Ok b => PLData b | _ => PLNil end) (mic p)
  | _ => p
  end.
