// Generic JSON cases evaluated in Coq against LW.Backend.Json (json_print / json_parse).
package main

import (
	"bytes"
	"encoding/json"
	"fmt"
	"sort"
	"strings"

	"verifharness/internal/cases"
	"verifharness/internal/cq"
)

// ---- Go trees -> Gallina terms ------------------------------------------------------------------

// jterm prints a tree built from nil, bool, json.Number, int64, string, []interface{}, map[string]interface{}
// as a jvalue; map keys in the order Marshal uses (sorted bytewise).
func jterm(v interface{}) string {
	switch x := v.(type) {
	case nil:
		return "JNull"
	case bool:
		return "(JBool " + cq.Bool(x) + ")"
	case json.Number:
		return "(JNum " + cq.Str(string(x)) + ")"
	case int64:
		return "(jint " + cq.Z(x) + ")"
	case string:
		return "(JStr " + cq.Str(x) + ")"
	case []interface{}:
		items := make([]string, len(x))
		for i, e := range x {
			items[i] = jterm(e)
		}
		return "(JArr " + cq.List(items) + ")"
	case map[string]interface{}:
		keys := make([]string, 0, len(x))
		for k := range x {
			keys = append(keys, k)
		}
		sort.Strings(keys)
		items := make([]string, len(keys))
		for i, k := range keys {
			items[i] = cq.Tuple(cq.Str(k), jterm(x[k]))
		}
		return "(JObj " + cq.List(items) + ")"
	}
	panic(fmt.Sprintf("jterm: %T", v))
}

// orderedTerm spells the next value of the token stream: members in order, duplicates kept.
func orderedTerm(dec *json.Decoder) (string, error) {
	tok, err := dec.Token()
	if err != nil {
		return "", err
	}
	switch t := tok.(type) {
	case json.Delim:
		var items []string
		if t == '[' {
			for dec.More() {
				x, err := orderedTerm(dec)
				if err != nil {
					return "", err
				}
				items = append(items, x)
			}
			if _, err := dec.Token(); err != nil {
				return "", err
			}
			return "(JArr " + cq.List(items) + ")", nil
		}
		for dec.More() {
			k, err := dec.Token()
			if err != nil {
				return "", err
			}
			ks, ok := k.(string)
			if !ok {
				return "", fmt.Errorf("key token %T", k)
			}
			x, err := orderedTerm(dec)
			if err != nil {
				return "", err
			}
			items = append(items, cq.Tuple(cq.Str(ks), x))
		}
		if _, err := dec.Token(); err != nil {
			return "", err
		}
		return "(JObj " + cq.List(items) + ")", nil
	case nil:
		return "JNull", nil
	case bool:
		return "(JBool " + cq.Bool(t) + ")", nil
	case json.Number:
		return "(JNum " + cq.Str(string(t)) + ")", nil
	case string:
		return "(JStr " + cq.Str(t) + ")", nil
	}
	return "", fmt.Errorf("token %T", tok)
}

// ---- generators -------------------------------------------------------------------------------------

var jsonStringPieces = []string{
	"a", "Z", "0", " ", "_", "-", ".", "/", ":", "EU868", "1.0.2", "kek-label", "\"", "\\", "\b", "\f", "\n", "\r", "\t", "\x00", "\x01", "\x1f", "\x7f", "<", ">", "&", "'",
	"é", "λ", "߿", "ࠀ", "‧", " ", " ", "‪", "퟿", "", "�", "￿", "\U00010000", "\U0001F600", "\U0010FFFF", "日",
	"\x80", "\xbf", "\xc0\x80", "\xc1\xbf", "\xc2", "\xc2\x41", "\xe0\x9f\xbf", "\xe0\xa0", "\xe2\x80", "\xed\xa0\x80", "\xed\x9f\xbf", "\xef\xbf", "\xf0\x8f\xbf\xbf", "\xf0\x90\x80", "\xf4\x8f\xbf\xbf", "\xf4\x90\x80\x80", "\xf5\x80\x80\x80", "\xff", "\xfe",
}

func jsonString(r *cq.RNG, valid bool) string {
	n := r.Intn(7)
	var b strings.Builder
	for i := 0; i < n; i++ {
		p := jsonStringPieces[r.Intn(len(jsonStringPieces))]
		if valid && p[0] >= 0x80 && !json.Valid([]byte(`"`+p+`"`)) {
			continue
		}
		if valid && strings.ToValidUTF8(p, "") != p {
			continue
		}
		b.WriteString(p)
	}
	return b.String()
}

func jsonNumberText(r *cq.RNG) string {
	var b strings.Builder
	if r.Intn(3) == 0 {
		b.WriteByte('-')
	}
	digits := func(n int) {
		for i := 0; i < n; i++ {
			b.WriteByte(byte('0' + r.Intn(10)))
		}
	}
	if r.Intn(4) == 0 {
		b.WriteByte('0')
	} else {
		b.WriteByte(byte('1' + r.Intn(9)))
		digits(r.Intn(6))
	}
	if r.Intn(3) == 0 {
		b.WriteByte('.')
		digits(1 + r.Intn(5))
	}
	if r.Intn(4) == 0 {
		b.WriteByte("eE"[r.Intn(2)])
		switch r.Intn(3) {
		case 0:
			b.WriteByte('+')
		case 1:
			b.WriteByte('-')
		}
		digits(1 + r.Intn(3))
	}
	return b.String()
}

// jsonTree: a random tree; validStrings: only valid UTF-8 strings and keys.
func jsonTree(r *cq.RNG, depth int, validStrings bool) interface{} {
	k := r.Intn(9)
	if depth <= 0 && k >= 7 {
		k = r.Intn(7)
	}
	switch k {
	case 0:
		return nil
	case 1:
		return r.Bool()
	case 2:
		return json.Number(jsonNumberText(r))
	case 3:
		return int64(r.U64()) >> uint(r.Intn(64))
	case 4, 5, 6:
		return jsonString(r, validStrings)
	case 7:
		n := r.Intn(4)
		a := make([]interface{}, n)
		for i := range a {
			a[i] = jsonTree(r, depth-1, validStrings)
		}
		return a
	}
	n := r.Intn(4)
	m := map[string]interface{}{}
	for i := 0; i < n; i++ {
		m[jsonString(r, validStrings)] = jsonTree(r, depth-1, validStrings)
	}
	return m
}

func jsonPrintCase(s *cases.Set, v interface{}, name, kind string) []byte {
	out, err := json.Marshal(v)
	if err != nil {
		s.Fail(cases.GoFail{Key: "json:print:" + name, What: "json.Marshal of a generic tree returns an error: " + err.Error(), Replay: map[string]interface{}{"api": "encoding/json.Marshal", "tree": jterm(v)}})
		return nil
	}
	s.Add(cases.Case{Term: fmt.Sprintf("CJsonPrint %s %s", jterm(v), cq.Bytes(out)), Key: "json:print:" + name, Kind: kind, Nontrivial: true,
		Replay: map[string]interface{}{"api": "encoding/json.Marshal(interface{})", "tree": jterm(v), "observed": string(out)}})
	return out
}

func jsonParseCase(s *cases.Set, text []byte, kind string) {
	valid := json.Valid(text)
	asMap, ordered := cq.None, cq.None
	if valid {
		dec := json.NewDecoder(bytes.NewReader(text))
		dec.UseNumber()
		var v interface{}
		if err := dec.Decode(&v); err != nil {
			s.Fail(cases.GoFail{Key: fmt.Sprintf("json:parse:%q", text), What: "json.Valid accepts a text that Decoder.Decode refuses: " + err.Error(), Replay: map[string]interface{}{"api": "encoding/json", "text": string(text)}})
			return
		}
		asMap = cq.Some(jterm(v))
		dec2 := json.NewDecoder(bytes.NewReader(text))
		dec2.UseNumber()
		o, err := orderedTerm(dec2)
		if err != nil {
			s.Fail(cases.GoFail{Key: fmt.Sprintf("json:parse:%q", text), What: "json.Valid accepts a text whose token stream fails: " + err.Error(), Replay: map[string]interface{}{"api": "encoding/json", "text": string(text)}})
			return
		}
		ordered = cq.Some(o)
	}
	name := string(text)
	if len(name) > 120 {
		name = fmt.Sprintf("%s...(%d bytes)", name[:100], len(name))
	}
	s.Add(cases.Case{Term: fmt.Sprintf("CJsonParse %s %s %s %s", cq.Bytes(text), cq.Bool(valid), asMap, ordered), Key: fmt.Sprintf("json:parse:%q", name), Kind: kind, Nontrivial: true,
		Replay: map[string]interface{}{"api": "encoding/json Valid / Decoder.Decode(UseNumber) / Token", "text": string(text), "valid": valid, "observed_as_map": asMap, "observed_ordered": ordered}})
}

// respace inserts white space between the tokens of a compact document and rewrites some string characters as escapes.
func respace(r *cq.RNG, doc []byte) []byte {
	var out []byte
	inStr := false
	ws := []string{" ", "\t", "\n", "\r", "  ", " \n\t"}
	for i := 0; i < len(doc); i++ {
		c := doc[i]
		if inStr {
			switch {
			case c == '\\':
				out = append(out, c, doc[i+1])
				i++
			case c == '"':
				inStr = false
				out = append(out, c)
			case c == '/' && r.Intn(2) == 0:
				out = append(out, '\\', '/')
			case c < 0x80 && r.Intn(6) == 0:
				out = append(out, []byte(fmt.Sprintf("\\u%04X", c))...)
			case c < 0x80 && r.Intn(6) == 0:
				out = append(out, []byte(fmt.Sprintf("\\u%04x", c))...)
			default:
				out = append(out, c)
			}
			continue
		}
		if c == '"' {
			inStr = true
		}
		if strings.IndexByte("{}[]:,", c) >= 0 || c == '"' && r.Intn(2) == 0 {
			if r.Intn(2) == 0 {
				out = append(out, ws[r.Intn(len(ws))]...)
			}
			out = append(out, c)
			if c != '"' && r.Intn(2) == 0 {
				out = append(out, ws[r.Intn(len(ws))]...)
			}
			continue
		}
		out = append(out, c)
	}
	return out
}

func jsonCases(s *cases.Set, r *cq.RNG, thorough bool) {
	// ---- printer: every single byte as a one-byte string (escaping table), then structured strings and trees ----
	all := make([]interface{}, 256)
	for b := 0; b < 256; b++ {
		all[b] = string([]byte{byte(b)})
	}
	jsonPrintCase(s, all, "every-byte-as-a-string", "json-print-every-byte")
	s.Exhaustive("json: every byte 0..255 as a one-byte string through json.Marshal (escaping table), evaluated in Coq")
	for i, p := range jsonStringPieces {
		jsonPrintCase(s, []interface{}{p, "x" + p + "y", p + p}, fmt.Sprintf("piece-%d:%q", i, p), "json-print-string-piece")
	}
	for _, v := range []interface{}{nil, true, false, int64(0), int64(-1), int64(9223372036854775807), int64(-9223372036854775808), json.Number("0"), json.Number("-0"), json.Number("1e5"), json.Number("-1.50E-07"),
		"", []interface{}{}, map[string]interface{}{}, []interface{}{[]interface{}{}, map[string]interface{}{}}, map[string]interface{}{"": nil, "a": map[string]interface{}{"b": []interface{}{int64(1), "c"}}}} {
		jsonPrintCase(s, v, "fixed:"+jterm(v), "json-print-fixed")
	}
	n := 120
	if thorough {
		n = 4000
	}
	var docs [][]byte
	for i := 0; i < n; i++ {
		v := jsonTree(r, 1+r.Intn(4), i%3 != 0)
		if out := jsonPrintCase(s, v, fmt.Sprintf("random:%d:%s", i, shorten(jterm(v), 80)), "json-print-random-tree"); out != nil && i%3 != 0 {
			docs = append(docs, out)
		}
	}
	// a deep but legal tree
	var deep interface{} = "x"
	for i := 0; i < 60; i++ {
		if i%2 == 0 {
			deep = []interface{}{deep}
		} else {
			deep = map[string]interface{}{"k": deep}
		}
	}
	jsonPrintCase(s, deep, "nested-60", "json-print-fixed")

	// ---- parser: printed documents with white space and escapes put in ----
	for i, d := range docs {
		if i%2 == 0 || thorough {
			jsonParseCase(s, respace(r, d), "json-parse-respaced-document")
		}
	}
	// hand-written
	for _, t := range []string{
		`null`, ` null `, "\tnull\n\r", "\vnull", "\fnull", " null", "nul", "nulll", "Null", "NULL", "true", "false", "tru", "True", "falsE", `"a"`, `'a'`, `"a`, `"`, `"\`, `"\"`, `"\a"`, `"\'"`, `"\/"`, `"é"`, `"é"`, `"\U00e9"`, `"\u00g9"`, `"\u12"`, `"\u123`, `"😀"`, `"😀"`, `"\ud83d"`, `"\ud83dx"`, `"\ud83dA"`, `"\ud83d\n"`, `"\ude00"`, `"\ude00\ud83d"`, `"\ud83d😀"`, `"\ud83d\ude0"`, `"\ud83d\ude0g"`, `"\ud83d\\ude00"`, `"􏿿"`, `"𐀀"`, `"퟿"`, `"￿\u0000"`,
		"\"\x01\"", "\"\x1f\"", "\"\x7f\"", "\"\xff\"", "\"\xc3\xa9\"", "\"\xed\xa0\x80\"", "\"\xe2\x80\xa8\"", "\"\xf0\x9f\x98\x80\"", "\"\xf0\x9f\x98\"", "\"\xc2\"", "\"a\nb\"", "\"a\tb\"", `"\u0000"`, `"\b\f\n\r\t"`, `"\"\\"`, `"""`, `"\"`, `"<>&"`, `"<"`,
		`0`, `-0`, `00`, `01`, `-`, `-a`, `--1`, `1.`, `.5`, `+1`, `1.5`, `1e5`, `1E5`, `1e+5`, `1e-5`, `1e`, `1e+`, `1e+-5`, `1.e5`, `1.5e5.5`, `0.0`, `0e0`, `0E-0`, `-0.0e-0`, `0.`, `-0.`, `0e`, `123456789012345678901234567890`, `1e999`, `0.00000000000000000000000000000000000001`, `NaN`, `Infinity`, `-Infinity`, `0x10`, `1_0`, `1 2`, `1,`, `1]`, `1a`, `1.5.5`, `1ee5`, `١`,
		`[]`, `[ ]`, `[1]`, `[1,]`, `[,1]`, `[,]`, `[1,,2]`, `[1 2]`, `[1`, `[`, `]`, `[1,2]x`, `[[]]`, `[[],[[]]]`, `[null,true,"a",1.5,{}]`, `[1}`, `[1:2]`, `["a":1]`, `[01]`, `[1.]`, `[-]`, `[tru]`, `[nulll]`, `[1,2`, `[1,`, `[ 1 , 2 ]`, "[\n1\n,\n2\n]",
		`{}`, `{ }`, `{"a":1}`, `{"a":1,}`, `{,"a":1}`, `{"a"}`, `{"a":}`, `{a:1}`, `{1:1}`, `{null:1}`, `{"a":1 "b":2}`, `{"a":1,"a":2}`, `{"a":1,"b":2,"a":3}`, `{"a":{"x":1},"a":{"y":2}}`, `{"a" : 1 , "b" : [ 1 , 2 ] }`, `{"a":1}}`, `{"a":{"b":{"c":null}}}`, `{"":1}`, `{"a":1]`, `{"a",1}`, `{"a"::1}`, `{"a":1;"b":2}`, `{`, `{"a"`, `{"a":`, `{"a":1`, `{"a":1,`, `{"a":1,"a":2}`, `{"a\u0000":1}`, `{"A":1,"a":2}`, "{\"\xff\":1,\"\xfe\":2}", `{'a':1}`, `{"a":01}`,
		"\xef\xbb\xbfnull", "", " ", "\n", `null null`, `nulltrue`, `"a""b"`, `[1]//c`, `/*c*/1`, `[1] `, "[1]\n", "\x00", "1\x00", "null\x00", `[1][2]`, `{}{}`, `{}[]`, `1 ,`, "nul\x6c", `"😀\ud83d"`,
	} {
		jsonParseCase(s, []byte(t), "json-parse-handwritten")
	}
	// every prefix and every one-byte mutation of a few documents
	base := [][]byte{[]byte(`{"a":[null,true,false,-1.5e+3,"x\"\\\n< é😀"],"":{},"k":[[],{"z":0}]}`), []byte(` [ 1 , {"MACVersion" : "1.0.2" , "DevEUI":"0102030405060708","ok":true} ] `)}
	alphabet := []byte("\"\\{}[]:,0123456789-+.eEtfn aul\x00\x1f\x7f\x80\xc3\xff/u'")
	seen := map[string]bool{}
	emit := func(t []byte, kind string) {
		if !seen[string(t)] {
			seen[string(t)] = true
			jsonParseCase(s, t, kind)
		}
	}
	per := 2
	if thorough {
		per = len(alphabet)
	}
	for bi, b := range base {
		for i := 0; i <= len(b); i++ {
			if thorough || i%2 == bi {
				emit(append([]byte{}, b[:i]...), "json-parse-truncated-document")
			}
			for k := 0; k < per; k++ {
				c := alphabet[r.Intn(len(alphabet))]
				if thorough {
					c = alphabet[k]
				}
				if i < len(b) {
					emit(append(append(append([]byte{}, b[:i]...), c), b[i+1:]...), "json-parse-one-byte-mutation")
				}
				if k == 0 {
					emit(append(append(append([]byte{}, b[:i]...), c), b[i:]...), "json-parse-one-byte-mutation")
				}
			}
			if i < len(b) && (thorough || i%2 == 0) {
				emit(append(append([]byte{}, b[:i]...), b[i+1:]...), "json-parse-one-byte-mutation")
			}
		}
	}
	// random token soup
	m := 60
	if thorough {
		m = 3000
	}
	toks := []string{"{", "}", "[", "]", ":", ",", `"a"`, `"b"`, `""`, "1", "-0", "0.5", "1e2", "true", "false", "null", " ", "\n", `"é"`, `"\ud83d"`, "01", "tru", `"`, "\\", "\xff", "x"}
	for i := 0; i < m; i++ {
		var b []byte
		for j, k := 0, 1+r.Intn(9); j < k; j++ {
			b = append(b, toks[r.Intn(len(toks))]...)
		}
		emit(b, "json-parse-token-soup")
	}
	// nesting limit (maxNestingDepth = 10000): the texts are built in Coq
	for _, c := range []struct {
		obj bool
		n   int
	}{{false, 1}, {false, 300}, {true, 300}, {false, 9999}, {false, 10000}, {false, 10001}, {true, 10000}, {true, 10001}, {false, 12000}} {
		if !thorough && c.n > 300 && !(c.n == 10000 && !c.obj) && !(c.n == 10001 && !c.obj) {
			continue
		}
		var text string
		if c.obj {
			text = strings.Repeat(`{"a":`, c.n) + "1" + strings.Repeat("}", c.n)
		} else {
			text = strings.Repeat("[", c.n) + strings.Repeat("]", c.n)
		}
		valid := json.Valid([]byte(text))
		var v interface{}
		if (json.Unmarshal([]byte(text), &v) == nil) != valid {
			s.Fail(cases.GoFail{Key: fmt.Sprintf("json:deep:obj=%v:n=%d", c.obj, c.n), What: "json.Valid and json.Unmarshal disagree on a deeply nested document", Replay: map[string]interface{}{"api": "encoding/json", "nesting": c.n, "objects": c.obj}})
		}
		s.Add(cases.Case{Term: fmt.Sprintf("CJsonDeep %s %d %s", cq.Bool(c.obj), c.n, cq.Bool(valid)), Key: fmt.Sprintf("json:deep:obj=%v:n=%d", c.obj, c.n), Kind: "json-parse-nesting-limit", Nontrivial: true,
			Replay: map[string]interface{}{"api": "encoding/json.Valid", "nesting": c.n, "objects": c.obj, "valid": valid}})
	}
}

func shorten(s string, n int) string {
	if len(s) > n {
		return s[:n] + "..."
	}
	return s
}
