(* Small local model of the MAC-layer encoders the band outputs go through
   (C14 encodability, C15 cross-layer clause).  Written to mirror
     mac_commands.go:256-365  ChMask, Redundancy, LinkADRReqPayload
     mac_commands.go:495-531  RXParamSetupReqPayload
     mac_commands.go:613-668  NewChannelReqPayload (200 Hz stepping from 2.4 GHz)
     mac_commands.go:774-802  DLChannelReqPayload
     mac_commands.go:864-893  BeaconFreqReqPayload
     mac_commands.go:927-962  PingSlotChannelReqPayload
     payload.go:226-359       CFList, CFListChannelPayload, CFListChannelMaskPayload
   The project's full MAC-command model (C06/C07) is to be linked here later;
   until then this file is the trusted description of those few encoders, and
   it is compared with the real encoders on every case of the C14/C15 runs.
   Bytes and integers are [Z]; a [uint32] frequency is a Z in [0, 2^32). *)
From Coq Require Import List ZArith Bool.
From LW Require Import Base.Outcome Band.Channels Band.Planner.
Import ListNotations.
Open Scope Z_scope.

(* ---- 24-bit little-endian frequency field, unit 100 Hz ------------------ *)

Definition le3 (x : Z) : list Z := [x mod 256; (x / 256) mod 256; (x / 65536) mod 256].
Definition unle3 (bs : list Z) : Z :=
  match bs with [a; b; c] => a + 256 * b + 65536 * c | _ => 0 end.

(* checks in the order of RXParamSetupReq/DLChannelReq/PingSlotChannelReq/BeaconFreqReq:
   range first, then the multiple-of-100 rule; both are errors *)
Definition freq3 (f : Z) : outcome (list Z) :=
  if f / 100 >=? 16777216 then Err
  else if negb (f mod 100 =? 0) then Err
  else Ok (le3 (f / 100)).
Definition unfreq3 (bs : list Z) : Z := unle3 bs * 100.

(* CFListChannelPayload: multiple-of-100 first, then range (same set of errors) *)
Definition cf_freq3 (f : Z) : outcome (list Z) :=
  if negb (f mod 100 =? 0) then Err
  else if f / 100 >? 16777215 then Err
  else Ok (le3 (f / 100)).

(* ---- MAC commands that carry a frequency -------------------------------- *)

(* DLSettings with RX1DROffset 0 and OptNeg false: the RX2 data-rate itself *)
Definition dlsettings_byte (rx2dr : Z) : outcome Z := if rx2dr >? 15 then Err else Ok rx2dr.

Definition rxparamsetupreq_marshal (f rx2dr : Z) : outcome (list Z) :=
  if f / 100 >=? 16777216 then Err
  else if negb (f mod 100 =? 0) then Err
  else do d <- dlsettings_byte rx2dr; Ok (d :: le3 (f / 100)).
(* returns (frequency, rx2dr) *)
Definition rxparamsetupreq_unmarshal (bs : list Z) : outcome (Z * Z) :=
  match bs with
  | [d; a; b; c] => Ok (unle3 [a; b; c] * 100, d mod 16)
  | _ => Err
  end.

(* ChIndex, Freq, MaxDR, MinDR *)
Definition newchannelreq_marshal (ch f mx mn : Z) : outcome (list Z) :=
  let fr := if f >=? 2400000000 then f / 2 else f in
  if fr / 100 >=? 16777216 then Err
  else if negb (f mod 100 =? 0) then Err
  else if (f >=? 2400000000) && negb (f mod 200 =? 0) then Err   (* fix c8a94da *)
  else if mx >? 15 then Err
  else if mn >? 15 then Err
  else Ok (ch :: le3 (fr / 100) ++ [Z.lxor mn ((mx * 16) mod 256)]).
(* returns (ChIndex, Freq, MaxDR, MinDR); the 32-bit product wraps *)
Definition newchannelreq_unmarshal (bs : list Z) : outcome (Z * Z * Z * Z) :=
  match bs with
  | [ch; a; b; c; d] =>
    let v := unle3 [a; b; c] in
    let f := if v >=? 12000000 then (v * 200) mod 2 ^ 32 else v * 100 in
    Ok (ch, f, d / 16, d mod 16)
  | _ => Err
  end.

Definition dlchannelreq_marshal (ch f : Z) : outcome (list Z) :=
  do b <- freq3 f; Ok (ch :: b).
Definition dlchannelreq_unmarshal (bs : list Z) : outcome (Z * Z) :=
  match bs with [ch; a; b; c] => Ok (ch, unle3 [a; b; c] * 100) | _ => Err end.

Definition beaconfreqreq_marshal (f : Z) : outcome (list Z) := freq3 f.
Definition beaconfreqreq_unmarshal (bs : list Z) : outcome Z :=
  match bs with [a; b; c] => Ok (unle3 [a; b; c] * 100) | _ => Err end.

Definition pingslotchannelreq_marshal (f dr : Z) : outcome (list Z) :=
  if f / 100 >=? 16777216 then Err
  else if negb (f mod 100 =? 0) then Err
  else if dr >=? 16 then Err
  else Ok (le3 (f / 100) ++ [dr]).
Definition pingslotchannelreq_unmarshal (bs : list Z) : outcome (Z * Z) :=
  match bs with [a; b; c; d] => Ok (unle3 [a; b; c] * 100, d mod 16) | _ => Err end.

(* ---- ChMask, LinkADRReq -------------------------------------------------- *)

(* value of a list of bits, least significant first *)
Fixpoint bits_val (m : list bool) : Z :=
  match m with [] => 0 | b :: m' => (if b then 1 else 0) + 2 * bits_val m' end.
Fixpoint val_bits (n : nat) (v : Z) : list bool :=
  match n with O => [] | S n' => Z.odd v :: val_bits n' (v / 2) end.

Definition chmask_marshal (m : list bool) : list Z :=
  let v := bits_val (pad_to false 16 m) in [v mod 256; v / 256].
Definition chmask_unmarshal (bs : list Z) : outcome (list bool) :=
  match bs with [a; b] => Ok (val_bits 16 (a + 256 * b)) | _ => Err end.

Definition linkadrreq_marshal (p : payload) : outcome (list Z) :=
  if p_dr p >? 15 then Err
  else if p_txp p >? 15 then Err
  else if p_nbrep p >? 15 then Err
  else if p_cntl p >? 7 then Err
  else Ok (Z.lxor (p_txp p) ((p_dr p * 16) mod 256) :: chmask_marshal (p_mask p)
           ++ [Z.lxor (p_nbrep p) ((p_cntl p * 16) mod 256)]).
Definition linkadrreq_unmarshal (bs : list Z) : outcome payload :=
  match bs with
  | [a; m0; m1; r] =>
    Ok (mkPayload (a / 16) (a mod 16) (val_bits 16 (m0 + 256 * m1)) ((r / 16) mod 8) (r mod 16))
  | _ => Err
  end.

(* ---- CFList (16 bytes: 15 payload bytes + type) -------------------------- *)

Fixpoint concat_outcomes {A} (l : list (outcome (list A))) : outcome (list A) :=
  match l with
  | [] => Ok []
  | x :: l' => do a <- x; do r <- concat_outcomes l'; Ok (a ++ r)
  end.

Definition cflist_marshal (c : cflist) : outcome (list Z) :=
  match c with
  | CFChannels fs =>
    do b <- concat_outcomes (map cf_freq3 fs); Ok (pad_to 0 15 b ++ [0])
  | CFMasks ms =>
    if (6 <? length ms)%nat then Err
    else Ok (pad_to 0 15 (concat (map chmask_marshal ms)) ++ [1])
  end.

Fixpoint triples (bs : list Z) : list Z :=
  match bs with a :: b :: c :: r => unle3 [a; b; c] * 100 :: triples r | _ => [] end.

Definition all_false (m : list bool) : bool := forallb negb m.

(* CFListChannelMaskPayload.UnmarshalBinary: masks are appended only up to the
   last one that is not all-zero; the caller passes at most 12 bytes (six masks),
   payload.go after fix e2c2b92 *)
Fixpoint masks_from (bs : list Z) (pending : list (list bool)) : list (list bool) :=
  match bs with
  | a :: b :: r =>
    let cm := val_bits 16 (a + 256 * b) in
    if all_false cm then masks_from r (pending ++ [cm])
    else pending ++ [cm] ++ masks_from r []
  | _ => []
  end.

Definition cflist_unmarshal (bs : list Z) : outcome cflist :=
  if negb (length bs =? 16)%nat then Err
  else let body := firstn 15 bs in
       (* six channel-masks, then RFU: bytes 12..14 are ignored (fix e2c2b92, finding C06-2) *)
       if nth 15 bs 0 =? 1 then Ok (CFMasks (masks_from (firstn 12 body) []))
       else Ok (CFChannels (triples body)).

(* masks without trailing all-zero entries: what a ChannelMask CFList keeps *)
Fixpoint strip_trailing_zero_masks (ms : list (list bool)) : list (list bool) :=
  match ms with
  | [] => []
  | m :: r => let r' := strip_trailing_zero_masks r in
              match r' with [] => if all_false m then [] else [m] | _ => m :: r' end
  end.

(* premises under which a frequency is encodable in a 24-bit x 100 Hz field *)
Definition freq_ok (f : Z) : bool := (0 <=? f) && (f mod 100 =? 0) && (f / 100 <? 16777216).
(* NewChannelReq: below 1.2 GHz in 100 Hz steps, or from 2.4 GHz in 200 Hz steps
   (between 1.2 GHz and 2^24*100 Hz the decoder applies the 200 Hz rule: C07-2) *)
Definition newchannel_freq_ok (f : Z) : bool :=
  ((0 <=? f) && (f mod 100 =? 0) && (f <? 1200000000)) ||
  ((2400000000 <=? f) && (f mod 200 =? 0) && (f / 200 <? 16777216)).
