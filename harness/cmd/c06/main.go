// Correspondence harness for C06: wire format of MAC commands (and, in
// frames.go, of frame headers / join payloads / CFList) against the
// table-driven specification evaluated in Coq.
package main

import (
	"fmt"
	"io"
	"log"
	"os"

	"github.com/brocaar/lorawan"
	"verifharness/internal/cases"
	"verifharness/internal/cq"
	"verifharness/internal/macfmt"
)

func encOutcome(p lorawan.MACCommandPayload) (s string) {
	defer func() {
		if r := recover(); r != nil {
			s = cq.Panic
		}
	}()
	b, err := p.MarshalBinary()
	if err != nil {
		return cq.Err
	}
	return cq.Ok(cq.Bytes(b))
}

func decOutcome(ki int, bs []byte) (s string) {
	defer func() {
		if r := recover(); r != nil {
			s = cq.Panic
		}
	}()
	p := macfmt.Kinds[ki].New()
	in := append([]byte{}, bs...)
	if err := p.UnmarshalBinary(in); err != nil {
		return cq.Err
	}
	return cq.Ok(macfmt.Payload(p))
}

func addEnc(s *cases.Set, p lorawan.MACCommandPayload, kind string) {
	t := macfmt.Payload(p)
	s.Add(cases.Case{Term: fmt.Sprintf("CEnc %s %s", t, encOutcome(p)), Key: "enc:" + t, Kind: "enc-" + kind, Nontrivial: true,
		Replay: map[string]interface{}{"api": kind + " payload MarshalBinary", "value": t}})
}

func addDec(s *cases.Set, ki int, bs []byte, tag string) {
	k := macfmt.Kinds[ki]
	s.Add(cases.Case{Term: fmt.Sprintf("CDec %s %s %s", k.Name, cq.Bytes(bs), decOutcome(ki, bs)),
		Key: fmt.Sprintf("dec:%s:%x", k.Name, bs), Kind: "dec-" + tag + "-" + k.Name, Nontrivial: true,
		Replay: map[string]interface{}{"api": k.Name + " payload UnmarshalBinary", "bytes": fmt.Sprintf("%x", bs)}})
}

func main() {
	log.SetOutput(io.Discard)
	dir, seed, thorough := cases.Args()
	r := cq.NewRNG(seed)
	s := cases.New("C06", dir, "LW.Corr.C06",
		"per payload kind: all byte strings of 1-byte payloads (exhaustive), 2-byte payloads exhaustive in the thorough tier and 2,048 sampled + all 0x00/0xff/one-hot patterns in quick, boundary+random for 3-5 byte payloads, wrong lengths; encode of in-range values (exhaustive where the in-range space is <= 4096) and out-of-range values; all 512 (direction, CID) registry lookups; frame headers, join payloads and CFList in frames.go, including 16 CFList octets decoded and encoded again (encoded lists with the RFU octets 12..14 of the channel-mask type set, arbitrary octets of both types, unknown types, wrong lengths). Every case distinct by construction (distinct = distinct printed case).")
	s.ShardSize = 700
	// registry: all 512 (direction, CID)
	for _, up := range []bool{false, true} {
		for cid := 0; cid < 256; cid++ {
			p, size, err := lorawan.GetMACPayloadAndSize(up, lorawan.CID(cid))
			o := cq.None
			if err == nil {
				o = cq.Some(cq.Tuple(cq.Z(int64(size)), macfmt.KindOf(p)))
			}
			s.Add(cases.Case{Term: fmt.Sprintf("CReg %v %d %s", up, cid, o), Key: fmt.Sprintf("reg:up=%v:cid=%d", up, cid), Kind: "registry", Nontrivial: true,
				Replay: map[string]interface{}{"api": "GetMACPayloadAndSize", "uplink": up, "cid": cid}})
		}
	}
	s.Exhaustive("registry: 2 directions x 256 CIDs")
	nRand := 25
	n2 := 2048
	if thorough {
		nRand = 600
		n2 = 65536
	}
	for ki, k := range macfmt.Kinds {
		// decode
		switch k.Size {
		case 1:
			for b := 0; b < 256; b++ {
				addDec(s, ki, []byte{byte(b)}, "exh1")
			}
		case 2:
			if n2 == 65536 {
				for v := 0; v < 65536; v++ {
					addDec(s, ki, []byte{byte(v), byte(v >> 8)}, "exh2")
				}
			} else {
				for b := 0; b < 256; b++ {
					addDec(s, ki, []byte{byte(b), 0}, "2b")
					addDec(s, ki, []byte{0, byte(b)}, "2b")
					addDec(s, ki, []byte{byte(b), 0xff}, "2b")
					addDec(s, ki, []byte{0xff, byte(b)}, "2b")
				}
				for i := 0; i < n2-1024; i++ {
					addDec(s, ki, r.Bytes(2), "2b")
				}
			}
		default:
			for i := 0; i < 40+nRand*8; i++ {
				bs := r.Bytes(k.Size)
				switch i % 8 {
				case 0:
					for j := range bs {
						bs[j] = 0
					}
					bs[i/8%k.Size] = 1 << uint(i/8/k.Size%8)
				case 1:
					for j := range bs {
						bs[j] = 0xff
					}
					bs[i/8%k.Size] ^= 1 << uint(i/8/k.Size%8)
				case 2:
					bs[r.Intn(k.Size)] = 0xff
				case 3:
					bs[r.Intn(k.Size)] = 0
				}
				addDec(s, ki, bs, "rand")
			}
		}
		// wrong lengths
		for _, n := range []int{0, k.Size - 1, k.Size + 1, k.Size + 7} {
			if n >= 0 && n != k.Size {
				addDec(s, ki, r.Bytes(n), "len")
			}
		}
		// encode: in-range and full-domain values
		for i := 0; i < 60+nRand*4; i++ {
			addEnc(s, macfmt.Random(r, ki, true), k.Name)
			addEnc(s, macfmt.Random(r, ki, false), k.Name)
		}
	}
	s.Exhaustive("decode of every 1-byte payload: 256 byte values x 20 kinds")
	if thorough {
		s.Exhaustive("decode of every 2-byte payload: 65,536 byte strings x 3 kinds")
	}
	// exhaustive in-range encodes of the small single-byte kinds
	for v := 0; v < 256; v++ {
		b := byte(v)
		addEnc(s, &lorawan.DutyCycleReqPayload{MaxDCycle: b}, "KDutyCycleReq")
		addEnc(s, &lorawan.RXTimingSetupReqPayload{Delay: b}, "KRXTimingSetupReq")
		addEnc(s, &lorawan.PingSlotInfoReqPayload{Periodicity: b}, "KPingSlotInfoReq")
		addEnc(s, &lorawan.ResetIndPayload{DevLoRaWANVersion: lorawan.Version{Minor: b}}, "KResetInd")
		addEnc(s, &lorawan.DeviceModeIndPayload{Class: lorawan.DeviceModeClass(b)}, "KDeviceModeInd")
		addEnc(s, &lorawan.ADRParamSetupReqPayload{ADRParam: lorawan.ADRParam{LimitExp: b >> 4, DelayExp: b & 15}}, "KADRParamSetupReq")
		addEnc(s, &lorawan.RejoinParamSetupReqPayload{MaxTimeN: b >> 4, MaxCountN: b & 15}, "KRejoinParamSetupReq")
		addEnc(s, &lorawan.TXParamSetupReqPayload{MaxEIRP: b & 15, UplinkDwellTime: lorawan.DwellTime(b >> 4 & 1), DownlinkDwelltime: lorawan.DwellTime(b >> 5 & 1)}, "KTXParamSetupReq")
		addEnc(s, &lorawan.DevStatusAnsPayload{Battery: 255 - b, Margin: int8(b)}, "KDevStatusAns")
	}
	frameCases(s, r, thorough)
	if err := s.Finish(); err != nil {
		fmt.Fprintln(os.Stderr, err)
		os.Exit(2)
	}
}
