(* C07: lossless-or-error round trip of every payload value, self-delimiting
   command streams for every registry whose sizes are the encoded lengths, and
   the effect of any history of proprietary registrations. *)
From Coq Require Import List NArith ZArith Bool Lia.
From Coq Require Import ZifyN ZifyNat ZifyBool.
From LW Require Import Base.Outcome Base.Bytes Mac.Commands Mac.Spec Mac.Stream
     Mac.ByteLemmas Mac.EqLemmas Mac.PackProofs Mac.DecProofs Mac.EncProofs.
Import ListNotations.
Open Scope N_scope.

Lemma layout_whole_bytes k : bit_size (layout_of k) = 8 * N.of_nat (byte_size (layout_of k)).
Proof. destruct k; vm_compute; reflexivity. Qed.

Lemma byte_size_kind_size k : Z.of_nat (byte_size (layout_of k)) = kind_size k.
Proof. destruct k; vm_compute; reflexivity. Qed.

(* the kind-level description is an inverse pair: on in-width field values, and on the
   whole-octet legacy values (which no layout encoding collides with) *)
Lemma sweep_k_inverse_DutyCycleReq :
  forallb (fun v => list_eqb N.eqb (spec_decode_k KDutyCycleReq (spec_encode_k KDutyCycleReq [v])) [v])
          (255 :: range 16) = true.
Proof. vm_compute. reflexivity. Qed.

Theorem spec_k_inverse k vals : k <> KProprietary ->
  in_widths (layout_of k) vals = true \/ (exists x, vals = [x] /\ is_legacy k x = true) ->
  spec_decode_k k (spec_encode_k k vals) = vals.
Proof.
  intros Hk H.
  destruct (kind_eqb k KDutyCycleReq) eqn:Ed.
  - destruct k; try discriminate Ed. clear Ed.
    assert (Hv : exists v, vals = [v] /\ (v = 255 \/ v < 16)).
    { destruct H as [H|(x & -> & H)].
      - cbn [layout_of in_widths] in H. destruct vals as [|v [|]]; try discriminate.
        + exists v. split; [reflexivity|]. right. rewrite andb_true_r in H. apply N.ltb_lt in H. exact H.
        + apply andb_true_iff in H as [_ H]. discriminate.
      - exists x. split; [reflexivity|]. left. unfold is_legacy in H. cbn [legacy_octets existsb] in H.
        rewrite orb_false_r in H. now apply N.eqb_eq in H. }
    destruct Hv as (v & -> & Hv).
    pose proof sweep_k_inverse_DutyCycleReq as S. rewrite forallb_forall in S.
    assert (Hin : In v (255 :: range 16)) by (destruct Hv as [->|Hv]; [now left|right; now apply in_range]).
    specialize (S v Hin). cbv beta in S.
    revert S. generalize (spec_decode_k KDutyCycleReq (spec_encode_k KDutyCycleReq [v])). intros l S.
    destruct l as [|a [|]]; cbn in S; try discriminate; [|rewrite andb_false_r in S; discriminate].
    rewrite andb_true_r in S. apply N.eqb_eq in S. now subst.
  - assert (Hl : legacy_octets k = []) by (destruct k; try discriminate Ed; reflexivity).
    rewrite spec_encode_k_plain, spec_decode_k_plain by assumption.
    destruct H as [H|(x & _ & H)]; [|unfold is_legacy in H; rewrite Hl in H; discriminate].
    apply spec_decode_encode; [apply layout_whole_bytes|assumption].
Qed.

(* DutyCycleReq (4-bit field, or the whole-octet value 255 of LoRaWAN 1.0): all 256 values *)
Lemma sweep_rt_DutyCycleReq :
  forallb (fun m => match enc (PDutyCycleReq m) with
                    | Ok bs => outcome_eqb macpl_eqb (dec KDutyCycleReq bs) (Ok (PDutyCycleReq m))
                    | _ => true end) (range 256) = true.
Proof. vm_compute. reflexivity. Qed.

Lemma roundtrip_DutyCycleReq m bs :
  wf_go (PDutyCycleReq m) = true -> enc (PDutyCycleReq m) = Ok bs ->
  dec KDutyCycleReq bs = Ok (PDutyCycleReq m).
Proof.
  intros Hwf H. cbn [wf_go] in Hwf. unfold u8 in Hwf. apply N.ltb_lt in Hwf.
  pose proof (sweep1 256 _ sweep_rt_DutyCycleReq m Hwf) as S. cbv beta in S. rewrite H in S.
  now apply peqb_eq.
Qed.

(* encoding is lossless or refused (to wire resolution), for every value of the Go types *)
Theorem roundtrip v bs :
  wf_go v = true -> enc v = Ok bs -> newch_ambiguous v = false ->
  dec (kind_of v) bs = Ok (wire_resolution v).
Proof.
  intros Hwf H Ha.
  destruct (kind_eqb (kind_of v) KProprietary) eqn:Ek.
  - destruct v; try discriminate Ek. cbn in H. injection H as <-. reflexivity.
  - assert (Hk : kind_of v <> KProprietary) by (intros E; rewrite E in Ek; discriminate).
    destruct (kind_eqb (kind_of v) KDutyCycleReq) eqn:Ed.
    { destruct v; try discriminate Ed. now apply roundtrip_DutyCycleReq. }
    assert (Hl : legacy_octets (kind_of v) = []) by (destruct v; try discriminate Ed; reflexivity).
    pose proof (enc_eq_spec v bs Hwf Hk H) as ->.
    destruct (accepted_fields v _ Hwf Hk Hl H Ha) as [Hw Hv].
    rewrite spec_encode_k_plain by assumption.
    rewrite dec_eq_spec; [|assumption|apply spec_encode_bytes].
    unfold dec_spec. rewrite spec_encode_length, PeanoNat.Nat.eqb_refl.
    rewrite spec_decode_k_plain by assumption.
    rewrite spec_decode_encode by (apply layout_whole_bytes || assumption).
    now rewrite Hv.
Qed.

Lemma enc_length v bs : wf_go v = true -> kind_of v <> KProprietary -> enc v = Ok bs ->
  Z.of_nat (length bs) = kind_size (kind_of v).
Proof.
  intros Hwf Hk H. rewrite (enc_eq_spec v bs Hwf Hk H), spec_encode_k_length by assumption. apply byte_size_kind_size.
Qed.

Lemma enc_bytes v bs : wf_go v = true -> enc v = Ok bs -> Forall (fun b => b < 256) bs.
Proof.
  intros Hwf H.
  destruct (kind_eqb (kind_of v) KProprietary) eqn:Ek.
  - destruct v; try discriminate Ek. cbn in H. injection H as <-. cbn in Hwf. now apply bytes_ok_Forall.
  - assert (Hk : kind_of v <> KProprietary) by (intros E; rewrite E in Ek; discriminate).
    rewrite (enc_eq_spec v bs Hwf Hk H). now apply spec_encode_k_bytes.
Qed.

(* ---- registration histories ---- *)
(* the registration rule, written independently of the model: for a proprietary CID the last
   accepted registration (size >= 0) in that direction decides - a positive size is the framing
   size, size 0 means "no payload" (no entry) *)
Fixpoint spec_entry (h : list (bool * N * Z)) (up : bool) (cid : N) (cur : option (Z * kind)) : option (Z * kind) :=
  match h with
  | [] => cur
  | (u, c, sz) :: h' =>
    spec_entry h' up cid
      (if Bool.eqb u up && (c =? cid) && (128 <=? c) && (c <=? 255) && (0 <=? sz)%Z
       then (if (0 <? sz)%Z then Some (sz, KProprietary) else None) else cur)
  end.

Lemma reg_lookup_remove r u c up cid :
  reg_lookup (reg_remove r u c) up cid =
  if Bool.eqb u up && (c =? cid) then None else reg_lookup r up cid.
Proof.
  induction r as [|[[u' c'] v] r IH]; cbn [reg_remove reg_lookup].
  - now destruct (Bool.eqb u up && (c =? cid)).
  - destruct (Bool.eqb u' u && (c' =? c)) eqn:E.
    + rewrite IH. destruct (Bool.eqb u up && (c =? cid)) eqn:E2; [reflexivity|].
      replace (Bool.eqb u' up && (c' =? cid)) with false; [reflexivity|].
      apply andb_true_iff in E as [E1 E3]. apply eqb_prop in E1. apply N.eqb_eq in E3. subst. now rewrite E2.
    + cbn [reg_lookup]. rewrite IH.
      destruct (Bool.eqb u' up && (c' =? cid)) eqn:E3; [|reflexivity].
      destruct (Bool.eqb u up && (c =? cid)) eqn:E2; [|reflexivity].
      apply andb_true_iff in E3 as [A1 A2]. apply eqb_prop in A1. apply N.eqb_eq in A2.
      apply andb_true_iff in E2 as [B1 B2]. apply eqb_prop in B1. apply N.eqb_eq in B2. subst.
      rewrite eqb_reflx, N.eqb_refl in E. discriminate.
Qed.

Theorem register_history h : forall r up cid,
  reg_lookup (register_all r h) up cid = spec_entry h up cid (reg_lookup r up cid).
Proof.
  unfold register_all.
  induction h as [|[[u c] sz] h IH]; intros r up cid; cbn [fold_left spec_entry]; [reflexivity|].
  rewrite IH. f_equal. unfold register.
  destruct ((128 <=? c) && (c <=? 255)) eqn:E1; cbn [negb fst].
  - destruct (sz <? 0)%Z eqn:E2; cbn [fst].
    + replace (0 <=? sz)%Z with false by lia. now rewrite andb_false_r.
    + replace (0 <=? sz)%Z with true by lia. rewrite andb_true_r.
      rewrite <- !andb_assoc. rewrite E1, andb_true_r.
      destruct (sz =? 0)%Z eqn:E3; cbn [fst reg_lookup].
      * replace (0 <? sz)%Z with false by lia. apply reg_lookup_remove.
      * replace (0 <? sz)%Z with true by lia. reflexivity.
  - rewrite <- !andb_assoc. rewrite (andb_assoc (128 <=? c)), E1. cbn [andb]. now rewrite !andb_false_r.
Qed.

(* the audited history: size n > 0, then size 0, both accepted - the CID has no entry again *)
Corollary reregister_zero r up cid n : 128 <= cid <= 255 -> (0 < n)%Z ->
  reg_lookup (register_all r [(up, cid, n); (up, cid, 0%Z)]) up cid = None.
Proof.
  intros Hc Hn. rewrite register_history. cbn [spec_entry].
  rewrite eqb_reflx, N.eqb_refl. replace (128 <=? cid) with true by lia. replace (cid <=? 255) with true by lia.
  replace (0 <=? n)%Z with true by lia. reflexivity.
Qed.

(* built-in commands (CID < 128) are never altered, the other direction is untouched *)
Corollary register_builtin_unchanged h r up cid : cid < 128 ->
  reg_lookup (register_all r h) up cid = reg_lookup r up cid.
Proof.
  intros Hc. rewrite register_history. generalize (reg_lookup r up cid).
  induction h as [|[[u c] sz] h IH]; intros cur; cbn [spec_entry]; [reflexivity|].
  rewrite IH. destruct (N.eqb_spec c cid) as [->|]; [|now rewrite andb_false_r].
  replace (128 <=? cid) with false by lia. now rewrite !andb_false_r.
Qed.

Corollary register_other_direction h r up cid :
  Forall (fun x => fst (fst x) = negb up) h ->
  reg_lookup (register_all r h) up cid = reg_lookup r up cid.
Proof.
  intros Hh. rewrite register_history. generalize (reg_lookup r up cid).
  induction Hh as [|[[u c] sz] h Hu _ IH]; intros cur; cbn [spec_entry]; [reflexivity|].
  rewrite IH. cbn in Hu. subst u. destruct up; reflexivity.
Qed.

(* ---- self-delimiting command streams ---- *)
Definition reg_ok (r : registry) : Prop :=
  forall up cid sz k, reg_lookup r up cid = Some (sz, k) ->
    (0 < sz)%Z /\ (k <> KProprietary -> sz = kind_size k).

Definition cmd_ok (r : registry) (up : bool) (it : item) : Prop :=
  match it with
  | IMac cid None => reg_lookup r up cid = None
  | IMac cid (Some v) =>
    wf_go v = true /\ newch_ambiguous v = false /\
    exists sz, reg_lookup r up cid = Some (sz, kind_of v) /\
               match v with PProprietary b => Z.of_nat (length b) = sz | _ => True end
  | IData _ => False
  end.

Definition item_resolution (it : item) : item :=
  match it with IMac c (Some v) => IMac c (Some (wire_resolution v)) | _ => it end.

Lemma go_index_app {A} (pre : list A) x t : go_index (pre ++ x :: t) (Z.of_nat (length pre)) = Ok x.
Proof.
  unfold go_index. replace (0 <=? Z.of_nat (length pre))%Z with true by lia.
  rewrite Nat2Z.id, nth_error_app2 by lia. now rewrite PeanoNat.Nat.sub_diag.
Qed.

Lemma go_slice_app {A} (pre b t : list A) :
  go_slice (pre ++ b ++ t) (Z.of_nat (length pre)) (Z.of_nat (length pre) + Z.of_nat (length b)) = Ok b.
Proof.
  unfold go_slice. rewrite !app_length.
  replace ((0 <=? Z.of_nat (length pre))%Z && (Z.of_nat (length pre) <=? Z.of_nat (length pre) + Z.of_nat (length b))%Z
           && (Z.of_nat (length pre) + Z.of_nat (length b) <=? Z.of_nat (length pre + (length b + length t)))%Z) with true by lia.
  f_equal. rewrite Nat2Z.id, skipn_app, PeanoNat.Nat.sub_diag, skipn_all. cbn [skipn app].
  replace (Z.to_nat (Z.of_nat (length pre) + Z.of_nat (length b)) - length pre)%nat with (length b) by lia.
  apply take_app_length.
Qed.

Definition item_marshal_cmd (it : item) : outcome (list N) :=
  match it with IMac c p => cmd_marshal c p | IData d => Ok d end.

(* what one command contributes to the stream, and what the decoder makes of it *)
Lemma cmd_step r up it b :
  reg_ok r -> cmd_ok r up it -> item_marshal_cmd it = Ok b ->
  exists cid pb, b = cid :: pb /\
    Z.of_nat (length pb) = match reg_lookup r up cid with Some (s, _) => s | None => 0%Z end /\
    fst (cmd_unmarshal r up b) = item_resolution it.
Proof.
  intros Hr Hc Hm. unfold item_marshal_cmd in Hm. destruct it as [cid [v|]|d]; cbn [cmd_ok] in Hc; [| |contradiction].
  - destruct Hc as (Hwf & Ha & sz & Hl & Hp).
    cbn [cmd_marshal] in Hm. destruct (enc v) as [pb| | |] eqn:E; cbn [bind] in Hm; try discriminate.
    injection Hm as <-. exists cid, pb. split; [reflexivity|].
    destruct (Hr _ _ _ _ Hl) as [Hpos Hsz]. rewrite Hl.
    assert (Hlen : Z.of_nat (length pb) = sz).
    { destruct (kind_eqb (kind_of v) KProprietary) eqn:Ek.
      - destruct v; try discriminate Ek. cbn in E. injection E as <-. exact Hp.
      - assert (Hk : kind_of v <> KProprietary) by (intros X; rewrite X in Ek; discriminate).
        rewrite (enc_length v pb Hwf Hk E). symmetry. now apply Hsz. }
    split; [exact Hlen|].
    cbn [cmd_unmarshal]. destruct pb as [|p0 pb']; [cbn in Hlen; lia|].
    rewrite Hl. rewrite (roundtrip v _ Hwf E Ha). reflexivity.
  - cbn [cmd_marshal] in Hm. injection Hm as <-. exists cid, []. split; [reflexivity|].
    rewrite Hc. split; reflexivity.
Qed.

Lemma decode_loop_cmds r up : reg_ok r -> forall cmds pre acc fuel bs,
  Forall (cmd_ok r up) cmds -> encode_cmds cmds = Ok bs -> (length cmds < fuel)%nat ->
  decode_loop fuel r up (pre ++ bs) (Z.of_nat (length pre)) acc = Ok (rev acc ++ map item_resolution cmds).
Proof.
  intros Hr. induction cmds as [|it rest IH]; intros pre acc fuel bs Hc He Hf.
  - cbn in He. injection He as <-. destruct fuel as [|fuel]; [lia|].
    cbn [decode_loop]. rewrite app_nil_r. replace (Z.of_nat (length pre) <=? Z.of_nat (length pre))%Z with true by lia.
    now rewrite app_nil_r.
  - inversion Hc as [|? ? Hit Hrest]; subst.
    destruct fuel as [|fuel]; [cbn in Hf; lia|].
    assert (Hm : exists b bs', item_marshal_cmd it = Ok b /\
                               encode_cmds rest = Ok bs' /\ bs = b ++ bs').
    { unfold item_marshal_cmd. destruct it as [c p|d]; cbn [encode_cmds] in He.
      - destruct (cmd_marshal c p) as [b| | |]; cbn [bind] in He; try discriminate.
        destruct (encode_cmds rest) as [bs'| | |]; cbn [bind] in He; try discriminate.
        injection He as <-. eauto.
      - contradiction. }
    destruct Hm as (b & bs' & Hb & Hrest' & ->).
    destruct (cmd_step r up it b Hr Hit Hb) as (cid & pb & -> & Hlen & Hun).
    cbn [decode_loop].
    replace (Z.of_nat (length (pre ++ (cid :: pb) ++ bs')) <=? Z.of_nat (length pre))%Z with false
      by (rewrite !app_length; cbn [length]; lia).
    cbn [app]. rewrite go_index_app. cbn [bind].
    set (plLen := match reg_lookup r up cid with Some (s, _) => s | None => 0%Z end) in *.
    replace (Z.of_nat (length (pre ++ cid :: pb ++ bs')) - Z.of_nat (length pre) <? plLen + 1)%Z with false
      by (rewrite !app_length; cbn [length]; rewrite app_length; lia).
    replace (Z.of_nat (length pre) + 1 + plLen)%Z with (Z.of_nat (length pre) + Z.of_nat (length (cid :: pb)))%Z
      by (cbn [length]; lia).
    change (cid :: pb ++ bs') with ((cid :: pb) ++ bs'). rewrite go_slice_app. cbn [bind].
    rewrite Hun.
    replace (Z.of_nat (length pre) + plLen + 1)%Z with (Z.of_nat (length (pre ++ cid :: pb))) by (rewrite app_length; cbn [length]; lia).
    replace (pre ++ (cid :: pb) ++ bs') with ((pre ++ cid :: pb) ++ bs') by (now rewrite <- app_assoc).
    rewrite (IH (pre ++ cid :: pb) (item_resolution it :: acc) fuel bs' Hrest Hrest') by (cbn in Hf; lia).
    cbn [rev map]. now rewrite <- app_assoc.
Qed.

(* any sequence of well-formed commands, concatenated, decodes into exactly that sequence *)
Theorem stream_roundtrip r up cmds bs :
  reg_ok r -> Forall (cmd_ok r up) cmds -> encode_cmds cmds = Ok bs ->
  decode_stream r up bs = Ok (map item_resolution cmds).
Proof.
  intros Hr Hc He. unfold decode_stream.
  apply (decode_loop_cmds r up Hr cmds [] [] (S (length bs)) bs Hc He).
  (* every command contributes at least its CID byte *)
  assert (H : forall cs b, Forall (cmd_ok r up) cs -> encode_cmds cs = Ok b -> (length cs <= length b)%nat).
  { induction cs as [|it rest IH]; intros b Hcs Heb; [cbn; lia|].
    inversion Hcs as [|? ? Hit Hrest]; subst. destruct it as [c p|d]; [|contradiction].
    cbn [encode_cmds] in Heb. destruct (cmd_marshal c p) as [b1| | |] eqn:E1; cbn [bind] in Heb; try discriminate.
    destruct (encode_cmds rest) as [b2| | |] eqn:E2; cbn [bind] in Heb; try discriminate.
    injection Heb as <-. specialize (IH b2 Hrest eq_refl). rewrite app_length. cbn [length].
    assert (1 <= length b1)%nat; [|lia].
    destruct p as [v|]; cbn [cmd_marshal] in E1.
    - destruct (enc v); cbn [bind] in E1; try discriminate. injection E1 as <-. cbn; lia.
    - injection E1 as <-. cbn; lia. }
  specialize (H cmds bs Hc He). lia.
Qed.

(* lossless or error, over the full Go domain, with the one explicit exception *)
Theorem lossless_or_error : forall v,
  wf_go v = true ->
  enc v = Err \/
  (exists bs, enc v = Ok bs /\ dec (kind_of v) bs = Ok (wire_resolution v)) \/
  newch_ambiguous v = true.
Proof.
  intros v Hwf. destruct (newch_ambiguous v) eqn:Ha; [right; right; reflexivity|].
  destruct (enc v) as [bs| | |] eqn:E.
  - right. left. exists bs. split; [reflexivity|]. exact (roundtrip v bs Hwf E Ha).
  - left. reflexivity.
  - exfalso. destruct v; cbn [enc enc_redundancy enc_dlsettings enc_version] in E;
      unfold enc_redundancy, enc_dlsettings, enc_version in E;
      repeat match type of E with
             | (if ?c then _ else _) = _ => destruct c
             | bind (if ?c then _ else _) _ = _ => destruct c; cbn [bind] in E
             end; discriminate.
  - exfalso. destruct v; cbn [enc enc_redundancy enc_dlsettings enc_version] in E;
      unfold enc_redundancy, enc_dlsettings, enc_version in E;
      repeat match type of E with
             | (if ?c then _ else _) = _ => destruct c
             | bind (if ?c then _ else _) _ = _ => destruct c; cbn [bind] in E
             end; discriminate.
Qed.

Theorem newchannel_refuted :
  exists v bs, wf_go v = true /\ enc v = Ok bs /\ dec (kind_of v) bs <> Ok (wire_resolution v).
Proof.
  exists (PNewChannelReq 3 1300000000 5 0), [3; 0x40; 0x5d; 0xc6; 0x50].
  split; [reflexivity|]. split; [vm_compute; reflexivity|]. vm_compute. discriminate.
Qed.
