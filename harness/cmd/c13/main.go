// Correspondence harness for C13 (data-rate, channel-plan and max-payload
// tables of every band configuration).  Everything is observed through the
// public band.Band API, every call under recover() so that a panic is an
// observation.  Negative channel / TX-power indices are not probed here
// (they belong to property C15).
package main

import (
	"fmt"
	"strings"
	"os"

	"github.com/brocaar/lorawan/band"
	"verifharness/bandcfg"
	"verifharness/internal/cases"
	"verifharness/internal/cq"
)

func guard(f func() string) (s string) {
	defer func() {
		if r := recover(); r != nil {
			s = cq.Panic
		}
	}()
	return f()
}

func oz(f func() (int, error)) string {
	return guard(func() string {
		v, err := f()
		if err != nil {
			return cq.Err
		}
		return cq.Ok(cq.Z(int64(v)))
	})
}

func str(s string) string { return bandcfg.Str(s) + "%string" }

var versions = []string{band.LoRaWAN_1_0_0, band.LoRaWAN_1_0_1, band.LoRaWAN_1_0_2, band.LoRaWAN_1_0_3, band.LoRaWAN_1_0_4,
	band.LoRaWAN_1_1_0, "latest", "9.9.9", band.RegParamRevRP002_1_0_0}
var revisions = []string{band.RegParamRevA, band.RegParamRevB, band.RegParamRevC, band.RegParamRevRP002_1_0_0, band.RegParamRevRP002_1_0_1,
	band.RegParamRevRP002_1_0_2, band.RegParamRevRP002_1_0_3, "latest", "ZZ-unknown"}

var knownVersions = []string{band.LoRaWAN_1_0_0, band.LoRaWAN_1_0_1, band.LoRaWAN_1_0_2, band.LoRaWAN_1_0_3, band.LoRaWAN_1_0_4, band.LoRaWAN_1_1_0, "latest"}
var knownRevisions = []string{band.RegParamRevA, band.RegParamRevB, band.RegParamRevC, band.RegParamRevRP002_1_0_0, band.RegParamRevRP002_1_0_1,
	band.RegParamRevRP002_1_0_2, band.RegParamRevRP002_1_0_3, "latest"}
var verNeighbours, revNeighbours = map[string][]string{}, map[string][]string{}

func init() {
	all := append(append([]string{}, knownVersions...), knownRevisions...)
	for _, v := range knownVersions {
		verNeighbours[v] = bandcfg.StringNeighbours(v, all)
	}
	for _, v := range knownRevisions {
		revNeighbours[v] = bandcfg.StringNeighbours(v, all)
	}
}

func main() {
	dir, seed, thorough := cases.Args()
	r := cq.NewRNG(seed)
	s := cases.New("C13", dir, "LW.Corr.C13",
		"non-trivial = a query that returns a value (a listed size, a defined data-rate, an existing channel / TX-power index, an accepted RX1 pair); "+
			"queries answered with an error are the trivial ones; distinct = distinct printed case")
	s.ShardSize = 3000
	cfgs := bandcfg.AllWithAliases() // 56 common configurations + 40 through the deprecated names

	maxpl := func(c bandcfg.Config, b band.Band, ver, rev string, dr int, kind string) {
		size := ""
		o := guard(func() string {
			ps, err := b.GetMaxPayloadSizeForDataRateIndex(ver, rev, dr)
			if err != nil {
				size = "err"
				return cq.Err
			}
			size = fmt.Sprintf("%d/%d", ps.M, ps.N)
			return cq.Ok(cq.Tuple(cq.Z(int64(ps.M)), cq.Z(int64(ps.N))))
		})
		if o == cq.Panic {
			size = "panic"
		}
		s.Add(cases.Case{
			Term: fmt.Sprintf("CMaxPl %d %s %s %s %s", c.Index, bandcfg.StrTerm(ver), bandcfg.StrTerm(rev), cq.Z(int64(dr)), o),
			Key:  fmt.Sprintf("maxpl:%s:ver=%s:rev=%s:dr=%d:size=%s", c.Key(), bandcfg.KeyStr(ver), bandcfg.KeyStr(rev), dr, size), Kind: kind,
			Nontrivial: size != "err",
			Replay: map[string]interface{}{"api": "band.GetConfig(name, repeater, dwell).GetMaxPayloadSizeForDataRateIndex(version, revision, dr)",
				"name": string(c.Name), "repeater": c.Repeater, "dwell400ms": c.Dwell, "version": ver, "revision": rev, "dr": dr, "observed_M/N": size}})
	}

	// corpus first: witnesses of the recorded findings
	for _, c := range cfgs {
		b, err := c.New()
		if err != nil {
			continue
		}
		switch {
		case c.Name == band.ISM2400:
			maxpl(c, b, "1.0.4", "RP002-1.0.3", 2, "maxpl-corpus")
		case c.Dwell && (c.Name == band.AS923 || c.Name == band.AS923_2 || c.Name == band.AS923_3 || c.Name == band.AS923_4 || c.Name == band.AU915):
			maxpl(c, b, "1.0.3", "A", 0, "maxpl-corpus")
			maxpl(c, b, "1.0.3", "A", 1, "maxpl-corpus")
		case c.Name == band.CN470:
			maxpl(c, b, "1.0.4", "RP002-1.0.3", 0, "maxpl-corpus")
		case c.Name == band.IN865:
			// past failure (seeded defect): the 1.0.2 map keyed by "B" only, no "latest" fallback
			maxpl(c, b, "1.0.2", "A", 0, "maxpl-corpus")
			maxpl(c, b, "1.0.2", "ZZ-unknown", 7, "maxpl-corpus")
		}
	}

	for _, c := range cfgs {
		b, err := c.New()
		if err != nil {
			s.Fail(cases.GoFail{Key: "getconfig:" + c.Key(), What: "band.GetConfig failed: " + err.Error(),
				Replay: map[string]interface{}{"name": string(c.Name)}})
			continue
		}
		rep := func(extra map[string]interface{}) map[string]interface{} {
			m := map[string]interface{}{"name": string(c.Name), "repeater": c.Repeater, "dwell400ms": c.Dwell}
			for k, v := range extra {
				m[k] = v
			}
			return m
		}

		// data-rates, both directions
		var defined []band.DataRate
		for dr := -2; dr <= 16; dr++ {
			dr := dr
			var d band.DataRate
			ok := false
			o := guard(func() string {
				v, err := b.GetDataRate(dr)
				if err != nil {
					return cq.Err
				}
				d, ok = v, true
				return cq.Ok(bandcfg.DataRate(false, false, v))
			})
			oUp, oDown := cq.Err, cq.Err
			if ok {
				defined = append(defined, d)
				oUp = oz(func() (int, error) { return b.GetDataRateIndex(true, d) })
				oDown = oz(func() (int, error) { return b.GetDataRateIndex(false, d) })
			}
			s.Add(cases.Case{Term: fmt.Sprintf("CDr %d %s %s %s %s", c.Index, cq.Z(int64(dr)), o, oUp, oDown),
				Key: fmt.Sprintf("dr:%s:dr=%d", c.Key(), dr), Kind: "data-rate", Nontrivial: ok,
				Replay: rep(map[string]interface{}{"api": "GetDataRate(dr), GetDataRateIndex(true|false, that)", "dr": dr, "observed": o, "index_uplink": oUp, "index_downlink": oDown})})
		}
		// parameter look-ups that are near misses of defined data-rates
		probe := func(up bool, q band.DataRate) {
			o := oz(func() (int, error) { return b.GetDataRateIndex(up, q) })
			s.Add(cases.Case{Term: fmt.Sprintf("CDrProbe %d %s %s %s", c.Index, cq.Bool(up), bandcfg.DataRate(false, false, q), o),
				Key: fmt.Sprintf("drprobe:%s:up=%v:%s/%d/%d/%d/%s/%d", c.Key(), up, q.Modulation, q.SpreadFactor, q.Bandwidth, q.BitRate, q.CodingRate, q.OccupiedChannelWidth),
				Kind: "data-rate-probe", Nontrivial: o != cq.Err,
				Replay: rep(map[string]interface{}{"api": "GetDataRateIndex(uplink, params)", "uplink": up, "params": fmt.Sprintf("%+v", q), "observed": o})})
		}
		probe(true, band.DataRate{})
		probe(false, band.DataRate{})
		for _, d := range defined {
			n := 2
			if thorough {
				n = 7
			}
			for k := 0; k < n; k++ {
				q := d
				which := r.Intn(7)
				if thorough {
					which = k
				}
				switch which {
				case 0:
					q.SpreadFactor++
				case 1:
					q.Bandwidth *= 2
				case 2:
					q.BitRate++
				case 3:
					if q.Modulation == band.LoRaModulation {
						q.Modulation = band.FSKModulation
					} else {
						q.Modulation = band.LoRaModulation
					}
				case 4:
					q.CodingRate += "x"
				case 5:
					q.OccupiedChannelWidth++
				case 6:
					q.SpreadFactor--
				}
				probe(true, q)
				probe(false, q)
			}
		}

		// max payload: every version x revision x DR 0..15 (exhaustive in both tiers)
		for vi, ver := range versions {
			for ri, rev := range revisions {
				if c.Alias && !thorough && !((vi == 2 || vi == 3 || vi == 7) && (ri == 0 || ri == 1 || ri == 6 || ri == 8)) {
					// objects obtained through a deprecated name (tables proved equal to those of the common
					// name): 1.0.2 / 1.0.3 / unknown x A / B / RP002-1.0.3 / unknown in the quick tier
					continue
				}
				for dr := 0; dr <= 15; dr++ {
					maxpl(c, b, ver, rev, dr, "maxpl")
				}
			}
		}
		// cross-class strings: every regional-parameters revision constant passed as PROTOCOL VERSION (an
		// unknown version: must resolve like latest, and the same query on the repeater / non-repeater
		// objects must stay ordered) and every protocol version constant passed as revision
		if !c.Alias || thorough {
			for _, ver := range knownRevisions[:7] {
				for _, rev := range []string{band.RegParamRevA, band.RegParamRevRP002_1_0_0, band.RegParamRevRP002_1_0_3, "ZZ-unknown", ver} {
					for _, dr := range []int{0, 2, 5, 7} {
						maxpl(c, b, ver, rev, dr, "maxpl-revision-as-version")
					}
				}
			}
			for _, rev := range knownVersions[:6] {
				for _, ver := range []string{band.LoRaWAN_1_0_2, band.LoRaWAN_1_1_0, "9.9.9", rev} {
					for _, dr := range []int{0, 2, 5, 7} {
						maxpl(c, b, ver, rev, dr, "maxpl-version-as-revision")
					}
				}
			}
		}
		for _, dr := range []int{-1, 16, 255, -(1 << 40)} {
			maxpl(c, b, "1.0.3", "A", dr, "maxpl-dr-out-of-range")
			maxpl(c, b, "", "", dr, "maxpl-dr-out-of-range")
		}
		maxpl(c, b, "", "", 0, "maxpl")
		if !c.Alias && (!c.Repeater && !c.Dwell || thorough) {
			// structured neighbours of the known version / revision constants ("1.0.2B", "1.0.2 ", "01.0.2",
			// "1.0.3.1", "+1.1.0", "rp002-1.0.3", "RP002-1.0.03", ...): all of them are UNKNOWN strings and must
			// resolve like "latest" - never like the constant they resemble
			// per constant: the (other argument, DR) cells of THIS band where the constant and an unknown
			// string give different answers - there a neighbour taken for the constant is visible
			raw := func(ver, rev string, dr int) string {
				ps, err := b.GetMaxPayloadSizeForDataRateIndex(ver, rev, dr)
				if err != nil {
					return "err"
				}
				return fmt.Sprintf("%d/%d", ps.M, ps.N)
			}
			type cell struct {
				other string
				dr    int
			}
			pick := func(constant string, isVersion bool) []cell {
				var out []cell
				others := revisions // the other argument: a revision for a version constant ...
				if !isVersion {
					others = versions // ... and a version for a revision constant
				}
				for _, o := range others {
					for dr := 0; dr <= 15 && len(out) < 2; dr++ {
						var k, u string
						if isVersion {
							k, u = raw(constant, o, dr), raw("\x01no-such-version", o, dr)
						} else {
							k, u = raw(o, constant, dr), raw(o, "\x01no-such-revision", dr)
						}
						if k != u && (len(out) == 0 || out[0].other != o) {
							out = append(out, cell{o, dr})
						}
					}
				}
				if len(out) == 0 && c.Name == band.EU868 {
					out = []cell{{others[0], 0}}
				}
				return out
			}
			for _, k := range knownVersions {
				cells := pick(k, true)
				for _, n := range verNeighbours[k] {
					for _, ce := range cells {
						maxpl(c, b, n, ce.other, ce.dr, "maxpl-string-neighbour")
					}
				}
			}
			for _, k := range knownRevisions {
				cells := pick(k, false)
				for _, n := range revNeighbours[k] {
					for _, ce := range cells {
						maxpl(c, b, ce.other, n, ce.dr, "maxpl-string-neighbour")
					}
				}
			}
		}
		maxpl(c, b, "1.0.2", "a", 3, "maxpl")
		maxpl(c, b, "LATEST", "latest ", 3, "maxpl")

		// accepted RX1 pairs: the result must be a defined downlink data-rate
		for dr := 0; dr <= 15; dr++ {
			for off := 0; off <= 7; off++ {
				dr, off := dr, off
				var res int
				ok := false
				guard(func() string {
					v, err := b.GetRX1DataRateIndex(dr, off)
					if err == nil {
						res, ok = v, true
					}
					return ""
				})
				if ok {
					s.Add(cases.Case{Term: fmt.Sprintf("CRx1Res %d %s %s %s", c.Index, cq.Z(int64(dr)), cq.Z(int64(off)), cq.Z(int64(res))),
						Key: fmt.Sprintf("rx1res:%s:dr=%d:off=%d", c.Key(), dr, off), Kind: "rx1-result-closure", Nontrivial: true,
						Replay: rep(map[string]interface{}{"api": "GetRX1DataRateIndex(dr, off)", "dr": dr, "off": off, "observed": res})})
				}
			}
		}

		// channels 0..n+1 (until two indices past the end)
		for _, up := range []bool{true, false} {
			up := up
			errs := 0
			for idx := 0; idx < 300 && errs < 2; idx++ {
				idx := idx
				o := guard(func() string {
					var ch band.Channel
					var err error
					if up {
						ch, err = b.GetUplinkChannel(idx)
					} else {
						ch, err = b.GetDownlinkChannel(idx)
					}
					if err != nil {
						return cq.Err
					}
					return cq.Ok(cq.Tuple(cq.Z(int64(ch.Frequency)), cq.Z(int64(ch.MinDR)), cq.Z(int64(ch.MaxDR))))
				})
				if o != cq.Err && o != cq.Panic {
					errs = 0
				} else {
					errs++
				}
				s.Add(cases.Case{Term: fmt.Sprintf("CChan %d %s %s %s", c.Index, cq.Bool(up), cq.Z(int64(idx)), o),
					Key: fmt.Sprintf("chan:%s:uplink=%v:idx=%d", c.Key(), up, idx), Kind: "default-channel", Nontrivial: errs == 0,
					Replay: rep(map[string]interface{}{"api": "GetUplinkChannel(idx) / GetDownlinkChannel(idx)", "uplink": up, "idx": idx, "observed": o})})
			}
		}

		for _, ch := range bandcfg.ScribbleCheck(b) {
			s.Fail(cases.GoFail{Key: fmt.Sprintf("returned-value-alias:%s:fresh:%s", c.Key(), strings.SplitN(ch, ":", 2)[0]),
				What:   "the band keeps (and hands out again) a slice / pointer it returned to the caller: " + ch,
				Replay: rep(map[string]interface{}{"api": "getter; overwrite the returned value; getter again", "changed": ch})})
		}
		var edr []int64
		for _, v := range b.GetEnabledUplinkDataRates() {
			edr = append(edr, int64(v))
		}
		s.Add(cases.Case{Term: fmt.Sprintf("CEnabledDRs %d %s", c.Index, cq.Zs(edr)),
			Key: "enabled-drs:" + c.Key(), Kind: "enabled-uplink-data-rates", Nontrivial: true,
			Replay: rep(map[string]interface{}{"api": "GetEnabledUplinkDataRates()", "observed": edr})})

		errs := 0
		for idx := 0; idx < 40 && errs < 2; idx++ {
			idx := idx
			o := oz(func() (int, error) { return b.GetTXPowerOffset(idx) })
			if o == cq.Err {
				errs++
			}
			s.Add(cases.Case{Term: fmt.Sprintf("CTxPow %d %s %s", c.Index, cq.Z(int64(idx)), o),
				Key: fmt.Sprintf("txpow:%s:idx=%d", c.Key(), idx), Kind: "tx-power-offset", Nontrivial: o != cq.Err,
				Replay: rep(map[string]interface{}{"api": "GetTXPowerOffset(idx)", "idx": idx, "observed": o})})
		}

		d := b.GetDefaults()
		s.Add(cases.Case{Term: fmt.Sprintf("CDefaults %d %s", c.Index, bandcfg.Defaults(d)),
			Key: "defaults:" + c.Key(), Kind: "defaults", Nontrivial: true,
			Replay: rep(map[string]interface{}{"api": "GetDefaults()", "rx2_frequency": d.RX2Frequency, "rx2_dr": d.RX2DataRate})})

		for _, f := range []uint32{0, 862999999, 863000000, 868100000, 869199999, 869200000, 869399999, 869400000, 869525000, 869649999, 869650000, 923300000, 0xffffffff, r.U32()} {
			v := b.GetDownlinkTXPower(f)
			s.Add(cases.Case{Term: fmt.Sprintf("CDownTx %d %s %s", c.Index, cq.Z(int64(f)), cq.Z(int64(v))),
				Key: fmt.Sprintf("downtx:%s:f=%d", c.Key(), f), Kind: "downlink-tx-power", Nontrivial: true,
				Replay: rep(map[string]interface{}{"api": "GetDownlinkTXPower(f)", "frequency": f, "observed": v})})
		}
	}
	// band objects after AddChannel histories (history.go)
	enabledHistories(s, r, thorough, bandcfg.All())

	s.Exhaustive(fmt.Sprintf("max payload: 56 configurations x %d version strings (6 known, latest, unknown, RP002-1.0.0) x %d revision strings (7 known, latest, unknown) x DR 0..15; the 40 objects obtained through the 10 deprecated names: 3 x 4 strings x DR 0..15 (all in the thorough tier)", len(versions), len(revisions)))
	s.Exhaustive("GetDataRate / GetDataRateIndex: 96 objects (14 common + 10 deprecated names, x repeater x dwell time) x DR -2..16 x both directions")
	s.Exhaustive("accepted RX1 pairs: 96 objects x DR 0..15 x offset 0..7")
	s.Exhaustive("default channels, TX-power offsets, enabled uplink data-rates, defaults: every index of every one of the 96 objects")
	if err := s.Finish(); err != nil {
		fmt.Fprintln(os.Stderr, err)
		os.Exit(2)
	}
}
