package bandcfg

import (
	"fmt"
	"strings"
	"unicode"

	"github.com/brocaar/lorawan"
	"github.com/brocaar/lorawan/band"
)

// StringNeighbours returns strings that are structured neighbours of the constant s and must be
// treated as UNKNOWN strings: a character appended / prepended (letter, digit, blank, tab, NUL,
// '.', '-'), case changed, leading zeros or a sign in a numeric part, a further component, a
// character deleted or doubled, Unicode look-alikes.  Neighbours equal to one of `known` are dropped.
func StringNeighbours(s string, known []string) []string {
	isKnown := map[string]bool{}
	for _, k := range known {
		isKnown[k] = true
	}
	seen := map[string]bool{}
	var out []string
	add := func(n string) {
		if n != s && !isKnown[n] && !seen[n] {
			seen[n] = true
			out = append(out, n)
		}
	}
	for _, c := range []string{"B", "a", "0", "1", " ", "\t", "\x00", ".", "-", "\n"} {
		add(s + c)
		add(c + s)
	}
	add(strings.ToUpper(s))
	add(strings.ToLower(s))
	add(s + ".1")
	add(s + "-rc1")
	add(s + ".0")
	add("v" + s)
	add("+" + s)
	add("-" + s)
	// numeric parts: leading zero, sign
	for i := 0; i < len(s); i++ {
		if unicode.IsDigit(rune(s[i])) && (i == 0 || !unicode.IsDigit(rune(s[i-1]))) {
			add(s[:i] + "0" + s[i:])
			add(s[:i] + "+" + s[i:])
			add(s[:i] + " " + s[i:])
		}
	}
	for i := 0; i < len(s); i++ {
		add(s[:i] + s[i+1:])       // deleted
		add(s[:i+1] + s[i:])       // doubled
		add(s[:i] + "_" + s[i+1:]) // replaced by another separator
		add(s[:i] + "​" + s[i:])   // zero-width space inserted
	}
	look := map[rune]string{'A': "А", 'B': "В", 'C': "С", 'E': "Е", 'P': "Р", 'R': "Я", 'S': "Ѕ", 'I': "І", 'K': "К", 'N': "Ν", 'M': "М", 'U': "∪",
		'0': "０", '1': "１", '2': "２", '3': "３", '4': "４", '5': "５", '8': "８", '9': "９", '.': "。", '-': "‐", '_': "＿"}
	for i, r := range s {
		if l, ok := look[r]; ok {
			add(s[:i] + l + s[i+1:])
		}
	}
	return out
}

// StrTerm prints any Go string as a Gallina term of type string: a literal when it is printable
// ASCII, otherwise `(bs [b0; b1; ...])` (bs : list N -> string, defined in the Corr modules).
func StrTerm(s string) string {
	plain := true
	for i := 0; i < len(s); i++ {
		if s[i] < 32 || s[i] > 126 {
			plain = false
		}
	}
	if plain {
		return Str(s) + "%string"
	}
	items := make([]string, len(s))
	for i := 0; i < len(s); i++ {
		items[i] = fmt.Sprintf("%d", s[i])
	}
	return "(bs [" + strings.Join(items, "; ") + "]%N)"
}

// KeyStr makes a string safe for a case key (non-printable / non-ASCII bytes as \xNN).
func KeyStr(s string) string {
	var w strings.Builder
	for i := 0; i < len(s); i++ {
		if s[i] < 33 || s[i] > 126 || s[i] == ':' || s[i] == '\\' {
			fmt.Fprintf(&w, "\\x%02x", s[i])
		} else {
			w.WriteByte(s[i])
		}
	}
	return w.String()
}

// TouchGetters calls every getter of the Band interface that is not an RX1 channel / frequency
// lookup; none of them may change what the object answers afterwards.
func TouchGetters(b band.Band) {
	defer func() { recover() }()
	ScribbleCheck(b) // every slice / pointer a getter returns is overwritten by the caller
	b.Name()
	for _, v := range []string{band.LoRaWAN_1_0_0, band.LoRaWAN_1_0_2, band.LoRaWAN_1_0_3, band.LoRaWAN_1_0_4, band.LoRaWAN_1_1_0, "latest"} {
		b.GetCFList(v)
		b.ImplementsTXParamSetup(v)
	}
	idx := b.GetUplinkChannelIndices()
	b.GetStandardUplinkChannelIndices()
	b.GetCustomUplinkChannelIndices()
	en := b.GetEnabledUplinkChannelIndices()
	b.GetDisabledUplinkChannelIndices()
	b.GetEnabledUplinkDataRates()
	for _, i := range idx {
		if c, err := b.GetUplinkChannel(i); err == nil {
			b.GetUplinkChannelIndex(c.Frequency, true)
			b.GetUplinkChannelIndex(c.Frequency, false)
			b.GetUplinkChannelIndexForFrequencyDR(c.Frequency, c.MinDR)
			b.GetDownlinkTXPower(c.Frequency)
		}
		b.GetDownlinkChannel(i)
	}
	pls := b.GetLinkADRReqPayloadsForEnabledUplinkChannelIndices(en)
	b.GetEnabledUplinkChannelIndicesForLinkADRReqPayloads(en, pls)
	if len(en) > 1 {
		pls = b.GetLinkADRReqPayloadsForEnabledUplinkChannelIndices(en[1:])
		b.GetEnabledUplinkChannelIndicesForLinkADRReqPayloads(en[1:], pls)
	}
	for dr := 0; dr < 16; dr++ {
		if d, err := b.GetDataRate(dr); err == nil {
			b.GetDataRateIndex(true, d)
			b.GetDataRateIndex(false, d)
		}
		b.GetMaxPayloadSizeForDataRateIndex(band.LoRaWAN_1_0_3, band.RegParamRevA, dr)
		b.GetRX1DataRateIndex(dr, 0)
		b.GetTXPowerOffset(dr)
	}
	b.GetPingSlotFrequency(lorawan.DevAddr{1, 2, 3, 4}, 0)
	b.GetDefaultMaxUplinkEIRP()
	b.GetDefaults()
}

// ApplyChanOpsTouching is ApplyChanOps with TouchGetters after every call.
func ApplyChanOpsTouching(b band.Band, ops []ChanOp) []bool {
	var errs []bool
	for _, o := range ops {
		errs = append(errs, ApplyChanOps(b, []ChanOp{o})...)
		TouchGetters(b)
	}
	return errs
}
