(* What C15 demands of the channel-plan functions, written from the property
   statement (and the LoRaWAN CFList definition), not from the code:
   executable predicates over an observed channel table. *)
From Coq Require Import List ZArith Bool.
From LW Require Import Base.Outcome Band.Channels.
Import ListNotations.
Open Scope Z_scope.

Definition zrange (n : Z) : list Z := map Z.of_nat (seq 0 (Z.to_nat n)).
Definition zin (i : Z) (l : list Z) : bool := existsb (Z.eqb i) l.
Definition zlist_eqb := list_eqb Z.eqb.

(* a and b partition exactly the indices 0..n-1, each ascending without repetition *)
Fixpoint ascending (l : list Z) : bool :=
  match l with
  | a :: ((b :: _) as r) => (a <? b) && ascending r
  | _ => true
  end.
Definition partition_of (n : Z) (a b : list Z) : bool :=
  ascending a && ascending b &&
  forallb (fun i => xorb (zin i a) (zin i b)) (zrange n) &&
  forallb (fun i => (0 <=? i) && (i <? n)) (a ++ b).

Definition same_identity (c d : channel) : bool :=
  (freq c =? freq d) && (minDR c =? minDR d) && (maxDR c =? maxDR d) && Bool.eqb (custom c) (custom d).
Definition channel_eqb (c d : channel) : bool := same_identity c d && Bool.eqb (enabled c) (enabled d).

(* the table [now] extends [before]: same channels (identity: frequency, DR
   range, custom flag) at the same indices, anything appended is custom *)
Fixpoint extends (before now : list channel) : bool :=
  match before, now with
  | [], rest => forallb custom rest
  | c :: b', d :: n' => same_identity c d && extends b' n'
  | _ :: _, [] => false
  end.

(* channel-list CFList: the first (at most five) custom channels whose data-rate
   range is the CFList range of the band, in table order, unused slots 0;
   nothing is offered when there is no such channel with a frequency other than 0
   (frequency 0 marks an unused slot) *)
Definition spec_cflist_channels (mn mx : Z) (t : list channel) : option cflist :=
  let fs := map freq (firstn 5 (filter (fun c => custom c && (minDR c =? mn) && (maxDR c =? mx)) t)) in
  if forallb (fun f => f =? 0) fs then None
  else Some (CFChannels (fs ++ repeat 0 (5 - length fs))).

(* channel-mask CFList: bit j of mask k is exactly "channel 16k+j exists and is enabled" *)
Definition spec_mask_bit (t : list channel) (i : nat) : bool :=
  match nth_error t i with Some c => enabled c | None => false end.
Definition spec_cflist_masks (t : list channel) : cflist :=
  let k := Nat.max 1 ((length t + 15) / 16) in
  CFMasks (map (fun m => map (fun j => spec_mask_bit t (16 * m + j)) (seq 0 16)) (seq 0 k)).

Definition spec_cflist (ext : bool) (mn mx : Z) (t : list channel) (v : pversion) : option cflist :=
  if ext then spec_cflist_channels mn mx t
  else if pv_before_103 v then None else Some (spec_cflist_masks t).

Definition cflist_eqb (a b : cflist) : bool :=
  match a, b with
  | CFChannels x, CFChannels y => zlist_eqb x y
  | CFMasks x, CFMasks y => list_eqb (list_eqb Bool.eqb) x y
  | _, _ => false
  end.

Definition zidx_opt {A} (l : list A) (i : Z) : option A :=
  if (i <? 0) || (Z.of_nat (length l) <=? i) then None else nth_error l (Z.to_nat i).

(* lookup answers are right for the table *)
Definition matches_freq (t : list channel) (f : Z) (default : bool) (i : Z) : bool :=
  match zidx_opt t i with
  | Some c => (freq c =? f) && negb (Bool.eqb (custom c) default)
  | None => false
  end.
Definition matches_freq_dr (t : list channel) (f dr : Z) (i : Z) : bool :=
  match zidx_opt t i with
  | Some c => (freq c =? f) && (minDR c <=? dr) && (dr <=? maxDR c)
  | None => false
  end.
