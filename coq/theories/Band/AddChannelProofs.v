(* Proofs about band objects AFTER a history of AddChannel calls (model:
   Lookup.add_channel / add_channels), for C12 (RX1 channel and RX1 frequency
   still denote the same existing downlink channel) and C13 (the enabled uplink
   data-rates are exactly the union of the channels' DR ranges, hence defined
   data-rates whenever the added ranges are).  The histories are arbitrary
   lists of (frequency, MinDR, MaxDR) over Z. *)
From Coq Require Import List ZArith Bool String Lia.
From LW Require Import Base.Outcome Band.Types Band.Lookup Band.Regional Band.Rx1Spec Band.TablesSpec
     Band.Rx1Checks Band.Rx1BaseProofs Band.Rx1Proofs Band.TablesChecks Band.TablesProofs.
From LWGen Require Import BandGen.
Import ListNotations.
Open Scope Z_scope.
Open Scope list_scope.

(* ---- GetEnabledUplinkDataRates = sorted union of the channel DR ranges (ANY tables) ---- *)

Lemma insert_sorted_In x a l : In x (insert_sorted a l) <-> x = a \/ In x l.
Proof.
  induction l as [|y l IH]; cbn [insert_sorted In].
  - intuition.
  - destruct (Z.ltb_spec a y); cbn [In]; [intuition|].
    destruct (Z.eqb_spec a y); cbn [In]; [subst; intuition|].
    rewrite IH. intuition.
Qed.

Lemma sort_uniq_In x l : In x (sort_uniq l) <-> In x l.
Proof.
  unfold sort_uniq. induction l as [|a l IH]; cbn [fold_right In]; [tauto|].
  rewrite insert_sorted_In, IH. intuition.
Qed.

Lemma enabled_drs_spec t d :
  In d (get_enabled_uplink_data_rates t)
  <-> exists ch, In ch (t_up t) /\ ch_min ch <= d <= ch_max ch.
Proof.
  unfold get_enabled_uplink_data_rates. rewrite sort_uniq_In, in_flat_map. split.
  - intros [ch [Hin Hr]]. exists ch. split; [exact Hin | now apply zrange_In_inv].
  - intros [ch [Hin Hr]]. exists ch. split; [exact Hin | now apply zrange_In].
Qed.

(* strictly ascending: no duplicates, sorted *)
Lemma strictly_ascending_cons a l :
  strictly_ascending (a :: l) = true <-> (forall x, In x l -> a < x) /\ strictly_ascending l = true.
Proof.
  revert a. induction l as [|b l IH]; intros a.
  - cbn. intuition.
  - change (strictly_ascending (a :: b :: l)) with ((a <? b) && strictly_ascending (b :: l)).
    rewrite andb_true_iff, Z.ltb_lt. split.
    + intros [Hab Hs]. split; [|exact Hs]. intros x [<-|Hx]; [exact Hab|].
      apply IH in Hs as [Hb _]. specialize (Hb x Hx). lia.
    + intros [Hall Hs]. split; [apply Hall; now left | exact Hs].
Qed.

Lemma insert_sorted_ascending a l :
  strictly_ascending l = true -> strictly_ascending (insert_sorted a l) = true.
Proof.
  induction l as [|y l IH]; intros Hs; cbn [insert_sorted]; [reflexivity|].
  destruct (Z.ltb_spec a y).
  - apply strictly_ascending_cons. split; [|exact Hs].
    apply strictly_ascending_cons in Hs as [Hy _].
    intros x [<-|Hx]; [lia | specialize (Hy x Hx); lia].
  - destruct (Z.eqb_spec a y); [exact Hs|].
    apply strictly_ascending_cons in Hs as [Hy Hs].
    apply strictly_ascending_cons. split; [|now apply IH].
    intros x Hx. apply insert_sorted_In in Hx as [->|Hx]; [lia | now apply Hy].
Qed.

Lemma sort_uniq_ascending l : strictly_ascending (sort_uniq l) = true.
Proof.
  unfold sort_uniq. induction l as [|a l IH]; cbn [fold_right]; [reflexivity|].
  now apply insert_sorted_ascending.
Qed.

Lemma enabled_drs_ascending t : strictly_ascending (get_enabled_uplink_data_rates t) = true.
Proof. apply sort_uniq_ascending. Qed.

(* ---- what a history of AddChannel calls does to the channel lists ----------------------- *)

Definition chan_of_op (op : Z * Z * Z) : channel :=
  mkCh (fst (fst op)) (snd (fst op)) (snd op) (negb (fst (fst op) =? 0)) true.

(* an accepted AddChannel call: the band accepts extra channels, the DR range consists of uplink
   data-rates of the band, and exactly one channel is appended to both lists *)
Definition range_uplink (t : tables) (c : channel) : Prop :=
  ch_min c <= ch_max c /\ forall d, ch_min c <= d <= ch_max c -> dr_is_uplink t d = true.

Lemma add_channel_Ok t f mn mx t' : add_channel t f mn mx = Ok t' ->
  t_extra t = true /\ range_uplink t (mkCh f mn mx (negb (f =? 0)) true)
  /\ t' = set_channels t (t_up t ++ [mkCh f mn mx (negb (f =? 0)) true])
                          (t_down t ++ [mkCh f mn mx (negb (f =? 0)) true]).
Proof.
  unfold add_channel. destruct (t_extra t); cbn [negb]; [|discriminate].
  destruct (add_dr_range_ok t mn mx) eqn:R; cbn [negb]; [|discriminate].
  destruct (add_frequency_ok f); cbn [negb]; [|discriminate].
  intros [= <-]. repeat split; auto; cbn [ch_min ch_max].
  - unfold add_dr_range_ok in R. destruct (dr_is_uplink t mn && dr_is_uplink t mx); [|discriminate].
    destruct (Z.gtb_spec mn mx); [discriminate | lia].
  - intros d Hd. unfold add_dr_range_ok in R. destruct (dr_is_uplink t mn && dr_is_uplink t mx); [|discriminate].
    destruct (mn >? mx); [discriminate|]. rewrite forallb_forall in R. apply R. now apply zrange_In.
Qed.

Lemma add_channel_no_extra t f mn mx : t_extra t = false -> add_channel t f mn mx = Err.
Proof. unfold add_channel. now intros ->. Qed.

Lemma range_uplink_drs t t' c : t_drs t' = t_drs t -> range_uplink t' c -> range_uplink t c.
Proof. unfold range_uplink, dr_is_uplink. now intros ->. Qed.

(* both lists grow by the SAME channels, each with a range of uplink data-rates; the other
   tables are untouched *)
Lemma add_channels_shape t ops :
  exists added, t_up (fst (add_channels t ops)) = t_up t ++ added
                /\ t_down (fst (add_channels t ops)) = t_down t ++ added
                /\ incl added (map chan_of_op ops)
                /\ t_drs (fst (add_channels t ops)) = t_drs t
                /\ t_extra (fst (add_channels t ops)) = t_extra t
                /\ (forall c, In c added -> range_uplink t c).
Proof.
  revert t. induction ops as [|[[f mn] mx] ops IH]; intros t.
  - exists []. cbn [add_channels fst map]. rewrite !app_nil_r.
    split; [reflexivity|]. split; [reflexivity|]. split; [apply incl_refl|]. split; [reflexivity|]. split; [reflexivity|].
    intros c [].
  - cbn [add_channels]. destruct (add_channel t f mn mx) as [t1| | |] eqn:E; cbn [fst].
    + apply add_channel_Ok in E. destruct E as [Hx [Hv ->]].
      set (c := mkCh f mn mx (negb (f =? 0)) true) in *.
      destruct (IH (set_channels t (t_up t ++ [c]) (t_down t ++ [c]))) as [added [Hu [Hd [Hi [Hr [He Hva]]]]]].
      exists (c :: added). cbn [t_up t_down t_drs t_extra set_channels] in *.
      rewrite Hu, Hd, <- !app_assoc.
      split; [reflexivity|]. split; [reflexivity|].
      split; [intros x [<-|Hx']; [now left | right; now apply Hi]|].
      split; [exact Hr|]. split; [exact He|].
      intros x [<-|Hx']; [exact Hv|]. eapply range_uplink_drs; [|apply Hva; exact Hx']. reflexivity.
    + destruct (IH t) as [added [Hu [Hd [Hi [Hr [He Hva]]]]]].
      exists added. split; [exact Hu|]. split; [exact Hd|].
      split; [intros x Hx; right; now apply Hi|]. split; [exact Hr|]. split; [exact He|]. exact Hva.
    + destruct (IH t) as [added [Hu [Hd [Hi [Hr [He Hva]]]]]].
      exists added. split; [exact Hu|]. split; [exact Hd|].
      split; [intros x Hx; right; now apply Hi|]. split; [exact Hr|]. split; [exact He|]. exact Hva.
    + destruct (IH t) as [added [Hu [Hd [Hi [Hr [He Hva]]]]]].
      exists added. split; [exact Hu|]. split; [exact Hd|].
      split; [intros x Hx; right; now apply Hi|]. split; [exact Hr|]. split; [exact He|]. exact Hva.
Qed.

Lemma add_channels_no_extra t ops : t_extra t = false -> fst (add_channels t ops) = t.
Proof.
  intros E. induction ops as [|[[f mn] mx] ops IH]; [reflexivity|].
  cbn [add_channels]. rewrite (add_channel_no_extra t f mn mx E). cbn [fst]. exact IH.
Qed.

Lemma with_tables_same c : with_tables c (c_tab c) = c.
Proof. now destruct c. Qed.

(* ---- C13: enabled uplink data-rates after a history ------------------------------------- *)

Lemma uplink_channel_closed_spec t lo hi : uplink_channel_closed t lo hi = true ->
  forall d, lo <= d <= hi -> dr_defined_up t d = true.
Proof.
  unfold uplink_channel_closed. rewrite andb_true_iff. intros [_ H]. now apply range_all_spec.
Qed.

Lemma dr_defined_up_drs t t' d : t_drs t' = t_drs t -> dr_defined_up t' d = dr_defined_up t d.
Proof. unfold dr_defined_up. now intros ->. Qed.

Lemma dr_is_uplink_defined_up t d : dr_is_uplink t d = dr_defined_up t d.
Proof. reflexivity. Qed.

Lemma enabled_drs_after_add_channels c : In c band_configs -> forall ops,
  let t' := fst (add_channels (c_tab c) ops) in
  (forall d, In d (get_enabled_uplink_data_rates t') <->
             exists ch, In ch (t_up t') /\ ch_min ch <= d <= ch_max ch)
  /\ strictly_ascending (get_enabled_uplink_data_rates t') = true
  /\ (forall ch, In ch (t_up t') -> ch_min ch <= ch_max ch /\
                 forall d, ch_min ch <= d <= ch_max ch -> dr_defined_up t' d = true)
  /\ (forall d, In d (get_enabled_uplink_data_rates t') -> dr_defined_up t' d = true).
Proof.
  intros Hc ops t'. split; [intros d; apply enabled_drs_spec|]. split; [apply enabled_drs_ascending|].
  destruct (add_channels_shape (c_tab c) ops) as [added [Hu [_ [_ [Hdrs [_ Hva]]]]]].
  fold t' in Hu, Hdrs.
  assert (Hch : forall ch, In ch (t_up t') -> ch_min ch <= ch_max ch /\
                forall d, ch_min ch <= d <= ch_max ch -> dr_defined_up t' d = true).
  { intros ch Hin. rewrite Hu in Hin. apply in_app_or in Hin as [Hin|Hin].
    - destruct (closure c Hc) as [Hup _]. cbv zeta in Hup. destruct (Hup ch Hin) as [Hle H].
      split; [exact Hle|]. intros d Hd. rewrite (dr_defined_up_drs _ _ d Hdrs). now apply H.
    - destruct (Hva ch Hin) as [Hle H]. split; [exact Hle|]. intros d Hd.
      rewrite (dr_defined_up_drs _ _ d Hdrs), <- dr_is_uplink_defined_up. now apply H. }
  split; [exact Hch|].
  intros d Hd. apply enabled_drs_spec in Hd as [ch [Hin Hr]]. destruct (Hch ch Hin) as [_ H]. now apply H.
Qed.

(* ---- C12: RX1 channel / frequency after a history ---------------------------------------- *)

Lemma extra_aligned_check_ok : extra_aligned_check = true.
Proof. vm_compute. reflexivity. Qed.

Lemma zindex_map {A B} (g : A -> B) (l : list A) i a :
  zindex l i = Ok a -> zindex (map g l) i = Ok (g a).
Proof.
  unfold zindex. destruct (i <? 0); [discriminate|].
  destruct (nth_error l (Z.to_nat i)) eqn:E; [|discriminate]. intros [= ->].
  now rewrite (map_nth_error g _ _ E).
Qed.

Lemma zindex_map_inv {A B} (g : A -> B) (l : list A) i b :
  zindex (map g l) i = Ok b -> exists a, zindex l i = Ok a /\ g a = b.
Proof.
  unfold zindex. destruct (i <? 0); [discriminate|].
  rewrite nth_error_map. destruct (nth_error l (Z.to_nat i)); cbn; [|discriminate].
  intros [= <-]. eauto.
Qed.

Lemma rx1_channel_after_add_channels c : In c band_configs ->
  forall reg, region_of (c_name c) = Some reg -> forall ops,
  let t' := fst (add_channels (c_tab c) ops) in
  let c' := with_tables c t' in
  forall i u, zindex (t_up t') i = Ok u ->
  exists d, get_rx1_channel_index c' i = Ok (spec_rx1_channel reg i)
            /\ get_downlink_channel t' (spec_rx1_channel reg i) = Ok d
            /\ get_rx1_frequency c' (ch_freq u) = Ok (ch_freq d)
            /\ (match reg with RUS915 | RAU915 | RCN470 => True | _ => ch_freq d = ch_freq u end).
Proof.
  intros Hc reg Hreg ops t' c' i u Hu.
  assert (Hget : forall (c0 : band_cfg) j d, zindex (t_down (c_tab c0)) j = Ok d ->
                 get_downlink_channel (c_tab c0) j = Ok d).
  { intros c0 j d Hd. unfold get_downlink_channel. pose proof (zindex_Ok_range _ _ _ Hd).
    destruct (Z.ltb_spec j 0); [lia|]. destruct (Z.gtb_spec j (zlen (t_down (c_tab c0)) - 1)); [lia|].
    exact Hd. }
  destruct (t_extra (c_tab c)) eqn:E.
  - (* extra channels: identity rule, aligned lists *)
    pose proof extra_aligned_check_ok as H. unfold extra_aligned_check in H.
    rewrite forallb_forall in H. specialize (H c Hc). unfold extra_aligned_cfg in H.
    rewrite E, Hreg in H. rewrite !andb_true_iff in H. destruct H as [[Hk Hr] Hal].
    apply (list_eqb_eq Z.eqb) in Hal; [|intros a b; apply Z.eqb_eq].
    destruct (add_channels_shape (c_tab c) ops) as [added [Hup [Hdn _]]]. fold t' in Hup, Hdn.
    assert (Hfreqs : map ch_freq (t_up t') = map ch_freq (t_down t')).
    { rewrite Hup, Hdn, !map_app. now rewrite Hal. }
    pose proof (zindex_map ch_freq _ _ _ Hu) as Hm. rewrite Hfreqs in Hm.
    apply zindex_map_inv in Hm as [d [Hd Hf]].
    assert (Hs : spec_rx1_channel reg i = i) by (destruct reg; try reflexivity; discriminate).
    rewrite Hs. exists d.
    assert (Hidx : get_rx1_channel_index c' i = Ok i).
    { pose proof (zindex_Ok_range _ _ _ Hu) as Hi0.
      unfold get_rx1_channel_index, c', with_tables. cbn [c_kind].
      replace (i <? 0) with false by (symmetry; apply Z.ltb_ge; lia).
      destruct (c_kind c); try reflexivity; discriminate. }
    assert (Hfr : get_rx1_frequency c' (ch_freq u) = Ok (ch_freq u)).
    { unfold get_rx1_frequency, c', with_tables. cbn [c_kind]. destruct (c_kind c); try reflexivity; discriminate. }
    repeat split.
    + exact Hidx.
    + apply (Hget c' i d). exact Hd.
    + rewrite Hfr, Hf. reflexivity.
    + destruct reg; auto.
  - (* no extra channels: every call is refused, the object is unchanged *)
    assert (Et : t' = c_tab c) by (apply add_channels_no_extra; exact E).
    assert (Ec : c' = c) by (unfold c'; rewrite Et; apply with_tables_same).
    rewrite Ec. rewrite Et in Hu |- *.
    pose proof (rx1_channel c Hc reg Hreg i u Hu) as H. apply rx1_channel_ok_spec in H as [d [H1 [H2 [H3 H4]]]].
    exists d. repeat split; auto.
Qed.

(* ---- C12: any history of AddChannel / Disable / Enable calls ------------------------------ *)

(* what the RX1 channel functions read of a channel: frequency and the custom flag *)
Definition fc (c : channel) : Z * bool := (ch_freq c, ch_custom c).

Lemma map_nth_ch_fc g l i : (forall c, fc (g c) = fc c) -> map fc (map_nth_ch g l i) = map fc l.
Proof.
  intros Hg. revert i. induction l as [|h tl IH]; intros [|i]; cbn [map_nth_ch map]; try reflexivity.
  - now rewrite Hg.
  - now rewrite IH.
Qed.

(* both lists grow by the same added channels; Enable / Disable change neither a frequency nor a
   custom flag nor the downlink channels; a band refusing extra channels gets none *)
Lemma apply_ops_shape t ops :
  exists added, map fc (t_up (fst (apply_ops t ops))) = map fc (t_up t ++ added)
                /\ t_down (fst (apply_ops t ops)) = t_down t ++ added
                /\ (t_extra t = false -> added = []).
Proof.
  revert t. induction ops as [|o ops IH]; intros t.
  - exists []. cbn. rewrite !app_nil_r. auto.
  - cbn [apply_ops]. destruct (apply_op t o) as [t1| | |] eqn:E; cbn [fst];
      try (destruct (IH t) as [added H]; exists added; exact H).
    destruct (IH t1) as [added [Hu [Hd Hx]]].
    destruct o as [f mn mx|i|i]; cbn [apply_op] in E.
    + apply add_channel_Ok in E. destruct E as [X [_ ->]].
      cbn [t_up t_down t_extra set_channels] in *.
      exists (mkCh f mn mx (negb (f =? 0)) true :: added).
      rewrite Hu, Hd, <- !app_assoc. repeat split; auto. congruence.
    + unfold set_enabled_index in E. destruct ((i <? 0) || (i >? zlen (t_up t) - 1)); [discriminate|].
      injection E as <-. cbn [t_up t_down t_extra set_channels] in *.
      exists added. rewrite Hu, Hd, !map_app, map_nth_ch_fc by reflexivity. auto.
    + unfold set_enabled_index in E. destruct ((i <? 0) || (i >? zlen (t_up t) - 1)); [discriminate|].
      injection E as <-. cbn [t_up t_down t_extra set_channels] in *.
      exists added. rewrite Hu, Hd, !map_app, map_nth_ch_fc by reflexivity. auto.
Qed.

Lemma uplink_channel_index_from_fc l l' i f dflt :
  map fc l = map fc l' -> uplink_channel_index_from l i f dflt = uplink_channel_index_from l' i f dflt.
Proof.
  revert l' i. induction l as [|c l IH]; intros [|c' l'] i H; try discriminate; [reflexivity|].
  cbn [map] in H. injection H as Hf Hcu Hl.
  cbn [uplink_channel_index_from]. rewrite Hf, Hcu. now rewrite (IH l' (i + 1) Hl).
Qed.

Lemma rx1_channel_after_history c : In c band_configs ->
  forall reg, region_of (c_name c) = Some reg -> forall ops : list chan_op,
  let t' := fst (apply_ops (c_tab c) ops) in
  let c' := with_tables c t' in
  forall i u, zindex (t_up t') i = Ok u ->
  exists d, get_rx1_channel_index c' i = Ok (spec_rx1_channel reg i)
            /\ get_downlink_channel t' (spec_rx1_channel reg i) = Ok d
            /\ get_rx1_frequency c' (ch_freq u) = Ok (ch_freq d)
            /\ (match reg with RUS915 | RAU915 | RCN470 => True | _ => ch_freq d = ch_freq u end).
Proof.
  intros Hc reg Hreg ops t' c' i u Hu.
  assert (Hget : forall t0 j d, zindex (t_down t0) j = Ok d -> get_downlink_channel t0 j = Ok d).
  { intros t0 j d Hd. unfold get_downlink_channel. pose proof (zindex_Ok_range _ _ _ Hd).
    destruct (Z.ltb_spec j 0); [lia|]. destruct (Z.gtb_spec j (zlen (t_down t0) - 1)); [lia|].
    exact Hd. }
  destruct (apply_ops_shape (c_tab c) ops) as [added [Hup [Hdn Hno]]]. fold t' in Hup, Hdn.
  assert (Hfreq_of_fc : forall l, map ch_freq l = map fst (map fc l)).
  { intros l. rewrite map_map. reflexivity. }
  destruct (t_extra (c_tab c)) eqn:E.
  - pose proof extra_aligned_check_ok as H. unfold extra_aligned_check in H.
    rewrite forallb_forall in H. specialize (H c Hc). unfold extra_aligned_cfg in H.
    rewrite E, Hreg in H. rewrite !andb_true_iff in H. destruct H as [[Hk Hr] Hal].
    apply (list_eqb_eq Z.eqb) in Hal; [|intros a b; apply Z.eqb_eq].
    assert (Hfreqs : map ch_freq (t_up t') = map ch_freq (t_down t')).
    { rewrite (Hfreq_of_fc (t_up t')), Hup, <- Hfreq_of_fc, Hdn, !map_app. now rewrite Hal. }
    pose proof (zindex_map ch_freq _ _ _ Hu) as Hm. rewrite Hfreqs in Hm.
    apply zindex_map_inv in Hm as [d [Hd Hf]].
    assert (Hs : spec_rx1_channel reg i = i) by (destruct reg; try reflexivity; discriminate).
    rewrite Hs. exists d.
    assert (Hidx : get_rx1_channel_index c' i = Ok i).
    { pose proof (zindex_Ok_range _ _ _ Hu) as Hi0.
      unfold get_rx1_channel_index, c', with_tables. cbn [c_kind].
      replace (i <? 0) with false by (symmetry; apply Z.ltb_ge; lia).
      destruct (c_kind c); try reflexivity; discriminate. }
    assert (Hfr : get_rx1_frequency c' (ch_freq u) = Ok (ch_freq u)).
    { unfold get_rx1_frequency, c', with_tables. cbn [c_kind]. destruct (c_kind c); try reflexivity; discriminate. }
    repeat split.
    + exact Hidx.
    + apply Hget. exact Hd.
    + rewrite Hfr, Hf. reflexivity.
    + destruct reg; auto.
  - rewrite (Hno eq_refl), app_nil_r in Hup, Hdn.
    (* the uplink channel i of the original object has the same frequency *)
    pose proof (zindex_map fc _ _ _ Hu) as Hm. rewrite Hup in Hm.
    apply zindex_map_inv in Hm as [u0 [Hu0 Hfc]].
    assert (Hf0 : ch_freq u0 = ch_freq u) by (unfold fc in Hfc; congruence).
    pose proof (rx1_channel c Hc reg Hreg i u0 Hu0) as H.
    apply rx1_channel_ok_spec in H as [d [H1 [H2 [H3 H4]]]].
    assert (Hidx : get_rx1_channel_index c' i = get_rx1_channel_index c i) by reflexivity.
    assert (Hfr : forall f, get_rx1_frequency c' f = get_rx1_frequency c f).
    { intros f. unfold get_rx1_frequency, get_rx1_channel_index, get_uplink_channel_index, c', with_tables.
      cbn [c_kind c_tab]. rewrite Hdn.
      rewrite (uplink_channel_index_from_fc (t_up t') (t_up (c_tab c)) 0 f true Hup). reflexivity. }
    assert (Hgd : get_downlink_channel t' (spec_rx1_channel reg i) = Ok d).
    { unfold get_downlink_channel. rewrite Hdn. apply (Hget (c_tab c)). exact H2. }
    exists d. rewrite Hidx, Hfr, <- Hf0. repeat split; auto.
Qed.

(* ---- C12: the RX1 frequency of ANY frequency, whatever the channel lists ------------------- *)

Lemma kind_region_check_ok : kind_region_check = true.
Proof. vm_compute. reflexivity. Qed.

Lemma rx1_frequency_any c : In c band_configs -> forall reg, region_of (c_name c) = Some reg ->
  forall (t : tables) (f : Z), rx1_frequency_any_ok reg f (get_rx1_frequency (with_tables c t) f) = true.
Proof.
  intros Hc reg Hreg t f. pose proof kind_region_check_ok as H. unfold kind_region_check in H.
  rewrite forallb_forall in H. specialize (H c Hc). rewrite Hreg in H. apply Bool.eqb_prop in H.
  unfold rx1_frequency_any_ok, get_rx1_frequency, with_tables. cbn [c_kind].
  destruct reg; try reflexivity; destruct (c_kind c); cbn in H; try discriminate; cbn; now rewrite Z.eqb_refl.
Qed.
