(* C01: every specification-valid frame marshals, and the bytes unmarshal to the
   frame's wire view (frame_roundtrip); a specification-valid join-accept payload
   marshals to 12 or 28 bytes that joinaccept_unmarshal decodes to the payload
   modulo trailing all-zero channel masks (joinaccept_codec). *)
From Coq Require Import List NArith ZArith Bool Lia Arith.
From Coq Require Import ZifyN ZifyNat ZifyBool.
From LW Require Import Base.Outcome Base.Bytes Crypto.AESInv Mac.Commands Mac.Spec Mac.Stream
     Mac.ByteLemmas Mac.EncProofs Mac.DecProofs Mac.StreamProofs
     Frame.Model Frame.Spec Frame.TotalProofs Sec.FrameLemmas Sec.JoinAcceptProofs.
Import ListNotations.
Open Scope N_scope.
Ltac Zify.zify_post_hook ::= Z.div_mod_to_equations.

Local Ltac split_and :=
  repeat match goal with
  | H : _ && _ = true |- _ => apply andb_true_iff in H; destruct H
  end.

(* ---- MAC commands of a valid frame marshal ---- *)
Lemma in_range_wf v : spec_in_range v = true -> wf_go v = true.
Proof.
  destruct v; cbn [spec_in_range wf_go]; unfold u8, u32, i64, freq_ok; intros H; try reflexivity; try exact H;
    try (change (2 ^ 24) with 16777216 in H; change (2 ^ 32) with 4294967296 in H; lia).
  destruct (2400000000 <=? freq) eqn:E; change (2 ^ 24) with 16777216 in H; change (2 ^ 32) with 4294967296 in H; lia.
Qed.

Lemma enc_len v bs : wf_go v = true -> enc v = Ok bs ->
  length bs = match v with PProprietary b => length b | _ => Z.to_nat (kind_size (kind_of v)) end.
Proof.
  intros Hwf H.
  destruct v; try (pose proof (enc_length _ _ Hwf ltac:(cbn; discriminate) H) as L; cbn [kind_of] in *; lia).
  cbn in H. now injection H as <-.
Qed.

Lemma items_size_cons it r : items_size (it :: r) = (items_size [it] + items_size r)%nat.
Proof. destruct it as [c [v|]|d]; cbn [items_size]; lia. Qed.

Lemma item_ok it : cmd_valid it = true ->
  exists b, item_marshal it = Ok b /\ Forall byte b /\ length b = items_size [it].
Proof.
  destruct it as [c [v|]|d]; cbn [cmd_valid item_marshal cmd_marshal items_size]; intros H.
  - apply andb_true_iff in H as [Hc Hr]. pose proof (in_range_wf v Hr) as Hwf.
    pose proof (in_range_accepted v Hwf Hr) as Ha. destruct (enc v) as [bs| | |] eqn:E; try discriminate.
    exists (c :: bs). cbn [bind]. split; [reflexivity|]. split.
    + constructor; [unfold byte; lia|exact (enc_bytes v bs Hwf E)].
    + cbn [length]. rewrite (enc_len v bs Hwf E). lia.
  - exists [c]. split; [reflexivity|]. split; [constructor; [unfold byte; lia|constructor]|reflexivity].
  - exists d. split; [reflexivity|]. split; [now apply bytes_ok_Forall|lia].
Qed.

Lemma items_ok its : forallb cmd_valid its = true ->
  exists b, items_marshal its = Ok b /\ Forall byte b /\ length b = items_size its.
Proof.
  induction its as [|it r IH]; intros H.
  - exists []. split; [reflexivity|]. split; [constructor|reflexivity].
  - cbn [forallb] in H. apply andb_true_iff in H as [H1 H2].
    destruct (item_ok it H1) as (b & Hb & Bb & Lb). destruct (IH H2) as (bs & Hbs & Bbs & Lbs).
    exists (b ++ bs). cbn [items_marshal]. rewrite Hb, Hbs. cbn [bind]. split; [reflexivity|].
    split; [apply Forall_app; now split|]. rewrite app_length, items_size_cons. lia.
Qed.

Definition wire_of_bytes (b : list N) : list item := match b with [] => [] | _ => [IData b] end.

Lemma wire_items_eq its b : items_marshal its = Ok b -> wire_items its = wire_of_bytes b.
Proof. intros H. unfold wire_items, items_bytes. rewrite H. destruct b; reflexivity. Qed.

(* ---- MHDR and FCtrl bytes ---- *)
Lemma mhdr_fields mt mj : mt < 8 -> mj < 4 ->
  N.shiftr (mhdr_marshal mt mj) 5 = mt /\ N.land (mhdr_marshal mt mj) 3 = mj.
Proof.
  intros Ht Hj.
  assert (S : forallb (fun a => forallb (fun b => (N.shiftr (mhdr_marshal a b) 5 =? a) && (N.land (mhdr_marshal a b) 3 =? b))
                                         (range 4)) (range 8) = true) by (vm_compute; reflexivity).
  pose proof (sweep2 8 4 _ S mt mj Ht Hj) as H. cbn beta in H.
  apply andb_true_iff in H as [H1 H2]. split; now apply N.eqb_eq.
Qed.

Lemma fctrl_eqb_eq x y : fctrl_eqb x y = true -> x = y.
Proof.
  destruct x, y. unfold fctrl_eqb. cbn [Model.adr Model.adrackreq Model.ack Model.fpending Model.classb Model.foptslen].
  intros H. split_and.
  repeat match goal with H : Bool.eqb _ _ = true |- _ => apply eqb_prop in H end.
  match goal with H : (_ =? _) = true |- _ => apply N.eqb_eq in H end. now subst.
Qed.

Lemma fctrl_codec a b c d e n : n < 16 ->
  exists cb, fctrl_marshal (mkFCtrl a b c d e n) = Ok cb /\ cb < 256 /\
             fctrl_unmarshal cb = mkFCtrl a b c (e || d) (e || d) n.
Proof.
  intros Hn.
  assert (S : forallb (fun n => match fctrl_marshal (mkFCtrl a b c d e n) with
                                | Ok cb => fctrl_eqb (fctrl_unmarshal cb) (mkFCtrl a b c (e || d) (e || d) n) && (cb <? 256)
                                | _ => false end) (range 16) = true)
    by (destruct a, b, c, d, e; vm_compute; reflexivity).
  pose proof (sweep1 16 _ S n Hn) as H. cbn beta in H.
  destruct (fctrl_marshal _) as [cb| | |]; try discriminate.
  apply andb_true_iff in H as [H1 H2]. exists cb. split; [reflexivity|]. split; [lia|now apply fctrl_eqb_eq].
Qed.


(* ---- list surgery ---- *)
Lemma drop_app2 {A} n (a b c : list A) : (length a + length b = n)%nat -> skipn n (a ++ b ++ c) = c.
Proof. intros H. rewrite app_assoc. apply drop_app_n. rewrite app_length. exact H. Qed.

Lemma take_drop_app {A} n k (a b c : list A) : length a = n -> length b = k ->
  firstn k (skipn n (a ++ b ++ c)) = b.
Proof. intros Ha Hb. rewrite (drop_app_n n a (b ++ c) Ha). now apply take_app_n. Qed.

Lemma le2_val x : x < 65536 -> le_val (le_bytes 2 x) = x.
Proof. intros H. apply le_bytes_small. change (256 ^ N.of_nat 2) with 65536. exact H. Qed.

Lemma frame_parts (b0 : N) body m : length m = 4%nat ->
  let bs := b0 :: body ++ m in
  (length bs <? 5)%nat = false /\ firstn (length bs - 5) (skipn 1 bs) = body /\ skipn (length bs - 4) bs = m.
Proof.
  intros Lm bs. unfold bs. cbn [length]. rewrite app_length, Lm. split; [apply Nat.ltb_ge; lia|]. split.
  - replace (S (length body + 4) - 5)%nat with (length body) by lia. cbn [skipn]. apply take_app_length.
  - replace (S (length body + 4) - 4)%nat with (S (length body)) by lia. cbn [skipn]. apply drop_app_length.
Qed.

(* ---- MACPayload ---- *)
Lemma fhdr_unmarshal_shape d3 d2 d1 d0 cb f0 f1 opts :
  fhdr_unmarshal (d3 :: d2 :: d1 :: d0 :: cb :: f0 :: f1 :: opts)
  = Ok (mkFHDR [d0; d1; d2; d3] (fctrl_unmarshal cb) (le_val [f0; f1]) (wire_of_bytes opts)).
Proof. destruct opts; reflexivity. Qed.

Lemma mac_unmarshal_shape d3 d2 d1 d0 cb f0 f1 opts tail :
  N.to_nat (N.land cb 15) = length opts ->
  mac_unmarshal (d3 :: d2 :: d1 :: d0 :: cb :: f0 :: f1 :: opts ++ tail) =
  let h := mkFHDR [d0; d1; d2; d3] (fctrl_unmarshal cb) (le_val [f0; f1]) (wire_of_bytes opts) in
  match tail with
  | [] => Ok (mkMAC h None [])
  | p :: t => if (p =? 0) && (0 <? length opts)%nat then Err else Ok (mkMAC h (Some p) (wire_of_bytes t))
  end.
Proof.
  intros Hol. unfold mac_unmarshal.
  set (data := d3 :: d2 :: d1 :: d0 :: cb :: f0 :: f1 :: opts ++ tail).
  assert (Ln : length data = (7 + length opts + length tail)%nat) by (unfold data; cbn [length]; rewrite app_length; lia).
  change (nth 4 data 0) with cb. rewrite Hol, Ln.
  assert (E1 : firstn (7 + length opts) data = d3 :: d2 :: d1 :: d0 :: cb :: f0 :: f1 :: opts).
  { unfold data. cbn [Nat.add firstn]. now rewrite take_app_length. }
  assert (E2 : forall k, skipn (7 + length opts + k) data = skipn k tail).
  { intros k. unfold data. replace (7 + length opts + k)%nat with (7 + (length opts + k))%nat by lia.
    cbn [Nat.add skipn]. rewrite <- skipn_skipn'. now rewrite drop_app_length. }
  assert (E3 : nth (7 + length opts) data 0 = nth 0 tail 0).
  { unfold data. cbn [Nat.add nth]. rewrite app_nth2 by lia. now rewrite Nat.sub_diag. }
  rewrite E1, fhdr_unmarshal_shape, E2, E3. cbn [bind]. cbv zeta.
  destruct (Nat.ltb_spec (7 + length opts + length tail) 7); [lia|].
  destruct (Nat.ltb_spec (7 + length opts + length tail) (7 + length opts)); [lia|].
  destruct tail as [|p t]; cbn [length nth skipn].
  - destruct (Nat.ltb_spec (7 + length opts) (7 + length opts + 0)); [lia|].
    destruct (Nat.ltb_spec (7 + length opts + 1) (7 + length opts + 0)); [lia|]. reflexivity.
  - destruct (Nat.ltb_spec (7 + length opts) (7 + length opts + S (length t))); [|lia].
    destruct t as [|t0 t]; cbn [length wire_of_bytes].
    + destruct (Nat.ltb_spec (7 + length opts + 1) (7 + length opts + 1)); [lia|].
      destruct p; cbn [N.eqb andb]; [destruct (0 <? length opts)%nat|]; reflexivity.
    + destruct (Nat.ltb_spec (7 + length opts + 1) (7 + length opts + S (S (length t)))); [|lia].
      destruct p; cbn [N.eqb andb]; [destruct (0 <? length opts)%nat|]; reflexivity.
Qed.

Lemma le2_mod x : le_val [x mod 256; x / 256 mod 256] = x mod 65536.
Proof. exact (le_val_bytes 2 x). Qed.

Lemma mac_roundtrip m : mac_valid m = true ->
  exists b, mac_marshal m = Ok b /\ Forall byte b /\ mac_unmarshal b = Ok (wire_mac (fcnt (hdr m) mod 65536) m).
Proof.
  destruct m as [[da [a b c d e n0] fcn fo] fp fr]. unfold mac_valid.
  cbn [hdr devaddr fcnt fopts frm fport]. intros H.
  apply andb_true_iff in H as [H Hport]. apply andb_true_iff in H as [H Hfr].
  apply andb_true_iff in H as [H Hsz]. apply andb_true_iff in H as [H Hfo]. apply andb_true_iff in H as [Hda Hfc].
  destruct (id_ok_inv 4 da Hda) as [Lda Bda].
  destruct da as [|d0 [|d1 [|d2 [|d3 [|? ?]]]]]; try discriminate Lda.
  destruct (items_ok fo Hfo) as (ob & Hob & Bob & Lob). destruct (items_ok fr Hfr) as (fb & Hfb & Bfb & _).
  assert (Hl : (length ob <= 15)%nat) by (apply Nat.leb_le in Hsz; lia).
  destruct (fctrl_codec a b c d e (N.of_nat (length ob)) ltac:(lia)) as (cb & Hcb & Bcb & Hun).
  assert (Hol : N.to_nat (N.land cb 15) = length ob).
  { pose proof (f_equal foptslen Hun) as Hn. unfold fctrl_unmarshal in Hn. cbn [foptslen] in Hn. lia. }
  set (f0 := fcn mod 256). set (f1 := fcn / 256 mod 256).
  assert (Hh : fhdr_marshal (mkFHDR [d0; d1; d2; d3] (mkFCtrl a b c d e n0) fcn fo)
               = Ok (d3 :: d2 :: d1 :: d0 :: cb :: f0 :: f1 :: ob)).
  { unfold fhdr_marshal. cbn [fopts fc devaddr fcnt adr adrackreq ack fpending classb]. rewrite Hob. cbn [bind]. cbv zeta.
    replace (15 <? N.of_nat (length ob)) with false by lia. rewrite Hcb. reflexivity. }
  assert (Bh : Forall byte (d3 :: d2 :: d1 :: d0 :: cb :: f0 :: f1 :: ob)).
  { inversion Bda as [|? ? B0 Bda1]; subst. inversion Bda1 as [|? ? B1 Bda2]; subst.
    inversion Bda2 as [|? ? B2 Bda3]; subst. inversion Bda3 as [|? ? B3 _]; subst.
    repeat (constructor; [assumption || (unfold byte, f0, f1; lia)|]). exact Bob. }
  assert (Hw : wire_mac (fcn mod 65536) (mkMAC (mkFHDR [d0; d1; d2; d3] (mkFCtrl a b c d e n0) fcn fo) fp fr)
               = mkMAC (mkFHDR [d0; d1; d2; d3] (fctrl_unmarshal cb) (le_val [f0; f1]) (wire_of_bytes ob)) fp (wire_of_bytes fb)).
  { unfold wire_mac. cbn [hdr fopts fc devaddr fcnt fport frm adr adrackreq ack fpending classb].
    unfold items_bytes. rewrite Hob, (wire_items_eq fo ob Hob), (wire_items_eq fr fb Hfb), Hun.
    unfold f0, f1. now rewrite le2_mod. }
  cbn [hdr fcnt]. rewrite Hw. clear Hw.
  destruct fp as [p|].
  - assert (Hg : negb (Nat.eqb (length fo) 0) && (p =? 0) = false /\ (p =? 0) && (0 <? length ob)%nat = false
                 /\ frm_marshal (Some p) fr = Ok fb /\ p < 256).
    { destruct p as [|pp].
      - apply andb_true_iff in Hport as [Hport _]. apply Nat.eqb_eq in Hport.
        destruct fo; [|discriminate Hport]. cbn in Hob. injection Hob as <-.
        split; [reflexivity|]. split; [reflexivity|]. split; [now rewrite frm_marshal_port0|lia].
      - apply andb_true_iff in Hport as [Hp Hnm]. apply negb_true_iff in Hnm.
        split; [apply andb_false_r|]. split; [reflexivity|]. split; [now rewrite frm_marshal_nomac|lia]. }
    destruct Hg as (G1 & G2 & G3 & G4).
    exists (d3 :: d2 :: d1 :: d0 :: cb :: f0 :: f1 :: ob ++ p :: fb). split; [|split].
    + unfold mac_marshal. cbn [hdr fport frm fopts]. rewrite Hh. cbn [bind]. rewrite G1, G3. cbn [bind].
      f_equal.
    + change (Forall byte ((d3 :: d2 :: d1 :: d0 :: cb :: f0 :: f1 :: ob) ++ p :: fb)).
      apply Forall_app. split; [exact Bh|]. constructor; [exact G4|exact Bfb].
    + rewrite (mac_unmarshal_shape d3 d2 d1 d0 cb f0 f1 ob (p :: fb) Hol). cbv zeta. now rewrite G2.
  - assert (fr = []) by (destruct fr; [reflexivity|discriminate Hport]). subst fr.
    cbn in Hfb. injection Hfb as <-.
    exists (d3 :: d2 :: d1 :: d0 :: cb :: f0 :: f1 :: ob). split; [|split].
    + unfold mac_marshal. cbn [hdr fport frm fopts]. rewrite Hh. reflexivity.
    + exact Bh.
    + rewrite <- (app_nil_r ob) at 1.
      rewrite (mac_unmarshal_shape d3 d2 d1 d0 cb f0 f1 ob [] Hol). reflexivity.
Qed.

(* ---- PHYPayload ---- *)
(* the payload dispatch of phy_unmarshal, as a function of MType, the byte after MHDR and the body *)
Definition payload_unmarshal (mt ty : N) (body : list N) : outcome payload :=
  if mt =? JoinRequest then
    if negb (Nat.eqb (length body) 18) then Err else
    Ok (PLJoinRequest (rev (firstn 8 body)) (rev (firstn 8 (skipn 8 body))) (le_val (skipn 16 body)))
  else if (mt =? JoinAccept) || (mt =? Proprietary) then Ok (PLData body)
  else if mt =? RejoinRequest then
    if (ty =? 0) || (ty =? 2) then
      if negb (Nat.eqb (length body) 14) then Err else
      Ok (PLRejoin02 ty (rev (firstn 3 (skipn 1 body))) (rev (firstn 8 (skipn 4 body))) (le_val (skipn 12 body)))
    else if ty =? 1 then
      if negb (Nat.eqb (length body) 19) then Err else
      Ok (PLRejoin1 ty (rev (firstn 8 (skipn 1 body))) (rev (firstn 8 (skipn 9 body))) (le_val (skipn 17 body)))
    else Err
  else do m <- mac_unmarshal body; Ok (PLMac m).

Lemma phy_unmarshal_frame b0 body m : length m = 4%nat ->
  phy_unmarshal (b0 :: body ++ m)
  = do p <- payload_unmarshal (N.shiftr b0 5) (nth 0 (body ++ m) 0) body;
    Ok (mkPHY (N.shiftr b0 5) (N.land b0 3) p m).
Proof.
  intros Lm. destruct (frame_parts b0 body m Lm) as (E1 & E2 & E3).
  unfold phy_unmarshal. rewrite E1, E2, E3. reflexivity.
Qed.

Local Opaque skipn firstn.

Lemma phy_roundtrip_gen mt mj p mc body p' :
  mt < 8 -> mj < 4 -> length mc = 4%nat -> p <> PLNil ->
  payload_marshal p = Ok body ->
  payload_unmarshal mt (nth 0 (body ++ mc) 0) body = Ok p' ->
  exists bs, phy_marshal (mkPHY mt mj p mc) = Ok bs /\ phy_unmarshal bs = Ok (mkPHY mt mj p' mc).
Proof.
  intros Ht Hj Lm Hn Hp Hu. exists (mhdr_marshal mt mj :: body ++ mc). split.
  - unfold phy_marshal. cbn [pl mtype major mic]. rewrite Hp. destruct p; try reflexivity. congruence.
  - rewrite (phy_unmarshal_frame _ body mc Lm).
    destruct (mhdr_fields mt mj Ht Hj) as [-> ->]. rewrite Hu. reflexivity.
Qed.

(* ---- join-request / rejoin-request payloads ---- *)
Lemma pu_joinreq ty je de dn : length je = 8%nat -> length de = 8%nat -> dn < 65536 ->
  payload_unmarshal JoinRequest ty (rev je ++ rev de ++ le_bytes 2 dn) = Ok (PLJoinRequest je de dn).
Proof.
  intros Lj Ld Hn. unfold payload_unmarshal. change (JoinRequest =? JoinRequest) with true. cbv iota.
  rewrite !app_length, !rev_length, le_bytes_length, Lj, Ld. cbn [Nat.add Nat.eqb negb].
  rewrite (take_app_n 8 (rev je)) by (now rewrite rev_length).
  rewrite (take_drop_app 8 8 (rev je) (rev de)) by (now rewrite rev_length).
  rewrite (drop_app2 16 (rev je) (rev de)) by (rewrite !rev_length; lia).
  now rewrite !rev_involutive, le2_val.
Qed.

Lemma pu_rejoin02 ty nid de rc : ty = 0 \/ ty = 2 -> length nid = 3%nat -> length de = 8%nat -> rc < 65536 ->
  payload_unmarshal RejoinRequest ty (ty :: rev nid ++ rev de ++ le_bytes 2 rc) = Ok (PLRejoin02 ty nid de rc).
Proof.
  intros Ht Ln Ld Hn. unfold payload_unmarshal. change (RejoinRequest =? JoinRequest) with false.
  change ((RejoinRequest =? JoinAccept) || (RejoinRequest =? Proprietary)) with false.
  change (RejoinRequest =? RejoinRequest) with true. cbv iota.
  replace ((ty =? 0) || (ty =? 2)) with true by (destruct Ht as [-> | ->]; reflexivity).
  cbn [length]. rewrite !app_length, !rev_length, le_bytes_length, Ln, Ld. cbn [Nat.add Nat.eqb negb].
  change (skipn 1 (ty :: rev nid ++ rev de ++ le_bytes 2 rc)) with (skipn 0 (rev nid ++ rev de ++ le_bytes 2 rc)).
  change (skipn 4 (ty :: rev nid ++ rev de ++ le_bytes 2 rc)) with (skipn 3 (rev nid ++ rev de ++ le_bytes 2 rc)).
  change (skipn 12 (ty :: rev nid ++ rev de ++ le_bytes 2 rc)) with (skipn 11 (rev nid ++ rev de ++ le_bytes 2 rc)).
  rewrite skipn_O.
  rewrite (take_app_n 3 (rev nid)) by (now rewrite rev_length).
  rewrite (take_drop_app 3 8 (rev nid) (rev de)) by (now rewrite rev_length).
  rewrite (drop_app2 11 (rev nid) (rev de)) by (rewrite !rev_length; lia).
  now rewrite !rev_involutive, le2_val.
Qed.

Lemma pu_rejoin1 je de rc : length je = 8%nat -> length de = 8%nat -> rc < 65536 ->
  payload_unmarshal RejoinRequest 1 (1 :: rev je ++ rev de ++ le_bytes 2 rc) = Ok (PLRejoin1 1 je de rc).
Proof.
  intros Ln Ld Hn. unfold payload_unmarshal. change (RejoinRequest =? JoinRequest) with false.
  change ((RejoinRequest =? JoinAccept) || (RejoinRequest =? Proprietary)) with false.
  change (RejoinRequest =? RejoinRequest) with true. cbv iota.
  change ((1 =? 0) || (1 =? 2)) with false. change (1 =? 1) with true. cbv iota.
  cbn [length]. rewrite !app_length, !rev_length, le_bytes_length, Ln, Ld. cbn [Nat.add Nat.eqb negb].
  change (skipn 1 (1 :: rev je ++ rev de ++ le_bytes 2 rc)) with (skipn 0 (rev je ++ rev de ++ le_bytes 2 rc)).
  change (skipn 9 (1 :: rev je ++ rev de ++ le_bytes 2 rc)) with (skipn 8 (rev je ++ rev de ++ le_bytes 2 rc)).
  change (skipn 17 (1 :: rev je ++ rev de ++ le_bytes 2 rc)) with (skipn 16 (rev je ++ rev de ++ le_bytes 2 rc)).
  rewrite skipn_O.
  rewrite (take_app_n 8 (rev je)) by (now rewrite rev_length).
  rewrite (take_drop_app 8 8 (rev je) (rev de)) by (now rewrite rev_length).
  rewrite (drop_app2 16 (rev je) (rev de)) by (rewrite !rev_length; lia).
  now rewrite !rev_involutive, le2_val.
Qed.

Lemma pu_mac mt ty body : 2 <= mt -> mt <= 5 ->
  payload_unmarshal mt ty body = do m <- mac_unmarshal body; Ok (PLMac m).
Proof.
  intros H2 H5. unfold payload_unmarshal, JoinRequest, JoinAccept, Proprietary, RejoinRequest.
  replace (mt =? 0) with false by lia. replace (mt =? 1) with false by lia.
  replace (mt =? 7) with false by lia. replace (mt =? 6) with false by lia. reflexivity.
Qed.

(* ---- CFList marshalling ---- *)
Definition le3 (f : N) : list N := le_bytes 3 (f / 100).

Lemma chans_fold chs : forall acc, forallb freq_ok chs = true ->
  fold_left (fun acc f =>
               do out <- acc;
               if negb (f mod 100 =? 0) then Err else
               if 16777215 <? f / 100 then Err else
               Ok (out ++ firstn 3 (le_bytes 4 (f / 100)))) chs (Ok acc)
  = Ok (acc ++ concat (map le3 chs)).
Proof.
  induction chs as [|f r IH]; intros acc H.
  - cbn [fold_left map concat]. now rewrite app_nil_r.
  - cbn [forallb] in H. apply andb_true_iff in H as [Hf Hr]. unfold freq_ok in Hf.
    apply andb_true_iff in Hf as [Hm Hd]. cbn [fold_left bind]. rewrite Hm. cbn [negb].
    replace (16777215 <? f / 100) with false by (change (2 ^ 24) with 16777216 in Hd; lia).
    change (firstn 3 (le_bytes 4 (f / 100))) with (freq3 (f / 100)). rewrite freq3_le.
    rewrite (IH _ Hr). cbn [map concat]. now rewrite <- app_assoc.
Qed.

Lemma concat_le3_length chs : length (concat (map le3 chs)) = (3 * length chs)%nat.
Proof.
  induction chs as [|f r IH]; [reflexivity|]. cbn [map concat length]. rewrite app_length, IH.
  unfold le3. rewrite le_bytes_length. lia.
Qed.

Lemma cflist_marshal_chans chs ty : length chs = 5%nat -> forallb freq_ok chs = true ->
  cflist_marshal (mkCFList (CFPChannels chs) ty) = Ok (concat (map le3 chs) ++ [ty mod 256]).
Proof.
  intros L H. unfold cflist_marshal, cfpayload_marshal. cbn [cf_payload cf_type].
  rewrite (chans_fold chs [] H). cbn [bind app]. cbv zeta.
  rewrite (take_app_n 15 (concat (map le3 chs))) by (rewrite concat_le3_length; lia). reflexivity.
Qed.

Lemma concat_masks_length ms : length (concat (map chmask_bytes ms)) = (2 * length ms)%nat.
Proof.
  induction ms as [|m r IH]; [reflexivity|]. cbn [map concat length]. rewrite app_length, IH.
  unfold chmask_bytes, enc_chmask. rewrite le_bytes_length. lia.
Qed.

Lemma take_pad (b : list N) n m : (length b <= n)%nat -> (n <= length b + m)%nat ->
  firstn n (b ++ repeat 0 m) = b ++ repeat 0 (n - length b).
Proof.
  intros H1 H2. replace m with ((n - length b) + (m - (n - length b)))%nat by lia.
  rewrite repeat_app, app_assoc. apply take_app_n. rewrite app_length, repeat_length. lia.
Qed.

Lemma cflist_marshal_masks ms ty : (length ms <= 6)%nat ->
  cflist_marshal (mkCFList (CFPMasks ms) ty)
  = Ok ((concat (map chmask_bytes ms) ++ repeat 0 (15 - 2 * length ms)) ++ [ty mod 256]).
Proof.
  intros L. unfold cflist_marshal, cfpayload_marshal. cbn [cf_payload cf_type].
  replace (6 <? length ms)%nat with false by (symmetry; apply Nat.ltb_ge; exact L). cbn [bind]. cbv zeta.
  rewrite take_pad by (rewrite concat_masks_length; lia). now rewrite concat_masks_length.
Qed.

Lemma Forall_byte_concat (f : N -> list N) l : (forall x, Forall byte (f x)) -> Forall byte (concat (map f l)).
Proof. intros H. induction l; cbn [map concat]; [constructor|]. apply Forall_app. now split. Qed.

Lemma Forall_byte_concat' {A} (f : A -> list N) l : (forall x, Forall byte (f x)) -> Forall byte (concat (map f l)).
Proof. intros H. induction l; cbn [map concat]; [constructor|]. apply Forall_app. now split. Qed.

Lemma Forall_byte_zeros n : Forall byte (repeat 0 n).
Proof. induction n; cbn [repeat]; constructor; [reflexivity|assumption]. Qed.

(* a valid CFList marshals to 16 bytes *)
Lemma cflist_marshal_ok l : cfpayload_valid (cf_payload l) (cf_type l) = true ->
  exists cf, cflist_marshal l = Ok cf /\ Forall byte cf /\ length cf = 16%nat.
Proof.
  destruct l as [[chs|ms|] ty]; cbn [cf_payload cf_type cfpayload_valid]; intros H; [| |discriminate].
  - apply andb_true_iff in H as [H Ht]. apply andb_true_iff in H as [L H]. apply Nat.eqb_eq in L.
    eexists. split; [apply (cflist_marshal_chans chs ty L H)|]. split.
    + apply Forall_app. split; [apply Forall_byte_concat; intros x; apply le_bytes_ok|].
      constructor; [unfold byte; lia|constructor].
    + rewrite app_length, concat_le3_length, L. reflexivity.
  - apply andb_true_iff in H as [H Ht]. apply andb_true_iff in H as [L H]. apply Nat.leb_le in L.
    eexists. split; [apply (cflist_marshal_masks ms ty L)|]. split.
    + apply Forall_app. split; [apply Forall_app; split|].
      * apply Forall_byte_concat'. intros x. apply le_bytes_ok.
      * apply Forall_byte_zeros.
      * constructor; [unfold byte; lia|constructor].
    + rewrite !app_length, concat_masks_length, repeat_length. cbn [length]. lia.
Qed.

(* ---- join-accept payload marshalling ---- *)
Lemma dlsettings_codec o rx2 rx1 : rx2 < 16 -> rx1 < 8 ->
  exists dl, enc_dlsettings o rx2 rx1 = Ok dl /\ dl < 256 /\ dec_dlsettings dl = (o, rx2, rx1).
Proof.
  intros H2 H1.
  assert (S : forallb (fun a => forallb (fun b =>
              match enc_dlsettings o a b with
              | Ok dl => let '(o', a', b') := dec_dlsettings dl in (dl <? 256) && Bool.eqb o' o && (a' =? a) && (b' =? b)
              | _ => false end) (range 8)) (range 16) = true) by (destruct o; vm_compute; reflexivity).
  pose proof (sweep2 16 8 _ S rx2 rx1 H2 H1) as H. cbn beta in H.
  destruct (enc_dlsettings o rx2 rx1) as [dl| | |]; try discriminate.
  exists dl. split; [reflexivity|]. destruct (dec_dlsettings dl) as [[o' a'] b'].
  apply andb_true_iff in H as [H Hb]. apply andb_true_iff in H as [H Ha]. apply andb_true_iff in H as [Hd Ho].
  apply eqb_prop in Ho. apply N.eqb_eq in Ha, Hb. subst. split; [lia|reflexivity].
Qed.

Lemma ja_marshal_shape jn nid da o rx2 rx1 rxd cfl dl cf :
  jn < 16777216 -> rxd < 16 -> enc_dlsettings o rx2 rx1 = Ok dl ->
  match cfl with None => Ok [] | Some l => cflist_marshal l end = Ok cf ->
  payload_marshal (PLJoinAccept jn nid da o rx2 rx1 rxd cfl)
  = Ok (le_bytes 3 jn ++ rev nid ++ rev da ++ [dl; rxd] ++ cf).
Proof.
  intros Hj Hr Hd Hc. cbn [payload_marshal].
  replace (15 <? rxd) with false by lia. replace (16777216 <=? jn) with false by lia.
  rewrite Hd. cbn [bind]. rewrite Hc. cbn [bind].
  change (firstn 3 (le_bytes 4 jn)) with (freq3 jn). now rewrite freq3_le.
Qed.

Lemma ja_valid_marshal jn nid da o rx2 rx1 rxd cfl :
  jn < 16777216 -> rx2 < 16 -> rx1 < 8 -> rxd < 16 ->
  match cfl with None => true | Some l => cfpayload_valid (cf_payload l) (cf_type l) end = true ->
  exists dl cf, enc_dlsettings o rx2 rx1 = Ok dl /\ dl < 256 /\ dec_dlsettings dl = (o, rx2, rx1) /\
    match cfl with None => Ok [] | Some l => cflist_marshal l end = Ok cf /\ Forall byte cf /\
    match cfl with None => cf = [] | Some _ => length cf = 16%nat end /\
    payload_marshal (PLJoinAccept jn nid da o rx2 rx1 rxd cfl)
    = Ok (le_bytes 3 jn ++ rev nid ++ rev da ++ [dl; rxd] ++ cf).
Proof.
  intros Hj H2 H1 Hr Hc. destruct (dlsettings_codec o rx2 rx1 H2 H1) as (dl & Hd & Bd & Hdec).
  assert (Hcf : exists cf, match cfl with None => Ok [] | Some l => cflist_marshal l end = Ok cf /\ Forall byte cf /\
                           match cfl with None => cf = [] | Some _ => length cf = 16%nat end).
  { destruct cfl as [l|].
    - destruct (cflist_marshal_ok l Hc) as (cf & E & B & L). now exists cf.
    - exists []. split; [reflexivity|]. split; [constructor|reflexivity]. }
  destruct Hcf as (cf & E & B & L). exists dl, cf.
  split; [exact Hd|]. split; [exact Bd|]. split; [exact Hdec|]. split; [exact E|]. split; [exact B|]. split; [exact L|].
  now apply ja_marshal_shape.
Qed.

Theorem frame_roundtrip : forall p, spec_valid p = true ->
  exists bs, phy_marshal p = Ok bs /\ phy_unmarshal bs = Ok (wire_view p).
Proof.
  intros [mt mj pl mc]. unfold spec_valid. cbn [Model.pl mtype major mic]. intros H.
  apply andb_true_iff in H as [H Hpl]. apply andb_true_iff in H as [Hmj Hmc].
  destruct (id_ok_inv 4 mc Hmc) as [Lmc _]. assert (Hj : mj < 4) by lia. clear Hmj Hmc.
  unfold wire_view. cbn [Model.pl mtype major mic].
  destruct pl as [je de dn|jn nid da o rx2 rx1 rxd cfl|ty nid de rc|ty je de rc|m|d|]; [..|discriminate Hpl].
  - (* join-request *)
    apply andb_true_iff in Hpl as [Hpl Hdn]. apply andb_true_iff in Hpl as [Hpl Hde]. apply andb_true_iff in Hpl as [Hmt Hje].
    apply N.eqb_eq in Hmt. subst mt.
    destruct (id_ok_inv 8 je Hje) as [Lje _]. destruct (id_ok_inv 8 de Hde) as [Lde _].
    apply (phy_roundtrip_gen JoinRequest mj _ mc (rev je ++ rev de ++ le_bytes 2 dn)); try assumption;
      [reflexivity|discriminate|reflexivity|]. apply pu_joinreq; try assumption. lia.
  - (* join-accept: decoded as an opaque payload *)
    apply andb_true_iff in Hpl as [Hpl Hcf]. apply andb_true_iff in Hpl as [Hpl Hrxd]. apply andb_true_iff in Hpl as [Hpl Hrx1].
    apply andb_true_iff in Hpl as [Hpl Hrx2]. apply andb_true_iff in Hpl as [Hpl Hda]. apply andb_true_iff in Hpl as [Hpl Hnid].
    apply andb_true_iff in Hpl as [Hmt Hjn]. apply N.eqb_eq in Hmt. subst mt.
    destruct (ja_valid_marshal jn nid da o rx2 rx1 rxd cfl) as (dl & cf & _ & _ & _ & _ & _ & _ & Hb);
      try (change (2 ^ 24) with 16777216 in Hjn; lia); [exact Hcf|].
    rewrite Hb.
    eapply (phy_roundtrip_gen JoinAccept mj _ mc); [reflexivity|exact Hj|exact Lmc|discriminate|exact Hb|reflexivity].
  - (* rejoin-request type 0 / 2 *)
    apply andb_true_iff in Hpl as [Hpl Hrc]. apply andb_true_iff in Hpl as [Hpl Hde]. apply andb_true_iff in Hpl as [Hpl Hnid].
    apply andb_true_iff in Hpl as [Hmt Hty]. apply N.eqb_eq in Hmt. subst mt.
    destruct (id_ok_inv 3 nid Hnid) as [Lnid _]. destruct (id_ok_inv 8 de Hde) as [Lde _].
    assert (Hty' : ty = 0 \/ ty = 2) by lia.
    apply (phy_roundtrip_gen RejoinRequest mj _ mc (ty :: rev nid ++ rev de ++ le_bytes 2 rc)); try assumption;
      [reflexivity|discriminate| |].
    + cbn [payload_marshal]. replace (negb (ty =? 0) && negb (ty =? 2)) with false by lia. reflexivity.
    + cbn [app nth]. apply pu_rejoin02; try assumption. lia.
  - (* rejoin-request type 1 *)
    apply andb_true_iff in Hpl as [Hpl Hrc]. apply andb_true_iff in Hpl as [Hpl Hde]. apply andb_true_iff in Hpl as [Hpl Hje].
    apply andb_true_iff in Hpl as [Hmt Hty]. apply N.eqb_eq in Hmt, Hty. subst mt ty.
    destruct (id_ok_inv 8 je Hje) as [Lje _]. destruct (id_ok_inv 8 de Hde) as [Lde _].
    apply (phy_roundtrip_gen RejoinRequest mj _ mc (1 :: rev je ++ rev de ++ le_bytes 2 rc)); try assumption;
      [reflexivity|discriminate|reflexivity|].
    cbn [app nth]. apply pu_rejoin1; try assumption. lia.
  - (* data frames *)
    apply andb_true_iff in Hpl as [Hmt Hm]. apply andb_true_iff in Hmt as [Hmt2 Hmt5].
    destruct (mac_roundtrip m Hm) as (b & Hb & _ & Hu).
    apply (phy_roundtrip_gen mt mj _ mc b); try assumption; [lia|discriminate|].
    rewrite pu_mac by lia. rewrite Hu. reflexivity.
  - (* proprietary *)
    apply andb_true_iff in Hpl as [Hmt _]. apply N.eqb_eq in Hmt. subst mt.
    apply (phy_roundtrip_gen Proprietary mj _ mc d); try assumption; [reflexivity|discriminate|reflexivity|reflexivity].
Qed.

(* ---- channel masks ---- *)
Lemma dec_enc_chmask m : length m = 16%nat -> dec_chmask_list (chmask_bytes m) = m.
Proof.
  intros L. unfold dec_chmask_list, chmask_bytes, dec_chmask, enc_chmask. rewrite le_bytes_length.
  change (Nat.eqb 2 2) with true. cbv iota zeta.
  rewrite le_val_bytes, chmask_val_sum, N.pow_0_r, N.mul_1_r.
  pose proof (mask_val_lt m) as Hm. rewrite L in Hm.
  rewrite N.mod_small by exact Hm.
  rewrite (map_ext _ (N.testbit (mask_val m)) (fun i => land_pow2_testbit (mask_val m) i)).
  now apply mask_of_val.
Qed.

Definition nz (m : list bool) : bool := existsb (fun x => x) m.

Lemma strip_nil : strip_zero_masks [] = [].
Proof. reflexivity. Qed.

Lemma strip_snoc l m : strip_zero_masks (l ++ [m]) = if nz m then l ++ [m] else strip_zero_masks l.
Proof.
  unfold strip_zero_masks. rewrite rev_unit. fold (nz m). destruct (nz m); [|reflexivity].
  cbn [rev]. now rewrite rev_involutive.
Qed.

Lemma strip_nz_mid l m r : nz m = true -> strip_zero_masks (l ++ m :: r) = l ++ m :: strip_zero_masks r.
Proof.
  intros Hm. induction r as [|x r IH] using rev_ind.
  - rewrite strip_snoc, Hm, strip_nil. reflexivity.
  - change (l ++ m :: r ++ [x]) with (l ++ (m :: r) ++ [x]). rewrite app_assoc, !strip_snoc.
    destruct (nz x); [now rewrite <- app_assoc|exact IH].
Qed.

Lemma strip_zero_cons m r : nz m = false ->
  strip_zero_masks (m :: r) = match strip_zero_masks r with [] => [] | s => m :: s end.
Proof.
  intros Hm. induction r as [|x r IH] using rev_ind.
  - change [m] with ([] ++ [m]). now rewrite strip_snoc, Hm.
  - change (m :: r ++ [x]) with ((m :: r) ++ [x]). rewrite !strip_snoc.
    destruct (nz x); [destruct r; reflexivity|exact IH].
Qed.

(* what masks_loop adds to acc *)
Definition strip_tail (pending ms : list (list bool)) : list (list bool) :=
  match strip_zero_masks ms with [] => [] | s => pending ++ s end.

Lemma masks_loop_zeros j : forall fuel pending acc, masks_loop (repeat 0 (2 * j)) fuel pending acc = acc.
Proof.
  induction j as [|j IH]; intros [|fuel] pending acc; try reflexivity.
  replace (2 * S j)%nat with (S (S (2 * j))) by lia. cbn [repeat masks_loop].
  change (existsb (fun x => x) (dec_chmask_list [0; 0])) with false. cbv iota. apply IH.
Qed.

Lemma masks_loop_spec j ms : Forall (fun m => length m = 16%nat) ms ->
  forall fuel pending acc, (length ms <= fuel)%nat ->
  masks_loop (concat (map chmask_bytes ms) ++ repeat 0 (2 * j)) fuel pending acc = acc ++ strip_tail pending ms.
Proof.
  induction 1 as [|m r Hm _ IH]; intros fuel pending acc Hf.
  - cbn [map concat app]. rewrite masks_loop_zeros. unfold strip_tail. rewrite strip_nil. now rewrite app_nil_r.
  - destruct fuel as [|fuel]; [cbn [length] in Hf; lia|]. cbn [length] in Hf.
    cbn [map concat]. rewrite <- app_assoc.
    pose proof (dec_enc_chmask m Hm) as Hd. unfold chmask_bytes, enc_chmask in Hd |- *. cbn [le_bytes] in Hd |- *.
    cbn [app masks_loop]. rewrite Hd. fold (nz m). fold chmask_bytes.
    destruct (nz m) eqn:Enz.
    + rewrite IH by lia. unfold strip_tail. pose proof (strip_nz_mid [] m r Enz) as Es. cbn [app] in Es. rewrite Es.
      rewrite <- !app_assoc. cbn [app]. destruct (strip_zero_masks r); reflexivity.
    + rewrite IH by lia. unfold strip_tail. rewrite (strip_zero_cons m r Enz).
      destruct (strip_zero_masks r); [reflexivity|]. now rewrite <- app_assoc.
Qed.

(* ---- CFList unmarshalling ---- *)
Fixpoint chunks3 (n : nat) (l : list N) : list N :=
  match n with
  | O => []
  | S n' => le_val (firstn 3 l) * 100 :: chunks3 n' (skipn 3 l)
  end.

Lemma chans_map_chunks b :
  map (fun i => le_val (firstn 3 (skipn (3 * i) b)) * 100) [0; 1; 2; 3; 4]%nat = chunks3 5 b.
Proof.
  cbn [map chunks3 Nat.mul Nat.add]. rewrite !skipn_skipn'. cbn [Nat.add]. rewrite skipn_O. reflexivity.
Qed.

Lemma chunks3_concat chs rest : forallb freq_ok chs = true ->
  chunks3 (length chs) (concat (map le3 chs) ++ rest) = chs.
Proof.
  induction chs as [|f r IH]; intros H; [reflexivity|].
  cbn [forallb] in H. apply andb_true_iff in H as [Hf Hr]. unfold freq_ok in Hf. apply andb_true_iff in Hf as [Hm Hd].
  cbn [length chunks3 map concat]. rewrite <- app_assoc.
  rewrite (take_app_n 3 (le3 f)) by apply le_bytes_length.
  rewrite (drop_app_n 3 (le3 f)) by apply le_bytes_length.
  rewrite (IH Hr). f_equal. unfold le3. rewrite le_bytes_small.
  - lia.
  - change (256 ^ N.of_nat 3) with 16777216. change (2 ^ 24) with 16777216 in Hd. lia.
Qed.

Lemma cflist_unmarshal_shape b ty : length b = 15%nat ->
  cflist_unmarshal (b ++ [ty]) =
  if ty =? 1 then Ok (mkCFList (CFPMasks (masks_loop (firstn 12 b) 8 [] [])) ty)
  else Ok (mkCFList (CFPChannels (chunks3 5 b)) ty).
Proof.
  intros L. unfold cflist_unmarshal. rewrite app_length, L. cbn [length Nat.add Nat.eqb negb]. cbv zeta.
  rewrite (app_nth2 b [ty]) by lia. rewrite L, Nat.sub_diag. cbn [nth].
  rewrite (take_app_n 15 b [ty] L). now rewrite chans_map_chunks.
Qed.

Lemma cflist_codec l : cfpayload_valid (cf_payload l) (cf_type l) = true ->
  exists cf, cflist_marshal l = Ok cf /\ cflist_unmarshal cf = Ok (wire_cflist l).
Proof.
  destruct l as [[chs|ms|] ty]; cbn [cf_payload cf_type cfpayload_valid]; intros H; [| |discriminate].
  - apply andb_true_iff in H as [H Ht]. apply andb_true_iff in H as [L H]. apply Nat.eqb_eq in L.
    apply N.eqb_eq in Ht. subst ty.
    eexists. split; [apply (cflist_marshal_chans chs 0 L H)|].
    change (0 mod 256) with 0.
    rewrite cflist_unmarshal_shape by (rewrite concat_le3_length; lia).
    change (0 =? 1) with false. cbv iota.
    rewrite <- (app_nil_r (concat (map le3 chs))). rewrite <- L. rewrite (chunks3_concat chs [] H). reflexivity.
  - apply andb_true_iff in H as [H Ht]. apply andb_true_iff in H as [L H]. apply Nat.leb_le in L.
    apply N.eqb_eq in Ht. subst ty.
    assert (H16 : Forall (fun m => length m = 16%nat) ms).
    { apply Forall_forall. intros m Hin. rewrite forallb_forall in H. apply Nat.eqb_eq. now apply H. }
    eexists. split; [apply (cflist_marshal_masks ms 1 L)|].
    change (1 mod 256) with 1.
    rewrite cflist_unmarshal_shape by (rewrite app_length, concat_masks_length, repeat_length; lia).
    change (1 =? 1) with true. cbv iota.
    rewrite take_pad by (rewrite concat_masks_length; lia). rewrite concat_masks_length.
    replace (12 - 2 * length ms)%nat with (2 * (6 - length ms))%nat by lia.
    rewrite (masks_loop_spec (6 - length ms) ms H16 8 [] []) by lia.
    unfold wire_cflist, strip_tail. cbn [cf_payload cf_type app]. destruct (strip_zero_masks ms); reflexivity.
Qed.

(* ---- join-accept payload unmarshalling ---- *)
Local Transparent skipn firstn.

Lemma ja_unmarshal_12 j0 j1 j2 n2 n1 n0 a3 a2 a1 a0 dl rxd :
  joinaccept_unmarshal [j0; j1; j2; n2; n1; n0; a3; a2; a1; a0; dl; rxd] =
  let '(o, r2, r1) := dec_dlsettings dl in
  Ok (PLJoinAccept (le_val [j0; j1; j2]) [n0; n1; n2] [a0; a1; a2; a3] o r2 r1 (N.land rxd 15) None).
Proof. unfold joinaccept_unmarshal. cbn [length Nat.eqb negb andb nth skipn firstn rev app bind]. reflexivity. Qed.

Lemma ja_unmarshal_28 j0 j1 j2 n2 n1 n0 a3 a2 a1 a0 dl rxd cf : length cf = 16%nat ->
  joinaccept_unmarshal (j0 :: j1 :: j2 :: n2 :: n1 :: n0 :: a3 :: a2 :: a1 :: a0 :: dl :: rxd :: cf) =
  let '(o, r2, r1) := dec_dlsettings dl in
  do c <- cflist_unmarshal cf;
  Ok (PLJoinAccept (le_val [j0; j1; j2]) [n0; n1; n2] [a0; a1; a2; a3] o r2 r1 (N.land rxd 15) (Some c)).
Proof.
  intros L. unfold joinaccept_unmarshal. cbn [length]. rewrite L.
  cbn [Nat.eqb negb andb nth skipn firstn rev app]. destruct (dec_dlsettings dl) as [[o r2] r1].
  destruct (cflist_unmarshal cf); reflexivity.
Qed.

Local Opaque skipn firstn.

Lemma land15_small x : x < 16 -> N.land x 15 = x.
Proof. intros H. change 15 with (N.ones 4). rewrite N.land_ones. apply N.mod_small. exact H. Qed.

Lemma le3_val x : x < 16777216 -> le_val [x mod 256; (x / 256) mod 256; (x / 256 / 256) mod 256] = x.
Proof. intros H. apply (le_bytes_small 3 x). change (256 ^ N.of_nat 3) with 16777216. exact H. Qed.

Theorem joinaccept_codec : forall p,
  spec_valid p = true -> is_join_accept p ->
  exists body, payload_marshal (pl p) = Ok body /\ Forall byte body /\
               (length body = 12 \/ length body = 28)%nat /\
               joinaccept_unmarshal body = Ok (wire_payload (pl p)).
Proof.
  intros [mt mj pl mc] Hv (jn & nid & da & o & rx2 & rx1 & rxd & cfl & Hp). cbn [Model.pl] in *. subst pl.
  unfold spec_valid in Hv. cbn [Model.pl mtype major mic] in Hv.
  apply andb_true_iff in Hv as [_ Hpl].
  apply andb_true_iff in Hpl as [Hpl Hcf]. apply andb_true_iff in Hpl as [Hpl Hrxd]. apply andb_true_iff in Hpl as [Hpl Hrx1].
  apply andb_true_iff in Hpl as [Hpl Hrx2]. apply andb_true_iff in Hpl as [Hpl Hda]. apply andb_true_iff in Hpl as [Hpl Hnid].
  apply andb_true_iff in Hpl as [_ Hjn].
  assert (Hjn' : jn < 16777216) by (change (2 ^ 24) with 16777216 in Hjn; lia).
  assert (Hrxd' : rxd < 16) by lia.
  destruct (ja_valid_marshal jn nid da o rx2 rx1 rxd cfl Hjn' ltac:(lia) ltac:(lia) Hrxd' Hcf)
    as (dl & cf & Hdl & Bdl & Hdec & Ecf & Bcf & Lcf & Hb).
  destruct (id_ok_inv 3 nid Hnid) as [Lnid Bnid]. destruct (id_ok_inv 4 da Hda) as [Lda Bda].
  exists (le_bytes 3 jn ++ rev nid ++ rev da ++ [dl; rxd] ++ cf). split; [exact Hb|]. split; [|split].
  - apply Forall_app. split; [apply le_bytes_ok|]. apply Forall_app. split; [now apply Forall_byte_rev|].
    apply Forall_app. split; [now apply Forall_byte_rev|]. cbn [app].
    constructor; [exact Bdl|]. constructor; [unfold byte; lia|exact Bcf].
  - rewrite !app_length, !rev_length, le_bytes_length, Lnid, Lda. cbn [length].
    destruct cfl; [rewrite Lcf|subst cf; cbn [length]]; lia.
  - destruct nid as [|n0 [|n1 [|n2 [|? ?]]]]; try discriminate Lnid.
    destruct da as [|a0 [|a1 [|a2 [|a3 [|? ?]]]]]; try discriminate Lda.
    cbn [rev app le_bytes].
    destruct cfl as [l|].
    + rewrite ja_unmarshal_28 by exact Lcf. rewrite Hdec.
      destruct (cflist_codec l Hcf) as (cf' & E' & Hu). rewrite Ecf in E'. injection E' as <-.
      rewrite Hu. cbn [bind wire_payload]. now rewrite le3_val, land15_small.
    + subst cf. rewrite ja_unmarshal_12, Hdec. cbn [wire_payload]. now rewrite le3_val, land15_small.
Qed.
