(* C06, encode direction, and C07 acceptance: for every payload value of the Go
   type's domain the encoder either refuses or produces exactly the bytes the
   layout table prescribes for the value's fields; every value within the
   specified ranges is accepted. *)
From Coq Require Import List NArith ZArith Bool Lia.
From Coq Require Import ZifyN ZifyNat ZifyBool.
From LW Require Import Base.Outcome Base.Bytes Base.Bits Mac.Commands Mac.Spec Mac.ByteLemmas Mac.EqLemmas Mac.PackProofs.
Import ListNotations.
Open Scope N_scope.
Ltac Zify.zify_post_hook ::= Z.div_mod_to_equations.

Local Arguments Z.add : simpl never.
Local Arguments Z.sub : simpl never.
Local Arguments Z.mul : simpl never.
Local Arguments Z.quot : simpl never.
Local Arguments Z.modulo : simpl never.
Local Arguments Z.div : simpl never.
Local Arguments Z.to_N : simpl never.
Local Arguments Z.pow : simpl never.
Local Arguments N.add : simpl never.
Local Arguments N.mul : simpl never.
Local Arguments N.div : simpl never.
Local Arguments N.modulo : simpl never.
Local Arguments N.pow : simpl never.
Local Arguments N.lxor : simpl never.
Local Arguments N.lor : simpl never.
Local Arguments N.land : simpl never.
Local Arguments N.shiftl : simpl never.
Local Arguments N.shiftr : simpl never.

(* the Go types' own domains *)
Definition u8 (x : N) : bool := x <? 256.
Definition u32 (x : N) : bool := x <? 4294967296.
Definition i64 (x : Z) : bool := (-9223372036854775808 <=? x)%Z && (x <? 9223372036854775808)%Z.
Definition wf_go (p : macpl) : bool :=
  match p with
  | PLinkCheckAns a b => u8 a && u8 b
  | PLinkADRReq a b cm c d => u8 a && u8 b && Nat.eqb (length cm) 16 && u8 c && u8 d
  | PLinkADRAns _ _ _ | PRXParamSetupAns _ _ _ | PNewChannelAns _ _ | PDLChannelAns _ _
  | PBeaconFreqAns _ | PPingSlotChannelAns _ _ | PRejoinParamSetupAns _ => true
  | PDutyCycleReq a | PRXTimingSetupReq a | PPingSlotInfoReq a
  | PResetInd a | PResetConf a | PRekeyInd a | PRekeyConf a | PDeviceModeInd a | PDeviceModeConf a => u8 a
  | PRXParamSetupReq f _ a b => u32 f && u8 a && u8 b
  | PDevStatusAns a m => u8 a && (-128 <=? m)%Z && (m <=? 127)%Z
  | PNewChannelReq a f b c => u8 a && u32 f && u8 b && u8 c
  | PTXParamSetupReq dl ul e => i64 dl && i64 ul && u8 e
  | PDLChannelReq a f => u8 a && u32 f
  | PBeaconFreqReq f => u32 f
  | PPingSlotChannelReq f a => u32 f && u8 a
  | PDeviceTimeAns d => i64 d
  | PADRParamSetupReq a b | PRejoinParamSetupReq a b => u8 a && u8 b
  | PForceRejoinReq a b c d => u8 a && u8 b && u8 c && u8 d
  | PProprietary bs => bytes_ok bs
  end.

(* numerals for powers of two, in the goal only: rewriting them inside hypotheses
   that lia later uses makes Qed re-checking pathologically slow *)
Local Ltac pows :=
  repeat match goal with
  | |- context [2 ^ ?k] => let r := eval vm_compute in (2 ^ k) in change (2 ^ k) with r
  end.

Local Ltac split_wf :=
  repeat match goal with
  | H : _ && _ = true |- _ => apply andb_true_iff in H; destruct H
  end;
  unfold u8, u32, i64 in *.

Local Ltac list_eq :=
  repeat match goal with
  | |- _ :: _ = _ :: _ => apply (f_equal2 (@cons N))
  | |- @nil N = @nil N => reflexivity
  end.

Local Ltac case_checks H :=
  repeat match type of H with
  | (if ?c then _ else _) = _ => let E := fresh "C" in destruct c eqn:E; [try discriminate H|try discriminate H]
  | bind (if ?c then _ else _) _ = _ => let E := fresh "C" in destruct c eqn:E; cbn [bind] in H; [try discriminate H|try discriminate H]
  end.

Lemma chmask_val_sum m : forall i, chmask_val m i = mask_val m * 2 ^ i.
Proof.
  induction m as [|b m IH]; intros i; cbn [chmask_val mask_val]; [lia|].
  rewrite IH.
  assert (E : 2 ^ (i + 1) = 2 * 2 ^ i) by (rewrite N.pow_add_r, N.pow_1_r; lia).
  destruct b; cbn [b2f].
  - rewrite N.shiftl_1_l, N.lor_comm.
    rewrite lor_add by (apply N.pow_lt_mono_r; lia). rewrite E. lia.
  - rewrite N.lor_0_l. rewrite E. lia.
Qed.

Lemma mask_val_lt m : mask_val m < 2 ^ N.of_nat (length m).
Proof.
  induction m as [|b m IH]; cbn [mask_val length]; [simpl; lia|].
  replace (N.of_nat (S (length m))) with (N.succ (N.of_nat (length m))) by lia.
  rewrite N.pow_succ_r by lia. destruct b; cbn [b2f]; lia.
Qed.

Lemma le_bytes_cons n b x : b < 256 -> le_bytes (S n) (b + 256 * x) = b :: le_bytes n x.
Proof. intros H. cbn [le_bytes]. f_equal; [lia | f_equal; lia]. Qed.

Lemma freq3_le x : freq3 x = le_bytes 3 x.
Proof. reflexivity. Qed.

Lemma le_bytes_0 n : le_bytes n 0 = repeat 0 n.
Proof. induction n; cbn [le_bytes repeat]; [reflexivity|]. f_equal. exact IHn. Qed.

Lemma freq3_bytes x : x < 16777216 ->
  freq3 x = [x mod 256; (x / 256) mod 256; (x / 65536) mod 256].
Proof.
  intros H. unfold freq3. cbn [le_bytes firstn]. rewrite N.div_div by lia. reflexivity.
Qed.

Lemma enc_eq_spec_LinkCheckAns margin gwcnt bs :
  wf_go (PLinkCheckAns margin gwcnt) = true -> enc (PLinkCheckAns margin gwcnt) = Ok bs ->
  bs = spec_encode (layout_of (kind_of (PLinkCheckAns margin gwcnt))) (fields_of (PLinkCheckAns margin gwcnt)).
Proof.
  intros Hwf H. cbn [wf_go] in Hwf; split_wf; cbn [enc] in H;
    unfold spec_encode; cbn [kind_of layout_of fields_of];
    change (byte_size _) with 1%nat || change (byte_size _) with 2%nat || change (byte_size _) with 3%nat
    || change (byte_size _) with 4%nat || change (byte_size _) with 5%nat.
  (* LinkCheckAns *) injection H as <-. cbn [le_bytes pack]. pows. list_eq; lia.
Qed.

Lemma enc_eq_spec_LinkADRReq dr txpower chmask cntl nbrep bs :
  wf_go (PLinkADRReq dr txpower chmask cntl nbrep) = true -> enc (PLinkADRReq dr txpower chmask cntl nbrep) = Ok bs ->
  bs = spec_encode (layout_of (kind_of (PLinkADRReq dr txpower chmask cntl nbrep))) (fields_of (PLinkADRReq dr txpower chmask cntl nbrep)).
Proof.
  intros Hwf H. cbn [wf_go] in Hwf; split_wf; cbn [enc] in H;
    unfold spec_encode; cbn [kind_of layout_of fields_of];
    change (byte_size _) with 1%nat || change (byte_size _) with 2%nat || change (byte_size _) with 3%nat
    || change (byte_size _) with 4%nat || change (byte_size _) with 5%nat.
  (* LinkADRReq *)
    case_checks H. unfold enc_redundancy in H. case_checks H. cbn [bind] in H.
    injection H as <-.
    rewrite !xor_shl4 by lia. unfold enc_chmask. rewrite chmask_val_sum.
    pose proof (mask_val_lt chmask) as Hm.
    match goal with L : (length chmask =? 16)%nat = true |- _ => apply PeanoNat.Nat.eqb_eq in L; rewrite L in Hm end.
    cbn [le_bytes pack app]. pows. revert Hm. generalize (mask_val chmask). intros mv Hm. list_eq; lia.
Qed.

Lemma enc_eq_spec_LinkADRAns chack drack pwack bs :
  wf_go (PLinkADRAns chack drack pwack) = true -> enc (PLinkADRAns chack drack pwack) = Ok bs ->
  bs = spec_encode (layout_of (kind_of (PLinkADRAns chack drack pwack))) (fields_of (PLinkADRAns chack drack pwack)).
Proof.
  intros Hwf H. cbn [wf_go] in Hwf; split_wf; cbn [enc] in H;
    unfold spec_encode; cbn [kind_of layout_of fields_of];
    change (byte_size _) with 1%nat || change (byte_size _) with 2%nat || change (byte_size _) with 3%nat
    || change (byte_size _) with 4%nat || change (byte_size _) with 5%nat.
  (* LinkADRAns *) injection H as <-. destruct chack, drack, pwack; vm_compute; reflexivity.
Qed.

(* the kind-level description (layout, or the whole-octet legacy value 255): all 256 values *)
Lemma sweep_DutyCycleReq :
  forallb (fun m => match enc (PDutyCycleReq m) with
                    | Ok bs => bytes_eqb bs (spec_encode_k KDutyCycleReq [m])
                    | _ => true end) (range 256) = true.
Proof. vm_compute. reflexivity. Qed.

Lemma enc_eq_spec_k_DutyCycleReq maxdc bs :
  wf_go (PDutyCycleReq maxdc) = true -> enc (PDutyCycleReq maxdc) = Ok bs ->
  bs = spec_encode_k KDutyCycleReq [maxdc].
Proof.
  intros Hwf H. cbn [wf_go] in Hwf. unfold u8 in Hwf. apply N.ltb_lt in Hwf.
  pose proof (sweep1 256 _ sweep_DutyCycleReq maxdc Hwf) as S. cbv beta in S. rewrite H in S.
  now apply bytes_eqb_eq.
Qed.

Lemma bytes_RXParamSetupReq f optneg rx2dr rx1off : rx2dr < 16 -> rx1off < 8 -> f < 16777216 ->
  obit (N.lor rx2dr (shl8 rx1off 4)) optneg 7 :: freq3 f = le_bytes 4 (pack [F 4; F 3; F 1; F 24] [rx2dr; rx1off; b2f optneg; f]).
Proof.
  intros H1 H2 Hf.
  rewrite obit_add; [|rewrite lor_shl4 by lia; pows; lia|lia].
  rewrite lor_shl4 by lia. rewrite freq3_le.
  replace (pack [F 4; F 3; F 1; F 24] [rx2dr; rx1off; b2f optneg; f])
    with ((rx2dr + 16 * rx1off + (if optneg then 2 ^ 7 else 0)) + 256 * f)
    by (cbn [pack]; pows; destruct optneg; cbn [b2f]; lia).
  rewrite le_bytes_cons by (pows; destruct optneg; lia). reflexivity.
Qed.

Lemma enc_eq_spec_RXParamSetupReq freq optneg rx2dr rx1off bs :
  wf_go (PRXParamSetupReq freq optneg rx2dr rx1off) = true -> enc (PRXParamSetupReq freq optneg rx2dr rx1off) = Ok bs ->
  bs = spec_encode (layout_of (kind_of (PRXParamSetupReq freq optneg rx2dr rx1off))) (fields_of (PRXParamSetupReq freq optneg rx2dr rx1off)).
Proof.
  intros Hwf H. cbn [wf_go] in Hwf; split_wf; cbn [enc] in H.
  case_checks H. unfold enc_dlsettings in H. case_checks H. cbn [bind] in H. injection H as <-.
  apply bytes_RXParamSetupReq; lia.
Qed.

Lemma enc_eq_spec_RXParamSetupAns chack rx2ack rx1ack bs :
  wf_go (PRXParamSetupAns chack rx2ack rx1ack) = true -> enc (PRXParamSetupAns chack rx2ack rx1ack) = Ok bs ->
  bs = spec_encode (layout_of (kind_of (PRXParamSetupAns chack rx2ack rx1ack))) (fields_of (PRXParamSetupAns chack rx2ack rx1ack)).
Proof.
  intros Hwf H. cbn [wf_go] in Hwf; split_wf; cbn [enc] in H;
    unfold spec_encode; cbn [kind_of layout_of fields_of];
    change (byte_size _) with 1%nat || change (byte_size _) with 2%nat || change (byte_size _) with 3%nat
    || change (byte_size _) with 4%nat || change (byte_size _) with 5%nat.
  (* RXParamSetupAns *) injection H as <-. destruct chack, rx2ack, rx1ack; vm_compute; reflexivity.
Qed.

Lemma enc_eq_spec_DevStatusAns battery margin bs :
  wf_go (PDevStatusAns battery margin) = true -> enc (PDevStatusAns battery margin) = Ok bs ->
  bs = spec_encode (layout_of (kind_of (PDevStatusAns battery margin))) (fields_of (PDevStatusAns battery margin)).
Proof.
  intros Hwf H. cbn [wf_go] in Hwf; split_wf; cbn [enc] in H;
    unfold spec_encode; cbn [kind_of layout_of fields_of];
    change (byte_size _) with 1%nat || change (byte_size _) with 2%nat || change (byte_size _) with 3%nat
    || change (byte_size _) with 4%nat || change (byte_size _) with 5%nat.
  (* DevStatusAns *)
    case_checks H. injection H as <-. unfold margin_field. cbn [le_bytes pack]. pows.
    destruct (margin <? 0)%Z eqn:E.
    + assert (Em : Z.to_N (margin mod 64) = Z.to_N (64 + margin)) by (f_equal; lia).
      rewrite Em. assert (Hl : Z.to_N (64 + margin) < 64) by lia.
      revert Hl. generalize (Z.to_N (64 + margin)). intros mf Hl. list_eq; lia.
    + assert (Em : Z.to_N (margin mod 64) = Z.to_N margin) by (f_equal; lia).
      rewrite Em. assert (Hl : Z.to_N margin < 64) by lia.
      revert Hl. generalize (Z.to_N margin). intros mf Hl. list_eq; lia.
Qed.

Lemma bytes_NewChannelReq chidx f mindr maxdr : chidx < 256 -> f < 16777216 -> mindr < 16 -> maxdr < 16 ->
  [chidx; f mod 256; (f / 256) mod 256; (f / 256 / 256) mod 256; N.lxor mindr (shl8 maxdr 4)]
  = le_bytes 5 (pack [F 8; F 24; F 4; F 4] [chidx; f; mindr; maxdr]).
Proof.
  intros H1 Hf H2 H3. rewrite xor_shl4 by lia. rewrite N.div_div by lia. change (256 * 256) with 65536.
  replace (pack [F 8; F 24; F 4; F 4] [chidx; f; mindr; maxdr])
    with (chidx + 256 * (f mod 256 + 256 * ((f / 256) mod 256 + 256 * ((f / 65536) mod 256 + 256 * ((mindr + 16 * maxdr) + 256 * 0)))))
    by (cbn [pack]; pows; lia).
  rewrite !le_bytes_cons by lia. reflexivity.
Qed.

Lemma enc_eq_spec_NewChannelReq chidx freq maxdr mindr bs :
  wf_go (PNewChannelReq chidx freq maxdr mindr) = true -> enc (PNewChannelReq chidx freq maxdr mindr) = Ok bs ->
  bs = spec_encode (layout_of (kind_of (PNewChannelReq chidx freq maxdr mindr))) (fields_of (PNewChannelReq chidx freq maxdr mindr)).
Proof.
  intros Hwf H. cbn [wf_go] in Hwf; split_wf; cbn [enc] in H.
  case_checks H. injection H as <-. unfold spec_encode. cbn [kind_of layout_of fields_of]. unfold newch_freq_field.
  destruct (2400000000 <=? freq) eqn:E; cbn [andb] in *.
  - assert (Ef : freq / 2 / 100 = freq / 200) by (rewrite N.div_div by lia; reflexivity).
    rewrite Ef in *. apply bytes_NewChannelReq; lia.
  - apply bytes_NewChannelReq; lia.
Qed.

Lemma enc_eq_spec_NewChannelAns freqok drok bs :
  wf_go (PNewChannelAns freqok drok) = true -> enc (PNewChannelAns freqok drok) = Ok bs ->
  bs = spec_encode (layout_of (kind_of (PNewChannelAns freqok drok))) (fields_of (PNewChannelAns freqok drok)).
Proof.
  intros Hwf H. cbn [wf_go] in Hwf; split_wf; cbn [enc] in H;
    unfold spec_encode; cbn [kind_of layout_of fields_of];
    change (byte_size _) with 1%nat || change (byte_size _) with 2%nat || change (byte_size _) with 3%nat
    || change (byte_size _) with 4%nat || change (byte_size _) with 5%nat.
  (* NewChannelAns *) injection H as <-. destruct freqok, drok; vm_compute; reflexivity.
Qed.

Lemma enc_eq_spec_RXTimingSetupReq delay bs :
  wf_go (PRXTimingSetupReq delay) = true -> enc (PRXTimingSetupReq delay) = Ok bs ->
  bs = spec_encode (layout_of (kind_of (PRXTimingSetupReq delay))) (fields_of (PRXTimingSetupReq delay)).
Proof.
  intros Hwf H. cbn [wf_go] in Hwf; split_wf; cbn [enc] in H;
    unfold spec_encode; cbn [kind_of layout_of fields_of];
    change (byte_size _) with 1%nat || change (byte_size _) with 2%nat || change (byte_size _) with 3%nat
    || change (byte_size _) with 4%nat || change (byte_size _) with 5%nat.
  (* RXTimingSetupReq *) case_checks H. injection H as <-. cbn [le_bytes pack]. pows. list_eq; lia.
Qed.

Lemma enc_eq_spec_TXParamSetupReq dldwell uldwell eirp bs :
  wf_go (PTXParamSetupReq dldwell uldwell eirp) = true -> enc (PTXParamSetupReq dldwell uldwell eirp) = Ok bs ->
  bs = spec_encode (layout_of (kind_of (PTXParamSetupReq dldwell uldwell eirp))) (fields_of (PTXParamSetupReq dldwell uldwell eirp)).
Proof.
  intros Hwf H. cbn [wf_go] in Hwf; split_wf; cbn [enc] in H;
    unfold spec_encode; cbn [kind_of layout_of fields_of];
    change (byte_size _) with 1%nat || change (byte_size _) with 2%nat || change (byte_size _) with 3%nat
    || change (byte_size _) with 4%nat || change (byte_size _) with 5%nat.
  (* TXParamSetupReq *)
    case_checks H. injection H as <-.
    assert (Hu : uldwell = 0%Z \/ uldwell = 1%Z) by lia. assert (Hd : dldwell = 0%Z \/ dldwell = 1%Z) by lia.
    assert (He : eirp < 16) by lia.
    rewrite (xbit_add eirp _ 4) by (pows; lia).
    rewrite xbit_add; [|destruct (uldwell =? 1)%Z; pows; lia|lia].
    cbn [le_bytes pack]. pows.
    destruct Hu as [-> | ->], Hd as [-> | ->]; cbn [Z.eqb Z.to_N Pos.eqb]; list_eq; lia.
Qed.

Lemma bytes_DLChannelReq chidx f : chidx < 256 -> f < 16777216 ->
  chidx :: freq3 f = le_bytes 4 (pack [F 8; F 24] [chidx; f]).
Proof.
  intros H1 Hf.
  replace (pack [F 8; F 24] [chidx; f]) with (chidx + 256 * f) by (cbn [pack]; pows; lia).
  rewrite le_bytes_cons by lia. reflexivity.
Qed.

Lemma enc_eq_spec_DLChannelReq chidx freq bs :
  wf_go (PDLChannelReq chidx freq) = true -> enc (PDLChannelReq chidx freq) = Ok bs ->
  bs = spec_encode (layout_of (kind_of (PDLChannelReq chidx freq))) (fields_of (PDLChannelReq chidx freq)).
Proof.
  intros Hwf H. cbn [wf_go] in Hwf; split_wf; cbn [enc] in H.
  case_checks H. injection H as <-. apply bytes_DLChannelReq; lia.
Qed.

Lemma enc_eq_spec_DLChannelAns upexists freqok bs :
  wf_go (PDLChannelAns upexists freqok) = true -> enc (PDLChannelAns upexists freqok) = Ok bs ->
  bs = spec_encode (layout_of (kind_of (PDLChannelAns upexists freqok))) (fields_of (PDLChannelAns upexists freqok)).
Proof.
  intros Hwf H. cbn [wf_go] in Hwf; split_wf; cbn [enc] in H;
    unfold spec_encode; cbn [kind_of layout_of fields_of];
    change (byte_size _) with 1%nat || change (byte_size _) with 2%nat || change (byte_size _) with 3%nat
    || change (byte_size _) with 4%nat || change (byte_size _) with 5%nat.
  (* DLChannelAns *) injection H as <-. destruct upexists, freqok; vm_compute; reflexivity.
Qed.

Lemma enc_eq_spec_PingSlotInfoReq periodicity bs :
  wf_go (PPingSlotInfoReq periodicity) = true -> enc (PPingSlotInfoReq periodicity) = Ok bs ->
  bs = spec_encode (layout_of (kind_of (PPingSlotInfoReq periodicity))) (fields_of (PPingSlotInfoReq periodicity)).
Proof.
  intros Hwf H. cbn [wf_go] in Hwf; split_wf; cbn [enc] in H;
    unfold spec_encode; cbn [kind_of layout_of fields_of];
    change (byte_size _) with 1%nat || change (byte_size _) with 2%nat || change (byte_size _) with 3%nat
    || change (byte_size _) with 4%nat || change (byte_size _) with 5%nat.
  (* PingSlotInfoReq *) case_checks H. injection H as <-. cbn [le_bytes pack]. pows. list_eq; lia.
Qed.

Lemma bytes_BeaconFreqReq f : f < 16777216 -> freq3 f = le_bytes 3 (pack [F 24] [f]).
Proof.
  intros Hf. replace (pack [F 24] [f]) with f by (cbn [pack]; pows; lia). reflexivity.
Qed.

Lemma enc_eq_spec_BeaconFreqReq freq bs :
  wf_go (PBeaconFreqReq freq) = true -> enc (PBeaconFreqReq freq) = Ok bs ->
  bs = spec_encode (layout_of (kind_of (PBeaconFreqReq freq))) (fields_of (PBeaconFreqReq freq)).
Proof.
  intros Hwf H. cbn [wf_go] in Hwf; split_wf; cbn [enc] in H.
  case_checks H. injection H as <-. apply bytes_BeaconFreqReq; lia.
Qed.

Lemma enc_eq_spec_BeaconFreqAns ok bs :
  wf_go (PBeaconFreqAns ok) = true -> enc (PBeaconFreqAns ok) = Ok bs ->
  bs = spec_encode (layout_of (kind_of (PBeaconFreqAns ok))) (fields_of (PBeaconFreqAns ok)).
Proof.
  intros Hwf H. cbn [wf_go] in Hwf; split_wf; cbn [enc] in H;
    unfold spec_encode; cbn [kind_of layout_of fields_of];
    change (byte_size _) with 1%nat || change (byte_size _) with 2%nat || change (byte_size _) with 3%nat
    || change (byte_size _) with 4%nat || change (byte_size _) with 5%nat.
  (* BeaconFreqAns *) injection H as <-. destruct ok; vm_compute; reflexivity.
Qed.

Lemma bytes_PingSlotChannelReq f dr : f < 16777216 -> dr < 16 ->
  freq3 f ++ [dr] = le_bytes 4 (pack [F 24; F 4; RFU 4] [f; dr]).
Proof.
  intros Hf Hd.
  replace (pack [F 24; F 4; RFU 4] [f; dr])
    with (f mod 256 + 256 * ((f / 256) mod 256 + 256 * ((f / 65536) mod 256 + 256 * (dr + 256 * 0))))
    by (cbn [pack]; pows; lia).
  rewrite !le_bytes_cons by lia. rewrite freq3_bytes by assumption. reflexivity.
Qed.

Lemma enc_eq_spec_PingSlotChannelReq freq dr bs :
  wf_go (PPingSlotChannelReq freq dr) = true -> enc (PPingSlotChannelReq freq dr) = Ok bs ->
  bs = spec_encode (layout_of (kind_of (PPingSlotChannelReq freq dr))) (fields_of (PPingSlotChannelReq freq dr)).
Proof.
  intros Hwf H. cbn [wf_go] in Hwf; split_wf; cbn [enc] in H.
  case_checks H. injection H as <-. apply bytes_PingSlotChannelReq; lia.
Qed.

Lemma enc_eq_spec_PingSlotChannelAns drok freqok bs :
  wf_go (PPingSlotChannelAns drok freqok) = true -> enc (PPingSlotChannelAns drok freqok) = Ok bs ->
  bs = spec_encode (layout_of (kind_of (PPingSlotChannelAns drok freqok))) (fields_of (PPingSlotChannelAns drok freqok)).
Proof.
  intros Hwf H. cbn [wf_go] in Hwf; split_wf; cbn [enc] in H;
    unfold spec_encode; cbn [kind_of layout_of fields_of];
    change (byte_size _) with 1%nat || change (byte_size _) with 2%nat || change (byte_size _) with 3%nat
    || change (byte_size _) with 4%nat || change (byte_size _) with 5%nat.
  (* PingSlotChannelAns *) injection H as <-. destruct drok, freqok; vm_compute; reflexivity.
Qed.

Lemma enc_eq_spec_DeviceTimeAns dur bs :
  wf_go (PDeviceTimeAns dur) = true -> enc (PDeviceTimeAns dur) = Ok bs ->
  bs = spec_encode (layout_of (kind_of (PDeviceTimeAns dur))) (fields_of (PDeviceTimeAns dur)).
Proof.
  intros Hwf H. cbn [wf_go] in Hwf; split_wf; cbn [enc] in H;
    unfold spec_encode; cbn [kind_of layout_of fields_of];
    change (byte_size _) with 1%nat || change (byte_size _) with 2%nat || change (byte_size _) with 3%nat
    || change (byte_size _) with 4%nat || change (byte_size _) with 5%nat.
  (* DeviceTimeAns *)
    case_checks H. injection H as <-. unfold second in *.
    match goal with C : _ || _ = false |- _ => apply orb_false_iff in C; destruct C as [Cn Cs] end.
    assert (Hd : (0 <= dur)%Z) by lia.
    assert (Eq : (dur ÷ 1000000000 = dur / 1000000000)%Z) by (apply Z.quot_div_nonneg; lia).
    rewrite Eq in *.
    set (s := (dur / 1000000000)%Z) in *.
    assert (Hs : (0 <= s < 4294967296)%Z) by (unfold s; pows; lia).
    assert (Er : (dur - s * 1000000000 = dur mod 1000000000)%Z) by (unfold s; lia).
    rewrite Er. rewrite Z.quot_div_nonneg by lia.
    set (fr := (dur mod 1000000000 / 3906250)%Z).
    assert (Hfr : (0 <= fr < 256)%Z) by (unfold fr; lia).
    rewrite (Z.mod_small fr) by lia.
    assert (HS : Z.to_N s < 4294967296) by lia. assert (HF : Z.to_N fr < 256) by lia.
    revert HS HF. generalize (Z.to_N s) (Z.to_N fr). intros S FR HS HF.
    cbn [le_bytes pack app]. pows. list_eq; lia.
Qed.

Lemma enc_eq_spec_ResetInd minor bs :
  wf_go (PResetInd minor) = true -> enc (PResetInd minor) = Ok bs ->
  bs = spec_encode (layout_of (kind_of (PResetInd minor))) (fields_of (PResetInd minor)).
Proof.
  intros Hwf H. cbn [wf_go] in Hwf; split_wf; cbn [enc] in H;
    unfold spec_encode; cbn [kind_of layout_of fields_of];
    change (byte_size _) with 1%nat || change (byte_size _) with 2%nat || change (byte_size _) with 3%nat
    || change (byte_size _) with 4%nat || change (byte_size _) with 5%nat.
  (* ResetInd *) unfold enc_version in H. case_checks H. injection H as <-. cbn [le_bytes pack]. pows. list_eq; lia.
Qed.

Lemma enc_eq_spec_ResetConf minor bs :
  wf_go (PResetConf minor) = true -> enc (PResetConf minor) = Ok bs ->
  bs = spec_encode (layout_of (kind_of (PResetConf minor))) (fields_of (PResetConf minor)).
Proof.
  intros Hwf H. cbn [wf_go] in Hwf; split_wf; cbn [enc] in H;
    unfold spec_encode; cbn [kind_of layout_of fields_of];
    change (byte_size _) with 1%nat || change (byte_size _) with 2%nat || change (byte_size _) with 3%nat
    || change (byte_size _) with 4%nat || change (byte_size _) with 5%nat.
  unfold enc_version in H. case_checks H. injection H as <-. cbn [le_bytes pack]. pows. list_eq; lia.
Qed.

Lemma enc_eq_spec_RekeyInd minor bs :
  wf_go (PRekeyInd minor) = true -> enc (PRekeyInd minor) = Ok bs ->
  bs = spec_encode (layout_of (kind_of (PRekeyInd minor))) (fields_of (PRekeyInd minor)).
Proof.
  intros Hwf H. cbn [wf_go] in Hwf; split_wf; cbn [enc] in H;
    unfold spec_encode; cbn [kind_of layout_of fields_of];
    change (byte_size _) with 1%nat || change (byte_size _) with 2%nat || change (byte_size _) with 3%nat
    || change (byte_size _) with 4%nat || change (byte_size _) with 5%nat.
  unfold enc_version in H. case_checks H. injection H as <-. cbn [le_bytes pack]. pows. list_eq; lia.
Qed.

Lemma enc_eq_spec_RekeyConf minor bs :
  wf_go (PRekeyConf minor) = true -> enc (PRekeyConf minor) = Ok bs ->
  bs = spec_encode (layout_of (kind_of (PRekeyConf minor))) (fields_of (PRekeyConf minor)).
Proof.
  intros Hwf H. cbn [wf_go] in Hwf; split_wf; cbn [enc] in H;
    unfold spec_encode; cbn [kind_of layout_of fields_of];
    change (byte_size _) with 1%nat || change (byte_size _) with 2%nat || change (byte_size _) with 3%nat
    || change (byte_size _) with 4%nat || change (byte_size _) with 5%nat.
  unfold enc_version in H. case_checks H. injection H as <-. cbn [le_bytes pack]. pows. list_eq; lia.
Qed.

Lemma enc_eq_spec_ADRParamSetupReq limitexp delayexp bs :
  wf_go (PADRParamSetupReq limitexp delayexp) = true -> enc (PADRParamSetupReq limitexp delayexp) = Ok bs ->
  bs = spec_encode (layout_of (kind_of (PADRParamSetupReq limitexp delayexp))) (fields_of (PADRParamSetupReq limitexp delayexp)).
Proof.
  intros Hwf H. cbn [wf_go] in Hwf; split_wf; cbn [enc] in H;
    unfold spec_encode; cbn [kind_of layout_of fields_of];
    change (byte_size _) with 1%nat || change (byte_size _) with 2%nat || change (byte_size _) with 3%nat
    || change (byte_size _) with 4%nat || change (byte_size _) with 5%nat.
  (* ADRParamSetupReq *) case_checks H. injection H as <-. rewrite lor_shl4 by lia. cbn [le_bytes pack]. pows. list_eq; lia.
Qed.

Lemma enc_eq_spec_ForceRejoinReq period maxretries rejointype dr bs :
  wf_go (PForceRejoinReq period maxretries rejointype dr) = true -> enc (PForceRejoinReq period maxretries rejointype dr) = Ok bs ->
  bs = spec_encode (layout_of (kind_of (PForceRejoinReq period maxretries rejointype dr))) (fields_of (PForceRejoinReq period maxretries rejointype dr)).
Proof.
  intros Hwf H. cbn [wf_go] in Hwf; split_wf; cbn [enc] in H;
    unfold spec_encode; cbn [kind_of layout_of fields_of];
    change (byte_size _) with 1%nat || change (byte_size _) with 2%nat || change (byte_size _) with 3%nat
    || change (byte_size _) with 4%nat || change (byte_size _) with 5%nat.
  (* ForceRejoinReq *)
    case_checks H. injection H as <-. rewrite lor_shl4, lor_shl3 by lia. cbn [le_bytes pack]. pows. list_eq; lia.
Qed.

Lemma enc_eq_spec_RejoinParamSetupReq maxtime maxcount bs :
  wf_go (PRejoinParamSetupReq maxtime maxcount) = true -> enc (PRejoinParamSetupReq maxtime maxcount) = Ok bs ->
  bs = spec_encode (layout_of (kind_of (PRejoinParamSetupReq maxtime maxcount))) (fields_of (PRejoinParamSetupReq maxtime maxcount)).
Proof.
  intros Hwf H. cbn [wf_go] in Hwf; split_wf; cbn [enc] in H;
    unfold spec_encode; cbn [kind_of layout_of fields_of];
    change (byte_size _) with 1%nat || change (byte_size _) with 2%nat || change (byte_size _) with 3%nat
    || change (byte_size _) with 4%nat || change (byte_size _) with 5%nat.
  (* RejoinParamSetupReq *) case_checks H. injection H as <-. rewrite lor_shl4 by lia. cbn [le_bytes pack]. pows. list_eq; lia.
Qed.

Lemma enc_eq_spec_RejoinParamSetupAns timeok bs :
  wf_go (PRejoinParamSetupAns timeok) = true -> enc (PRejoinParamSetupAns timeok) = Ok bs ->
  bs = spec_encode (layout_of (kind_of (PRejoinParamSetupAns timeok))) (fields_of (PRejoinParamSetupAns timeok)).
Proof.
  intros Hwf H. cbn [wf_go] in Hwf; split_wf; cbn [enc] in H;
    unfold spec_encode; cbn [kind_of layout_of fields_of];
    change (byte_size _) with 1%nat || change (byte_size _) with 2%nat || change (byte_size _) with 3%nat
    || change (byte_size _) with 4%nat || change (byte_size _) with 5%nat.
  (* RejoinParamSetupAns *) injection H as <-. destruct timeok; vm_compute; reflexivity.
Qed.

Lemma enc_eq_spec_DeviceModeInd class bs :
  wf_go (PDeviceModeInd class) = true -> enc (PDeviceModeInd class) = Ok bs ->
  bs = spec_encode (layout_of (kind_of (PDeviceModeInd class))) (fields_of (PDeviceModeInd class)).
Proof.
  intros Hwf H. cbn [wf_go] in Hwf; split_wf; cbn [enc] in H;
    unfold spec_encode; cbn [kind_of layout_of fields_of];
    change (byte_size _) with 1%nat || change (byte_size _) with 2%nat || change (byte_size _) with 3%nat
    || change (byte_size _) with 4%nat || change (byte_size _) with 5%nat.
  (* DeviceModeInd *) injection H as <-. cbn [le_bytes pack]. pows. list_eq; lia.
Qed.

Lemma enc_eq_spec_DeviceModeConf class bs :
  wf_go (PDeviceModeConf class) = true -> enc (PDeviceModeConf class) = Ok bs ->
  bs = spec_encode (layout_of (kind_of (PDeviceModeConf class))) (fields_of (PDeviceModeConf class)).
Proof.
  intros Hwf H. cbn [wf_go] in Hwf; split_wf; cbn [enc] in H;
    unfold spec_encode; cbn [kind_of layout_of fields_of];
    change (byte_size _) with 1%nat || change (byte_size _) with 2%nat || change (byte_size _) with 3%nat
    || change (byte_size _) with 4%nat || change (byte_size _) with 5%nat.
  (* DeviceModeConf *) injection H as <-. cbn [le_bytes pack]. pows. list_eq; lia.
Qed.

Theorem enc_eq_spec v bs :
  wf_go v = true -> kind_of v <> KProprietary -> enc v = Ok bs ->
  bs = spec_encode_k (kind_of v) (fields_of v).
Proof.
  intros Hwf Hk H. destruct v; cbn [kind_of] in Hk; try congruence; clear Hk;
    try (rewrite spec_encode_k_plain by reflexivity).
  - now apply enc_eq_spec_LinkCheckAns.
  - now apply enc_eq_spec_LinkADRReq.
  - now apply enc_eq_spec_LinkADRAns.
  - now apply enc_eq_spec_k_DutyCycleReq.
  - now apply enc_eq_spec_RXParamSetupReq.
  - now apply enc_eq_spec_RXParamSetupAns.
  - now apply enc_eq_spec_DevStatusAns.
  - now apply enc_eq_spec_NewChannelReq.
  - now apply enc_eq_spec_NewChannelAns.
  - now apply enc_eq_spec_RXTimingSetupReq.
  - now apply enc_eq_spec_TXParamSetupReq.
  - now apply enc_eq_spec_DLChannelReq.
  - now apply enc_eq_spec_DLChannelAns.
  - now apply enc_eq_spec_PingSlotInfoReq.
  - now apply enc_eq_spec_BeaconFreqReq.
  - now apply enc_eq_spec_BeaconFreqAns.
  - now apply enc_eq_spec_PingSlotChannelReq.
  - now apply enc_eq_spec_PingSlotChannelAns.
  - now apply enc_eq_spec_DeviceTimeAns.
  - now apply enc_eq_spec_ResetInd.
  - now apply enc_eq_spec_ResetConf.
  - now apply enc_eq_spec_RekeyInd.
  - now apply enc_eq_spec_RekeyConf.
  - now apply enc_eq_spec_ADRParamSetupReq.
  - now apply enc_eq_spec_ForceRejoinReq.
  - now apply enc_eq_spec_RejoinParamSetupReq.
  - now apply enc_eq_spec_RejoinParamSetupAns.
  - now apply enc_eq_spec_DeviceModeInd.
  - now apply enc_eq_spec_DeviceModeConf.
Qed.

(* every value within the specified ranges is accepted *)
Theorem in_range_accepted v : wf_go v = true -> spec_in_range v = true -> is_ok (enc v) = true.
Proof.
  intros Hwf Hr. destruct v; cbn [wf_go spec_in_range enc enc_redundancy enc_dlsettings enc_version] in *;
    unfold freq_ok, enc_redundancy, enc_dlsettings, enc_version in *; split_wf;
    repeat match goal with
    | |- is_ok (if ?c then _ else _) = true => let E := fresh "C" in destruct c eqn:E; [exfalso; lia|]
    | |- is_ok (bind (if ?c then _ else _) _) = true => let E := fresh "C" in destruct c eqn:E; [exfalso; lia|]; cbn [bind]
    end; try reflexivity.
  (* NewChannelReq: the range depends on the band *)
  - destruct (2400000000 <=? freq) eqn:E; cbn [andb] in *; split_wf;
    repeat match goal with
    | |- is_ok (if ?c then _ else _) = true => let E := fresh "C" in destruct c eqn:E; [exfalso; lia|]
    end; reflexivity.
  (* DeviceTimeAns *)
  - unfold second. assert (Eq : (dur ÷ 1000000000 = dur / 1000000000)%Z) by (apply Z.quot_div_nonneg; lia).
    rewrite Eq. replace ((dur <? 0)%Z || (2 ^ 32 <=? dur / 1000000000)%Z) with false; [reflexivity|].
    symmetry. apply orb_false_iff. split; [lia|]. change (2 ^ 32)%Z with 4294967296%Z in *. lia.
Qed.

(* the one recorded ambiguity of the format (finding C07-2) *)
Definition newch_ambiguous (v : macpl) : bool :=
  match v with
  | PNewChannelReq _ f _ _ => (1200000000 <=? f) && (f <? 2400000000)
  | _ => false
  end.

Lemma testbit_mask_val m : forall i, N.testbit (mask_val m) (N.of_nat i) = nth i m false.
Proof.
  induction m as [|b m IH]; intros i; cbn [mask_val].
  - rewrite N.bits_0. destruct i; reflexivity.
  - destruct i as [|i].
    + cbn [nth N.of_nat]. rewrite N.add_comm. destruct b; cbn [b2f].
      * apply N.testbit_odd_0.
      * rewrite N.add_0_r. apply N.testbit_even_0.
    + cbn [nth]. rewrite Nat2N.inj_succ, <- IH. rewrite N.add_comm. destruct b; cbn [b2f].
      * apply N.testbit_odd_succ. lia.
      * rewrite N.add_0_r. apply N.testbit_even_succ. lia.
Qed.

Lemma mask_of_val m : length m = 16%nat -> mask_of (mask_val m) = m.
Proof.
  intros H. unfold mask_of.
  change [0; 1; 2; 3; 4; 5; 6; 7; 8; 9; 10; 11; 12; 13; 14; 15]
    with (map N.of_nat [0; 1; 2; 3; 4; 5; 6; 7; 8; 9; 10; 11; 12; 13; 14; 15]%nat).
  rewrite map_map. erewrite map_ext; [|intros i; apply testbit_mask_val].
  do 16 (destruct m as [|? m]; [discriminate H|]). destruct m; [reflexivity|discriminate H].
Qed.

(* kinds read through their layout alone (DutyCycleReq with its whole-octet value 255 is
   swept separately: roundtrip_DutyCycleReq in StreamProofs.v) *)
Lemma accepted_fields v bs :
  wf_go v = true -> kind_of v <> KProprietary -> legacy_octets (kind_of v) = [] ->
  enc v = Ok bs -> newch_ambiguous v = false ->
  in_widths (layout_of (kind_of v)) (fields_of v) = true /\
  value_of (kind_of v) (fields_of v) = wire_resolution v.
Proof.
  intros Hwf Hk Hl H Ha. destruct v; cbn [wf_go] in Hwf; split_wf; cbn [enc] in H;
    cbn [kind_of layout_of fields_of in_widths value_of g nth wire_resolution newch_ambiguous] in *; pows.
  - split; [lia|reflexivity].
  - case_checks H. unfold enc_redundancy in H. case_checks H.
    pose proof (mask_val_lt chmask) as Hm.
    match goal with L : (length chmask =? 16)%nat = true |- _ => apply PeanoNat.Nat.eqb_eq in L; rewrite L in Hm end.
    split; [pows; lia|]. f_equal. now apply mask_of_val.
  - split; [destruct chack, drack, pwack; reflexivity|destruct chack, drack, pwack; reflexivity].
  - discriminate Hl.
  - case_checks H. unfold enc_dlsettings in H. case_checks H.
    split; [destruct optneg; cbn [b2f]; lia|]. f_equal; [lia|destruct optneg; reflexivity].
  - split; [destruct chack, rx2ack, rx1ack; reflexivity|destruct chack, rx2ack, rx1ack; reflexivity].
  - case_checks H. unfold margin_field, margin_of. split; [lia|]. f_equal.
    destruct (Z.to_N (margin mod 64) <? 32) eqn:E; lia.
  - case_checks H. unfold newch_freq_field, newch_freq_of in *.
    destruct (2400000000 <=? freq) eqn:E; cbn [andb] in *.
    + split; [lia|]. f_equal. destruct (12000000 <=? freq / 200) eqn:E2; lia.
    + split; [lia|]. f_equal. destruct (12000000 <=? freq / 100) eqn:E2; lia.
  - split; destruct freqok, drok; reflexivity.
  - case_checks H. split; [lia|reflexivity].
  - case_checks H. split; [lia|]. f_equal; lia.
  - case_checks H. split; [lia|]. f_equal; lia.
  - split; destruct upexists, freqok; reflexivity.
  - case_checks H. split; [lia|reflexivity].
  - case_checks H. split; [lia|]. f_equal; lia.
  - split; destruct ok; reflexivity.
  - case_checks H. split; [lia|]. f_equal; lia.
  - split; destruct drok, freqok; reflexivity.
  - case_checks H. unfold second in *.
    match goal with C : _ || _ = false |- _ => apply orb_false_iff in C; destruct C as [Cn Cs] end.
    assert (Eq : (dur ÷ 1000000000 = dur / 1000000000)%Z) by (apply Z.quot_div_nonneg; lia).
    rewrite Eq in *. split; [lia|]. f_equal. lia.
  - unfold enc_version in H. case_checks H. split; [lia|reflexivity].
  - unfold enc_version in H. case_checks H. split; [lia|reflexivity].
  - unfold enc_version in H. case_checks H. split; [lia|reflexivity].
  - unfold enc_version in H. case_checks H. split; [lia|reflexivity].
  - case_checks H. split; [lia|reflexivity].
  - case_checks H. split; [lia|reflexivity].
  - case_checks H. split; [lia|reflexivity].
  - split; destruct timeok; reflexivity.
  - split; [lia|reflexivity].
  - split; [lia|reflexivity].
  - congruence.
Qed.
