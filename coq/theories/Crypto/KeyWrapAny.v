(* AES key wrap (RFC 3394) under a KEK of 16, 24 or 32 bytes: the wrapping and
   unwrapping processes of KeyWrap.v (stated there over a list of round keys)
   applied to the expanded key of AESAny.v.  Model file: definitions and the
   RFC's test vectors; theorems in KeyWrapAnyProofs.v.

   [None] from [wrap_any] / [unwrap_raw_any] is the key-size error of
   crypto/aes.NewCipher (the caller never reaches keywrap.Wrap / Unwrap).
   [unwrap_any] is [None] also when the integrity check fails; the two cases
   are told apart by [unwrap_raw_any].  Everything else (block count
   n = length / 8, a trailing partial block ignored, inputs shorter than 16
   bytes) is as described at the top of KeyWrap.v. *)
From Coq Require Import List NArith Bool Arith.
From LW Require Import Base.Outcome Base.Bytes Crypto.AES Crypto.AESAny Crypto.KeyWrap.
Import ListNotations.
Open Scope N_scope.

Definition wrap_any (kek plain : list N) : option (list N) :=
  match expand_key_any kek with
  | Some rks => Some (wrap_rk rks default_iv plain)
  | None => None
  end.

(* (recovered initial value, recovered key data) before the integrity check *)
Definition unwrap_raw_any (kek data : list N) : option (list N * list N) :=
  match expand_key_any kek with
  | Some rks => Some (unwrap_raw_rk rks data)
  | None => None
  end.

Definition unwrap_any (kek data : list N) : option (list N) :=
  match unwrap_raw_any kek data with
  | Some (iv, plain) => if bytes_eqb iv default_iv then Some plain else None
  | None => None
  end.

(* ---- RFC 3394 section 4: key data 00112233 445566778 899AABB CCDDEEFF (000102...) under KEK 000102... ---- *)
Definition kd128 : list N := rfc3394_key.
Definition kd192 : list N := rfc3394_key ++ seq_bytes 8.
Definition kd256 : list N := rfc3394_key ++ seq_bytes 16.

Definition rfc3394_4_2 : list N :=   (* 128 bits of key data, 192-bit KEK *)
  [0x96; 0x77; 0x8B; 0x25; 0xAE; 0x6C; 0xA4; 0x35; 0xF9; 0x2B; 0x5B; 0x97; 0xC0; 0x50; 0xAE; 0xD2;
   0x46; 0x8A; 0xB8; 0xA1; 0x7A; 0xD8; 0x4E; 0x5D].
Definition rfc3394_4_3 : list N :=   (* 128 bits of key data, 256-bit KEK *)
  [0x64; 0xE8; 0xC3; 0xF9; 0xCE; 0x0F; 0x5B; 0xA2; 0x63; 0xE9; 0x77; 0x79; 0x05; 0x81; 0x8A; 0x2A;
   0x93; 0xC8; 0x19; 0x1E; 0x7D; 0x6E; 0x8A; 0xE7].
Definition rfc3394_4_4 : list N :=   (* 192 bits of key data, 192-bit KEK *)
  [0x03; 0x1D; 0x33; 0x26; 0x4E; 0x15; 0xD3; 0x32; 0x68; 0xF2; 0x4E; 0xC2; 0x60; 0x74; 0x3E; 0xDC;
   0xE1; 0xC6; 0xC7; 0xDD; 0xEE; 0x72; 0x5A; 0x93; 0x6B; 0xA8; 0x14; 0x91; 0x5C; 0x67; 0x62; 0xD2].
Definition rfc3394_4_5 : list N :=   (* 192 bits of key data, 256-bit KEK *)
  [0xA8; 0xF9; 0xBC; 0x16; 0x12; 0xC6; 0x8B; 0x3F; 0xF6; 0xE6; 0xF4; 0xFB; 0xE3; 0x0E; 0x71; 0xE4;
   0x76; 0x9C; 0x8B; 0x80; 0xA3; 0x2C; 0xB8; 0x95; 0x8C; 0xD5; 0xD1; 0x7D; 0x6B; 0x25; 0x4D; 0xA1].
Definition rfc3394_4_6 : list N :=   (* 256 bits of key data, 256-bit KEK *)
  [0x28; 0xC9; 0xF4; 0x04; 0xC4; 0xB8; 0x10; 0xF4; 0xCB; 0xCC; 0xB3; 0x5C; 0xFB; 0x87; 0xF8; 0x26;
   0x3F; 0x57; 0x86; 0xE2; 0xD8; 0x0E; 0xD3; 0x26; 0xCB; 0xC7; 0xF0; 0xE7; 0x1A; 0x99; 0xF4; 0x3B;
   0xFB; 0x98; 0x8B; 0x9B; 0x7A; 0x02; 0xDD; 0x21].

Example rfc3394_4_1_any : wrap_any (seq_bytes 16) kd128 = Some rfc3394_wrapped.
Proof. vm_compute. reflexivity. Qed.
Example rfc3394_4_2_wrap : wrap_any (seq_bytes 24) kd128 = Some rfc3394_4_2.
Proof. vm_compute. reflexivity. Qed.
Example rfc3394_4_3_wrap : wrap_any (seq_bytes 32) kd128 = Some rfc3394_4_3.
Proof. vm_compute. reflexivity. Qed.
Example rfc3394_4_4_wrap : wrap_any (seq_bytes 24) kd192 = Some rfc3394_4_4.
Proof. vm_compute. reflexivity. Qed.
Example rfc3394_4_5_wrap : wrap_any (seq_bytes 32) kd192 = Some rfc3394_4_5.
Proof. vm_compute. reflexivity. Qed.
Example rfc3394_4_6_wrap : wrap_any (seq_bytes 32) kd256 = Some rfc3394_4_6.
Proof. vm_compute. reflexivity. Qed.

Example rfc3394_4_2_unwrap : unwrap_any (seq_bytes 24) rfc3394_4_2 = Some kd128.
Proof. vm_compute. reflexivity. Qed.
Example rfc3394_4_3_unwrap : unwrap_any (seq_bytes 32) rfc3394_4_3 = Some kd128.
Proof. vm_compute. reflexivity. Qed.
Example rfc3394_4_4_unwrap : unwrap_any (seq_bytes 24) rfc3394_4_4 = Some kd192.
Proof. vm_compute. reflexivity. Qed.
Example rfc3394_4_5_unwrap : unwrap_any (seq_bytes 32) rfc3394_4_5 = Some kd192.
Proof. vm_compute. reflexivity. Qed.
Example rfc3394_4_6_unwrap : unwrap_any (seq_bytes 32) rfc3394_4_6 = Some kd256.
Proof. vm_compute. reflexivity. Qed.

(* a wrong KEK size, a corrupted byte, the KEK of another size *)
Example rfc3394_any_rejects :
  (wrap_any (seq_bytes 20) kd128, unwrap_any (seq_bytes 20) rfc3394_4_2,
   unwrap_any (seq_bytes 24) (0x97 :: tl rfc3394_4_2), unwrap_any (seq_bytes 32) rfc3394_4_2,
   unwrap_any (seq_bytes 16) rfc3394_4_3)
  = (None, None, None, None, None).
Proof. vm_compute. reflexivity. Qed.
