// Correspondence harness for C20 (GPS time, LoRa airtime, TXParamSetup EIRP coding, sensitivity).
package main

import (
	"bufio"
	"bytes"
	"fmt"
	"math"
	"math/big"
	"os"
	"os/exec"
	"strconv"
	"strings"
	"time"
	_ "time/tzdata" // embedded zone database: real DST zones and TZ= child processes without system zoneinfo

	"github.com/brocaar/lorawan"
	"github.com/brocaar/lorawan/airtime"
	"github.com/brocaar/lorawan/gps"
	"github.com/brocaar/lorawan/sensitivity"
	"verifharness/internal/cases"
	"verifharness/internal/cq"
)

// ---- printing -------------------------------------------------------------

var billion = big.NewInt(1000000000)

// tns: nanoseconds since the Unix epoch, exact for any time.Time.
func tns(t time.Time) *big.Int {
	v := new(big.Int).Mul(big.NewInt(t.Unix()), billion)
	return v.Add(v, big.NewInt(int64(t.Nanosecond())))
}

func zb(v *big.Int) string {
	if v.Sign() < 0 {
		return "(" + v.String() + ")%Z"
	}
	return v.String() + "%Z"
}

func fromNs(v *big.Int) time.Time {
	q, r := new(big.Int).DivMod(v, billion, new(big.Int))
	return time.Unix(q.Int64(), r.Int64()).UTC()
}

func zrow(xs []int64) string {
	s := make([]string, len(xs))
	for i, v := range xs {
		if v < 0 {
			s[i] = fmt.Sprintf("(%d)", v)
		} else {
			s[i] = fmt.Sprintf("%d", v)
		}
	}
	return "[" + strings.Join(s, ";") + "]%Z"
}

// f32q prints a finite float32 as the exact rational mkq num den.
func f32q(f float32) string {
	r := new(big.Rat)
	r.SetFloat64(float64(f)) // exact: every float32 is a float64
	n, d := r.Num(), r.Denom()
	ns := n.String() + "%Z"
	if n.Sign() < 0 {
		ns = "(" + n.String() + ")%Z"
	}
	return fmt.Sprintf("(mkq %s %s%%positive)", ns, d.String())
}

func finite32(f float32) bool {
	return !math.IsNaN(float64(f)) && !math.IsInf(float64(f), 0)
}

// ---- GPS --------------------------------------------------------------------

// IERS Bulletin C: dates at whose 00:00:00 UTC GPS-UTC grew by one second.
var leapDates = [][3]int{
	{1981, 7, 1}, {1982, 7, 1}, {1983, 7, 1}, {1985, 7, 1}, {1988, 1, 1}, {1990, 1, 1},
	{1991, 1, 1}, {1992, 7, 1}, {1993, 7, 1}, {1994, 7, 1}, {1996, 1, 1}, {1997, 7, 1},
	{1999, 1, 1}, {2006, 1, 1}, {2009, 1, 1}, {2012, 7, 1}, {2015, 7, 1}, {2017, 1, 1},
}

var gpsEpoch = time.Date(1980, 1, 6, 0, 0, 0, 0, time.UTC)

func steps() []int64 {
	var r []int64
	for _, d := range leapDates {
		r = append(r, time.Date(d[0], time.Month(d[1]), d[2], 0, 0, 0, 0, time.UTC).Unix())
	}
	return r
}

// utcKey: instants inside (L, L+1 s) for a published L = step-1 get a window key.
func utcKey(t *big.Int) string {
	for _, s := range steps() {
		lo := new(big.Int).Mul(big.NewInt(s-1), billion)
		hi := new(big.Int).Mul(big.NewInt(s), billion)
		if t.Cmp(lo) > 0 && t.Cmp(hi) < 0 {
			return fmt.Sprintf("gps:utc-window:L=%d:t=%s", s-1, t.String())
		}
	}
	return "gps:utc:t=" + t.String()
}

// durKey: durations whose GPS reading is in (G(L), G(L)+1 s], G(L) = L + (i-1).
func durKey(d *big.Int) string {
	g := new(big.Int).Add(new(big.Int).Mul(big.NewInt(gpsEpoch.Unix()), billion), d)
	for i, s := range steps() {
		lo := new(big.Int).Mul(big.NewInt(s-1+int64(i)), billion)
		hi := new(big.Int).Mul(big.NewInt(s+int64(i)), billion)
		if g.Cmp(lo) > 0 && g.Cmp(hi) <= 0 {
			return fmt.Sprintf("gps:dur-window:L=%d:d=%s", s-1, d.String())
		}
	}
	return "gps:dur:d=" + d.String()
}

// lastGPS describes the previous conversion made through the gps package: the
// API must not depend on it, so every replay entry records it.
var lastGPS = "none"

// The property is about instants: the Location a time.Time value carries must not matter.
var zoneOffsets = []int{-14 * 3600, -12 * 3600, -5 * 3600, -1, 1, 3600, 5*3600 + 1800, 12*3600 + 2700, 14 * 3600}

// real zones with daylight saving (repeated and skipped local hours; Lord Howe shifts by 30 minutes)
var dstZoneNames = []string{"Europe/Amsterdam", "America/New_York", "Australia/Lord_Howe", "Africa/Casablanca"}

var zoneCache []*time.Location

func dstZones() []*time.Location {
	var ls []*time.Location
	for _, n := range dstZoneNames {
		l, err := time.LoadLocation(n)
		if err != nil {
			panic("zone database: " + err.Error())
		}
		ls = append(ls, l)
	}
	return ls
}

func zones() []*time.Location {
	if zoneCache != nil {
		return zoneCache
	}
	ls := []*time.Location{time.UTC}
	for _, o := range zoneOffsets {
		ls = append(ls, time.FixedZone(fmt.Sprintf("fixed%+d", o), o))
	}
	ls = append(ls, time.Local)
	zoneCache = append(ls, dstZones()...)
	return zoneCache
}

// transitions of a zone within [from, to): instants at which the UTC offset changes, with the offsets before and after.
type transition struct {
	at         time.Time
	before, to int
}

func transitions(l *time.Location, from, to time.Time) []transition {
	var out []transition
	off := func(t time.Time) int { _, o := t.In(l).Zone(); return o }
	for t := from; t.Before(to); t = t.Add(6 * time.Hour) {
		a, b := off(t), off(t.Add(6*time.Hour))
		if a == b {
			continue
		}
		lo, hi := t.Unix(), t.Add(6*time.Hour).Unix() // off(lo) = a, off(hi) = b
		for hi-lo > 1 {
			mid := (lo + hi) / 2
			if off(time.Unix(mid, 0)) == a {
				lo = mid
			} else {
				hi = mid
			}
		}
		out = append(out, transition{time.Unix(hi, 0).UTC(), a, b})
	}
	return out
}

func locName(t time.Time) string {
	n, o := t.Zone()
	return fmt.Sprintf("%s(%+ds)", n, o)
}

var locFails = 0

// locCheck: TimeSinceGPSEpoch of the same instant presented in every zone must be identical (Go side).
func locCheck(s *cases.Set, t time.Time) {
	want := gps.Time(t.UTC()).TimeSinceGPSEpoch()
	for _, l := range zones() {
		tl := t.In(l)
		if got := gps.Time(tl).TimeSinceGPSEpoch(); got != want && locFails < 40 {
			locFails++
			s.Fail(cases.GoFail{Key: fmt.Sprintf("location-dependent:%s:%s", t.UTC().Format(time.RFC3339Nano), locName(tl)),
				What:   fmt.Sprintf("gps.Time.TimeSinceGPSEpoch depends on the Location of the time.Time value: %s gives %d ns, the same instant in UTC gives %d ns", tl.Format(time.RFC3339Nano), int64(got), int64(want)),
				Replay: map[string]interface{}{"api": "gps.Time.TimeSinceGPSEpoch", "instant_utc": t.UTC().Format(time.RFC3339Nano), "presented_as": tl.Format(time.RFC3339Nano), "location": locName(tl), "observed_ns": int64(got), "observed_for_utc_value_ns": int64(want)}})
		}
	}
}

func utcCaseO(s *cases.Set, t time.Time, kind string, far bool, order string) {
	prev := lastGPS
	locCheck(s, t)
	d := gps.Time(t).TimeSinceGPSEpoch()
	back := time.Time(gps.NewTimeFromTimeSinceGPSEpoch(d))
	tn := tns(t)
	lastGPS = "utc " + t.Format(time.RFC3339Nano) + " <-> " + d.String()
	ctor := "CUtc"
	key := utcKey(tn)
	if far {
		ctor = "CUtcFar"
		key = "gps:utc-far:t=" + tn.String()
	}
	if order != "" {
		key += ":after=" + order
	}
	if _, off := t.Zone(); off != 0 {
		key += fmt.Sprintf(":loc=%+ds", off)
	}
	s.Add(cases.Case{Term: fmt.Sprintf("%s %s %s %s", ctor, zb(tn), cq.Z(int64(d)), zb(tns(back))),
		Key: key, Kind: kind, Nontrivial: true,
		Replay: map[string]interface{}{"api": "gps.Time.TimeSinceGPSEpoch -> gps.NewTimeFromTimeSinceGPSEpoch", "utc": t.UTC().Format(time.RFC3339Nano), "presented_as": t.Format(time.RFC3339Nano), "location": locName(t), "observed_back_location": locName(back), "utc_unix_ns": tn.String(),
			"observed_since_gps_epoch_ns": int64(d), "observed_back": back.Format(time.RFC3339Nano), "previous_conversion_in_this_process": prev}})
}

func utcCase(s *cases.Set, t time.Time, kind string, far bool) { utcCaseO(s, t, kind, far, "") }

func monoCase(s *cases.Set, t1, t2 time.Time, kind string) {
	prev := lastGPS
	locCheck(s, t1)
	locCheck(s, t2)
	d1 := gps.Time(t1).TimeSinceGPSEpoch()
	d2 := gps.Time(t2).TimeSinceGPSEpoch()
	lastGPS = "utc " + t2.Format(time.RFC3339Nano) + " -> " + d2.String()
	s.Add(cases.Case{Term: fmt.Sprintf("CMono %s %s %s %s", zb(tns(t1)), zb(tns(t2)), cq.Z(int64(d1)), cq.Z(int64(d2))),
		Key: fmt.Sprintf("gps:mono:t1=%s:t2=%s", tns(t1), tns(t2)), Kind: kind, Nontrivial: true,
		Replay: map[string]interface{}{"api": "gps.Time.TimeSinceGPSEpoch (two instants)", "utc1": t1.Format(time.RFC3339Nano), "utc2": t2.Format(time.RFC3339Nano),
			"observed1_ns": int64(d1), "observed2_ns": int64(d2), "previous_conversion_in_this_process": prev}})
}

func durCaseO(s *cases.Set, d time.Duration, kind string, order string) {
	prev := lastGPS
	t := time.Time(gps.NewTimeFromTimeSinceGPSEpoch(d))
	locCheck(s, t)
	d2 := gps.Time(t).TimeSinceGPSEpoch()
	lastGPS = "gps " + d.String() + " <-> " + t.Format(time.RFC3339Nano)
	db := big.NewInt(int64(d))
	key := durKey(db)
	if order != "" {
		key += ":after=" + order
	}
	s.Add(cases.Case{Term: fmt.Sprintf("CGps %s %s %s", cq.Z(int64(d)), zb(tns(t)), cq.Z(int64(d2))),
		Key: key, Kind: kind, Nontrivial: true,
		Replay: map[string]interface{}{"api": "gps.NewTimeFromTimeSinceGPSEpoch -> gps.Time.TimeSinceGPSEpoch", "since_gps_epoch_ns": int64(d),
			"observed_utc": t.UTC().Format(time.RFC3339Nano), "observed_location": locName(t), "observed_back_ns": int64(d2), "previous_conversion_in_this_process": prev}})
}

func durCase(s *cases.Set, d time.Duration, kind string) { durCaseO(s, d, kind, "") }

// prelude makes one conversion in each direction so that the next case runs "after" it.
func prelude(which string, selfT time.Time, selfD time.Duration) {
	switch which {
	case "later": // beyond every leap second of the table
		t := time.Date(2031, 3, 1, 12, 0, 0, 0, time.UTC)
		d := gps.Time(t).TimeSinceGPSEpoch()
		gps.NewTimeFromTimeSinceGPSEpoch(d)
		lastGPS = "later: utc 2031-03-01T12:00:00Z <-> " + d.String()
	case "earlier": // before every leap second
		gps.Time(gpsEpoch).TimeSinceGPSEpoch()
		gps.NewTimeFromTimeSinceGPSEpoch(time.Hour)
		lastGPS = "earlier: gps 1h0m0s"
	case "self":
		gps.Time(selfT).TimeSinceGPSEpoch()
		gps.NewTimeFromTimeSinceGPSEpoch(selfD)
		lastGPS = "self"
	}
}

func gpsCases(s *cases.Set, r *cq.RNG, thorough bool) {
	// corpus / witness of finding C20-1 first: 2012-06-30 23:59:59.5 UTC, and the matching duration
	utcCase(s, time.Date(2012, 6, 30, 23, 59, 59, 500000000, time.UTC), "gps-utc-leap-dense", false)
	durCase(s, time.Duration(1025136014500000000), "gps-dur-leap-dense")
	// the five vectors of gps_test.go
	for _, t := range []time.Time{gpsEpoch, time.Date(2010, 1, 28, 16, 36, 24, 0, time.UTC), time.Date(2025, 7, 14, 0, 0, 0, 0, time.UTC),
		time.Date(2012, 6, 30, 23, 59, 59, 0, time.UTC), time.Date(2012, 7, 1, 0, 0, 0, 0, time.UTC)} {
		utcCase(s, t, "gps-utc-testvector", false)
	}

	// --- deliberate call orders: the conversions must not depend on what was converted before ---
	// For every published leap second: L = 23:59:59 UTC, G = GPS duration at L; the inserted second is [G+1 s, G+2 s),
	// G+2 s is the first instant after it (00:00:00 UTC).  Each instant is converted after a much later instant,
	// after a much earlier one, and after itself.
	var near []int64
	for _, k := range []int64{0, 1000000000, 2000000000} {
		near = append(near, k-1, k, k+1)
	}
	for i, st := range steps() {
		L := time.Unix(st-1, 0).UTC()
		G := time.Duration((st-1-gpsEpoch.Unix())+int64(i)) * time.Second
		for _, o := range near {
			for _, ord := range []string{"later", "earlier", "self"} {
				d := G + time.Duration(o)
				t := L.Add(time.Duration(o))
				prelude(ord, t, d)
				durCaseO(s, d, "gps-dur-leap-call-order", ord)
				prelude(ord, t, d)
				utcCaseO(s, t.In(zones()[r.Intn(len(zones()))]), "gps-utc-leap-call-order", false, ord)
			}
		}
		// GPS -> UTC strictly increasing next to the inserted second (pairs that do not leave it: UTC repeats 00:00:00 there),
		// whatever was converted before
		for _, ord := range []string{"later", "earlier"} {
			for _, o := range []int64{1000000000 - 2, 1000000000 - 1, 2000000000, 2000000000 + 1} {
				prelude(ord, L, G)
				ta := time.Time(gps.NewTimeFromTimeSinceGPSEpoch(G + time.Duration(o)))
				prelude(ord, L, G)
				tb := time.Time(gps.NewTimeFromTimeSinceGPSEpoch(G + time.Duration(o+1)))
				if !ta.Before(tb) {
					s.Fail(cases.GoFail{Key: fmt.Sprintf("gps:dur-not-monotone:d=%d:after=%s", int64(G)+o, ord),
						What:   "NewTimeFromTimeSinceGPSEpoch maps a later GPS duration to an earlier UTC instant",
						Replay: map[string]interface{}{"api": "gps.NewTimeFromTimeSinceGPSEpoch", "d1_ns": int64(G) + o, "d2_ns": int64(G) + o + 1, "utc1": ta.Format(time.RFC3339Nano), "utc2": tb.Format(time.RFC3339Nano), "previous_conversion": ord}})
				}
			}
		}
	}
	s.Exhaustive("gps call order: for each of the 18 leap seconds the instants G, G+1 s, G+2 s and their +-1 ns neighbours (both directions), each converted after a much later instant, after a much earlier one and after itself")

	// --- all remaining cases are issued in a seeded random order ---
	var jobs []func()
	zs := zones()
	// every queued UTC instant is presented in a seeded-random Location (UTC, the nine fixed zones, time.Local)
	qU := func(t time.Time, kind string, far bool) {
		t = t.In(zs[r.Intn(len(zs))])
		jobs = append(jobs, func() { utcCase(s, t, kind, far) })
	}
	// dense around every leap second +- the zone offset: the step instant S = 00:00:00 UTC and the instant at which the
	// zone's own clock reads 00:00:00 of that date (S - offset), each with its predecessor, presented in that zone
	for _, st := range steps() {
		S := time.Unix(st, 0).UTC()
		for _, z := range zs[1:] {
			_, off := S.In(z).Zone()
			for _, o := range []time.Duration{-time.Nanosecond, 0, time.Second, -time.Duration(off)*time.Second - time.Nanosecond, -time.Duration(off) * time.Second} {
				t := S.Add(o).In(z)
				jobs = append(jobs, func() { utcCase(s, t, "gps-utc-leap-other-location", false) })
			}
		}
	}
	s.Exhaustive("gps locations: for each of the 18 leap steps S and each of the zones -14h,-12h,-5h,-1s,+1s,+1h,+5:30,+12:45,+14h and time.Local: S-1ns, S, S+1s, S-offset-1ns, S-offset presented in that zone (Coq cases); every probed instant additionally compared across all zones on the Go side")
	// real DST zones: dense through every transition (skipped and repeated local hour) of some years, presented in that zone
	years := []int{2016, 2021}
	if thorough {
		years = nil
		for y := 2005; y <= 2026; y++ {
			years = append(years, y)
		}
	}
	nTr := 0
	for _, z := range dstZones() {
		for _, y := range years {
			for _, tr := range transitions(z, time.Date(y, 1, 1, 0, 0, 0, 0, time.UTC), time.Date(y+1, 1, 1, 0, 0, 0, 0, time.UTC)) {
				nTr++
				shift := time.Duration(tr.before-tr.to) * time.Second // > 0: local clock set back, the local hour repeats
				if shift < 0 {
					shift = -shift
				}
				var pts []time.Duration
				for m := -70; m <= 70; m += 10 {
					pts = append(pts, time.Duration(m)*time.Minute)
				}
				pts = append(pts, -time.Nanosecond, time.Nanosecond, -shift, -shift-time.Nanosecond, shift-time.Nanosecond, shift)
				for _, o := range pts {
					t := tr.at.Add(o).In(z)
					jobs = append(jobs, func() { utcCase(s, t, "gps-utc-dst-transition", false) })
				}
			}
		}
	}
	s.Extra["gps_dst_transitions_probed"] = nTr
	s.Exhaustive("gps DST: every offset transition of Europe/Amsterdam, America/New_York, Australia/Lord_Howe, Africa/Casablanca in 2016 and 2021 (thorough: 2005..2026): every 10 minutes from -70 to +70 minutes, +-1 ns, and the ends of the repeated/skipped local hour, presented in that zone")
	qD := func(d time.Duration, kind string) { jobs = append(jobs, func() { durCase(s, d, kind) }) }
	qM := func(t1, t2 time.Time, kind string) {
		t1, t2 = t1.In(zs[r.Intn(len(zs))]), t2.In(zs[r.Intn(len(zs))])
		jobs = append(jobs, func() { monoCase(s, t1, t2, kind) })
	}

	var offs []int64 // ns relative to L = step - 1 s
	for h := int64(-6); h <= 8; h++ {
		offs = append(offs, h*500000000)
	}
	for k := int64(-1); k <= 3; k++ {
		offs = append(offs, k*1000000000-1, k*1000000000+1)
	}
	for i, st := range steps() {
		L := time.Unix(st-1, 0).UTC()
		G := time.Duration((st-1-gpsEpoch.Unix())+int64(i)) * time.Second // GPS duration at UTC L
		for _, o := range offs {
			qU(L.Add(time.Duration(o)), "gps-utc-leap-dense", false)
			qD(G+time.Duration(o), "gps-dur-leap-dense")
		}
		for _, o := range []int64{-1000000000, -1, 0, 1, 499999999, 999999999, 1000000000, 1000000001} {
			qM(L.Add(time.Duration(o)), L.Add(time.Duration(o+1)), "gps-mono-leap-adjacent")
		}
		qM(L.Add(500*time.Millisecond), L.Add(time.Second), "gps-mono-leap-adjacent")
		qM(L, L.Add(500*time.Millisecond), "gps-mono-leap-adjacent")
	}
	s.Exhaustive("gps: every one of the 18 published leap seconds, UTC instants and GPS durations at -3 s .. +4 s in 0.5 s steps and +-1 ns around each whole second")
	n := 150
	if thorough {
		n = 6000
	}
	lo := gpsEpoch.Unix()
	hi := time.Date(2101, 1, 1, 0, 0, 0, 0, time.UTC).Unix()
	rt := func() time.Time {
		return time.Unix(lo+int64(r.U64()%uint64(hi-lo)), int64(r.U64()%1000000000)).UTC()
	}
	for i := 0; i < n; i++ {
		qU(rt(), "gps-utc-random-1980-2100", false)
		qD(time.Duration(r.U64()%uint64((hi-lo)))*time.Second+time.Duration(r.U64()%1000000000), "gps-dur-random")
		a, b := rt(), rt()
		if i%3 == 0 {
			b = a.Add(time.Duration(r.U64()%3000000000) - 1500000000)
		}
		qM(a, b, "gps-mono-random")
	}
	// before the GPS epoch (offset 0) and whole-second neighbours of the epoch
	for _, t := range []time.Time{time.Unix(0, 0).UTC(), gpsEpoch.Add(-time.Nanosecond), gpsEpoch.Add(time.Nanosecond), time.Date(1975, 3, 1, 12, 0, 0, 5, time.UTC)} {
		qU(t, "gps-utc-before-epoch", false)
	}
	qD(0, "gps-dur-edge")
	qD(-time.Second, "gps-dur-edge")
	// far outside the property's range: Duration saturation (292 years) is part of the model
	for _, t := range []time.Time{time.Date(2272, 1, 1, 0, 0, 0, 0, time.UTC), time.Date(2300, 5, 5, 1, 2, 3, 4, time.UTC), time.Date(2400, 1, 1, 0, 0, 0, 0, time.UTC),
		time.Date(1687, 1, 1, 0, 0, 0, 0, time.UTC), time.Date(1600, 1, 1, 0, 0, 0, 0, time.UTC), time.Date(2262, 4, 11, 0, 0, 0, 0, time.UTC)} {
		qU(t, "gps-utc-far-saturation", true)
	}
	shuffle(r, len(jobs), func(i, j int) { jobs[i], jobs[j] = jobs[j], jobs[i] })
	for _, j := range jobs {
		j()
	}
	s.Extra["gps_call_order"] = "witnesses and deliberate orderings first, then all other GPS cases in a seeded random order (Fisher-Yates from the run's seed)"
}

// shuffle: Fisher-Yates driven by the run's RNG.
func shuffle(r *cq.RNG, n int, swap func(i, j int)) {
	for i := n - 1; i > 0; i-- {
		swap(i, r.Intn(i+1))
	}
}

// historyCheck evaluates every probe once in the given order and once more in a shuffled order (with the other
// probes interleaved differently): a pure API must answer identically.  Differences are property failures.
func historyCheck(s *cases.Set, r *cq.RNG, api string, names []string, probes []func() string) {
	first := make([]string, len(probes))
	for i, p := range probes {
		first[i] = p()
	}
	for round := 0; round < 3; round++ {
		idx := make([]int, len(probes))
		for i := range idx {
			idx[i] = i
		}
		shuffle(r, len(idx), func(i, j int) { idx[i], idx[j] = idx[j], idx[i] })
		fails := 0
		for pos, i := range idx {
			if got := probes[i](); got != first[i] && fails < 5 {
				fails++
				prevName := "none"
				if pos > 0 {
					prevName = names[idx[pos-1]]
				}
				s.Fail(cases.GoFail{Key: "history:" + api + ":" + names[i], What: api + " answers differently for the same input depending on the calls made before (history dependence)",
					Replay: map[string]interface{}{"api": api, "input": names[i], "first_answer": first[i], "answer_in_shuffled_order": got, "previous_input": prevName, "round": round}})
			}
		}
	}
	s.Extra["history_probes_"+api] = len(probes)
}

func historyCases(s *cases.Set, r *cq.RNG, thorough bool) {
	n := 300
	if thorough {
		n = 5000
	}
	// gps, both directions, around every leap second and random
	var names []string
	var probes []func() string
	lo := gpsEpoch.Unix()
	hi := time.Date(2101, 1, 1, 0, 0, 0, 0, time.UTC).Unix()
	addD := func(d time.Duration) {
		names = append(names, "gps-duration="+strconv.FormatInt(int64(d), 10))
		probes = append(probes, func() string { return time.Time(gps.NewTimeFromTimeSinceGPSEpoch(d)).Format(time.RFC3339Nano) })
	}
	addT := func(t time.Time) {
		t = t.In(zones()[r.Intn(len(zones()))])
		names = append(names, "utc="+t.UTC().Format(time.RFC3339Nano)+" presented as "+t.Format(time.RFC3339Nano))
		probes = append(probes, func() string { return strconv.FormatInt(int64(gps.Time(t).TimeSinceGPSEpoch()), 10) })
	}
	for i, st := range steps() {
		L := time.Unix(st-1, 0).UTC()
		G := time.Duration((st-1-gpsEpoch.Unix())+int64(i)) * time.Second
		for _, k := range []int64{0, 1000000000, 2000000000} {
			for _, e := range []int64{-1, 0, 1} {
				addD(G + time.Duration(k+e))
				addT(L.Add(time.Duration(k + e)))
			}
		}
	}
	for i := 0; i < n; i++ {
		addD(time.Duration(r.U64()%uint64(hi-lo))*time.Second + time.Duration(r.U64()%1000000000))
		addT(time.Unix(lo+int64(r.U64()%uint64(hi-lo)), int64(r.U64()%1000000000)).UTC())
	}
	historyCheck(s, r, "gps", names, probes)

	// EIRP, airtime, sensitivity: pure today; a sample evaluated twice in different orders
	names, probes = nil, nil
	for i := 0; i < n; i++ {
		p := float32(r.U64()%4400000)/100000.0 - 2
		if i < 16 {
			p = []float32{8, 10, 12, 13, 14, 16, 18, 20, 21, 24, 26, 27, 29, 30, 33, 36}[i]
		}
		names = append(names, fmt.Sprintf("power=%v", p))
		probes = append(probes, func() string {
			idx := lorawan.GetTXParamSetupEIRPIndex(p)
			v, err := lorawan.GetTXParamSetupEIRP(idx)
			return fmt.Sprintf("%d %v %v", idx, v, err)
		})
	}
	historyCheck(s, r, "eirp", names, probes)
	names, probes = nil, nil
	for i := 0; i < n; i++ {
		pl, sf, bw, pre, cr, h, ld := r.Intn(256), 5+r.Intn(8), bandwidths[r.Intn(5)], r.Intn(65), 1+r.Intn(4), r.Bool(), r.Bool()
		names = append(names, fmt.Sprintf("sf=%d:bw=%d:pre=%d:cr=%d:h=%d:ldro=%d:pl=%d", sf, bw, pre, cr, b01(h), b01(ld), pl))
		probes = append(probes, func() string {
			d, err := airtime.CalculateLoRaAirtime(pl, sf, bw, pre, airtime.CodingRate(cr), h, ld)
			return fmt.Sprintf("%d %v", int64(d), err)
		})
	}
	historyCheck(s, r, "airtime", names, probes)
	names, probes = nil, nil
	for i := 0; i < n; i++ {
		bw, nf, snr, tx := 1+r.Intn(3000000), float32(r.Intn(12)), float32(r.Intn(61)-40)/2, float32(r.Intn(41))
		names = append(names, fmt.Sprintf("bw=%d:nf=%v:snr=%v:tx=%v", bw, nf, snr, tx))
		probes = append(probes, func() string {
			return fmt.Sprintf("%v %v", sensitivity.CalculateSensitivity(bw, nf, snr), sensitivity.CalculateLinkBudget(bw, nf, snr, tx))
		})
	}
	historyCheck(s, r, "sensitivity", names, probes)
}

// ---- airtime ----------------------------------------------------------------

var bandwidths = []int{125, 250, 500, 812, 1625}

func b01(b bool) int {
	if b {
		return 1
	}
	return 0
}

func airOutcome(f func() (time.Duration, error)) (res string) {
	defer func() {
		if recover() != nil {
			res = cq.Panic
		}
	}()
	d, err := f()
	if err != nil {
		return cq.Err
	}
	return cq.Ok(cq.Z(int64(d)))
}

func sdOutcome(sf, bw int) (res string) {
	defer func() {
		if recover() != nil {
			res = cq.Panic
		}
	}()
	return cq.Ok(cq.Z(int64(airtime.CalculateLoRaSymbolDuration(sf, bw))))
}

func airRow(s *cases.Set, sf, bw, pre, cr int, h, ld bool, kind string) {
	sd := airtime.CalculateLoRaSymbolDuration(sf, bw)
	pd := airtime.CalculateLoRaPreambleDuration(sd, pre)
	row := make([]int64, 256)
	for pl := 0; pl < 256; pl++ {
		d, err := airtime.CalculateLoRaAirtime(pl, sf, bw, pre, airtime.CodingRate(cr), h, ld)
		if err != nil {
			s.Fail(cases.GoFail{Key: fmt.Sprintf("airtime:error:sf=%d:bw=%d:pre=%d:cr=%d:h=%d:ldro=%d:pl=%d", sf, bw, pre, cr, b01(h), b01(ld), pl),
				What:   "CalculateLoRaAirtime returns an error inside the property's domain: " + err.Error(),
				Replay: map[string]interface{}{"api": "airtime.CalculateLoRaAirtime", "payload": pl, "sf": sf, "bandwidth_khz": bw, "preamble": pre, "cr": cr, "header": h, "ldro": ld}})
		}
		row[pl] = int64(d)
	}
	s.Add(cases.Case{Term: fmt.Sprintf("CAirRow %d%%Z %d%%Z %d%%Z %d%%Z %s %s %s %s %s", sf, bw, pre, cr, cq.Bool(h), cq.Bool(ld), cq.Z(int64(sd)), cq.Z(int64(pd)), zrow(row)),
		Key:  fmt.Sprintf("airtime:row:sf=%d:bw=%d:pre=%d:cr=%d:h=%d:ldro=%d:pl=0..255", sf, bw, pre, cr, b01(h), b01(ld)),
		Kind: kind, Nontrivial: true,
		Replay: map[string]interface{}{"api": "airtime.CalculateLoRaAirtime for payload sizes 0..255 (first offending payload size = code / 4)", "sf": sf, "bandwidth_khz": bw, "preamble": pre, "cr": cr, "header": h, "ldro": ld,
			"observed_symbol_duration_ns": int64(sd), "observed_preamble_ns": int64(pd), "observed_airtime_ns": row}})
}

func airtimeCases(s *cases.Set, r *cq.RNG, thorough bool) {
	// all symbol-count inputs of the domain: 8 SF x 4 CR x header x LDRO rows of 256 payload sizes
	for sf := 5; sf <= 12; sf++ {
		for cr := 1; cr <= 4; cr++ {
			for hl := 0; hl < 4; hl++ {
				h, ld := hl&1 == 1, hl&2 == 2
				row := make([]int64, 256)
				for pl := 0; pl < 256; pl++ {
					n, err := airtime.CalculateLoRaPayloadSymbolNumber(pl, sf, airtime.CodingRate(cr), h, ld)
					if err != nil {
						n = -1
					}
					row[pl] = int64(n)
				}
				s.Add(cases.Case{Term: fmt.Sprintf("CSymRow %d%%Z %d%%Z %s %s %s", sf, cr, cq.Bool(h), cq.Bool(ld), zrow(row)),
					Key:  fmt.Sprintf("airtime:symbols:sf=%d:cr=%d:h=%d:ldro=%d:pl=0..255", sf, cr, b01(h), b01(ld)),
					Kind: "airtime-symbols-row", Nontrivial: true,
					Replay: map[string]interface{}{"api": "airtime.CalculateLoRaPayloadSymbolNumber for payload sizes 0..255 (first offending payload size = code / 4)", "sf": sf, "cr": cr, "header": h, "ldro": ld, "observed": row}})
			}
		}
	}
	s.Exhaustive("airtime: all 32768 inputs (SF 5..12 x CR 1..4 x header x LDRO x payload 0..255) of CalculateLoRaPayloadSymbolNumber compared in Coq")

	// Go side, exhaustively over the property's whole domain (10,649,600 inputs): the result is the total symbol count
	// (preamble n + 4.25, n + 6.25 for SF5/SF6, plus the payload symbol number, which is compared in Coq for every input)
	// times 2^SF / BW truncated to whole ns, and never decreases with the payload size.
	nAll, nFail := 0, 0
	for sf := 5; sf <= 12; sf++ {
		for _, bw := range bandwidths {
			for pre := 0; pre <= 64; pre++ {
				for cr := 1; cr <= 4; cr++ {
					for hl := 0; hl < 4; hl++ {
						h, ld := hl&1 == 1, hl&2 == 2
						prev := time.Duration(-1)
						for pl := 0; pl < 256; pl++ {
							nAll++
							d, err := airtime.CalculateLoRaAirtime(pl, sf, bw, pre, airtime.CodingRate(cr), h, ld)
							n, err2 := airtime.CalculateLoRaPayloadSymbolNumber(pl, sf, airtime.CodingRate(cr), h, ld)
							s100 := int64(100*pre + 425 + 100*n)
							if sf <= 6 {
								s100 += 200
							}
							want := time.Duration(s100 * (int64(1) << uint(sf)) * 1000000 / (100 * int64(bw)))
							bad1 := err != nil || err2 != nil || d != want
							bad2 := d < prev
							if (bad1 || bad2) && nFail < 40 {
								nFail++
								rp := map[string]interface{}{"api": "airtime.CalculateLoRaAirtime", "payload": pl, "sf": sf, "bandwidth_khz": bw, "preamble": pre, "cr": cr, "header": h, "ldro": ld, "observed_ns": int64(d), "symbols_times_tsym_truncated_ns": int64(want)}
								k := fmt.Sprintf("sf=%d:bw=%d:pre=%d:cr=%d:h=%d:ldro=%d:pl=%d", sf, bw, pre, cr, b01(h), b01(ld), pl)
								if bad1 {
									s.Fail(cases.GoFail{Key: "airtime:total:" + k, What: "CalculateLoRaAirtime differs from (preamble + 4.25 | 6.25 + payload symbols) * 2^SF / BW truncated to ns", Replay: rp})
								}
								if bad2 {
									s.Fail(cases.GoFail{Key: "airtime:decreases:" + k, What: "airtime decreases when the payload grows by one byte", Replay: rp})
								}
							}
							prev = d
						}
					}
				}
			}
		}
	}
	s.Extra["airtime_go_side_domain_inputs"] = nAll
	s.Exhaustive("airtime: all 10,649,600 inputs of the domain on the Go side (result = total symbols * 2^SF / BW truncated to ns; non-decreasing in the payload size)")

	// full airtime rows evaluated in Coq against model and formula: thorough = the whole domain
	// (8 SF x 5 BW x 65 preambles x 4 CR x header x LDRO rows of 256 payload sizes = 10,649,600 inputs)
	for sf := 5; sf <= 12; sf++ {
		for _, bw := range bandwidths {
			if thorough {
				for pre := 0; pre <= 64; pre++ {
					for cr := 1; cr <= 4; cr++ {
						for hl := 0; hl < 4; hl++ {
							airRow(s, sf, bw, pre, cr, hl&1 == 1, hl&2 == 2, "airtime-row")
						}
					}
				}
			} else {
				for _, pre := range []int{8, r.Intn(65)} {
					airRow(s, sf, bw, pre, 1+r.Intn(4), r.Bool(), r.Bool(), "airtime-row")
				}
			}
		}
	}
	if thorough {
		s.Exhaustive("airtime: all 10,649,600 inputs of the domain evaluated in Coq against the model and the formula (thorough tier)")
	}
	// every preamble length once, and every symbol/preamble duration of the domain
	for pre := 0; pre <= 64; pre++ {
		airRow(s, 5+r.Intn(8), bandwidths[r.Intn(5)], pre, 1+r.Intn(4), r.Bool(), r.Bool(), "airtime-row-preamble-sweep")
	}
	// single calls, inside and outside the domain (other SF/bandwidth/payload, invalid CR, zero bandwidth)
	n := 150
	if thorough {
		n = 5000
	}
	for i := 0; i < n; i++ {
		sf := r.Intn(21)
		bw := []int{0, 7, 62, 125, 203, 250, 406, 500, 812, 1000, 1625, 1 + r.Intn(2000)}[r.Intn(12)]
		pl := r.Intn(5000)
		if i%2 == 0 {
			pl = r.Intn(256)
			sf = 5 + r.Intn(8)
		}
		pre := r.Intn(1000)
		if i%3 != 0 {
			pre = r.Intn(65)
		}
		cr := r.Intn(6)
		if i%4 != 0 {
			cr = 1 + r.Intn(4)
		}
		h, ld := r.Bool(), r.Bool()
		if sf == 0 { // denominator 4*SF = 0: float division by zero, not modelled
			sf++
		}
		o := airOutcome(func() (time.Duration, error) {
			return airtime.CalculateLoRaAirtime(pl, sf, bw, pre, airtime.CodingRate(cr), h, ld)
		})
		s.Add(cases.Case{Term: fmt.Sprintf("CAir %d%%Z %d%%Z %d%%Z %d%%Z %d%%Z %s %s %s %s", pl, sf, bw, pre, cr, cq.Bool(h), cq.Bool(ld), sdOutcome(sf, bw), o),
			Key:  fmt.Sprintf("airtime:single:sf=%d:bw=%d:pre=%d:cr=%d:h=%d:ldro=%d:pl=%d", sf, bw, pre, cr, b01(h), b01(ld), pl),
			Kind: "airtime-single-any", Nontrivial: true,
			Replay: map[string]interface{}{"api": "airtime.CalculateLoRaAirtime", "payload": pl, "sf": sf, "bandwidth_khz": bw, "preamble": pre, "cr": cr, "header": h, "ldro": ld, "observed": o}})
		if i%5 == 0 {
			n2, err := airtime.CalculateLoRaPayloadSymbolNumber(pl, sf, airtime.CodingRate(cr), h, ld)
			o2 := cq.Ok(cq.Z(int64(n2)))
			if err != nil {
				o2 = cq.Err
			}
			s.Add(cases.Case{Term: fmt.Sprintf("CSym %d%%Z %d%%Z %d%%Z %s %s %s", pl, sf, cr, cq.Bool(h), cq.Bool(ld), o2),
				Key:  fmt.Sprintf("airtime:symbols-single:sf=%d:cr=%d:h=%d:ldro=%d:pl=%d", sf, cr, b01(h), b01(ld), pl),
				Kind: "airtime-symbols-single-any", Nontrivial: true,
				Replay: map[string]interface{}{"api": "airtime.CalculateLoRaPayloadSymbolNumber", "payload": pl, "sf": sf, "cr": cr, "header": h, "ldro": ld, "observed": o2}})
		}
	}
}

// ---- EIRP ----------------------------------------------------------------------

func eirpIdxCase(s *cases.Set, p float32, kind string) {
	idx := lorawan.GetTXParamSetupEIRPIndex(p)
	v, err := lorawan.GetTXParamSetupEIRP(idx)
	ov := cq.Err
	if err == nil {
		ov = cq.Ok(f32q(v))
	}
	s.Add(cases.Case{Term: fmt.Sprintf("CEirpIdx %s %d %s", f32q(p), idx, ov),
		Key: fmt.Sprintf("eirp:index:power=%v:bits=%08x", p, math.Float32bits(p)), Kind: kind, Nontrivial: true,
		Replay: map[string]interface{}{"api": "GetTXParamSetupEIRPIndex -> GetTXParamSetupEIRP", "power_dbm": p, "float32_bits": fmt.Sprintf("%08x", math.Float32bits(p)), "observed_index": idx, "observed_value": ov}})
}

func eirpCases(s *cases.Set, r *cq.RNG, thorough bool) {
	for i := 0; i < 256; i++ {
		v, err := lorawan.GetTXParamSetupEIRP(uint8(i))
		o := cq.Err
		if err == nil {
			o = cq.Ok(f32q(v))
		}
		s.Add(cases.Case{Term: fmt.Sprintf("CEirpVal %d %s", i, o), Key: fmt.Sprintf("eirp:value:index=%d", i), Kind: "eirp-decode-all-256", Nontrivial: i < 17,
			Replay: map[string]interface{}{"api": "GetTXParamSetupEIRP", "index": i, "observed": o}})
	}
	s.Exhaustive("eirp: all 256 index bytes of GetTXParamSetupEIRP")
	spec := []float32{8, 10, 12, 13, 14, 16, 18, 20, 21, 24, 26, 27, 29, 30, 33, 36}
	for i, e := range spec {
		for _, p := range []float32{e, math.Nextafter32(e, -1000), math.Nextafter32(e, 1000), e - 0.5, e + 0.5, e + 0.999} {
			eirpIdxCase(s, p, "eirp-index-at-entry")
		}
		if i+1 < len(spec) {
			eirpIdxCase(s, (e+spec[i+1])/2, "eirp-index-between")
		}
	}
	for _, p := range []float32{7.999, 7, 0, -0, -5, -1e30, -math.MaxFloat32, math.SmallestNonzeroFloat32, 36.5, 40, 1e9, math.MaxFloat32} {
		eirpIdxCase(s, p, "eirp-index-edge")
	}
	n := 120
	if thorough {
		n = 6000
	}
	for i := 0; i < n; i++ {
		eirpIdxCase(s, float32(r.U64()%4400000)/100000.0-2, "eirp-index-random-(-2..42)")
		if f := math.Float32frombits(r.U32()); finite32(f) && math.Abs(float64(f)) < 1e30 && (f == 0 || math.Abs(float64(f)) > 1e-30) {
			eirpIdxCase(s, f, "eirp-index-random-bits")
		}
	}
	// outside the rational model: NaN and the infinities, observed only
	nan := float32(math.NaN())
	s.Extra["eirp_index_nan_posinf_neginf"] = []int{int(lorawan.GetTXParamSetupEIRPIndex(nan)),
		int(lorawan.GetTXParamSetupEIRPIndex(float32(math.Inf(1)))), int(lorawan.GetTXParamSetupEIRPIndex(float32(math.Inf(-1))))}
}

// ---- sensitivity ---------------------------------------------------------------

func sensCases(s *cases.Set, r *cq.RNG, thorough bool) {
	bws := []int{7800, 10400, 15600, 20800, 31250, 41700, 62500, 125000, 250000, 500000, 203125, 406250, 812500, 1625000, 1, 10, 1000, 100000, 1000000, 10000000}
	n := 30
	if thorough {
		n = 600
	}
	for i := 0; i < n; i++ {
		bws = append(bws, 1+r.Intn(3000000))
	}
	for _, bw := range bws {
		nf := float32(r.Intn(12))
		snr := float32(r.Intn(61)-40) / 2 // -20 .. 10 in halves: nf + snr is exact in float32
		tx := float32(r.Intn(41))
		v := sensitivity.CalculateSensitivity(bw, nf, snr)
		lb := sensitivity.CalculateLinkBudget(bw, nf, snr, tx)
		rp := map[string]interface{}{"api": "sensitivity.CalculateSensitivity / CalculateLinkBudget", "bandwidth_hz": bw, "noise_figure": nf, "snr": snr, "tx_power": tx, "observed_sensitivity": v, "observed_link_budget": lb}
		key := fmt.Sprintf("sensitivity:bw=%d:nf=%v:snr=%v", bw, nf, snr)
		if lb != tx-v {
			s.Fail(cases.GoFail{Key: "linkbudget:" + key, What: "CalculateLinkBudget differs from txPower - CalculateSensitivity", Replay: rp})
		}
		if !finite32(v) {
			s.Fail(cases.GoFail{Key: key, What: "CalculateSensitivity is not finite", Replay: rp})
			continue
		}
		s.Add(cases.Case{Term: fmt.Sprintf("CSens %d%%Z %s %s", bw, f32q(nf+snr), f32q(v)), Key: key, Kind: "sensitivity", Nontrivial: true, Replay: rp})
	}
}

// ---- process time zone ------------------------------------------------------------------
// The conversions must not depend on the zone of the process (time.Local).  The same binary is run as a child
// with TZ set; it reads probes on stdin and prints the raw answers.

func childMain() {
	in := bufio.NewScanner(os.Stdin)
	in.Buffer(make([]byte, 1<<20), 1<<20)
	out := bufio.NewWriter(os.Stdout)
	defer out.Flush()
	for in.Scan() {
		f := strings.Fields(in.Text())
		switch {
		case len(f) == 2 && f[0] == "D":
			d, _ := strconv.ParseInt(f[1], 10, 64)
			fmt.Fprintf(out, "%d\n", time.Time(gps.NewTimeFromTimeSinceGPSEpoch(time.Duration(d))).UnixNano())
		case len(f) == 3 && f[0] == "T":
			sec, _ := strconv.ParseInt(f[1], 10, 64)
			ns, _ := strconv.ParseInt(f[2], 10, 64)
			t := time.Unix(sec, ns) // located in the child's time.Local
			fmt.Fprintf(out, "%d %d\n", int64(gps.Time(t.UTC()).TimeSinceGPSEpoch()), int64(gps.Time(t).TimeSinceGPSEpoch()))
		}
	}
	_, off := time.Unix(1483250400, 0).Zone()
	fmt.Fprintf(out, "zone %s %d\n", time.Local.String(), off)
}

var childTZs = []string{"UTC", "Asia/Tokyo", "America/Los_Angeles", "Pacific/Kiritimati", "Etc/GMT+12", "Europe/Amsterdam"}

func processZoneCases(s *cases.Set, r *cq.RNG, thorough bool) {
	// probes: every leap step +- {0, 1 s, 1 h, 6 h, 9 h, 12 h, 14 h, 24 h} and +-1 ns, plus seeded random instants
	var durs []time.Duration
	var insts []time.Time
	hours := []time.Duration{0, time.Second, time.Hour, 6 * time.Hour, 9 * time.Hour, 12 * time.Hour, 14 * time.Hour, 24 * time.Hour}
	for i, st := range steps() {
		S := time.Unix(st, 0).UTC()
		G := time.Duration((st-gpsEpoch.Unix())+int64(i)+1) * time.Second // GPS duration at UTC S (after the inserted second)
		for _, h := range hours {
			for _, sg := range []time.Duration{-1, 1} {
				if h == 0 && sg == 1 {
					continue
				}
				for _, e := range []time.Duration{-1, 0, 1} {
					durs = append(durs, G+sg*h+e)
					insts = append(insts, S.Add(sg*h+e))
				}
			}
		}
	}
	n := 300
	if thorough {
		n = 5000
	}
	lo := gpsEpoch.Unix()
	hi := time.Date(2101, 1, 1, 0, 0, 0, 0, time.UTC).Unix()
	for i := 0; i < n; i++ {
		durs = append(durs, time.Duration(r.U64()%uint64(hi-lo))*time.Second+time.Duration(r.U64()%1000000000))
		insts = append(insts, time.Unix(lo+int64(r.U64()%uint64(hi-lo)), int64(r.U64()%1000000000)).UTC())
	}
	// this process: answers are compared with the model in Coq (ordinary cases) ...
	var input bytes.Buffer
	wantD := make([]int64, len(durs))
	wantT := make([]int64, len(insts))
	for i, d := range durs {
		wantD[i] = time.Time(gps.NewTimeFromTimeSinceGPSEpoch(d)).UnixNano()
		fmt.Fprintf(&input, "D %d\n", int64(d))
		if i < 18*45 {
			durCase(s, d, "gps-dur-leap-step-hours")
		}
	}
	for i, t := range insts {
		wantT[i] = int64(gps.Time(t).TimeSinceGPSEpoch())
		fmt.Fprintf(&input, "T %d %d\n", t.Unix(), t.Nanosecond())
		if i < 18*45 {
			utcCase(s, t.In(zones()[r.Intn(len(zones()))]), "gps-utc-leap-step-hours", false)
		}
	}
	// ... and every child process must give the same answers
	exe, err := os.Executable()
	zonesSeen := map[string]string{}
	for _, tz := range childTZs {
		fails := 0
		bad := func(probe, what string, rp map[string]interface{}) {
			if fails < 12 {
				fails++
				rp["api"] = "gps conversions in a process with TZ=" + tz
				rp["how"] = "TZ=" + tz + " <harness> --child, probes on stdin (D <ns> | T <unix s> <ns>)"
				s.Fail(cases.GoFail{Key: "process-timezone:" + tz + ":" + probe, What: what, Replay: rp})
			}
		}
		var outb []byte
		if err == nil {
			cmd := exec.Command(exe, "--child")
			cmd.Env = append(os.Environ(), "TZ="+tz)
			cmd.Stdin = bytes.NewReader(input.Bytes())
			outb, err = cmd.Output()
		}
		lines := strings.Split(strings.TrimSpace(string(outb)), "\n")
		if err != nil || len(lines) != len(durs)+len(insts)+1 {
			bad("child-failed", fmt.Sprintf("child process with TZ=%s did not answer all probes: %v", tz, err), map[string]interface{}{"lines": len(lines)})
			err = nil
			continue
		}
		zonesSeen[tz] = lines[len(lines)-1]
		for i, d := range durs {
			got, _ := strconv.ParseInt(lines[i], 10, 64)
			if got != wantD[i] {
				bad(fmt.Sprintf("gps-duration=%d", int64(d)), fmt.Sprintf("NewTimeFromTimeSinceGPSEpoch(%d ns) depends on the time zone of the process: %s with TZ=%s, %s here", int64(d),
					time.Unix(0, got).UTC().Format(time.RFC3339Nano), tz, time.Unix(0, wantD[i]).UTC().Format(time.RFC3339Nano)),
					map[string]interface{}{"since_gps_epoch_ns": int64(d), "observed_unix_ns_in_child": got, "observed_unix_ns_here": wantD[i]})
			}
		}
		for i, t := range insts {
			f := strings.Fields(lines[len(durs)+i])
			for k, pres := range []string{"utc-presented", "local-presented"} {
				got := int64(-1)
				if k < len(f) {
					got, _ = strconv.ParseInt(f[k], 10, 64)
				}
				if got != wantT[i] {
					bad(fmt.Sprintf("utc=%s:%s", t.Format(time.RFC3339Nano), pres), fmt.Sprintf("TimeSinceGPSEpoch(%s) depends on the time zone of the process: %d ns with TZ=%s (%s), %d ns here", t.Format(time.RFC3339Nano), got, tz, pres, wantT[i]),
						map[string]interface{}{"utc": t.Format(time.RFC3339Nano), "observed_ns_in_child": got, "observed_ns_here": wantT[i]})
				}
			}
		}
	}
	s.Extra["process_timezone_probes"] = len(durs) + len(insts)
	s.Extra["process_timezone_children"] = zonesSeen
	here, off := time.Now().Zone()
	s.Extra["process_timezone_of_this_run"] = fmt.Sprintf("%s %s(%+ds)", time.Local.String(), here, off)
	s.Exhaustive("gps process zone: every leap step +- {0, 1 s, 1 h, 6 h, 9 h, 12 h, 14 h, 24 h} +- 1 ns in both directions plus random instants, answered by child processes with TZ=UTC, Asia/Tokyo, America/Los_Angeles, Pacific/Kiritimati, Etc/GMT+12, Europe/Amsterdam and compared with this process (whose answers are compared with the model)")
}

func main() {
	if len(os.Args) > 1 && os.Args[1] == "--child" {
		childMain()
		return
	}
	dir, seed, thorough := cases.Args()
	r := cq.NewRNG(seed)
	s := cases.New("C20", dir, "LW.Corr.C20",
		"GPS: UTC instants / GPS durations / pairs, dense around each published leap second and random over 1980..2100 at ns resolution, each instant presented in a seeded-random Location (UTC, fixed zones -14h,-12h,-5h,-1s,+1s,+1h,+5:30,+12:45,+14h, time.Local, and the DST zones Europe/Amsterdam, America/New_York, Australia/Lord_Howe, Africa/Casablanca) and densely around each leap step +- the zone offset and through the DST transitions of those zones, the same probes answered by child processes under other TZ settings, in deliberate and seeded-random call orders; airtime: rows of 256 payload sizes per parameter set (symbol counts exhaustive), single calls incl. out-of-domain; EIRP: all 256 indices, powers at/next to/between table entries and random float32; sensitivity samples. Every case is non-trivial except EIRP indices > 16 (all rejected alike); distinct = distinct printed case")
	gpsCases(s, r.Fork(), thorough)
	airtimeCases(s, r.Fork(), thorough)
	eirpCases(s, r.Fork(), thorough)
	sensCases(s, r.Fork(), thorough)
	historyCases(s, r.Fork(), thorough)
	processZoneCases(s, r.Fork(), thorough)
	if err := s.Finish(); err != nil {
		fmt.Fprintln(os.Stderr, err)
		os.Exit(2)
	}
}
