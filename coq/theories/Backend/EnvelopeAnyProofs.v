(* Key envelopes under 16-, 24- and 32-byte KEKs (KeyEnvelopeAny.v): without label the key is
   carried in clear; with a label and an accepted KEK the key is wrapped and unwraps to itself;
   every other KEK length is an error on both sides; unwrapping (>= 16 bytes of data) succeeds
   exactly when the RFC 3394 integrity check passes and never panics; accepted data is a genuine
   wrap; for 16-byte KEKs the functions are those of KeyEnvelope.v. *)
From Coq Require Import List NArith Bool Lia PeanoNat.
From LW Require Import Base.Outcome Base.Bytes Crypto.AES Crypto.AESInv Crypto.AESAny Crypto.AESAnyProofs
  Crypto.KeyWrap Crypto.KeyWrapProofs Crypto.KeyWrapAny Crypto.KeyWrapAnyProofs
  Backend.KeyEnvelope Backend.EnvelopeProofs Backend.KeyEnvelopeAny.
Import ListNotations.
Open Scope N_scope.

Local Opaque wrap_rk unwrap_raw_rk expand_nk expand_key.

Lemma key_len_ok_iff kek : key_len_ok kek <-> kek_len_ok kek = true.
Proof.
  unfold key_len_ok, kek_len_ok. rewrite !orb_true_iff, !Nat.eqb_eq. tauto.
Qed.

Lemma key_len_ok_nonempty kek : key_len_ok kek -> kek <> [].
Proof. intros [H|[H|H]] ->; discriminate H. Qed.

(* ---- without a label (or without a KEK): the key in clear, no label ---- *)
Theorem no_label_clear_any label kek key :
  label = [] \/ kek = [] -> new_key_envelope_any label kek key = Ok ([], key).
Proof.
  intros [-> | ->]; unfold new_key_envelope_any; cbn [is_nil orb]; [reflexivity|].
  now rewrite orb_true_r.
Qed.

Lemma labelled_any label kek key : label <> [] -> kek <> [] ->
  new_key_envelope_any label kek key =
  match wrap_any kek key with Some w => Ok (label, w) | None => Err end.
Proof.
  intros Hl Hk. unfold new_key_envelope_any.
  destruct label as [|a l]; [congruence|]. destruct kek as [|b k]; [congruence|]. reflexivity.
Qed.

(* ---- wrapped with the KEK, unwraps to the same key with that KEK ---- *)
Theorem envelope_unwrap_wrap_any label kek key :
  label <> [] -> key_len_ok kek -> Forall byte kek -> length key = 16%nat -> Forall byte key ->
  exists w, new_key_envelope_any label kek key = Ok (label, w) /\ length w = 24%nat /\
            envelope_unwrap_any w kek = Ok key.
Proof.
  intros Hl Hok Hkb Hlen Hb.
  destruct (unwrap_wrap_any kek key 2 Hok Hkb Hb Hlen) as (w & Hw & Hu & Lw & _).
  exists w. rewrite (labelled_any label kek key Hl (key_len_ok_nonempty kek Hok)), Hw.
  split; [reflexivity|]. split; [lia|].
  apply unwrap_any_ok_iff_iv in Hu. unfold unwrap_raw_any in Hu. unfold envelope_unwrap_any.
  destruct (expand_key_any kek) as [rks|]; [|discriminate Hu].
  replace (length w) with 24%nat by lia. cbn [Nat.ltb Nat.leb].
  inversion Hu as [Hr]. rewrite Hr.
  replace (bytes_eqb default_iv default_iv) with true by reflexivity.
  now rewrite copy16_id.
Qed.

(* ---- a KEK crypto/aes refuses: error from both functions ---- *)
Theorem envelope_bad_kek label kek key d : label <> [] -> kek <> [] -> ~ key_len_ok kek ->
  new_key_envelope_any label kek key = Err /\ envelope_unwrap_any d kek = Err.
Proof.
  intros Hl Hk Hbad. rewrite (labelled_any label kek key Hl Hk).
  destruct (any_key_size_error kek key Hbad) as [W _]. rewrite W. split; [reflexivity|].
  unfold envelope_unwrap_any. apply expand_key_any_none_iff in Hbad. now rewrite Hbad.
Qed.

(* ---- unwrapping succeeds exactly when the RFC 3394 integrity check passes ---- *)
Theorem envelope_unwrap_any_ok_iff_iv d kek :
  key_len_ok kek -> (16 <= length d)%nat ->
  exists iv plain, unwrap_raw_any kek d = Some (iv, plain) /\
    (forall k, envelope_unwrap_any d kek = Ok k <-> iv = default_iv /\ k = copy16 plain) /\
    (envelope_unwrap_any d kek = Err <-> iv <> default_iv) /\
    envelope_unwrap_any d kek <> Panic.
Proof.
  intros Hok Hd. unfold envelope_unwrap_any, unwrap_raw_any.
  apply expand_key_any_some_iff in Hok. destruct Hok as [rks Hr]. rewrite Hr.
  replace (length d <? 8)%nat with false by (symmetry; apply Nat.ltb_ge; lia).
  replace (length d <? 16)%nat with false by (symmetry; apply Nat.ltb_ge; lia).
  destruct (unwrap_raw_rk rks d) as [iv plain]. exists iv, plain. split; [reflexivity|].
  destruct (bytes_eqb iv default_iv) eqn:E.
  - apply bytes_eqb_eq in E. subst iv. split; [|split].
    + intros k. split.
      * intros H. inversion H. split; reflexivity.
      * intros [_ Hk2]. rewrite Hk2. reflexivity.
    + split; [discriminate|]. intros H. exfalso. apply H. reflexivity.
    + discriminate.
  - assert (Hne : iv <> default_iv).
    { intros ->. assert (T : bytes_eqb default_iv default_iv = true) by reflexivity. congruence. }
    split; [|split].
    + intros k. split; [discriminate|]. intros [Hc _]. contradiction.
    + split; [intros _; exact Hne|reflexivity].
    + discriminate.
Qed.

(* in terms of [unwrap_any]: Ok exactly when the RFC 3394 unwrap succeeds *)
Theorem envelope_unwrap_any_ok_iff d kek k :
  key_len_ok kek -> (16 <= length d)%nat ->
  (envelope_unwrap_any d kek = Ok k <-> exists p, unwrap_any kek d = Some p /\ k = copy16 p).
Proof.
  intros Hok Hd.
  destruct (envelope_unwrap_any_ok_iff_iv d kek Hok Hd) as (iv & plain & Hr & Hk & _).
  rewrite Hk. split.
  - intros [-> ->]. exists plain. split; [|reflexivity]. now apply unwrap_any_ok_iff_iv.
  - intros (p & Hu & ->). apply unwrap_any_ok_iff_iv in Hu. rewrite Hr in Hu.
    inversion Hu; subst. split; reflexivity.
Qed.

(* ---- only genuine wraps are accepted ---- *)
Theorem envelope_unwrap_any_only_wrapped d kek k n :
  key_len_ok kek -> Forall byte kek -> Forall byte d ->
  length d = (8 * (n + 1))%nat -> (1 <= n)%nat ->
  envelope_unwrap_any d kek = Ok k -> exists p, k = copy16 p /\ wrap_any kek p = Some d.
Proof.
  intros Hok Hkb Hdb Hd Hn H.
  apply (envelope_unwrap_any_ok_iff d kek k Hok ltac:(lia)) in H.
  destruct H as (p & Hu & ->). exists p. split; [reflexivity|].
  exact (wrap_unwrap_any kek d p n Hkb Hdb Hd Hu).
Qed.

(* ---- the form used by the case checker ---- *)
Theorem envelope_unwrap_any_from_raw d kek :
  envelope_unwrap_any d kek = envelope_unwrap_from_raw d (unwrap_raw_any kek d).
Proof.
  unfold envelope_unwrap_any, envelope_unwrap_from_raw, unwrap_raw_any.
  destruct (expand_key_any kek) as [rks|]; [|reflexivity].
  destruct (unwrap_raw_rk rks d) as [iv plain]. reflexivity.
Qed.

(* ---- 16-byte KEKs: the AES-128 model of KeyEnvelope.v ---- *)
Theorem envelope_any_128 kek : length kek = 16%nat ->
  (forall label key, new_key_envelope_any label kek key = new_key_envelope label kek key) /\
  (forall d, envelope_unwrap_any d kek = envelope_unwrap d kek).
Proof.
  intros Hk. split.
  - intros label key. unfold new_key_envelope_any, new_key_envelope, new_key_envelope_with.
    rewrite (wrap_any_128 kek key Hk), (kek16_ok kek Hk). reflexivity.
  - intros d. unfold envelope_unwrap_any, envelope_unwrap, envelope_unwrap_with, unwrap_raw.
    rewrite (expand_key_any_128 kek Hk), (kek16_ok kek Hk). reflexivity.
Qed.
