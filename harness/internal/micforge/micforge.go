// Package micforge constructs messages whose AES-CMAC (RFC 4493) starts with chosen bytes. With a
// known key CMAC is invertible in its last block: for a message whose length is a multiple of 16,
// tag = AES_K(C xor M_n xor K1) with C the CBC-MAC state after the earlier blocks, so
// M_n = AES^-1_K(tag) xor C xor K1. Used by the harnesses to build frames whose *correct* MIC is a
// special value (00000000, ffffffff, ...), which random inputs never produce. Only crypto/aes is used;
// the CMAC here is an independent implementation (not jacobsa, not the model).
package micforge

import (
	"crypto/aes"
	"crypto/cipher"
)

func dbl(in [16]byte) (out [16]byte) {
	carry := in[0] >> 7
	for i := 0; i < 15; i++ {
		out[i] = in[i]<<1 | in[i+1]>>7
	}
	out[15] = in[15] << 1
	if carry == 1 {
		out[15] ^= 0x87
	}
	return
}

// Ctx holds the cipher and the RFC 4493 subkeys of one key.
type Ctx struct {
	blk    cipher.Block
	K1, K2 [16]byte
}

func New(key [16]byte) *Ctx {
	blk, err := aes.NewCipher(key[:])
	if err != nil {
		panic(err)
	}
	var l [16]byte
	blk.Encrypt(l[:], l[:])
	c := &Ctx{blk: blk}
	c.K1 = dbl(l)
	c.K2 = dbl(c.K1)
	return c
}

// State is the CBC-MAC state after the complete blocks of msg (len(msg) must be a multiple of 16).
func (c *Ctx) State(msg []byte) (x [16]byte) {
	for i := 0; i+16 <= len(msg); i += 16 {
		for j := 0; j < 16; j++ {
			x[j] ^= msg[i+j]
		}
		c.blk.Encrypt(x[:], x[:])
	}
	return
}

// Tag of state | last complete block.
func (c *Ctx) TagAligned(state, last [16]byte) (t [16]byte) {
	for j := 0; j < 16; j++ {
		t[j] = state[j] ^ last[j] ^ c.K1[j]
	}
	c.blk.Encrypt(t[:], t[:])
	return
}

// LastBlock returns the final 16-byte block that makes the tag of (blocks with CBC state `state`) | block equal to tag.
func (c *Ctx) LastBlock(state, tag [16]byte) (m [16]byte) {
	var d [16]byte
	c.blk.Decrypt(d[:], tag[:])
	for j := 0; j < 16; j++ {
		m[j] = d[j] ^ state[j] ^ c.K1[j]
	}
	return
}

// PaddedBlock returns the content X of a final *incomplete* block position such that AES_K(state xor X xor K2) = tag;
// the caller checks that X has the form data | 0x80 | 0x00... for the data length it needs.
func (c *Ctx) PaddedBlock(state, tag [16]byte) (x [16]byte) {
	var d [16]byte
	c.blk.Decrypt(d[:], tag[:])
	for j := 0; j < 16; j++ {
		x[j] = d[j] ^ state[j] ^ c.K2[j]
	}
	return
}

// CMAC of an arbitrary message (reference for self-checks).
func (c *Ctx) CMAC(msg []byte) (t [16]byte) {
	n := len(msg)
	if n > 0 && n%16 == 0 {
		var last [16]byte
		copy(last[:], msg[n-16:])
		return c.TagAligned(c.State(msg[:n-16]), last)
	}
	full := n / 16 * 16
	st := c.State(msg[:full])
	var last [16]byte
	copy(last[:], msg[full:])
	last[n-full] = 0x80
	for j := 0; j < 16; j++ {
		t[j] = st[j] ^ last[j] ^ c.K2[j]
	}
	c.blk.Encrypt(t[:], t[:])
	return
}

// DataParams are the inputs of the LoRaWAN data-frame MIC besides the message (LoRaWAN 1.1 section 4.4).
type DataParams struct {
	Uplink  bool
	V11     bool // LoRaWAN 1.1 composition (else 1.0)
	ACK     bool // ACK bit of the frame: ConfFCnt is only used with it (and only in 1.1)
	Conf    uint32
	TxDR    uint8
	TxCh    uint8
	FKey    [16]byte // FNwkSIntKey / NwkSKey (uplink)
	SKey    [16]byte // SNwkSIntKey (downlink; cmacS half of a 1.1 uplink)
	DevAddr [4]byte  // most significant byte first
	FCnt    uint32
}

func (d DataParams) block(first [5]byte, dir byte, msgLen int) []byte {
	x := make([]byte, 16)
	copy(x, first[:])
	x[5] = dir
	for i := 0; i < 4; i++ {
		x[6+i] = d.DevAddr[3-i]
	}
	x[10], x[11], x[12], x[13] = byte(d.FCnt), byte(d.FCnt>>8), byte(d.FCnt>>16), byte(d.FCnt>>24)
	x[15] = byte(msgLen)
	return x
}

// ForgeData returns the last 16 bytes of msg (MHDR | FHDR | FPort | FRMPayload, 16 + len(msg) a multiple of 16) that
// make the data-frame MIC equal to want; head = msg without its last 16 bytes. 1.0 and downlink: direct. 1.1 uplink
// (cmacS[0:2] | cmacF[0:2]): cmacS by inversion, free tag bytes varied until cmacF fits (about 2^16 trials).
func ForgeData(d DataParams, head []byte, want [4]byte, rnd func() uint64) (last [16]byte, ok bool) {
	msgLen := len(head) + 16
	c16 := uint16(0)
	if d.ACK && d.V11 {
		c16 = uint16(d.Conf)
	}
	var tag [16]byte
	copy(tag[:4], want[:])
	fill := func(t *[16]byte, from int) {
		for i := from; i < 16; i += 8 {
			x := rnd()
			for j := 0; j < 8 && i+j < 16; j++ {
				t[i+j] = byte(x >> (8 * uint(j)))
			}
		}
	}
	switch {
	case !d.Uplink:
		fill(&tag, 4)
		c := New(d.SKey)
		return c.LastBlock(c.State(append(d.block([5]byte{0x49, byte(c16), byte(c16 >> 8)}, 1, msgLen), head...)), tag), true
	case !d.V11:
		fill(&tag, 4)
		c := New(d.FKey)
		return c.LastBlock(c.State(append(d.block([5]byte{0x49}, 0, msgLen), head...)), tag), true
	}
	cs, cf := New(d.SKey), New(d.FKey)
	ss := cs.State(append(d.block([5]byte{0x49, byte(c16), byte(c16 >> 8), d.TxDR, d.TxCh}, 0, msgLen), head...))
	sf := cf.State(append(d.block([5]byte{0x49}, 0, msgLen), head...))
	for i := 0; i < 4000000; i++ {
		fill(&tag, 2)
		tag[0], tag[1] = want[0], want[1]
		last = cs.LastBlock(ss, tag)
		t := cf.TagAligned(sf, last)
		if t[0] == want[2] && t[1] == want[3] {
			return last, true
		}
	}
	return last, false
}

// DataMIC is the LoRaWAN data-frame MIC of msg = MHDR | FHDR | FPort | FRMPayload exactly as given (the octets as
// transmitted), written from LoRaWAN 1.1 section 4.4 / 1.0.x section 4.4 with this package's own CMAC.
func DataMIC(d DataParams, msg []byte) (mic [4]byte) {
	c16 := uint16(0)
	if d.ACK && d.V11 {
		c16 = uint16(d.Conf)
	}
	switch {
	case !d.Uplink:
		t := New(d.SKey).CMAC(append(d.block([5]byte{0x49, byte(c16), byte(c16 >> 8)}, 1, len(msg)), msg...))
		copy(mic[:], t[:4])
	case !d.V11:
		t := New(d.FKey).CMAC(append(d.block([5]byte{0x49}, 0, len(msg)), msg...))
		copy(mic[:], t[:4])
	default:
		ts := New(d.SKey).CMAC(append(d.block([5]byte{0x49, byte(c16), byte(c16 >> 8), d.TxDR, d.TxCh}, 0, len(msg)), msg...))
		tf := New(d.FKey).CMAC(append(d.block([5]byte{0x49}, 0, len(msg)), msg...))
		mic[0], mic[1], mic[2], mic[3] = ts[0], ts[1], tf[0], tf[1]
	}
	return
}
