(* The floats that Frequency / Percentage MarshalJSON print are finite (for 0 <= x < 2^32), so the
   premise about the decimal text of finite floats (PayloadProofs.codec_ok) applies to them.
   Same Flocq bridge as F64Proofs.v. *)
From Coq Require Import ZArith Reals Floats Lra Lia Bool.
From Flocq Require Import Core IEEE754.Binary IEEE754.PrimFloat IEEE754.BinarySingleNaN.
From LW Require Import Backend.F64 Backend.F64Proofs.
Open Scope R_scope.

Lemma scale_div_finite (c : PrimFloat.float) (C : R) (f : Z) :
  finite c = true -> toR c = C -> 1 <= C <= 1048576 -> (0 <= f < 4294967296)%Z ->
  finite (PrimFloat.div (f_of_Z f) c) = true.
Proof.
  intros Fc Ec HC Hf.
  destruct (of_Z_R f ltac:(lia)) as [E0 F0].
  assert (HfR : 0 <= IZR f <= 4294967295).
  { split; apply IZR_le; lia. }
  assert (Hinv : 0 < / C <= 1).
  { split; [apply Rinv_0_lt_compat; lra|]. rewrite <- Rinv_1. apply Rinv_le_contravar; lra. }
  assert (Hq0 : 0 <= IZR f / C <= 4294967295).
  { unfold Rdiv. split; [apply Rmult_le_pos; lra|]. nra. }
  destruct (div_R (f_of_Z f) c F0 Fc) as [_ F1]; [| |exact F1].
  - rewrite Ec. lra.
  - rewrite E0, Ec. apply small_le_bpow1000. rewrite Rabs_pos_eq by lra. lra.
Qed.

Theorem freq_marshal_finite f : (0 <= f < 4294967296)%Z -> finite (freq_marshal f) = true.
Proof.
  intros Hf. unfold freq_marshal. destruct toR_1e6 as [E F].
  apply (scale_div_finite f_1e6 1000000 f F E); [lra|exact Hf].
Qed.

Theorem pct_marshal_finite p : (0 <= p < 4294967296)%Z -> finite (pct_marshal p) = true.
Proof.
  intros Hp. unfold pct_marshal. destruct toR_100 as [E F].
  apply (scale_div_finite f_100 100 p F E); [lra|exact Hp].
Qed.
