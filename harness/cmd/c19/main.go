// Correspondence harness for C19 (fragmentation.Encode).  Every call runs
// under recover(); a panic is the observation `Panic`.  The decoder used for
// the erasure cases is written here from TS004 (own PRBS / matrix line,
// Gaussian elimination over GF(2)); it shares no code with the encoder.
package main

import (
	"bytes"
	"fmt"
	"os"
	"os/exec"
	"runtime"
	"strconv"
	"strings"
	"time"

	fr "github.com/brocaar/lorawan/applayer/fragmentation"
	"verifharness/internal/cases"
	"verifharness/internal/cq"
)

// ---- TS004, independent transcription ------------------------------------

// x <- floor(x/2) + ((bit0 xor bit5) * 2^22): an addition, as in the specification's
// pseudo-code. The start value 1 + 1001*N is not reduced to 23 bits, so for N >= 8381 bit 22 of
// floor(x/2) can already be set and the sum carries (an OR would not).
func tsPrbs23(x uint64) uint64 {
	b0 := x & 1
	b1 := (x / 32) & 1
	return x/2 + (b0^b1)*(1<<22)
}

func tsPow2(m int) bool {
	for m > 1 && m%2 == 0 {
		m /= 2
	}
	return m == 1
}

// tsLine returns the set of columns of parity line n (>= 1) for m columns.
func tsLine(n, m int) []bool {
	line := make([]bool, m)
	mod := m
	if tsPow2(m) {
		mod = m + 1
	}
	x := uint64(1 + 1001*n)
	for c := 0; c < m/2; c++ {
		r := 1 << 16
		for guard := 0; r >= m; guard++ {
			if guard > 10000 {
				panic("tsLine: no column drawn")
			}
			x = tsPrbs23(x)
			r = int(x % uint64(mod))
		}
		line[r] = true
	}
	return line
}

// tsRow: selection vector of coded fragment idx (0-based) for m uncoded fragments
func tsRow(idx, m int) []bool {
	if idx < m {
		row := make([]bool, m)
		row[idx] = true
		return row
	}
	return tsLine(idx-m+1, m)
}

// decode recovers the m uncoded fragments from the received ones by Gaussian
// elimination; nil when the selection vectors do not have full rank.
func decode(kept []int, frags [][]byte, m, size int) []byte {
	type eq struct {
		a []bool
		b []byte
	}
	var eqs []eq
	for _, k := range kept {
		eqs = append(eqs, eq{tsRow(k, m), append([]byte{}, frags[k]...)})
	}
	used := make([]bool, len(eqs))
	pivotOf := make([]int, m)
	for col := 0; col < m; col++ {
		p := -1
		for i := range eqs {
			if !used[i] && eqs[i].a[col] {
				p = i
				break
			}
		}
		if p < 0 {
			return nil
		}
		used[p] = true
		pivotOf[col] = p
		for i := range eqs {
			if i != p && eqs[i].a[col] {
				for j := range eqs[i].a {
					eqs[i].a[j] = eqs[i].a[j] != eqs[p].a[j]
				}
				for j := range eqs[i].b {
					eqs[i].b[j] ^= eqs[p].b[j]
				}
			}
		}
	}
	out := make([]byte, 0, m*size)
	for col := 0; col < m; col++ {
		out = append(out, eqs[pivotOf[col]].b...)
	}
	return out
}

// ---- cases -----------------------------------------------------------------

func rowsTerm(rows [][]byte) string {
	s := make([]string, len(rows))
	for i, r := range rows {
		s[i] = cq.Bytes(r)
	}
	return cq.List(s)
}

func encodeObs(data []byte, size, red int) (string, [][]byte, string) {
	var out [][]byte
	var err error
	var msg string
	pan := false
	func() {
		cases.Begin(fmt.Sprintf("fragmentation.Encode:len=%d:size=%d:red=%d", len(data), size, red),
			map[string]interface{}{"api": "fragmentation.Encode", "data": fmt.Sprintf("%x", data), "fragmentSize": size, "redundancy": red})
		defer cases.End()
		defer func() {
			if r := recover(); r != nil {
				pan = true
				msg = fmt.Sprint(r)
			}
		}()
		out, err = fr.Encode(data, size, red)
	}()
	switch {
	case pan:
		return cq.Panic, nil, "panic: " + msg
	case err != nil:
		return cq.Err, nil, "error: " + err.Error()
	}
	return cq.Ok(rowsTerm(out)), out, ""
}

// encodeRaw is the call alone (own recover, no harness state): used by the replays, also concurrently
func encodeRaw(data []byte, size, red int) (o string) {
	defer func() {
		if recover() != nil {
			o = cq.Panic
		}
	}()
	out, err := fr.Encode(data, size, red)
	if err != nil {
		return cq.Err
	}
	return cq.Ok(rowsTerm(out))
}

func hexShort(b []byte) string {
	if len(b) > 24 {
		return fmt.Sprintf("%x..(%d bytes)", b[:24], len(b))
	}
	return fmt.Sprintf("%x", b)
}

func encodeCase(s *cases.Set, data []byte, size, red int, kind, dataName string) {
	o, _, note := encodeObs(append([]byte{}, data...), size, red)
	rp := map[string]interface{}{"api": "fragmentation.Encode(data, fragmentSize, redundancy)", "data": fmt.Sprintf("%x", data), "fragmentSize": size, "redundancy": red}
	if note != "" {
		rp["observed"] = note
	}
	key := fmt.Sprintf("encode:len=%d:size=%d:red=%d:data=%s", len(data), size, red, dataName)
	s.Add(cases.Case{Term: fmt.Sprintf("CEncode %s %s %s %s", cq.Bytes(data), cq.Z(int64(size)), cq.Z(int64(red)), o),
		Key: key, Kind: kind, Nontrivial: true, Replay: rp})
	keep := append([]byte{}, data...)
	s.Remember(key, o, rp, func() string { return encodeRaw(append([]byte{}, keep...), size, red) })
	// large jobs explicitly with 1, 2 and 4 processors: the result must be the model-compared one
	if size > 0 && len(data)*red >= 20000 {
		for _, p := range []int{1, 2, 4} {
			old := runtime.GOMAXPROCS(p)
			cases.Begin(fmt.Sprintf("fragmentation.Encode under GOMAXPROCS=%d:%s", p, key), rp)
			op := encodeRaw(append([]byte{}, keep...), size, red)
			cases.End()
			runtime.GOMAXPROCS(old)
			procRuns++
			if op != o {
				rp2 := map[string]interface{}{"api": "runtime.GOMAXPROCS(p); fragmentation.Encode(data, fragmentSize, redundancy)", "gomaxprocs": p,
					"data": fmt.Sprintf("%x", data), "fragmentSize": size, "redundancy": red}
				s.Fail(cases.GoFail{Key: fmt.Sprintf("gomaxprocs=%d:%s", p, key), What: fmt.Sprintf("fragmentation.Encode returns other fragments with GOMAXPROCS=%d than with the default", p), Replay: rp2})
				// and let the model / the specification judge that observation
				s.Add(cases.Case{Term: fmt.Sprintf("CEncode %s %s %s %s", cq.Bytes(data), cq.Z(int64(size)), cq.Z(int64(red)), op),
					Key: fmt.Sprintf("%s:gomaxprocs=%d", key, p), Kind: "gomaxprocs", Nontrivial: true, Replay: rp2})
				break
			}
		}
	}
}

var procRuns int

func recoverCase(s *cases.Set, r *cq.RNG, m, size, red int, nKeep int, kind string) {
	data := r.Bytes(m * size)
	o, frags, _ := encodeObs(append([]byte{}, data...), size, red)
	total := m + red
	perm := make([]int, total)
	for i := range perm {
		perm[i] = i
	}
	for i := total - 1; i > 0; i-- {
		j := r.Intn(i + 1)
		perm[i], perm[j] = perm[j], perm[i]
	}
	if nKeep > total {
		nKeep = total
	}
	kept := perm[:nKeep]
	dec := cq.None
	var got []byte
	if frags != nil && len(frags) == total {
		got = decode(kept, frags, m, size)
		if got != nil {
			dec = cq.Some(cq.Bytes(got))
		}
	}
	ks := make([]string, len(kept))
	for i, k := range kept {
		ks[i] = fmt.Sprintf("%d%%nat", k)
	}
	s.Add(cases.Case{Term: fmt.Sprintf("CRecover %s %s %s %s %s %s", cq.Bytes(data), cq.Z(int64(size)), cq.Z(int64(red)), o, cq.List(ks), dec),
		Key:  fmt.Sprintf("recover:frags=%d:size=%d:red=%d:kept=%v:data=%s", m, size, red, kept, hexShort(data)),
		Kind: kind, Nontrivial: true,
		Replay: map[string]interface{}{"api": "fragmentation.Encode + independent GF(2) decoder", "data": fmt.Sprintf("%x", data), "fragmentSize": size, "redundancy": red, "received_fragment_indices": kept,
			"decoded": fmt.Sprintf("%x", got)}})
}

func cloneRows(rows [][]byte) [][]byte {
	out := make([][]byte, len(rows))
	for i, r := range rows {
		out[i] = append([]byte{}, r...)
	}
	return out
}

func rowsEqual(a, b [][]byte) bool {
	if len(a) != len(b) {
		return false
	}
	for i := range a {
		if !bytes.Equal(a[i], b[i]) {
			return false
		}
	}
	return true
}

// exact returns a copy whose capacity equals its length
func exact(b []byte) []byte {
	out := make([]byte, len(b))
	copy(out, b)
	return out[:len(b):len(b)]
}

// memCase: the block is handed to Encode as a sub-slice of a larger caller-owned buffer
// with `spare` bytes of capacity behind it (a sentinel pattern). Encode must not write to
// the caller's memory (neither the block nor what lies behind it), must return what it
// returns for a private copy, and the parity fragments it returns must not share memory
// with the caller's buffer or with each other (since fix of C10 audit finding 2 the data rows
// are copies as well).
func memCase(s *cases.Set, r *cq.RNG, m, size, red, spare int) {
	n := m * size
	if size <= 0 {
		n = m
	}
	backing := make([]byte, n+spare)
	copy(backing, r.Bytes(n))
	for i := n; i < len(backing); i++ {
		backing[i] = byte(0xA5 ^ i)
	}
	orig := append([]byte{}, backing...)
	arg := backing[: n : n+spare]
	key := fmt.Sprintf("frags=%d:size=%d:red=%d:spare=%d:data=%s", m, size, red, spare, hexShort(orig[:n]))
	rp := map[string]interface{}{"api": "fragmentation.Encode(buffer[:len(block)], fragmentSize, redundancy) with cap = len(block)+spare",
		"block": fmt.Sprintf("%x", orig[:n]), "bytes_behind_block": fmt.Sprintf("%x", orig[n:]), "fragmentSize": size, "redundancy": red, "spare_capacity": spare}
	_, refFr, _ := encodeObs(exact(orig[:n]), size, red)
	ref := cloneRows(refFr)
	o, got, _ := encodeObs(arg, size, red)
	_ = o
	gotCopy := cloneRows(got)
	if !bytes.Equal(backing, orig) {
		rp["buffer_after_call"] = fmt.Sprintf("%x", backing)
		what := "fragmentation.Encode wrote to the caller's memory behind the data block (spare capacity of the argument)"
		if !bytes.Equal(backing[:n], orig[:n]) {
			what = "fragmentation.Encode modified the data block it was given"
		}
		s.Fail(cases.GoFail{Key: "encode-writes-caller-memory:" + key, What: what, Replay: rp})
		return
	}
	if (refFr == nil) != (got == nil) || !rowsEqual(ref, gotCopy) {
		s.Fail(cases.GoFail{Key: "encode-depends-on-capacity:" + key, What: "fragmentation.Encode returns different fragments for the same block depending on the spare capacity of the argument", Replay: rp})
		return
	}
	// the caller writes into the fragments it received, over their whole capacity (e.g. appends a
	// trailer): neither its own buffer nor any other fragment may change
	for i := range got {
		full := got[i][:cap(got[i])]
		for j := range full {
			full[j] = 0xEE
		}
		if !bytes.Equal(backing, orig) {
			rp["fragment_index"], rp["fragment_cap"], rp["buffer_after"] = i, cap(got[i]), fmt.Sprintf("%x", backing)
			s.Fail(cases.GoFail{Key: "encode-output-aliases-caller-memory:" + key, What: "a fragment returned by fragmentation.Encode is a window into the caller's data: overwriting it (within its capacity) changes the caller's buffer", Replay: rp})
			return
		}
		for k := i + 1; k < len(got); k++ {
			if !bytes.Equal(got[k], ref[k]) {
				rp["fragment_index"], rp["changed_fragment"] = i, k
				s.Fail(cases.GoFail{Key: "encode-output-aliases-caller-memory:" + key, What: "writing into one returned fragment (within its capacity) changes another returned fragment", Replay: rp})
				return
			}
		}
	}
	// fresh result for the next probe
	_, got, _ = encodeObs(arg, size, red)
	// the caller reuses its buffer: every returned fragment must keep its value
	for i := range backing {
		backing[i] = ^backing[i]
	}
	for i := 0; i < len(got) && size > 0; i++ {
		if !bytes.Equal(got[i], ref[i]) {
			rp["fragment_index"] = i
			s.Fail(cases.GoFail{Key: "encode-output-aliases-caller-memory:" + key, What: "a fragment returned by fragmentation.Encode shares memory with the caller's buffer: it changes when the caller reuses the buffer", Replay: rp})
			return
		}
	}
}

// imageCase: an image is encoded block by block, in ascending order, each block a sub-slice
// image[b*L:(b+1)*L] of the one image buffer; the fragments must be those of private copies
// of the blocks and the image must be unchanged.
func imageCase(s *cases.Set, r *cq.RNG, blocks, m, size, red int) {
	L := m * size
	image := r.Bytes(blocks * L)
	orig := append([]byte{}, image...)
	key := fmt.Sprintf("blocks=%d:frags=%d:size=%d:red=%d:image=%s", blocks, m, size, red, hexShort(orig))
	rp := map[string]interface{}{"api": "for b := 0..blocks-1: fragmentation.Encode(image[b*L:(b+1)*L], fragmentSize, redundancy), L = frags*fragmentSize",
		"image": fmt.Sprintf("%x", orig), "blocks": blocks, "fragmentSize": size, "redundancy": red}
	for b := 0; b < blocks; b++ {
		_, got, _ := encodeObs(image[b*L:(b+1)*L], size, red)
		gotCopy := cloneRows(got)
		_, ref, _ := encodeObs(exact(orig[b*L:(b+1)*L]), size, red)
		if (ref == nil) != (got == nil) || !rowsEqual(ref, gotCopy) {
			rp["block"] = b
			s.Fail(cases.GoFail{Key: "encode-image-blocks:" + key, What: fmt.Sprintf("encoding the blocks of one image buffer in ascending order: block %d does not give the fragments of a private copy of that block (an earlier call wrote into the image)", b), Replay: rp})
			return
		}
	}
	if !bytes.Equal(image, orig) {
		rp["image_after"] = fmt.Sprintf("%x", image)
		s.Fail(cases.GoFail{Key: "encode-writes-caller-memory:image:" + key, What: "fragmentation.Encode modified the image buffer its blocks were sliced from", Replay: rp})
	}
}

// identity data: row i carries bit i, so parity fragment y is the matrix line itself
func identityData(m int) ([]byte, int) {
	size := (m + 7) / 8
	data := make([]byte, m*size)
	for i := 0; i < m; i++ {
		data[i*size+i/8] = 1 << uint(i%8)
	}
	return data, size
}

// probeChild runs Encode(make([]byte, n), size, red) in this (child) process and prints only the
// kind of result: sizes near the allocation limit end in a fatal "out of memory" that recover()
// cannot catch, so they are tried where they cannot take the harness down.
func probeChild(args []string) {
	n, _ := strconv.Atoi(args[0])
	size, _ := strconv.ParseInt(args[1], 10, 64)
	red, _ := strconv.Atoi(args[2])
	defer func() {
		if r := recover(); r != nil {
			fmt.Printf("PANIC %v\n", r)
			os.Exit(0)
		}
	}()
	var data []byte
	if n >= 0 {
		data = make([]byte, n)
	}
	out, err := fr.Encode(data, int(size), red)
	if err != nil {
		fmt.Println("ERR " + err.Error())
		return
	}
	fmt.Printf("OK rows=%d\n", len(out))
}

// hugeCase: a block of n zero bytes (n = -1: nil) with a fragment size no caller could allocate.
// Since the empty block is refused every such call must end in an error.
func hugeCase(s *cases.Set, n int, size int64, red int) {
	cmd := exec.Command(os.Args[0], "-probe", strconv.Itoa(n), strconv.FormatInt(size, 10), strconv.Itoa(red))
	done := make(chan struct{})
	var out []byte
	go func() { out, _ = cmd.CombinedOutput(); close(done) }()
	select {
	case <-done:
	case <-time.After(20 * time.Second):
		if cmd.Process != nil {
			cmd.Process.Kill()
		}
		<-done
		out = append(out, []byte("\n(killed after 20 s)")...)
	}
	text := strings.TrimSpace(string(out))
	first := strings.SplitN(text, "\n", 2)[0]
	ln := n
	if ln < 0 {
		ln = 0
	}
	key := fmt.Sprintf("encode:len=%d:size=%d:red=%d:data=zeros(%d)", ln, size, red, n)
	rp := map[string]interface{}{"api": "fragmentation.Encode(make([]byte, n), fragmentSize, redundancy) (n = -1: nil), run in a child process", "n": n, "fragmentSize": size, "redundancy": red, "child_output": clipText(text)}
	obs := cq.Err
	switch {
	case strings.HasPrefix(first, "ERR"):
	case strings.HasPrefix(first, "PANIC"):
		obs = cq.Panic
	case strings.HasPrefix(first, "OK"):
		s.Fail(cases.GoFail{Key: "encode-unallocatable-size-accepted:" + key, What: "fragmentation.Encode returned fragments (" + first + ") for a block of " + fmt.Sprint(ln) + " bytes and a fragment size of " + fmt.Sprint(size) + ": an error was required", Replay: rp})
		return
	default: // fatal error: out of memory, killed, ...
		obs = cq.Panic
		rp["note"] = "the child process died (not a recoverable panic)"
	}
	s.Add(cases.Case{Term: fmt.Sprintf("CEncode %s %s %s %s", cq.Bytes(make([]byte, ln)), cq.Z(size), cq.Z(int64(red)), obs),
		Key: key, Kind: "unallocatable-size", Nontrivial: true, Replay: rp})
}

func clipText(t string) string {
	if len(t) > 600 {
		return t[:600] + "…"
	}
	return t
}

func main() {
	if len(os.Args) >= 5 && os.Args[1] == "-probe" {
		probeChild(os.Args[2:])
		return
	}
	dir, seed, thorough := cases.Args()
	r := cq.NewRNG(seed)
	s := cases.New("C19", dir, "LW.Corr.C19",
		"fragment counts: every power of two up to 256, boundary and random others in 1..300; fragment sizes 1..64; redundancy 0..100 sampled; identity-pattern and random data; invalid sizes 0, -1, -2, non-dividing; random erasure patterns (full-rank and rank-deficient) decoded by an independent decoder; every case is non-trivial (distinct = distinct printed case)")
	s.ShardSize = 5
	s.Watchdog(3 * time.Second)

	// ---- corpus: invalid sizes (witnesses of the size-0 / negative-size defect) ----
	for _, sz := range []int{0, -1, -2, -64} {
		for _, n := range []int{0, 4, 7} {
			for _, red := range []int{0, 1, 5} {
				data := r.Bytes(n)
				encodeCase(s, data, sz, red, "invalid-size", fmt.Sprintf("%x", data))
			}
		}
	}
	for _, c := range [][3]int{{4, 3, 0}, {4, 3, 2}, {1, 2, 1}, {10, 4, 3}, {7, 64, 0}, {300, 299, 1}} {
		data := r.Bytes(c[0])
		encodeCase(s, data, c[1], c[2], "invalid-size", hexShort(data))
	}
	// empty block (refused since the fix of audit C19 #1) and small blocks with fragment sizes
	// that cannot be allocated: an error, never a panic / a dead process
	for _, size := range []int64{1<<63 - 1, 1<<63 - 2, 1 << 62, 1<<48 + 1, 1 << 48, 1 << 47, 1 << 40, 1 << 33, 1 << 31} {
		for _, red := range []int{0, 1, 3} {
			hugeCase(s, 0, size, red)
		}
		hugeCase(s, -1, size, 1)
		hugeCase(s, 4, size, 1) // non-dividing
	}
	for _, sz := range []int{1, 2, 64, 255, 4096} {
		encodeCase(s, nil, sz, 0, "edge", "nil")
		encodeCase(s, []byte{}, sz, 1, "edge", "empty")
	}
	// empty data, negative redundancy
	encodeCase(s, nil, 3, 2, "edge", "empty")
	encodeCase(s, nil, 1, 0, "edge", "empty")
	{
		d := r.Bytes(6)
		encodeCase(s, d, 2, -1, "edge", fmt.Sprintf("%x", d))
		encodeCase(s, d, 6, 3, "edge", fmt.Sprintf("%x", d))
	}
	// the vector of encode_test.go: 100 bytes 0..99, size 10, redundancy 10 and 5
	{
		d := make([]byte, 100)
		for i := range d {
			d[i] = byte(i)
		}
		encodeCase(s, d, 10, 10, "test-vector", "0..99")
		encodeCase(s, d, 10, 5, "test-vector", "0..99")
	}

	// ---- matrix lines observed directly: identity data ----
	pow2 := []int{1, 2, 4, 8, 16, 32, 64, 128, 256}
	others := []int{3, 5, 6, 7, 9, 10, 12, 15, 17, 31, 33, 63, 65, 100, 127, 129, 200, 255, 257, 299, 300}
	counts := append(append([]int{}, pow2...), others...)
	nRand := 6
	if thorough {
		nRand = 80
	}
	for i := 0; i < nRand; i++ {
		counts = append(counts, 1+r.Intn(300))
	}
	for _, m := range counts {
		data, size := identityData(m)
		red := 3 + r.Intn(6)
		if m <= 64 {
			red = 10 + r.Intn(20)
		}
		if thorough {
			red = 100
		}
		encodeCase(s, data, size, red, "identity-data", fmt.Sprintf("identity%d", m))
	}
	if thorough {
		for m := 1; m <= 300; m++ {
			data, size := identityData(m)
			encodeCase(s, data, size, 100, "identity-data-all-counts", fmt.Sprintf("identity%d", m))
		}
		s.Exhaustive("fragment counts 1..300 x parity index 1..100 with identity data (every matrix-line bit observed)")
	}

	// ---- random data ----
	nData := 40
	if thorough {
		nData = 1200
	}
	for i := 0; i < nData; i++ {
		m := counts[r.Intn(len(counts))]
		if i%3 == 0 {
			m = 1 + r.Intn(40)
		}
		size := 1 + r.Intn(64)
		red := r.Intn(101)
		if !thorough && m*size > 3000 {
			size = 1 + r.Intn(1+3000/m)
		}
		if !thorough && m > 64 && red > 12 {
			red = r.Intn(13)
		}
		data := r.Bytes(m * size)
		encodeCase(s, data, size, red, "random-data", hexShort(data))
	}
	// all sizes 1..64 once with a small count
	for size := 1; size <= 64; size++ {
		m := 1 + r.Intn(12)
		data := r.Bytes(m * size)
		encodeCase(s, data, size, r.Intn(8), "every-size", hexShort(data))
	}
	// non-dividing lengths
	for i := 0; i < 20; i++ {
		size := 2 + r.Intn(63)
		n := size*r.Intn(6) + 1 + r.Intn(size-1)
		data := r.Bytes(n)
		encodeCase(s, data, size, r.Intn(5), "invalid-size", hexShort(data))
	}

	// ---- erasures ----
	nRec := 60
	if thorough {
		nRec = 1500
	}
	for i := 0; i < nRec; i++ {
		m := 1 + r.Intn(40)
		if i%5 == 0 {
			m = pow2[r.Intn(6)]
		}
		size := 1 + r.Intn(8)
		red := r.Intn(2*m + 4)
		if red > 100 {
			red = 100
		}
		keep := m + r.Intn(red+1)
		switch i % 7 {
		case 0:
			keep = m + red // everything
		case 1:
			if m > 1 {
				keep = m - 1 // cannot be full rank
			}
		}
		recoverCase(s, r, m, size, red, keep, "erasure")
	}

	// ---- caller-owned memory: spare capacity behind the block, images encoded block by block ----
	nMem := 40
	if thorough {
		nMem = 1500
	}
	for i := 0; i < nMem; i++ {
		m := 1 + r.Intn(24)
		if i%4 == 0 {
			m = pow2[r.Intn(6)]
		}
		size := 1 + r.Intn(16)
		red := r.Intn(12)
		if i%9 == 0 {
			red = 0
		}
		for _, spare := range []int{0, 1, size, red * size, red*size + 1 + r.Intn(40), 2*red*size + 64} {
			memCase(s, r, m, size, red, spare)
		}
		if i%6 == 0 { // invalid sizes must not write either
			memCase(s, r, 5, []int{0, -1, -2}[r.Intn(3)], 1+r.Intn(4), 32)
			memCase(s, r, 1, 2, 3, 32) // one byte, size 2: non-dividing
		}
		imageCase(s, r, 2+r.Intn(4), m, size, red)
	}
	s.Extra["memory_cases"] = "blocks passed as sub-slices with spare capacity {0, 1, size, red*size, more}; images encoded block by block; Go-side checks (go_fails)"

	// ---- large jobs (work = len(data)*redundancy from 2^16 to 2^21), compared with the model like
	// every other case, run under GOMAXPROCS 1/2/4, and remembered for the replays below ----
	type big struct{ m, size, red int }
	bigs := []big{{200, 48, 40}, {300, 64, 100}, {64, 16, 80}, {128, 8, 90}, {256, 4, 100}, {300, 2, 100}, {100, 11, 85}, {77, 3, 95}, {192, 5, 88}, {255, 1, 100}, {257, 2, 99}, {150, 7, 80}}
	if thorough {
		for i := 0; i < 60; i++ {
			bigs = append(bigs, big{64 + r.Intn(237), 1 + r.Intn(64), 80 + r.Intn(21)})
		}
	}
	for _, b := range bigs {
		data := r.Bytes(b.m * b.size)
		encodeCase(s, data, b.size, b.red, "large", hexShort(data))
	}
	// ---- redundancy far beyond 100: the PRBS start value 1 + 1001*n exceeds 23 bits from parity
	// index 8381 on (fragment indices up to 16383 are legal on the wire) ----
	type tall struct{ m, size, red int }
	talls := []tall{{10, 3, 8500}, {2, 1, 20000}, {5, 2, 9000}, {8, 1, 8400}}
	if thorough {
		// (rows x size kept below what coqc parses as one list term: ~20,000 rows / ~60 kB of octets per case)
		talls = append(talls, tall{3, 1, 20000}, tall{16, 2, 16383}, tall{7, 5, 9000}, tall{33, 1, 12000}, tall{4, 3, 12000})
	}
	for _, b := range talls {
		data := r.Bytes(b.m * b.size)
		encodeCase(s, data, b.size, b.red, "redundancy-beyond-8381", hexShort(data))
	}
	// and a block recovered mostly from such late parity fragments
	recoverCase(s, r, 6, 2, 9000, 9, "erasure-late-parity")
	if thorough {
		recoverCase(s, r, 12, 3, 16383, 16, "erasure-late-parity")
	}

	// ---- fragment sizes beyond 64 (the property says: any positive size) ----
	for _, size := range []int{255, 256, 257, 300, 512, 1024, 4096} {
		m := 2 + r.Intn(2)
		data := r.Bytes(m * size)
		encodeCase(s, data, size, 1+r.Intn(2), "large-fragment-size", hexShort(data))
	}
	if thorough {
		for i := 0; i < 20; i++ {
			size := 65 + r.Intn(5000)
			m := 2 + r.Intn(6)
			data := r.Bytes(m * size)
			encodeCase(s, data, size, 1+r.Intn(4), "large-fragment-size", hexShort(data))
		}
	}

	s.Extra["gomaxprocs_runs"] = procRuns
	s.Extra["gomaxprocs_rule"] = "every case with len(data)*redundancy >= 20000 repeated under runtime.GOMAXPROCS(1), (2), (4); result must equal the model-compared one"

	// ---- every remembered call again: other order, on one P, and from 8 goroutines at once ----
	s.ReplayRemembered(r.Intn, 1, nil)
	rounds := 6
	if thorough {
		rounds = 12
	}
	s.ReplayConcurrently(8, rounds, 120*time.Second)

	if err := s.Finish(); err != nil {
		fmt.Fprintln(os.Stderr, err)
		os.Exit(2)
	}
}
