// Correspondence harness for C04: join-request / rejoin-request / join-accept
// MICs and join-accept encryption.
package main

import (
	"bytes"
	"crypto/aes"
	"fmt"
	"io"
	"log"
	"os"
	"time"

	"github.com/brocaar/lorawan"
	"github.com/jacobsa/crypto/cmac"

	"verifharness/internal/cases"
	"verifharness/internal/collide"
	"verifharness/internal/cq"
	"verifharness/internal/framefmt"
	"verifharness/internal/micforge"
	"verifharness/internal/noise"
)

// nr drives the unrelated library calls made between the compared calls (own stream: case generation is unaffected);
// quiet suppresses them inside a family of calls that must run back to back
var nr *cq.RNG
var quiet bool
var lastKey = "(none)"

func step() {
	if !quiet {
		noise.Step(nr)
	}
}

func clip(k string) string {
	if len(k) > 300 {
		return k[:300] + "..."
	}
	return k
}

func hx(b []byte) string { return fmt.Sprintf("%x", b) }

func obool(ok bool, err error) string {
	if err != nil {
		return cq.Err
	}
	return cq.Ok(cq.Bool(ok))
}

func key(r *cq.RNG) (k lorawan.AES128Key) {
	switch r.Intn(12) {
	case 0:
	case 1:
		for i := range k {
			k[i] = 0xff
		}
	default:
		copy(k[:], r.Bytes(16))
	}
	return
}

func eui(r *cq.RNG) (e lorawan.EUI64) {
	if r.Intn(4) == 0 { // palindromic: a byte-order mutant is invisible on these
		b := r.Bytes(4)
		copy(e[:4], b)
		for i := 0; i < 4; i++ {
			e[7-i] = b[i]
		}
		return
	}
	copy(e[:], r.Bytes(8))
	return
}

func tamper(r *cq.RNG, mic lorawan.MIC, how int) lorawan.MIC {
	switch how {
	case 1:
		copy(mic[:], r.Bytes(4))
	case 2:
		mic[r.Intn(4)] ^= 1 << uint(r.Intn(8))
	}
	return mic
}

var hows = []string{"valid", "random", "bitflip", "as-carried"}

func upJoin(s *cases.Set, r *cq.RNG, p lorawan.PHYPayload, k lorawan.AES128Key, how int, kind string) {
	step()
	cases.Begin("Set/ValidateUplinkJoinMIC:"+framefmt.Phy(p, 0), nil)
	defer cases.End()
	oset, oval := cq.Err, cq.Err
	func() {
		defer func() {
			if e := recover(); e != nil {
				oset = cq.Panic
			}
		}()
		c := p
		if err := c.SetUplinkJoinMIC(k); err == nil {
			lastMIC = c.MIC
			oset = cq.Ok(cq.Bytes(c.MIC[:]))
			if how != 3 {
				p.MIC = tamper(r, c.MIC, how)
			}
		}
	}()
	t := framefmt.Phy(p, 0)
	tb, _ := marshalQuiet(p)
	q := p
	func() {
		defer func() {
			if e := recover(); e != nil {
				oval = cq.Panic
			}
		}()
		oval = obool(p.ValidateUplinkJoinMIC(k))
	}()
	frameUnchanged(s, "ValidateUplinkJoinMIC", t, tb, &p)
	ks := fmt.Sprintf("upjoin:key=%s:mic=%s:%s", hx(k[:]), hows[how], t)
	rp := map[string]interface{}{"api": "SetUplinkJoinMIC on a copy, ValidateUplinkJoinMIC on the frame as given", "key": hx(k[:]), "frame": t,
		"previous_compared_call": lastKey, "observed": map[string]string{"set": oset, "validate": oval}}
	s.Add(cases.Case{Term: fmt.Sprintf("CUpJoin %s %s %s %s", cq.Bytes(k[:]), t, oset, oval), Key: ks, Kind: kind, Nontrivial: true, Replay: rp})
	lastKey = clip(ks)
	s.Remember(ks, oset+" "+oval, rp, func() (res string) {
		defer func() {
			if e := recover(); e != nil {
				res = cq.Panic
			}
		}()
		c := q
		a := cq.Err
		if err := c.SetUplinkJoinMIC(k); err == nil {
			a = cq.Ok(cq.Bytes(c.MIC[:]))
		}
		return a + " " + obool(q.ValidateUplinkJoinMIC(k))
	})
}

func downJoin(s *cases.Set, r *cq.RNG, p lorawan.PHYPayload, ty lorawan.JoinType, je lorawan.EUI64, dn lorawan.DevNonce, k lorawan.AES128Key, how int, kind string) {
	step()
	cases.Begin("Set/ValidateDownlinkJoinMIC:"+framefmt.Phy(p, 0), nil)
	defer cases.End()
	oset, oval := cq.Err, cq.Err
	func() {
		defer func() {
			if e := recover(); e != nil {
				oset = cq.Panic
			}
		}()
		c := p
		if err := c.SetDownlinkJoinMIC(ty, je, dn, k); err == nil {
			lastMIC = c.MIC
			oset = cq.Ok(cq.Bytes(c.MIC[:]))
			if how != 3 {
				p.MIC = tamper(r, c.MIC, how)
			}
		}
	}()
	t := framefmt.Phy(p, 0)
	tb, _ := marshalQuiet(p)
	q := p
	func() {
		defer func() {
			if e := recover(); e != nil {
				oval = cq.Panic
			}
		}()
		oval = obool(p.ValidateDownlinkJoinMIC(ty, je, dn, k))
	}()
	frameUnchanged(s, "ValidateDownlinkJoinMIC", t, tb, &p)
	ks := fmt.Sprintf("downjoin:type=%d:joineui=%s:devnonce=%d:key=%s:mic=%s:%s", byte(ty), hx(je[:]), uint16(dn), hx(k[:]), hows[how], t)
	rp := map[string]interface{}{"api": "SetDownlinkJoinMIC on a copy, ValidateDownlinkJoinMIC on the frame as given", "joinReqType": byte(ty), "joinEUI": hx(je[:]),
		"devNonce": uint16(dn), "key": hx(k[:]), "frame": t, "previous_compared_call": lastKey, "observed": map[string]string{"set": oset, "validate": oval}}
	s.Add(cases.Case{Term: fmt.Sprintf("CDownJoin %d %s %d %s %s %s %s", byte(ty), cq.Bytes(je[:]), uint16(dn), cq.Bytes(k[:]), t, oset, oval),
		Key: ks, Kind: kind, Nontrivial: true, Replay: rp})
	lastKey = clip(ks)
	s.Remember(ks, oset+" "+oval, rp, func() (res string) {
		defer func() {
			if e := recover(); e != nil {
				res = cq.Panic
			}
		}()
		c := q
		a := cq.Err
		if err := c.SetDownlinkJoinMIC(ty, je, dn, k); err == nil {
			a = cq.Ok(cq.Bytes(c.MIC[:]))
		}
		return a + " " + obool(q.ValidateDownlinkJoinMIC(ty, je, dn, k))
	})
}

func encrypt(p *lorawan.PHYPayload, k lorawan.AES128Key) (s string) {
	cases.Begin("EncryptJoinAcceptPayload:"+framefmt.Phy(*p, 0), nil)
	defer cases.End()
	defer func() {
		if e := recover(); e != nil {
			s = cq.Panic
		}
	}()
	if err := p.EncryptJoinAcceptPayload(k); err != nil {
		return cq.Err
	}
	return cq.Ok(framefmt.Phy(*p, 0))
}

func decrypt(p *lorawan.PHYPayload, k lorawan.AES128Key) (s string) {
	cases.Begin("DecryptJoinAcceptPayload:"+framefmt.Phy(*p, 0), nil)
	defer cases.End()
	defer func() {
		if e := recover(); e != nil {
			s = cq.Panic
		}
	}()
	if err := p.DecryptJoinAcceptPayload(k); err != nil {
		return cq.Err
	}
	return cq.Ok(framefmt.Phy(*p, 0))
}

// clone of a join-accept frame (the methods replace p.MACPayload, they do not write through it)
func trailingZeroMask(p lorawan.PHYPayload) bool {
	ja, ok := p.MACPayload.(*lorawan.JoinAcceptPayload)
	if !ok || ja.CFList == nil {
		return false
	}
	m, ok := ja.CFList.Payload.(*lorawan.CFListChannelMaskPayload)
	if !ok || len(m.ChannelMasks) == 0 || len(m.ChannelMasks) > 6 {
		return false
	}
	return m.ChannelMasks[len(m.ChannelMasks)-1] == (lorawan.ChMask{})
}

func encCases(s *cases.Set, p lorawan.PHYPayload, k lorawan.AES128Key, kind string) {
	step()
	t := framefmt.Phy(p, 0)
	var plain []byte
	if p.MACPayload != nil {
		if _, ok := p.MACPayload.(*lorawan.JoinAcceptPayload); ok {
			if b, err := p.MACPayload.MarshalBinary(); err == nil {
				plain = append(b, p.MIC[:]...)
			}
		}
	}
	q := p
	o := encrypt(&q, k)
	s.Add(cases.Case{Term: fmt.Sprintf("CEnc %s %s %s", cq.Bytes(k[:]), t, o), Key: "enc:key=" + hx(k[:]) + ":" + t, Kind: kind, Nontrivial: true,
		Replay: map[string]interface{}{"api": "EncryptJoinAcceptPayload", "key": hx(k[:]), "frame": t, "observed": o, "previous_compared_call": lastKey}})
	lastKey = clip("enc:key=" + hx(k[:]) + ":" + t)
	if o == cq.Err || o == cq.Panic {
		return
	}
	// device side, in Go: AES-encrypt of the ciphertext blocks gives payload | MIC
	if dp, ok := q.MACPayload.(*lorawan.DataPayload); ok && plain != nil {
		ct := append(append([]byte{}, dp.Bytes...), q.MIC[:]...)
		blk, _ := aes.NewCipher(k[:])
		pt := make([]byte, len(ct))
		for i := 0; i+16 <= len(ct); i += 16 {
			blk.Encrypt(pt[i:i+16], ct[i:i+16])
		}
		if !bytes.Equal(pt, plain) {
			s.Fail(cases.GoFail{Key: "device-recovers:" + t, What: "aes.Encrypt over the join-accept ciphertext does not give payload | MIC",
				Replay: map[string]interface{}{"key": hx(k[:]), "frame": t, "ciphertext": hx(ct), "device": hx(pt), "expected": hx(plain)}})
		}
	}
	// round trip with the same key
	o2 := decrypt(&q, k)
	rk := "round:"
	if trailingZeroMask(p) {
		rk = "round:cflist-channel-mask-with-trailing-all-zero-mask:"
		s.Add(cases.Case{Term: fmt.Sprintf("CRound true %s %s %s", cq.Bytes(k[:]), t, o2), Key: "round-modulo-zero-masks:key=" + hx(k[:]) + ":" + t, Kind: kind + "-roundtrip", Nontrivial: true,
			Replay: map[string]interface{}{"api": "EncryptJoinAcceptPayload then DecryptJoinAcceptPayload (compared modulo trailing all-zero masks)", "key": hx(k[:]), "frame": t, "observed": o2}})
	}
	s.Add(cases.Case{Term: fmt.Sprintf("CRound false %s %s %s", cq.Bytes(k[:]), t, o2), Key: rk + "key=" + hx(k[:]) + ":" + t, Kind: kind + "-roundtrip", Nontrivial: true,
		Replay: map[string]interface{}{"api": "EncryptJoinAcceptPayload then DecryptJoinAcceptPayload with the same key", "key": hx(k[:]), "frame": t, "observed": o2}})
}

func decCase(s *cases.Set, p lorawan.PHYPayload, k lorawan.AES128Key, kind string) {
	step()
	t := framefmt.Phy(p, 0)
	o := decrypt(&p, k)
	s.Add(cases.Case{Term: fmt.Sprintf("CDec %s %s %s", cq.Bytes(k[:]), t, o), Key: "dec:key=" + hx(k[:]) + ":" + t, Kind: kind, Nontrivial: true,
		Replay: map[string]interface{}{"api": "DecryptJoinAcceptPayload", "key": hx(k[:]), "frame": t, "observed": o}})
}

func cmacCase(s *cases.Set, k, m []byte, name string) {
	h, err := cmac.New(k)
	if err != nil {
		s.Fail(cases.GoFail{Key: "cmac:new:" + hx(k), What: "cmac.New failed: " + err.Error(), Replay: map[string]interface{}{"key": hx(k)}})
		return
	}
	h.Write(m)
	o := h.Sum([]byte{})
	s.Add(cases.Case{Term: fmt.Sprintf("CCmac %s %s %s", cq.Bytes(k), cq.Bytes(m), cq.Bytes(o)),
		Key: "cmac:" + name + ":key=" + hx(k) + ":msg=" + hx(m), Kind: "crypto-cmac", Nontrivial: true,
		Replay: map[string]interface{}{"api": "jacobsa/crypto/cmac", "key": hx(k), "msg": hx(m), "observed": hx(o)}})
}

func aesDecCase(s *cases.Set, k, b []byte, name string) {
	blk, err := aes.NewCipher(k)
	if err != nil {
		s.Fail(cases.GoFail{Key: "aes:new:" + hx(k), What: "aes.NewCipher failed: " + err.Error(), Replay: map[string]interface{}{"key": hx(k)}})
		return
	}
	o := make([]byte, 16)
	blk.Decrypt(o, b)
	s.Add(cases.Case{Term: fmt.Sprintf("CAesDec %s %s %s", cq.Bytes(k), cq.Bytes(b), cq.Bytes(o)),
		Key: "aes-dec:" + name + ":key=" + hx(k) + ":block=" + hx(b), Kind: "crypto-aes", Nontrivial: true,
		Replay: map[string]interface{}{"api": "crypto/aes Decrypt", "key": hx(k), "block": hx(b), "observed": hx(o)}})
}

func marshalQuiet(p lorawan.PHYPayload) (b []byte, err error) {
	defer func() {
		if r := recover(); r != nil {
			b, err = nil, fmt.Errorf("panic")
		}
	}()
	return p.MarshalBinary()
}

// frameUnchanged: a call that only inspects the frame must leave it printing and marshalling as before.
func frameUnchanged(s *cases.Set, what, before string, bb []byte, p *lorawan.PHYPayload) {
	after := framefmt.Phy(*p, 0)
	ab, _ := marshalQuiet(*p)
	if before != after || !bytes.Equal(bb, ab) {
		s.Fail(cases.GoFail{Key: "validate-changes-frame:" + what + ":" + before, What: what + " changed the frame it only inspects",
			Replay: map[string]interface{}{"api": what, "frame_before": before, "frame_after": after, "bytes_before": hx(bb), "bytes_after": hx(ab)}})
	}
}

func mic4(t [16]byte) (m lorawan.MIC) { copy(m[:], t[:4]); return }

// relatedFormulas: join frames carrying a MIC that is correct under a RELATED formula (computed here with
// internal/micforge's own CMAC): for join-accepts the 1.0 form (MHDR | payload) and the 1.1 form
// (JoinReqType | JoinEUI | DevNonce | MHDR | payload) whatever OptNeg says, the right form with another JoinReqType /
// JoinEUI (also byte-reversed) / DevNonce (also byte-swapped) / key, the form without MHDR; for join- and
// rejoin-requests the prefixed form, the form without MHDR, another key. Each is an ordinary case: the model decides.
func relatedFormulas(s *cases.Set, r *cq.RNG, i int) {
	k, k2 := key(r), key(r)
	c, c2 := micforge.New(k), micforge.New(k2)
	ty := joinTypes[i%4]
	je, dn := eui(r), lorawan.DevNonce(1+r.Intn(65535))
	pre := func(ty lorawan.JoinType, je lorawan.EUI64, dn lorawan.DevNonce) []byte {
		b := []byte{byte(ty)}
		for j := 7; j >= 0; j-- {
			b = append(b, je[j])
		}
		return append(b, byte(dn), byte(dn>>8))
	}
	ja := joinFrame(r, 1)
	ja.MACPayload.(*lorawan.JoinAcceptPayload).DLSettings.OptNeg = i%2 == 0
	body, err := ja.MACPayload.MarshalBinary()
	if err == nil {
		mh, _ := ja.MHDR.MarshalBinary()
		msg := append(append([]byte{}, mh...), body...)
		var jr lorawan.EUI64
		for j := range jr {
			jr[j] = je[7-j]
		}
		cands := []struct {
			name string
			mic  lorawan.MIC
		}{
			{"form-1.0", mic4(c.CMAC(msg))},
			{"form-1.1", mic4(c.CMAC(append(pre(ty, je, dn), msg...)))},
			{"form-1.0-other-key", mic4(c2.CMAC(msg))},
			{"form-1.1-other-key", mic4(c2.CMAC(append(pre(ty, je, dn), msg...)))},
			{"form-1.1-other-joinreqtype", mic4(c.CMAC(append(pre(joinTypes[(i+1)%4], je, dn), msg...)))},
			{"form-1.1-joineui-reversed", mic4(c.CMAC(append(pre(ty, jr, dn), msg...)))},
			{"form-1.1-other-devnonce", mic4(c.CMAC(append(pre(ty, je, dn+1), msg...)))},
			{"form-1.1-devnonce-swapped", mic4(c.CMAC(append(pre(ty, je, dn<<8|dn>>8), msg...)))},
			{"form-without-mhdr", mic4(c.CMAC(body))},
			{"form-1.1-mhdr-first", mic4(c.CMAC(append(append([]byte{}, mh...), append(pre(ty, je, dn), body...)...)))},
		}
		for _, cd := range cands {
			f := ja
			f.MIC = cd.mic
			downJoin(s, r, f, ty, je, dn, k, 3, "related-formula-join-accept:"+cd.name)
		}
	}
	// the right MIC under k, validated under a DIFFERENT key that agrees with k under a cheap digest (internal/collide),
	// then under k again
	if err == nil {
		f := ja
		if f.SetDownlinkJoinMIC(ty, je, dn, k) == nil {
			downJoin(s, r, f, ty, je, dn, k, 3, "key-collide-base")
			for _, pr := range collide.For(k) {
				downJoin(s, r, f, ty, je, dn, lorawan.AES128Key(pr.K2), 3, "key-collide-"+pr.Name)
			}
			downJoin(s, r, f, ty, je, dn, k, 3, "key-collide-base")
		}
	}
	up := joinFrame(r, []int{0, 2, 3, 4}[i%4])
	if f := up; f.SetUplinkJoinMIC(k) == nil {
		upJoin(s, r, f, k, 3, "key-collide-base")
		for _, pr := range collide.For(k) {
			upJoin(s, r, f, lorawan.AES128Key(pr.K2), 3, "key-collide-"+pr.Name)
		}
		upJoin(s, r, f, k, 3, "key-collide-base")
	}
	if ub, err := up.MACPayload.MarshalBinary(); err == nil {
		mh, _ := up.MHDR.MarshalBinary()
		msg := append(append([]byte{}, mh...), ub...)
		for _, cd := range []struct {
			name string
			mic  lorawan.MIC
		}{
			{"plain", mic4(c.CMAC(msg))},
			{"other-key", mic4(c2.CMAC(msg))},
			{"prefixed-like-1.1-accept", mic4(c.CMAC(append(pre(ty, je, dn), msg...)))},
			{"without-mhdr", mic4(c.CMAC(ub))},
			{"mhdr-twice", mic4(c.CMAC(append(append([]byte{}, mh...), msg...)))},
		} {
			f := up
			f.MIC = cd.mic
			upJoin(s, r, f, k, 3, "related-formula-join-request:"+cd.name)
		}
	}
}

// opaqueJoin: a join / rejoin frame as a forwarder holds it: the MACPayload is an opaque *DataPayload whose bytes
// are a window into a receive buffer (spare capacity, sentinel bytes behind). Set/ValidateUplinkJoinMIC must leave
// the buffer alone, give the same verdict a second time, and compute the MIC of the typed frame with these bytes.
func opaqueJoin(s *cases.Set, r *cq.RNG, i int) {
	typed := joinFrame(r, []int{0, 2, 3, 4}[i%4])
	b, err := typed.MACPayload.MarshalBinary()
	if err != nil {
		return
	}
	k := key(r)
	want := typed
	if want.SetUplinkJoinMIC(k) != nil {
		return
	}
	spare := []int{1, 4, 16, 40}[i%4]
	buf := make([]byte, 1+len(b)+spare+8)
	for j := range buf {
		buf[j] = byte(0x5a + 3*j)
	}
	copy(buf[1:], b)
	snap := append([]byte{}, buf...)
	f := lorawan.PHYPayload{MHDR: typed.MHDR, MACPayload: &lorawan.DataPayload{Bytes: buf[1 : 1+len(b) : 1+len(b)+spare]}, MIC: want.MIC}
	for pass := 0; pass < 2; pass++ {
		upJoin(s, r, f, k, 3, "opaque-join-payload")
		if !bytes.Equal(buf, snap) {
			s.Fail(cases.GoFail{Key: fmt.Sprintf("caller-memory-modified:opaque-join:pass%d:%s", pass, framefmt.Phy(typed, 0)), What: "Set/ValidateUplinkJoinMIC wrote into the buffer that holds the opaque join payload",
				Replay: map[string]interface{}{"frame": framefmt.Phy(typed, 0), "key": hx(k[:]), "spare_capacity": spare, "buffer_before": hx(snap), "buffer_after": hx(buf)}})
			copy(buf, snap)
		}
	}
	got := f
	if err := got.SetUplinkJoinMIC(k); err != nil || got.MIC != want.MIC {
		s.Fail(cases.GoFail{Key: "opaque-join-mic-differs:" + framefmt.Phy(typed, 0), What: "the MIC of a join frame held as opaque bytes differs from the MIC of the typed frame with the same bytes",
			Replay: map[string]interface{}{"frame": framefmt.Phy(typed, 0), "key": hx(k[:]), "typed_mic": hx(want.MIC[:]), "opaque_mic": hx(got.MIC[:])}})
	}
	copy(buf, snap)
	// the same window through DecryptJoinAcceptPayload (ciphertext held in a receive buffer)
	ja := joinFrame(r, 1)
	if encrypt(&ja, k) != cq.Err {
		if dp, ok := ja.MACPayload.(*lorawan.DataPayload); ok {
			buf2 := make([]byte, len(dp.Bytes)+spare+8)
			for j := range buf2 {
				buf2[j] = byte(0xc3 + 5*j)
			}
			copy(buf2, dp.Bytes)
			snap2 := append([]byte{}, buf2...)
			g := ja
			g.MACPayload = &lorawan.DataPayload{Bytes: buf2[: len(dp.Bytes) : len(dp.Bytes)+spare]}
			decCase(s, g, k, "opaque-join-payload")
			if !bytes.Equal(buf2, snap2) {
				s.Fail(cases.GoFail{Key: "caller-memory-modified:decrypt-join-accept:" + hx(snap2), What: "DecryptJoinAcceptPayload wrote into the buffer that holds the ciphertext",
					Replay: map[string]interface{}{"key": hx(k[:]), "buffer_before": hx(snap2), "buffer_after": hx(buf2), "spare_capacity": spare}})
			}
		}
	}
}

var lastMIC lorawan.MIC // the MIC the previous Set* call computed
var forged, forgedHit int

// forgeRejoin builds a rejoin-request type 0 / 2 whose CORRECT MIC under key k is `want`. The MIC message
// MHDR | RejoinType | NetID | DevEUI | RJCount0 has 15 bytes, i.e. one padded CMAC block m | 0x80: the block is
// solved from the wanted tag (internal/micforge) and the 12 free tag bytes are varied until the block has the pad
// byte, the MHDR of a rejoin-request and RejoinType 0 or 2 (about 2^21 AES operations).
func forgeRejoin(r *cq.RNG, k lorawan.AES128Key, want lorawan.MIC) (lorawan.PHYPayload, bool) {
	c := micforge.New(k)
	var tag, zero [16]byte
	copy(tag[:4], want[:])
	for i := 0; i < 60000000; i++ {
		x := r.U64()
		for j := 0; j < 8; j++ {
			tag[4+j] = byte(x >> (8 * uint(j)))
		}
		tag[12], tag[13], tag[14], tag[15] = byte(i), byte(i>>8), byte(i>>16), byte(i>>24)
		m := c.PaddedBlock(zero, tag)
		if m[15] != 0x80 || m[0]&0xfc != 0xc0 || (m[1] != 0 && m[1] != 2) {
			continue
		}
		pl := &lorawan.RejoinRequestType02Payload{RejoinType: lorawan.JoinType(m[1]), RJCount0: uint16(m[13]) | uint16(m[14])<<8}
		for j := 0; j < 3; j++ {
			pl.NetID[2-j] = m[2+j]
		}
		for j := 0; j < 8; j++ {
			pl.DevEUI[7-j] = m[5+j]
		}
		return lorawan.PHYPayload{MHDR: lorawan.MHDR{MType: lorawan.RejoinRequest, Major: lorawan.Major(m[0] & 3)}, MACPayload: pl}, true
	}
	return lorawan.PHYPayload{}, false
}

// specialMICs: (a) rejoin-requests constructed so that their correct MIC is 00000000, ffffffff, 00000001, the MIC of
// the previous case (Set must give it, Validate of the frame carrying it must be true); (b) join-accepts carrying
// these MIC values through EncryptJoinAcceptPayload / DecryptJoinAcceptPayload (the MIC is plain data to them) and
// through Set/ValidateDownlinkJoinMIC.
func specialMICs(s *cases.Set, r *cq.RNG, rounds int) {
	for round := 0; round < rounds; round++ {
		for wi, want := range []lorawan.MIC{{}, {0xff, 0xff, 0xff, 0xff}, {0, 0, 0, 1}, lastMIC} {
			name := []string{"00000000", "ffffffff", "00000001", "previous"}[wi]
			k := key(r)
			if p, ok := forgeRejoin(r, k, want); ok {
				forged++
				upJoin(s, r, p, k, 0, "forged-mic-"+name)
				if lastMIC == want {
					forgedHit++
				}
			}
			for kind := 0; kind < 3; kind++ { // the three CFList shapes are drawn by JoinFrame
				ja := joinFrame(r, 1)
				ja.MIC = want
				ek := key(r)
				encCases(s, ja, ek, "special-mic-"+name)
				downJoin(s, r, ja, joinTypes[(round+kind)%4], eui(r), lorawan.DevNonce(r.Intn(65536)), key(r), 3, "special-mic-"+name)
			}
		}
	}
	s.Extra["forged_mic_frames"] = forged
	s.Extra["forged_mic_frames_whose_set_mic_is_the_wanted_value"] = forgedHit
}

// badFrame: a frame on which the MIC / encryption functions fail (the payload refuses to marshal, or is missing).
func badFrame(r *cq.RNG, which int) lorawan.PHYPayload {
	switch which % 4 {
	case 0: // rejoin-request type 0/2 payload carrying RejoinType 1
		p := joinFrame(r, 2)
		p.MACPayload.(*lorawan.RejoinRequestType02Payload).RejoinType = lorawan.RejoinRequestType1
		return p
	case 1: // rejoin-request type 1 payload carrying RejoinType 0
		p := joinFrame(r, 4)
		p.MACPayload.(*lorawan.RejoinRequestType1Payload).RejoinType = lorawan.RejoinRequestType0
		return p
	case 2: // join-accept with a JoinNonce that does not fit 24 bits
		p := joinFrame(r, 1)
		p.MACPayload.(*lorawan.JoinAcceptPayload).JoinNonce = lorawan.JoinNonce(1<<24 + r.Intn(100))
		return p
	default:
		p := joinFrame(r, 0)
		p.MACPayload = nil
		return p
	}
}

// failThenValid: a call that fails, immediately followed by valid calls of each kind (no other library call in
// between), then the valid calls once more. A failed call must leave nothing behind.
func failThenValid(s *cases.Set, r *cq.RNG, i int) {
	noise.Step(nr)
	quiet = true
	defer func() { quiet = false }()
	k := key(r)
	bad := badFrame(r, i)
	good := joinFrame(r, []int{0, 2, 3, 4}[(i/4)%4])
	ja := joinFrame(r, 1)
	je, dn := eui(r), lorawan.DevNonce(r.Intn(65536))
	switch (i / 16) % 3 {
	case 0:
		upJoin(s, r, bad, k, 0, "family-failing")
	case 1:
		downJoin(s, r, bad, joinTypes[i%4], je, dn, k, 0, "family-failing")
	default:
		encCases(s, bad, k, "family-failing")
	}
	upJoin(s, r, good, k, 0, "family-after-failure")
	downJoin(s, r, ja, joinTypes[i%4], je, dn, k, 0, "family-after-failure")
	jb := ja
	if err := jb.SetDownlinkJoinMIC(joinTypes[i%4], je, dn, k); err == nil {
		encCases(s, jb, k, "family-after-failure")
	}
	upJoin(s, r, good, k, 0, "family-after-failure")
}

var joinTypes = []lorawan.JoinType{lorawan.JoinRequestType, lorawan.RejoinRequestType0, lorawan.RejoinRequestType1, lorawan.RejoinRequestType2}

// ---- octets as received ----
func wireUp(b []byte, k lorawan.AES128Key) (s string) {
	cases.Begin("UnmarshalBinary + ValidateUplinkJoinMIC:"+hx(b), nil)
	defer cases.End()
	defer func() {
		if e := recover(); e != nil {
			s = cq.Panic
		}
	}()
	var q lorawan.PHYPayload
	if err := q.UnmarshalBinary(append([]byte{}, b...)); err != nil {
		return cq.Err
	}
	return obool(q.ValidateUplinkJoinMIC(k))
}

func wireUpCase(s *cases.Set, b []byte, k lorawan.AES128Key, kind, what string) {
	step()
	o := wireUp(b, k)
	ks := fmt.Sprintf("%s:key=%s:bytes=%s", what, hx(k[:]), hx(b))
	rp := map[string]interface{}{"api": "UnmarshalBinary, ValidateUplinkJoinMIC", "what": what, "key": hx(k[:]), "bytes": hx(b), "observed": o}
	s.Add(cases.Case{Term: fmt.Sprintf("CWireUp %s %s %s", cq.Bytes(k[:]), cq.Bytes(b), o), Key: ks, Kind: kind, Nontrivial: true, Replay: rp})
	bb := append([]byte{}, b...)
	s.Remember(ks, o, rp, func() string { return wireUp(bb, k) })
}

func wireAccept(b []byte, ty lorawan.JoinType, je lorawan.EUI64, dn lorawan.DevNonce, k, ek lorawan.AES128Key) (odec, oval string) {
	cases.Begin("UnmarshalBinary + DecryptJoinAcceptPayload + ValidateDownlinkJoinMIC:"+hx(b), nil)
	defer cases.End()
	odec, oval = cq.Err, cq.Err
	defer func() {
		if e := recover(); e != nil {
			if odec == cq.Err {
				odec = cq.Panic
			} else {
				oval = cq.Panic
			}
		}
	}()
	var q lorawan.PHYPayload
	if err := q.UnmarshalBinary(append([]byte{}, b...)); err != nil {
		return
	}
	if err := q.DecryptJoinAcceptPayload(ek); err != nil {
		return
	}
	odec = cq.Ok(framefmt.Phy(q, 0))
	oval = obool(q.ValidateDownlinkJoinMIC(ty, je, dn, k))
	return
}

func wireAcceptCase(s *cases.Set, b []byte, ty lorawan.JoinType, je lorawan.EUI64, dn lorawan.DevNonce, k, ek lorawan.AES128Key, kind, what string) {
	step()
	odec, oval := wireAccept(b, ty, je, dn, k, ek)
	ks := fmt.Sprintf("%s:type=%d:joineui=%s:devnonce=%d:key=%s:enckey=%s:bytes=%s", what, byte(ty), hx(je[:]), uint16(dn), hx(k[:]), hx(ek[:]), hx(b))
	rp := map[string]interface{}{"api": "UnmarshalBinary, DecryptJoinAcceptPayload(enckey), ValidateDownlinkJoinMIC(joinReqType, joinEUI, devNonce, key)", "what": what,
		"joinReqType": byte(ty), "joinEUI": hx(je[:]), "devNonce": uint16(dn), "key": hx(k[:]), "enckey": hx(ek[:]), "bytes": hx(b), "observed": map[string]string{"decrypted": odec, "validate": oval}}
	s.Add(cases.Case{Term: fmt.Sprintf("CWireAccept %d %s %d %s %s %s %s %s", byte(ty), cq.Bytes(je[:]), uint16(dn), cq.Bytes(k[:]), cq.Bytes(ek[:]), cq.Bytes(b), odec, oval),
		Key: ks, Kind: kind, Nontrivial: true, Replay: rp})
	bb := append([]byte{}, b...)
	s.Remember(ks, odec+" "+oval, rp, func() string { a, c := wireAccept(bb, ty, je, dn, k, ek); return a + " " + c })
}

// buildAccept: a join-accept as a specification-conformant network produces it (own CMAC + crypto/aes): MIC over the
// MHDR octet and the payload octets exactly as given (1.1 prefix when the OptNeg bit is set), then aes128_decrypt in
// ECB over payload | MIC.
func buildAccept(mhdr byte, body []byte, ty lorawan.JoinType, je lorawan.EUI64, dn lorawan.DevNonce, k, ek lorawan.AES128Key) []byte {
	var msg []byte
	if body[10]&0x80 != 0 {
		msg = append(msg, byte(ty))
		for j := 7; j >= 0; j-- {
			msg = append(msg, je[j])
		}
		msg = append(msg, byte(dn), byte(dn>>8))
	}
	msg = append(append(msg, mhdr), body...)
	t := micforge.New(k).CMAC(msg)
	pt := append(append([]byte{}, body...), t[:4]...)
	blk, _ := aes.NewCipher(ek[:])
	out := []byte{mhdr}
	for i := 0; i+16 <= len(pt); i += 16 {
		c := make([]byte, 16)
		blk.Decrypt(c, pt[i:i+16])
		out = append(out, c...)
	}
	return out
}

// wireCases: join frames as received. The specification MICs cover the octets as transmitted; the library recomputes
// them from the decoded value, and the decoders drop RFU parts: MHDR bits 4..2 (known C04-2), bits 7..4 of the
// RxDelay octet and octets 12..14 of a channel-mask CFList in a join-accept (known C04-3). These inputs are generated
// under `wire:mhdr-rfu:` / `wire:join-accept-rfu:`; every other change must behave.
func wireCases(s *cases.Set, r *cq.RNG, i int) {
	k, ek := key(r), key(r)
	// --- join-request / rejoin-request
	up := joinFrame(r, []int{0, 2, 3, 4}[i%4])
	if up.SetUplinkJoinMIC(k) == nil {
		if b, err := up.MarshalBinary(); err == nil {
			wireUpCase(s, b, k, "wire-up", "wire:as-sent")
			bits := []byte{0x04, 0x08, 0x10, 0x1c}[i%4]
			c := append([]byte{}, b...)
			c[0] |= bits
			wireUpCase(s, c, k, "wire-mhdr-rfu", fmt.Sprintf("wire:mhdr-rfu:bits=%02x:join-request:mic-of-the-frame-sent-with-rfu-zero", bits))
			t := micforge.New(k).CMAC(c[:len(c)-4])
			copy(c[len(c)-4:], t[:4])
			wireUpCase(s, c, k, "wire-mhdr-rfu", fmt.Sprintf("wire:mhdr-rfu:bits=%02x:join-request:specification-mic-of-the-received-octets", bits))
			c = append([]byte{}, b...)
			pos := 8 + r.Intn((len(c)-1)*8)
			if i%3 == 0 {
				pos = []int{0, 1}[r.Intn(2)] // Major bits
			}
			if c[0]>>5 == 6 && pos/8 == 1 { // the RejoinType octet selects the layout: not a tamper position of interest
				pos += 8
			}
			c[pos/8] ^= 1 << uint(pos%8)
			wireUpCase(s, c, k, "wire-up-bitflip", fmt.Sprintf("wire:bitflip:byte=%d:bit=%d", pos/8, pos%8))
			wireUpCase(s, b, key(r), "wire-up", "wire:other-key")
		}
	}
	// --- join-accept
	ty := joinTypes[i%4]
	je, dn := eui(r), lorawan.DevNonce(r.Intn(65536))
	body := r.Bytes(12)
	body[11] &= 0x0f // RxDelay: bits 7..4 RFU
	switch i % 3 {
	case 1: // channel list (any CFListType other than 1)
		cf := r.Bytes(16)
		cf[15] = []byte{0, 0, 2, 0x7f}[r.Intn(4)]
		body = append(body, cf...)
	case 2: // channel masks, RFU octets zero
		cf := r.Bytes(16)
		cf[12], cf[13], cf[14], cf[15] = 0, 0, 0, 1
		body = append(body, cf...)
	}
	mh := byte(0x20) | byte(r.Intn(4))
	wireAcceptCase(s, buildAccept(mh, body, ty, je, dn, k, ek), ty, je, dn, k, ek, "wire-accept", "wire:as-sent")
	wireAcceptCase(s, buildAccept(mh, body, ty, je, dn, k, ek), ty, je, dn+1, key(r), ek, "wire-accept", "wire:other-key-and-devnonce")
	{ // a field changed after the MIC was made (re-encrypted): rejected
		b2 := append([]byte{}, body...)
		b2[6+r.Intn(4)] ^= 1 << uint(r.Intn(8))
		good := buildAccept(mh, body, ty, je, dn, k, ek)
		blk, _ := aes.NewCipher(ek[:])
		pt := make([]byte, len(good)-1)
		for j := 0; j+16 <= len(pt); j += 16 {
			blk.Encrypt(pt[j:j+16], good[1+j:1+j+16])
		}
		copy(pt, b2)
		out := []byte{mh}
		for j := 0; j+16 <= len(pt); j += 16 {
			c := make([]byte, 16)
			blk.Decrypt(c, pt[j:j+16])
			out = append(out, c...)
		}
		wireAcceptCase(s, out, ty, je, dn, k, ek, "wire-accept", "wire:devaddr-changed-after-mic")
	}
	bits := []byte{0x04, 0x08, 0x10, 0x1c}[i%4]
	wireAcceptCase(s, buildAccept(mh|bits, body, ty, je, dn, k, ek), ty, je, dn, k, ek, "wire-mhdr-rfu", fmt.Sprintf("wire:mhdr-rfu:bits=%02x:join-accept:specification-mic-of-the-received-octets", bits))
	{
		c := buildAccept(mh, body, ty, je, dn, k, ek)
		c[0] |= bits
		wireAcceptCase(s, c, ty, je, dn, k, ek, "wire-mhdr-rfu", fmt.Sprintf("wire:mhdr-rfu:bits=%02x:join-accept:mic-of-the-frame-sent-with-rfu-zero", bits))
	}
	{ // RFU bits of the RxDelay octet set by the sender
		b2 := append([]byte{}, body...)
		b2[11] |= byte(1+r.Intn(15)) << 4
		wireAcceptCase(s, buildAccept(mh, b2, ty, je, dn, k, ek), ty, je, dn, k, ek, "wire-join-accept-rfu", "wire:join-accept-rfu:rxdelay:specification-mic-of-the-received-octets")
	}
	if i%3 == 2 { // RFU octets 12..14 of a channel-mask CFList set by the sender
		b2 := append([]byte{}, body...)
		b2[12+12+r.Intn(3)] = byte(1 + r.Intn(255))
		wireAcceptCase(s, buildAccept(mh, b2, ty, je, dn, k, ek), ty, je, dn, k, ek, "wire-join-accept-rfu", "wire:join-accept-rfu:cflist:specification-mic-of-the-received-octets")
	}
}

// dataFrame / joinFrame: the framefmt generators with the MHDR Major field drawn from all four values (the library
// accepts any; the MHDR octet enters every MIC)
func dataFrame(r *cq.RNG, o framefmt.Opt) lorawan.PHYPayload {
	p := framefmt.DataFrame(r, o)
	p.MHDR.Major = lorawan.Major(r.Intn(4))
	return p
}

func joinFrame(r *cq.RNG, kind int) lorawan.PHYPayload {
	p := framefmt.JoinFrame(r, kind)
	p.MHDR.Major = lorawan.Major(r.Intn(4))
	return p
}

func main() {
	log.SetOutput(io.Discard)
	dir, seed, thorough := cases.Args()
	r := cq.NewRNG(seed)
	nr = cq.NewRNG(seed ^ 0x9e3779b97f4a7c15)
	s := cases.New("C04", dir, "LW.Corr.C04",
		"RFC 4493 examples and the FIPS-197 C.1 decryption first; corpus: join-accept with channel-mask CFList [m0; 0] (C04-1). Join-request and rejoin-request types 0, 1, 2 (palindromic EUIs in 25%), carried MIC valid / random / bit-flipped; join-accept frames with OptNeg both ways, CFList absent / 5 channels / 1..6 masks, JoinNonce 0 and 2^24-1 boundaries, all four JoinReqType values cycled, palindromic and non-palindromic JoinEUI, DevNonce boundaries; EncryptJoinAcceptPayload (device-side aes.Encrypt check in Go and in Coq), Decrypt with the same and with another key, malformed inputs (wrong payload types, lengths not 16/32, JoinNonce >= 2^24). Special MIC values: rejoin-requests type 0/2 CONSTRUCTED (internal/micforge: the single padded CMAC block solved from the tag, ~2^21 trials for pad byte, MHDR and RejoinType) so that their correct MIC is 00000000, ffffffff, 00000001 or the MIC of the previous case; join-accepts carrying these four MIC values through Encrypt / Decrypt (round trip) and Set/Validate. MHDR Major drawn from 0..3 in every generated frame. Octets as received (CWireUp / CWireAccept): join / rejoin requests serialised and join-accepts BUILT per specification (own CMAC + crypto/aes; 12- and 28-octet forms, channel list with CFListType 0/2/0x7f, channel masks), then run through UnmarshalBinary [+ DecryptJoinAcceptPayload] + Validate*JoinMIC: as sent, other key, a field changed after the MIC, a single-bit flip, MHDR RFU bits 04/08/10/1c (known C04-2), RxDelay bits 7..4 and channel-mask CFList octets 12..14 set by the sender (known C04-3); verdict and decrypted payload are compared with the specification computed in Coq from the raw octets. Related formulas: join frames carrying a MIC that is correct under a related formula (own CMAC: 1.0 form and 1.1 form whatever OptNeg says, other key, other JoinReqType, JoinEUI reversed, DevNonce + 1 / byte-swapped, without MHDR, MHDR first; for requests: prefixed, without MHDR, MHDR twice, other key) - and the right MIC validated under a different key that agrees with the right key under CRC-32 x3 / Adler-32 / xor-folds / shared prefix or suffix (internal/collide), then under the right key again - the model decides each verdict. Opaque payloads: join / rejoin frames held as *DataPayload over a window of a receive buffer with spare capacity and sentinels (buffer unchanged, same verdict twice, MIC = typed-frame MIC), ciphertext windows through DecryptJoinAcceptPayload. After every Validate* call the frame must print and marshal as before. Every MIC call is also repeated from 8 goroutines at once. History: unrelated library calls (internal/noise) before every compared call; fail-then-valid families run back to back (a failing Set/Validate/Encrypt call - rejoin payload with the wrong RejoinType, JoinNonce >= 2^24, nil payload - immediately followed by a valid uplink join MIC, join-accept MIC and encryption, and the first valid call again), each compared with model and specification; every MIC call is repeated three times later in the process (reverse, same, shuffled order) and must give its first result. Distinct by construction (random keys) except the repeated calls.")
	s.ShardSize = 150
	n := 400
	if thorough {
		n = 10000
		s.ShardSize = 700
	}
	rfcKey := []byte{0x2b, 0x7e, 0x15, 0x16, 0x28, 0xae, 0xd2, 0xa6, 0xab, 0xf7, 0x15, 0x88, 0x09, 0xcf, 0x4f, 0x3c}
	rfcMsg := []byte{0x6b, 0xc1, 0xbe, 0xe2, 0x2e, 0x40, 0x9f, 0x96, 0xe9, 0x3d, 0x7e, 0x11, 0x73, 0x93, 0x17, 0x2a,
		0xae, 0x2d, 0x8a, 0x57, 0x1e, 0x03, 0xac, 0x9c, 0x9e, 0xb7, 0x6f, 0xac, 0x45, 0xaf, 0x8e, 0x51,
		0x30, 0xc8, 0x1c, 0x46, 0xa3, 0x5c, 0xe4, 0x11, 0xe5, 0xfb, 0xc1, 0x19, 0x1a, 0x0a, 0x52, 0xef,
		0xf6, 0x9f, 0x24, 0x45, 0xdf, 0x4f, 0x9b, 0x17, 0xad, 0x2b, 0x41, 0x7b, 0xe6, 0x6c, 0x37, 0x10}
	for _, l := range []int{0, 16, 40, 64} {
		cmacCase(s, rfcKey, rfcMsg[:l], fmt.Sprintf("rfc4493-len%d", l))
	}
	fipsKey := make([]byte, 16)
	for i := range fipsKey {
		fipsKey[i] = byte(i)
	}
	aesDecCase(s, fipsKey, []byte{0x69, 0xc4, 0xe0, 0xd8, 0x6a, 0x7b, 0x04, 0x30, 0xd8, 0xcd, 0xb7, 0x80, 0x70, 0xb4, 0xc5, 0x5a}, "fips197-c1")
	for i := 0; i < 5; i++ {
		aesDecCase(s, r.Bytes(16), r.Bytes(16), "random")
	}
	// corpus: C04-1 witness
	{
		ja := &lorawan.JoinAcceptPayload{CFList: &lorawan.CFList{CFListType: lorawan.CFListChannelMask,
			Payload: &lorawan.CFListChannelMaskPayload{ChannelMasks: []lorawan.ChMask{{true}, {}}}}}
		p := lorawan.PHYPayload{MHDR: lorawan.MHDR{MType: lorawan.JoinAccept, Major: lorawan.LoRaWANR1}, MACPayload: ja, MIC: lorawan.MIC{1, 2, 3, 4}}
		var k lorawan.AES128Key
		for i := range k {
			k[i] = byte(i + 1)
		}
		encCases(s, p, k, "corpus")
	}
	s.Watchdog(3 * time.Second)
	{
		rounds := 1
		if thorough {
			rounds = 12
		}
		specialMICs(s, r, rounds)
	}
	{ // join-request whose true MIC is 00000000 (checked here with the independent CMAC before it is used)
		k := lorawan.AES128Key{0x2b, 0x7e, 0x15, 0x16, 0x28, 0xae, 0xd2, 0xa6, 0xab, 0xf7, 0x15, 0x88, 0x09, 0xcf, 0x4f, 0x3c}
		jr := lorawan.PHYPayload{MHDR: lorawan.MHDR{MType: lorawan.JoinRequest, Major: lorawan.LoRaWANR1},
			MACPayload: &lorawan.JoinRequestPayload{JoinEUI: lorawan.EUI64{0x70, 0xb3, 0xd5, 0x7e, 0xd0, 0x00, 0x10, 0x2a},
				DevEUI: lorawan.EUI64{0x00, 0x80, 0x00, 0x00, 0xa0, 0x01, 0x56, 0x09}, DevNonce: 38150}}
		msg := []byte{0x00, 0x2a, 0x10, 0x00, 0xd0, 0x7e, 0xd5, 0xb3, 0x70, 0x09, 0x56, 0x01, 0xa0, 0x00, 0x00, 0x80, 0x00, byte(38150 & 0xff), byte(38150 >> 8)}
		if t := micforge.New(k).CMAC(msg); t[0] == 0 && t[1] == 0 && t[2] == 0 && t[3] == 0 {
			upJoin(s, r, jr, k, 0, "forged-mic-00000000")
			upJoin(s, r, jr, k, 3, "forged-mic-00000000")
			s.Extra["join_request_vector_with_mic_00000000"] = "confirmed by the independent CMAC"
		} else {
			s.Extra["join_request_vector_with_mic_00000000"] = "NOT confirmed by the independent CMAC: " + hx(t[:4])
		}
	}
	for i := 0; i < n; i++ {
		how := i % 3
		// uplink join MICs: join-request, rejoin 0, 2, 1
		kindIdx := []int{0, 2, 3, 4}[i%4]
		upJoin(s, r, joinFrame(r, kindIdx), key(r), how, fmt.Sprintf("up-join-kind%d", kindIdx))
		// join-accept MIC
		p := joinFrame(r, 1)
		ja := p.MACPayload.(*lorawan.JoinAcceptPayload)
		ja.DLSettings.OptNeg = (i/2)%2 == 0
		ty := joinTypes[i%4]
		dn := lorawan.DevNonce(r.Intn(65536))
		switch r.Intn(6) {
		case 0:
			dn = 0
		case 1:
			dn = 0xffff
		case 2:
			dn = lorawan.DevNonce(0x0100 * (1 + r.Intn(255))) // low byte zero: byte order visible
		}
		je := eui(r)
		k := key(r)
		downJoin(s, r, p, ty, je, dn, k, how, fmt.Sprintf("down-join-optneg=%v", ja.DLSettings.OptNeg))
		// encryption of a frame that carries its MIC
		p2 := joinFrame(r, 1)
		if err := p2.SetDownlinkJoinMIC(ty, je, dn, k); err != nil {
			copy(p2.MIC[:], r.Bytes(4))
		}
		ek := key(r)
		encCases(s, p2, ek, "encrypt")
		// decryption with another key / of random ciphertext
		if i%3 == 0 {
			p3 := joinFrame(r, 1)
			q := p3
			if encrypt(&q, ek) != cq.Err {
				decCase(s, q, key(r), "decrypt-other-key")
			}
			l := []int{12, 28, 12, 28, 0, 11, 13, 27, 29, 44}[r.Intn(10)]
			rnd := lorawan.PHYPayload{MHDR: lorawan.MHDR{MType: lorawan.JoinAccept, Major: lorawan.Major(r.Intn(4))}, MACPayload: &lorawan.DataPayload{Bytes: r.Bytes(l)}}
			copy(rnd.MIC[:], r.Bytes(4))
			decCase(s, rnd, key(r), "decrypt-random")
		}
		if i%4 == 2 {
			failThenValid(s, r, i/4)
		}
		if i%8 == 1 {
			relatedFormulas(s, r, i/8)
		}
		if i%8 == 5 {
			opaqueJoin(s, r, i/8)
		}
		if i%8 == 3 {
			wireCases(s, r, i/8)
		}
		if i%5 == 0 { // malformed
			m := joinFrame(r, r.Intn(5))
			switch r.Intn(4) {
			case 0:
				m.MACPayload = nil
			case 1:
				if v, ok := m.MACPayload.(*lorawan.JoinAcceptPayload); ok {
					v.JoinNonce = lorawan.JoinNonce(1<<24 + r.Intn(100))
				}
			case 2:
				m.MACPayload = &lorawan.DataPayload{Bytes: r.Bytes(r.Intn(40))}
			}
			switch r.Intn(4) {
			case 0:
				upJoin(s, r, m, key(r), 0, "malformed")
			case 1:
				downJoin(s, r, m, joinTypes[r.Intn(4)], eui(r), lorawan.DevNonce(r.Intn(65536)), key(r), 0, "malformed")
			case 2:
				encCases(s, m, key(r), "malformed")
			default:
				decCase(s, m, key(r), "malformed")
			}
		}
	}
	s.ReplayRemembered(nr.Intn, 3, func() { noise.Step(nr) })
	s.ReplayConcurrently(8, 3, 60*time.Second)
	if err := s.Finish(); err != nil {
		fmt.Fprintln(os.Stderr, err)
		os.Exit(2)
	}
}
