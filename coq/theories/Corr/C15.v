(* Correspondence cases for C15: the channel-plan state machine and its
   accessors against the implementation, the invariants evaluated on the
   observed tables / index lists / answers, and the band outputs pushed
   through the real MAC-layer encoders against the local encoder model. *)
From Coq Require Import List NArith ZArith Bool String.
From LW Require Export Base.Outcome Band.Channels.
From LW Require Import Band.ChannelsSpec Band.Planner Band.PlannerSpec Band.CrossLayer.
From LWGen Require Import ChannelsGen.
Import ListNotations.
Open Scope Z_scope.

(* what the harness reads after the history *)
Record obs := mkObs {
  o_all : list Z; o_std : list Z; o_cus : list Z; o_en : list Z; o_dis : list Z;
  o_up : list (outcome channel);    (* GetUplinkChannel i for i = 0 .. len(o_all)-1 *)
  o_down : list channel;            (* GetDownlinkChannel 0, 1, .. up to the first non-Ok answer *)
  o_cf : list (option cflist)       (* GetCFList for 1.0.0 1.0.1 1.0.2 1.0.3 1.0.4 1.1.0 and "latest" *)
}.

Inductive probe :=
| PUp (i : Z) (o : outcome channel)
| PDown (i : Z) (o : outcome channel)
| PTxp (i : Z) (o : outcome Z)
| PIdx (f : Z) (d : bool) (o : outcome Z)
| PIdxDR (f dr : Z) (o : outcome Z).

(* compact LinkADRReq payload for case files: DataRate TXPower ChMask(value) ChMaskCntl NbRep *)
Definition P (dr txp mask cntl nbrep : N) : payload :=
  mkPayload (Z.of_N dr) (Z.of_N txp) (val_bits 16 (Z.of_N mask)) (Z.of_N cntl) (Z.of_N nbrep).

(* one event of a trace: the state-changing calls AND the observation calls are
   the alphabet; every observation is made on the same long-lived band instance
   at that position of the trace and is compared with the model state at that
   position (the model is pure: an observation never changes the state) *)
Inductive ev :=
| EOp (o : op) (r : outcome unit)
(* one index-list accessor: 0 all, 1 standard, 2 custom, 3 enabled, 4 disabled *)
| EIdx (k : N) (l : list Z)
(* the five index lists read back to back: all standard custom enabled disabled *)
| ELists (all std cus en dis : list Z)
| EProbe (p : probe)
(* GetCFList for the v-th entry of [pversions] *)
| ECF (v : nat) (o : option cflist)
(* GetLinkADRReqPayloadsForEnabledUplinkChannelIndices dev, then the real apply
   on the result, then channel count / enabled / custom lists *)
| EPlan (dev : list Z) (o_plan : outcome (list payload)) (o_apply : outcome (list Z))
        (o_n : Z) (o_en o_cus : list Z)
(* every accessor (the observation of a CHist case) *)
| ESnap (ob : obs) (probes : list probe).

Inductive case :=
| CHist (cfg : nat) (steps : list (op * outcome unit)) (ob : obs) (probes : list probe)
(* a history with interleaved observations *)
| CTrace (cfg : nat) (evs : list ev)
(* one frequency-carrying MAC command: kind, inputs, band-own frequency?, bytes, decoded fields
     0 RXParamSetupReq [f; rx2dr]   1 NewChannelReq [chindex; f; maxdr; mindr]
     2 DLChannelReq [chindex; f]    3 BeaconFreqReq [f]   4 PingSlotChannelReq [f; dr]
   [lo, hi] is the span of the band's own frequencies (channels, RX2, ping-slot) *)
| CFreq (k : N) (ins : list Z) (own : bool) (lo hi : Z) (o_enc : outcome (list N)) (o_dec : outcome (list Z))
(* a CFList offered by a band through CFList.MarshalBinary / UnmarshalBinary *)
| CCFList (cf : cflist) (lo hi : Z) (o_enc : outcome (list N)) (o_dec : outcome cflist)
(* CFList.UnmarshalBinary on arbitrary bytes (in particular band-produced CFLists with the
   RFU bytes 12..14 of a channel-mask CFList overwritten): the decoded value, the result of
   CFList.MarshalBinary on it, and the decoded value of the same bytes with bytes 12..14 zeroed *)
| CCFDec (bs : list N) (o_dec : outcome cflist) (o_re : outcome (list N)) (o_dec0 : outcome cflist).

Definition default_st := mkSt false 0 0 [] [] [] [].
Definition cfg_st (cfg : nat) : st :=
  match nth_error configs cfg with Some (_, _, _, s) => s | None => default_st end.

Definition cfg_name (cfg : nat) : string :=
  match nth_error configs cfg with Some (nm, _, _, _) => nm | None => EmptyString end.
(* the two bands that override the LinkADRReq planner and its inverse *)
Definition us_style (cfg : nat) : bool :=
  String.eqb (cfg_name cfg) "US915" || String.eqb (cfg_name cfg) "AU915".

Definition pversions := [PV_1_0_0; PV_1_0_1; PV_1_0_2; PV_1_0_3; PV_1_0_4; PV_1_1_0; PV_other].

Definition unit_eqb (a b : unit) := true.
Definition och_eqb := outcome_eqb channel_eqb.
Definition oz_eqb := outcome_eqb Z.eqb.
Definition ocf_eqb := option_eqb cflist_eqb.

Definition probe_model (s : st) (p : probe) : bool :=
  match p with
  | PUp i o => och_eqb (get_uplink_channel s i) o
  | PDown i o => och_eqb (get_downlink_channel s i) o
  | PTxp i o => oz_eqb (get_tx_power_offset s i) o
  | PIdx f d o => oz_eqb (get_uplink_channel_index s f d) o
  | PIdxDR f dr o => oz_eqb (get_uplink_channel_index_for_frequency_dr s f dr) o
  end.

Definition ok_channels (l : list (outcome channel)) : list channel :=
  flat_map (fun o => match o with Ok c => [c] | _ => [] end) l.

(* answers required for an index: the entry inside the table, an error outside *)
Definition index_answer_ok {A} (eqb : A -> A -> bool) (t : list A) (i : Z) (o : outcome A) : bool :=
  match zidx_opt t i, o with
  | Some a, Ok b => eqb a b
  | None, Err => true
  | _, _ => false
  end.

Definition probe_prop (s0 : st) (t : list channel) (dn : list channel) (p : probe) : bool :=
  match p with
  | PUp i o => index_answer_ok channel_eqb t i o
  | PDown i o => index_answer_ok channel_eqb dn i o
  | PTxp i o => index_answer_ok Z.eqb (txp s0) i o
  | PIdx f d o =>
    match o with
    | Ok i => if matches_freq t f d i then negb (existsb (matches_freq t f d) (zrange i)) else false
    | Err => negb (existsb (matches_freq t f d) (zrange (zlen t)))
    | _ => false
    end
  | PIdxDR f dr o =>
    match o with
    | Ok i => matches_freq_dr t f dr i
    | Err => negb (existsb (matches_freq_dr t f dr) (zrange (zlen t)))   (* an error only when no channel matches *)
    | _ => false
    end
  end.

(* what AddChannel must accept, written from the statement: the band takes extra channels;
   min <= max and every data-rate of the range is an uplink data-rate of the band; the
   frequency is a multiple of 100 Hz that fits the 24-bit x 100 Hz field, or from 2.4 GHz
   on a multiple of 200 Hz that fits 24 bits x 200 Hz *)
Definition spec_accepts (ext : bool) (drs : list Z) (f mn mx : Z) : bool :=
  ext
  && (if (mn <=? mx) && zin mn drs && zin mx drs
      then forallb (fun d => zin d drs) (map (Z.add mn) (zrange (mx - mn + 1))) else false)
  && (if f <? 2400000000 then (f mod 100 =? 0) && (f / 100 <? 16777216)
      else (f mod 200 =? 0) && (f / 200 <? 16777216)).

(* outcome each call must have, given the number of channels at that moment *)
Fixpoint steps_prop (ext : bool) (drs : list Z) (n : Z) (steps : list (op * outcome unit)) : bool :=
  match steps with
  | [] => true
  | (AddChannel f mn mx, o) :: r =>
    if spec_accepts ext drs f mn mx then is_ok o && steps_prop ext drs (n + 1) r else is_err o && steps_prop ext drs n r
  | (Disable i, o) :: r | (Enable i, o) :: r =>
    (if (0 <=? i) && (i <? n) then is_ok o else is_err o) && steps_prop ext drs n r
  end.

(* channels appended by the successful AddChannel calls, as they were added *)
Definition added (ext : bool) (drs : list Z) (steps : list (op * outcome unit)) : list channel :=
  flat_map (fun so => match so with
                      | (AddChannel f mn mx, _) => if spec_accepts ext drs f mn mx then [mkChannel f mn mx (negb (f =? 0)) true] else []
                      | _ => []
                      end) steps.

Definition freq_kind_model (k : N) (ins : list Z) : outcome (list Z) * (list Z -> outcome (list Z)) :=
  match k, ins with
  | 0%N, [f; d] => (rxparamsetupreq_marshal f d,
                    fun b => omap (fun r => [fst r; snd r]) (rxparamsetupreq_unmarshal b))
  | 1%N, [ch; f; mx; mn] => (newchannelreq_marshal ch f mx mn,
                    fun b => omap (fun r => match r with (c, f', x, n) => [c; f'; x; n] end) (newchannelreq_unmarshal b))
  | 2%N, [ch; f] => (dlchannelreq_marshal ch f, fun b => omap (fun r => [fst r; snd r]) (dlchannelreq_unmarshal b))
  | 3%N, [f] => (beaconfreqreq_marshal f, fun b => omap (fun r => [r]) (beaconfreqreq_unmarshal b))
  | 4%N, [f; d] => (pingslotchannelreq_marshal f d, fun b => omap (fun r => [fst r; snd r]) (pingslotchannelreq_unmarshal b))
  | _, _ => (Panic, fun _ => Panic)
  end.

(* premise under which a user-supplied value must survive the encoder: data-rates
   0..15; frequency a multiple of 100 Hz that is below 2^24*100 Hz or lies inside
   the span of the band's own frequencies (NewChannelReq: its own 200 Hz rule
   from 2.4 GHz instead) *)
Definition dr_ok (d : Z) : bool := (0 <=? d) && (d <=? 15).
Definition user_freq_ok (lo hi f : Z) : bool :=
  freq_ok f || ((f mod 100 =? 0) && (lo <=? f) && (f <=? hi)).
Definition newchannel_user_freq_ok (f : Z) : bool :=
  freq_ok f || ((2400000000 <=? f) && (f mod 200 =? 0) && (f / 200 <? 16777216)).
Definition freq_kind_premise (lo hi : Z) (k : N) (ins : list Z) : bool :=
  match k, ins with
  | 0%N, [f; d] => user_freq_ok lo hi f && dr_ok d
  | 1%N, [ch; f; mx; mn] => newchannel_user_freq_ok f && dr_ok mx && dr_ok mn
  (* every channel AddChannel accepted must be conveyable to the device *)
  | 2%N, [ch; f] => user_freq_ok lo hi f || valid_channel_freq f
  | 3%N, [f] => user_freq_ok lo hi f
  | 4%N, [f; d] => user_freq_ok lo hi f && dr_ok d
  | _, _ => false
  end.

Definition zs_eqb := outcome_eqb zlist_eqb.

(* the complete observation [ob]/[probes] against the model state [s] *)
Definition snap_model (s : st) (ob : obs) (probes : list probe) : bool :=
  let n := zlen (o_all ob) in
  zlist_eqb (get_uplink_channel_indices s) (o_all ob)
  && zlist_eqb (get_standard_uplink_channel_indices s) (o_std ob)
  && zlist_eqb (get_custom_uplink_channel_indices s) (o_cus ob)
  && zlist_eqb (get_enabled_uplink_channel_indices s) (o_en ob)
  && zlist_eqb (get_disabled_uplink_channel_indices s) (o_dis ob)
  && list_eqb och_eqb (map (get_uplink_channel s) (zrange n)) (o_up ob)
  && list_eqb channel_eqb (down s) (o_down ob)
  && list_eqb ocf_eqb (map (get_cflist s) pversions) (o_cf ob)
  && forallb (probe_model s) probes.

(* the property on the observed values, given the initial configuration and the
   calls made so far *)
Definition snap_prop (s0 : st) (steps : list (op * outcome unit)) (ob : obs) (probes : list probe) : bool :=
  let n := zlen (o_all ob) in
  let t := ok_channels (o_up ob) in
  let n0 := zlen (up s0) in
  (* calls report errors exactly for unsupported additions and invalid indices; never panic *)
  steps_prop (extra s0) (updr s0) n0 steps
  (* index sets *)
  && zlist_eqb (o_all ob) (zrange n)
  && partition_of n (o_en ob) (o_dis ob)
  && partition_of n (o_std ob) (o_cus ob)
  && (Z.of_nat (List.length t) =? n)
  && forallb (fun ic => Bool.eqb (enabled (snd ic)) (zin (fst ic) (o_en ob))
                        && Bool.eqb (custom (snd ic)) (zin (fst ic) (o_cus ob)))
             (combine (zrange n) t)
  (* the band's own channels are never altered; additions are appended as custom *)
  && extends (up s0) t
  && list_eqb same_identity t (up s0 ++ added (extra s0) (updr s0) steps)
  && list_eqb channel_eqb (o_down ob) (down s0 ++ added (extra s0) (updr s0) steps)
  (* every channel the band reports has a data-rate range made of uplink data-rates of the band *)
  && forallb (fun c => (minDR c <=? maxDR c) && zin (minDR c) (updr s0) && zin (maxDR c) (updr s0)) t
  (* CFList content *)
  && list_eqb ocf_eqb (o_cf ob) (map (spec_cflist (extra s0) (cfmin s0) (cfmax s0) t) pversions)
  (* lookups and invalid indices *)
  && forallb (probe_prop s0 t (o_down ob)) probes.

(* ---- traces ------------------------------------------------------------- *)

Definition payload_eqb (a b : payload) : bool :=
  (p_dr a =? p_dr b) && (p_txp a =? p_txp b) && list_eqb Bool.eqb (p_mask a) (p_mask b)
  && (p_cntl a =? p_cntl b) && (p_nbrep a =? p_nbrep b).
Definition plan_eqb := outcome_eqb (list_eqb payload_eqb).
Definition ozs_eqb := outcome_eqb zlist_eqb.

Definition idx_model (s : st) (k : N) : list Z :=
  match k with
  | 0%N => get_uplink_channel_indices s
  | 1%N => get_standard_uplink_channel_indices s
  | 2%N => get_custom_uplink_channel_indices s
  | 3%N => get_enabled_uplink_channel_indices s
  | _ => get_disabled_uplink_channel_indices s
  end.

(* number of channels the band must have after the calls made so far: the
   initial ones plus one per accepted AddChannel *)
Definition expected_n (s0 : st) (steps : list (op * outcome unit)) : Z :=
  zlen (up s0) + zlen (added (extra s0) (updr s0) steps).

Definition index_in (n : Z) (i : Z) : bool := (0 <=? i) && (i <? n).
Definition answer_inside {A} (n i : Z) (o : outcome A) : bool :=
  match o with Ok _ => index_in n i | Err => negb (index_in n i) | _ => false end.

(* what can be required of a single observation without the rest of the state:
   index lists strictly ascending inside 0..n-1 (all = 0..n-1, standard = 0..n0-1,
   custom = n0..n-1); index answers Ok exactly inside the table; lookups answer an
   existing index or an error; a CFList has five entries / at least one 16-bit mask *)
Definition idx_prop (n0 n : Z) (k : N) (l : list Z) : bool :=
  ascending l && forallb (index_in n) l
  && match k with
     | 0%N => zlist_eqb l (zrange n)
     | 1%N => zlist_eqb l (zrange n0)
     | 2%N => zlist_eqb l (map (Z.add n0) (zrange (n - n0)))
     | _ => true
     end.

Definition probe_light (s0 : st) (n : Z) (p : probe) : bool :=
  match p with
  | PUp i o => answer_inside n i o
  | PDown i o => answer_inside (zlen (down s0) + (n - zlen (up s0))) i o
  | PTxp i o => index_answer_ok Z.eqb (txp s0) i o
  | PIdx _ _ o | PIdxDR _ _ o => match o with Ok i => index_in n i | Err => true | _ => false end
  end.

Definition cf_light (o : option cflist) : bool :=
  match o with
  | None => true
  | Some (CFChannels fs) => (List.length fs =? 5)%nat
  | Some (CFMasks ms) => negb (List.length ms =? 0)%nat && forallb (fun m => (List.length m =? 16)%nat) ms
  end.

Definition target_obs (n : Z) (en cus dev : list Z) : list Z :=
  filter (fun i => zin i en && (negb (zin i cus) || zin i dev)) (zrange n).

(* walks the events; [s] = model state, [steps] = calls so far (reversed);
   returns (model_ok, prop_ok) *)
Fixpoint trace_go (us : bool) (s0 s : st) (steps : list (op * outcome unit)) (evs : list ev) : bool * bool :=
  match evs with
  | [] => (true, steps_prop (extra s0) (updr s0) (zlen (up s0)) (rev steps))
  | e :: rest =>
    let n := expected_n s0 steps in
    let '(s', steps', m, p) :=
      match e with
      | EOp o r => let sr := step s o in (fst sr, (o, r) :: steps, outcome_eqb unit_eqb (snd sr) r, negb (is_panic r))
      | EIdx k l => (s, steps, zlist_eqb (idx_model s k) l, idx_prop (zlen (up s0)) n k l)
      | ELists all std cus en dis =>
        (s, steps,
         zlist_eqb (get_uplink_channel_indices s) all && zlist_eqb (get_standard_uplink_channel_indices s) std
         && zlist_eqb (get_custom_uplink_channel_indices s) cus && zlist_eqb (get_enabled_uplink_channel_indices s) en
         && zlist_eqb (get_disabled_uplink_channel_indices s) dis,
         zlist_eqb all (zrange n) && partition_of n en dis && partition_of n std cus
         && idx_prop (zlen (up s0)) n 1 std && idx_prop (zlen (up s0)) n 2 cus)
      | EProbe pr => (s, steps, probe_model s pr, probe_light s0 n pr)
      | ECF v o => (s, steps, ocf_eqb (get_cflist s (nth v pversions PV_other)) o, cf_light o)
      | EPlan dev o_plan o_apply o_n o_en o_cus =>
        let pls := match o_plan with Ok l => l | _ => [] end in
        (s, steps,
         plan_eqb (plan us 16 s dev) o_plan && ozs_eqb (apply us 16 s dev pls) o_apply
         && (zlen (up s) =? o_n) && zlist_eqb (get_enabled_uplink_channel_indices s) o_en
         && zlist_eqb (get_custom_uplink_channel_indices s) o_cus,
         is_ok o_plan && negb (is_panic o_apply) && (o_n =? n)
         && (if o_n <=? 256 then ozs_eqb o_apply (Ok (target_obs o_n o_en o_cus dev)) else true)
         && (Z.of_nat (List.length pls) <=? blocks 16 o_n + 1)
         && (if o_n <=? 128 then forallb encodable pls else true))
      | ESnap ob probes => (s, steps, snap_model s ob probes, snap_prop s0 (rev steps) ob probes)
      end in
    let r := trace_go us s0 s' steps' rest in
    (m && fst r, p && snd r)
  end.

Definition check (c : case) : N :=
  match c with
  | CHist cfg steps ob probes =>
    let s0 := cfg_st cfg in
    let ops := map fst steps in
    let s := run s0 ops in
    code (list_eqb (outcome_eqb unit_eqb) (run_outcomes s0 ops) (map snd steps) && snap_model s ob probes)
         (snap_prop s0 steps ob probes)
  | CTrace cfg evs =>
    let s0 := cfg_st cfg in
    let r := trace_go (us_style cfg) s0 s0 [] evs in
    code (fst r) (snd r)
  | CFreq k ins own lo hi o_enc o_dec =>
    let m := freq_kind_model k ins in
    let oe := omap (map Z.of_N) o_enc in
    code (zs_eqb (fst m) oe && zs_eqb (match oe with Ok b => snd m b | _ => Err end) o_dec)
         (negb (is_panic o_enc) && negb (is_panic o_dec)
          && (if own || freq_kind_premise lo hi k ins then zs_eqb o_dec (Ok ins) else true)
          (* lossless or refused, for EVERY input: what the encoder accepts decodes to the same values *)
          && match o_enc with Ok _ => zs_eqb o_dec (Ok ins) | _ => true end)
  | CCFList cf lo hi o_enc o_dec =>
    let oe := omap (map Z.of_N) o_enc in
    code (zs_eqb (cflist_marshal cf) oe
          && outcome_eqb cflist_eqb (match oe with Ok b => cflist_unmarshal b | _ => Err end) o_dec)
         (negb (is_panic o_enc) && negb (is_panic o_dec)
          && match cf with
             | CFChannels fs =>
               (if forallb (fun f => (f =? 0) || user_freq_ok lo hi f || valid_channel_freq f) fs then outcome_eqb cflist_eqb o_dec (Ok cf) else true)
               && match o_enc with Ok _ => outcome_eqb cflist_eqb o_dec (Ok cf) | _ => true end
             | CFMasks ms => outcome_eqb cflist_eqb o_dec (Ok cf)
             end)
  | CCFDec bs o_dec o_re o_dec0 =>
    let zb := map Z.of_N bs in
    let is_masks := (List.length bs =? 16)%nat && (nth 15 zb 0 =? 1) in
    code (outcome_eqb cflist_eqb (cflist_unmarshal zb) o_dec)
         (negb (is_panic o_dec) && negb (is_panic o_re)
          (* 16 bytes decode, anything else is an error *)
          && Bool.eqb (is_ok o_dec) (List.length bs =? 16)%nat
          (* what was decoded can be encoded again *)
          && (if is_ok o_dec then is_ok o_re else true)
          (* a channel-mask CFList holds at most six masks of 16 bits; bytes 12..14 are RFU *)
          && (if is_masks
              then match o_dec with
                   | Ok (CFMasks ms) => (List.length ms <=? 6)%nat && forallb (fun m => (List.length m =? 16)%nat) ms
                   | _ => false
                   end && outcome_eqb cflist_eqb o_dec o_dec0
              else true))
  end.

Definition run_cases := run_with check.
