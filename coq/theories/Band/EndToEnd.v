(* Theorems that put the pieces together for the real bands: every dumped band
   configuration, every history, every device channel list (C14); CFLists the
   band offers through the encoder model (C15); refutation witnesses for the
   recorded findings. *)
From Coq Require Import List ZArith Bool String Lia ZifyBool ZifyNat.
From LW Require Import Base.Outcome Band.Channels Band.ChannelsSpec Band.Planner Band.PlannerSpec Band.CrossLayer
  Band.ListLemmas Band.PlannerProofs Band.PlannerUSProofs Band.PlannerKnown Band.ChannelsProofs Band.CrossLayerProofs Band.ChannelsGenProofs.
From LWGen Require Import ChannelsGen KnownGen.
Import ListNotations.
Open Scope Z_scope.
Ltac Zify.zify_post_hook ::= Z.div_mod_to_equations.

Lemma adds_false drs ops : adds false drs ops = [].
Proof. induction ops as [|o ops IH]; [reflexivity|]. rewrite adds_cons, IH. destruct o; reflexivity. Qed.

(* bands without AddChannel keep their table shape under every history *)
Lemma us_layout_preserved (s : st) ops : us_layout s -> extra s = false -> us_layout (run s ops).
Proof.
  intros [Hn Hc] X. destruct (run_tables ops s) as [_ [_ [_ [_ [_ U]]]]].
  rewrite X, adds_false, app_nil_r in U. split.
  - assert (L : List.length (map ident (up (run s ops))) = List.length (map ident (up s))) by now rewrite U.
    rewrite !map_length in L. unfold zlen in *. lia.
  - intros c Hin. apply In_nth_error in Hin as [i Hi].
    destruct (ident_nth _ _ _ _ (eq_sym U) Hi) as [c' [N I]].
    unfold ident in I. injection I as _ _ _ C. rewrite <- C. apply Hc. now apply nth_error_In in N.
Qed.

Definition in_rangeP (n : Z) (dev : list Z) : Prop := forall c, In c dev -> 0 <= c < n.

(* C14 for the bands that exist: any configuration, any history, ANY device list
   (entries outside the plan included: they are dropped by the planner since the fix for
   finding C14-4 and ignored by the apply functions) *)
Theorem all_bands_sound nm rep dw s0 ops dev :
  In (nm, rep, dw, s0) configs ->
  let s := run s0 ops in
  zlen (up s) <= 256 ->
  exists pls, plan (us_like nm) 16 s dev = Ok pls /\ apply (us_like nm) 16 s dev pls = Ok (target s dev).
Proof.
  intros Hin s Hn. destruct (configs_spec nm rep dw s0 Hin) as [_ [HU _]].
  unfold plan, apply. destruct (us_like nm) eqn:U.
  - destruct (HU eq_refl) as [HL X]. pose proof (us_layout_preserved s0 ops HL X) as HL'. fold s in HL'.
    destruct (us_sound_all s dev HL') as [pls [E A]].
    exists pls. split; [exact E|]. now rewrite (target_us s dev HL').
  - apply (generic_sound_all 16 ltac:(lia) s dev Hn).
Qed.

Theorem all_bands_count nm s dev :
  exists pls, plan (us_like nm) 16 s dev = Ok pls /\ Z.of_nat (List.length pls) <= blocks 16 (zlen (up s)).
Proof.
  unfold plan. destruct (us_like nm); [apply us_count_all|]. apply generic_count_all. lia.
Qed.

Theorem all_bands_noop nm s dev : same_set dev (target s dev) -> plan (us_like nm) 16 s dev = Ok [].
Proof.
  intros H. unfold plan. destruct (us_like nm); [now apply us_noop_all|now apply generic_noop_all].
Qed.

Theorem all_bands_encodable nm rep dw s0 ops dev :
  In (nm, rep, dw, s0) configs ->
  let s := run s0 ops in
  zlen (up s) <= 128 ->
  exists pls, plan (us_like nm) 16 s dev = Ok pls /\
    forall p, In p pls -> encodable p = true /\
      exists bs, linkadrreq_marshal p = Ok bs /\ linkadrreq_unmarshal bs = Ok p.
Proof.
  intros Hin s Hn. destruct (configs_spec nm rep dw s0 Hin) as [_ [HU _]].
  assert (X : exists pls, plan (us_like nm) 16 s dev = Ok pls /\ forallb encodable pls = true).
  { unfold plan. destruct (us_like nm) eqn:U.
    - destruct (HU eq_refl) as [HL X]. pose proof (us_layout_preserved s0 ops HL X) as HL'. fold s in HL'.
      now apply us_encodable_all.
    - now apply generic_encodable_all. }
  destruct X as [pls [E F]]. exists pls. split; [exact E|]. intros p Hp.
  rewrite forallb_forall in F. specialize (F p Hp). split; [exact F|].
  destruct (linkadrreq_roundtrip p F) as [bs [M [_ [_ R]]]]. eauto.
Qed.

(* ---- refutation witnesses for the findings C14-1 and C14-2 ---------------------------------- *)

Definition std_ch := mkChannel 868100000 0 5 true false.
Definition cus_ch (en : bool) := mkChannel 867100000 0 5 en true.
Definition big_state (k : nat) : st :=
  let u := repeat std_ch 3 ++ repeat (cus_ch true) k ++ [cus_ch false] ++ repeat (cus_ch true) 2 in
  mkSt true 0 5 u u [] [0; 1; 2; 3; 4; 5; 6; 7].

Theorem encodable_refuted_129 :
  exists s dev pls, zlen (up s) = 133 /\ in_range 133 dev = true /\
    plan_generic 16 s dev = Ok pls /\ forallb encodable pls = false.
Proof.
  exists (big_state 127), [0; 1; 2; 130].
  eexists. split; [reflexivity|]. split; [reflexivity|]. split; [vm_compute; reflexivity|]. vm_compute. reflexivity.
Qed.

Theorem sound_refuted_257 :
  exists s dev pls, zlen (up s) = 261 /\ in_range 261 dev = true /\
    plan_generic 16 s dev = Ok pls /\ apply_generic 16 s dev pls = Ok [258] /\
    target s dev = [0; 1; 2].
Proof.
  exists (big_state 255), [0; 1; 2; 258].
  eexists. split; [reflexivity|]. split; [reflexivity|]. split; [vm_compute; reflexivity|].
  split; vm_compute; reflexivity.
Qed.

(* ---- CFLists a band offers, through the encoder model ----------------------------------------- *)

Theorem offered_channel_cflist_encodes (s : st) (v : pversion) fs :
  get_cflist s v = Some (CFChannels fs) ->
  (forall c, In c (up s) -> custom c = true -> freq_ok (freq c) = true) ->
  exists bs, cflist_marshal (CFChannels fs) = Ok bs /\ List.length bs = 16%nat /\
             cflist_unmarshal bs = Ok (CFChannels fs).
Proof.
  intros G H. apply cflist_channels_roundtrip.
  - rewrite get_cflist_spec in G. unfold spec_cflist in G.
    destruct (extra s); [|destruct (pv_before_103 v); discriminate].
    unfold spec_cflist_channels in G.
    set (l := map freq (firstn 5 (filter (fun c => custom c && (minDR c =? cfmin s) && (maxDR c =? cfmax s)) (up s)))) in *.
    assert (L : (List.length l <= 5)%nat) by (unfold l; rewrite map_length; apply firstn_le_length).
    destruct (forallb (fun f => f =? 0) l); [discriminate|].
    assert (X : fs = l ++ repeat 0 (5 - List.length l)) by congruence.
    rewrite X, app_length, repeat_length. lia.
  - apply Forall_forall. intros f Hf. destruct (cflist_only_custom s v fs f G Hf) as [->|[c [Hc [C <-]]]]; [reflexivity|auto].
Qed.

Lemma spec_masks_shape (t : list channel) : zlen t <= 96 ->
  exists ms, spec_cflist_masks t = CFMasks ms /\ (List.length ms <= 6)%nat /\ Forall (fun m => List.length m = 16%nat) ms.
Proof.
  intros Hn. unfold spec_cflist_masks. eexists. split; [reflexivity|]. split.
  - rewrite map_length, seq_length. unfold zlen in Hn. lia.
  - apply Forall_forall. intros m Hm. apply in_map_iff in Hm as [k [<- _]]. now rewrite map_length, seq_length.
Qed.

Theorem offered_mask_cflist_encodes (s : st) (v : pversion) ms :
  get_cflist s v = Some (CFMasks ms) -> zlen (up s) <= 96 ->
  exists bs, cflist_marshal (CFMasks ms) = Ok bs /\ List.length bs = 16%nat /\
             cflist_unmarshal bs = Ok (CFMasks (strip_trailing_zero_masks ms)).
Proof.
  intros G Hn. rewrite get_cflist_spec in G. unfold spec_cflist in G.
  destruct (extra s).
  { unfold spec_cflist_channels in G. destruct (forallb _ _); discriminate. }
  destruct (pv_before_103 v); [discriminate|].
  destruct (spec_masks_shape (up s) Hn) as [ms' [E [L F]]]. rewrite E in G. injection G as <-.
  now apply cflist_masks_roundtrip.
Qed.
