(* MIC validation of octets as received (LW.Sec.WireMIC): for octets whose RFU parts
   are zero the verdict is exactly "carried MIC = specification MIC over the received
   octets"; with RFU parts set the statement is false (witnesses) - the library hashes a
   re-encoding of the decoded value and the decoders drop RFU parts
   (known findings C02-1, C02-2, C04-2, C04-3; C05-2 is the end-to-end instance). *)
From Coq Require Import List NArith ZArith Bool Lia Arith.
From Coq Require Import ZifyN ZifyNat ZifyBool.
From LW Require Import Base.Outcome Base.Bytes Crypto.AES Crypto.CMAC Mac.Commands Mac.Stream
     Frame.Model Frame.Spec Frame.CanonProofs
     Sec.MIC Sec.MICSpec Sec.MICProofs Sec.Encrypt Sec.JoinAccept Sec.JoinSpec Sec.EndToEnd Sec.EndToEndProofs Sec.WireMIC.
From LWGen Require Import RegistryGen.
Import ListNotations.
Open Scope N_scope.
Ltac Zify.zify_post_hook ::= Z.div_mod_to_equations.

(* ---- data frames ---- *)
Lemma wire_validate_data_rx reg ver up conf txdr txch fk sk full bs :
  wire_validate_data false reg ver up conf txdr txch fk sk full bs
  = rx_validate ver up (mkKeys fk sk [] []) (mkParams conf txdr txch) full bs.
Proof. reflexivity. Qed.

(* every received octet string (octets < 256) whose MHDR RFU bits are zero, validated before any decoding, by a
   receiver whose counter extends the 16 bits on the wire: the verdict is the comparison of the last four octets
   with the specification MIC over all the others - every octet of msg is authenticated *)
Theorem data_wire_validate reg ver up conf txdr txch fk sk full bs b :
  Forall (fun x => x < 256) bs -> rfu_zero bs = true ->
  wire_validate_data false reg ver up conf txdr txch fk sk full bs = Ok b ->
  exists p m,
    phy_unmarshal bs = Ok p /\ pl p = PLMac m /\
    (full mod 65536 = fcnt (hdr m) mod 65536 -> length (devaddr (hdr m)) = 4%nat -> (length bs - 4 < 256)%nat ->
     b = bytes_eqb (skipn (length bs - 4) bs)
                   (if up then spec_up_mic (spec_version ver) fk sk conf txdr txch (ack (fc (hdr m))) (devaddr (hdr m)) full
                                            (firstn (length bs - 4) bs)
                    else spec_down_mic (spec_version ver) sk conf (ack (fc (hdr m))) (devaddr (hdr m)) full
                                       (firstn (length bs - 4) bs))).
Proof.
  intros Hb Hr H. rewrite wire_validate_data_rx in H.
  destruct (tamper_received_bytes _ _ _ _ _ _ _ Hb Hr H) as (p & m & Hu & Hp & Hs).
  exists p, m. split; [exact Hu|]. split; [exact Hp|]. intros H1 H2 H3. rewrite (Hs H1 H2 H3).
  unfold spec_data_mic. destruct up; reflexivity.
Qed.

(* C02-1: without the RFU premise the statement is false (the C05-2 octets: MHDR 0x44) *)
Theorem data_wire_mhdr_rfu_refuted :
  rfu_zero c05_2_bytes = false /\
  wire_validate_data false builtin_registry LoRaWAN1_0 true 0 0 0 (fnwksint c05_2_keys) (snwksint c05_2_keys) 5 c05_2_bytes = Ok true /\
  (let '(carried, specified, _) :=
       match wire_spec_data LoRaWAN1_0 true 0 0 0 (fnwksint c05_2_keys) (snwksint c05_2_keys) 5 c05_2_bytes with
       | Some x => x | None => ([], [], 0) end in
   bytes_eqb carried specified) = false.
Proof. repeat split; vm_compute; reflexivity. Qed.

(* C02-2: validation after DecodeFOptsToMACCommands.  A 1.0 uplink with FOpts = LinkADRAns 03 07, signed; in flight
   the status octet becomes ff (RFU bits 7..3).  Before decoding the frame is rejected, after decoding it is accepted. *)
Definition c02_2_key : list N := map N.of_nat (seq 1 16).
Definition c02_2_frame : phy :=
  mkPHY UnconfirmedDataUp 0
        (PLMac (mkMAC (mkFHDR [1; 2; 3; 4] (mkFCtrl false false false false false 0) 3 [IData [3; 7]]) (Some 10) [IData [1; 2; 3; 4]]))
        [0; 0; 0; 0].
Definition c02_2_sent : list N :=
  Eval vm_compute in
    match (do q <- set_up_mic LoRaWAN1_0 0 0 0 c02_2_key c02_2_key c02_2_frame; phy_marshal q) with Ok b => b | _ => [] end.
(* octet 9 = MHDR 1 + DevAddr 4 + FCtrl 1 + FCnt 2 + CID 1 *)
Definition c02_2_received : list N := firstn 9 c02_2_sent ++ [255] ++ skipn 10 c02_2_sent.

Theorem data_wire_after_decode_refuted :
  nth 9 c02_2_sent 0 = 7 /\ rfu_zero c02_2_received = true /\
  wire_validate_data false builtin_registry LoRaWAN1_0 true 0 0 0 c02_2_key c02_2_key 3 c02_2_sent = Ok true /\
  wire_validate_data false builtin_registry LoRaWAN1_0 true 0 0 0 c02_2_key c02_2_key 3 c02_2_received = Ok false /\
  wire_validate_data true builtin_registry LoRaWAN1_0 true 0 0 0 c02_2_key c02_2_key 3 c02_2_received = Ok true.
Proof. repeat split; vm_compute; reflexivity. Qed.

(* ---- join-request / rejoin-request ---- *)
Theorem up_join_wire_validate key bs b :
  Forall (fun x => x < 256) bs -> rfu_zero bs = true ->
  wire_validate_up_join key bs = Ok b ->
  b = bytes_eqb (skipn (length bs - 4) bs) (mic_of key (firstn (length bs - 4) bs)).
Proof.
  intros Hb Hr. unfold wire_validate_up_join.
  destruct (phy_unmarshal bs) as [p| | |] eqn:Hu; cbn [bind]; try discriminate.
  pose proof (phy_canonical bs p Hb Hr Hu) as Hm.
  pose proof (phy_unmarshal_mic _ _ Hu) as Hmic.
  assert (H4 : length (mic p) = 4%nat).
  { rewrite Hmic, skipn_length. unfold phy_unmarshal in Hu.
    destruct (length bs <? 5)%nat eqn:E; [discriminate|]. apply Nat.ltb_ge in E. lia. }
  unfold validate_up_join_mic, calc_up_join_mic. unfold phy_marshal in Hm.
  destruct (pl p) eqn:Hp; try discriminate;
    (destruct (payload_marshal _) as [body| | |]; cbn [bind] in *; try discriminate;
     injection Hm as Hbs; intros Hv;
     assert (Eb : b = bytes_eqb (mic p) (firstn 4 (cmac key (mhdr_marshal (mtype p) (major p) :: body)))) by congruence;
     rewrite Eb, <- Hmic; f_equal; unfold mic_of; f_equal; f_equal;
     rewrite <- Hbs; cbn [app]; rewrite app_comm_cons;
     replace (length ((mhdr_marshal (mtype p) (major p) :: body) ++ mic p) - 4)%nat
       with (length (mhdr_marshal (mtype p) (major p) :: body)) by (rewrite app_length; lia);
     symmetry; apply take_app_length).
Qed.

(* C04-2: a join-request whose MHDR bit 2 is set in flight still validates *)
Definition c04_2_key : list N := map N.of_nat (seq 1 16).
Definition c04_2_sent : list N :=
  Eval vm_compute in
    match (do q <- set_up_join_mic c04_2_key (mkPHY JoinRequest 0 (PLJoinRequest [0;0;0;0;0;0;0;1] [0;0;0;0;0;0;0;2] 4660) [0;0;0;0]);
           phy_marshal q) with Ok b => b | _ => [] end.
Definition c04_2_received : list N := 4 :: skipn 1 c04_2_sent.

Theorem up_join_wire_mhdr_rfu_refuted :
  rfu_zero c04_2_received = false /\
  wire_validate_up_join c04_2_key c04_2_sent = Ok true /\
  wire_validate_up_join c04_2_key c04_2_received = Ok true /\
  (let '(carried, specified) := wire_spec_up_join c04_2_key c04_2_received in bytes_eqb carried specified) = false.
Proof. repeat split; vm_compute; reflexivity. Qed.

(* C04-3: a join-accept built per specification whose RxDelay octet is 0x11 (Del = 1, RFU bit 4 set): the device
   decrypts it, but the decoded payload re-encodes to other octets and the specification MIC is rejected; the same
   frame with RxDelay 0x01 is accepted *)
Definition c04_3_key : list N := map N.of_nat (seq 1 16).
Definition c04_3_body (rxdelay : N) : list N := [1; 2; 3; 3; 2; 1; 4; 3; 2; 1; 0; rxdelay].
Definition c04_3_wire (rxdelay : N) : list N :=
  32 :: spec_join_accept_ciphertext c04_3_key (c04_3_body rxdelay) (spec_join_accept_mic_10 c04_3_key 32 (c04_3_body rxdelay)).

Theorem join_accept_wire_rfu_refuted :
  (exists q, wire_join_accept 255 [0;0;0;0;0;0;0;0] 0 c04_3_key c04_3_key (c04_3_wire 1) = Ok (q, true)
             /\ payload_marshal (pl q) = Ok (c04_3_body 1)) /\
  (exists q, wire_join_accept 255 [0;0;0;0;0;0;0;0] 0 c04_3_key c04_3_key (c04_3_wire 17) = Ok (q, false)
             /\ payload_marshal (pl q) = Ok (c04_3_body 1)) /\
  match wire_spec_join_accept 255 [0;0;0;0;0;0;0;0] 0 c04_3_key c04_3_key (c04_3_wire 17) with
  | Some (body, carried, specified) => body = c04_3_body 17 /\ bytes_eqb carried specified = true
  | None => False
  end.
Proof.
  split; [eexists; split; vm_compute; reflexivity|].
  split; [eexists; split; vm_compute; reflexivity|].
  vm_compute. split; reflexivity.
Qed.
