(* C18 - application-layer package commands; multicast keys (statements follow) *)
From Coq Require Import List NArith ZArith Bool.
From LW Require Import Base.Outcome Base.Bytes.
