(* Correspondence cases for C17: Frequency / Percentage JSON conversions
   (primitive floats), HEXBytes text form, key envelopes (KEKs of every length:
   AES-128/192/256 and the key-size error), ISO8601Time text form (RFC 3339). *)
From Coq Require Import List NArith ZArith Floats Bool.
From LW Require Import Base.Outcome Base.Bytes Base.Hex Crypto.KeyWrap Crypto.KeyWrapAny
  Backend.F64 Backend.HexBytes Backend.KeyEnvelope Backend.KeyEnvelopeAny Backend.Iso8601.
From LW Require Export Backend.F64 Backend.Json Backend.Payload Backend.PayloadTables.   (* the case files spell trees, values and type tables with their names *)
Import ListNotations.
Open Scope Z_scope.

(* observed floats are given exactly as m * 2^e with |m| < 2^53 *)
Inductive case :=
(* Frequency f Hz: float printed by MarshalJSON (m, e), value decoded back from that text *)
| CFreq (f : Z) (m e : Z) (o_back : Z)
| CPct (p : Z) (m e : Z) (o_back : Z)
(* UnmarshalJSON of an arbitrary number (as parsed by strconv): observed value *)
| CFreqText (m e : Z) (o : Z)
| CPctText (m e : Z) (o : Z)
(* HEXBytes: value -> MarshalText -> UnmarshalText, also with "0x" in front *)
| CHexRT (bs : list N) (o_text : list N) (o_back o_back0x : outcome (list N))
(* compact form used for long values: both UnmarshalText results were observed to be Ok bs *)
| CHexRTSame (bs : list N) (o_text : list N)
| CHexText (text : list N) (o : outcome (list N))
(* NewKeyEnvelope(label, kek, key): observed (KEKLabel, AESKey) and what Unwrap(kek) then returns *)
| CEnvNew (label kek key : list N) (o : outcome (list N * list N)) (o_unwrap : outcome (list N))
(* KeyEnvelope{AESKey}.Unwrap(kek) on arbitrary data *)
| CEnvUnwrap (aeskey kek : list N) (o : outcome (list N))
(* ISO8601Time of the instant (unix seconds, zone offset in seconds): text printed by MarshalText and what
   UnmarshalText makes of that text (Some (unix seconds, zone offset) / None = error) *)
| CTime (secs off : Z) (text : list N) (parsed : option (Z * Z))
(* UnmarshalText of an arbitrary text *)
| CTimeText (text : list N) (parsed : option (Z * Z))
(* json.Marshal of a generic tree (maps: keys in Marshal's sorted order) *)
| CJsonPrint (v : jvalue) (out : list N)
(* a text through encoding/json: json.Valid; the tree Unmarshal builds in an interface{} with UseNumber
   (objects as maps: keys sorted, last duplicate wins); the tree the Decoder's token stream spells
   (members in order, duplicates kept) *)
| CJsonParse (text : list N) (valid : bool) (as_map ordered : option jvalue)
(* n times [ (or {"a":) then the closing brackets: the nesting limit *)
| CJsonDeep (obj : bool) (n : N) (valid : bool)
(* a payload value of the Go type described by t: the float texts seen in this run (float, text), the bytes of
   json.Marshal(x), those of json.Marshal(&x) when they differ, and what json.Unmarshal makes of the bytes *)
| CStruct (t : ftype) (v : gval) (floats : list (float * list N)) (by_value : list N)
          (by_pointer : option (list N)) (back : option gval)
(* the same when Marshal(&x) gave the same bytes and Unmarshal gave back a value that prints like x *)
| CStructSame (t : ftype) (v : gval) (floats : list (float * list N)) (by_value : list N)
(* json.Unmarshal of a document into a zero value of the type *)
| CStructDecode (t : ftype) (floats : list (float * list N)) (text : list N) (back : option gval).

Definition oz_eqb (a : option Z) (b : Z) : bool := match a with Some x => x =? b | None => false end.
Definition obeqb := outcome_eqb bytes_eqb.
Definition opair_eqb (a b : outcome (list N * list N)) : bool :=
  outcome_eqb (fun x y => bytes_eqb (fst x) (fst y) && bytes_eqb (snd x) (snd y)) a b.

Definition in_u32 (z : Z) : bool := (0 <=? z) && (z <? 4294967296).

Definition is_none {A} (o : option A) : bool := match o with None => true | Some _ => false end.

Definition ozz_eqb (a b : option (Z * Z)) : bool :=
  match a, b with
  | Some (s1, o1), Some (s2, o2) => (s1 =? s2) && (o1 =? o2)
  | None, None => true
  | _, _ => false
  end.

Definition ojv_eqb (a b : option jvalue) : bool :=
  match a, b with
  | Some x, Some y => jvalue_eqb x y
  | None, None => true
  | _, _ => false
  end.

Definition deep_text (obj : bool) (n : nat) : list N :=
  if obj then concat (repeat [123; 34; 97; 34; 58]%N n) ++ [49%N] ++ repeat 125%N n
  else repeat 91%N n ++ repeat 93%N n.

Definition codec_of (floats : list (float * list N)) : fcodec := table_codec floats.

(* the instants RFC 3339 can carry: local year 0..9999, zone offset a whole number of minutes, less than a day *)
Definition rfc3339_range (secs off : Z) : bool :=
  (-62167219200 <=? secs + off) && (secs + off <=? 253402300799) &&
  (off mod 60 =? 0) && (-86400 <? off) && (off <? 86400).

Definition check_struct (t : ftype) (v : gval) (floats : list (float * list N)) (by_value : list N)
    (by_pointer : option (list N)) (back : option gval) : N :=
  let c := codec_of floats in
  let dec := decode c t by_value in
  code (bytes_eqb (encode c t v) by_value && is_none by_pointer && ogval_eqb dec back)
       (* a value of the claimed domain comes back, from Go's decoder and from the model's reading of the
          observed bytes (the keys of the specification), as its normal form *)
       (negb (twf t && has_type t false v) ||
        (ogval_eqb back (Some (norm t false v)) && ogval_eqb dec (Some (norm t false v)))).

Definition check (c : case) : N :=
  match c with
  | CFreq f m e o_back =>
    code (PrimFloat.eqb (freq_marshal f) (float_of_me m e) && oz_eqb (freq_unmarshal_code (float_of_me m e)) o_back)
         (negb (in_u32 f) || (o_back =? f))
  | CPct p m e o_back =>
    code (PrimFloat.eqb (pct_marshal p) (float_of_me m e) && oz_eqb (pct_unmarshal_code (float_of_me m e)) o_back)
         (negb (in_u32 p || ((-1000 <=? p) && (p <? 0))) || (o_back =? p))
  | CFreqText m e o => code (oz_eqb (freq_unmarshal_code (float_of_me m e)) o) true
  | CPctText m e o => code (oz_eqb (pct_unmarshal_code (float_of_me m e)) o) true
  | CHexRT bs o_text o_back o_back0x =>
    code (bytes_eqb (hexbytes_marshal bs) o_text && obeqb (hexbytes_unmarshal o_text) o_back
          && obeqb (hexbytes_unmarshal (48 :: 120 :: o_text)%N) o_back0x)
         (obeqb o_back (Ok bs) && obeqb o_back0x (Ok bs))
  | CHexRTSame bs o_text =>
    code (bytes_eqb (hexbytes_marshal bs) o_text)
         (Nat.eqb (length o_text) (2 * length bs) && obeqb (hexbytes_unmarshal o_text) (Ok bs)
          && obeqb (hexbytes_unmarshal (48 :: 120 :: o_text)%N) (Ok bs))
  | CHexText text o =>
    code (obeqb (hexbytes_unmarshal text) o)
         (match o with Ok bs => Nat.eqb (length (trim0x text)) (2 * length bs) | _ => true end)
  | CEnvNew label kek key o o_unwrap =>
    (* the model's Unwrap of the observed envelope, evaluated once: compared with the observed
       Unwrap result (bit 0) and with the key (bit 1: the observed envelope unwraps, by RFC 3394
       under this KEK, to the key) *)
    let u := match o with Ok (_, w) => envelope_unwrap_any w kek | _ => Err end in
    code (opair_eqb (new_key_envelope_any label kek key) o &&
          match o with Ok _ => obeqb u o_unwrap | _ => true end)
         (match o with
          | Ok (l, w) =>
            if is_nil label || is_nil kek
            then is_nil l && bytes_eqb w key                      (* no label: key in clear *)
            else bytes_eqb l label && obeqb o_unwrap (Ok key)      (* wrapped: unwraps to the key *)
                 && obeqb u (Ok (copy16 key)) && Nat.eqb (length w) (8 * (length key / 8) + 8)
          | _ => negb (kek_len_ok kek) && negb (is_nil label || is_nil kek)
          end)
  | CEnvUnwrap aeskey kek o =>
    (* data of any length.  The raw RFC 3394 unwrap is evaluated once and only for 24 bytes of data;
       [envelope_unwrap_from_raw d (unwrap_raw_any kek d)] is [envelope_unwrap_any d kek]
       (EnvelopeAnyProofs.envelope_unwrap_any_from_raw) *)
    if negb (Nat.eqb (length aeskey) 24)
    then code (obeqb Err o) (is_err o)                    (* not three 64-bit blocks: the error, never a key, never a panic *)
    else
      let r := unwrap_raw_any kek aeskey in
      code (obeqb (envelope_unwrap_from_raw aeskey r) o)
           (match r with
            | None => is_err o                                  (* a KEK length crypto/aes refuses *)
            | Some (iv, plain) =>
              match o with
              | Ok k => bytes_eqb iv default_iv && bytes_eqb k plain && Nat.eqb (length k) 16
              | Err => negb (bytes_eqb iv default_iv)
              | _ => false
              end
            end)
  | CTime secs off text parsed =>
    code (bytes_eqb (format_rfc3339 secs off) text && ozz_eqb (parse_rfc3339 text) parsed)
         (negb (rfc3339_range secs off) ||
          (match parsed with Some (s', _) => s' =? secs | None => false end   (* the instant survives, to one second *)
           && (Nat.eqb (length text) 20 || Nat.eqb (length text) 25)))
  | CTimeText text parsed =>
    code (ozz_eqb (parse_rfc3339 text) parsed) true
  | CJsonPrint v out =>
    code (bytes_eqb (json_print v) out)
         (* a well-formed tree comes back from the observed text *)
         (negb (jwf v && Nat.leb (jdepth v) max_depth) ||
          match json_parse out with POk v' => jvalue_eqb v' v | _ => false end)
  | CJsonParse text valid as_map ordered =>
    match json_parse text with
    | POk v => code (valid && ojv_eqb as_map (Some (canon v)) && ojv_eqb ordered (Some v)) true
    | PErr => code (negb valid) true
    | PFuel => 3%N                       (* the parser ran out of fuel: JsonProofs.json_parse_total is violated *)
    end
  | CStruct t v floats by_value by_pointer back => check_struct t v floats by_value by_pointer back
  | CStructSame t v floats by_value => check_struct t v floats by_value None (Some v)
  | CStructDecode t floats text back =>
    code (ogval_eqb (decode (codec_of floats) t text) back) true
  | CJsonDeep obj n valid =>
    match json_parse (deep_text obj (N.to_nat n)) with
    | POk _ => code valid true
    | PErr => code (negb valid) true
    | PFuel => 3%N
    end
  end.

Definition run_cases := run_with check.
